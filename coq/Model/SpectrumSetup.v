(* The part of an `SPDC` value that the spectrum / normalisation / efficiency code of C07 and C08 reads, as a record of
   reals, plus the kernels that code calls but that are not modelled here (refractive indices, Snell's law, the two
   fibre-coupling integrals) as function-valued fields (oracles).  The translator (tools/gen/spectrum.py) maps every
   `spdc.<path>` the translated functions touch onto one of these fields and refuses (`UNTRANSLATABLE`) any other access, so
   the record is exactly the data the generated definitions depend on.  Definitions only. *)
From Coq Require Import Reals.
Local Open Scope R_scope.

Record setup : Type := {
  omega_p : R;          (* spdc.pump.frequency()            [rad/s] *)
  omega_s0 : R;         (* spdc.signal.frequency()  (centre) *)
  omega_i0 : R;         (* spdc.idler.frequency()   (centre) *)
  fwhm : R;             (* spdc.pump_bandwidth              [m]  wavelength FWHM of the pump *)
  threshold : R;        (* spdc.pump_spectrum_threshold *)
  pp_off : bool;        (* spdc.pp == PeriodicPoling::Off *)
  len : R;              (* spdc.crystal_setup.length        [m] *)
  power : R;            (* spdc.pump_average_power          [mW = g m^2/s^3, the UCUM base] *)
  deff : R;             (* spdc.deff                        [m/mV] *)
  wpx : R; wpy : R;     (* spdc.pump.waist()   .x .y *)
  wsx : R; wsy : R;     (* spdc.signal.waist() .x .y *)
  wix : R; wiy : R;     (* spdc.idler.waist()  .x .y *)
  theta_s_e : R;        (* oracle: spdc.signal.theta_external(&spdc.crystal_setup)  (Snell) *)
  theta_i_e : R;        (* oracle: spdc.idler.theta_external(&spdc.crystal_setup) *)
  n_s : R -> R;         (* oracle: omega |-> spdc.signal.refractive_index(omega, &spdc.crystal_setup) *)
  n_i : R -> R;         (* oracle: omega |-> spdc.idler.refractive_index(omega, &spdc.crystal_setup) *)
  pm_re : R -> R -> R;  (* oracle: Re phasematch_fiber_coupling(omega_s, omega_i, spdc, integrator)  [the C05/C06/C08 integrand] *)
  pm_im : R -> R -> R;  (* oracle: Im of the same *)
  pm_singles : R -> R -> R;  (* oracle: phasematch_singles_fiber_coupling(omega_s, omega_i, spdc, integrator) *)
}.

(* the same setup with the pump power multiplied by a and deff multiplied by b; everything else -- in particular the
   oracles, which the frame scan of the translator shows cannot read power or deff -- unchanged *)
Definition scale_setup (a b : R) (s : setup) : setup :=
  {| omega_p := omega_p s; omega_s0 := omega_s0 s; omega_i0 := omega_i0 s; fwhm := fwhm s; threshold := threshold s;
     pp_off := pp_off s; len := len s; power := a * power s; deff := b * deff s;
     wpx := wpx s; wpy := wpy s; wsx := wsx s; wsy := wsy s; wix := wix s; wiy := wiy s;
     theta_s_e := theta_s_e s; theta_i_e := theta_i_e s; n_s := n_s s; n_i := n_i s;
     pm_re := pm_re s; pm_im := pm_im s; pm_singles := pm_singles s |}.
