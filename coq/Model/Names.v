(* String forms of the enums (C16): PMType::from_str as the regex if-chain over the TRANSLATED literals,
   PolarizationType::from_str as lower-casing + the translated arm table.  Definitions only. *)
From Coq Require Import Ascii String List Bool.
From SpdVerif Require Import Spec.ConfigSpec Gen.ConfigTables Model.Regex.
Import ListNotations.
Local Open Scope string_scope.

Definition pm_from_str (s : string) : option pm_type := first_match pm_regex_table s.

(* every literal of the table is inside the supported regex syntax *)
Definition pm_regexes_compile : bool :=
  forallb (fun p => match compile (fst p) with Some _ => true | None => false end) pm_regex_table.

Definition lower_string (s : string) : string := string_of_list_ascii (map lower (list_ascii_of_string s)).

Fixpoint lookup {A : Type} (table : list (string * A)) (s : string) : option A :=
  match table with
  | [] => None
  | (k, v) :: rest => if String.eqb k s then Some v else lookup rest s
  end.

Definition pol_from_str (s : string) : option polarization :=
  lookup pol_from_str_table (if pol_from_str_lowercases then lower_string s else s).

(* all strings of length <= n over an alphabet (for the bounded exhaustive comparison with the implementation) *)
Fixpoint strings_upto (alphabet : list ascii) (n : nat) : list string :=
  match n with
  | O => [EmptyString]
  | S k => EmptyString :: flat_map (fun c => map (String c) (strings_upto alphabet k)) alphabet
  end.
Fixpoint strings_exact (alphabet : list ascii) (n : nat) : list string :=
  match n with
  | O => [EmptyString]
  | S k => flat_map (fun c => map (String c) (strings_exact alphabet k)) alphabet
  end.

(* compact result code of pm_from_str, one character per string: 0..4 = variant index, '-' = Err *)
Definition pm_code (r : option pm_type) : ascii :=
  match r with
  | Some Type0_o_oo => "0" | Some Type0_e_ee => "1" | Some Type1_e_oo => "2"
  | Some Type2_e_eo => "3" | Some Type2_e_oe => "4" | None => "-"
  end%char.
Definition pm_codes (l : list string) : string :=
  let tbl := compile_table pm_regex_table in
  string_of_list_ascii (map (fun s => pm_code (first_match_c tbl (list_ascii_of_string s))) l).
(* codes of all strings  prefix ++ w,  w over the alphabet with length <= n, in the enumeration order of strings_upto *)
Definition pm_codes_prefix (alphabet prefix : string) (n : nat) : string :=
  pm_codes (map (append prefix) (strings_upto (list_ascii_of_string alphabet) n)).
