(* Composition: the oracle record of Model/Config.v INSTANTIATED, over the reals, with the generated / proved models of the
   kernels it abstracts:
     IdlerBeam::try_new_optimum        Gen/Idler.v + Model/Idler.v        (C03)
     optimum_poling_period, compute_sign, optimum_theta, Nelder-Mead     Gen/AutoCalc.v + Model/AutoCalc.v + Model/NM1d.v (C04)
     Beam::theta_external, CrystalSetup::optimal_waist_position           closed forms over the index function
   Parameters that remain: the index function of a crystal setup (any function; Compose_index.crystal_index for built-in
   crystals), the Snell inverse Beam::calc_internal_theta_from_external (property C13), the termination tests of the two
   simplex searches (the theorems hold for any).  Definitions only. *)
From Coq Require Import Reals List Bool.
From SpdVerif Require Import Base.Rx Base.Vec3 Base.CfgNumOps Model.NumInst Spec.ConfigSpec Gen.ConfigTables Model.ConfigTypes Model.Config.
From SpdVerif Require Gen.Idler Model.Idler Gen.AutoCalc Model.AutoCalc Model.NM1d.
Import ListNotations.
Local Open Scope R_scope.

Module GI := SpdVerif.Gen.Idler.
Module MI := SpdVerif.Model.Idler.
Module GA := SpdVerif.Gen.AutoCalc.
Module MA := SpdVerif.Model.AutoCalc.
Module NM := SpdVerif.Model.NM1d.

(* ---- the same enums, declared once per group *)
Definition ipm (t : pm_type) : GI.pm_type :=
  match t with
  | Type0_o_oo => GI.Type0_o_oo | Type0_e_ee => GI.Type0_e_ee | Type1_e_oo => GI.Type1_e_oo
  | Type2_e_eo => GI.Type2_e_eo | Type2_e_oe => GI.Type2_e_oe
  end.
Definition ipol (p : polarization) : GI.polarization := match p with Ordinary => GI.Ordinary | Extraordinary => GI.Extraordinary end.
Definition upol (p : GI.polarization) : polarization := match p with GI.Ordinary => Ordinary | GI.Extraordinary => Extraordinary end.

(* a beam of Model/Config.v as a beam of Model/Idler.v (Beam::new of its stored values) *)
Definition ib (b : beam R) : MI.beam := MI.beam_new (ipol (b_pol b)) (b_phi b) (b_theta b) (b_wavelength b) (b_waist b, b_waist b).
Definition ipump (b : beam R) : MI.beam := MI.pump_new (ipol (b_pol b)) (b_wavelength b) (b_waist b, b_waist b).
Definition ipp (pp : poling R) : MI.poling :=
  match pp with PolOff => MI.PPOff | PolOn p Pos _ => MI.PPOn p true | PolOn p Neg _ => MI.PPOn p false end.

Section Composed.
  (* CrystalSetup::index_along of a crystal setup: wavelength (m), direction, polarization *)
  Variable index_of : crystal_setup R -> R -> vec -> GI.polarization -> R.
  (* Beam::calc_internal_theta_from_external (C13) *)
  Variable snell_inv : beam R -> R -> crystal_setup R -> option R.
  (* termination tests of the angle / period searches *)
  Variable sd_theta sd_period : @NM.ecost R -> @NM.ecost R -> bool.

  (* delta_kz closure of optimum_poling_period / compute_sign *)
  Definition dkz_c (s p : beam R) (cs : crystal_setup R) (pp : MI.poling) : R :=
    MA.dkz_of (index_of cs) (ipm (cs_pm cs)) (cs_counter cs) (ib s) (ipump p) pp.

  (* cost closure of CrystalSetup::optimum_theta: crystal angle := theta; signal.set_theta_external(theta_s_e, crystal);
     optimum idler without poling; |delta k z| *)
  Definition theta_cost_c (cs0 : crystal_setup R) (e : R) (s p : beam R) (theta : R) : R :=
    let cs := set_crystal_theta cs0 theta in
    match snell_inv s (Rabs e) cs with
    | Some ti => Rabs (dkz_c (set_angles R_ops s (b_phi s) ti) p cs MI.PPOff)
    | None => 0
    end.

  Definition oracles_of_model : oracles R := {|
    o_snell_inv := snell_inv;
    (* Beam::calc_external_theta_from_internal: asin (n sin theta), n along the beam's own direction *)
    o_snell_ext := fun b cs =>
      Some (asin (index_of cs (b_wavelength b) (GI.direction_from_polar (b_phi b) (b_theta b)) (ipol (b_pol b)) * sin (b_theta b)));
    o_nm_theta := fun cs0 e s p => Some (MA.optimum_theta (theta_cost_c cs0 e s p) MA.real_ops sd_theta);
    o_dkz0 := fun s p cs => dkz_c s p cs MI.PPOff;
    o_nm_period := fun s p cs => Some (MA.nm_period (dkz_c s p cs) MA.real_ops sd_period (cs_length cs));
    (* the emission angle of IdlerBeam::try_new_optimum (before Beam::new normalises it) *)
    o_idler_theta := fun s p cs pp =>
      Some (GI.idler_theta (cs_counter cs) (MI.b_theta (ib s)) (MI.opt_val (index_of cs) (ib s) (ipump p) (ipp pp)));
    (* CrystalSetup::optimal_waist_position = -0.5 L / n_z *)
    o_waist_pos := fun cs l pol => Some (- (1 / 2) * cs_length cs / index_of cs l ez (ipol pol))
  |}.
End Composed.
