(* Composition: the oracle record of Model/Config.v INSTANTIATED, over the reals, with the generated / proved models of the
   kernels it abstracts:
     IdlerBeam::try_new_optimum        Gen/Idler.v + Model/Idler.v        (C03)
     optimum_poling_period, compute_sign, optimum_theta, Nelder-Mead     Gen/AutoCalc.v + Model/AutoCalc.v + Model/NM1d.v (C04)
     Beam::theta_external, CrystalSetup::optimal_waist_position           closed forms over the index function
   Parameters that remain: the index function of a crystal setup (any function; Compose_index.crystal_index for built-in
   crystals), the Snell inverse Beam::calc_internal_theta_from_external (property C13), the termination tests of the two
   simplex searches (the theorems hold for any).  Every partial floating-point operation carries its definedness guard:
   the oracle answers None (the implementation: NaN, and a panic where a search meets it) outside the guard.  Definitions only. *)
From Coq Require Import Reals List Bool.
From SpdVerif Require Import Base.Rx Base.Vec3 Base.CfgNumOps Model.NumInst Spec.ConfigSpec Gen.ConfigTables Model.ConfigTypes Model.Config.
From SpdVerif Require Gen.Idler Model.Idler Gen.AutoCalc Model.AutoCalc Model.NM1d.
Import ListNotations.
Local Open Scope R_scope.

Module GI := SpdVerif.Gen.Idler.
Module MI := SpdVerif.Model.Idler.
Module GA := SpdVerif.Gen.AutoCalc.
Module MA := SpdVerif.Model.AutoCalc.
Module NM := SpdVerif.Model.NM1d.

(* ---- the same enums, declared once per group *)
Definition ipm (t : pm_type) : GI.pm_type :=
  match t with
  | Type0_o_oo => GI.Type0_o_oo | Type0_e_ee => GI.Type0_e_ee | Type1_e_oo => GI.Type1_e_oo
  | Type2_e_eo => GI.Type2_e_eo | Type2_e_oe => GI.Type2_e_oe
  end.
Definition ipol (p : polarization) : GI.polarization := match p with Ordinary => GI.Ordinary | Extraordinary => GI.Extraordinary end.
Definition upol (p : GI.polarization) : polarization := match p with GI.Ordinary => Ordinary | GI.Extraordinary => Extraordinary end.

(* a beam of Model/Config.v as a beam of Model/Idler.v (Beam::new of its stored values) *)
Definition ib (b : beam R) : MI.beam := MI.beam_new (ipol (b_pol b)) (b_phi b) (b_theta b) (b_wavelength b) (b_waist b, b_waist b).
Definition ipump (b : beam R) : MI.beam := MI.pump_new (ipol (b_pol b)) (b_wavelength b) (b_waist b, b_waist b).
Definition ipp (pp : poling R) : MI.poling :=
  match pp with PolOff => MI.PPOff | PolOn p Pos _ => MI.PPOn p true | PolOn p Neg _ => MI.PPOn p false end.

Section Composed.
  (* CrystalSetup::index_along of a crystal setup: wavelength (m), direction, polarization *)
  Variable index_of : crystal_setup R -> R -> vec -> GI.polarization -> R.
  (* Beam::calc_internal_theta_from_external (C13) *)
  Variable snell_inv : beam R -> R -> crystal_setup R -> option R.
  (* termination tests of the angle / period searches *)
  Variable sd_theta sd_period : @NM.ecost R -> @NM.ecost R -> bool.

  (* ---- definedness of the partial floating-point operations (each None below is a NaN / +-inf in the implementation) *)
  Definition Rleb (a b : R) : bool := if Rle_dec a b then true else false.
  Definition Rltb (a b : R) : bool := if Rlt_dec a b then true else false.
  Definition in_unit (x : R) : bool := Rleb (-1) x && Rleb x 1.

  (* Beam::calc_external_theta_from_internal: asin (n sin theta) needs |n sin theta| <= 1 -- no total internal reflection *)
  Definition snell_arg (b : beam R) (cs : crystal_setup R) : R :=
    index_of cs (b_wavelength b) (GI.direction_from_polar (b_phi b) (b_theta b)) (ipol (b_pol b)) * sin (b_theta b).
  Definition snell_ext_defined (b : beam R) (cs : crystal_setup R) : bool := in_unit (snell_arg b cs).

  (* IdlerBeam::try_new_optimum: val = ns sin(theta_s) / sqrt(arg) needs arg > 0, asin(val) needs |val| <= 1 *)
  Definition idler_defined (s p : beam R) (cs : crystal_setup R) (pp : MI.poling) : bool :=
    Rltb 0 (MI.opt_arg (index_of cs) (ib s) (ipump p) pp) && in_unit (MI.opt_val (index_of cs) (ib s) (ipump p) pp).

  (* CrystalSetup::optimal_waist_position = -0.5 L / n_z needs n_z <> 0 *)
  Definition waist_defined (cs : crystal_setup R) (l : R) (pol : polarization) : bool :=
    if Req_EM_T (index_of cs l ez (ipol pol)) 0 then false else true.

  (* delta_kz closure of optimum_poling_period / compute_sign *)
  Definition dkz_c (s p : beam R) (cs : crystal_setup R) (pp : MI.poling) : R :=
    MA.dkz_of (index_of cs) (ipm (cs_pm cs)) (cs_counter cs) (ib s) (ipump p) pp.

  (* cost closure of CrystalSetup::optimum_theta: crystal angle := theta; signal.set_theta_external(theta_s_e, crystal);
     optimum idler without poling; |delta k z| *)
  Definition theta_cost_c (cs0 : crystal_setup R) (e : R) (s p : beam R) (theta : R) : R :=
    let cs := set_crystal_theta cs0 theta in
    match snell_inv s e cs with
    | Some ti => Rabs (dkz_c (set_angles R_ops s (b_phi s) ti) p cs MI.PPOff)
    | None => 0
    end.
  (* ... is defined at a candidate angle: out of bounds (the cost is +inf without evaluating the closure), or the Snell
     inverse answers and the unpoled optimum idler is defined *)
  Definition theta_cost_defined (cs0 : crystal_setup R) (e : R) (s p : beam R) (theta : R) : bool :=
    GA.nm_out_of_bounds theta GA.oth_min GA.oth_max ||
    (let cs := set_crystal_theta cs0 theta in
     match snell_inv s e cs with
     | Some ti => idler_defined (set_angles R_ops s (b_phi s) ti) p cs MI.PPOff
     | None => false
     end).
  (* every candidate the angle search evaluates (Model/NM1d.v records them) has a defined cost: otherwise the cost is NaN and
     the implementation's search fails *)
  Definition theta_search_defined (cs0 : crystal_setup R) (e : R) (s p : beam R) : bool :=
    forallb (theta_cost_defined cs0 e s p)
      (NM.strace (NM.nm_run MA.Rltb MA.real_ops (MA.th_cost (theta_cost_c cs0 e s p)) sd_theta
                    (GA.oth_seed0 GA.oth_guess) (GA.oth_seed1 GA.oth_guess) GA.oth_max_iter)).

  (* likewise the cost closure `pm` of optimum_poling_period at a candidate period *)
  Definition period_cost_defined (s p : beam R) (cs : crystal_setup R) (x : R) : bool :=
    GA.nm_out_of_bounds x GA.opp_min_period (GA.opp_max_period (cs_length cs)) ||
    idler_defined s p cs (MI.PPOn (x * 1) (GI.sign_from (dkz_c s p cs MI.PPOff))).
  Definition period_search_defined (s p : beam R) (cs : crystal_setup R) : bool :=
    idler_defined s p cs MI.PPOff &&
    forallb (period_cost_defined s p cs)
      (NM.strace (NM.nm_run MA.Rltb MA.real_ops (MA.pol_cost (dkz_c s p cs) (cs_length cs)) sd_period
                    (GA.opp_seed0 (GA.opp_guess (MA.z0 (dkz_c s p cs)))) (GA.opp_seed1 (GA.opp_guess (MA.z0 (dkz_c s p cs))))
                    GA.opp_max_iter)).

  (* since /repo d569966 (Gen/AutoCalc.v: nm_nan_cost_is_infinite, read off Cost1d::cost) an undefined cost is +infinity for the
     solver, which carries on: the searches with the guarded costs *)
  Definition th_cost_g (cs0 : crystal_setup R) (e : R) (s p : beam R) (x : R) : @NM.ecost R :=
    if theta_cost_defined cs0 e s p x then MA.th_cost (theta_cost_c cs0 e s p) x else NM.CInf.
  Definition optimum_theta_g (cs0 : crystal_setup R) (e : R) (s p : beam R) : R :=
    NM.nm_result MA.Rltb MA.real_ops (th_cost_g cs0 e s p) sd_theta (GA.oth_seed0 GA.oth_guess) (GA.oth_seed1 GA.oth_guess) GA.oth_max_iter * 1.
  Definition pol_cost_g (s p : beam R) (cs : crystal_setup R) (x : R) : @NM.ecost R :=
    if period_cost_defined s p cs x then MA.pol_cost (dkz_c s p cs) (cs_length cs) x else NM.CInf.
  Definition nm_period_g (s p : beam R) (cs : crystal_setup R) : R :=
    NM.nm_result MA.Rltb MA.real_ops (pol_cost_g s p cs) sd_period
      (GA.opp_seed0 (GA.opp_guess (MA.z0 (dkz_c s p cs)))) (GA.opp_seed1 (GA.opp_guess (MA.z0 (dkz_c s p cs)))) GA.opp_max_iter.

  Definition oracles_of_model : oracles R := {|
    o_snell_inv := snell_inv;
    (* Beam::calc_external_theta_from_internal: asin (n sin theta), n along the beam's own direction *)
    o_snell_ext := fun b cs => if snell_ext_defined b cs then Some (asin (snell_arg b cs)) else None;
    (* the crystal-angle search: with the NaN-safe solver it always answers (undefined candidates cost +infinity); before, a
       candidate with an undefined cost made it fail *)
    o_nm_theta := fun cs0 e s p =>
      if GA.nm_nan_cost_is_infinite then Some (optimum_theta_g cs0 e s p)
      else if theta_search_defined cs0 e s p then Some (MA.optimum_theta (theta_cost_c cs0 e s p) MA.real_ops sd_theta) else None;
    o_dkz0 := fun s p cs => dkz_c s p cs MI.PPOff;
    (* the period search: None = no finite period (the unpoled mismatch it starts from is undefined: NaN seeds, NaN result) *)
    o_nm_period := fun s p cs =>
      if GA.nm_nan_cost_is_infinite then (if idler_defined s p cs MI.PPOff then Some (nm_period_g s p cs) else None)
      else if period_search_defined s p cs then Some (MA.nm_period (dkz_c s p cs) MA.real_ops sd_period (cs_length cs)) else None;
    (* the emission angle of IdlerBeam::try_new_optimum (before Beam::new normalises it) *)
    o_idler_theta := fun s p cs pp =>
      if idler_defined s p cs (ipp pp)
      then Some (GI.idler_theta (cs_counter cs) (MI.b_theta (ib s)) (MI.opt_val (index_of cs) (ib s) (ipump p) (ipp pp)))
      else None;
    (* CrystalSetup::optimal_waist_position = -0.5 L / n_z *)
    o_waist_pos := fun cs l pol =>
      if waist_defined cs l pol then Some (- (1 / 2) * cs_length cs / index_of cs l ez (ipol pol)) else None
  |}.
End Composed.
