(* L4 model of the normalised joint spectra (src/jsa/joint_spectrum.rs: JointSpectrum::new and its accessors;
   src/spdc/spdc_iter.rs: SPDCIter::jsi_values / jsi_values_normalized), over the reals.
   Oracles: the raw amplitude / singles intensity (jsa_raw, jsi_singles_raw for a fixed integrator), the two
   normalisation factors (jsi_normalization, jsi_singles_normalization as plain numbers), and -- through
   Model/Config.v -- the optimiser kernels behind SPDC::try_as_optimum.  Definitions only. *)
From Coq Require Import Reals List.
From Coquelicot Require Import Complex.
From SpdVerif Require Import Base.CfgNumOps Model.NumInst Spec.ConfigSpec Model.ConfigTypes Model.Config.
Import ListNotations.
Local Open Scope R_scope.

Section Spectrum.
  Variable K : oracles R.
  Variable minpos : R.
  Variable old_poling old_idler : bool.      (* the two source-derived flags of try_as_optimum (Model/Config.v) *)
  Variable jsa_raw : spdc R -> R -> R -> C.            (* setup, omega_s, omega_i *)
  Variable singles_raw : spdc R -> R -> R -> R.
  Variable norm_jsi : spdc R -> R -> R -> R.           (* jsi_normalization / JsiNorm::new(1.) *)
  Variable norm_singles : spdc R -> R -> R -> R.
  (* Beam::frequency of the setup's signal / idler (the model stores wavelengths; any fixed map will do) *)
  Variable freq : beam R -> R.

  Definition center (s : spdc R) : R * R := (freq (s_signal s), freq (s_idler s)).

  (* ---- unnormalised accessors (functions of the setup only) *)
  Definition jsa_of (s : spdc R) (ws wi : R) : C :=
    let a := jsa_raw s ws wi in
    if Ceq_dec a 0 then 0%C else Cmult (RtoC (sqrt (norm_jsi s ws wi))) a.
  Definition jsi_of (s : spdc R) (ws wi : R) : R :=
    let a := jsa_raw s ws wi in
    if Ceq_dec a 0 then 0 else norm_jsi s ws wi * (Cmod a) ^ 2.
  Definition singles_of (s : spdc R) (ws wi : R) : R :=
    let j := singles_raw s ws wi in
    if Req_EM_T j 0 then 0 else norm_singles s ws wi * j.

  (* ---- JointSpectrum *)
  Record joint_spectrum := { js_spdc : spdc R; js_jsa_center : R; js_singles_center : R }.

  (* JointSpectrum::new: the two reference values come from the centre of the OPTIMISED clone *)
  Definition joint_spectrum_new (s : spdc R) : outcome joint_spectrum :=
    match try_as_optimum R_ops K minpos old_poling old_idler s with
    | Ok (so, _) =>
        let '(ws0, wi0) := center so in
        Ok {| js_spdc := s;
              js_jsa_center := sqrt (norm_jsi so ws0 wi0) * Cmod (jsa_raw so ws0 wi0);
              js_singles_center := norm_singles so ws0 wi0 * singles_raw so ws0 wi0 |}
    | _ => Panic SiteOptimumUnwrap
    end.

  Definition jsa (j : joint_spectrum) ws wi : C := jsa_of (js_spdc j) ws wi.
  Definition jsi (j : joint_spectrum) ws wi : R := jsi_of (js_spdc j) ws wi.
  Definition jsi_singles (j : joint_spectrum) ws wi : R := singles_of (js_spdc j) ws wi.
  Definition jsa_normalized (j : joint_spectrum) ws wi : C := Cdiv (jsa j ws wi) (RtoC (js_jsa_center j)).
  Definition jsi_normalized (j : joint_spectrum) ws wi : R := jsi j ws wi / (js_jsa_center j) ^ 2.
  Definition jsi_singles_normalized (j : joint_spectrum) ws wi : R := jsi_singles j ws wi / js_singles_center j.
  (* the *_range variants map the pointwise accessors over the grid *)
  Definition jsa_normalized_range j (grid : list (R * R)) := map (fun p => jsa_normalized j (fst p) (snd p)) grid.
  Definition jsi_normalized_range j (grid : list (R * R)) := map (fun p => jsi_normalized j (fst p) (snd p)) grid.
  Definition jsi_singles_normalized_range j (grid : list (R * R)) := map (fun p => jsi_singles_normalized j (fst p) (snd p)) grid.

  (* SPDC::with_swapped_signal_idler *)
  Variable pm_inverse : pm_type -> pm_type.
  Definition swap_signal_idler (s : spdc R) : spdc R :=
    {| s_crystal := {| cs_kind := cs_kind (s_crystal s); cs_pm := pm_inverse (cs_pm (s_crystal s)); cs_phi := cs_phi (s_crystal s);
                       cs_theta := cs_theta (s_crystal s); cs_length := cs_length (s_crystal s);
                       cs_temperature := cs_temperature (s_crystal s); cs_counter := cs_counter (s_crystal s) |};
       s_signal := s_idler s; s_idler := s_signal s; s_pump := s_pump s; s_bandwidth := s_bandwidth s; s_power := s_power s;
       s_threshold := s_threshold s; s_pp := s_pp s; s_zs := s_zi s; s_zi := s_zs s; s_deff := s_deff s |}.
  (* jsi_singles_idler_normalized_range: a NEW spectrum object for the swapped setup, evaluated at (wi, ws) *)
  Definition jsi_singles_idler_normalized_range (j : joint_spectrum) (grid : list (R * R)) : outcome (list R) :=
    match joint_spectrum_new (swap_signal_idler (js_spdc j)) with
    | Ok ji => Ok (map (fun p => jsi_singles_normalized ji (snd p) (fst p)) grid)
    | Err e => Err e
    | Panic st => Panic st
    end.

  (* ---- SPDCIter *)
  Definition jsi_values (setups : list (spdc R)) : list R :=
    map (fun s => let '(ws, wi) := center s in
                  let j := (Cmod (jsa_raw s ws wi)) ^ 2 in
                  if Req_EM_T j 0 then 0 else j * norm_jsi s ws wi) setups.
  Definition jsi_values_normalized (base : spdc R) (setups : list (spdc R)) : outcome (list R) :=
    match try_as_optimum R_ops K minpos old_poling old_idler base with
    | Ok (opt, _) =>
        let '(w0s, w0i) := center opt in
        let jsi_center := (Cmod (jsa_raw opt w0s w0i)) ^ 2 * norm_jsi opt w0s w0i in
        Ok (map (fun s => let '(ws, wi) := center s in
                          let j := (Cmod (jsa_raw s ws wi)) ^ 2 in
                          if Req_EM_T j 0 then 0 else j * (norm_jsi s ws wi / jsi_center)) setups)
    | _ => Panic SiteOptimumUnwrap
    end.
End Spectrum.
