(* C13 — hand-written model of the Beam state machine (definitions only).
   The per-setter state transformers are GENERATED (Gen/Beam.v, from src/beam/mod.rs); this file only adds the op type, the
   dispatcher, the mathematical normal forms the theorems are stated with, and the bookkeeping of "last requested" angles. *)
From Coq Require Import Reals List.
From SpdVerif Require Import Base.Rx Model.Optics Model.Fresnel Gen.Beam.
Import ListNotations.
Local Open Scope R_scope.

(* angle normal forms *)
Definition norm_u (x : R) : R := rem_euclid x (2 * PI).                               (* [0, 2 pi) *)
Definition norm_s (x : R) : R := if Rgt_dec (norm_u x) PI then norm_u x - 2 * PI else norm_u x.   (* (-pi, pi] *)
Definition congruent (a b : R) : Prop := exists k : Z, a = b - 2 * PI * IZR k.

(* every public mutation of a Beam; IntoPump is From<Beam> for PumpBeam *)
Inductive op :=
| SetPhi (phi : R) | SetThetaInternal (theta : R) | SetAngles (phi theta : R) | SetThetaExternal (external : R)
| SetVacuumWavelength (l : R) | SetFrequency (w : R) | SetPolarization (p : polarization) | WithPolarization (p : polarization)
| SetWaist (w : R) | IntoPump.

Section Machine.
(* oracle: Beam::calc_internal_theta_from_external for the crystal set-up in use (argmin Nelder-Mead inside) *)
Variable snell_inv : beam -> R -> R.

Definition step (s : beam) (o : op) : beam :=
  match o with
  | SetPhi phi => set_phi_gen s phi
  | SetThetaInternal th => set_theta_internal_gen s th
  | SetAngles phi th => set_angles_gen s phi th
  | SetThetaExternal e => set_theta_external_gen snell_inv s e
  | SetVacuumWavelength l => set_vacuum_wavelength_gen s l
  | SetFrequency w => set_frequency_gen s w
  | SetPolarization p => set_polarization_gen s p
  | WithPolarization p => with_polarization_gen s p
  | SetWaist w => set_waist_gen s w
  | IntoPump => pump_from_beam_gen s
  end.

Definition run (s : beam) (ops : list op) : beam := fold_left step ops s.

(* the angle a step asks for (None: the step leaves that angle alone) *)
Definition requested_phi (s : beam) (o : op) : option R :=
  match o with
  | SetPhi phi | SetAngles phi _ => Some phi
  | SetThetaExternal _ => Some (b_phi s)
  | IntoPump => Some 0
  | _ => None
  end.
Definition requested_theta (s : beam) (o : op) : option R :=
  match o with
  | SetThetaInternal th | SetAngles _ th => Some th
  | SetThetaExternal e => Some (snell_inv s e)
  | IntoPump => Some 0
  | _ => None
  end.

(* last requested values along a history, starting from the constructor's arguments *)
Fixpoint last_requested (s : beam) (ops : list op) (phi theta : R) : R * R :=
  match ops with
  | [] => (phi, theta)
  | o :: rest =>
    last_requested (step s o) rest
      (match requested_phi s o with Some x => x | None => phi end)
      (match requested_theta s o with Some x => x | None => theta end)
  end.
End Machine.

(* the state invariant of the property *)
Definition beam_inv (s : beam) : Prop :=
  b_direction s = polar_dir (b_phi s) (b_theta s) /\ unit_vec (b_direction s) /\
  0 <= b_phi s < 2 * PI /\ - PI < b_theta s <= PI.

(* Snell *)
Definition snell_forward (n : R) (theta_i : R) : R := asin (n * sin theta_i).
