(* The two instances of NumOps: Q (executed by vm_compute in the correspondence cases; pi is a 40-digit rational
   approximation, so Q results are within 1e-38 relative of the real-number model) and R (theorems). *)
From Coq Require Import ZArith QArith Qround Qabs Reals.
From SpdVerif Require Import Base.CfgNumOps Base.Rx.

(* ---- Q *)
Definition Qround_half_away (x : Q) : Q :=
  if Qle_bool 0 x then inject_Z (Qfloor (x + (1 # 2))) else - inject_Z (Qfloor (- x + (1 # 2))).
Definition Qpi : Q := 31415926535897932384626433832795028841971 # 10000000000000000000000000000000000000000.

Definition Q_ops : NumOps Q := {|
  nadd := fun a b => Qred (a + b);
  nsub := fun a b => Qred (a - b);
  nmul := fun a b => Qred (a * b);
  ndiv := fun a b => Qred (a / b);
  nneg := Qopp;
  nabs := Qabs;
  nleb := Qle_bool;
  nltb := fun a b => negb (Qle_bool b a);
  neqb := Qeq_bool;
  nround := Qround_half_away;
  nfloor := fun a => inject_Z (Qfloor a);
  nQ := fun q => q;
  npi := Qpi
|}.

(* ---- R *)
Local Open Scope R_scope.
Definition R_ops : NumOps R := {|
  nadd := Rplus;
  nsub := Rminus;
  nmul := Rmult;
  ndiv := Rdiv;
  nneg := Ropp;
  nabs := Rabs;
  nleb := fun a b => if Rle_dec a b then true else false;
  nltb := fun a b => if Rlt_dec a b then true else false;
  neqb := fun a b => if Req_EM_T a b then true else false;
  nround := round_half_away;
  nfloor := Rfloor;
  nQ := Q2R;
  npi := PI
|}.
