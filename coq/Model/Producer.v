(* C15 — model of rayon's use of the two custom producers (definitions only):
   binary split trees, an abstract producer (split / drain / reported length), the drivers that rayon's plumbing applies
   to a producer (leaf concatenation = for_each/collect order, enumerate, indexed collect, tree-shaped reduction),
   and the two concrete producers built from the generated split_at / iterator step functions. *)
From Coq Require Import List Arith Bool.
From SpdVerif Require Import Base.GridOps Gen.Grid Model.Grid.
Import ListNotations.

(* a schedule: Leaf = this piece is folded sequentially by one worker; Node k l r = split_at(k), recurse *)
Inductive tree := Leaf | Node (k : nat) (l r : tree).

Record producer (P A : Type) := mk_producer {
  p_split : P -> nat -> outcome (P * P);     (* Producer::split_at, Panic when it panics *)
  p_items : P -> list A;                     (* Producer::into_iter() drained with next() *)
  p_len   : P -> nat                         (* ExactSizeIterator::len() of into_iter(), at creation *)
}.
Arguments p_split {P A} _ _ _.
Arguments p_items {P A} _ _.
Arguments p_len {P A} _ _.

Section Drivers.
Context {P A : Type} (D : producer P A).

(* concatenation of the leaves, left to right (the order every indexed consumer reassembles) *)
Fixpoint run (t : tree) (p : P) : outcome (list A) :=
  match t with
  | Leaf => Ok (p_items D p)
  | Node k l r =>
      obind (p_split D p k) (fun pq =>
      obind (run l (fst pq)) (fun a =>
      obind (run r (snd pq)) (fun b => Ok (a ++ b))))
  end.

(* the leaves themselves *)
Fixpoint leaves (t : tree) (p : P) : outcome (list P) :=
  match t with
  | Leaf => Ok [p]
  | Node k l r =>
      obind (p_split D p k) (fun pq =>
      obind (leaves l (fst pq)) (fun a =>
      obind (leaves r (snd pq)) (fun b => Ok (a ++ b))))
  end.

(* rayon::iter::Enumerate: EnumerateProducer { base, offset }; split_at(k) keeps offset on the left and adds k on the
   right; into_iter() zips (offset .. offset + base.into_iter().len()) with the base iterator *)
Fixpoint run_enum (t : tree) (offset : nat) (p : P) : outcome (list (nat * A)) :=
  match t with
  | Leaf => Ok (combine (seq offset (p_len D p)) (p_items D p))
  | Node k l r =>
      obind (p_split D p k) (fun pq =>
      obind (run_enum l offset (fst pq)) (fun a =>
      obind (run_enum r (offset + k) (snd pq)) (fun b => Ok (a ++ b))))
  end.

(* indexed collect: the consumer owns a target slice of m slots and is split at the same k as the producer; a leaf must
   write exactly as many items as its slice has slots (rayon panics otherwise) *)
Fixpoint run_collect (t : tree) (m : nat) (p : P) : outcome (list A) :=
  match t with
  | Leaf => if (length (p_items D p) =? m)%nat then Ok (p_items D p) else Panic
  | Node k l r =>
      obind (p_split D p k) (fun pq =>
      obind (run_collect l k (fst pq)) (fun a =>
      obind (run_collect r (m - k) (snd pq)) (fun b => Ok (a ++ b))))
  end.

(* map + tree-shaped reduction (sum / reduce): leaves fold sequentially from the identity, nodes combine *)
Fixpoint run_reduce {B} (op : B -> B -> B) (e : B) (f : A -> B) (t : tree) (p : P) : outcome B :=
  match t with
  | Leaf => Ok (fold_left (fun acc a => op acc (f a)) (p_items D p) e)
  | Node k l r =>
      obind (p_split D p k) (fun pq =>
      obind (run_reduce op e f l (fst pq)) (fun a =>
      obind (run_reduce op e f r (snd pq)) (fun b => Ok (op a b))))
  end.
End Drivers.

(* rayon::iter::Map: MapProducer { base, map_op } splits the base and maps the items of each leaf *)
Definition pmap {P A B} (f : A -> B) (D : producer P A) : producer P B :=
  mk_producer _ _ (p_split D) (fun p => map f (p_items D p)) (p_len D).

(* rayon::iter::Enumerate as a producer transformer: EnumerateProducer { base, offset }; split_at(k) keeps the offset on the left
   and adds k on the right; into_iter zips (offset .. offset + base.into_iter().len()) with the base iterator *)
Definition penum {P A} (D : producer P A) : producer (nat * P) (nat * A) :=
  mk_producer _ _
    (fun q k => obind (p_split D (snd q) k) (fun pq => Ok ((fst q, fst pq), (fst q + k, snd pq))))
    (fun q => combine (seq (fst q) (p_len D (snd q))) (p_items D (snd q)))
    (fun q => p_len D (snd q)).

(* rayon's own producer for an index range `(lo..hi).into_par_iter()` (rayon code, trusted like the rest of rayon): the window
   (a, b) stands for the indices a .. b-1 *)
Definition prod_range : producer (nat * nat) nat :=
  mk_producer _ _
    (fun p k => if (k <=? snd p - fst p)%nat then Ok ((fst p, fst p + k), (fst p + k, snd p)) else Panic)
    (fun p => seq (fst p) (snd p - fst p))
    (fun p => snd p - fst p).

(* rayon's own producer for a Vec / slice (`vec.into_par_iter()`, rayon code, trusted): split_at(k) cuts the slice in two *)
Definition prod_list {A} : producer (list A) A :=
  mk_producer _ _
    (fun l k => if (k <=? length l)%nat then Ok (firstn k l, skipn k l) else Panic)
    (fun l => l)
    (fun l => length l).

(* an index range as the code writes it: (lo, hi, inclusive) *)
Definition range_count (r : nat * nat * bool) : nat :=
  let '(lo, hi, incl) := r in if incl then S hi - lo else hi - lo.
Definition range_list (r : nat * nat * bool) : list nat := seq (fst (fst r)) (range_count r).
Definition range_root (r : nat * nat * bool) : nat * nat := (fst (fst r), fst (fst r) + range_count r).

(* split points a driver may use on a producer of length n: lo <= k <= n at every node (lo = 1 for the 1-D producer, whose
   split_at computes `index - 1` on usize; lo = 0 for the 2-D one).  rayon's bridge uses 1 <= k = len/2 <= len-1. *)
Fixpoint admissible (lo : nat) (t : tree) (n : nat) : Prop :=
  match t with
  | Leaf => True
  | Node k l r => lo <= k <= n /\ admissible lo l k /\ admissible lo r (n - k)
  end.
Fixpoint admissibleb (lo : nat) (t : tree) (n : nat) : bool :=
  match t with
  | Leaf => true
  | Node k l r => (lo <=? k)%nat && (k <=? n)%nat && admissibleb lo l k && admissibleb lo r (n - k)
  end.

(* ------------------------------------------------------------------------------------------------ the two producers *)
Section Concrete.
Context {T : Type} (O : ops T).

(* ParIterator1D { steps: Steps(s, e, n) } *)
Definition prod1d : producer (T * T * nat) T :=
  mk_producer _ _
    (fun p k =>
       let '(s, e, n) := p in
       (* usize arithmetic of split_at: `index - 1` and `steps - index` overflow outside 1 <= k <= n *)
       if (1 <=? k)%nat && (k <=? n)%nat then Ok (par1d_split_at O s e n k) else Panic)
    (fun p => let '(s, e, n) := p in collect1d O s e n)
    (fun p => let '(s, e, n) := p in it1d_len n (fst (it1d_new n)) (snd (it1d_new n))).

(* ParIterator2D { it: Iterator2D { steps, partition, index, index_back } } over a fixed grid *)
Definition prod2d (x0 x1 : T) (nx : nat) (y0 y1 : T) (ny : nat) : producer ((nat * nat) * (nat * nat)) (T * T) :=
  mk_producer _ _
    (fun p k =>
       let '((p0, p1), (i, ib)) := p in
       if par2d_split_at_pre p0 p1 i ib k then Ok (par2d_split_at p0 p1 i ib k) else Panic)
    (fun p => let '(part, st) := p in drain (it2d_nxt O x0 x1 nx y0 y1 ny part) (S (snd st - fst st)) st)
    (fun p => let '((p0, p1), (i, ib)) := p in it2d_len p0 p1 i ib).

Definition root1d (s e : T) (n : nat) : T * T * nat := (s, e, n).
Definition root2d (nx ny : nat) : (nat * nat) * (nat * nat) := it2d_new nx ny.
End Concrete.
