(* Hand-written models of the external pieces index_along / to_crystal_frame / walkoff_angle are built from
   (definitions only; the generated Gen/Fresnel.v and Gen/Beam.v refer to these names).

   - polarization           mirrors spdcalc::PolarizationType
   - roots / find_roots_quadratic_monic
                            roots 0.0.8, analytical/quadratic.rs, for a2 = 1 over the reals: the crate's case split on
                            the discriminant (negative: No, zero: One, positive: Two in ascending order).  The crate's
                            "avoid the smallest divisor" variants are algebraically the quadratic formula (trusted base).
   - rot_euler              nalgebra 0.33 Rotation3::from_euler_angles(roll, pitch, yaw) applied to a vector: the matrix
                            is transcribed entry by entry from geometry/rotation_specialization.rs
   - eps64                  f64::EPSILON = 2^-52 *)
From Coq Require Import Reals.
Local Open Scope R_scope.

Inductive polarization := Ordinary | Extraordinary.

Inductive roots := RootsNo | RootsOne (x : R) | RootsTwo (x1 x2 : R).

Definition find_roots_quadratic_monic (a1 a0 : R) : roots :=
  let discriminant := a1 * a1 - 4 * 1 * a0 in
  if Rlt_dec discriminant 0 then RootsNo
  else if Req_EM_T discriminant 0 then RootsOne (- a1 / (2 * 1))
  else RootsTwo ((- a1 - sqrt discriminant) / (2 * 1)) ((- a1 + sqrt discriminant) / (2 * 1)).

Definition vec := (R * R * R)%type.
Definition vx (v : vec) : R := fst (fst v).
Definition vy (v : vec) : R := snd (fst v).
Definition vz (v : vec) : R := snd v.
Definition vdot (u v : vec) : R := vx u * vx v + vy u * vy v + vz u * vz v.
Definition vneg (v : vec) : vec := (- vx v, - vy v, - vz v).
Definition vnorm2 (v : vec) : R := vdot v v.

Definition rot_euler (roll pitch yaw : R) (v : vec) : vec :=
  let sr := sin roll in let cr := cos roll in
  let sp := sin pitch in let cp := cos pitch in
  let sy := sin yaw in let cy := cos yaw in
  ( (cy * cp) * vx v + (cy * sp * sr - sy * cr) * vy v + (cy * sp * cr + sy * sr) * vz v,
    (sy * cp) * vx v + (sy * sp * sr + cy * cr) * vy v + (sy * sp * cr - cy * sr) * vz v,
    (- sp) * vx v + (cp * sr) * vy v + (cp * cr) * vz v ).

(* Unit::new_normalize *)
Definition normalize (v : vec) : vec :=
  let n := sqrt (vnorm2 v) in (vx v / n, vy v / n, vz v / n).

Definition eps64 : R := / 2 ^ 52.
