(* C03 model: beams, wave vectors, phase mismatch and the optimum idler, composed from the definitions that
   tools/gen/idler.py translates from the source (Gen/Idler.v).  Definitions only.

   The refractive index along a direction (CrystalSetup::index_along; property C02's business) is an oracle
   [index : wavelength -> direction -> polarization -> R] (Section variable): every theorem is quantified over it. *)
From Coq Require Import Reals Bool Ascii String List.
From SpdVerif Require Import Base.Rx Base.Vec3 Gen.Idler.
Local Open Scope R_scope.

(* PeriodicPoling::{Off, On {period, sign, ..}}; Sign::POSITIVE = true *)
Inductive poling : Type := PPOff | PPOn (period : R) (positive : bool).

(* PeriodicPoling::k_eff *)
Definition pp_k_eff (pp : poling) : R :=
  match pp with PPOff => pp_k_eff_off | PPOn p s => pp_k_eff_on s p end.

(* `ls / pp.signed_period()` of try_new_optimum: for Off the signed period is f64::INFINITY and IEEE ls / inf = 0 *)
Definition pp_k_pp (pp : poling) (ls : R) : R :=
  match pp with PPOff => 0 | PPOn p s => idler_k_pp ls (pp_signed_period_on s p) end.

(* k_eff needs a non-zero period (the code asserts period > 0) *)
Definition pp_defined (pp : poling) : Prop :=
  match pp with PPOff => True | PPOn p _ => 0 < p end.

(* struct Beam *)
Record beam : Type := mkBeam {
  b_pol : polarization; b_phi : R; b_theta : R; b_omega : R; b_dir : vec; b_waist : R * R }.

(* Beam::new *)
Definition beam_new (pol : polarization) (phi theta lambda : R) (waist : R * R) : beam :=
  {| b_pol := pol; b_phi := beam_new_phi phi; b_theta := beam_new_theta theta;
     b_omega := beam_new_frequency lambda; b_dir := beam_new_direction phi theta; b_waist := waist |}.

(* Beam::vacuum_wavelength *)
Definition b_lambda (b : beam) : R := beam_vacuum_wavelength (b_omega b).

(* From<Beam> for PumpBeam forces both angles to zero *)
Definition pump_new (pol : polarization) (lambda : R) (waist : R * R) : beam := beam_new pol 0 0 lambda waist.

Section WithIndex.
  Variable index : R -> vec -> polarization -> R.

  (* Beam::refractive_index *)
  Definition refractive_index (b : beam) (omega : R) : R :=
    beam_refractive_index index (b_dir b) (b_pol b) omega.

  (* Beam::wavevector *)
  Definition wavevector (b : beam) (omega : R) : vec :=
    beam_wavevector (b_dir b) (refractive_index b omega) omega.

  (* spdcalc::delta_k *)
  Definition delta_k_model (omega_s omega_i : R) (signal idler pump : beam) (pp : poling) : vec :=
    delta_k (wavevector signal) (wavevector idler) (wavevector pump) omega_s omega_i (b_omega pump) (pp_k_eff pp).

  (* the momentum-closing vector kp - ks - k_eff z at the centre frequencies *)
  Definition closing_vector (signal pump : beam) (pp : poling) : vec :=
    vsub (vsub (wavevector pump (b_omega pump)) (wavevector signal (b_omega signal))) (vscale (pp_k_eff pp) ez).

  (* the intermediate quantities of IdlerBeam::try_new_optimum *)
  Definition opt_arg (signal pump : beam) (pp : poling) : R :=
    idler_arg (refractive_index signal (b_omega signal)) (refractive_index pump (b_omega pump))
              (b_lambda signal) (b_lambda pump) (pp_k_pp pp (b_lambda signal)) (b_theta signal).
  Definition opt_val (signal pump : beam) (pp : poling) : R :=
    idler_val (refractive_index signal (b_omega signal)) (b_theta signal) (opt_arg signal pump pp).

  (* IdlerBeam::try_new_optimum; None = Err(SPDCError) *)
  Definition optimum_idler (pm : pm_type) (counter_propagation : bool) (signal pump : beam) (pp : poling) : option beam :=
    if idler_error_cond (b_lambda signal) (b_lambda pump) then None
    else Some (beam_new (idler_polarization pm)
                        (idler_phi (b_phi signal))
                        (idler_theta counter_propagation (b_theta signal) (opt_val signal pump pp))
                        (idler_wavelength (b_lambda signal) (b_lambda pump))
                        (b_waist signal)).

  (* the partial operations of try_new_optimum are defined: sqrt of a positive number, asin of a number in [-1, 1] *)
  Definition optimum_defined (signal pump : beam) (pp : poling) : Prop :=
    0 < b_lambda pump /\ 0 < opt_arg signal pump pp /\ -1 <= opt_val signal pump pp <= 1.
End WithIndex.

(* polarization letters of a phase-matching type's name "TypeN_p_si" *)
Definition pol_of_letter (c : Ascii.ascii) : option polarization :=
  if Ascii.eqb c "o"%char then Some Ordinary else if Ascii.eqb c "e"%char then Some Extraordinary else None.
Definition name_letters (s : String.string) : option (polarization * polarization * polarization) :=
  match List.rev (String.list_ascii_of_string s) with
  | (i :: sg :: u :: p :: _)%list =>
      if Ascii.eqb u "_"%char then
        match pol_of_letter p, pol_of_letter sg, pol_of_letter i with
        | Some a, Some b, Some c => Some (a, b, c)
        | _, _, _ => None
        end
      else None
  | _ => None
  end.
