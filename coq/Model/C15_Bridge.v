(* C15 — rayon::iter::plumbing::bridge_producer_consumer with an explicit steal oracle (definitions only).
   helper(len, migrated, splitter, producer): if splitter.try_split(len, migrated) then split at len/2 and recurse on both halves
   (each half learns from join_context whether it was stolen), else fold sequentially.
   LengthSplitter { inner: Splitter { splits }, min }:
     try_split(len, stolen) = len / 2 >= min && inner.try_split(stolen)
     inner.try_split(stolen) = if stolen { splits = max(num_threads, splits / 2); true }
                               else if splits > 0 { splits /= 2; true } else { false }
   The splitter is Copy: both halves continue from the updated value.  Which jobs are stolen is up to the scheduler: here an
   arbitrary function from the position of a job in the recursion (path of left/right choices) to bool. *)
From Coq Require Import List Arith Bool.
From SpdVerif Require Import Model.Grid Model.Producer.
Import ListNotations.

Definition steal_oracle := list bool -> bool.

(* Splitter::try_split: (split?, new value of splits) *)
Definition splitter_try (threads splits : nat) (stolen : bool) : bool * nat :=
  if stolen then (true, Nat.max threads (splits / 2))
  else if (0 <? splits)%nat then (true, splits / 2) else (false, splits).

(* LengthSplitter::try_split — `&&` is short-circuit: the inner splitter is not touched when the length test fails *)
Definition length_try (min threads len splits : nat) (stolen : bool) : bool * nat :=
  if (min <=? len / 2)%nat then splitter_try threads splits stolen else (false, splits).

(* the split tree the bridge builds; fuel only makes the recursion structural (len halves at every split) *)
Fixpoint bridge_tree (fuel min threads : nat) (steal : steal_oracle) (path : list bool) (len splits : nat) (migrated : bool) : tree :=
  match fuel with
  | 0 => Leaf
  | S f =>
      let '(go, splits') := length_try min threads len splits migrated in
      if go then
        Node (len / 2)
          (bridge_tree f min threads steal (path ++ [false]) (len / 2) splits' (steal (path ++ [false])))
          (bridge_tree f min threads steal (path ++ [true]) (len - len / 2) splits' (steal (path ++ [true])))
      else Leaf
  end.

(* bridge(par_iter, consumer): len = par_iter.len(); LengthSplitter::new(min_len, max_len, len) with the producers' defaults
   min_len = 1, max_len = usize::MAX gives min = max(min_len, 1) and splits = current_num_threads(); helper starts unmigrated *)
Definition bridge (min_len threads : nat) (steal : steal_oracle) (len : nat) : tree :=
  bridge_tree (S len) (Nat.max min_len 1) threads steal [] len threads false.
