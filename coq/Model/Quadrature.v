(* C12 — quadrature: hand-written model layer on top of the translated kernels (Gen/Integration.v).  Definitions only.

   A *rule* is a list of (node, weight); applying it to an integrand is the linear functional  f |-> sum_i w_i f(x_i).
   The fixed-rule integrators of src/math/integration.rs (composite Simpson 1-D/2-D, the gauss-quad adapter) are such
   functionals; Proofs/C12_simpson.v proves that the *translated* `simpson`/`simpson2d` equal the rules below for every
   integrand, and the check extracts the rule the running code applies and compares it with these lists. *)
From Coq Require Import Reals QArith ZArith List Bool.
From Coquelicot Require Import Coquelicot.
From SpdVerif Require Import Base.NumOps Gen.Integration.
Import ListNotations.

Section Generic.
  Variable O : num_ops.
  Definition rule := list (Sc O * Sc O).                       (* (node, weight) *)
  Definition rule2 := list ((Sc O * Sc O) * Sc O).             (* ((x, y), weight) *)

  Definition apply_rule (r : rule) (f : Sc O -> Vc O) : Vc O :=
    vsum O (map (fun nw => vscale O (snd nw) (f (fst nw))) r).
  Definition apply_rule2 (r : rule2) (f : Sc O -> Sc O -> Vc O) : Vc O :=
    vsum O (map (fun nw => vscale O (snd nw) (f (fst (fst nw)) (snd (fst nw)))) r).

  (* tensor product: the y index is the outer one, as in simpson2d and in the nested gauss-quad adapter *)
  Definition tensor (rx ry : rule) : rule2 :=
    flat_map (fun yw => map (fun xw => ((fst xw, fst yw), smul O (snd xw) (snd yw))) rx) ry.

  (* composite Simpson with n divisions on [a, b]: node i is a + i h, weight get_simpson_weight(i, n) * h / 3 *)
  Definition simpson_rule_n (a b : Sc O) (n : Z) : rule :=
    let h := sdiv O (ssub O b a) (s_of_Z O n) in
    map (fun i => (sadd O a (smul O (s_of_Z O i) h),
                   smul O (sdiv O h (s_of_Z O 3)) (get_simpson_weight O i n))) (zrange_incl 0 n).
  (* the 1-D entry point first replaces divs by divs + divs % 2 - 2: [simpson_norm_divs] is that re-binding as translated *)
  Definition simpson_norm (divs : Z) : Z := simpson_norm_divs divs.
  Definition simpson_rule (a b : Sc O) (divs : Z) : rule := simpson_rule_n a b (simpson_norm divs).

  (* the 2-D entry point uses divs as given (on the pinned tree [simpson2d_norm_divs] is the identity), nodes from
     Steps::value, and one factor dx dy / 9 *)
  Definition simpson2d_norm (divs : Z) : Z := simpson2d_norm_divs divs.
  Definition simpson2d_axis (a b : Sc O) (n : Z) : list (Sc O * Sc O) :=   (* (node, integer weight) *)
    map (fun i => (steps_value O a b (n + 1) i, get_simpson_weight O i n)) (zrange 0 (n + 1)).
  Definition simpson2d_rule (ax bx ay by_ : Sc O) (divs : Z) : rule2 :=
    let n := simpson2d_norm divs in
    let c := sdiv O (smul O (sdiv O (ssub O bx ax) (s_of_Z O n)) (sdiv O (ssub O by_ ay) (s_of_Z O n))) (s_of_Z O 9) in
    flat_map (fun yw => map (fun xw => ((fst xw, fst yw), smul O c (smul O (snd yw) (snd xw))))
                            (simpson2d_axis ax bx n)) (simpson2d_axis ay by_ n).

  (* gauss-quad 0.2.4, GaussLegendre::integrate(a, b, f) = scale_factor(a,b) * sum_i f(argument_transformation(x_i,a,b)) * w_i
     with argument_transformation(x,a,b) = 0.5*((b-a)*x + (b+a)), scale_factor(a,b) = 0.5*(b-a)   (external crate, hand model;
     checked against the running code by rule extraction on [a,b] and on [-1,1]) *)
  Definition half : Sc O := s_of_Q O (1 # 2).
  Definition gq_transfer (r : rule) (a b : Sc O) : rule :=
    map (fun nw => (smul O half (sadd O (smul O (ssub O b a) (fst nw)) (sadd O b a)),
                    smul O (smul O half (ssub O b a)) (snd nw))) r.
  (* the oracle the translated Gauss-Legendre arms (Gen/Integration.v: integrate_GaussLegendre, integrate2d_GaussLegendre) are
     instantiated with: a table of rules indexed by the number of points, applied as gauss-quad's integrate does *)
  Definition gl_points (degree : Z) : Z := Z.max degree 2.
  Definition rule_oracle (table : Z -> rule) : Z -> Sc O -> Sc O -> (Sc O -> Sc O) -> Sc O :=
    fun n a b g => ssum O (map (fun nw => smul O (snd nw) (g (fst nw))) (gq_transfer (table n) a b)).
  (* the other two external integrators are never run in the model; these placeholders only fill the section variables of
     the generated adapters when the Gauss-Legendre arm is evaluated *)
  Definition no_cc : (Sc O -> Sc O) -> Sc O -> Sc O -> Sc O -> Sc O := fun _ _ _ _ => s_of_Z O 0.
  Definition no_gk : Sc O -> nat -> (Vc O -> Vc O) -> Vc O -> Vc O -> Vc O := fun _ _ _ _ _ => vzero O.

  (* polynomials with complex coefficients at a real argument: sum_k c_k x^k, Horner *)
  Definition cpoly := list (Vc O).
  Fixpoint cpeval (cs : cpoly) (x : Sc O) : Vc O :=
    match cs with nil => vzero O | c :: t => vadd O c (vscale O x (cpeval t x)) end.
  (* sum_k c_k (b^(k+1) - a^(k+1)) / (k+1), as P(b) - P(a) for the antiderivative P *)
  Fixpoint cprim_from (k : Z) (cs : cpoly) : cpoly :=
    match cs with nil => nil | c :: t => vdiv O c (s_of_Z O k) :: cprim_from (k + 1) t end.
  Definition cprim (cs : cpoly) : cpoly := vzero O :: cprim_from 1 cs.
  Definition cpint (cs : cpoly) (a b : Sc O) : Vc O := vsub O (cpeval (cprim cs) b) (cpeval (cprim cs) a).
End Generic.

(* ------------------------------------------------------------------------------------------------ real side *)
Local Open Scope R_scope.

(* real polynomials, Horner *)
Fixpoint peval (cs : list R) (x : R) : R :=
  match cs with nil => 0 | c :: t => c + x * peval t x end.
Fixpoint prim_from (k : Z) (cs : list R) : list R :=
  match cs with nil => nil | c :: t => c / IZR k :: prim_from (k + 1) t end.
Definition prim (cs : list R) : list R := 0 :: prim_from 1 cs.
Definition pint (cs : list R) (a b : R) : R := peval (prim cs) b - peval (prim cs) a.

(* real-valued rule application and moments *)
Definition rapply (r : rule Rops) (f : R -> R) : R := fold_right (fun nw acc => snd nw * f (fst nw) + acc) 0 r.
Definition moment (r : rule Rops) (k : nat) : R := rapply r (fun x => x ^ k).
(* int_{-1}^{1} x^k dx *)
Definition leg_moment (k : nat) : R := (1 - (-1) ^ (k + 1)) / INR (k + 1).
Definition sum_abs (cs : list R) : R := fold_right (fun c acc => Rabs c + acc) 0 cs.
Definition sum_cmod (cs : list C) : R := fold_right (fun c acc => Cmod c + acc) 0 cs.

(* p(alpha x + beta) as a polynomial in x *)
Fixpoint padd (p q : list R) : list R :=
  match p, q with
  | nil, _ => q
  | _, nil => p
  | a :: p', b :: q' => (a + b) :: padd p' q'
  end.
Definition pscale (s : R) (p : list R) : list R := map (Rmult s) p.
Fixpoint pcomp_affine (cs : list R) (alpha beta : R) : list R :=
  match cs with
  | nil => nil
  | c :: t => let q := pcomp_affine t alpha beta in padd (c :: nil) (padd (pscale beta q) (0 :: pscale alpha q))
  end.

(* number of integrand evaluations of a rule (each node once) *)
Definition rule_evals {A} (r : list A) : nat := length r.

(* ------------------------------------------------------------------------------------------------ exact side (Q) *)
Definition Q2C (z : Q * Q) : C := (Q2R (fst z), Q2R (snd z)).
