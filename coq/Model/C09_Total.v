(* C09 — the remaining code paths of src/spdc/hom.rs hom_rate / hom_rate_series: slices of any length, zero norm, empty
   delay list.  Outcomes carry explicit Panic / NaN / Inf branches.  Definitions only.

   hom_rate:  norm = norm.unwrap_or_else(|| jsi_norm(jsa_values))   -- sums over the WHOLE first slice, never panics
              result = sum over index < cols*rows of (jsa_values[index].conj() * jsa_values_swapped[index] * shift).re
                                                     -- slice indexing: panics when a slice is shorter than the grid
              0.5 * (1. - result / norm)             -- 0/0 = NaN, x/0 = +-inf for x <> 0 (IEEE), real arithmetic otherwise
   hom_rate_series:  norm = jsi_norm(jsa_values);  time_delays.map(|t| hom_rate(.., t, Some(norm))).collect()
                                                     -- an empty delay list never reaches the indexing *)
From Coq Require Import Reals List Bool Arith.
From SpdVerif Require Import Model.FinSum Model.Hom.
Local Open Scope nat_scope.

Inductive hom_outcome : Type :=
| HomPanic            (* index out of bounds *)
| HomNaN              (* 0/0 *)
| HomInf              (* non-zero / 0 *)
| HomVal (r : R).

Definition idx_panics (N lenf leng : nat) : bool := (lenf <? N) || (leng <? N).

Definition hom_rate_total (g : grid R) (f gs : list (cx R)) (tau : R) (norm : option R) : hom_outcome :=
  let N := grid_len g in
  if idx_panics N (length f) (length gs) then HomPanic
  else
    let fa := arr (0, 0)%R f in
    let ga := arr (0, 0)%R gs in
    let nrm := match norm with Some x => x | None => jsi_norm ROps (length f) fa end in
    let result := hom_sum ROps N fa ga (hom_phase g tau) in
    if Req_EM_T nrm 0%R then (if Req_EM_T result 0%R then HomNaN else HomInf)
    else HomVal (1 / 2 * (1 - result / nrm))%R.

Inductive series_outcome : Type :=
| SeriesPanic
| SeriesOk (l : list hom_outcome).

Definition hom_rate_series_total (g : grid R) (f gs : list (cx R)) (taus : list R) : series_outcome :=
  let norm := jsi_norm ROps (length f) (arr (0, 0)%R f) in
  match taus with
  | nil => SeriesOk nil
  | _ => if idx_panics (grid_len g) (length f) (length gs) then SeriesPanic
         else SeriesOk (map (fun tau => hom_rate_total g f gs tau (Some norm)) taus)
  end.

Definition all_zero (f : list (cx R)) : Prop := forall z, In z f -> z = (0, 0)%R.

(* ---- executable twin over Q (phase factors supplied: all 1 at zero delay, Pythagorean powers otherwise) *)
From Coq Require Import QArith.
Inductive outcome_q : Type := QPanic | QNaN | QInf | QVal (q : Q).

Definition hom_rate_total_Q (N : nat) (f gs : list (cx Q)) (u : nat -> cx Q) (norm : option Q) : outcome_q :=
  if idx_panics N (length f) (length gs) then QPanic
  else
    let fa := arr (0, 0)%Q f in
    let ga := arr (0, 0)%Q gs in
    let nrm := match norm with Some x => x | None => jsi_norm QOps (length f) fa end in
    let result := hom_sum QOps N fa ga u in
    if Qeq_bool nrm 0 then (if Qeq_bool result 0 then QNaN else QInf)
    else QVal (hom_rate_gen QOps N fa ga u nrm).

Inductive series_q : Type := SQPanic | SQOk (l : list outcome_q).
Definition hom_rate_series_total_Q (N : nat) (f gs : list (cx Q)) (us : list (nat -> cx Q)) : series_q :=
  let norm := jsi_norm QOps (length f) (arr (0, 0)%Q f) in
  match us with
  | nil => SQOk nil
  | _ => if idx_panics N (length f) (length gs) then SQPanic
         else SQOk (map (fun u => hom_rate_total_Q N f gs u (Some norm)) us)
  end.

(* the real outcome an executable outcome stands for *)
Definition outcome_of_q (x : outcome_q) : hom_outcome :=
  match x with QPanic => HomPanic | QNaN => HomNaN | QInf => HomInf | QVal q => HomVal (Q2R q) end.
