(* Finite-sum algebra shared by the HOM (C09, C10) and Schmidt-number (C11) models.
   One parametric definition per quantity, over a record of field operations; it is instantiated at Q (run by
   vm_compute on the arrays the harness fed to the implementation) and at R (where the theorems are proved).
   The two instances are related by the Q2R homomorphism lemmas of Proofs/FinSum_morph.v.
   Definitions only (no proofs) in this file. *)
From Coq Require Import Reals QArith List.
Local Open Scope nat_scope.

Record Ops (T : Type) := mkOps {
  o0 : T; o1 : T;
  oadd : T -> T -> T; omul : T -> T -> T; osub : T -> T -> T; oopp : T -> T; odiv : T -> T -> T }.
Arguments o0 {T}. Arguments o1 {T}. Arguments oadd {T}. Arguments omul {T}. Arguments osub {T}.
Arguments oopp {T}. Arguments odiv {T}.

Definition ROps : Ops R := mkOps R 0%R 1%R Rplus Rmult Rminus Ropp Rdiv.
(* results are kept in lowest terms so that long sums do not blow up denominators *)
Definition QOps : Ops Q :=
  mkOps Q 0%Q 1%Q (fun a b => Qred (a + b)) (fun a b => Qred (a * b)) (fun a b => Qred (a - b)) Qopp
        (fun a b => Qred (a / b)).

(* sum_{k < n} f k, in index order *)
Fixpoint gsum {T} (o : Ops T) (n : nat) (f : nat -> T) : T :=
  match n with
  | O => o0 o
  | S k => oadd o (gsum o k f) (f k)
  end.

Definition otwo {T} (o : Ops T) : T := oadd o (o1 o) (o1 o).
Definition ohalf {T} (o : Ops T) : T := odiv o (o1 o) (otwo o).
Definition ofour {T} (o : Ops T) : T := oadd o (otwo o) (otwo o).

(* complex numbers as pairs (re, im); at T = R this is Coquelicot's C with the same component formulas *)
Definition cx (T : Type) : Type := (T * T)%type.
Definition cre {T} (a : cx T) : T := fst a.
Definition cim {T} (a : cx T) : T := snd a.
Definition cadd {T} (o : Ops T) (a b : cx T) : cx T := (oadd o (fst a) (fst b), oadd o (snd a) (snd b)).
Definition csub {T} (o : Ops T) (a b : cx T) : cx T := (osub o (fst a) (fst b), osub o (snd a) (snd b)).
Definition cmul {T} (o : Ops T) (a b : cx T) : cx T :=
  (osub o (omul o (fst a) (fst b)) (omul o (snd a) (snd b)),
   oadd o (omul o (fst a) (snd b)) (omul o (snd a) (fst b))).
Definition cconj {T} (o : Ops T) (a : cx T) : cx T := (fst a, oopp o (snd a)).
(* Complex::norm_sqr *)
Definition cnorm2 {T} (o : Ops T) (a : cx T) : T := oadd o (omul o (fst a) (fst a)) (omul o (snd a) (snd a)).
Definition cone {T} (o : Ops T) : cx T := (o1 o, o0 o).

(* flat arrays: a list read with a default, as a function of the index *)
Definition arr {T} (d : T) (l : list T) : nat -> T := fun k => nth k l d.

(* utils.rs: get_2d_indices(index, cols) = (index % cols, index / cols); get_1d_index(col, row, cols) = row*cols + col *)
Definition get_2d_indices (index cols : nat) : nat * nat := (Nat.modulo index cols, Nat.div index cols).
Definition get_1d_index (col row cols : nat) : nat := row * cols + col.

(* the array of a transposed square matrix:  (transpose_arr n f)[row*n + col] = f[col*n + row] *)
Definition transpose_arr {T} (n : nat) (f : nat -> T) : nat -> T :=
  fun k => f (get_1d_index (snd (get_2d_indices k n)) (fst (get_2d_indices k n)) n).

(* real specialisations used by the statements *)
Definition rsum (n : nat) (f : nat -> R) : R := gsum ROps n f.
(* Complex::norm = hypot(re, im) *)
Definition cmod (a : cx R) : R := sqrt (fst a * fst a + snd a * snd a).
(* Complex::from_polar(r, theta) *)
Definition cpolar (r theta : R) : cx R := (r * cos theta, r * sin theta)%R.
Definition Q2C (a : cx Q) : cx R := (Q2R (fst a), Q2R (snd a)).
