(* L4 structural model of the configuration -> setup conversion (src/spdc/config/mod.rs: SPDCConfig::try_as_spdc and
   the helpers it calls), of SPDC::try_as_optimum (src/spdc/spdc_obj.rs) and of the fallible optimum_* functions
   (crystal_setup.rs: optimum_theta; periodic_poling.rs: compute_sign, optimum_poling_period; beam/mod.rs:
   IdlerBeam::try_new_optimum, set_theta_external), in the code's order of operations.

   Numerical kernels are ORACLES (record [oracles]): the two Snell maps, the Nelder-Mead searches, delta-k at the
   optimum idler, the idler emission angle, the waist position.  [None] from an oracle stands for "the code computes
   NaN / infinity here" (or, for a search, "argmin fails", which the code unwraps).
   Outcomes: Ok | Err e | Panic site, Panic exactly where the code has unwrap().
   Definitions only (proofs: Proofs/C17_*.v, Proofs/C16_*.v, Proofs/C20_*.v). *)
From Coq Require Import String List Bool ZArith QArith.
From SpdVerif Require Import Base.CfgNumOps Spec.ConfigSpec Gen.ConfigTables Gen.ConfigSites Model.ConfigTypes.
Import ListNotations.

Set Implicit Arguments.

Record oracles (num : Type) := {
  (* Beam::calc_internal_theta_from_external(beam, |external|, crystal): internal polar angle in [0, pi/2] found by the
     simplex search; None: the search fails (NaN cost) and nelder_mead_1d unwraps the error *)
  o_snell_inv : beam num -> num -> crystal_setup num -> option num;
  (* Beam::theta_external: asin(n sin theta); None: NaN (n sin theta outside [-1,1]) *)
  o_snell_ext : beam num -> crystal_setup num -> option num;
  (* the simplex search of CrystalSetup::optimum_theta over the crystal angle, given the crystal setup WITHOUT its
     current angle (the cost closure overwrites it), the signal's external angle, signal and pump *)
  o_nm_theta : crystal_setup num -> num -> beam num -> beam num -> option num;
  (* z component of delta k at the optimum idler, poling off *)
  o_dkz0 : beam num -> beam num -> crystal_setup num -> num;
  (* the simplex search of optimum_poling_period (unsigned period) *)
  o_nm_period : beam num -> beam num -> crystal_setup num -> option num;
  (* IdlerBeam::try_new_optimum: the emission angle (asin(..) with its sign conventions); None: NaN *)
  o_idler_theta : beam num -> beam num -> crystal_setup num -> poling num -> option num;
  (* CrystalSetup::optimal_waist_position = -L / (2 n_z); None: the index along z is 0 (-> -infinity) *)
  o_waist_pos : crystal_setup num -> num -> polarization -> option num
}.

Section Model.
  Variable num : Type.
  Variable o : NumOps num.
  Variable U : units num.
  Variable K : oracles num.
  (* f64::MIN_POSITIVE, the lower bound of the poling-period search *)
  Variable min_positive : num.
  (* does try_as_periodic_poling reject an explicit period of 0 first? (Gen/ConfigSites.v: cfg_rejects_bad_period, read off the
     source; the model has no non-finite numbers, so only the zero test appears) *)
  Variable rejects_bad_period : bool.

  Local Notation "a *' b" := (nmul o a b) (at level 40, left associativity).
  Local Notation "a /' b" := (ndiv o a b) (at level 40, left associativity).

  (* ---- math/mod.rs *)
  Definition normalize_angle (a : num) : num := nrem_euclid o a (ntwo_pi o).
  Definition normalize_angle_signed (a : num) : num :=
    let r := nrem_euclid o a (ntwo_pi o) in
    if nltb o (npi o) r then nsub o r (ntwo_pi o) else r.

  (* ---- beam/mod.rs *)
  Definition beam_new (p : polarization) (phi theta wavelength waist : num) : beam num :=
    {| b_pol := p; b_phi := normalize_angle phi; b_theta := normalize_angle_signed theta;
       b_wavelength := wavelength; b_waist := waist |}.
  Definition set_angles (b : beam num) (phi theta : num) : beam num :=
    {| b_pol := b_pol b; b_phi := normalize_angle phi; b_theta := normalize_angle_signed theta;
       b_wavelength := b_wavelength b; b_waist := b_waist b |}.
  Definition set_waist (b : beam num) (w : num) : beam num :=
    {| b_pol := b_pol b; b_phi := b_phi b; b_theta := b_theta b; b_wavelength := b_wavelength b; b_waist := w |}.
  (* Beam::set_theta_external: the signed external angle goes to the Snell inverse (which mirrors a negative angle) *)
  Definition set_theta_external (b : beam num) (external : num) (cs : crystal_setup num) : outcome (beam num) :=
    match o_snell_inv K b external cs with
    | None =>
        (* [searches_cannot_fail] (Gen/ConfigSites.v, read off Cost1d::cost, which EVERY nelder_mead_1d call goes through): the solver
           cannot fail, so there is no panic; the oracle's None then only says that the internal angle found is not a finite number
           (the value 0 stands for it; finiteness is a separate clause with its own definedness hypothesis) *)
        if searches_cannot_fail then Ok (set_angles b (b_phi b) (n0 o)) else Panic SiteNelderMeadUnwrap
    | Some th => Ok (set_angles b (b_phi b) th)
    end.

  Definition set_crystal_theta (cs : crystal_setup num) (th : num) : crystal_setup num :=
    {| cs_kind := cs_kind cs; cs_pm := cs_pm cs; cs_phi := cs_phi cs; cs_theta := th; cs_length := cs_length cs;
       cs_temperature := cs_temperature cs; cs_counter := cs_counter cs |}.

  (* "ls <= lp" test of IdlerBeam::try_new_optimum *)
  Definition signal_le_pump (signal pump : beam num) : bool := nleb o (b_wavelength signal) (b_wavelength pump).

  Definition idler_wavelength (signal pump : beam num) : num :=
    (b_wavelength signal *' b_wavelength pump) /' nsub o (b_wavelength signal) (b_wavelength pump).

  (* IdlerBeam::try_new_optimum(signal, pump, crystal_setup, pp) : the beam, and whether its angle is NaN *)
  Definition idler_optimum (signal pump : beam num) (cs : crystal_setup num) (pp : poling num)
    : outcome (beam num * list nonfinite) :=
    if signal_le_pump signal pump then Err ESignalLePump
    else
      let '(th, nf) := match o_idler_theta K signal pump cs pp with
                       | Some th => (th, []) | None => (n0 o, [NFIdlerTheta]) end in
      Ok (beam_new (idler_polarization (cs_pm cs)) (nadd o (b_phi signal) (npi o)) th
                   (idler_wavelength signal pump) (b_waist signal), nf).

  Definition sign_of (z : num) : sign := if nltb o z (n0 o) then Neg else Pos.
  Definition sign_mul (s : sign) (x : num) : num := match s with Pos => x | Neg => nneg o x end.

  (* PeriodicPoling::compute_sign *)
  Definition compute_sign (signal pump : beam num) (cs : crystal_setup num) : outcome sign :=
    if signal_le_pump signal pump then Panic SiteComputeSignUnwrap
    else Ok (sign_of (o_dkz0 K signal pump cs)).

  (* periodic_poling.rs: optimum_poling_period.  inl p: signed finite period; inr tt: "already phase matched" (+infinity) *)
  Definition optimum_poling_period (signal pump : beam num) (cs : crystal_setup num) : outcome (num + unit) :=
    if signal_le_pump signal pump then Panic SiteOptPeriodUnwrap
    else
      let z := o_dkz0 K signal pump cs in
      if neqb o z (n0 o) then Ok (inr tt)
      else match o_nm_period K signal pump cs with
           | None =>
               (* [searches_cannot_fail] (read off the source): a NaN cost is +infinity for the solver and a NaN result fails
                  the acceptance test, so a search that finds nothing is the error; before that repair argmin failed and the
                  code unwrapped *)
               if searches_cannot_fail then Err EImpossiblePeriod else Panic SiteNelderMeadUnwrap
           | Some p => if nltb o (cs_length cs) p || nltb o p min_positive then Err EImpossiblePeriod
                       else Ok (inl (sign_mul (sign_of z) p))
           end.

  (* PeriodicPoling::new: the sign of the given period becomes the sign field, the magnitude the period *)
  Definition poling_new (period : num) (a : apod num) : poling num :=
    if nltb o (n0 o) period then PolOn period Pos a else PolOn (nneg o period) Neg a.

  (* CrystalSetup::optimum_theta *)
  Definition erase_theta (cs : crystal_setup num) : crystal_setup num := set_crystal_theta cs (n0 o).
  Definition optimum_theta (cs : crystal_setup num) (signal pump : beam num) : outcome num :=
    (* a NaN external angle gives a NaN guess in the inner Snell search: argmin fails there -- unless the solver cannot fail
       ([searches_cannot_fail]): then every cost is +infinity and the search returns (0 stands for the NaN angle) *)
    match (match o_snell_ext K signal cs with
           | Some e => Some e
           | None => if searches_cannot_fail then Some (n0 o) else None
           end) with
    | None => Panic SiteNelderMeadUnwrap
    | Some e =>
        if signal_le_pump signal pump then Panic SiteOptThetaUnwrap
        else match o_nm_theta K (erase_theta cs) e signal pump with
             | None => if searches_cannot_fail then Ok (n0 o) else Panic SiteNelderMeadUnwrap
             | Some th => Ok th
             end
    end.

  (* ---- config/apodization.rs, From<ApodizationConfig> for Apodization *)
  Definition apod_of_cfg (a : apod_cfg num) : apod num :=
    match a with
    | ACOff => AOff
    | ACGaussian f => AGaussian (f *' u_micro o)
    | ACBartlett x => ABartlett x | ACBlackman x => ABlackman x | ACConnes x => AConnes x
    | ACCosine x => ACosine x | ACHamming x => AHamming x | ACWelch x => AWelch x
    | ACInterpolate l => AInterpolate l
    end.

  (* ---- config/mod.rs *)
  (* From<CrystalConfig> for CrystalSetup ("converts without autocalculating theta") *)
  Definition crystal_of_cfg (c : crystal_cfg num) : crystal_setup num :=
    {| cs_kind := cc_kind c; cs_pm := cc_pm c; cs_phi := cc_phi_deg c *' u_deg o;
       cs_theta := match cc_theta_deg c with Param t => t *' u_deg o | Auto => n0 o *' u_deg o end;
       cs_length := cc_length_um c *' u_micro o;
       cs_temperature := nadd o (cc_temperature_c c) (kelvin_offset o);
       cs_counter := cc_counter c |}.

  (* PumpConfig::as_beam; PumpBeam::from sets both angles to 0 *)
  Definition pump_of_cfg (p : pump_cfg num) (cs : crystal_setup num) : beam num :=
    set_angles (beam_new (pump_polarization (cs_pm cs)) (n0 o) (n0 o) (pc_wavelength_nm p *' u_nano o)
                         (pc_waist_um p *' u_micro o)) (n0 o) (n0 o).

  (* SignalConfig::try_as_beam / IdlerConfig::try_as_beam *)
  Definition beam_of_cfg (pol : polarization) (c : beam_cfg num) (cs : crystal_setup num) : outcome (beam num) :=
    let phi := bc_phi_deg c *' u_deg o in
    let b := beam_new pol phi (n0 o) (bc_wavelength_nm c *' u_nano o) (bc_waist_um c *' u_micro o) in
    match bc_theta_deg c, bc_theta_ext_deg c with
    | Some t, None => Ok (set_angles b phi (t *' u_deg o))
    | None, Some e =>
        (* [cfg_checks_external_range] (Gen/ConfigSites.v, read off the source): `if !(theta_e.abs() < 90.) { return Err(..) }` *)
        if cfg_checks_external_range && negb (nltb o (nabs o e) (nQ o 90)) then Err EExternalRange
        else set_theta_external b (e *' u_deg o) cs
    | _, _ => Err EThetaSpec
    end.

  (* config/periodic_poling_config.rs: try_as_periodic_poling *)
  Definition poling_of_cfg (p : pp_cfg num) (signal pump : beam num) (cs : crystal_setup num)
    : outcome (poling num * list nonfinite) :=
    match p with
    | PCOff => Ok (PolOff, [])
    | PCConfig period a =>
        match period with
        | Auto =>
            bind (optimum_poling_period signal pump cs) (fun r =>
              match r with
              | inl per => Ok (poling_new per (apod_of_cfg a), [])
              | inr _ => Ok (PolOn (n0 o) Pos (apod_of_cfg a), [NFPeriodInfinite])
              end)
        | Param period_um =>
            if rejects_bad_period && neqb o period_um (n0 o) then Err EBadPeriod else
            bind (compute_sign signal pump cs) (fun s =>
              Ok (poling_new (sign_mul s (nabs o period_um) *' u_micro o) (apod_of_cfg a), []))
        end
    end.

  Definition waist_position (cs : crystal_setup num) (b : beam num) (which : nonfinite) : num * list nonfinite :=
    match o_waist_pos K cs (b_wavelength b) (b_pol b) with
    | Some z => (z, []) | None => (n0 o, [which]) end.

  Definition explicit_focus (focus_um : num) : num := nneg o (nabs o focus_um) *' u_micro o.

  Definition default_threshold_q : Q := 1 # 100.

  (* SPDCConfig::try_as_spdc, as the composition of its steps (in the code's order):
       crystal (angle 0 when "auto") -> pump -> signal -> poling -> crystal angle -> idler -> waist positions.
     The second component of the result lists the fields the code would leave NaN / infinite. *)
  Definition cfg_cs0 (c : spdc_cfg num) : crystal_setup num := crystal_of_cfg (c_crystal c).
  Definition cfg_pump (c : spdc_cfg num) : beam num := pump_of_cfg (c_pump c) (cfg_cs0 c).
  Definition signal_step (c : spdc_cfg num) : outcome (beam num) :=
    beam_of_cfg (signal_polarization (cs_pm (cfg_cs0 c))) (c_signal c) (cfg_cs0 c).
  Definition poling_step (c : spdc_cfg num) (signal : beam num) : outcome (poling num * list nonfinite) :=
    poling_of_cfg (c_pp c) signal (cfg_pump c) (cfg_cs0 c).
  (* (signal.theta_external(&crystal_setup) / RAD).is_finite() *)
  Definition ext_defined (signal : beam num) (cs : crystal_setup num) : bool :=
    match o_snell_ext K signal cs with Some _ => true | None => false end.
  Definition theta_step (c : spdc_cfg num) (signal : beam num) (pp : poling num) : outcome (crystal_setup num) :=
    if is_auto (cc_theta_deg (c_crystal c)) then
      if is_pol_off pp then
        (* [cfg_checks_total_reflection] (read off the source): the external angle the optimum keeps has to exist *)
        if cfg_checks_total_reflection && negb (ext_defined signal (cfg_cs0 c)) then Err ETotalReflection
        else bind (optimum_theta (cfg_cs0 c) signal (cfg_pump c)) (fun th => Ok (set_crystal_theta (cfg_cs0 c) th))
      else Err EAutoThetaWithPoling
    else Ok (cfg_cs0 c).
  Definition idler_step (c : spdc_cfg num) (signal : beam num) (cs : crystal_setup num) (pp : poling num)
    : outcome (beam num * list nonfinite) :=
    match c_idler c with
    | Param ic => bind (beam_of_cfg (idler_polarization (cs_pm cs)) ic cs) (fun b => Ok (b, []))
    | Auto => idler_optimum signal (cfg_pump c) cs pp
    end.
  Definition idler_focus_cfg (c : spdc_cfg num) : auto num :=
    match c_idler c with Param ic => bc_waist_pos_um ic | Auto => Auto end.
  Definition focus_step (cs : crystal_setup num) (b : beam num) (f : auto num) (which : nonfinite) : num * list nonfinite :=
    match f with
    | Param x => (explicit_focus x, [])
    | Auto => waist_position cs b which
    end.
  Definition finish_spdc (c : spdc_cfg num) (signal : beam num) (pp : poling num) (nf_pp : list nonfinite)
      (cs : crystal_setup num) (idler : beam num) (nf_i : list nonfinite) : spdc num * list nonfinite :=
    let zi := focus_step cs idler (idler_focus_cfg c) NFWaistIdler in
    let zs := focus_step cs signal (bc_waist_pos_um (c_signal c)) NFWaistSignal in
    ({| s_crystal := cs; s_signal := signal; s_idler := idler; s_pump := cfg_pump c;
        s_bandwidth := pc_bandwidth_nm (c_pump c) *' u_nano o;
        s_power := pc_power_mw (c_pump c) *' u_milliw U;
        s_threshold := match pc_threshold (c_pump c) with Some t => t | None => nQ o default_threshold_q end;
        s_pp := pp; s_zs := fst zs; s_zi := fst zi;
        s_deff := c_deff c *' u_pico o /' u_volt U |},
     nf_pp ++ nf_i ++ snd zi ++ snd zs).

  Definition try_as_spdc_steps (c : spdc_cfg num) : outcome (spdc num * list nonfinite) :=
    bind (signal_step c) (fun signal =>
    bind (poling_step c signal) (fun ppn =>
    bind (theta_step c signal (fst ppn)) (fun cs =>
    bind (idler_step c signal cs (fst ppn)) (fun idn =>
    Ok (finish_spdc c signal (fst ppn) (snd ppn) cs (fst idn) (snd idn)))))).

  (* The entry point.  [validates]: whether the code checks `signal.wavelength_nm <= pump.wavelength_nm` before anything else
     (Gen/ConfigSites.v: cfg_validates_wavelengths, read off the source; false on the tree this was written against, where
     that case reaches the unwrap()s inside the optimisers instead: finding F7). *)
  Variable validates : bool.
  Definition cfg_le (c : spdc_cfg num) : bool := nleb o (bc_wavelength_nm (c_signal c)) (pc_wavelength_nm (c_pump c)).
  Definition try_as_spdc (c : spdc_cfg num) : outcome (spdc num * list nonfinite) :=
    if validates && cfg_le c then Err ESignalLePump else try_as_spdc_steps c.
  Definition entry_passes (c : spdc_cfg num) : Prop := validates = false \/ cfg_le c = false.

  (* ---- spdc_obj.rs: SPDC::try_as_optimum.
     Faithful to two quirks of the code: the optimum idler is computed with the OLD poling (self.pp), and the idler
     waist position is computed from the OLD idler (self.idler: wavelength and polarization). *)
  Definition ninety_deg : num := nZ o 90 *' u_deg o.
  Definition opt_signal (s : spdc num) : beam num :=
    if cs_counter (s_crystal s) then
      if nltb o (b_theta (s_signal s)) ninety_deg then set_angles (s_signal s) (n0 o *' u_deg o) (n0 o *' u_deg o)
      else set_angles (s_signal s) (n0 o *' u_deg o) (nZ o 180 *' u_deg o)
    else set_angles (s_signal s) (n0 o *' u_deg o) (n0 o *' u_deg o).
  (* crystal angle (poling off) or poling period (poling on, apodization kept) *)
  Definition opt_crystal_poling (s : spdc num) (signal : beam num)
    : outcome (crystal_setup num * poling num * list nonfinite) :=
    match s_pp s with
    | PolOff => bind (optimum_theta (s_crystal s) signal (s_pump s)) (fun th =>
                  Ok (set_crystal_theta (s_crystal s) th, PolOff, []))
    | PolOn _ _ a =>
        bind (optimum_poling_period signal (s_pump s) (s_crystal s)) (fun r =>
          match r with
          | inl per => Ok (s_crystal s, poling_new per a, [])
          | inr _ => Ok (s_crystal s, PolOn (n0 o) Pos a, [NFPeriodInfinite])
          end)
    end.
  (* The two quirks are READ OFF THE SOURCE by the generator (Gen/ConfigSites.v): [old_poling]: the optimum idler is computed
     with self.pp; [old_idler]: the idler waist position is computed from self.idler.  Both true on the tree this was written
     against. *)
  Variable old_poling : bool.
  Variable old_idler : bool.
  Definition finish_optimum (s : spdc num) (signal : beam num) (cs : crystal_setup num) (pp : poling num)
      (nf_pp : list nonfinite) (idler0 : beam num) (nf_i : list nonfinite) : spdc num * list nonfinite :=
    let idler := set_waist idler0 (b_waist (s_idler s)) in       (* "keep the same idler waist size" *)
    let zs := waist_position cs signal NFWaistSignal in
    let zi := waist_position cs (if old_idler then s_idler s else idler) NFWaistIdler in
    ({| s_crystal := cs; s_signal := signal; s_idler := idler; s_pump := s_pump s; s_bandwidth := s_bandwidth s;
        s_power := s_power s; s_threshold := s_threshold s; s_pp := pp; s_zs := fst zs; s_zi := fst zi;
        s_deff := s_deff s |},
     nf_pp ++ nf_i ++ snd zs ++ snd zi).
  Definition try_as_optimum (s : spdc num) : outcome (spdc num * list nonfinite) :=
    let signal := opt_signal s in
    bind (opt_crystal_poling s signal) (fun r =>
    bind (idler_optimum signal (s_pump s) (fst (fst r)) (if old_poling then s_pp s else snd (fst r))) (fun idn =>
    Ok (finish_optimum s signal (fst (fst r)) (snd (fst r)) (snd r) (fst idn) (snd idn)))).

  (* ---- level-2 trace of try_as_spdc (used by the correspondence check): which fallible helper was called, in
     order, and how it ended *)
  Definition cls {A} (x : outcome A) : string :=
    match x with
    | Ok _ => "ok"
    | Err EThetaSpec => "err:theta_spec" | Err EAutoThetaWithPoling => "err:auto_theta_with_poling"
    | Err ESignalLePump => "err:signal_le_pump" | Err EImpossiblePeriod => "err:impossible_period"
    | Err EBadPeriod => "err:bad_period"
    | Err EExternalRange => "err:external_range" | Err ETotalReflection => "err:total_reflection"
    | Panic SiteOptThetaUnwrap => "panic:optimum_theta" | Panic SiteComputeSignUnwrap => "panic:compute_sign"
    | Panic SiteOptPeriodUnwrap => "panic:optimum_poling_period" | Panic SiteNelderMeadUnwrap => "panic:nelder_mead"
    | Panic SiteOptimumUnwrap => "panic:try_as_optimum_unwrap"
    end%string.

  Definition trace_try_as_spdc (c : spdc_cfg num) : list (string * string) :=
    if validates && cfg_le c then [("validate"%string, "err:signal_le_pump"%string)] else
    let rs := signal_step c in
    ("signal"%string, cls rs) ::
    match rs with
    | Ok signal =>
      match c_pp c with
      | PCOff => []
      | PCConfig Auto _ => [("optimum_poling_period"%string, cls (optimum_poling_period signal (cfg_pump c) (cfg_cs0 c)))]
      | PCConfig (Param pu) _ =>
          if rejects_bad_period && neqb o pu (n0 o) then [("period_check"%string, "err:bad_period"%string)]
          else [("compute_sign"%string, cls (compute_sign signal (cfg_pump c) (cfg_cs0 c)))]
      end ++
      match poling_step c signal with
      | Ok (pp, _) =>
        (if is_auto (cc_theta_deg (c_crystal c)) then
           if is_pol_off pp then
             if cfg_checks_total_reflection && negb (ext_defined signal (cfg_cs0 c))
             then [("external_angle_check"%string, "err:total_reflection"%string)]
             else [("optimum_theta"%string, cls (optimum_theta (cfg_cs0 c) signal (cfg_pump c)))]
           else [("auto_theta_check"%string, "err:auto_theta_with_poling"%string)]
         else []) ++
        match theta_step c signal pp with
        | Ok cs =>
          match c_idler c with
          | Param ic => [("idler_explicit"%string, cls (idler_step c signal cs pp))]
          | Auto => [("idler_optimum"%string, cls (idler_step c signal cs pp))]
          end
        | _ => []
        end
      | _ => []
      end
    | _ => []
    end.
End Model.
