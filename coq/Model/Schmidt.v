(* C11 — model of src/math/schmidt.rs: schmidt_number.  Definitions only.

   pub fn schmidt_number(amplitudes) -> Result<f64, SPDCError> {
     let len = amplitudes.len();  let dim = len.sqrt();                    // num::integer::Roots: floor square root
     if len != dim * dim { return Err("Spectrum provided is not square") }
     let jsa_mag = amplitudes.map(|j| j.norm());
     let svd = DMatrix::from_row_slice(dim, dim, &jsa_mag).try_svd(false, false, EPSILON, 10_000).ok_or(Err(..))?;
     let norm_sq = svd.singular_values.norm_squared();
     let kinv = svd.singular_values.fold(0., |acc, x| acc + x.powi(4));
     Ok(norm_sq * norm_sq / kinv) }                                                                            *)
From Coq Require Import Reals QArith List NArith.
From SpdVerif Require Import Model.FinSum Model.Hom.
Local Open Scope nat_scope.

(* ---- the length check, on N (usize) *)
Definition accepted_len (len : N) : bool := N.eqb len (N.sqrt len * N.sqrt len).
Definition side_of_len (len : N) : nat := N.to_nat (N.sqrt len).

(* ---- DMatrix::from_row_slice(dim, dim, data): entry (r, c) is data[r*dim + c] *)
Definition mat_of {T} (n : nat) (m : nat -> T) : nat -> nat -> T := fun r c => m (r * n + c).

(* ---- the trace form: G = M^T M,  K = (tr G)^2 / tr (G^2) *)
Definition gram {T} (o : Ops T) (n : nat) (M : nat -> nat -> T) (j j' : nat) : T :=
  gsum o n (fun i => omul o (M i j) (M i j')).
Definition trG {T} (o : Ops T) (n : nat) (M : nat -> nat -> T) : T := gsum o n (fun j => gram o n M j j).
Definition trG2 {T} (o : Ops T) (n : nat) (M : nat -> nat -> T) : T :=
  gsum o n (fun j => gsum o n (fun j' => omul o (gram o n M j j') (gram o n M j' j))).
Definition schmidt_K {T} (o : Ops T) (n : nat) (M : nat -> nat -> T) : T :=
  odiv o (omul o (trG o n M) (trG o n M)) (trG2 o n M).

(* executable twin: the magnitudes as a flat list of rationals *)
Definition schmidt_K_Q (n : nat) (mags : list Q) : Q := schmidt_K QOps n (mat_of n (arr 0%Q mags)).
Definition trG_Q (n : nat) (mags : list Q) : Q := trG QOps n (mat_of n (arr 0%Q mags)).
Definition trG2_Q (n : nat) (mags : list Q) : Q := trG2 QOps n (mat_of n (arr 0%Q mags)).

(* ---- the code path with the SVD as an oracle.  sv: the singular values the oracle returned (dim of them) *)
Definition sv_norm_squared (n : nat) (sv : nat -> R) : R := rsum n (fun k => (sv k * sv k)%R).
Definition sv_kinv (n : nat) (sv : nat -> R) : R := rsum n (fun k => (sv k ^ 4)%R).
Definition schmidt_of_sv (n : nat) (sv : nat -> R) : R :=
  (sv_norm_squared n sv * sv_norm_squared n sv / sv_kinv n sv)%R.

Inductive outcome : Type :=
| ErrNotSquare
| ErrSvd
| OkNaN              (* Ok(NaN): norm_sq * norm_sq / kinv with kinv = 0, i.e. 0/0 — all singular values zero *)
| OkK (k : R).

(* the element-wise magnitude matrix of a flat complex array *)
Definition mag_matrix (n : nat) (a : nat -> cx R) : nat -> nat -> R := mat_of n (fun k => cmod (a k)).

Definition schmidt_number (svd : nat -> (nat -> nat -> R) -> option (nat -> R)) (len : nat) (a : nat -> cx R) : outcome :=
  if accepted_len (N.of_nat len) then
    let n := side_of_len (N.of_nat len) in
    match svd n (mag_matrix n a) with
    | None => ErrSvd
    | Some sv => if Req_EM_T (sv_kinv n sv) 0%R then OkNaN else OkK (schmidt_of_sv n sv)
    end
  else ErrNotSquare.

(* the accuracy-free contract of an SVD: M = U diag(sv) V^T with orthonormal columns of U and V (any such factorisation) *)
Definition orthonormal_cols (n : nat) (U : nat -> nat -> R) : Prop :=
  forall k l, (k < n)%nat -> (l < n)%nat -> rsum n (fun i => (U i k * U i l)%R) = if Nat.eqb k l then 1%R else 0%R.
Definition is_svd (n : nat) (M : nat -> nat -> R) (sv : nat -> R) : Prop :=
  exists U V : nat -> nat -> R,
    orthonormal_cols n U /\ orthonormal_cols n V /\
    forall i j, (i < n)%nat -> (j < n)%nat -> M i j = rsum n (fun k => (U i k * sv k * V j k)%R).

(* matrix families of the property text *)
Definition nonzero_matrix (n : nat) (M : nat -> nat -> R) : Prop := exists i j, (i < n)%nat /\ (j < n)%nat /\ M i j <> 0%R.
Definition outer (u v : nat -> R) : nat -> nat -> R := fun i j => (u i * v j)%R.
Definition perm_diag (p : nat -> nat) (c : nat -> R) : nat -> nat -> R :=
  fun i j => if Nat.eqb j (p i) then c i else 0%R.
Definition is_perm (n : nat) (p q : nat -> nat) : Prop :=
  (forall i, (i < n)%nat -> (p i < n)%nat /\ q (p i) = i) /\ (forall j, (j < n)%nat -> (q j < n)%nat /\ p (q j) = j).

(* ---- setup level: JointSpectrum::schmidt_number(range) = schmidt_number(self.jsa_range(range.into()));
   the setup's amplitude J(ws, wi) is an arbitrary function, jsa_range tabulates it on the Steps2D grid *)
Definition setup_schmidt_number (svd : nat -> (nat -> nat -> R) -> option (nat -> R)) (J : R -> R -> cx R) (g : grid R) : outcome :=
  schmidt_number svd (grid_len g) (tabulate J g).
