(* Scalar inputs of the coincidence phasematching integrand (src/phasematch/coincidences.rs: get_pm_integrand) and of the
   joint-spectrum normalisation, for ONE setup and ONE frequency pair (omega_s, omega_i).  Every field is a value the Rust
   code obtains from the SPDC object through a public accessor; the harness dumps exactly these (harness/src/c06.rs: dump_params).
   Definitions only. *)
From Coq Require Import Reals.
Local Open Scope R_scope.

Record pm_params : Type := {
  p_L : R;            (* spdc.crystal_setup.length                                   [m] *)
  p_phi_s : R;        (* spdc.signal.phi()                                           [rad] *)
  p_phi_i : R;        (* spdc.idler.phi() *)
  p_theta_s : R;      (* spdc.signal.theta_internal() *)
  p_theta_i : R;      (* spdc.idler.theta_internal() *)
  p_theta_s_e : R;    (* spdc.signal.theta_external(&spdc.crystal_setup) *)
  p_theta_i_e : R;    (* spdc.idler.theta_external(&spdc.crystal_setup) *)
  p_wsx : R; p_wsy : R;   (* spdc.signal.waist().x / .y                              [m] *)
  p_wix : R; p_wiy : R;   (* spdc.idler.waist() *)
  p_wpx : R; p_wpy : R;   (* spdc.pump.waist() *)
  p_z0s : R;          (* spdc.signal_waist_position *)
  p_z0i : R;          (* spdc.idler_waist_position *)
  p_dirz_s : R;       (* spdc.signal.direction().z *)
  p_dirz_i : R;       (* spdc.idler.direction().z *)
  p_omega_s : R;      (* omega_s                                                     [rad/s] *)
  p_omega_i : R;      (* omega_i *)
  p_n_p : R;          (* spdc.pump.refractive_index(omega_s + omega_i, &crystal_setup) *)
  p_n_s : R;          (* spdc.signal.refractive_index(omega_s, &crystal_setup) *)
  p_n_i : R;          (* spdc.idler.refractive_index(omega_i, &crystal_setup) *)
  p_rho : R;          (* spdc.pump.walkoff_angle(&crystal_setup)                      [rad] *)
  p_k_eff : R;        (* spdc.pp.k_eff()                                              [rad/m] *)
  p_apod : R -> R;    (* z |-> spdc.pp.integration_constant(z, L) *)
  (* joint-spectrum level (normalization.rs, phasematch/mod.rs, joint_spectrum.rs) *)
  p_pp_on : bool;     (* spdc.pp != PeriodicPoling::Off *)
  p_lambda_p : R;     (* spdc.pump.vacuum_wavelength() *)
  p_omega_p0 : R;     (* spdc.pump.frequency() *)
  p_bw : R;           (* spdc.pump_bandwidth *)
  p_power : R;        (* spdc.pump_average_power (in W: MilliWatt is a scaled unit of the same dimension) *)
  p_deff : R;         (* spdc.deff *)
  p_thr : R;          (* spdc.pump_spectrum_threshold *)
  (* rate level (spdc/counts.rs: get_counts_correction): centre wavelengths / frequencies, indices there, group indices *)
  p_lambda_s : R;     (* spdc.signal.vacuum_wavelength() *)
  p_lambda_i : R;     (* spdc.idler.vacuum_wavelength() *)
  p_omega_s0 : R;     (* spdc.signal.frequency() *)
  p_omega_i0 : R;     (* spdc.idler.frequency() *)
  p_n_s0 : R;         (* spdc.signal.refractive_index(spdc.signal.frequency(), &crystal_setup) *)
  p_n_i0 : R;         (* spdc.idler.refractive_index(spdc.idler.frequency(), &crystal_setup) *)
  p_n_p0 : R;         (* spdc.pump.refractive_index(spdc.pump.frequency(), &crystal_setup) *)
  p_ng_s : R;         (* spdc.signal.group_index(&crystal_setup, PeriodicPoling::Off) *)
  p_ng_i : R;         (* spdc.idler.group_index(&crystal_setup, PeriodicPoling::Off)   (not read by the code) *)
  p_ng_p : R          (* spdc.pump.group_index(&crystal_setup, PeriodicPoling::Off) *)
}.

(* Exchange of the signal and idler roles, as SPDC::with_swapped_signal_idler does it (beams and waist positions swapped,
   everything else kept) composed with the exchange of the frequency arguments.  The harness checks on every run that the
   scalars of the swapped Rust setup at (omega_i, omega_s) are bit-for-bit [pm_swap] of those of the setup at (omega_s, omega_i). *)
Definition pm_swap (p : pm_params) : pm_params := {|
  p_L := p_L p;
  p_phi_s := p_phi_i p; p_phi_i := p_phi_s p;
  p_theta_s := p_theta_i p; p_theta_i := p_theta_s p;
  p_theta_s_e := p_theta_i_e p; p_theta_i_e := p_theta_s_e p;
  p_wsx := p_wix p; p_wsy := p_wiy p; p_wix := p_wsx p; p_wiy := p_wsy p;
  p_wpx := p_wpx p; p_wpy := p_wpy p;
  p_z0s := p_z0i p; p_z0i := p_z0s p;
  p_dirz_s := p_dirz_i p; p_dirz_i := p_dirz_s p;
  p_omega_s := p_omega_i p; p_omega_i := p_omega_s p;
  p_n_p := p_n_p p; p_n_s := p_n_i p; p_n_i := p_n_s p;
  p_rho := p_rho p; p_k_eff := p_k_eff p; p_apod := p_apod p;
  p_pp_on := p_pp_on p; p_lambda_p := p_lambda_p p; p_omega_p0 := p_omega_p0 p; p_bw := p_bw p;
  p_power := p_power p; p_deff := p_deff p; p_thr := p_thr p;
  p_lambda_s := p_lambda_i p; p_lambda_i := p_lambda_s p; p_omega_s0 := p_omega_i0 p; p_omega_i0 := p_omega_s0 p;
  p_n_s0 := p_n_i0 p; p_n_i0 := p_n_s0 p; p_n_p0 := p_n_p0 p;
  p_ng_s := p_ng_i p; p_ng_i := p_ng_s p; p_ng_p := p_ng_p p
|}.

(* A concrete parameter set (non-collinear, unequal waists, walk-off, poled + apodized; round numbers close to a KTP type-2
   setup) used by the non-vacuity examples. *)
Definition pm_example : pm_params := {|
  p_L := 0.002;
  p_phi_s := 0.3; p_phi_i := 3.4;
  p_theta_s := 0.01; p_theta_i := 0.011;
  p_theta_s_e := 0.0175; p_theta_i_e := 0.0191;
  p_wsx := 0.0001; p_wsy := 0.00012; p_wix := 0.00008; p_wiy := 0.00008;
  p_wpx := 0.0002; p_wpy := 0.00025;
  p_z0s := -0.0005; p_z0i := -0.0007;
  p_dirz_s := 0.99995; p_dirz_i := 0.99994;
  p_omega_s := 1.2e15; p_omega_i := 1.23e15;
  p_n_p := 1.78; p_n_s := 1.74; p_n_i := 1.81;
  p_rho := 0.003; p_k_eff := 136000; p_apod := fun z => 1 - Rabs z / 2;
  p_pp_on := true; p_lambda_p := 7.75e-7; p_omega_p0 := 2.43e15; p_bw := 1e-9;
  p_power := 100; p_deff := 7.6e-9; p_thr := 0.01;
  p_lambda_s := 1.57e-6; p_lambda_i := 1.53e-6; p_omega_s0 := 1.2e15; p_omega_i0 := 1.23e15;
  p_n_s0 := 1.74; p_n_i0 := 1.81; p_n_p0 := 1.78; p_ng_s := 1.76; p_ng_i := 1.85; p_ng_p := 1.83
|}.

(* the same with all polar angles zero and 2 mm waists: a collinear large-waist setup (C05) *)
Definition pm_example_collinear : pm_params := {|
  p_L := 0.002;
  p_phi_s := 0; p_phi_i := 3.14159;
  p_theta_s := 0; p_theta_i := 0; p_theta_s_e := 0; p_theta_i_e := 0;
  p_wsx := 0.002; p_wsy := 0.002; p_wix := 0.003; p_wiy := 0.003; p_wpx := 0.0025; p_wpy := 0.0025;
  p_z0s := -0.0005; p_z0i := -0.0007;
  p_dirz_s := 1; p_dirz_i := 1;
  p_omega_s := 1.2e15; p_omega_i := 1.23e15;
  p_n_p := 1.78; p_n_s := 1.74; p_n_i := 1.81;
  p_rho := 0.003; p_k_eff := 136000; p_apod := fun z => 1;
  p_pp_on := true; p_lambda_p := 7.75e-7; p_omega_p0 := 2.43e15; p_bw := 1e-9;
  p_power := 100; p_deff := 7.6e-9; p_thr := 0.01;
  p_lambda_s := 1.57e-6; p_lambda_i := 1.53e-6; p_omega_s0 := 1.2e15; p_omega_i0 := 1.23e15;
  p_n_s0 := 1.74; p_n_i0 := 1.81; p_n_p0 := 1.78; p_ng_s := 1.76; p_ng_i := 1.85; p_ng_p := 1.83
|}.

(* all three beam waists multiplied by s (C05: the large-waist limit) *)
Definition pm_scale_waists (s : R) (p : pm_params) : pm_params := {|
  p_L := p_L p; p_phi_s := p_phi_s p; p_phi_i := p_phi_i p; p_theta_s := p_theta_s p; p_theta_i := p_theta_i p;
  p_theta_s_e := p_theta_s_e p; p_theta_i_e := p_theta_i_e p;
  p_wsx := s * p_wsx p; p_wsy := s * p_wsy p; p_wix := s * p_wix p; p_wiy := s * p_wiy p; p_wpx := s * p_wpx p; p_wpy := s * p_wpy p;
  p_z0s := p_z0s p; p_z0i := p_z0i p; p_dirz_s := p_dirz_s p; p_dirz_i := p_dirz_i p;
  p_omega_s := p_omega_s p; p_omega_i := p_omega_i p; p_n_p := p_n_p p; p_n_s := p_n_s p; p_n_i := p_n_i p;
  p_rho := p_rho p; p_k_eff := p_k_eff p; p_apod := p_apod p;
  p_pp_on := p_pp_on p; p_lambda_p := p_lambda_p p; p_omega_p0 := p_omega_p0 p; p_bw := p_bw p;
  p_power := p_power p; p_deff := p_deff p; p_thr := p_thr p;
  p_lambda_s := p_lambda_s p; p_lambda_i := p_lambda_i p; p_omega_s0 := p_omega_s0 p; p_omega_i0 := p_omega_i0 p;
  p_n_s0 := p_n_s0 p; p_n_i0 := p_n_i0 p; p_n_p0 := p_n_p0 p; p_ng_s := p_ng_s p; p_ng_i := p_ng_i p; p_ng_p := p_ng_p p
|}.

(* all three beam waists multiplied by s AND the pump walk-off length L tan(rho) multiplied by s (fixed walk-off-to-waist ratio):
   the zero-diffraction scaling family of C05 / C08 *)
Definition pm_scale_wr (s : R) (p : pm_params) : pm_params := {|
  p_L := p_L p; p_phi_s := p_phi_s p; p_phi_i := p_phi_i p; p_theta_s := p_theta_s p; p_theta_i := p_theta_i p;
  p_theta_s_e := p_theta_s_e p; p_theta_i_e := p_theta_i_e p;
  p_wsx := s * p_wsx p; p_wsy := s * p_wsy p; p_wix := s * p_wix p; p_wiy := s * p_wiy p; p_wpx := s * p_wpx p; p_wpy := s * p_wpy p;
  p_z0s := p_z0s p; p_z0i := p_z0i p; p_dirz_s := p_dirz_s p; p_dirz_i := p_dirz_i p;
  p_omega_s := p_omega_s p; p_omega_i := p_omega_i p; p_n_p := p_n_p p; p_n_s := p_n_s p; p_n_i := p_n_i p;
  p_rho := atan (s * tan (p_rho p)); p_k_eff := p_k_eff p; p_apod := p_apod p;
  p_pp_on := p_pp_on p; p_lambda_p := p_lambda_p p; p_omega_p0 := p_omega_p0 p; p_bw := p_bw p;
  p_power := p_power p; p_deff := p_deff p; p_thr := p_thr p;
  p_lambda_s := p_lambda_s p; p_lambda_i := p_lambda_i p; p_omega_s0 := p_omega_s0 p; p_omega_i0 := p_omega_i0 p;
  p_n_s0 := p_n_s0 p; p_n_i0 := p_n_i0 p; p_n_p0 := p_n_p0 p; p_ng_s := p_ng_s p; p_ng_i := p_ng_i p; p_ng_p := p_ng_p p
|}.

(* both down-converted group indices set to g (degenerate type-0/1 setups) *)
Definition pm_set_ng (g : R) (p : pm_params) : pm_params := {|
  p_L := p_L p; p_phi_s := p_phi_s p; p_phi_i := p_phi_i p; p_theta_s := p_theta_s p; p_theta_i := p_theta_i p;
  p_theta_s_e := p_theta_s_e p; p_theta_i_e := p_theta_i_e p;
  p_wsx := p_wsx p; p_wsy := p_wsy p; p_wix := p_wix p; p_wiy := p_wiy p; p_wpx := p_wpx p; p_wpy := p_wpy p;
  p_z0s := p_z0s p; p_z0i := p_z0i p; p_dirz_s := p_dirz_s p; p_dirz_i := p_dirz_i p;
  p_omega_s := p_omega_s p; p_omega_i := p_omega_i p; p_n_p := p_n_p p; p_n_s := p_n_s p; p_n_i := p_n_i p;
  p_rho := p_rho p; p_k_eff := p_k_eff p; p_apod := p_apod p;
  p_pp_on := p_pp_on p; p_lambda_p := p_lambda_p p; p_omega_p0 := p_omega_p0 p; p_bw := p_bw p;
  p_power := p_power p; p_deff := p_deff p; p_thr := p_thr p;
  p_lambda_s := p_lambda_s p; p_lambda_i := p_lambda_i p; p_omega_s0 := p_omega_s0 p; p_omega_i0 := p_omega_i0 p;
  p_n_s0 := p_n_s0 p; p_n_i0 := p_n_i0 p; p_n_p0 := p_n_p0 p; p_ng_s := g; p_ng_i := g; p_ng_p := p_ng_p p
|}.
