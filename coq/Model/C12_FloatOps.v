(* C12 — a third instance of the operation record: real numbers with every arithmetic operation followed by a rounding
   function [rnd].  Instantiating the TRANSLATED kernels at [Fops rnd] gives their floating-point evaluation in the standard
   model (each operation correctly rounded; no overflow, no underflow).  Definitions only. *)
From Coq Require Import Reals QArith ZArith List Bool.
From Coquelicot Require Import Coquelicot.
From SpdVerif Require Import Base.NumOps.
Local Open Scope R_scope.

Definition Fops (rnd : R -> R) : num_ops := {|
  Sc := R; Vc := C;
  s_of_Z := IZR;                      (* integers below 2^53 are exact *)
  s_of_Q := fun q => rnd (Q2R q);
  sadd := fun x y => rnd (x + y); ssub := fun x y => rnd (x - y);
  smul := fun x y => rnd (x * y); sdiv := fun x y => rnd (x / y); sabs := Rabs;
  seqb := Rbool_eq; sltb := Rbool_lt; sleb := Rbool_le;
  vmk := fun re im => (re, im); vre := fst; vim := snd;
  vadd := fun u v => (rnd (fst u + fst v), rnd (snd u + snd v));
  vsub := fun u v => (rnd (fst u - fst v), rnd (snd u - snd v));
  vscale := fun s v => (rnd (s * fst v), rnd (s * snd v));       (* num: Complex * f64 is componentwise *)
  vdiv := fun v s => (rnd (fst v / s), rnd (snd v / s));
  vnorm_leb := fun v s => Rbool_le (rnd (Cmod v)) s;
|}.

(* the standard model: relative error at most u per operation *)
Definition std_model (rnd : R -> R) (u : R) : Prop :=
  forall x : R, exists delta : R, Rabs delta <= u /\ rnd x = x * (1 + delta).
