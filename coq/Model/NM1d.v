(* C04 model: argmin 0.10 `NelderMead` with TWO vertices (one optimisation parameter), driven by argmin's `Executor`, as
   src/math/nelder_mead.rs uses it (`nelder_mead_1d`).  Definitions only.

   argmin-0.10.0/src/solver/neldermead/mod.rs, specialised to params.len() = 2:
     init       cost of both vertices, stable sort by cost                       (fn init)
     next_iter  x0 = centroid of all but the worst = params[0] * (1/1)
                xr = x0 + (x0 - worst) * alpha,  alpha = 1                        (reflect)
                "second worst" is params[2-2] = the best vertex, so the plain reflection branch
                  `xr_cost < second_worst && xr_cost >= best` can never be taken
                xr_cost <  best : xe = x0 + (xr - x0) * gamma, gamma = 2; worst := xe if xe_cost < xr_cost else xr    (expansion)
                xr_cost >= best : if xr_cost < worst_cost  (outside) xc = x0 + (xr - x0) * rho, rho = 1/2;
                                                            worst := xc if xc_cost <= xr_cost else shrink
                                  else                     (inside)  xc = x0 + (worst - x0) * rho;
                                                            worst := xc if xc_cost < worst_cost else shrink
                shrink: worst := best + (worst - best) * sigma, sigma = 1/2, re-evaluated
                stable sort                                                                                         (fn next_iter)
     terminate  sample standard deviation of the two costs < sd_tolerance                                           (fn terminate)
   argmin-0.10.0/src/core/executor.rs, state/iterstate.rs:
     after init and after every iteration `state.update()`: the current best vertex replaces the recorded best parameter
       when its cost is strictly smaller, or when both costs are +infinity;
     before every iteration: stop if the solver's `terminate` says so, or iter >= max_iters   (target cost is -infinity);
     the result is the recorded best parameter.
   NaN costs: the binary64 instance below follows Cost1d::cost as translated (a NaN cost is +infinity since /repo d569966; before
   that it reached the solver, which then fails: `nm_defined`).  The generic model and its theorems are about orders without NaN.

   The model is generic in the point type P, the finite-cost type K with a strict order [klt], the five point operations
   (so the theorems also hold for the rounded binary64 operations), the cost function and the termination test. *)
From Coq Require Import List Bool ZArith QArith.
Import ListNotations.

Section NM.
  Context {P K : Type}.
  Variable klt : K -> K -> bool.

  (* costs with +infinity (Cost1d returns f64::INFINITY outside [min, max]) *)
  Inductive ecost : Type := CFin (k : K) | CInf.

  Definition elt (a b : ecost) : bool :=
    match a, b with
    | CFin x, CFin y => klt x y
    | CFin _, CInf => true
    | CInf, _ => false
    end.
  Definition ele (a b : ecost) : bool := negb (elt b a).
  Definition is_inf (a : ecost) : bool := match a with CInf => true | CFin _ => false end.

  Record ops : Type := mkOps {
    op_centroid : P -> P;            (* params[0].mul(1/1) *)
    op_reflect : P -> P -> P;        (* x0, worst  |-> x0 + (x0 - worst) * 1 *)
    op_expand : P -> P -> P;         (* x0, xr     |-> x0 + (xr - x0) * 2 *)
    op_contract : P -> P -> P;       (* x0, x      |-> x0 + (x - x0) * (1/2) *)
    op_shrink : P -> P -> P }.       (* best, p    |-> best + (p - best) * (1/2) *)

  Variable o : ops.
  Variable f : P -> ecost.                      (* Cost1d::cost *)
  Variable sd_small : ecost -> ecost -> bool.    (* NelderMead::terminate on the two vertex costs *)

  Record vertex : Type := mkV { vp : P; vc : ecost }.
  Definition eval (p : P) : vertex := mkV p (f p).

  (* simplex (sorted), recorded best vertex, evaluated points (most recent first) *)
  Record state : Type := mkS { s0 : vertex; s1 : vertex; sbest : vertex; strace : list P }.

  (* sort_by(partial_cmp) on two elements is stable: swap only when the second is strictly cheaper *)
  Definition sort2 (a b : vertex) : vertex * vertex := if elt (vc b) (vc a) then (b, a) else (a, b).

  (* IterState::update *)
  Definition update_best (best cur : vertex) : vertex :=
    if elt (vc cur) (vc best) || (is_inf (vc cur) && is_inf (vc best)) then cur else best.

  Definition init (g0 g1 : P) : state :=
    let '(a, b) := sort2 (eval g0) (eval g1) in
    (* before init the recorded best cost is +infinity and there is no best parameter: the first vertex is always recorded *)
    mkS a b a [g1; g0].

  (* the vertex that replaces the worst one, and the points evaluated on the way (most recent first) *)
  Definition replace_worst (b w : vertex) : vertex * list P :=
    let x0 := op_centroid o (vp b) in
    let xr := op_reflect o x0 (vp w) in
    let cr := f xr in
    if elt cr (vc b) then
      let xe := op_expand o x0 xr in
      let ce := f xe in
      ((if elt ce cr then mkV xe ce else mkV xr cr), [xe; xr])
    else if elt cr (vc w) then
      let xc := op_contract o x0 xr in
      let cc := f xc in
      if ele cc cr then (mkV xc cc, [xc; xr])
      else let ps := op_shrink o (vp b) (vp w) in (eval ps, [ps; xc; xr])
    else
      let xc := op_contract o x0 (vp w) in
      let cc := f xc in
      if elt cc (vc w) then (mkV xc cc, [xc; xr])
      else let ps := op_shrink o (vp b) (vp w) in (eval ps, [ps; xc; xr]).

  Definition step (s : state) : state :=
    let '(w', tr) := replace_worst (s0 s) (s1 s) in
    let '(n0, n1) := sort2 (s0 s) w' in
    mkS n0 n1 (update_best (sbest s) n0) (tr ++ strace s).

  Definition terminated (s : state) : bool := sd_small (vc (s0 s)) (vc (s1 s)).

  (* Executor::run: at most max_iters iterations, each preceded by the termination test *)
  Fixpoint run_loop (fuel : nat) (s : state) : state :=
    match fuel with
    | O => s
    | S k => if terminated s then s else run_loop k (step s)
    end.

  Definition nm_run (g0 g1 : P) (max_iter : nat) : state := run_loop max_iter (init g0 g1).
  (* nelder_mead_1d: *res.state().get_best_param().unwrap() *)
  Definition nm_result (g0 g1 : P) (max_iter : nat) : P := vp (sbest (nm_run g0 g1 max_iter)).
End NM.

Arguments CFin {K} k.
Arguments CInf {K}.

(* ------------------------------------------------------------------------------------------------ binary64 instance *)
(* Coq's primitive binary64 floats: the same IEEE operations the implementation executes (argmin-math: f64 add/sub/mul). *)
From Coq Require Import Floats.
From SpdVerif Require Import Gen.AutoCalc.

Definition float_ops : @ops float :=
  mkOps (fun p => p * 1)%float
        (fun x0 w => x0 + (x0 - w) * 1)%float
        (fun x0 xr => x0 + (xr - x0) * 2)%float
        (fun x0 x => x0 + (x - x0) * 0.5)%float
        (fun b p => b + (p - b) * 0.5)%float.

(* an f64 cost as a model cost.  f64::INFINITY is the model's +infinity.  A NaN cost: Gen/AutoCalc.v reads off Cost1d::cost
   whether it is turned into INFINITY (`if cost.is_nan() { Ok(INFINITY) }`, /repo d569966: nm_nan_cost_is_infinite = true) or
   handed to the solver as it is (before: the NaN then reaches the comparisons, argmin answers `Reached unreachable point` when
   a reflection cost is NaN and nelder_mead_1d panics — the model keeps the NaN as a finite cost and `nm_defined` says so) *)
Definition fcost (c : float) : @ecost float :=
  if PrimFloat.eqb c infinity then CInf
  else if (nm_nan_cost_is_infinite && negb (PrimFloat.eqb c c))%bool then CInf
  else CFin c.

(* Cost1d::cost: outside the bounds the cost is INFINITY; the bounds test is the generated one (binary64 comparisons) *)
Definition bounded (lo hi : float) (g : float -> float) (x : float) : @ecost float :=
  if nm_out_of_bounds_float x lo hi then CInf else fcost (g x).

(* NelderMead::terminate, n = 2:  c0 = (ca + cb) / n;  s = sqrt(1/(n-1) * ((ca - c0)^2 + (cb - c0)^2));  s < sd_tolerance.
   An infinite cost makes s NaN: not terminated. *)
Definition sd_small_float (tol : float) (a b : @ecost float) : bool :=
  match a, b with
  | CFin ca, CFin cb =>
      let c0 := ((ca + cb) / 2)%float in
      let da := (ca - c0)%float in
      let db := (cb - c0)%float in
      PrimFloat.ltb (PrimFloat.sqrt (1 / (2 - 1) * (da * da + db * db)))%float tol
  | _, _ => false
  end.

(* cost function given by a recorded evaluation table (x, cost) as a search tree: the oracle of a traced run *)
Inductive ftree : Type := FLeaf | FNode (l : ftree) (k v : float) (r : ftree).
Fixpoint tree_lookup (t : ftree) (x : float) : float :=
  match t with
  | FLeaf => nan
  | FNode l k v r =>
      match PrimFloat.compare x k with
      | FEq => v
      | FLt => tree_lookup l x
      | FGt => tree_lookup r x
      | FNotComparable => nan
      end
  end.

Definition in_bounds (lo hi x : float) : bool := negb (nm_out_of_bounds_float x lo hi).

(* no NaN reached the solver: every cost it was given is +infinity or a number *)
Definition cost_is_nan (a : @ecost float) : bool := match a with CFin c => negb (PrimFloat.eqb c c) | CInf => false end.

(* does the run stay defined?  false when a NaN cost was handed to the solver at one of the evaluated points (only possible when
   nm_nan_cost_is_infinite = false): argmin's comparisons with NaN are all false and nelder_mead_1d panics or returns garbage *)
Definition nm_defined (g : float -> float) (g0 g1 : float) (max_iter : nat) (lo hi tol : float) : bool :=
  let s := nm_run PrimFloat.ltb float_ops (bounded lo hi g) (sd_small_float tol) g0 g1 max_iter in
  negb (existsb (fun x => cost_is_nan (bounded lo hi g x)) (strace s)).

(* nelder_mead_1d in binary64: result and the in-bounds evaluations in order *)
Definition nm_float (g : float -> float) (g0 g1 : float) (max_iter : nat) (lo hi tol : float) : float * list float :=
  let s := nm_run PrimFloat.ltb float_ops (bounded lo hi g) (sd_small_float tol) g0 g1 max_iter in
  (vp (sbest s), filter (in_bounds lo hi) (rev (strace s))).

(* toy cost functions of the harness (harness/src/c04.rs: toy), operation by operation *)
Definition toy (kind : nat) (a b h : float) (x : float) : float :=
  match kind with
  | 0%nat => abs (x - a)
  | 1%nat => (x - a) * (x - a)
  | 2%nat => if PrimFloat.ltb x a then (a - x) * 2 + h else (x - a) * 0.5 + h
  | 3%nat => let u := abs (x - a) in let v := abs (x - b) + h in if PrimFloat.ltb u v then u else v
  | 4%nat => h
  | 5%nat => if PrimFloat.ltb x a then 1 else 0
  | 6%nat => let u := abs (x - a) in let v := 2 * abs (x - b) in if PrimFloat.ltb v u then u else v
  | _ => (* undefined (NaN) on the open interval (a, a + 2), |x - b| elsewhere *)
         if (PrimFloat.ltb a x && PrimFloat.ltb x (a + 2))%bool then nan else abs (x - b)
  end%float.

(* ------------------------------------------------------------------------------------------------ exact instance over Q *)
Definition qlt (a b : Q) : bool := match Qcompare a b with Lt => true | _ => false end.

(* exact rational operations (each result reduced to lowest terms, which does not change its value) *)
Definition exact_ops : @ops Q :=
  mkOps (fun p => p) (fun x0 w => Qred (x0 + (x0 - w))) (fun x0 xr => Qred (x0 + (xr - x0) * 2))
        (fun x0 x => Qred (x0 + (x - x0) * (1 # 2))) (fun b p => Qred (b + (p - b) * (1 # 2))).

Definition qbounded (lo hi : Q) (g : Q -> Q) (x : Q) : @ecost Q :=
  if (qlt hi x || qlt x lo)%bool then CInf else CFin (g x).

(* exact-arithmetic termination test: (ca - cb)^2 / 2 < tol^2 *)
Definition sd_small_exact (tol : Q) (a b : @ecost Q) : bool :=
  match a, b with
  | CFin ca, CFin cb => qlt ((ca - cb) * (ca - cb)) (2 * tol * tol)
  | _, _ => false
  end.

Definition nm_exact (g : Q -> Q) (g0 g1 : Q) (max_iter : nat) (lo hi tol : Q) : Q :=
  Qred (nm_result qlt exact_ops (qbounded lo hi g) (sd_small_exact tol) g0 g1 max_iter).
