(* C15 — std::iter::Zip::next_back (general implementation) over enumerate's index range and a double-ended exact-size iterator,
   and the state an iterator is left in by a schedule of next()/next_back() calls.  Definitions only.
     let a_sz = self.a.len(); let b_sz = self.b.len();
     if a_sz != b_sz { if a_sz > b_sz { for _ in 0..a_sz - b_sz { self.a.next_back(); } } else { for _ in 0..b_sz - a_sz { self.b.next_back(); } } }
     match (self.a.next_back(), self.b.next_back()) { (Some(x), Some(y)) => Some((x, y)), (None, None) => None, _ => unreachable!() } *)
From Coq Require Import List Arith Bool.
From SpdVerif Require Import Model.Grid.
Import ListNotations.

Section Zip.
Context {A : Type}.
Variable b_back : nat * nat -> option A * (nat * nat).   (* DoubleEndedIterator::next_back of the second iterator *)
Variable b_len : nat * nat -> nat.                        (* its ExactSizeIterator::len *)

(* the first iterator: an index range lo..hi *)
Definition a_back (r : nat * nat) : option nat * (nat * nat) :=
  if (snd r <=? fst r)%nat then (None, r) else (Some (snd r - 1), (fst r, snd r - 1)).
Definition a_len (r : nat * nat) : nat := snd r - fst r.

Definition zip_next_back (st : (nat * nat) * (nat * nat)) : outcome (option (nat * A) * ((nat * nat) * (nat * nat))) :=
  let '(a, b) := st in
  let a_sz := a_len a in let b_sz := b_len b in
  let a' := Nat.iter (a_sz - b_sz) (fun r => snd (a_back r)) a in
  let b' := Nat.iter (b_sz - a_sz) (fun q => snd (b_back q)) b in
  match a_back a', b_back b' with
  | (Some x, a''), (Some y, b'') => Ok (Some (x, y), (a'', b''))
  | (None, a''), (None, b'') => Ok (None, (a'', b''))
  | _, _ => Panic          (* unreachable!() *)
  end.

(* `.rev().collect()` / for_each from the back *)
Fixpoint zip_rev_collect (fuel : nat) (st : (nat * nat) * (nat * nat)) : outcome (list (nat * A)) :=
  match fuel with
  | 0 => Ok []
  | S f => match zip_next_back st with
           | Ok (Some p, st') => obind (zip_rev_collect f st') (fun l => Ok (p :: l))
           | Ok (None, _) => Ok []
           | Panic => Panic
           end
  end.
End Zip.

(* the state after a schedule of calls (true = next(), false = next_back()) *)
Fixpoint sched_state {St A} (nxt bck : stepper St A) (sched : list bool) (st : St) : St :=
  match sched with
  | [] => st
  | b :: rest => sched_state nxt bck rest (snd (if b then nxt st else bck st))
  end.
