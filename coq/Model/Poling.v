(* C19 — hand-written definitions on top of the generated Gen/Poling.v: the family of width-parameter windows, the update
   operations of PeriodicPoling as a state machine, and the abstract ("what the caller asked for") state it is compared to.
   Definitions only. *)
From Coq Require Import Reals List.
From SpdVerif Require Import Base.Rx Base.PolingBase Gen.Poling.
Import ListNotations.
Local Open Scope R_scope.

(* the six windows that take a width parameter *)
Inductive width_kind : Type := KBartlett | KBlackman | KConnes | KCosine | KHamming | KWelch.

Definition all_width_kinds : list width_kind := [KBartlett; KBlackman; KConnes; KCosine; KHamming; KWelch].

Definition window (k : width_kind) (a : R) : apodization :=
  match k with
  | KBartlett => ApBartlett a
  | KBlackman => ApBlackman a
  | KConnes => ApConnes a
  | KCosine => ApCosine a
  | KHamming => ApHamming a
  | KWelch => ApWelch a
  end.

(* windows for which the property's "even, 1 at the centre, values in [0,1]" clause is claimed: no apodization, a Gaussian of
   positive FWHM on a crystal of positive length, and the six width-parameter windows with parameter 1 *)
Definition unit_window (ap : apodization) (L : R) : Prop :=
  match ap with
  | ApOff => True
  | ApGaussian fwhm => 0 < fwhm /\ 0 < L
  | ApBartlett a | ApBlackman a | ApConnes a | ApCosine a | ApHamming a | ApWelch a => a = 1
  | ApInterpolate _ => False
  end.

(* normalised position of sample k of n for the interpolated profile: z = -1 + 2 (k + t) / (n - 1) *)
Definition interp_position (n : nat) (k : nat) (t : R) : R := 2 * (INR k + t) / (INR n - 1) - 1.

(* the narrower / wider fraction of a domain pair *)
Definition duty (a : R) : R := acos (1 - 2 * a ^ 2) / (2 * PI).

(* ---- update operations as a state machine -------------------------------------------------------------------- *)
Inductive pp_op : Type :=
  | OpWithPeriod (p : R)
  | OpAssignPeriod (p : R)
  | OpSetApodization (a : apodization)
  | OpWithApodization (a : apodization)
  | OpAsOptimum (p : R).   (* try_as_optimum when the optimiser (an oracle) returns Ok(p) *)

Definition pp_step (s : periodic_poling) (op : pp_op) : periodic_poling :=
  match op with
  | OpWithPeriod p => pp_with_period s p
  | OpAssignPeriod p => pp_assign_period s p
  | OpSetApodization a => pp_set_apodization s a
  | OpWithApodization a => pp_with_apodization s a
  | OpAsOptimum p => match pp_try_as_optimum (Some p) s with Some s' => s' | None => s end
  end.

Definition pp_run (s : periodic_poling) (ops : list pp_op) : periodic_poling := fold_left pp_step ops s.

(* what the caller asked for: None = unpoled, Some (signed period, apodization) *)
Definition request : Type := option (R * apodization).

Definition request_step (r : request) (op : pp_op) : request :=
  match op, r with
  | OpWithPeriod p, None | OpAsOptimum p, None => Some (p, ApOff)
  | OpWithPeriod p, Some (_, a) | OpAsOptimum p, Some (_, a) => Some (p, a)
  | OpAssignPeriod p, None => None
  | OpAssignPeriod p, Some (_, a) => Some (p, a)
  | OpSetApodization a, None | OpWithApodization a, None => None
  | OpSetApodization a, Some (p, _) | OpWithApodization a, Some (p, _) => Some (p, a)
  end.

Definition request_run (r : request) (ops : list pp_op) : request := fold_left request_step ops r.

(* the stored representation the property prescribes: positive magnitude, sign of the requested period *)
Definition rep (r : request) : periodic_poling :=
  match r with
  | None => Off
  | Some (p, a) => On (Rabs p) (if Rlt_dec p 0 then NEGATIVE else POSITIVE) a
  end.

Definition op_ok (op : pp_op) : Prop :=
  match op with
  | OpWithPeriod p | OpAssignPeriod p | OpAsOptimum p => p <> 0
  | _ => True
  end.

Definition request_ok (r : request) : Prop :=
  match r with None => True | Some (p, _) => p <> 0 end.

(* well-formed stored state: positive magnitude *)
Definition pp_wf (s : periodic_poling) : Prop :=
  match s with Off => True | On p _ _ => 0 < p end.
