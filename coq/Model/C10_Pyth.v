(* C09 / C10 — exact non-zero-delay cases.  For the Pythagorean angle phi0 = atan(4/3) the phase factor e^{i m phi0} is the
   rational complex number (3/5 + 4/5 i)^m.  On grids whose axes are arithmetic progressions with a common step h
   (signal axis x0 + s h, idler axis x0 + k h + r i h) and the delay tau = m0 phi0 / h, every phase factor of hom_rate and of
   hom_two_source_rate_series is such a power, so the parametric definitions run exactly over Q.  Definitions only. *)
From Coq Require Import Reals QArith ZArith List.
From SpdVerif Require Import Model.FinSum Model.Hom Model.Hom2.
Local Open Scope nat_scope.

Definition pyth_base {T} (o : Ops T) : cx T := (odiv o (onat o 3) (onat o 5), odiv o (onat o 4) (onat o 5)).
Fixpoint cpow {T} (o : Ops T) (z : cx T) (n : nat) : cx T :=
  match n with O => cone o | S k => cmul o z (cpow o z k) end.
(* e^{i m phi0} *)
Definition pyth {T} (o : Ops T) (m : Z) : cx T :=
  match m with
  | Z0 => cone o
  | Zpos p => cpow o (pyth_base o) (Pos.to_nat p)
  | Zneg p => cconj o (cpow o (pyth_base o) (Pos.to_nat p))
  end.
Definition phi0 : R := atan (4 / 3).

Definition zs (n idx : nat) : Z := Z.of_nat (fst (get_2d_indices idx n)).
Definition zi (n idx : nat) : Z := Z.of_nat (snd (get_2d_indices idx n)).

(* hom_rate on an n x n grid: wi - ws = (k + r i - s) h *)
Definition pyth_phase_hom {T} (o : Ops T) (n : nat) (m0 k r : Z) (idx : nat) : cx T :=
  pyth o (m0 * (k + r * zi n idx - zs n idx))%Z.
(* two-source, both ranges equal:  ws2 - ws1 = (s2 - s1) h,  wi2 - wi1 = r (i2 - i1) h,  wi2 - ws1 = (k + r i2 - s1) h *)
Definition pyth_phase_ss {T} (o : Ops T) (n : nat) (m0 : Z) (i1 i2 : nat) : cx T := pyth o (m0 * (zs n i2 - zs n i1))%Z.
Definition pyth_phase_ii {T} (o : Ops T) (n : nat) (m0 r : Z) (i1 i2 : nat) : cx T := pyth o (m0 * (r * (zi n i2 - zi n i1)))%Z.
Definition pyth_phase_si {T} (o : Ops T) (n : nat) (m0 k r : Z) (i1 i2 : nat) : cx T := pyth o (m0 * (k + r * zi n i2 - zs n i1))%Z.

(* the axes: signal (x0, x0 + (n-1) h), idler (x0 + k h, x0 + k h + r (n-1) h) *)
Definition pyth_ls (n : nat) (x0 h : R) : R * R := (x0, x0 + INR (n - 1) * h)%R.
Definition pyth_li (n : nat) (x0 h : R) (k r : Z) : R * R := (x0 + IZR k * h, x0 + IZR k * h + IZR r * (INR (n - 1) * h))%R.
Definition pyth_delay (m0 : Z) (h : R) : R := (IZR m0 * phi0 / h)%R.

(* executable twins *)
Definition hom_rate_Qpyth (n : nat) (f gs : list (cx Q)) (m0 k r : Z) : Q :=
  let fa := arr (0, 0)%Q f in
  hom_rate_gen QOps (n * n) fa (arr (0, 0)%Q gs) (pyth_phase_hom QOps n m0 k r) (jsi_norm QOps (n * n) fa).
Definition ts_rates_Qpyth (n : nat) (l : list (list (cx Q))) (m0 k r : Z) : Q * Q * Q :=
  let A := ts_of_lists l in
  (ts_rate_ss QOps n A (pyth_phase_ss QOps n m0), ts_rate_ii QOps n A (pyth_phase_ii QOps n m0 r), ts_rate_si QOps n A (pyth_phase_si QOps n m0 k r)).
