(* C14 / C15 — floating-point instances of the abstract field operations of Gen/Grid.v (definitions only).
   binary64 is Flocq's FLT_exp (-1074) 53 with round-to-nearest-even; absent overflow and (gradual) underflow it coincides
   with the unbounded-exponent format FLX_exp 53 (Flocq: round_FLT_FLX).  Instantiating the GENERATED formulas at these
   rounded operations gives the float evaluation of the code: every + - * / rounded once, `n as f64` and literals exact. *)
From Coq Require Import Reals ZArith.
From Flocq Require Import Core.
From SpdVerif Require Import Base.GridOps.
Local Open Scope R_scope.

Definition u53 : R := / 2 * bpow radix2 (-53 + 1).          (* unit roundoff 2^-53 *)
Definition rndX (x : R) : R := round radix2 (FLX_exp 53) ZnearestE x.
Definition rnd64 (x : R) : R := round radix2 (FLT_exp (-1074) 53) ZnearestE x.

Definition FXops : ops R :=
  mk_ops R (fun a b => rndX (a + b)) (fun a b => rndX (a - b)) (fun a b => rndX (a * b)) (fun a b => rndX (a / b)) INR IZR.
Definition F64ops : ops R :=
  mk_ops R (fun a b => rnd64 (a + b)) (fun a b => rnd64 (a - b)) (fun a b => rnd64 (a * b)) (fun a b => rnd64 (a / b)) INR IZR.

(* the guard under which a binary64 operation is an FLX-53 operation: the exact result is zero or in the normal range
   (|x| >= 2^-1022); overflow (|result| >= 2^1024) is outside the FLT model altogether *)
Definition normal_or_zero (x : R) : Prop := x = 0 \/ bpow radix2 (-1074 + 53 - 1) <= Rabs x.
