(* Execution support for the correspondence cases (tie #2) of C16/C17/C20: the model of Model/Config.v is run at the Q
   instance with the oracle answers RECORDED from the implementation (harness shadow construction), and its result is
   compared, inside Coq, with the setup the implementation built.  The output is one string
       <class>|nf=<non-finite fields>|trace=<step=class,...>|mis=<mismatching fields>
   Definitions only. *)
From Coq Require Import String List Bool ZArith QArith Qabs Qminmax.
From SpdVerif Require Import Base.CfgNumOps Spec.ConfigSpec Gen.ConfigTables Gen.ConfigSites Model.ConfigTypes Model.Config Model.NumInst.
Import ListNotations.
Local Open Scope string_scope.

Definition tol_rel : Q := 1 # 100000000000.        (* 1e-11 *)
Definition tol_abs : Q := 1 # 1000000000000000.    (* 1e-15 *)
Definition qnear (a b : Q) : bool :=
  let d := Qabs (a - b) in
  Qle_bool d tol_abs || Qle_bool d (tol_rel * Qmax (Qabs a) (Qabs b)).
(* table KEYS (wavelengths in metres, ~1e-6): relative nearness only -- the absolute tolerance above (1e-15) is coarser than the
   difference between two distinct wavelengths (an explicit idler of 966.152 nm and the energy-conserving 966.15200083 nm are
   8.3e-16 m apart) and made the lookup return the answer recorded for the other beam *)
Definition qnear_key (a b : Q) : bool := Qle_bool (Qabs (a - b)) (tol_rel * Qmax (Qabs a) (Qabs b)).
(* angles: equal modulo one turn *)
Definition anear (a b : Q) : bool :=
  qnear a b || qnear (a + 2 * Qpi) b || qnear a (b + 2 * Qpi).

Definition sentinel : Q := 1000000000000000000000000000000.

(* Each recorded answer comes with the ARGUMENTS of the public call that produced it (argument digest): the model's oracle answers
   only when the arguments IT passes are those; otherwise it answers the sentinel and the comparison with the implementation's
   setup fails -- so a shadow construction that calls the kernels with other arguments than the model (or than the code) is
   noticed.  [None] = unchecked (only for hand-built tables of the API cases). *)
Record otable := {
  t_snell_inv : list (Q * Q * option Q);              (* wavelength, external angle, answer *)
  t_snell_ext : option Q;
  t_nm_theta : option Q;
  t_dkz0 : Q;
  t_nm_period : option Q;
  t_idler_theta : option Q;
  t_waist_pos : list (Q * polarization * option Q);   (* wavelength, polarization, answer *)
  t_snell_ext_args : option (list Q);     (* signal wavelength, theta, phi; crystal theta, phi *)
  t_nm_theta_args : option (list Q);      (* external angle; signal wavelength, phi; pump wavelength; crystal phi *)
  t_dkz0_args : option (list Q);          (* signal wavelength, theta, phi; pump wavelength; crystal theta, phi *)
  t_idler_theta_args : option (list Q)    (* signal wavelength, theta, phi; pump wavelength; crystal theta, phi; signed poling period (0 = off) *)
}.

Fixpoint find_snell (l : list (Q * Q * option Q)) (w e : Q) : option Q :=
  match l with
  | [] => Some sentinel
  | (w', e', r) :: rest => if qnear_key w w' && qnear e e' then r else find_snell rest w e
  end.
Fixpoint find_waist (l : list (Q * polarization * option Q)) (w : Q) (p : polarization) : option Q :=
  match l with
  | [] => Some sentinel
  | (w', p', r) :: rest => if qnear_key w w' && pol_eqb p p' then r else find_waist rest w p
  end.

Fixpoint args_near (a b : list Q) : bool :=
  match a, b with
  | [], [] => true
  | x :: a', y :: b' => anear x y && args_near a' b'
  | _, _ => false
  end.
Definition digest_ok (recorded : option (list Q)) (actual : list Q) : bool :=
  match recorded with None => true | Some r => args_near r actual end.
Definition signed_period (pp : poling Q) : Q :=
  match pp with PolOff => 0 | PolOn p Pos _ => p | PolOn p Neg _ => - p end.

Definition oracles_of_table (t : otable) : oracles Q := {|
  o_snell_inv := fun b e _ => find_snell (t_snell_inv t) (b_wavelength b) e;
  o_snell_ext := fun b cs =>
    if digest_ok (t_snell_ext_args t) [b_wavelength b; b_theta b; b_phi b; cs_theta cs; cs_phi cs] then t_snell_ext t else Some sentinel;
  o_nm_theta := fun cs e s p =>
    if digest_ok (t_nm_theta_args t) [e; b_wavelength s; b_phi s; b_wavelength p; cs_phi cs] then t_nm_theta t else Some sentinel;
  o_dkz0 := fun s p cs =>
    if digest_ok (t_dkz0_args t) [b_wavelength s; b_theta s; b_phi s; b_wavelength p; cs_theta cs; cs_phi cs] then t_dkz0 t else sentinel;
  o_nm_period := fun s p cs =>
    if digest_ok (t_dkz0_args t) [b_wavelength s; b_theta s; b_phi s; b_wavelength p; cs_theta cs; cs_phi cs] then t_nm_period t else Some sentinel;
  o_idler_theta := fun s p cs pp =>
    if digest_ok (t_idler_theta_args t) [b_wavelength s; b_theta s; b_phi s; b_wavelength p; cs_theta cs; cs_phi cs; signed_period pp]
    then t_idler_theta t else Some sentinel;
  o_waist_pos := fun _ w p => find_waist (t_waist_pos t) w p
|}.

Definition flag (name : string) (ok : bool) : list string := if ok then [] else [name].

Definition check_beam (pre : string) (m r : beam Q) (skip_theta : bool) : list string :=
  flag (pre ++ ".pol") (pol_eqb (b_pol m) (b_pol r)) ++
  flag (pre ++ ".phi") (anear (b_phi m) (b_phi r)) ++
  (if skip_theta then [] else flag (pre ++ ".theta") (anear (b_theta m) (b_theta r))) ++
  flag (pre ++ ".wavelength") (qnear (b_wavelength m) (b_wavelength r)) ++
  flag (pre ++ ".waist") (qnear (b_waist m) (b_waist r)).

Definition check_crystal (m r : crystal_setup Q) : list string :=
  flag "crystal.kind" (String.eqb (cs_kind m) (cs_kind r)) ++
  flag "crystal.pm" (pm_eqb (cs_pm m) (cs_pm r)) ++
  flag "crystal.phi" (qnear (cs_phi m) (cs_phi r)) ++
  flag "crystal.theta" (qnear (cs_theta m) (cs_theta r)) ++
  flag "crystal.length" (qnear (cs_length m) (cs_length r)) ++
  flag "crystal.temperature" (qnear (cs_temperature m) (cs_temperature r)) ++
  flag "crystal.counter" (Bool.eqb (cs_counter m) (cs_counter r)).

Fixpoint list_near (a b : list Q) : bool :=
  match a, b with
  | [], [] => true
  | x :: a', y :: b' => qnear x y && list_near a' b'
  | _, _ => false
  end.
Definition apod_near (a b : apod Q) : bool :=
  match a, b with
  | AOff, AOff => true
  | AGaussian x, AGaussian y | ABartlett x, ABartlett y | ABlackman x, ABlackman y | AConnes x, AConnes y
  | ACosine x, ACosine y | AHamming x, AHamming y | AWelch x, AWelch y => qnear x y
  | AInterpolate x, AInterpolate y => list_near x y
  | _, _ => false
  end.
Definition sign_eqb (a b : sign) : bool := match a, b with Pos, Pos | Neg, Neg => true | _, _ => false end.
Definition check_poling (m r : poling Q) (skip_period : bool) : list string :=
  match m, r with
  | PolOff, PolOff => []
  | PolOn p s a, PolOn p' s' a' =>
      (if skip_period then [] else flag "pp.period" (qnear p p') ++ flag "pp.sign" (sign_eqb s s')) ++
      flag "pp.apodization" (apod_near a a')
  | _, _ => ["pp.on"]
  end.

Definition has (nf : list nonfinite) (x : nonfinite) : bool :=
  existsb (fun y => match x, y with
                    | NFIdlerTheta, NFIdlerTheta | NFWaistSignal, NFWaistSignal | NFWaistIdler, NFWaistIdler
                    | NFPeriodInfinite, NFPeriodInfinite => true | _, _ => false end) nf.

Definition check_spdc (m : spdc Q) (nf : list nonfinite) (r : spdc Q) : list string :=
  check_crystal (s_crystal m) (s_crystal r) ++
  check_beam "signal" (s_signal m) (s_signal r) false ++
  check_beam "idler" (s_idler m) (s_idler r) (has nf NFIdlerTheta) ++
  check_beam "pump" (s_pump m) (s_pump r) false ++
  flag "bandwidth" (qnear (s_bandwidth m) (s_bandwidth r)) ++
  flag "power" (qnear (s_power m) (s_power r)) ++
  flag "threshold" (qnear (s_threshold m) (s_threshold r)) ++
  check_poling (s_pp m) (s_pp r) (has nf NFPeriodInfinite) ++
  (if has nf NFWaistSignal then [] else flag "zs" (qnear (s_zs m) (s_zs r))) ++
  (if has nf NFWaistIdler then [] else flag "zi" (qnear (s_zi m) (s_zi r))) ++
  flag "deff" (qnear (s_deff m) (s_deff r)).

Fixpoint join (sep : string) (l : list string) : string :=
  match l with
  | [] => ""
  | [x] => x
  | x :: rest => x ++ sep ++ join sep rest
  end.

Definition nf_name (x : nonfinite) : string :=
  match x with
  | NFIdlerTheta => "idler.theta" | NFWaistSignal => "zs" | NFWaistIdler => "zi" | NFPeriodInfinite => "pp.period"
  end.

Definition report {A} (r : outcome (A * list nonfinite)) (trace : list (string * string)) (mis : list string) : string :=
  cls r ++ "|nf=" ++ join "," (map nf_name (match r with Ok (_, nf) => nf | _ => [] end)) ++
  "|trace=" ++ join "," (map (fun p => fst p ++ "=" ++ snd p) trace) ++
  "|mis=" ++ join "," mis.

(* try_as_spdc on recorded oracle answers, compared with the implementation's setup (when it built one) *)
Definition run_try_as_spdc (U : units Q) (minpos : Q) (t : otable) (c : spdc_cfg Q) (real : option (spdc Q)) : string :=
  let K := oracles_of_table t in
  let r := try_as_spdc Q_ops U K minpos cfg_rejects_bad_period cfg_validates_wavelengths c in
  report r (trace_try_as_spdc Q_ops K minpos cfg_rejects_bad_period cfg_validates_wavelengths c)
         (match r, real with Ok (s, nf), Some rs => check_spdc s nf rs | _, _ => [] end).

(* try_as_optimum likewise *)
Definition run_try_as_optimum (minpos : Q) (t : otable) (s : spdc Q) (real : option (spdc Q)) : string :=
  let K := oracles_of_table t in
  let r := try_as_optimum Q_ops K minpos optimum_idler_sees_old_poling optimum_waist_sees_old_idler s in
  report r [] (match r, real with Ok (s', nf), Some rs => check_spdc s' nf rs | _, _ => [] end).

(* ---- comparison of two configurations (the generated setup -> configuration conversion run on the implementation's
   setup, against the configuration the implementation exported) *)
From SpdVerif Require Import Gen.ConfigConv.

Definition tol_cfg : Q := 1 # 1000000000.   (* 1e-9: the exported numbers are 4-decimal values of moderate size *)
Definition cnear (a b : Q) : bool :=
  let d := Qabs (a - b) in Qle_bool d tol_cfg || Qle_bool d (tol_cfg * Qmax (Qabs a) (Qabs b)).
Definition onear (a b : option Q) : bool :=
  match a, b with Some x, Some y => cnear x y | None, None => true | _, _ => false end.
Definition aunear (a b : auto Q) : bool :=
  match a, b with Param x, Param y => cnear x y | Auto, Auto => true | _, _ => false end.

Definition check_beam_cfg (pre : string) (m r : beam_cfg Q) : list string :=
  flag (pre ++ ".wavelength_nm") (cnear (bc_wavelength_nm m) (bc_wavelength_nm r)) ++
  flag (pre ++ ".phi_deg") (cnear (bc_phi_deg m) (bc_phi_deg r)) ++
  flag (pre ++ ".theta_deg") (onear (bc_theta_deg m) (bc_theta_deg r)) ++
  flag (pre ++ ".theta_external_deg") (onear (bc_theta_ext_deg m) (bc_theta_ext_deg r)) ++
  flag (pre ++ ".waist_um") (cnear (bc_waist_um m) (bc_waist_um r)) ++
  flag (pre ++ ".waist_position_um") (aunear (bc_waist_pos_um m) (bc_waist_pos_um r)).

Definition apod_cfg_near (a b : apod_cfg Q) : bool :=
  match a, b with
  | ACOff, ACOff => true
  | ACGaussian x, ACGaussian y | ACBartlett x, ACBartlett y | ACBlackman x, ACBlackman y | ACConnes x, ACConnes y
  | ACCosine x, ACCosine y | ACHamming x, ACHamming y | ACWelch x, ACWelch y => cnear x y
  | ACInterpolate x, ACInterpolate y => list_near x y
  | _, _ => false
  end.

Definition check_cfg (m r : spdc_cfg Q) : list string :=
  flag "crystal.kind" (String.eqb (cc_kind (c_crystal m)) (cc_kind (c_crystal r))) ++
  flag "crystal.pm_type" (pm_eqb (cc_pm (c_crystal m)) (cc_pm (c_crystal r))) ++
  flag "crystal.phi_deg" (cnear (cc_phi_deg (c_crystal m)) (cc_phi_deg (c_crystal r))) ++
  flag "crystal.theta_deg" (aunear (cc_theta_deg (c_crystal m)) (cc_theta_deg (c_crystal r))) ++
  flag "crystal.length_um" (cnear (cc_length_um (c_crystal m)) (cc_length_um (c_crystal r))) ++
  flag "crystal.temperature_c" (cnear (cc_temperature_c (c_crystal m)) (cc_temperature_c (c_crystal r))) ++
  flag "crystal.counter_propagation" (Bool.eqb (cc_counter (c_crystal m)) (cc_counter (c_crystal r))) ++
  flag "pump.wavelength_nm" (cnear (pc_wavelength_nm (c_pump m)) (pc_wavelength_nm (c_pump r))) ++
  flag "pump.waist_um" (cnear (pc_waist_um (c_pump m)) (pc_waist_um (c_pump r))) ++
  flag "pump.bandwidth_nm" (cnear (pc_bandwidth_nm (c_pump m)) (pc_bandwidth_nm (c_pump r))) ++
  flag "pump.average_power_mw" (cnear (pc_power_mw (c_pump m)) (pc_power_mw (c_pump r))) ++
  flag "pump.spectrum_threshold" (onear (pc_threshold (c_pump m)) (pc_threshold (c_pump r))) ++
  check_beam_cfg "signal" (c_signal m) (c_signal r) ++
  match c_idler m, c_idler r with
  | Param a, Param b => check_beam_cfg "idler" a b
  | Auto, Auto => []
  | _, _ => ["idler"]
  end ++
  match c_pp m, c_pp r with
  | PCOff, PCOff => []
  | PCConfig p a, PCConfig p' a' =>
      flag "periodic_poling.poling_period_um" (aunear p p') ++ flag "periodic_poling.apodization" (apod_cfg_near a a')
  | _, _ => ["periodic_poling"]
  end ++
  flag "deff_pm_per_volt" (cnear (c_deff m) (c_deff r)).

(* the generated conversion applied to the implementation's setup vs the configuration the implementation exported *)
Definition run_as_config (U : units Q) (s : spdc Q) (exported : spdc_cfg Q) : string :=
  "ok|nf=|trace=|mis=" ++ join "," (check_cfg (as_config Q_ops U s) exported).
