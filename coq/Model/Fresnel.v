(* C02 — hand-written real-number model of Fresnel's wave-normal equation (definitions only).

   For principal indices n_x, n_y, n_z put a_i = 1/n_i^2 and for a unit wave normal s put p_i = s_i^2.  Fresnel's equation
       sum_i  s_i^2 / (1/n^2 - 1/n_i^2) = 0
   multiplied out in y = 1/n^2 is   sum_i p_i (y - a_j)(y - a_k) = 0,  i.e. (p_x+p_y+p_z) y^2 - b y + c = 0  with
       b = sum_i p_i (a_j + a_k),   c = sum_i p_i a_j a_k.
   The code (CrystalSetup::index_along) solves x^2 + b x + c = 0 in x = -y, i.e. it uses |s| = 1.
   slow = smaller y = larger n  (what the code returns for PolarizationType::Ordinary),
   fast = larger y  = smaller n (PolarizationType::Extraordinary). *)
From Coq Require Import Reals.
From Coquelicot Require Import Coquelicot.
From SpdVerif Require Import Model.Optics.
Local Open Scope R_scope.

Definition inv2 (n : R) : R := / (n ^ 2).

Definition fb (ax ay az px py pz : R) : R := px * (ay + az) + py * (ax + az) + pz * (ax + ay).
Definition fc (ax ay az px py pz : R) : R := px * (ay * az) + py * (ax * az) + pz * (ax * ay).
Definition fresnel_poly (ax ay az px py pz y : R) : R :=
  px * ((y - ay) * (y - az)) + py * ((y - ax) * (y - az)) + pz * ((y - ax) * (y - ay)).
Definition fdisc (ax ay az px py pz : R) : R := fb ax ay az px py pz ^ 2 - 4 * fc ax ay az px py pz.
Definition y_slow (ax ay az px py pz : R) : R := (fb ax ay az px py pz - sqrt (fdisc ax ay az px py pz)) / 2.
Definition y_fast (ax ay az px py pz : R) : R := (fb ax ay az px py pz + sqrt (fdisc ax ay az px py pz)) / 2.

(* the index of the model, as a function of principal indices and the crystal-frame direction *)
Definition fresnel_index (p : polarization) (nx ny nz sx sy sz : R) : R :=
  let y := match p with
           | Ordinary => y_slow (inv2 nx) (inv2 ny) (inv2 nz) (sx * sx) (sy * sy) (sz * sz)
           | Extraordinary => y_fast (inv2 nx) (inv2 ny) (inv2 nz) (sx * sx) (sy * sy) (sz * sz)
           end in
  1 / sqrt y.

(* every partial operation of the model is defined: divisors non-zero, radicands non-negative / positive *)
Definition fresnel_defined (nx ny nz sx sy sz : R) : Prop :=
  nx ^ 2 <> 0 /\ ny ^ 2 <> 0 /\ nz ^ 2 <> 0 /\
  0 <= fdisc (inv2 nx) (inv2 ny) (inv2 nz) (sx * sx) (sy * sy) (sz * sz) /\
  0 < y_slow (inv2 nx) (inv2 ny) (inv2 nz) (sx * sx) (sy * sy) (sz * sz) /\
  0 < y_fast (inv2 nx) (inv2 ny) (inv2 nz) (sx * sx) (sy * sy) (sz * sz).

Definition min3 (a b c : R) : R := Rmin a (Rmin b c).
Definition max3 (a b c : R) : R := Rmax a (Rmax b c).
Definition mid3 (a b c : R) : R := a + b + c - min3 a b c - max3 a b c.

Definition unit_vec (v : vec) : Prop := vnorm2 v = 1.

(* lab frame -> crystal frame, and the unit vector with polar angle theta and azimuth phi *)
Definition crystal_frame (theta phi : R) (d : vec) : vec := rot_euler 0 theta phi d.
Definition polar_dir (phi theta : R) : vec := (sin theta * cos phi, sin theta * sin phi, cos theta).

(* index of the whole model: lab direction d, crystal angles theta phi *)
Definition index_model (theta phi nx ny nz : R) (d : vec) (p : polarization) : R :=
  let s := crystal_frame theta phi d in fresnel_index p nx ny nz (vx s) (vy s) (vz s).

(* uniaxial closed form: 1/n^2 = cos^2/no^2 + sin^2/ne^2, cos = s_z *)
Definition y_uniaxial (ao ae c2 : R) : R := c2 * ao + (1 - c2) * ae.
Definition n_uniaxial (no ne th : R) : R := 1 / sqrt (y_uniaxial (inv2 no) (inv2 ne) (cos th ^ 2)).

(* optic axes of a biaxial medium with a_lo <= a_mid <= a_hi: p_mid = 0, p on the a_hi axis, p on the a_lo axis *)
Definition optic_axis_p_hi (alo amid ahi : R) : R := (ahi - amid) / (ahi - alo).
Definition optic_axis_p_lo (alo amid ahi : R) : R := (amid - alo) / (ahi - alo).

(* spatial walk-off: tan rho = -(1/n) dn/dtheta (exact derivative), and the code's central difference *)
Definition walkoff_exact (n : R -> R) (theta : R) : R := atan (- Derive n theta / n theta).
Definition walkoff_uniaxial_closed (no ne th : R) : R :=
  atan (/ 2 * n_uniaxial no ne th ^ 2 * (inv2 ne - inv2 no) * sin (2 * th)).
