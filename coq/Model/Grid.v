(* C14 — hand-written executable model around the generated formulas of Gen/Grid.v (definitions only, no proofs):
   grid sequences, the double-ended iterators driven by a schedule, the literal swap loop of transpose_vec, the flat
   (signal, idler) list, and the three space representations as records of two axes. *)
From Coq Require Import List Arith Bool.
From SpdVerif Require Import Base.GridOps Gen.Grid.
Import ListNotations.

(* outcome of a call that may panic *)
Inductive outcome (A : Type) := Ok (v : A) | Panic.
Arguments Ok {A} v.
Arguments Panic {A}.

Definition obind {A B} (x : outcome A) (f : A -> outcome B) : outcome B :=
  match x with Ok v => f v | Panic => Panic end.

(* ------------------------------------------------------------------------------------------------ sequences *)
Section Seq.
Context {T : Type} (O : ops T).

(* what `Steps(s, e, n).into_iter().collect()` is documented to be: value(0), …, value(n-1) *)
Definition seq1d (s e : T) (n : nat) : list T := map (steps_value O s e n) (seq 0 (steps_len n)).

(* what `Steps2D((x0,x1,nx),(y0,y1,ny)).into_iter().collect()` is documented to be *)
Definition seq2d (x0 x1 : T) (nx : nat) (y0 y1 : T) (ny : nat) : list (T * T) :=
  map (steps2d_value O x0 x1 nx y0 y1 ny) (seq 0 (steps2d_len nx ny)).
End Seq.

(* ------------------------------------------------------------------------------------------------ iterators *)
(* one call of a double-ended iterator: state -> (result, state') *)
Definition stepper (St A : Type) := St -> option A * St.

(* a schedule is a list of calls: true = next(), false = next_back().  Outputs in call order. *)
Fixpoint run_sched {St A} (nxt bck : stepper St A) (sched : list bool) (st : St) : list (bool * option A) :=
  match sched with
  | [] => []
  | b :: rest => let '(r, st') := (if b then nxt st else bck st) in (b, r) :: run_sched nxt bck rest st'
  end.

(* the items delivered from the front, and from the back, in call order *)
Definition fronts {A} (out : list (bool * option A)) : list A :=
  flat_map (fun p => match p with (true, Some a) => [a] | _ => [] end) out.
Definition backs {A} (out : list (bool * option A)) : list A :=
  flat_map (fun p => match p with (false, Some a) => [a] | _ => [] end) out.

(* `for x in it` / `collect()` / rayon's fold_with: call next() until it returns None *)
Fixpoint drain {St A} (nxt : stepper St A) (fuel : nat) (st : St) : list A :=
  match fuel with
  | 0 => []
  | S f => match nxt st with (Some a, st') => a :: drain nxt f st' | (None, _) => [] end
  end.

Section Iter.
Context {T : Type} (O : ops T).

Definition it1d_nxt (s e : T) (n : nat) : stepper (nat * nat) T := fun st => it1d_next O s e n (fst st) (snd st).
Definition it1d_bck (s e : T) (n : nat) : stepper (nat * nat) T := fun st => it1d_next_back O s e n (fst st) (snd st).

(* the 2-D iterator state is (partition, (index, index_back)); next/next_back leave the partition alone *)
Definition it2d_nxt (x0 x1 : T) (nx : nat) (y0 y1 : T) (ny : nat) (part : nat * nat) : stepper (nat * nat) (T * T) :=
  fun st => it2d_next O x0 x1 nx y0 y1 ny (fst part) (snd part) (fst st) (snd st).
Definition it2d_bck (x0 x1 : T) (nx : nat) (y0 y1 : T) (ny : nat) (part : nat * nat) : stepper (nat * nat) (T * T) :=
  fun st => it2d_next_back O x0 x1 nx y0 y1 ny (fst part) (snd part) (fst st) (snd st).

(* Steps(s,e,n).into_iter().collect() as the code computes it *)
Definition collect1d (s e : T) (n : nat) : list T := drain (it1d_nxt s e n) (S n) (it1d_new n).
Definition collect2d (x0 x1 : T) (nx : nat) (y0 y1 : T) (ny : nat) : list (T * T) :=
  let '(part, st) := it2d_new nx ny in drain (it2d_nxt x0 x1 nx y0 y1 ny part) (S (nx * ny)) st.
End Iter.

(* ------------------------------------------------------------------------------------------------ transpose_vec *)
(* `for k in lo..hi { body }` over a state, stopping at the first panic *)
Fixpoint for_loop {S} (lo cnt : nat) (body : nat -> S -> outcome S) (s : S) : outcome S :=
  match cnt with
  | 0 => Ok s
  | Datatypes.S c => obind (body lo s) (for_loop (Datatypes.S lo) c body)
  end.
Definition for_range {S} (r : nat * nat) (body : nat -> S -> outcome S) (s : S) : outcome S :=
  for_loop (fst r) (snd r - fst r) body s.

(* utils::transpose_vec (out of place): early return, then the double loop pushing vec[I]; the condition, the ranges, the
   read index and the assertion reached while computing it are the generated ones.  Indexing out of bounds panics. *)
Definition transpose_vec {A} (v : list A) (num_cols : nat) : outcome (list A) :=
  let len := length v in
  if transpose_early_return len num_cols then Ok v
  else
    for_range (transpose_outer_range len num_cols) (fun outer acc =>
      for_range (transpose_inner_range len num_cols outer) (fun inner acc =>
        if transpose_read_pre len num_cols outer inner
        then match nth_error v (transpose_read_index len num_cols outer inner) with
             | Some x => Ok (acc ++ [x])
             | None => Panic
             end
        else Panic) acc) [].

(* w is the transpose of the rows x cols row-major matrix v (w is cols x rows, row-major) *)
Definition is_transpose {A} (rows cols : nat) (v w : list A) : Prop :=
  length w = rows * cols /\
  forall r c, r < rows -> c < cols -> nth_error w (c * rows + r) = nth_error v (r * cols + c).

(* executable reference on nat matrices (used for finite enumeration and correspondence) *)
Definition mat_transpose (rows cols : nat) (v : list nat) : list nat :=
  map (fun k => nth ((k mod rows) * cols + k / rows) v 0) (seq 0 (rows * cols)).
Definition transposes_ok (rows cols : nat) : bool :=
  match transpose_vec (seq 0 (rows * cols)) cols with
  | Ok w => if list_eq_dec Nat.eq_dec w (mat_transpose rows cols (seq 0 (rows * cols))) then true else false
  | Panic => false
  end.

(* ------------------------------------------------------------------------------------------------ flat lists *)
(* slice::chunks_exact(2).map(|a| (a[0], a[1])): consecutive pairs, a trailing odd element is dropped *)
Fixpoint chunk2 {A} (l : list A) : list (A * A) :=
  match l with
  | a :: b :: t => (a, b) :: chunk2 t
  | _ => []
  end.
Definition flatten2 {A} (l : list (A * A)) : list A := flat_map (fun p => [fst p; snd p]) l.

(* the same with the chunk size and the two positions inside a chunk as the code states them (generated farr_chunk / warr_chunk):
   slice::chunks_exact(size) yields the full chunks only; a position outside the chunk would panic (modelled as: no pair) *)
Fixpoint chunks {A} (fuel size : nat) (l : list A) : list (list A) :=
  match fuel with
  | 0 => []
  | S f => if (size =? 0)%nat || (length l <? size)%nat then [] else firstn size l :: chunks f size (skipn size l)
  end.
Definition array_pairs {A} (cfg : nat * (nat * nat)) (l : list A) : list (A * A) :=
  flat_map (fun c => match nth_error c (fst (snd cfg)), nth_error c (snd (snd cfg)) with Some a, Some b => [(a, b)] | _, _ => [] end)
           (chunks (length l) (fst cfg) l).

(* ------------------------------------------------------------------------------------------------ spaces *)
(* an axis is (first endpoint, second endpoint, count); a space is a pair of axes *)
Definition axis (T : Type) := (T * T * nat)%type.
Definition space (T : Type) := (axis T * axis T)%type.
Definition ax_lo {T} (a : axis T) := fst (fst a).
Definition ax_hi {T} (a : axis T) := snd (fst a).
Definition ax_n {T} (a : axis T) := snd a.

Section Spaces.
Context {T : Type} (O : ops T).
Definition on_space {B} (f : T -> T -> nat -> T -> T -> nat -> B) (s : space T) : B :=
  f (ax_lo (fst s)) (ax_hi (fst s)) (ax_n (fst s)) (ax_lo (snd s)) (ax_hi (snd s)) (ax_n (snd s)).
(* the points a space iterates over, in order, after the representation's point map *)
Definition space_points (pt : T -> T -> T * T) (s : space T) : list (T * T) :=
  map (fun p => pt (fst p) (snd p)) (on_space (seq2d O) s).
End Spaces.
