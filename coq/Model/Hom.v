(* C09 — model of src/spdc/hom.rs: jsi_norm, hom_rate, hom_rate_series, hom_visibility and of the setup-level wrappers
   SPDC::hom_rate_series / hom_visibility (src/spdc/spdc_obj.rs).  Definitions only.

   pub fn hom_rate(ranges, jsa_values, jsa_values_swapped, time_delay, norm: Option<f64>) -> f64 {
     let norm = norm.unwrap_or_else(|| jsi_norm(jsa_values));
     let result: f64 = ranges.as_steps().into_par_iter().enumerate().map(|(index, (ws, wi))| {
         let delta_w = wi - ws;
         let shift = Complex::from_polar(1., *(delta_w * time_delay / RAD));
         let f_si = jsa_values[index];  let f_is = jsa_values_swapped[index];
         (f_si.conj() * f_is * shift).re }).sum();
     0.5 * (1. - result / norm) }

   Arrays are index functions nat -> cx T; the model assumes both arrays have the grid's length cols*rows (what every
   caller in the crate passes; a shorter array panics on indexing in Rust, a longer first array would enter jsi_norm
   with its surplus entries).  The grid is utils.rs Steps2D: index k |-> (col, row) = (k % cols, k / cols),
   value = (lerp(x0, x1, col/(cols-1)), lerp(y0, y1, row/(rows-1))), lerp(a, b, t) = a*(1-t) + b*t. *)
From Coq Require Import Reals QArith List.
From SpdVerif Require Import Model.FinSum.
Local Open Scope nat_scope.

Fixpoint onat {T} (o : Ops T) (n : nat) : T :=
  match n with O => o0 o | S k => oadd o (onat o k) (o1 o) end.

(* math::lerp *)
Definition lerp {T} (o : Ops T) (a b t : T) : T := oadd o (omul o a (osub o (o1 o) t)) (omul o b t).

(* Steps2D::value, one axis:  t = if n > 1 { k/(n-1) } else { 0 } *)
Definition axis_value {T} (o : Ops T) (a b : T) (n k : nat) : T :=
  lerp o a b (if Nat.ltb 1 n then odiv o (onat o k) (onat o (n - 1)) else o0 o).

Record grid (T : Type) := mkGrid { g_cols : nat; g_rows : nat; g_x0 : T; g_x1 : T; g_y0 : T; g_y1 : T }.
Arguments mkGrid {T}. Arguments g_cols {T}. Arguments g_rows {T}.
Arguments g_x0 {T}. Arguments g_x1 {T}. Arguments g_y0 {T}. Arguments g_y1 {T}.

Definition grid_len {T} (g : grid T) : nat := g_cols g * g_rows g.
(* (ws, wi) at flat index k: signal along columns (fast index), idler along rows *)
Definition grid_ws {T} (o : Ops T) (g : grid T) (k : nat) : T :=
  axis_value o (g_x0 g) (g_x1 g) (g_cols g) (fst (get_2d_indices k (g_cols g))).
Definition grid_wi {T} (o : Ops T) (g : grid T) (k : nat) : T :=
  axis_value o (g_y0 g) (g_y1 g) (g_rows g) (snd (get_2d_indices k (g_cols g))).

(* ---- parametric core (phase factors u_k supplied by the caller) *)
Definition jsi_norm {T} (o : Ops T) (N : nat) (f : nat -> cx T) : T := gsum o N (fun k => cnorm2 o (f k)).
(* (f_si.conj() * f_is * shift).re *)
Definition hom_term {T} (o : Ops T) (f_si f_is shift : cx T) : T := cre (cmul o (cmul o (cconj o f_si) f_is) shift).
Definition hom_sum {T} (o : Ops T) (N : nat) (f gs u : nat -> cx T) : T :=
  gsum o N (fun k => hom_term o (f k) (gs k) (u k)).
(* 0.5 * (1. - result / norm) *)
Definition hom_rate_gen {T} (o : Ops T) (N : nat) (f gs u : nat -> cx T) (norm : T) : T :=
  omul o (ohalf o) (osub o (o1 o) (odiv o (hom_sum o N f gs u) norm)).

(* ---- real-valued model *)
Definition hom_phase (g : grid R) (tau : R) (k : nat) : cx R :=
  cpolar 1 ((grid_wi ROps g k - grid_ws ROps g k) * tau)%R.

Definition hom_rate (g : grid R) (f gs : nat -> cx R) (tau : R) (norm : option R) : R :=
  let nrm := match norm with Some x => x | None => jsi_norm ROps (grid_len g) f end in
  hom_rate_gen ROps (grid_len g) f gs (hom_phase g tau) nrm.

Definition hom_rate_series (g : grid R) (f gs : nat -> cx R) (taus : list R) : list R :=
  let norm := jsi_norm ROps (grid_len g) f in
  map (fun tau => hom_rate g f gs tau (Some norm)) taus.

(* (0.5 - min_rate) / 0.5 *)
Definition visibility_of_rate (rate : R) : R := ((1 / 2 - rate) / (1 / 2))%R.

(* ---- setup level.  J: the joint spectral amplitude  sp.jsa(ws, wi)  of the setup (an oracle: any function);
   jsa_range evaluates it on the grid, the wrappers evaluate  sp.jsa(wi, ws)  on the same grid for the second array *)
Definition tabulate (J : R -> R -> cx R) (g : grid R) : nat -> cx R :=
  fun k => J (grid_ws ROps g k) (grid_wi ROps g k).
Definition swap_args (J : R -> R -> cx R) : R -> R -> cx R := fun a b => J b a.

Definition setup_hom_rate_series (J : R -> R -> cx R) (g : grid R) (taus : list R) : list R :=
  hom_rate_series g (tabulate J g) (tabulate (swap_args J) g) taus.
(* hom_visibility: delta_t = hom_time_delay(spdc) is an input of the model *)
Definition setup_hom_visibility (J : R -> R -> cx R) (g : grid R) (delta_t : R) : R * R :=
  (delta_t, visibility_of_rate (hom_rate g (tabulate J g) (tabulate (swap_args J) g) delta_t None)).

(* ---- the grids of the property: square, identical signal and idler axes *)
Definition square_sym (n : nat) (g : grid R) : Prop :=
  g_cols g = n /\ g_rows g = n /\ g_y0 g = g_x0 g /\ g_y1 g = g_x1 g.
Definition sym_grid (n : nat) (a b : R) : grid R := mkGrid n n a b a b.

(* separable amplitude profile times the linear phase exp(i t0 (wi - ws)/2) *)
Definition separable_phase (g : grid R) (a : nat -> cx R) (t0 : R) : nat -> cx R :=
  fun k => cmul ROps (cmul ROps (a (fst (get_2d_indices k (g_cols g)))) (a (snd (get_2d_indices k (g_cols g)))))
                (cpolar 1 (t0 * (grid_wi ROps g k - grid_ws ROps g k) / 2)%R).
(* the rate of such a spectrum as a function of the delay difference d = tau - t0 only *)
Definition dip_rate (g : grid R) (a : nat -> cx R) (d : R) : R :=
  (1 / 2 * (1 - rsum (grid_len g) (fun k =>
      cnorm2 ROps (a (fst (get_2d_indices k (g_cols g)))) * cnorm2 ROps (a (snd (get_2d_indices k (g_cols g)))) *
      cos ((grid_wi ROps g k - grid_ws ROps g k) * d))
    / (rsum (g_cols g) (fun s => cnorm2 ROps (a s)) * rsum (g_cols g) (fun s => cnorm2 ROps (a s)))))%R.

(* ---- executable twin at zero delay: every phase factor is 1 *)
Definition hom_rate_Q0 (N : nat) (f gs : list (cx Q)) : Q :=
  let fa := arr (0, 0)%Q f in let ga := arr (0, 0)%Q gs in
  hom_rate_gen QOps N fa ga (fun _ => cone QOps) (jsi_norm QOps N fa).
Definition hom_rate_Q0_normed (N : nat) (f gs : list (cx Q)) (norm : Q) : Q :=
  hom_rate_gen QOps N (arr (0, 0)%Q f) (arr (0, 0)%Q gs) (fun _ => cone QOps) norm.
