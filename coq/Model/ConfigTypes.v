(* Records of the L4 structural model: the flat configuration (src/spdc/config/mod.rs: SPDCConfig, CrystalConfig,
   PumpConfig, SignalConfig, IdlerConfig, PeriodicPolingConfig, ApodizationConfig, AutoCalcParam) and the setup
   (src/spdc/spdc_obj.rs: SPDC; crystal_setup.rs: CrystalSetup; beam/mod.rs: Beam; periodic_poling.rs: PeriodicPoling,
   Apodization), over an arbitrary numeric carrier.  Definitions only. *)
From Coq Require Import String List Bool.
From SpdVerif Require Import Base.CfgNumOps Spec.ConfigSpec.
Import ListNotations.

Set Implicit Arguments.

(* AutoCalcParam<T> *)
Inductive auto (A : Type) := Auto | Param (a : A).
Arguments Auto {A}.
Definition is_auto {A} (x : auto A) : bool := match x with Auto => true | Param _ => false end.

Section Types.
  Variable num : Type.

  (* ---- configuration side (numbers in the configuration's units: deg, um, nm, C, mW, pm/V) *)
  Record crystal_cfg := {
    cc_kind : string; cc_pm : pm_type; cc_phi_deg : num; cc_theta_deg : auto num;
    cc_length_um : num; cc_temperature_c : num; cc_counter : bool }.
  Record pump_cfg := {
    pc_wavelength_nm : num; pc_waist_um : num; pc_bandwidth_nm : num; pc_power_mw : num; pc_threshold : option num }.
  (* SignalConfig and IdlerConfig have the same fields *)
  Record beam_cfg := {
    bc_wavelength_nm : num; bc_phi_deg : num; bc_theta_deg : option num; bc_theta_ext_deg : option num;
    bc_waist_um : num; bc_waist_pos_um : auto num }.
  Inductive apod_cfg :=
  | ACOff | ACGaussian (fwhm_um : num) | ACBartlett (a : num) | ACBlackman (a : num) | ACConnes (a : num)
  | ACCosine (a : num) | ACHamming (a : num) | ACWelch (a : num) | ACInterpolate (l : list num).
  Inductive pp_cfg := PCOff | PCConfig (period_um : auto num) (apod : apod_cfg).
  Record spdc_cfg := {
    c_crystal : crystal_cfg; c_pump : pump_cfg; c_signal : beam_cfg; c_idler : auto beam_cfg;
    c_pp : pp_cfg; c_deff : num }.

  (* ---- setup side (SI: rad, m, K; power and deff in the crate's internal units) *)
  Record crystal_setup := {
    cs_kind : string; cs_pm : pm_type; cs_phi : num; cs_theta : num; cs_length : num; cs_temperature : num;
    cs_counter : bool }.
  (* Beam: the code stores the angular frequency; the model stores the vacuum wavelength it is derived from
     (vacuum_wavelength_to_frequency / frequency_to_vacuum_wavelength are exact inverses over the reals; 1 ulp in binary64).
     `direction` is a function of (phi, theta) and is not a separate field here.  The waist is circular (x = y). *)
  Record beam := { b_pol : polarization; b_phi : num; b_theta : num; b_wavelength : num; b_waist : num }.
  Inductive sign := Pos | Neg.
  Inductive apod :=
  | AOff | AGaussian (fwhm : num) | ABartlett (a : num) | ABlackman (a : num) | AConnes (a : num)
  | ACosine (a : num) | AHamming (a : num) | AWelch (a : num) | AInterpolate (l : list num).
  Inductive poling := PolOff | PolOn (period : num) (s : sign) (a : apod).
  Record spdc := {
    s_crystal : crystal_setup; s_signal : beam; s_idler : beam; s_pump : beam;
    s_bandwidth : num; s_power : num; s_threshold : num; s_pp : poling;
    s_zs : num; s_zi : num; s_deff : num }.

  (* internal units whose numeric value is irrelevant to the model (MILLIW, V of dimensioned::ucum) *)
  Record units := { u_milliw : num; u_volt : num }.
End Types.

Arguments ACOff {num}. Arguments PCOff {num}. Arguments AOff {num}. Arguments PolOff {num}.

Definition is_pol_off {num} (p : poling num) : bool := match p with PolOff => true | PolOn _ _ _ => false end.

(* ---- outcomes of the fallible operations.  [Panic] is produced exactly where the code has unwrap()/assert!;
   [err]/[site] name the message / the source location. *)
Inductive err :=
| EThetaSpec            (* "Must specify one of theta_deg or theta_external_deg"  (config/mod.rs, try_as_beam) *)
| EAutoThetaWithPoling  (* "Can not autocalc theta when periodic poling is enabled..." (config/mod.rs, try_as_spdc) *)
| ESignalLePump         (* "Signal wavelength must be greater than Pump wavelength" (beam/mod.rs, IdlerBeam::try_new_optimum) *)
| EBadPeriod            (* "Poling period must be a finite, non-zero number" (config/periodic_poling_config.rs, explicit period) *)
| EExternalRange        (* "theta_external_deg must be between -90 and 90 degrees" (config/mod.rs, try_as_beam; repair of F7f) *)
| ETotalReflection      (* "Can not autocalc theta for a signal beyond total internal reflection..." (try_as_spdc; repair of F7b) *)
| EImpossiblePeriod.    (* "Could not determine poling period from specified values" (periodic_poling.rs, optimum_poling_period) *)

Inductive site :=
| SiteOptThetaUnwrap    (* crystal_setup.rs, optimum_theta: IdlerBeam::try_new_optimum(..).unwrap() in the cost closure *)
| SiteComputeSignUnwrap (* periodic_poling.rs, compute_sign: IdlerBeam::try_new_optimum(..).unwrap() *)
| SiteOptPeriodUnwrap   (* periodic_poling.rs, optimum_poling_period: unwrap() in the delta_kz closure *)
| SiteNelderMeadUnwrap  (* math/nelder_mead.rs, nelder_mead_1d: Executor::run().unwrap() (argmin fails on a NaN cost) *)
| SiteOptimumUnwrap.    (* jsa/joint_spectrum.rs JointSpectrum::new and spdc_iter.rs jsi_values_normalized: try_as_optimum().unwrap() *)

(* values the code would compute as NaN / infinity (the real-number model has no such values: the operation is
   outside its domain of definition) *)
Inductive nonfinite :=
| NFIdlerTheta | NFWaistSignal | NFWaistIdler | NFPeriodInfinite.

Inductive outcome (A : Type) := Ok (a : A) | Err (e : err) | Panic (s : site).
Arguments Err {A}. Arguments Panic {A}.

Definition bind {A B} (x : outcome A) (f : A -> outcome B) : outcome B :=
  match x with Ok a => f a | Err e => Err e | Panic s => Panic s end.

Definition is_ok {A} (x : outcome A) : bool := match x with Ok _ => true | _ => false end.
Definition is_panic {A} (x : outcome A) : bool := match x with Panic _ => true | _ => false end.
Definition is_err {A} (x : outcome A) : bool := match x with Err _ => true | _ => false end.
