(* C04 model: optimum_poling_period and CrystalSetup::optimum_theta around the two-vertex Nelder–Mead model, composed from
   the definitions translated from the source (Gen/AutoCalc.v).  Definitions only.

   Oracles (Section variables): the longitudinal mismatch as a function of the poling / of the crystal angle (built from
   public API in the harness, from Model/Idler.v in Proofs/C04_collinear.v), the five point operations of the simplex
   and its termination test (any: the theorems do not depend on them). *)
From Coq Require Import Reals Bool.
From SpdVerif Require Import Base.Rx Base.Vec3 Gen.Idler Gen.AutoCalc Model.Idler Model.NM1d.
Local Open Scope R_scope.

Definition Rltb (a b : R) : bool := if Rlt_dec a b then true else false.

(* the closure `delta_kz` of optimum_poling_period (pinned structurally by tools/gen/poling.py): optimum idler for the poling
   (`.unwrap()`: a refused idler is a panic, modelled as 0 and excluded by hypothesis where used), delta_k at the centre
   frequencies, z component *)
Definition dkz_of (index : R -> vec -> polarization -> R) (pm : pm_type) (cp : bool) (signal pump : beam) (pp : poling) : R :=
  match optimum_idler index pm cp signal pump pp with
  | Some i => vz (delta_k_model index (b_omega signal) (b_omega i) signal i pump pp)
  | None => 0
  end.

Section AutoPoling.
  Variable dkz : poling -> R.                       (* delta_kz of optimum_poling_period *)
  Variable o : @ops R.
  Variable sd : @ecost R -> @ecost R -> bool.
  Variable L : R.                                   (* crystal length in metres *)

  Definition z0 : R := dkz PPOff.
  Definition dkz_on (p : R) (s : bool) : R := dkz (PPOn p s).

  (* Cost1d around the closure `pm` *)
  Definition pol_cost (x : R) : @ecost R :=
    if nm_out_of_bounds x opp_min_period (opp_max_period L) then CInf else CFin (opp_cost dkz_on z0 x).

  Definition nm_period : R :=
    nm_result Rltb o pol_cost sd (opp_seed0 (opp_guess z0)) (opp_seed1 (opp_guess z0)) opp_max_iter.
  Definition nm_period_cost : @ecost R :=
    vc (sbest (nm_run Rltb o pol_cost sd (opp_seed0 (opp_guess z0)) (opp_seed1 (opp_guess z0)) opp_max_iter)).

  (* Result<PolingPeriod, SPDCError>; Ok(f64::INFINITY) is its own constructor *)
  Inductive auto_period : Type := AutoInfinite | AutoOk (signed_period : R) | AutoErr.

  Definition optimum_poling_period : auto_period :=
    if opp_perfect z0 then AutoInfinite
    else if opp_reject opp_min_period (opp_max_period L) nm_period then AutoErr
    else AutoOk (opp_value z0 nm_period).

  (* the poling that PeriodicPoling::new builds from a signed period *)
  Definition poling_of (signed_period : R) : poling := PPOn (pp_new_period signed_period) (pp_new_positive signed_period).
End AutoPoling.

Section AutoTheta.
  Variable cost_theta : R -> R.                     (* |delta_kz| as a function of the crystal angle: the closure of optimum_theta *)
  Variable o : @ops R.
  Variable sd : @ecost R -> @ecost R -> bool.

  Definition th_cost (x : R) : @ecost R :=
    if nm_out_of_bounds x oth_min oth_max then CInf else CFin (cost_theta x).

  Definition optimum_theta : R :=
    nm_result Rltb o th_cost sd (oth_seed0 oth_guess) (oth_seed1 oth_guess) oth_max_iter * 1.
  Definition optimum_theta_cost : @ecost R :=
    vc (sbest (nm_run Rltb o th_cost sd (oth_seed0 oth_guess) (oth_seed1 oth_guess) oth_max_iter)).
End AutoTheta.

(* the poling that PeriodicPoling::try_as_optimum / SPDC::assign_optimum_periodic_poling install, from a base poling that is
   On (base_on = true) or Off, given opp = the Ok value of optimum_poling_period *)
Definition assigned_poling (base_on : bool) (opp : R) : poling := PPOn (tao_period base_on opp) (tao_positive base_on opp).

(* exact real arithmetic for the simplex operations *)
Definition real_ops : @ops R :=
  mkOps (fun p => p * 1) (fun x0 w => x0 + (x0 - w) * 1) (fun x0 xr => x0 + (xr - x0) * 2)
        (fun x0 x => x0 + (x - x0) * / 2) (fun b p => b + (p - b) * / 2).
