(* C18 — hand-written reference semantics: what "write the slot with this SI value and touch nothing else" means on the
   generated record types.  Definitions only.  The generated setters (Gen/Sweep.v) are proved equal to these. *)
From Coq Require Import Reals String List.
From SpdVerif Require Import Base.Rx Base.PolingBase Gen.Poling Gen.Sweep Spec.SweepPaths.
Import ListNotations.
Local Open Scope R_scope.

(* angle normalisations as the property reads them: [0, 2 pi) and (-pi, pi] *)
Definition norm_angle (x : R) : R := rem_euclid x (2 * PI).
Definition norm_angle_signed (x : R) : R :=
  if Rgt_dec (rem_euclid x (2 * PI)) PI then rem_euclid x (2 * PI) - 2 * PI else rem_euclid x (2 * PI).

(* rounding of the configuration view: 4 decimals, half away from zero *)
Definition round4 (x : R) : R := round_half_away (x * 10 ^ 4) / 10 ^ 4.

Definition get_beam (b : beam_id) (s : spdc) : beam :=
  match b with BSignal => s_signal s | BIdler => s_idler s | BPump => s_pump s end.

Definition put_beam (b : beam_id) (x : beam) (s : spdc) : spdc :=
  match b with
  | BSignal => mk_spdc x (s_idler s) (s_pump s) (s_crystal_setup s) (s_pp s) (s_pump_average_power s) (s_pump_bandwidth s)
                 (s_pump_spectrum_threshold s) (s_signal_waist_position s) (s_idler_waist_position s) (s_deff s)
  | BIdler => mk_spdc (s_signal s) x (s_pump s) (s_crystal_setup s) (s_pp s) (s_pump_average_power s) (s_pump_bandwidth s)
                 (s_pump_spectrum_threshold s) (s_signal_waist_position s) (s_idler_waist_position s) (s_deff s)
  | BPump => mk_spdc (s_signal s) (s_idler s) x (s_crystal_setup s) (s_pp s) (s_pump_average_power s) (s_pump_bandwidth s)
                 (s_pump_spectrum_threshold s) (s_signal_waist_position s) (s_idler_waist_position s) (s_deff s)
  end.

Definition put_crystal (c : crystal_setup) (s : spdc) : spdc :=
  mk_spdc (s_signal s) (s_idler s) (s_pump s) c (s_pp s) (s_pump_average_power s) (s_pump_bandwidth s)
    (s_pump_spectrum_threshold s) (s_signal_waist_position s) (s_idler_waist_position s) (s_deff s).

Definition beam_with_theta (x : R) (b : beam) : beam := mk_beam (b_waist b) (b_frequency b) (b_polarization b) x (b_phi b).
Definition beam_with_phi (x : R) (b : beam) : beam := mk_beam (b_waist b) (b_frequency b) (b_polarization b) (b_theta b) x.
Definition beam_with_frequency (x : R) (b : beam) : beam := mk_beam (b_waist b) x (b_polarization b) (b_theta b) (b_phi b).
Definition beam_with_waist (x : R) (b : beam) : beam := mk_beam (mk_beam_waist x x) (b_frequency b) (b_polarization b) (b_theta b) (b_phi b).

Section Ideal.
Variable snell_internal : beam -> R -> crystal_setup -> R.
Variable compute_sign : beam -> beam -> crystal_setup -> sign.

(* write slot `sl` with SI value x *)
Definition ideal_set (sl : slot) (x : R) (s : spdc) : spdc :=
  let c := s_crystal_setup s in
  match sl with
  | SCrystalPhi => put_crystal (mk_crystal_setup (c_crystal c) (c_pm_type c) x (c_theta c) (c_length c) (c_temperature c) (c_counter_propagation c)) s
  | SCrystalTheta => put_crystal (mk_crystal_setup (c_crystal c) (c_pm_type c) (c_phi c) x (c_length c) (c_temperature c) (c_counter_propagation c)) s
  | SCrystalLength => put_crystal (mk_crystal_setup (c_crystal c) (c_pm_type c) (c_phi c) (c_theta c) x (c_temperature c) (c_counter_propagation c)) s
  | SCrystalTemperature => put_crystal (mk_crystal_setup (c_crystal c) (c_pm_type c) (c_phi c) (c_theta c) (c_length c) x (c_counter_propagation c)) s
  | SBeamTheta b => put_beam b (beam_with_theta (norm_angle_signed x) (get_beam b s)) s
  | SBeamThetaExternal b =>
      (* Snell-equivalent internal angle of x (the kernel receives the SIGNED external angle); the azimuth is re-normalised (a no-op on
         a normalised beam) *)
      let bm := get_beam b s in
      put_beam b (mk_beam (b_waist bm) (b_frequency bm) (b_polarization bm)
                    (norm_angle_signed (snell_internal bm x c)) (norm_angle (b_phi bm))) s
  | SBeamPhi b => put_beam b (beam_with_phi (norm_angle x) (get_beam b s)) s
  | SBeamFrequency b => put_beam b (beam_with_frequency x (get_beam b s)) s
  | SBeamWavelength b => put_beam b (beam_with_frequency (2 * PI * c_light / x) (get_beam b s)) s
  | SBeamWaist b => put_beam b (beam_with_waist x (get_beam b s)) s
  | SWaistPosition BSignal =>
      mk_spdc (s_signal s) (s_idler s) (s_pump s) c (s_pp s) (s_pump_average_power s) (s_pump_bandwidth s)
        (s_pump_spectrum_threshold s) x (s_idler_waist_position s) (s_deff s)
  | SWaistPosition BIdler =>
      mk_spdc (s_signal s) (s_idler s) (s_pump s) c (s_pp s) (s_pump_average_power s) (s_pump_bandwidth s)
        (s_pump_spectrum_threshold s) (s_signal_waist_position s) x (s_deff s)
  | SWaistPosition BPump => s
  | SPumpPower =>
      mk_spdc (s_signal s) (s_idler s) (s_pump s) c (s_pp s) x (s_pump_bandwidth s)
        (s_pump_spectrum_threshold s) (s_signal_waist_position s) (s_idler_waist_position s) (s_deff s)
  | SPumpBandwidth =>
      mk_spdc (s_signal s) (s_idler s) (s_pump s) c (s_pp s) (s_pump_average_power s) x
        (s_pump_spectrum_threshold s) (s_signal_waist_position s) (s_idler_waist_position s) (s_deff s)
  | SPolingPeriod =>
      (* magnitude |x| with the automatically derived sign; an unpoled description becomes poled (with_period semantics) *)
      mk_spdc (s_signal s) (s_idler s) (s_pump s) c
        (pp_with_period (s_pp s) (sign_mul (compute_sign (s_signal s) (s_pump s) c) (Rabs x)))
        (s_pump_average_power s) (s_pump_bandwidth s)
        (s_pump_spectrum_threshold s) (s_signal_waist_position s) (s_idler_waist_position s) (s_deff s)
  | SDeff =>
      mk_spdc (s_signal s) (s_idler s) (s_pump s) c (s_pp s) (s_pump_average_power s) (s_pump_bandwidth s)
        (s_pump_spectrum_threshold s) (s_signal_waist_position s) (s_idler_waist_position s) x
  end.
End Ideal.

(* lookup in an association list keyed by strings *)
Fixpoint assoc {A : Type} (k : string) (l : list (string * A)) : option A :=
  match l with
  | nil => None
  | (k', a) :: t => if String.eqb k k' then Some a else assoc k t
  end.

(* two configuration views agree outside one key *)
Definition agree_except (key : string) (a b : list (string * R)) : Prop :=
  Forall2 (fun x y => fst x = fst y /\ (fst x <> key -> snd x = snd y)) a b.

(* a beam whose azimuth is normalised (Beam::new and every setter establish it) *)
Definition beam_ok (b : beam) : Prop := 0 <= b_phi b < 2 * PI.

(* membership test on string lists, for table comparisons *)
Definition subset_b (a b : list string) : bool := forallb (fun x => existsb (String.eqb x) b) a.

(* the property's grid: value i of n evenly spaced values from a to b (a single value is a) *)
Definition axis_value (a b : R) (n i : nat) : R :=
  let t := if lt_dec 1 n then INR i / INR (n - 1) else 0 in a * (1 - t) + b * t.
