(* Definitions for the plane-wave limit (C05): sinc, erf, the component-wise integral of a complex-valued function, and the
   composite Simpson rule exactly as src/math/integration.rs: simpson computes it (definitions only). *)
From Coq Require Import Reals List.
From Coquelicot Require Import Coquelicot.
Local Open Scope R_scope.

Definition sinc (x : R) : R := if Req_EM_T x 0 then 1 else sin x / x.

(* erf, defined by its integral *)
Definition erf (x : R) : R := 2 / sqrt PI * RInt (fun t => exp (- (t * t))) 0 x.

(* integral of a complex-valued function of a real variable, component-wise (Riemann) *)
Definition Cint (f : R -> C) (a b : R) : C := (RInt (fun z => fst (f z)) a b, RInt (fun z => snd (f z)) a b).

(* src/math/integration.rs
     fn get_simpson_weight(n, divs): 1 at the ends, 4 at odd n, 2 at even n
     fn simpson(func, a, b, divs): divs' = divs + divs % 2 - 2 (usize); assert divs' >= 4; dx = (b - a) / divs';
                                   sum_{n = 0..=divs'} func(a + n dx) * weight(n, divs')  * (dx / 3)            *)
Definition simpson_weight (n divs : nat) : R :=
  if orb (Nat.eqb n 0) (Nat.eqb n divs) then 1 else if Nat.odd n then 4 else 2.

Definition simpson_divs (divs : nat) : nat := divs + Nat.modulo divs 2 - 2.

Definition simpson_sum (f : R -> R) (a dx : R) (d : nat) : R :=
  fold_right Rplus 0 (map (fun n => f (a + INR n * dx) * simpson_weight n d) (seq 0 (S d))).

Definition simpson (f : R -> R) (a b : R) (divs : nat) : R :=
  let d := simpson_divs divs in
  let dx := (b - a) / INR d in
  simpson_sum f a dx d * (dx / 3).

(* complex integrand: weights and dx are real, so the rule acts component-wise *)
Definition Csimpson (f : R -> C) (a b : R) (divs : nat) : C :=
  (simpson (fun z => fst (f z)) a b divs, simpson (fun z => snd (f z)) a b divs).
