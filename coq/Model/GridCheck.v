(* C14 / C15 — executable comparison of the Q instance of the models with observations of the implementation
   (used by the generated correspondence cases, evaluated with vm_compute).  Definitions only. *)
From Coq Require Import List Arith Bool ZArith QArith Qabs.
From SpdVerif Require Import Base.GridOps Gen.Grid Model.Grid Model.Producer.
Import ListNotations.

Definition qclose (tol scale a b : Q) : bool := Qle_bool (Qabs (a - b)) (tol * scale).
Definition qscale (a b : Q) : Q := if Qle_bool (Qabs a) (Qabs b) then Qabs b else Qabs a.

(* positions at which model and observation disagree; a length mismatch is reported at the first missing position *)
Fixpoint bad_idx {A B} (ok : A -> B -> bool) (l : list A) (m : list B) (i : nat) : list nat :=
  match l, m with
  | a :: l', b :: m' => (if ok a b then [] else [i]) ++ bad_idx ok l' m' (S i)
  | [], [] => []
  | _, _ => [i]
  end.

Definition ok2 (tol sx sy : Q) (p q : Q * Q) : bool := qclose tol sx (fst p) (fst q) && qclose tol sy (snd p) (snd q).
Definition okopt {A B} (ok : A -> B -> bool) (p : option A) (q : option B) : bool :=
  match p, q with Some a, Some b => ok a b | None, None => true | _, _ => false end.

Definition check_seq1d (s e : Q) (n : nat) (obs : list Q) (tol : Q) : list nat :=
  bad_idx (qclose tol (qscale s e)) (seq1d Qops s e n) obs 0.

Definition check_sched1d (s e : Q) (n : nat) (sched : list bool) (obs : list (option Q)) (tol : Q) : list nat :=
  bad_idx (okopt (qclose tol (qscale s e)))
    (map snd (run_sched (it1d_nxt Qops s e n) (it1d_bck Qops s e n) sched (it1d_new n))) obs 0.

Definition check_seq2d (x0 x1 : Q) (nx : nat) (y0 y1 : Q) (ny : nat) (obs : list (Q * Q)) (tol : Q) : list nat :=
  bad_idx (ok2 tol (qscale x0 x1) (qscale y0 y1)) (seq2d Qops x0 x1 nx y0 y1 ny) obs 0.

Definition check_at2d (x0 x1 : Q) (nx : nat) (y0 y1 : Q) (ny : nat) (idx : list nat) (obs : list (Q * Q)) (tol : Q) : list nat :=
  bad_idx (ok2 tol (qscale x0 x1) (qscale y0 y1)) (map (steps2d_value Qops x0 x1 nx y0 y1 ny) idx) obs 0.

Definition check_sched2d (x0 x1 : Q) (nx : nat) (y0 y1 : Q) (ny : nat) (sched : list bool) (obs : list (option (Q * Q))) (tol : Q) : list nat :=
  bad_idx (okopt (ok2 tol (qscale x0 x1) (qscale y0 y1)))
    (map snd (run_sched (it2d_nxt Qops x0 x1 nx y0 y1 ny (fst (it2d_new nx ny))) (it2d_bck Qops x0 x1 nx y0 y1 ny (fst (it2d_new nx ny)))
                sched (snd (it2d_new nx ny)))) obs 0.

(* space conversions that stay rational (sum/difference) *)
Definition space_close (tol : Q) (a b : space Q) : bool :=
  let sc := qscale (qscale (ax_lo (fst a)) (ax_hi (fst a))) (qscale (ax_lo (snd a)) (ax_hi (snd a))) in
  qclose tol sc (ax_lo (fst a)) (ax_lo (fst b)) && qclose tol sc (ax_hi (fst a)) (ax_hi (fst b)) &&
  qclose tol sc (ax_lo (snd a)) (ax_lo (snd b)) && qclose tol sc (ax_hi (snd a)) (ax_hi (snd b)) &&
  (ax_n (fst a) =? ax_n (fst b))%nat && (ax_n (snd a) =? ax_n (snd b))%nat.

Definition check_to_sd (fs sd_obs : space Q) (tol : Q) : bool := space_close tol (on_space (sd_from_frequency_space Qops) fs) sd_obs.
Definition check_of_sd (sd fs_obs : space Q) (tol : Q) : bool := space_close tol (on_space (sd_as_frequency_space Qops) sd) fs_obs.

Definition check_points (pt : Q -> Q -> Q * Q) (s : space Q) (obs : list (Q * Q)) (tol : Q) : list nat :=
  let sc := qscale (qscale (ax_lo (fst s)) (ax_hi (fst s))) (qscale (ax_lo (snd s)) (ax_hi (snd s))) in
  bad_idx (ok2 tol sc sc) (space_points Qops pt s) obs 0.

(* ------------------------------------------------------------------------------------------------ C15 *)
Fixpoint olist {A} (l : list (outcome A)) : outcome (list A) :=
  match l with
  | [] => Ok []
  | Ok a :: t => obind (olist t) (fun r => Ok (a :: r))
  | Panic :: _ => Panic
  end.

(* leaf lengths predicted by the model for a tree (reported length, drained length) *)
Definition leaf_lens {P A} (D : producer P A) (t : tree) (p : P) : outcome (list (nat * nat)) :=
  obind (leaves D t p) (fun ls => Ok (map (fun q => (p_len D q, length (p_items D q))) ls)).

Definition check_tree1d (s e : Q) (n : nat) (t : tree) (obs : list Q) (tol : Q) : outcome (list nat) :=
  obind (run (prod1d Qops) t (root1d s e n)) (fun l => Ok (bad_idx (qclose tol (qscale s e)) l obs 0)).

Definition check_tree2d (x0 x1 : Q) (nx : nat) (y0 y1 : Q) (ny : nat) (t : tree) (obs : list (Q * Q)) (tol : Q) : outcome (list nat) :=
  obind (run (prod2d Qops x0 x1 nx y0 y1 ny) t (root2d nx ny))
        (fun l => Ok (bad_idx (ok2 tol (qscale x0 x1) (qscale y0 y1)) l obs 0)).
