(* Hand-written models of the parts of the rate pipeline that the translator does not reach (parallel iterators, SVD,
   complex sums).  Definitions only; the per-point functions they aggregate are the GENERATED ones of Gen/Spectrum.v.

   src/spdc/counts.rs          counts_* = correction · Σ_{grid} jsi(ws, wi) · dw2         (rectangle rule)
   src/spdc/hom.rs:hom_rate    ½ (1 − Σ Re(conj f_si · f_is · shift) / Σ |f_si|²)
   src/math/schmidt.rs         (Σ σ²)² / Σ σ⁴  over the singular values σ returned by the SVD oracle
   The correspondence of `counts_*` with this model is checked on every run by props/c07.py (harness kind "counts"). *)
From Coq Require Import Reals List.
From SpdVerif Require Import Model.SpectrumSetup Gen.Spectrum.
Import ListNotations.
Local Open Scope R_scope.

(* Σ_{(ws,wi) ∈ pts} f ws wi · dw2 *)
Fixpoint grid_sum (f : R -> R -> R) (pts : list (R * R)) (dw2 : R) : R :=
  match pts with
  | [] => 0
  | p :: r => f (fst p) (snd p) * dw2 + grid_sum f r dw2
  end.

(* corr = get_counts_correction(spdc) : oracle (group/refractive indices; reads neither power nor deff) *)
Definition counts_coincidences (corr : R) (pts : list (R * R)) (dw2 : R) (s : setup) : R :=
  corr * grid_sum (fun ws wi => spectrum_jsi ws wi s) pts dw2.
Definition counts_singles_signal (corr : R) (pts : list (R * R)) (dw2 : R) (s : setup) : R :=
  corr * grid_sum (fun ws wi => spectrum_jsi_singles ws wi s) pts dw2.
(* sw = spdc.clone().with_swapped_signal_idler() (a second setup value); note the exchanged arguments *)
Definition counts_singles_idler (corr : R) (pts : list (R * R)) (dw2 : R) (sw : setup) : R :=
  corr * grid_sum (fun ws wi => spectrum_jsi_singles wi ws sw) pts dw2.

(* Schmidt number from singular values *)
Definition sum_list (l : list R) : R := fold_right Rplus 0 l.
Definition schmidt_of_singular_values (sv : list R) : R :=
  (sum_list (map (fun x => x ^ 2) sv)) * (sum_list (map (fun x => x ^ 2) sv)) / sum_list (map (fun x => x ^ 4) sv).

(* HOM rate over a list of (f_si, f_is, shift) triples of complex numbers given as pairs *)
Definition cre_conj_mul3 (f g u : R * R) : R :=
  (* Re (conj f · g · u) *)
  let a := fst f * fst g + snd f * snd g in       (* Re (conj f · g) *)
  let b := fst f * snd g - snd f * fst g in       (* Im (conj f · g) *)
  a * fst u - b * snd u.
Definition hom_rate_model (l : list ((R * R) * (R * R) * (R * R))) : R :=
  let num := sum_list (map (fun t => cre_conj_mul3 (fst (fst t)) (snd (fst t)) (snd t)) l) in
  let nrm := sum_list (map (fun t => fst (fst (fst t)) * fst (fst (fst t)) + snd (fst (fst t)) * snd (fst (fst t))) l) in
  0.5 * (1 - num / nrm).
Definition cscale (c : R) (z : R * R) : R * R := (c * fst z, c * snd z).

(* a concrete physical setup used for the non-vacuity examples (775 nm-ish pump, 0.5 nm FWHM, 1 mW, 1 pm/V) *)
Definition example_setup : setup :=
  {| omega_p := 2.4e15; omega_s0 := 1.2e15; omega_i0 := 1.2e15; fwhm := 5e-10; threshold := 1e-2; pp_off := true;
     len := 1e-3; power := 1; deff := 1e-15; wpx := 1e-4; wpy := 1e-4; wsx := 1e-4; wsy := 1e-4; wix := 1e-4; wiy := 1e-4;
     theta_s_e := 0; theta_i_e := 0; n_s := fun _ => 1.7; n_i := fun _ => 1.7;
     pm_re := fun _ _ => 1; pm_im := fun _ _ => 0; pm_singles := fun _ _ => 1 |}.


(* src/spdc/hom.rs:hom_two_source_rate_series, one channel: Σ |φ1·φ2 − φ1'·φ2'·phase|² / 4 / (norm1 · norm2) where every
   product has one factor from source 1 and one from source 2, norm1 = Σ|jsa of source 1|², norm2 = Σ|jsa of source 2|².
   A term is ((p1, p2), (q1, q2), u); n1 / n2 are the amplitude lists of the two sources. *)
Definition cmul (a b : R * R) : R * R := (fst a * fst b - snd a * snd b, fst a * snd b + snd a * fst b).
Definition cnorm2 (z : R * R) : R := fst z * fst z + snd z * snd z.
Definition hom2_term (t : ((R * R) * (R * R)) * ((R * R) * (R * R)) * (R * R)) : R :=
  let a := cmul (fst (fst (fst t))) (snd (fst (fst t))) in
  let b := cmul (cmul (fst (snd (fst t))) (snd (snd (fst t)))) (snd t) in
  cnorm2 (fst a - fst b, snd a - snd b).
Definition hom2_rate_model (l : list (((R * R) * (R * R)) * ((R * R) * (R * R)) * (R * R))) (n1 n2 : list (R * R)) : R :=
  sum_list (map hom2_term l) / 4 / (sum_list (map cnorm2 n1) * sum_list (map cnorm2 n2)).
(* source 1 scaled by c1, source 2 by c2 *)
Definition scale_term2 (c1 c2 : R) (t : ((R * R) * (R * R)) * ((R * R) * (R * R)) * (R * R)) :=
  ((cscale c1 (fst (fst (fst t))), cscale c2 (snd (fst (fst t)))), (cscale c1 (fst (snd (fst t))), cscale c2 (snd (snd (fst t)))), snd t).
