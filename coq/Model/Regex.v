(* A small regular-expression engine in Gallina: a parser for the literal syntax used by PMType::from_str
   (flag (?i), anchors ^ $ at the two ends, groups, alternation, ? * + {m,n}, classes [..] with \s and literals,
   `.`, `\s`) and a Brzozowski-derivative matcher.  Strings are byte strings; the model is meant for ASCII input
   (Rust's `.` and {m,n} count Unicode scalar values, Coq counts bytes: they agree exactly on ASCII).
   Definitions only; correctness of the matcher w.r.t. the language semantics is proved in Proofs/Regex.v. *)
From Coq Require Import Ascii String List Bool Arith.
Import ListNotations.

(* ---- character sets *)
Inductive cset :=
| CChar (c : ascii)        (* this byte *)
| CDot                     (* `.` : any byte except line feed *)
| CAll                     (* any byte (implicit prefix/suffix of an unanchored search) *)
| CSpace                   (* `\s` : ASCII white space  \t \n \v \f \r and space *)
| CUnion (a b : cset).

Definition is_space (c : ascii) : bool :=
  let n := nat_of_ascii c in ((9 <=? n) && (n <=? 13)) || (n =? 32).

Definition lower (c : ascii) : ascii :=
  let n := nat_of_ascii c in if (65 <=? n) && (n <=? 90) then ascii_of_nat (n + 32) else c.

Fixpoint cs_match (ci : bool) (s : cset) (c : ascii) : bool :=
  match s with
  | CChar x => if ci then Ascii.eqb (lower x) (lower c) else Ascii.eqb x c
  | CDot => negb (nat_of_ascii c =? 10)
  | CAll => true
  | CSpace => is_space c
  | CUnion a b => cs_match ci a c || cs_match ci b c
  end.

(* ---- regular expressions *)
Inductive re :=
| Empty | Eps | Chr (s : cset) | Cat (a b : re) | Alt (a b : re) | Star (a : re).

Fixpoint nullable (r : re) : bool :=
  match r with
  | Empty => false | Eps => true | Chr _ => false
  | Cat a b => nullable a && nullable b
  | Alt a b => nullable a || nullable b
  | Star _ => true
  end.

(* smart constructors (keep derivatives small; language-preserving, proved in Proofs/Regex.v) *)
Definition cat' (a b : re) : re :=
  match a, b with
  | Empty, _ => Empty
  | _, Empty => Empty
  | Eps, _ => b
  | _, Eps => a
  | _, _ => Cat a b
  end.
Definition alt' (a b : re) : re :=
  match a, b with
  | Empty, _ => b
  | _, Empty => a
  | _, _ => Alt a b
  end.

Fixpoint deriv (ci : bool) (c : ascii) (r : re) : re :=
  match r with
  | Empty => Empty
  | Eps => Empty
  | Chr s => if cs_match ci s c then Eps else Empty
  | Cat a b => if nullable a then alt' (cat' (deriv ci c a) b) (deriv ci c b) else cat' (deriv ci c a) b
  | Alt a b => alt' (deriv ci c a) (deriv ci c b)
  | Star a => cat' (deriv ci c a) (Star a)
  end.

Fixpoint matches (ci : bool) (r : re) (s : list ascii) : bool :=
  match s with
  | [] => nullable r
  | c :: s' => matches ci (deriv ci c r) s'
  end.

(* ---- the language of a regular expression (specification of the matcher; Star uses non-empty pieces) *)
Fixpoint lang (ci : bool) (r : re) (s : list ascii) : Prop :=
  match r with
  | Empty => False
  | Eps => s = []
  | Chr cs => exists c, s = [c] /\ cs_match ci cs c = true
  | Cat a b => exists s1 s2, s = s1 ++ s2 /\ lang ci a s1 /\ lang ci b s2
  | Alt a b => lang ci a s \/ lang ci b s
  | Star a => exists ss, s = concat ss /\ Forall (fun x => x <> [] /\ lang ci a x) ss
  end.

(* ---- parser for the literal syntax *)
Fixpoint rep (n : nat) (r : re) : re := match n with O => Eps | S k => Cat r (rep k r) end.
(* r{m,n} = r^m (r?)^(n-m) *)
Definition bounded (r : re) (m n : nat) : re := Cat (rep m r) (rep (n - m) (Alt Eps r)).

Definition is_digit (c : ascii) : bool := let n := nat_of_ascii c in (48 <=? n) && (n <=? 57).
Fixpoint parse_nat (acc : nat) (got : bool) (s : list ascii) : option (nat * list ascii) :=
  match s with
  | c :: s' => if is_digit c then parse_nat (acc * 10 + (nat_of_ascii c - 48)) true s'
               else if got then Some (acc, s) else None
  | [] => if got then Some (acc, s) else None
  end.

Definition meta (c : ascii) : bool :=
  existsb (Ascii.eqb c) ["("; ")"; "|"; "?"; "*"; "+"; "{"; "}"; "["; "]"; "^"; "$"; "\"; "."]%char.
Definition is_alnum (c : ascii) : bool :=
  let n := nat_of_ascii c in
  is_digit c || ((65 <=? n) && (n <=? 90)) || ((97 <=? n) && (n <=? 122)).

(* class items up to the closing bracket: `\s`, `\<punct>`, or a literal byte; ranges and negation are not supported *)
Fixpoint parse_class (fuel : nat) (acc : option cset) (s : list ascii) : option (cset * list ascii) :=
  match fuel with
  | O => None
  | S f =>
    let add x := match acc with None => Some x | Some a => Some (CUnion a x) end in
    match s with
    | "]"%char :: rest => match acc with Some a => Some (a, rest) | None => None end
    | "\"%char :: "s"%char :: rest => parse_class f (add CSpace) rest
    | "\"%char :: c :: rest => if is_alnum c then None else parse_class f (add (CChar c)) rest
    | "^"%char :: _ => None
    | "-"%char :: _ => None
    | c :: rest => parse_class f (add (CChar c)) rest
    | [] => None
    end
  end.

(* postfix operators after an atom *)
Fixpoint parse_postfix (fuel : nat) (r : re) (s : list ascii) : option (re * list ascii) :=
  match fuel with
  | O => None
  | S f =>
    match s with
    | "?"%char :: rest => parse_postfix f (Alt Eps r) rest
    | "*"%char :: rest => parse_postfix f (Star r) rest
    | "+"%char :: rest => parse_postfix f (Cat r (Star r)) rest
    | "{"%char :: rest =>
        match parse_nat 0 false rest with
        | Some (m, ","%char :: rest1) =>
            match parse_nat 0 false rest1 with
            | Some (n, "}"%char :: rest2) => if m <=? n then parse_postfix f (bounded r m n) rest2 else None
            | _ => None
            end
        | Some (m, "}"%char :: rest1) => parse_postfix f (rep m r) rest1
        | _ => None
        end
    | _ => Some (r, s)
    end
  end.

Fixpoint parse_alt (fuel : nat) (s : list ascii) : option (re * list ascii) :=
  match fuel with
  | O => None
  | S f =>
    match parse_cat f s with
    | Some (a, "|"%char :: rest) =>
        match parse_alt f rest with Some (b, rest') => Some (Alt a b, rest') | None => None end
    | other => other
    end
  end
with parse_cat (fuel : nat) (s : list ascii) : option (re * list ascii) :=
  match fuel with
  | O => None
  | S f =>
    match s with
    | [] => Some (Eps, s)
    | ")"%char :: _ => Some (Eps, s)
    | "|"%char :: _ => Some (Eps, s)
    | _ =>
      match parse_atom f s with
      | Some (a, rest) =>
          match parse_postfix f a rest with
          | Some (a', rest') =>
              match parse_cat f rest' with Some (b, rest'') => Some (Cat a' b, rest'') | None => None end
          | None => None
          end
      | None => None
      end
    end
  end
with parse_atom (fuel : nat) (s : list ascii) : option (re * list ascii) :=
  match fuel with
  | O => None
  | S f =>
    match s with
    | "("%char :: "?"%char :: _ => None            (* inline flags / non-capturing groups only at the very start *)
    | "("%char :: rest =>
        match parse_alt f rest with Some (r, ")"%char :: rest') => Some (r, rest') | _ => None end
    | "["%char :: rest =>
        match parse_class f None rest with Some (cs, rest') => Some (Chr cs, rest') | None => None end
    | "\"%char :: "s"%char :: rest => Some (Chr CSpace, rest)
    | "\"%char :: c :: rest => if is_alnum c then None else Some (Chr (CChar c), rest)
    | "."%char :: rest => Some (Chr CDot, rest)
    | c :: rest => if meta c then None else Some (Chr (CChar c), rest)
    | [] => None
    end
  end.

Record compiled := { c_ci : bool; c_re : re }.

Fixpoint strip_last_dollar (s : list ascii) : option (list ascii) :=
  match s with
  | [] => None
  | ["$"%char] => Some []
  | ["\"%char; "$"%char] => None
  | c :: rest => match strip_last_dollar rest with Some r => Some (c :: r) | None => None end
  end.

Definition compile (lit : string) : option compiled :=
  let s := list_ascii_of_string lit in
  let '(ci, s1) := match s with
                   | "("%char :: "?"%char :: "i"%char :: ")"%char :: rest => (true, rest)
                   | _ => (false, s)
                   end in
  let '(astart, s2) := match s1 with "^"%char :: rest => (true, rest) | _ => (false, s1) end in
  let '(aend, s3) := match strip_last_dollar s2 with Some r => (true, r) | None => (false, s2) end in
  let fuel := 4 * (List.length s3) + 8 in
  match parse_alt fuel s3 with
  | Some (r, []) =>
      let pre := if astart then Eps else Star (Chr CAll) in
      let post := if aend then Eps else Star (Chr CAll) in
      Some {| c_ci := ci; c_re := Cat pre (Cat r post) |}
  | _ => None
  end.

(* Regex::new(lit).unwrap().is_match(s) ; None when the literal is outside the supported syntax *)
Definition is_match (lit s : string) : option bool :=
  match compile lit with
  | Some c => Some (matches (c_ci c) (c_re c) (list_ascii_of_string s))
  | None => None
  end.

(* the if-chain of PMType::from_str: first table entry whose regex matches.  The table is compiled once. *)
Definition compile_table {A : Type} (table : list (string * A)) : list (option compiled * A) :=
  map (fun p => (compile (fst p), snd p)) table.

Fixpoint first_match_c {A : Type} (table : list (option compiled * A)) (s : list ascii) : option A :=
  match table with
  | [] => None
  | (Some c, v) :: rest => if matches (c_ci c) (c_re c) s then Some v else first_match_c rest s
  | (None, _) :: rest => first_match_c rest s
  end.

Definition first_match {A : Type} (table : list (string * A)) (s : string) : option A :=
  first_match_c (compile_table table) (list_ascii_of_string s).

Definition ascii_only (s : string) : bool :=
  forallb (fun c => nat_of_ascii c <? 128) (list_ascii_of_string s).
