(* C10 — model of src/spdc/hom.rs: hom_two_source_rate_series / hom_two_source_visibilities and the wrappers
   SPDC::hom_two_source_rate_series / hom_two_source_visibilities.  Definitions only.

   The eight amplitude grids, the four-fold nested sum and every index permutation are written as in the source:
     let (s1, i1) = get_2d_indices(index1, cols);   let (s2, i2) = get_2d_indices(index2, cols);
     phi_1_s1_i1 = first_s1_i1[index1]                         phi_2_s2_i2 = second_s2_i2[index2]
     phi_1_s2_i1 = first_s2_i1[get_1d_index(s2, i1, cols)]     phi_2_s1_i2 = second_s1_i2[get_1d_index(s1, i2, cols)]
     phi_1_s1_i2 = first_s1_i2[get_1d_index(s1, i2, cols)]     phi_2_s2_i1 = second_s2_i1[get_1d_index(s2, i1, cols)]
     phi_1_i2_i1 = first_i2_i1[get_1d_index(i2, i1, cols)]     phi_2_s2_s1 = second_s2_s1[get_1d_index(s2, s1, cols)]
     a = phi_1_s1_i1 * phi_2_s2_i2;  b_ss = phi_1_s2_i1 * phi_2_s1_i2;  b_ii = phi_1_s1_i2 * phi_2_s2_i1;
     b_si = phi_1_i2_i1 * phi_2_s2_s1;   terms (a - b_xx * phase_xx).norm_sqr();   rate = sum / 4 / (norm1 * norm2)
     phase_ss = e^{i dt (ws2 - ws1)}, phase_ii = e^{i dt (wi2 - wi1)}, phase_si = e^{i dt (wi2 - ws1)}.              *)
From Coq Require Import Reals QArith List.
From SpdVerif Require Import Model.FinSum Model.Hom.
Local Open Scope nat_scope.

Record ts_arrays (T : Type) := mkTs {
  first_s1_i1 : nat -> cx T; second_s2_i2 : nat -> cx T;
  first_s2_i1 : nat -> cx T; second_s1_i2 : nat -> cx T;
  first_s1_i2 : nat -> cx T; second_s2_i1 : nat -> cx T;
  first_i2_i1 : nat -> cx T; second_s2_s1 : nat -> cx T }.
Arguments mkTs {T}. Arguments first_s1_i1 {T}. Arguments second_s2_i2 {T}. Arguments first_s2_i1 {T}.
Arguments second_s1_i2 {T}. Arguments first_s1_i2 {T}. Arguments second_s2_i1 {T}. Arguments first_i2_i1 {T}.
Arguments second_s2_s1 {T}.

Definition ts_a {T} (o : Ops T) (A : ts_arrays T) (index1 index2 : nat) : cx T :=
  cmul o (first_s1_i1 A index1) (second_s2_i2 A index2).

Definition ts_b_ss {T} (o : Ops T) (cols : nat) (A : ts_arrays T) (index1 index2 : nat) : cx T :=
  let (s1, i1) := get_2d_indices index1 cols in
  let (s2, i2) := get_2d_indices index2 cols in
  cmul o (first_s2_i1 A (get_1d_index s2 i1 cols)) (second_s1_i2 A (get_1d_index s1 i2 cols)).

Definition ts_b_ii {T} (o : Ops T) (cols : nat) (A : ts_arrays T) (index1 index2 : nat) : cx T :=
  let (s1, i1) := get_2d_indices index1 cols in
  let (s2, i2) := get_2d_indices index2 cols in
  cmul o (first_s1_i2 A (get_1d_index s1 i2 cols)) (second_s2_i1 A (get_1d_index s2 i1 cols)).

Definition ts_b_si {T} (o : Ops T) (cols : nat) (A : ts_arrays T) (index1 index2 : nat) : cx T :=
  let (s1, i1) := get_2d_indices index1 cols in
  let (s2, i2) := get_2d_indices index2 cols in
  cmul o (first_i2_i1 A (get_1d_index i2 i1 cols)) (second_s2_s1 A (get_1d_index s2 s1 cols)).

(* (a - b * phase).norm_sqr() *)
Definition ts_term {T} (o : Ops T) (a b phase : cx T) : T := cnorm2 o (csub o a (cmul o b phase)).

(* sum over index1 (range1) and index2 (range2), both of length cols*cols; result / 4. / (norm1 * norm2) *)
Definition ts_rate {T} (o : Ops T) (cols : nat) (A : ts_arrays T) (b : nat -> nat -> cx T) (phase : nat -> nat -> cx T) : T :=
  let norm1 := jsi_norm o (cols * cols) (first_s1_i1 A) in
  let norm2 := jsi_norm o (cols * cols) (second_s2_i2 A) in
  odiv o (odiv o
    (gsum o (cols * cols) (fun index1 => gsum o (cols * cols) (fun index2 =>
       ts_term o (ts_a o A index1 index2) (b index1 index2) (phase index1 index2))))
    (ofour o)) (omul o norm1 norm2).

Definition ts_rate_ss {T} (o : Ops T) cols A phase : T := ts_rate o cols A (ts_b_ss o cols A) phase.
Definition ts_rate_ii {T} (o : Ops T) cols A phase : T := ts_rate o cols A (ts_b_ii o cols A) phase.
Definition ts_rate_si {T} (o : Ops T) cols A phase : T := ts_rate o cols A (ts_b_si o cols A) phase.

(* ---- real-valued phases from the two ranges *)
Definition ts_phase_ss (r1 r2 : grid R) (dt : R) (index1 index2 : nat) : cx R :=
  cpolar 1 (dt * (grid_ws ROps r2 index2 - grid_ws ROps r1 index1))%R.
Definition ts_phase_ii (r1 r2 : grid R) (dt : R) (index1 index2 : nat) : cx R :=
  cpolar 1 (dt * (grid_wi ROps r2 index2 - grid_wi ROps r1 index1))%R.
Definition ts_phase_si (r1 r2 : grid R) (dt : R) (index1 index2 : nat) : cx R :=
  cpolar 1 (dt * (grid_wi ROps r2 index2 - grid_ws ROps r1 index1))%R.

Definition unit_phases (u : nat -> nat -> cx R) : Prop := forall k l, cnorm2 ROps (u k l) = 1%R.

(* ---- setup level: the eight grids are tabulations of the two sources' amplitudes (oracles J1, J2) on ranges built from
   the four axes  ls_range_1, li_range_1, ls_range_2, li_range_2  exactly as hom_two_source_rate_series does *)
Definition axes_grid (x y : R * R) (n : nat) : grid R := mkGrid n n (fst x) (snd x) (fst y) (snd y).
Definition ts_tabulate (J1 J2 : R -> R -> cx R) (ls1 li1 ls2 li2 : R * R) (n : nat) : ts_arrays R :=
  mkTs (tabulate J1 (axes_grid ls1 li1 n)) (tabulate J2 (axes_grid ls2 li2 n))
       (tabulate J1 (axes_grid ls2 li1 n)) (tabulate J2 (axes_grid ls1 li2 n))
       (tabulate J1 (axes_grid ls1 li2 n)) (tabulate J2 (axes_grid ls2 li1 n))
       (tabulate J1 (axes_grid li2 li1 n)) (tabulate J2 (axes_grid ls2 ls1 n)).

Definition setup_ts_rates (J1 J2 : R -> R -> cx R) (ls1 li1 ls2 li2 : R * R) (n : nat) (dt : R) : R * R * R :=
  let A := ts_tabulate J1 J2 ls1 li1 ls2 li2 n in
  let r1 := axes_grid ls1 li1 n in let r2 := axes_grid ls2 li2 n in
  (ts_rate_ss ROps n A (ts_phase_ss r1 r2 dt), ts_rate_ii ROps n A (ts_phase_ii r1 r2 dt), ts_rate_si ROps n A (ts_phase_si r1 r2 dt)).

(* hom_two_source_visibilities with spdc1 == spdc2 (what SPDC::hom_two_source_visibilities calls): zero delay *)
Definition setup_ts_visibilities_identical (J : R -> R -> cx R) (ls li : R * R) (n : nat) : R * R * R :=
  let '(ss, ii, si) := setup_ts_rates J J ls li ls li n 0 in
  (visibility_of_rate ss, visibility_of_rate ii, visibility_of_rate si).

(* ---- identical sources on the same ranges: six of the eight arrays are the same array F *)
Definition ts_identical {T} (F AI BS : nat -> cx T) : ts_arrays T := mkTs F F F F F F AI BS.

(* F as a matrix: entry (s, i) = F[get_1d_index(s, i, n)] *)
Definition Fmat {T} (n : nat) (F : nat -> cx T) : nat -> nat -> cx T := fun s i => F (get_1d_index s i n).

(* ---- purity in trace form, over any Ops (complex sums by components)
   H = F F^dagger :  H(s1,s2) = sum_i F(s1,i) conj F(s2,i);   K = F^dagger F :  K(i1,i2) = sum_s conj F(s,i1) F(s,i2) *)
Definition gcsum {T} (o : Ops T) (n : nat) (f : nat -> cx T) : cx T :=
  (gsum o n (fun k => fst (f k)), gsum o n (fun k => snd (f k))).
Definition FFh {T} (o : Ops T) (n : nat) (M : nat -> nat -> cx T) (s1 s2 : nat) : cx T :=
  gcsum o n (fun i => cmul o (M s1 i) (cconj o (M s2 i))).
Definition FhF {T} (o : Ops T) (n : nat) (M : nat -> nat -> cx T) (i1 i2 : nat) : cx T :=
  gcsum o n (fun s => cmul o (cconj o (M s i1)) (M s i2)).
(* Re tr (X X) for a matrix X *)
Definition re_tr_sq {T} (o : Ops T) (n : nat) (X : nat -> nat -> cx T) : T :=
  gsum o n (fun j => gsum o n (fun k => cre (cmul o (X j k) (X k j)))).
Definition frob2 {T} (o : Ops T) (n : nat) (M : nat -> nat -> cx T) : T :=
  gsum o n (fun i => gsum o n (fun s => cnorm2 o (M s i))).
Definition purity_s {T} (o : Ops T) (n : nat) (M : nat -> nat -> cx T) : T :=
  odiv o (re_tr_sq o n (FFh o n M)) (omul o (frob2 o n M) (frob2 o n M)).
Definition purity_i {T} (o : Ops T) (n : nat) (M : nat -> nat -> cx T) : T :=
  odiv o (re_tr_sq o n (FhF o n M)) (omul o (frob2 o n M) (frob2 o n M)).

(* singular-value form *)
Definition purity_sv (n : nat) (sv : nat -> R) : R :=
  (rsum n (fun k => sv k ^ 4) / (rsum n (fun k => sv k * sv k) * rsum n (fun k => sv k * sv k)))%R.

(* complex SVD contract: F = U diag(sv) V^dagger with orthonormal columns of U and V, sv real (any such factorisation) *)
Definition csum (n : nat) (f : nat -> cx R) : cx R := gcsum ROps n f.
Definition unitary_cols (n : nat) (U : nat -> nat -> cx R) : Prop :=
  forall k l, k < n -> l < n ->
    csum n (fun i => cmul ROps (cconj ROps (U i k)) (U i l)) = if Nat.eqb k l then (1, 0)%R else (0, 0)%R.
Definition is_csvd (n : nat) (M : nat -> nat -> cx R) (sv : nat -> R) : Prop :=
  exists U V : nat -> nat -> cx R,
    unitary_cols n U /\ unitary_cols n V /\
    forall s i, s < n -> i < n ->
      M s i = csum n (fun k => cmul ROps (cmul ROps (U s k) (sv k, 0%R)) (cconj ROps (V i k))).

(* ---- executable twin at zero delay (unit phases) *)
Definition ts_of_lists (l : list (list (cx Q))) : ts_arrays Q :=
  let a k := arr (0, 0)%Q (nth k l nil) in mkTs (a 0) (a 1) (a 2) (a 3) (a 4) (a 5) (a 6) (a 7).
Definition ts_rates_Q0 (n : nat) (l : list (list (cx Q))) : Q * Q * Q :=
  let A := ts_of_lists l in let u := fun _ _ : nat => cone QOps in
  (ts_rate_ss QOps n A u, ts_rate_ii QOps n A u, ts_rate_si QOps n A u).
Definition purity_s_Q (n : nat) (F : list (cx Q)) : Q := purity_s QOps n (Fmat n (arr (0, 0)%Q F)).
Definition purity_i_Q (n : nat) (F : list (cx Q)) : Q := purity_i QOps n (Fmat n (arr (0, 0)%Q F)).

(* ---- hom_two_source_time_delays and the general hom_two_source_visibilities (free function).
   What the delays read of a setup: the two waist positions (m) and the two average transit times (s) (oracle values). *)
Record ts_source := mkSrc { sig_wp : R; idl_wp : R; sig_time : R; idl_time : R }.
Definition light_c : R := 299792458%R.

Definition ts_time_delays (spdc1 spdc2 : ts_source) : R * R * R :=
  ((sig_time spdc2 - sig_time spdc1 + (sig_wp spdc2 - sig_wp spdc1) / light_c,
    idl_time spdc2 - idl_time spdc1 + (idl_wp spdc2 - idl_wp spdc1) / light_c),
   idl_time spdc2 - sig_time spdc1 + (idl_wp spdc2 - sig_wp spdc1) / light_c)%R.

(* hom_time_delay of a single source (the delay hom_visibility evaluates the rate at) *)
Definition hom_time_delay (spdc : ts_source) : R := (idl_time spdc - sig_time spdc + (idl_wp spdc - sig_wp spdc) / light_c)%R.

(* [same] is the outcome of the test `spdc1 == spdc2` (derived structural equality; false for equal values when a field is NaN).
   same:  one series call at delay 0, all three visibilities from it, reported delays 0.
   else:  the three channel delays from hom_two_source_time_delays, one series call per channel at its delay. *)
Definition setup_ts_visibilities (same : bool) (J1 J2 : R -> R -> cx R) (spdc1 spdc2 : ts_source)
    (ls1 li1 ls2 li2 : R * R) (n : nat) : (R * R) * (R * R) * (R * R) :=
  let rates := fun dt => setup_ts_rates J1 J2 ls1 li1 ls2 li2 n dt in
  if same then
    let min_rate := rates 0%R in
    ((0%R, visibility_of_rate (fst (fst min_rate))), (0%R, visibility_of_rate (snd (fst min_rate))), (0%R, visibility_of_rate (snd min_rate)))
  else
    let time_delays := ts_time_delays spdc1 spdc2 in
    let min_ss := fst (fst (rates (fst (fst time_delays)))) in
    let min_ii := snd (fst (rates (snd (fst time_delays)))) in
    let min_si := snd (rates (snd time_delays)) in
    ((fst (fst time_delays), visibility_of_rate min_ss), (snd (fst time_delays), visibility_of_rate min_ii),
     (snd time_delays, visibility_of_rate min_si)).
