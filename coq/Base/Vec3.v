(* 3-vectors over R as triples (the carrier of nalgebra's Vector3<f64> in the real-number models). *)
From Coq Require Import Reals Lra.
Local Open Scope R_scope.

Definition vec : Type := (R * R * R)%type.
Definition vx (v : vec) : R := fst (fst v).
Definition vy (v : vec) : R := snd (fst v).
Definition vz (v : vec) : R := snd v.

Definition vadd (a b : vec) : vec := (vx a + vx b, vy a + vy b, vz a + vz b).
Definition vsub (a b : vec) : vec := (vx a - vx b, vy a - vy b, vz a - vz b).
Definition vscale (s : R) (a : vec) : vec := (s * vx a, s * vy a, s * vz a).
Definition vdot (a b : vec) : R := vx a * vx b + vy a * vy b + vz a * vz b.
Definition vcross (a b : vec) : vec :=
  (vy a * vz b - vz a * vy b, vz a * vx b - vx a * vz b, vx a * vy b - vy a * vx b).
Definition vnorm2 (a : vec) : R := vdot a a.
Definition vnorm (a : vec) : R := sqrt (vnorm2 a).
Definition ez : vec := (0, 0, 1).
Definition vzero : vec := (0, 0, 0).

(* nalgebra's Vector3::norm on components *)
Definition norm3 (x y z : R) : R := sqrt (x * x + y * y + z * z).

Lemma vec_eq (a b : vec) : vx a = vx b -> vy a = vy b -> vz a = vz b -> a = b.
Proof. destruct a as [[? ?] ?], b as [[? ?] ?]; unfold vx, vy, vz; cbn; intros; subst; reflexivity. Qed.

Lemma vnorm2_nonneg a : 0 <= vnorm2 a.
Proof. unfold vnorm2, vdot. nra. Qed.

Lemma vnorm_scale_unit (q : vec) : 0 < vnorm2 q -> vnorm2 (vscale (/ vnorm q) q) = 1.
Proof.
  intros H. unfold vnorm. unfold vnorm2 at 1. unfold vdot, vscale, vx, vy, vz; cbn [fst snd].
  assert (Hs : sqrt (vnorm2 q) * sqrt (vnorm2 q) = vnorm2 q) by (apply sqrt_sqrt; lra).
  assert (Hp : 0 < sqrt (vnorm2 q)) by (apply sqrt_lt_R0; exact H).
  replace (/ sqrt (vnorm2 q) * fst (fst q) * (/ sqrt (vnorm2 q) * fst (fst q)) +
           / sqrt (vnorm2 q) * snd (fst q) * (/ sqrt (vnorm2 q) * snd (fst q)) +
           / sqrt (vnorm2 q) * snd q * (/ sqrt (vnorm2 q) * snd q))
    with (vnorm2 q / (sqrt (vnorm2 q) * sqrt (vnorm2 q))).
  - rewrite Hs. field. lra.
  - unfold vnorm2 at 1. unfold vdot, vx, vy, vz. field. lra.
Qed.

(* a vector parallel to q with positive factor: cross product vanishes, dot product positive *)
Lemma vcross_scale_self (s : R) (q : vec) : vcross (vscale s q) q = vzero.
Proof. unfold vcross, vscale, vzero, vx, vy, vz; cbn [fst snd]. f_equal; [f_equal|]; ring. Qed.

Lemma vdot_scale_self (s : R) (q : vec) : vdot (vscale s q) q = s * vnorm2 q.
Proof. unfold vdot, vscale, vnorm2, vdot, vx, vy, vz; cbn [fst snd]. ring. Qed.
