(* Real-number helpers shared by the generated definitions and the hand-written models. *)
From Coq Require Import Reals Lra Lia ZArith.
Local Open Scope R_scope.

(* floor / ceil as reals (Rust: f64::floor, f64::ceil) *)
Definition Rfloor (x : R) : R := IZR (Int_part x).
Definition Rceil (x : R) : R := - IZR (Int_part (- x)).

(* Rust f64::rem_euclid for a positive modulus: x - m * floor (x / m) *)
Definition rem_euclid (x m : R) : R := x - m * Rfloor (x / m).

(* Rust f64::round: half away from zero *)
Definition round_half_away (x : R) : R :=
  if Rle_dec 0 x then Rfloor (x + /2) else - Rfloor (- x + /2).

Definition signum (x : R) : R := if Rle_dec 0 x then 1 else -1.

Lemma Rfloor_spec x : Rfloor x <= x < Rfloor x + 1.
Proof.
  unfold Rfloor. destruct (base_Int_part x) as [H1 H2]. lra.
Qed.

Lemma Rfloor_unique x (z : Z) : IZR z <= x < IZR z + 1 -> Rfloor x = IZR z.
Proof.
  intros [H1 H2]. unfold Rfloor. f_equal.
  destruct (base_Int_part x) as [H3 H4].
  assert (IZR (Int_part x) < IZR z + 1) by lra.
  assert (IZR z < IZR (Int_part x) + 1) by lra.
  rewrite <- plus_IZR in *.
  apply lt_IZR in H, H0. lia.
Qed.

Lemma rem_euclid_range x m : 0 < m -> 0 <= rem_euclid x m < m.
Proof.
  intros Hm. unfold rem_euclid.
  pose proof (Rfloor_spec (x / m)) as [H1 H2].
  assert (Hx : x = m * (x / m)) by (field; lra).
  split.
  - apply Rmult_le_compat_l with (r := m) in H1; lra.
  - apply Rmult_lt_compat_l with (r := m) in H2; lra.
Qed.

Lemma rem_euclid_congr x m : exists k : Z, rem_euclid x m = x - m * IZR k.
Proof. exists (Int_part (x / m)). reflexivity. Qed.
