(* Number systems the translated numerical kernels are instantiated at (DESIGN §2.1: definitions are written once,
   run over Q and proved over R).  A [num_ops] packages a scalar type (Rust f64), a value type (Rust Complex<f64>)
   and the operations the kernels use.  Two instances: [Rops] (R and Coquelicot's C = R * R) for theorems,
   [Qops] (Q and Q * Q, results kept reduced) for vm_compute.  Definitions only. *)
From Coq Require Import Reals QArith ZArith List Bool Qabs.
From Coquelicot Require Import Coquelicot.

Record num_ops := {
  Sc : Type;                      (* scalars: f64 *)
  Vc : Type;                      (* values: Complex<f64> *)
  s_of_Z : Z -> Sc;               (* usize as f64, integer-valued literals *)
  s_of_Q : Q -> Sc;               (* other literals and constants, as exact rationals *)
  sadd : Sc -> Sc -> Sc;
  ssub : Sc -> Sc -> Sc;
  smul : Sc -> Sc -> Sc;
  sdiv : Sc -> Sc -> Sc;
  sabs : Sc -> Sc;
  seqb : Sc -> Sc -> bool;
  sltb : Sc -> Sc -> bool;
  sleb : Sc -> Sc -> bool;
  vmk : Sc -> Sc -> Vc;           (* Complex::new(re, im) *)
  vre : Vc -> Sc;
  vim : Vc -> Sc;
  vadd : Vc -> Vc -> Vc;
  vsub : Vc -> Vc -> Vc;
  vscale : Sc -> Vc -> Vc;        (* f64 * Complex and Complex * f64 (componentwise in both orders) *)
  vdiv : Vc -> Sc -> Vc;          (* Complex / f64 *)
  vnorm_leb : Vc -> Sc -> bool;   (* z.norm() <= s *)
}.

(* ---- reals *)
Definition Rbool_eq (x y : R) : bool := if Req_EM_T x y then true else false.
Definition Rbool_lt (x y : R) : bool := if Rlt_dec x y then true else false.
Definition Rbool_le (x y : R) : bool := if Rle_dec x y then true else false.

Definition Rops : num_ops := {|
  Sc := R; Vc := C;
  s_of_Z := IZR; s_of_Q := Q2R;
  sadd := Rplus; ssub := Rminus; smul := Rmult; sdiv := Rdiv; sabs := Rabs;
  seqb := Rbool_eq; sltb := Rbool_lt; sleb := Rbool_le;
  vmk := fun re im => (re, im); vre := fst; vim := snd;
  vadd := fun u v => (fst u + fst v, snd u + snd v)%R;
  vsub := fun u v => (fst u - fst v, snd u - snd v)%R;
  vscale := fun s v => (s * fst v, s * snd v)%R;
  vdiv := fun v s => (fst v / s, snd v / s)%R;
  vnorm_leb := fun v s => Rbool_le (Cmod v) s;
|}.

(* ---- rationals (executable) *)
Definition Qops : num_ops := {|
  Sc := Q; Vc := (Q * Q)%type;
  s_of_Z := inject_Z; s_of_Q := Qred;
  sadd := fun x y => Qred (x + y); ssub := fun x y => Qred (x - y);
  smul := fun x y => Qred (x * y); sdiv := fun x y => Qred (x / y); sabs := Qabs;
  seqb := Qeq_bool; sltb := fun x y => negb (Qle_bool y x); sleb := Qle_bool;
  vmk := fun re im => (re, im); vre := fst; vim := snd;
  vadd := fun u v => (Qred (fst u + fst v), Qred (snd u + snd v));
  vsub := fun u v => (Qred (fst u - fst v), Qred (snd u - snd v));
  vscale := fun s v => (Qred (s * fst v), Qred (s * snd v));
  vdiv := fun v s => (Qred (fst v / s), Qred (snd v / s));
  (* |v| <= s  <->  0 <= s /\ re^2 + im^2 <= s^2 *)
  vnorm_leb := fun v s => Qle_bool 0 s && Qle_bool (fst v * fst v + snd v * snd v) (s * s);
|}.

(* ---- list helpers used by the translated iterator chains *)
Section Lists.
  Variable O : num_ops.
  Definition vzero : Vc O := vmk O (s_of_Z O 0) (s_of_Z O 0).
  (* Iterator::sum::<Complex<f64>>() : left fold from zero *)
  Definition vsum (l : list (Vc O)) : Vc O := fold_left (vadd O) l vzero.
  Definition ssum (l : list (Sc O)) : Sc O := fold_left (sadd O) l (s_of_Z O 0).
End Lists.

(* lo, lo+1, ..., lo+n-1 *)
Fixpoint zseq (lo : Z) (n : nat) : list Z :=
  match n with O => nil | S n' => lo :: zseq (lo + 1) n' end.
(* Rust `lo..=hi` and `lo..hi` over usize *)
Definition zrange_incl (lo hi : Z) : list Z := zseq lo (Z.to_nat (hi - lo + 1)).
Definition zrange (lo hi : Z) : list Z := zseq lo (Z.to_nat (hi - lo)).
(* Iterator::enumerate *)
Fixpoint zenum_from {A} (k : Z) (l : list A) : list (Z * A) :=
  match l with nil => nil | x :: t => (k, x) :: zenum_from (k + 1) t end.
Definition zenumerate {A} (l : list A) : list (Z * A) := zenum_from 0 l.
