(* Complex-number helpers for the phasematching integrand (C05, C06): complex exponential and the principal
   square root with the branch used by num_complex::Complex::sqrt, on Coquelicot's C = R * R. *)
From Coq Require Import Reals Lra.
From Coquelicot Require Import Coquelicot.
Local Open Scope R_scope.

(* num_complex: exp(a + bi) = from_polar(e^a, b) = (e^a cos b, e^a sin b) *)
Definition Cexp (w : C) : C := (exp (fst w) * cos (snd w), exp (fst w) * sin (snd w)).

(* num_complex::Complex::sqrt: principal branch, sqrt(r e^{it}) = sqrt r e^{it/2} with t = atan2(im, re) in (-pi, pi].
   Half-angle form (no atan2): re = sqrt((|w| + re w)/2), im = sgn(im w) * sqrt((|w| - re w)/2) with sgn(+0) = +1;
   the explicit special cases of the Rust code (im = 0, re = 0) agree with this formula when the zero has a positive sign
   bit; the negative-zero imaginary part (a float artefact: the result's imaginary part gets the opposite sign) has no
   real-number counterpart and is excluded by the correspondence generator. *)
Definition Csqrt (w : C) : C :=
  (sqrt ((Cmod w + fst w) / 2),
   (if Rle_dec 0 (snd w) then 1 else -1) * sqrt ((Cmod w - fst w) / 2)).

Definition Cre (w : C) : R := fst w.
Definition Cim (w : C) : R := snd w.

(* ------------------------------------------------------------------ basic facts *)
Lemma Cexp_0 : Cexp (RtoC 0) = RtoC 1.
Proof. unfold Cexp, RtoC; cbn [fst snd]. rewrite exp_0, cos_0, sin_0. f_equal; ring. Qed.

Lemma Cexp_plus (a b : C) : Cexp (Cplus a b) = Cmult (Cexp a) (Cexp b).
Proof.
  destruct a as [ar ai], b as [br bi]. unfold Cexp, Cplus, Cmult; cbn [fst snd].
  rewrite exp_plus, cos_plus, sin_plus. f_equal; ring.
Qed.

Lemma Cmod_Cexp (a : C) : Cmod (Cexp a) = exp (fst a).
Proof.
  unfold Cmod, Cexp; cbn [fst snd].
  replace ((exp (fst a) * cos (snd a)) ^ 2 + (exp (fst a) * sin (snd a)) ^ 2)
    with ((exp (fst a)) ^ 2 * ((sin (snd a))² + (cos (snd a))²)) by (unfold Rsqr; ring).
  rewrite sin2_cos2, Rmult_1_r. apply sqrt_pow2. left; apply exp_pos.
Qed.

Lemma Cexp_neq_0 (a : C) : Cexp a <> RtoC 0.
Proof.
  intro H. apply (f_equal Cmod) in H. rewrite Cmod_Cexp, Cmod_0 in H.
  pose proof (exp_pos (fst a)). lra.
Qed.

Lemma Cexp_imag (t : R) : Cexp (0, t) = (cos t, sin t).
Proof. unfold Cexp; cbn [fst snd]. rewrite exp_0. f_equal; ring. Qed.

Lemma Cexp_real (x : R) : Cexp (RtoC x) = RtoC (exp x).
Proof. unfold Cexp, RtoC; cbn [fst snd]. rewrite cos_0, sin_0. f_equal; ring. Qed.

Lemma Cmod_sq (w : C) : Cmod w * Cmod w = fst w * fst w + snd w * snd w.
Proof.
  unfold Cmod. rewrite sqrt_sqrt; [ring|].
  pose proof (pow2_ge_0 (fst w)); pose proof (pow2_ge_0 (snd w)); lra.
Qed.

Lemma Cmod_ge_re (w : C) : Rabs (fst w) <= Cmod w.
Proof.
  pose proof (Cmod_sq w) as H. pose proof (Cmod_ge_0 w) as H0.
  destruct (Rle_dec (Rabs (fst w)) (Cmod w)) as [|n]; [assumption|exfalso].
  apply Rnot_le_lt in n.
  assert (Hs : Cmod w * Cmod w < Rabs (fst w) * Rabs (fst w)) by (apply Rmult_le_0_lt_compat; lra).
  assert (Rabs (fst w) * Rabs (fst w) = fst w * fst w).
  { unfold Rabs; destruct (Rcase_abs (fst w)); ring. }
  pose proof (Rle_0_sqr (snd w)) as H2; unfold Rsqr in H2. lra.
Qed.

(* Csqrt is a square root, with non-negative real part (the principal one) *)
Lemma Csqrt_sqr (w : C) : Cmult (Csqrt w) (Csqrt w) = w.
Proof.
  destruct w as [x y]. unfold Csqrt, Cmult; cbn [fst snd].
  pose proof (Cmod_ge_re (x, y)) as Hre; cbn [fst] in Hre.
  pose proof (Cmod_sq (x, y)) as Hsq; cbn [fst snd] in Hsq.
  set (m := Cmod (x, y)) in *.
  assert (Hp : 0 <= (m + x) / 2) by (unfold Rabs in Hre; destruct (Rcase_abs x); lra).
  assert (Hm : 0 <= (m - x) / 2) by (unfold Rabs in Hre; destruct (Rcase_abs x); lra).
  set (s := if Rle_dec 0 y then 1 else -1).
  assert (Hs : s * s = 1) by (unfold s; destruct (Rle_dec 0 y); ring).
  assert (Hprod : sqrt ((m + x) / 2) * sqrt ((m - x) / 2) = Rabs y / 2).
  { rewrite <- sqrt_mult by assumption.
    replace ((m + x) / 2 * ((m - x) / 2)) with (Rsqr (y / 2)) by (unfold Rsqr; replace (y / 2 * (y / 2)) with ((m * m - x * x) / 4) by (rewrite Hsq; field); field).
    rewrite sqrt_Rsqr_abs. unfold Rdiv. rewrite Rabs_mult, (Rabs_pos_eq (/ 2)) by lra. reflexivity. }
  f_equal.
  - replace (sqrt ((m + x) / 2) * sqrt ((m + x) / 2) - s * sqrt ((m - x) / 2) * (s * sqrt ((m - x) / 2)))
      with (sqrt ((m + x) / 2) * sqrt ((m + x) / 2) - (s * s) * (sqrt ((m - x) / 2) * sqrt ((m - x) / 2))) by ring.
    rewrite Hs, !sqrt_sqrt by assumption. field.
  - replace (sqrt ((m + x) / 2) * (s * sqrt ((m - x) / 2)) + s * sqrt ((m - x) / 2) * sqrt ((m + x) / 2))
      with (2 * s * (sqrt ((m + x) / 2) * sqrt ((m - x) / 2))) by ring.
    rewrite Hprod. unfold s, Rabs. destruct (Rle_dec 0 y), (Rcase_abs y); try lra; field.
Qed.

Lemma Csqrt_re_nonneg (w : C) : 0 <= fst (Csqrt w).
Proof. unfold Csqrt; cbn [fst]. apply sqrt_pos. Qed.

Lemma Csqrt_neq_0 (w : C) : w <> RtoC 0 -> Csqrt w <> RtoC 0.
Proof.
  intros Hw H. apply Hw. rewrite <- (Csqrt_sqr w), H. unfold Cmult, RtoC; cbn [fst snd]. f_equal; ring.
Qed.

(* on the non-negative real axis Csqrt is the real square root *)
Lemma Csqrt_real_nonneg (x : R) : 0 <= x -> Csqrt (RtoC x) = RtoC (sqrt x).
Proof.
  intros Hx. unfold Csqrt, RtoC; cbn [fst snd].
  assert (Hm : Cmod (x, 0) = x).
  { unfold Cmod; cbn [fst snd]. replace (x ^ 2 + 0 ^ 2) with (x ^ 2) by ring. apply sqrt_pow2; assumption. }
  rewrite Hm. destruct (Rle_dec 0 0); [|lra].
  replace ((x + x) / 2) with x by field. replace ((x - x) / 2) with 0 by field.
  rewrite sqrt_0. f_equal; ring.
Qed.
