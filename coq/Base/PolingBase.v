(* Helpers used by the generated Gen/Poling.v (C19): how a Rust `usize` that the real-number model carries as a real is
   turned into a count or an index.  Definitions only; the lemmas about them are in Proofs/C19_base.v. *)
From Coq Require Import Reals List ZArith.
From SpdVerif Require Import Base.Rx.
Local Open Scope R_scope.

(* `x as usize` where x is a non-negative integer-valued real *)
Definition usize_of (x : R) : nat := Z.to_nat (Int_part x).

(* `values[i]` for a `Vec<f64>`; out-of-range indices (a panic in Rust) read 0 here, so theorems about vec_at state the
   index bound explicitly *)
Definition vec_at (values : list R) (i : R) : R := nth (usize_of i) values 0.
