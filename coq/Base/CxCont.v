(* Continuity of the complex operations used by the phasematching integrand, in the product topology of C (C_UniformSpace):
   pairing, RtoC, Cexp, arithmetic, Cinv away from 0 and the principal square root Csqrt at positive reals (Lipschitz bound). *)
From Coq Require Import Reals Lra Psatz.
From Coquelicot Require Import Coquelicot.
From SpdVerif Require Import Base.CxPM.
Local Open Scope R_scope.

(* pairing of two continuous real functions is continuous into C *)
Lemma continuous_Cpair {U : UniformSpace} (f g : U -> R) (x : U) :
  continuous f x -> continuous g x -> continuous (fun t => ((f t, g t) : C)) x.
Proof.
  intros Hf Hg. apply filterlim_locally. intros eps.
  pose proof (proj1 (filterlim_locally f (f x)) Hf eps) as H1.
  pose proof (proj1 (filterlim_locally g (g x)) Hg eps) as H2.
  generalize (filter_and _ _ H1 H2). apply filter_imp. intros t [Ha Hb]. split; assumption.
Qed.

Lemma continuous_RtoC (x : R) : continuous RtoC x.
Proof.
  apply (continuous_Cpair (fun t => t) (fun _ => 0)).
  - apply continuous_id.
  - apply continuous_const.
Qed.

Lemma continuous_Cfst (c : C) : continuous (fun u : C => fst u) c.
Proof. destruct c as [a b]. apply (continuous_fst (U := R_UniformSpace) (V := R_UniformSpace)). Qed.
Lemma continuous_Csnd (c : C) : continuous (fun u : C => snd u) c.
Proof. destruct c as [a b]. apply (continuous_snd (U := R_UniformSpace) (V := R_UniformSpace)). Qed.

Lemma continuous_Cexp (c : C) : continuous Cexp c.
Proof.
  unfold Cexp. apply (continuous_Cpair (U := C_UniformSpace)).
  - apply (continuous_mult (K := R_AbsRing) (fun u : C => exp (fst u)) (fun u : C => cos (snd u))).
    + apply (continuous_comp (fun u : C => fst u) exp); [apply continuous_Cfst|].
      apply continuity_pt_filterlim, derivable_continuous_pt, derivable_pt_exp.
    + apply (continuous_comp (fun u : C => snd u) cos); [apply continuous_Csnd|].
      apply continuity_pt_filterlim, continuity_cos.
  - apply (continuous_mult (K := R_AbsRing) (fun u : C => exp (fst u)) (fun u : C => sin (snd u))).
    + apply (continuous_comp (fun u : C => fst u) exp); [apply continuous_Cfst|].
      apply continuity_pt_filterlim, derivable_continuous_pt, derivable_pt_exp.
    + apply (continuous_comp (fun u : C => snd u) sin); [apply continuous_Csnd|].
      apply continuity_pt_filterlim, continuity_sin.
Qed.

Lemma Cmod_ge_fst (u : C) : Rabs (fst u) <= Cmod u.
Proof. apply Cmod_ge_re. Qed.
Lemma Cmod_ge_snd (u : C) : Rabs (snd u) <= Cmod u.
Proof.
  replace (Cmod u) with (Cmod (snd u, fst u)).
  - apply (Cmod_ge_re (snd u, fst u)).
  - unfold Cmod; cbn [fst snd]. f_equal. ring.
Qed.

Lemma Cmod_le_sum (u : C) : Cmod u <= Rabs (fst u) + Rabs (snd u).
Proof.
  destruct u as [a b]. unfold Cmod; cbn [fst snd].
  apply Rsqr_incr_0_var.
  - rewrite Rsqr_sqrt by (pose proof (pow2_ge_0 a); pose proof (pow2_ge_0 b); lra).
    unfold Rsqr. pose proof (Rabs_pos a). pose proof (Rabs_pos b).
    replace (a ^ 2) with (Rabs a * Rabs a) by (unfold Rabs; destruct (Rcase_abs a); ring).
    replace (b ^ 2) with (Rabs b * Rabs b) by (unfold Rabs; destruct (Rcase_abs b); ring). nra.
  - pose proof (Rabs_pos a). pose proof (Rabs_pos b). lra.
Qed.

(* a locally Lipschitz-at-c function C -> C is continuous at c *)
Lemma continuous_C_from_bound (f : C -> C) (c : C) (K d0 : R) :
  0 < d0 -> 0 <= K ->
  (forall u, Cmod (Cminus u c) < d0 -> Cmod (Cminus (f u) (f c)) <= K * Cmod (Cminus u c)) ->
  continuous f c.
Proof.
  intros Hd HK Hb. apply filterlim_locally. intros eps.
  set (d := Rmin (d0 / 2) (eps / (2 * (K + 1)))).
  assert (Hdpos : 0 < d).
  { unfold d. apply Rmin_pos; [lra|]. apply Rdiv_lt_0_compat; [apply cond_pos | lra]. }
  exists (mkposreal d Hdpos). intros u Hu. destruct Hu as [Hu1 Hu2]. cbn in Hu1, Hu2.
  unfold ball in Hu1, Hu2; cbn in Hu1, Hu2. unfold AbsRing_ball, abs, minus, plus, opp in Hu1, Hu2; cbn in Hu1, Hu2.
  assert (Hm : Cmod (Cminus u c) < 2 * d).
  { eapply Rle_lt_trans; [apply Cmod_le_sum|]. unfold Cminus, Cplus, Copp; cbn [fst snd]. lra. }
  assert (Hm0 : Cmod (Cminus u c) < d0).
  { eapply Rlt_le_trans; [exact Hm|]. unfold d. pose proof (Rmin_l (d0 / 2) (eps / (2 * (K + 1)))). lra. }
  pose proof (Hb u Hm0) as Hf.
  assert (Hfe : Cmod (Cminus (f u) (f c)) < eps).
  { eapply Rle_lt_trans; [exact Hf|].
    assert (K * Cmod (Cminus u c) <= K * (2 * d)) by (apply Rmult_le_compat_l; lra).
    assert (K * (2 * d) < eps).
    { unfold d. pose proof (Rmin_r (d0 / 2) (eps / (2 * (K + 1)))) as Hr.
      assert (He : 0 < eps) by apply cond_pos.
      assert (K * (2 * (eps / (2 * (K + 1)))) < eps).
      { replace (K * (2 * (eps / (2 * (K + 1))))) with (eps * (K / (K + 1))) by (field; lra).
        assert (K / (K + 1) < 1) by (apply Rmult_lt_reg_r with (K + 1); [lra | field_simplify; lra]).
        nra. }
      assert (K * (2 * Rmin (d0 / 2) (eps / (2 * (K + 1)))) <= K * (2 * (eps / (2 * (K + 1))))) by (apply Rmult_le_compat_l; lra).
      lra. }
    lra. }
  split; cbn; unfold ball; cbn; unfold AbsRing_ball, abs, minus, plus, opp; cbn.
  - eapply Rle_lt_trans; [|exact Hfe]. eapply Rle_trans; [|apply (Cmod_ge_fst (Cminus (f u) (f c)))].
    unfold Cminus, Cplus, Copp; cbn [fst snd]. right. reflexivity.
  - eapply Rle_lt_trans; [|exact Hfe]. eapply Rle_trans; [|apply (Cmod_ge_snd (Cminus (f u) (f c)))].
    unfold Cminus, Cplus, Copp; cbn [fst snd]. right. reflexivity.
Qed.

Lemma Cmod_minus_sym (a b : C) : Cmod (Cminus a b) = Cmod (Cminus b a).
Proof. rewrite <- Cmod_opp. f_equal. unfold Cminus, Cplus, Copp; cbn [fst snd]. f_equal; ring. Qed.

Lemma continuous_Cinv (c : C) : c <> RtoC 0 -> continuous Cinv c.
Proof.
  intros Hc. pose proof (proj1 (Cmod_gt_0 c) Hc) as Hm.
  apply (continuous_C_from_bound Cinv c (2 / (Cmod c * Cmod c)) (Cmod c / 2)).
  - lra.
  - apply Rlt_le, Rdiv_lt_0_compat; [lra | nra].
  - intros u Hu.
    assert (Hum : Cmod c / 2 < Cmod u).
    { pose proof (Cmod_triangle (Cminus c u) u) as Ht.
      replace (Cplus (Cminus c u) u) with c in Ht by (unfold Cminus, Cplus, Copp; destruct c, u; cbn [fst snd]; f_equal; ring).
      rewrite Cmod_minus_sym in Ht. lra. }
    assert (Hu0 : u <> RtoC 0) by (apply (proj2 (Cmod_gt_0 u)); lra).
    assert (E : Cminus (Cinv u) (Cinv c) = Cdiv (Cminus c u) (Cmult u c)) by (field; split; assumption).
    rewrite E, Cmod_div by (apply Cmult_neq_0; assumption). rewrite Cmod_mult, (Cmod_minus_sym c u).
    apply Rmult_le_reg_r with (Cmod u * Cmod c); [nra|].
    replace (Cmod (Cminus u c) / (Cmod u * Cmod c) * (Cmod u * Cmod c)) with (Cmod (Cminus u c)) by (field; lra).
    replace (2 / (Cmod c * Cmod c) * Cmod (Cminus u c) * (Cmod u * Cmod c)) with (Cmod (Cminus u c) * (2 * Cmod u / Cmod c)) by (field; lra).
    pose proof (Cmod_ge_0 (Cminus u c)).
    assert (1 <= 2 * Cmod u / Cmod c) by (apply Rmult_le_reg_r with (Cmod c); [lra | field_simplify; lra]).
    nra.
Qed.

Lemma continuous_Csqrt_pos (x0 : R) : 0 < x0 -> continuous Csqrt (RtoC x0).
Proof.
  intros Hx. assert (Hs : 0 < sqrt x0) by (apply sqrt_lt_R0; assumption).
  apply (continuous_C_from_bound Csqrt (RtoC x0) (/ sqrt x0) 1).
  - lra.
  - left. apply Rinv_0_lt_compat. assumption.
  - intros u _. rewrite (Csqrt_real_nonneg x0) by lra.
    set (s := Csqrt u). set (s0 := RtoC (sqrt x0)).
    assert (E : Cmult (Cminus s s0) (Cplus s s0) = Cminus u (RtoC x0)).
    { replace (Cmult (Cminus s s0) (Cplus s s0)) with (Cminus (Cmult s s) (Cmult s0 s0)) by ring.
      unfold s. rewrite Csqrt_sqr. unfold s0. rewrite <- RtoC_mult, sqrt_sqrt by lra. reflexivity. }
    assert (Hp : sqrt x0 <= Cmod (Cplus s s0)).
    { eapply Rle_trans; [|apply Cmod_ge_fst]. unfold Cplus, s0, RtoC; cbn [fst snd].
      pose proof (Csqrt_re_nonneg u). fold s in H. rewrite Rabs_pos_eq; lra. }
    rewrite <- E, Cmod_mult.
    pose proof (Cmod_ge_0 (Cminus s s0)).
    apply Rmult_le_reg_l with (sqrt x0); [assumption|].
    replace (sqrt x0 * (/ sqrt x0 * (Cmod (Cminus s s0) * Cmod (Cplus s s0)))) with (Cmod (Cminus s s0) * Cmod (Cplus s s0)) by (field; lra).
    nra.
Qed.

(* arithmetic of continuous C-valued functions, in the product topology of C (C_UniformSpace) *)
Section ContArith.
  Context {U : UniformSpace}.
  Lemma cont_fst_comp (f : U -> C) x : continuous f x -> continuous (fun t => fst (f t)) x.
  Proof. intros H. apply (continuous_comp f (fun u : C => fst u)); [exact H | apply continuous_Cfst]. Qed.
  Lemma cont_snd_comp (f : U -> C) x : continuous f x -> continuous (fun t => snd (f t)) x.
  Proof. intros H. apply (continuous_comp f (fun u : C => snd u)); [exact H | apply continuous_Csnd]. Qed.

  Lemma cont_Cplus (f g : U -> C) x : continuous f x -> continuous g x -> continuous (fun t => Cplus (f t) (g t)) x.
  Proof.
    intros Hf Hg. unfold Cplus. apply continuous_Cpair.
    - apply (continuous_plus (V := R_NormedModule)); [apply cont_fst_comp | apply cont_fst_comp]; assumption.
    - apply (continuous_plus (V := R_NormedModule)); [apply cont_snd_comp | apply cont_snd_comp]; assumption.
  Qed.
  Lemma cont_Copp (f : U -> C) x : continuous f x -> continuous (fun t => Copp (f t)) x.
  Proof.
    intros Hf. unfold Copp. apply continuous_Cpair.
    - apply (continuous_opp (V := R_NormedModule)). apply cont_fst_comp; assumption.
    - apply (continuous_opp (V := R_NormedModule)). apply cont_snd_comp; assumption.
  Qed.
  Lemma cont_Cminus (f g : U -> C) x : continuous f x -> continuous g x -> continuous (fun t => Cminus (f t) (g t)) x.
  Proof. intros Hf Hg. unfold Cminus. apply cont_Cplus; [assumption | apply cont_Copp; assumption]. Qed.
  Lemma cont_Cmult (f g : U -> C) x : continuous f x -> continuous g x -> continuous (fun t => Cmult (f t) (g t)) x.
  Proof.
    intros Hf Hg. unfold Cmult. apply continuous_Cpair.
    - apply (continuous_minus (V := R_NormedModule)); apply (continuous_mult (K := R_AbsRing));
        first [apply cont_fst_comp | apply cont_snd_comp]; assumption.
    - apply (continuous_plus (V := R_NormedModule)); apply (continuous_mult (K := R_AbsRing));
        first [apply cont_fst_comp | apply cont_snd_comp]; assumption.
  Qed.
  Lemma cont_Cconst (c : C) (x : U) : continuous (fun _ : U => c) x.
  Proof. apply (continuous_const (V := C_UniformSpace)). Qed.
End ContArith.

(* ---- the principal square root and its branch cut (the closed negative real axis) *)
(* off the cut — i.e. wherever Re (Csqrt w0) > 0 — Csqrt is continuous (same Lipschitz argument as at positive reals) *)
Lemma continuous_Csqrt_off_cut (w0 : C) : 0 < fst (Csqrt w0) -> continuous Csqrt w0.
Proof.
  intros Hs0. set (r0 := fst (Csqrt w0)) in *.
  apply (continuous_C_from_bound Csqrt w0 (/ r0) 1).
  - lra.
  - left. apply Rinv_0_lt_compat. assumption.
  - intros u _. set (s := Csqrt u). set (s0 := Csqrt w0).
    assert (E : Cmult (Cminus s s0) (Cplus s s0) = Cminus u w0).
    { replace (Cmult (Cminus s s0) (Cplus s s0)) with (Cminus (Cmult s s) (Cmult s0 s0)) by ring.
      unfold s, s0. rewrite !Csqrt_sqr. reflexivity. }
    assert (Hp : r0 <= Cmod (Cplus s s0)).
    { eapply Rle_trans; [|apply Cmod_ge_fst]. unfold Cplus; cbn [fst snd].
      pose proof (Csqrt_re_nonneg u) as Hu. fold s in Hu.
      assert (Hr : fst s0 = r0) by reflexivity. rewrite Hr. rewrite Rabs_pos_eq; lra. }
    rewrite <- E, Cmod_mult.
    pose proof (Cmod_ge_0 (Cminus s s0)).
    apply Rmult_le_reg_l with r0; [assumption|].
    replace (r0 * (/ r0 * (Cmod (Cminus s s0) * Cmod (Cplus s s0)))) with (Cmod (Cminus s s0) * Cmod (Cplus s s0)) by (field; lra).
    nra.
Qed.

(* Re (Csqrt w) > 0 exactly off the closed negative real axis *)
Lemma Csqrt_re_pos_iff (w : C) : 0 < fst (Csqrt w) <-> ~ (fst w <= 0 /\ snd w = 0).
Proof.
  destruct w as [x y]. unfold Csqrt; cbn [fst snd].
  pose proof (Cmod_ge_re (x, y)) as Hre; cbn [fst] in Hre.
  pose proof (Cmod_sq (x, y)) as Hsq; cbn [fst snd] in Hsq.
  set (m := Cmod (x, y)) in *. pose proof (Cmod_ge_0 (x, y)) as Hm. fold m in Hm.
  split.
  - intros Hpos [Hx Hy]. subst y.
    assert (m = - x) by (assert (m * m = x * x) by lra; nra).
    replace ((m + x) / 2) with 0 in Hpos by lra. rewrite sqrt_0 in Hpos. lra.
  - intros Hn. apply sqrt_lt_R0.
    assert (Hle : - x <= m) by (unfold Rabs in Hre; destruct (Rcase_abs x); lra).
    destruct (Req_dec y 0) as [Hy|Hy].
    + assert (0 < x) by (destruct (Rle_dec x 0); [exfalso; apply Hn; split; assumption | lra]). lra.
    + assert (x * x < m * m) by (assert (0 < y * y) by nra; lra).
      assert (- x < m) by (destruct (Rle_dec 0 x); nra). lra.
Qed.

(* on the two sides of the cut the imaginary part of Csqrt is bounded away from 0 with opposite signs: a jump of at least
   2 sqrt(-Re w) across the negative real axis *)
Lemma Csqrt_above_cut (w : C) : fst w < 0 -> 0 <= snd w -> sqrt (- fst w) <= snd (Csqrt w).
Proof.
  destruct w as [x y]. cbn [fst snd]. intros Hx Hy. unfold Csqrt; cbn [fst snd].
  destruct (Rle_dec 0 y); [|lra]. rewrite Rmult_1_l. apply sqrt_le_1_alt.
  pose proof (Cmod_ge_re (x, y)) as Hre; cbn [fst] in Hre. rewrite Rabs_left in Hre by assumption. lra.
Qed.
Lemma Csqrt_below_cut (w : C) : fst w < 0 -> snd w < 0 -> snd (Csqrt w) <= - sqrt (- fst w).
Proof.
  destruct w as [x y]. cbn [fst snd]. intros Hx Hy. unfold Csqrt; cbn [fst snd].
  destruct (Rle_dec 0 y); [lra|].
  assert (sqrt (- x) <= sqrt ((Cmod (x, y) - x) / 2)).
  { apply sqrt_le_1_alt. pose proof (Cmod_ge_re (x, y)) as Hre; cbn [fst] in Hre. rewrite Rabs_left in Hre by assumption. lra. }
  lra.
Qed.
