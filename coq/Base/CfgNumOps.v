(* A record of numeric operations, so that the L4 structural models (config <-> setup, optimisation, normalised
   spectra) are written ONCE and instantiated at Q (executed by vm_compute on recorded inputs) and at R (theorems
   about rounding / angle normalisation).  Theorems that only concern the order of operations are proved for an
   arbitrary carrier and arbitrary operations.  No proofs here. *)
From Coq Require Import ZArith QArith.

Record NumOps (num : Type) := {
  nadd : num -> num -> num;
  nsub : num -> num -> num;
  nmul : num -> num -> num;
  ndiv : num -> num -> num;
  nneg : num -> num;
  nabs : num -> num;
  nleb : num -> num -> bool;      (* a <= b *)
  nltb : num -> num -> bool;      (* a <  b *)
  neqb : num -> num -> bool;      (* a == b *)
  nround : num -> num;            (* f64::round: nearest integer, ties away from zero *)
  nfloor : num -> num;
  nQ : Q -> num;                  (* literals *)
  npi : num
}.

Arguments nadd {num}. Arguments nsub {num}. Arguments nmul {num}. Arguments ndiv {num}. Arguments nneg {num}.
Arguments nabs {num}. Arguments nleb {num}. Arguments nltb {num}. Arguments neqb {num}. Arguments nround {num}.
Arguments nfloor {num}. Arguments nQ {num}. Arguments npi {num}.

Section Derived.
  Context {num : Type} (o : NumOps num).
  Definition nZ (z : Z) : num := nQ o (inject_Z z).
  Definition n0 : num := nZ 0.
  Definition n1 : num := nZ 1.
  Definition ntwo_pi : num := nmul o (nZ 2) (npi o).
  (* Rust f64::rem_euclid for a positive modulus *)
  Definition nrem_euclid (x m : num) : num := nsub o x (nmul o m (nfloor o (ndiv o x m))).
  (* unit constants of the `dimensioned` crate as spdcalc uses them (SI prefixes; DEG = pi/180 rad) *)
  Definition u_deg : num := ndiv o (npi o) (nZ 180).
  Definition u_micro : num := nQ o (1 # 1000000).
  Definition u_nano : num := nQ o (1 # 1000000000).
  Definition u_pico : num := nQ o (1 # 1000000000000).
  Definition kelvin_offset : num := nQ o (27315 # 100).
End Derived.
