(* Abstract field operations over which tools/gen/grid.py emits the grid formulas (Gen/Grid.v), and their two instances:
   R (proofs) and Q (execution by vm_compute).  Definitions only. *)
From Coq Require Import ZArith QArith Reals Arith.

Record ops (T : Type) := mk_ops {
  o_add : T -> T -> T;
  o_sub : T -> T -> T;
  o_mul : T -> T -> T;
  o_div : T -> T -> T;
  o_nat : nat -> T;     (* `n as f64` *)
  o_z   : Z -> T        (* literals *)
}.
Arguments o_add {T} _ _ _.
Arguments o_sub {T} _ _ _.
Arguments o_mul {T} _ _ _.
Arguments o_div {T} _ _ _.
Arguments o_nat {T} _ _.
Arguments o_z {T} _ _.

Definition Rops : ops R := mk_ops R Rplus Rminus Rmult Rdiv INR IZR.
Definition Qops : ops Q := mk_ops Q Qplus Qminus Qmult Qdiv (fun n => inject_Z (Z.of_nat n)) inject_Z.

(* usize::div_ceil *)
Definition div_ceil (a b : nat) : nat := if (0 <? a mod b)%nat then (a / b + 1)%nat else (a / b)%nat.
