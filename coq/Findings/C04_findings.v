(* Findings of C04 on the model of the two-vertex simplex in EXACT rational arithmetic (Model/NM1d.v: nm_exact).
   Not part of any property's obligations.

   F4  — the convergence contract "the simplex returns a point of cost < 2e-3/L whenever some point of the bounds
         phase-matches" is not a theorem: a continuous cost with a root inside the bounds, both seeds inside the bounds and
         on either side of the root, 1000 iterations — the simplex walks to the boundary and stops there.
         (Shape of |dkz(theta)| for BiBO_1 e -> eo, 775 -> 1550 nm, azimuth 0: rising from theta = 0 to a kink, then falling
         through zero; seeds at 1/2 and 3/2 like pi/6 and pi/6 + 1.)
   F4b — optimum_poling_period: when the exact period lies between L + 0.32 um and L + 1 um (L about 1 mm) the first
         reflection of the seed pair lands inside the bounds, the simplex converges to the bound L and the wrapper returns
         Ok(L) although no period <= L nulls the mismatch: |dkz| L / 2 >= 1e-3. *)
From Coq Require Import List Bool ZArith QArith.
From SpdVerif Require Import Model.NM1d.
Import ListNotations.
Local Open Scope Q_scope.

Definition qabs (x : Q) : Q := if qlt x 0 then - x else x.

(* h(x) = 55 + 270 x on [0, 43/100], then 171 - 600 (x - 43/100): root at 4291/6000; cost = |h| *)
Definition kink_cost (x : Q) : Q :=
  qabs (if qlt x (43 # 100) then 55 + 270 * x else (1711 # 10) - 600 * (x - (43 # 100))).

Lemma C04_convergence_contract_refuted :
  let lo := 0 in let hi := 8 # 5 in
  let r := nm_exact kink_cost (1 # 2) (3 # 2) 1000 lo hi (1 # 1000000) in
  (* a root inside the bounds, between the seeds *)
  (kink_cost (4291 # 6000) == 0 /\ (1 # 2) < (4291 # 6000) /\ (4291 # 6000) < (3 # 2)) /\
  (* yet the returned point is at the lower bound with a cost of about 55 *)
  (lo <= r /\ r < (1 # 1000) /\ 55 <= kink_cost r).
Proof. vm_compute. repeat split; try reflexivity; try (intro; discriminate). Qed.

(* collinear-form mismatch dkz(x) = z - K / x with K standing for 2 pi (K = 6), positive sign; L = 1 mm;
   exact root K / z = L + 0.6 um *)
Definition edge_L : Q := 1 # 1000.
Definition edge_root : Q := edge_L + (6 # 10000000).
Definition edge_z : Q := 6 / edge_root.
Definition edge_cost (x : Q) : Q := qabs (edge_z - 6 / x).

Lemma C04_edge_window_refuted :
  let p := nm_exact edge_cost edge_root (edge_root + (1 # 1000000)) 1000 (1 # 1000000000) edge_L (1 # 1000000000000) in
  (* the exact root is above the crystal length: no admissible period nulls the mismatch *)
  edge_L < edge_root /\
  (* the simplex nevertheless returns an admissible period (the wrapper answers Ok) ... *)
  ((1 # 1000000000) <= p /\ p <= edge_L) /\
  (* ... whose residual mismatch violates |dkz| L / 2 < 1e-3 *)
  (1 # 1000) <= edge_cost p * edge_L / 2.
Proof. vm_compute. repeat split; try reflexivity; try (intro; discriminate). Qed.
