(* Finding F3 (C03) — FIXED in /repo 4e30e73.  Historical record, against a pinned copy of the formula try_new_optimum had
   before the fix: for a NEGATIVE signal polar angle it multiplied asin(val) — which already carries the sign of the angle —
   by signum(theta_s) again.  The idler's transverse direction then had the wrong sign: the idler was the mirror image of the
   momentum-closing direction, on the signal's side, for EVERY negative angle.  (With the factor dropped the clause holds for
   both signs: Props/C03.v, C03_parallel.)   Not part of any property's obligations. *)
From Coq Require Import Reals Lra Lia ZArith Bool.
From SpdVerif Require Import Base.Rx Base.Vec3 Gen.Idler Model.Idler Proofs.C03_base Proofs.C03_idler Proofs.C03_all.
Local Open Scope R_scope.

(* the translation of the old source text (Gen/Idler.v as generated before 4e30e73), pinned *)
Definition idler_theta_old (counter_propagation : bool) (theta_s val : R) : R :=
  (((if (bool_dec (xorb (if Rlt_dec (signum (cos (theta_s / 1))) 0 then true else false) (if (bool_dec counter_propagation true) then true else false)) true) then (PI - (asin val)) else (asin val)) * (signum (theta_s / 1))) * 1).

Lemma idler_theta_old_forward cp th v : 0 < cos th ->
  idler_theta_old cp th v = (if cp then PI - asin v else asin v) * signum th.
Proof.
  intros Hc. unfold idler_theta_old. rewrite !Rdiv_1, Rmult_1_r.
  rewrite (signum_pos (cos th)) by lra.
  destruct (Rlt_dec 1 0) as [H|H]; [lra|]. destruct cp; cbn; reflexivity.
Qed.

Lemma idler_theta_old_neg th v : 0 < cos th -> th < 0 -> -1 <= v <= 1 ->
  sin (idler_theta_old false th v) = - v /\ cos (idler_theta_old false th v) = sqrt (1 - v²).
Proof.
  intros Hc Hn Hv. rewrite idler_theta_old_forward by assumption. rewrite signum_neg by assumption.
  replace (asin v * -1) with (- asin v) by ring. rewrite sin_neg, cos_neg, sin_asin, cos_asin by assumption. split; reflexivity.
Qed.

Section Old.
  Variable index : R -> vec -> polarization -> R.
  Variables (pm : pm_type) (spol ppol : polarization) (phis ths ls lp : R) (ws wp : R * R) (pp : poling).
  Hypothesis Hlp : 0 < lp.
  Hypothesis Hls : 0 < ls.
  Hypothesis Hpp : pp_defined pp.
  Hypothesis Hth : - (PI / 2) < ths < 0.

  Notation signal := (sigb spol phis ths ls ws).
  Notation pump := (pumpb ppol lp wp).
  Notation q := (closing_vector index signal pump pp).

  (* the idler the old code produced *)
  Definition idler_old : beam :=
    beam_new (idler_polarization pm) (idler_phi (b_phi signal))
             (idler_theta_old false (b_theta signal) (opt_val index signal pump pp))
             (idler_wavelength (b_lambda signal) (b_lambda pump)) (b_waist signal).

  Lemma Hth' : - (PI / 2) < ths < PI / 2.
  Proof. pose proof PI_RGT_0. lra. Qed.

  (* closing vector forward: the old idler is the mirror image (transverse part flipped) of the unit closing vector *)
  Lemma old_idler_mirror : 0 < vz q ->
    b_dir idler_old = (- vx (vscale (/ vnorm q) q), - vy (vscale (/ vnorm q) q), vz (vscale (/ vnorm q) q)).
  Proof.
    intros Hz. pose proof (Kq_pos ths ls Hls (range_pi ths Hth')) as HK.
    assert (Hz' : 0 < Kq ls * w_z index spol ppol phis ths ls lp ws wp pp)
      by (rewrite <- (closing_z index spol ppol phis ths ls lp ws wp pp Hls Hlp Hpp); exact Hz).
    assert (Hw : 0 < w_z index spol ppol phis ths ls lp ws wp pp) by nra.
    rewrite (closing_unit index spol ppol phis ths ls lp ws wp pp Hls Hlp (range_pi ths Hth') Hpp (Rgt_not_eq _ _ Hw)).
    destruct (defined_of_wz index spol ppol phis ths ls lp ws wp pp Hls Hlp (range_pi ths Hth') (Rgt_not_eq _ _ Hw)) as (_ & _ & Hv).
    unfold idler_old, beam_new; cbn [b_dir]. rewrite beam_new_direction_eq, (sig_theta spol phis ths ls ws (range_pi ths Hth')).
    unfold sigb at 1, beam_new; cbn [b_phi].
    rewrite (idler_azimuth_polar phis), polar_phi_pi.
    destruct (idler_theta_old_neg ths _ (cos_pos_of_range ths Hth') (proj2 Hth) Hv) as [-> ->].
    rewrite (sqrt_one_minus_val2 index spol ppol phis ths ls lp ws wp pp Hls Hlp (range_pi ths Hth') (Rgt_not_eq _ _ Hw)).
    rewrite (Rabs_right _ (Rgt_ge _ _ Hw)).
    unfold vx, vy, vz; cbn [fst snd]. vec_cmp; ring.
  Qed.

  (* hence it was not parallel to the closing vector whenever the signal index is non-zero *)
  Lemma C03_parallel_neg_all_old : n_s index spol phis ths ls ws <> 0 -> 0 < vz q -> vcross (b_dir idler_old) q <> vzero.
  Proof.
    intros Hn Hz. pose proof (old_idler_mirror Hz) as Hm.
    pose proof (Kq_pos ths ls Hls (range_pi ths Hth')) as HK.
    assert (Hz' : 0 < Kq ls * w_z index spol ppol phis ths ls lp ws wp pp)
      by (rewrite <- (closing_z index spol ppol phis ths ls lp ws wp pp Hls Hlp Hpp); exact Hz).
    assert (Hw : 0 < w_z index spol ppol phis ths ls lp ws wp pp) by nra.
    pose proof (closing_unit index spol ppol phis ths ls lp ws wp pp Hls Hlp (range_pi ths Hth') Hpp (Rgt_not_eq _ _ Hw)) as Hu.
    destruct (closing_nonzero index spol ppol phis ths ls lp ws wp pp Hlp Hls Hpp Hth' (Rgt_not_eq _ _ Hz)) as [Hn2 Hd].
    destruct Hd as (_ & Ha & _).
    set (qv := closing_vector index signal pump pp) in *.
    assert (Hnp : 0 < vnorm qv) by (apply sqrt_lt_R0; exact Hn2).
    assert (Hqq : qv = vscale (vnorm qv) (vscale (/ vnorm qv) qv)).
    { destruct qv as [[a b] c]. vec_cmp; field; lra. }
    set (qh := vscale (/ vnorm qv) qv) in *. set (nq := vnorm qv) in *. clearbody qh nq.
    intros Hc. rewrite Hm in Hc. rewrite Hqq in Hc. rewrite Hu in Hc.
    assert (Hx := f_equal vx Hc). assert (Hy := f_equal vy Hc).
    unfold vcross, vscale, vzero, vx, vy, vz in Hx, Hy; cbn [fst snd] in Hx, Hy.
    set (a := opt_arg index signal pump pp) in *.
    set (w := w_z index spol ppol phis ths ls lp ws wp pp) in *.
    assert (Hsa : 0 < sqrt a) by (apply sqrt_lt_R0; exact Ha).
    assert (Hwa : 0 < w / sqrt a) by (apply Rdiv_lt_0_compat; assumption).
    assert (Hv : opt_val index signal pump pp <> 0).
    { rewrite (opt_val_eq index spol ppol phis ths ls lp ws wp pp (range_pi ths Hth')). fold a. unfold u_t.
      assert (sin ths < 0) by (apply sin_lt_0_var; pose proof PI_RGT_0; lra).
      intros E. apply Rmult_integral in E. destruct E as [E|E].
      - apply Rmult_integral in E. destruct E; lra.
      - pose proof (Rinv_0_lt_compat _ Hsa). lra. }
    set (v := opt_val index signal pump pp) in *.
    set (t := w / sqrt a) in *. clearbody t.
    assert (Hnt : 0 < nq * t) by (apply Rmult_lt_0_compat; assumption).
    assert (Hsx : v * sin phis = 0).
    { apply Rmult_eq_reg_r with (2 * (nq * t)); [|lra]. rewrite Rmult_0_l, <- Hx. ring. }
    assert (Hcx : v * cos phis = 0).
    { apply Rmult_eq_reg_r with (- (2 * (nq * t))); [|lra]. rewrite Rmult_0_l, <- Hy. ring. }
    pose proof (sin2_cos2 phis) as H1. unfold Rsqr in H1.
    assert (v * v = 0) by (replace (v * v) with ((v * sin phis) * (v * sin phis) + (v * cos phis) * (v * cos phis)) by (rewrite <- (Rmult_1_r (v * v)), <- H1; ring); rewrite Hsx, Hcx; ring).
    apply Hv. nra.
  Qed.
End Old.

(* a concrete witness for the old formula: constant index 3/2, pump wavelength 1, signal wavelength 2, polar angle -1/10 *)
Lemma C03_parallel_neg_refuted_old :
  let index := fun (_ : R) (_ : vec) (_ : polarization) => 3 / 2 in
  0 < vz (closing_vector index (beam_new Ordinary 0 (- (1 / 10)) 2 (1, 1)) (pump_new Ordinary 1 (1, 1)) PPOff) /\
  vcross (b_dir (idler_old index Type2_e_eo Ordinary Ordinary 0 (- (1 / 10)) 2 1 (1, 1) (1, 1) PPOff))
         (closing_vector index (beam_new Ordinary 0 (- (1 / 10)) 2 (1, 1)) (pump_new Ordinary 1 (1, 1)) PPOff) <> vzero.
Proof.
  intros index.
  assert (Hth : - (PI / 2) < - (1 / 10) < 0) by (pose proof PI_RGT_0; pose proof PI2_3_2; unfold PI2 in *; lra).
  assert (Hr : - (1 / 10) <= - (1 / 10) <= 1 / 10) by lra.
  destruct (nonvacuous_at (- (1 / 10)) Hr) as (_ & Hz & _). split; [exact Hz|].
  apply (C03_parallel_neg_all_old index Type2_e_eo Ordinary Ordinary 0 (- (1 / 10)) 2 1 (1, 1) (1, 1) PPOff); try lra; try exact I; try exact Hz.
  unfold n_s, refractive_index, beam_refractive_index, index. lra.
Qed.
