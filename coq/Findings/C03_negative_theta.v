(* Finding F3 (C03): for a NEGATIVE signal polar angle try_new_optimum multiplies asin(val) — which already carries the sign
   of the angle — by signum(theta_s) again.  The idler's transverse direction then has the wrong sign: the idler is the mirror
   image of the momentum-closing direction, on the signal's side, and the property's momentum clause fails.
   These lemmas are about the faithful (translated) model; they are not part of any property's obligations. *)
From Coq Require Import Reals Lra Lia ZArith Bool.
From SpdVerif Require Import Base.Rx Base.Vec3 Gen.Idler Model.Idler Proofs.C03_base Proofs.C03_idler Proofs.C03_sign Proofs.C03_all.
Local Open Scope R_scope.

(* every negative angle fails: co-propagating setup, closing vector forward, non-zero signal index *)
Lemma C03_parallel_neg_all index pm spol ppol phis ths ls lp ws wp pp i :
  0 < lp -> 0 < ls -> pp_defined pp -> - (PI / 2) < ths < 0 ->
  n_s index spol phis ths ls ws <> 0 ->
  0 < vz (closing_vector index (sigb spol phis ths ls ws) (pumpb ppol lp wp) pp) ->
  optimum_idler index pm false (sigb spol phis ths ls ws) (pumpb ppol lp wp) pp = Some i ->
  vcross (b_dir i) (closing_vector index (sigb spol phis ths ls ws) (pumpb ppol lp wp) pp) <> vzero.
Proof.
  intros Hlp Hls Hpp Hth Hn Hz Hs.
  assert (Hth' : - (PI / 2) < ths < PI / 2) by (pose proof PI_RGT_0; lra).
  destruct (some_inv index pm spol ppol phis ths ls lp ws wp pp Hlp Hls false i Hs) as [Hlt ->].
  pose proof (idler_mirror_negative index pm spol ppol phis ths ls lp ws wp pp false Hls Hlp (range_pi ths Hth') Hpp
                (cos_pos_of_range ths Hth') eq_refl (proj2 Hth) Hz) as Hm.
  cbv zeta in Hm.
  pose proof (Kq_pos ths ls Hls (range_pi ths Hth')) as HK.
  assert (Hz' : 0 < Kq ls * w_z index spol ppol phis ths ls lp ws wp pp)
    by (rewrite <- (closing_z index spol ppol phis ths ls lp ws wp pp Hls Hlp Hpp); exact Hz).
  assert (Hw : 0 < w_z index spol ppol phis ths ls lp ws wp pp) by nra.
  pose proof (closing_unit index spol ppol phis ths ls lp ws wp pp Hls Hlp (range_pi ths Hth') Hpp (Rgt_not_eq _ _ Hw)) as Hu.
  destruct (closing_nonzero index spol ppol phis ths ls lp ws wp pp Hlp Hls Hpp Hth' (Rgt_not_eq _ _ Hz)) as [Hn2 Hd].
  destruct Hd as (_ & Ha & _).
  set (q := closing_vector index (sigb spol phis ths ls ws) (pumpb ppol lp wp) pp) in *.
  assert (Hnp : 0 < vnorm q) by (apply sqrt_lt_R0; exact Hn2).
  (* q = |q| qh *)
  assert (Hqq : q = vscale (vnorm q) (vscale (/ vnorm q) q)).
  { destruct q as [[a b] c]. vec_cmp; field; lra. }
  set (qh := vscale (/ vnorm q) q) in *.
  set (nq := vnorm q) in *.
  clearbody qh nq.
  intros Hc. rewrite Hm in Hc. rewrite Hqq in Hc. rewrite Hu in Hc.
  (* x and y components of the cross product: -2 |q| qh_y qh_z and 2 |q| qh_x qh_z *)
  assert (Hx := f_equal vx Hc). assert (Hy := f_equal vy Hc).
  unfold vcross, vscale, vzero, vx, vy, vz in Hx, Hy; cbn [fst snd] in Hx, Hy.
  set (a := opt_arg index (sigb spol phis ths ls ws) (pumpb ppol lp wp) pp) in *.
  set (w := w_z index spol ppol phis ths ls lp ws wp pp) in *.
  assert (Hsa : 0 < sqrt a) by (apply sqrt_lt_R0; exact Ha).
  assert (Hwa : 0 < w / sqrt a) by (apply Rdiv_lt_0_compat; assumption).
  assert (Hv : opt_val index (sigb spol phis ths ls ws) (pumpb ppol lp wp) pp <> 0).
  { rewrite (opt_val_eq index spol ppol phis ths ls lp ws wp pp (range_pi ths Hth')).
    fold a. unfold u_t.
    assert (sin ths < 0) by (apply sin_lt_0_var; pose proof PI_RGT_0; lra).
    intros E. apply Rmult_integral in E. destruct E as [E|E].
    - apply Rmult_integral in E. destruct E; lra.
    - pose proof (Rinv_0_lt_compat _ Hsa). lra. }
  set (v := opt_val index (sigb spol phis ths ls ws) (pumpb ppol lp wp) pp) in *.
  (* from Hx: v sin phi = 0; from Hy: v cos phi = 0 *)
  set (t := w / sqrt a) in *. clearbody t.
  assert (Hnt : 0 < nq * t) by (apply Rmult_lt_0_compat; assumption).
  assert (Hsx : v * sin phis = 0).
  { apply Rmult_eq_reg_r with (2 * (nq * t)); [|lra]. rewrite Rmult_0_l, <- Hx. ring. }
  assert (Hcx : v * cos phis = 0).
  { apply Rmult_eq_reg_r with (- (2 * (nq * t))); [|lra]. rewrite Rmult_0_l, <- Hy. ring. }
  pose proof (sin2_cos2 phis) as H1. unfold Rsqr in H1.
  assert (v * v = 0) by (replace (v * v) with ((v * sin phis) * (v * sin phis) + (v * cos phis) * (v * cos phis)) by (rewrite <- (Rmult_1_r (v * v)), <- H1; ring); rewrite Hsx, Hcx; ring).
  apply Hv. nra.
Qed.

(* a concrete witness: constant index 3/2, pump wavelength 1, signal wavelength 2 (any unit), signal polar angle -1/10, no poling.
   Known x := signal polar angle < 0. *)
Lemma C03_parallel_neg_refuted :
  exists (index : R -> vec -> polarization -> R) pm spol ppol phis ths ls lp ws wp pp i,
    (0 < lp < ls /\ pp_defined pp /\ - (PI / 2) < ths < PI / 2) /\
    ths < 0 /\
    0 < vz (closing_vector index (beam_new spol phis ths ls ws) (pump_new ppol lp wp) pp) /\
    optimum_idler index pm false (beam_new spol phis ths ls ws) (pump_new ppol lp wp) pp = Some i /\
    vcross (b_dir i) (closing_vector index (beam_new spol phis ths ls ws) (pump_new ppol lp wp) pp) <> vzero.
Proof.
  set (index := fun (_ : R) (_ : vec) (_ : polarization) => 3 / 2).
  assert (Hth : - (PI / 2) < - (1 / 10) < PI / 2) by (pose proof PI_RGT_0; pose proof PI2_3_2; unfold PI2 in *; lra).
  assert (Hz : 0 < vz (closing_vector index (sigb Ordinary 0 (- (1 / 10)) 2 (1, 1)) (pumpb Ordinary 1 (1, 1)) PPOff)).
  { rewrite (closing_z index Ordinary Ordinary 0 (- (1 / 10)) 2 1 (1, 1) (1, 1) PPOff ltac:(lra) ltac:(lra) I).
    apply Rmult_lt_0_compat; [apply (Kq_pos (- (1 / 10)) 2 ltac:(lra) (range_pi _ Hth))|].
    unfold w_z, n_p, n_s, kpp, refractive_index, beam_refractive_index, index, pp_k_pp. pose proof (COS_bound (- (1 / 10))). lra. }
  assert (Hs : optimum_idler index Type2_e_eo false (sigb Ordinary 0 (- (1 / 10)) 2 (1, 1)) (pumpb Ordinary 1 (1, 1)) PPOff =
               Some (idler_b index Type2_e_eo Ordinary Ordinary 0 (- (1 / 10)) 2 1 (1, 1) (1, 1) PPOff false)).
  { apply (optimum_idler_some index Type2_e_eo Ordinary Ordinary 0 (- (1 / 10)) 2 1 (1, 1) (1, 1) PPOff); lra. }
  assert (Hc : vcross (b_dir (idler_b index Type2_e_eo Ordinary Ordinary 0 (- (1 / 10)) 2 1 (1, 1) (1, 1) PPOff false))
                      (closing_vector index (sigb Ordinary 0 (- (1 / 10)) 2 (1, 1)) (pumpb Ordinary 1 (1, 1)) PPOff) <> vzero).
  { apply (C03_parallel_neg_all index Type2_e_eo Ordinary Ordinary 0 (- (1 / 10)) 2 1 (1, 1) (1, 1) PPOff); try lra; try exact I; try assumption.
    unfold n_s, refractive_index, beam_refractive_index, index. lra. }
  exists index, Type2_e_eo, Ordinary, Ordinary, 0, (- (1 / 10)), 2, 1, (1, 1), (1, 1), PPOff,
    (idler_b index Type2_e_eo Ordinary Ordinary 0 (- (1 / 10)) 2 1 (1, 1) (1, 1) PPOff false).
  split; [split; [lra | split; [exact I | exact Hth]]|].
  split; [lra|]. split; [exact Hz|]. split; [exact Hs | exact Hc].
Qed.

(* ---------------------------------------------------------------- the proposed patch: drop the second sign
   theta = if backward then PI - asin(val) else asin(val)   (asin already has the sign of the signal angle).
   With it the idler direction is the unit closing vector for EVERY signal polar angle in (-pi/2, pi/2). *)
Definition idler_theta_patched (cp : bool) (v : R) : R := if cp then PI - asin v else asin v.

Lemma C03_patch_closes_triangle index pm spol ppol phis ths ls lp ws wp pp :
  0 < lp -> 0 < ls -> pp_defined pp -> - (PI / 2) < ths < PI / 2 ->
  0 < vz (closing_vector index (sigb spol phis ths ls ws) (pumpb ppol lp wp) pp) ->
  b_dir (beam_new (idler_polarization pm) (idler_phi (b_phi (sigb spol phis ths ls ws)))
                  (idler_theta_patched false (opt_val index (sigb spol phis ths ls ws) (pumpb ppol lp wp) pp))
                  (idler_wavelength (b_lambda (sigb spol phis ths ls ws)) (b_lambda (pumpb ppol lp wp))) (b_waist (sigb spol phis ths ls ws)))
  = vscale (/ vnorm (closing_vector index (sigb spol phis ths ls ws) (pumpb ppol lp wp) pp))
           (closing_vector index (sigb spol phis ths ls ws) (pumpb ppol lp wp) pp).
Proof.
  intros Hlp Hls Hpp Hth Hz.
  pose proof (Kq_pos ths ls Hls (range_pi ths Hth)) as HK.
  assert (Hz' : 0 < Kq ls * w_z index spol ppol phis ths ls lp ws wp pp)
    by (rewrite <- (closing_z index spol ppol phis ths ls lp ws wp pp Hls Hlp Hpp); exact Hz).
  assert (Hw : 0 < w_z index spol ppol phis ths ls lp ws wp pp) by nra.
  rewrite (closing_unit index spol ppol phis ths ls lp ws wp pp Hls Hlp (range_pi ths Hth) Hpp (Rgt_not_eq _ _ Hw)).
  destruct (defined_of_wz index spol ppol phis ths ls lp ws wp pp Hls Hlp (range_pi ths Hth) (Rgt_not_eq _ _ Hw)) as (_ & Ha & Hv).
  unfold beam_new at 1; cbn [b_dir]. rewrite beam_new_direction_eq.
  assert (Hphi : forall t, polar (idler_phi (b_phi (sigb spol phis ths ls ws))) t = polar (phis + PI) t).
  { intros t. unfold sigb, beam_new; cbn [b_phi]. change beam_new_phi with normalize_angle. rewrite idler_phi_eq.
    destruct (normalize_angle_congr (normalize_angle phis + PI)) as [k1 H1]. rewrite H1.
    destruct (normalize_angle_congr phis) as [k2 H2]. rewrite H2.
    replace (phis + 2 * IZR k2 * PI + PI + 2 * IZR k1 * PI) with (phis + PI + 2 * IZR (k1 + k2) * PI) by (rewrite plus_IZR; ring).
    replace t with (t + 2 * IZR 0 * PI) at 1 by ring. apply polar_period. }
  rewrite Hphi, polar_phi_pi. unfold idler_theta_patched.
  rewrite sin_asin, cos_asin by exact Hv.
  rewrite (sqrt_one_minus_val2 index spol ppol phis ths ls lp ws wp pp Hls Hlp (range_pi ths Hth) (Rgt_not_eq _ _ Hw)).
  rewrite (Rabs_right _ (Rgt_ge _ _ Hw)).
  vec_cmp; ring.
Qed.
