(* C12 finding F5e on the faithful (translated) model: adaptive Simpson accepts at the first level whenever the five
   equispaced samples a, (3a+b)/4, (a+b)/2, (a+3b)/4, b happen to agree with a cubic — e.g. exp(ikx) over exactly four periods,
   where all five samples are 1.  It then returns (b - a) instead of 0 after 5 evaluations, for EVERY tolerance > 0 and every
   depth >= 1.  Witness: int_0^{2 pi} exp(4 i x) dx = 0, returned value 2 pi.
   (The property asks smooth oscillatory integrands to be integrated within the requested tolerance.) *)
From Coq Require Import Reals QArith ZArith List Bool Lra Lia.
From Coquelicot Require Import Coquelicot.
From SpdVerif Require Import Base.NumOps Gen.Integration Model.Quadrature Proofs.C12_base Proofs.C12_adaptive Proofs.C12_expi.
Import ListNotations.
Local Open Scope R_scope.

Lemma expi4_at : forall j : nat, expi 4 (INR j * (PI / 2)) = (1, 0).
Proof.
  intros j. unfold expi. replace (4 * (INR j * (PI / 2))) with (0 + 2 * INR j * PI) by field.
  rewrite cos_period, sin_period, cos_0, sin_0. reflexivity.
Qed.

Lemma S3_ones : forall (f : R -> C) (a b : R), a <= b -> f a = (1, 0) -> f ((a + b) / 2) = (1, 0) -> f b = (1, 0) ->
  S3 f a b = (b - a, 0).
Proof.
  intros f a b Hab Ha Hm Hb. apply pair_eq.
  - rewrite S3_fst by exact Hab. rewrite Ha, Hm, Hb. cbn [fst]. field.
  - rewrite S3_snd by exact Hab. rewrite Ha, Hm, Hb. cbn [snd]. field.
Qed.

Lemma pi_pos2 : 0 < PI. Proof. exact PI_RGT_0. Qed.

Lemma samples : expi 4 0 = (1, 0) /\ expi 4 (PI / 2) = (1, 0) /\ expi 4 PI = (1, 0) /\ expi 4 (3 * PI / 2) = (1, 0) /\ expi 4 (2 * PI) = (1, 0).
Proof.
  pose proof (expi4_at 0) as H0. pose proof (expi4_at 1) as H1. pose proof (expi4_at 2) as H2.
  pose proof (expi4_at 3) as H3. pose proof (expi4_at 4) as H4.
  cbn [INR] in *.
  replace (0 * (PI / 2)) with 0 in H0 by field. replace (1 * (PI / 2)) with (PI / 2) in H1 by field.
  replace ((1 + 1) * (PI / 2)) with PI in H2 by field. replace ((1 + 1 + 1) * (PI / 2)) with (3 * PI / 2) in H3 by field.
  replace ((1 + 1 + 1 + 1) * (PI / 2)) with (2 * PI) in H4 by field.
  repeat split; assumption.
Qed.

(* what the translated algorithm returns *)
Lemma adaptive_alias_value : forall (eps : R) d, 0 < eps ->
  simpson_adaptive Rops (expi 4) 0 (2 * PI) eps (S d) = (2 * PI, 0).
Proof.
  intros eps d He. pose proof pi_pos2 as Hpi. destruct samples as [E0 [E1 [E2 [E3 E4]]]].
  rewrite simpson_adaptive_asr, asr_S.
  assert (Hstop : stop eps 0 (2 * PI) = false).
  { unfold stop, Rbool_eq, Rbool_lt, f64_eps. destruct (Req_EM_T (eps / 2) eps) as [E|_]; [exfalso; lra|].
    destruct (Rlt_dec _ _) as [L|_]; [|reflexivity]. exfalso. rewrite Rabs_right in L by lra.
    assert (Q2R (1 # 4503599627370496) < 1) by (unfold Q2R; cbn [Qnum Qden]; lra). pose proof PI2_3_2. lra. }
  rewrite Hstop.
  replace ((0 + 2 * PI) / 2) with PI by field.
  assert (W : S3 (expi 4) 0 (2 * PI) = (2 * PI, 0)).
  { rewrite S3_ones; try assumption; [f_equal; ring | lra | replace ((0 + 2 * PI) / 2) with PI by field; exact E2]. }
  assert (L : S3 (expi 4) 0 PI = (PI, 0)).
  { rewrite S3_ones; try assumption; [f_equal; ring | lra | replace ((0 + PI) / 2) with (PI / 2) by field; exact E1]. }
  assert (Rr : S3 (expi 4) PI (2 * PI) = (PI, 0)).
  { rewrite S3_ones; try assumption; [f_equal; ring | lra | replace ((PI + 2 * PI) / 2) with (3 * PI / 2) by field; exact E3]. }
  assert (D : delta (expi 4) 0 (2 * PI) = (0, 0)).
  { unfold delta. replace ((0 + 2 * PI) / 2) with PI by field. rewrite W, L, Rr. cbv [vsub vadd Rops fst snd]. f_equal; ring. }
  unfold accept. rewrite D. change (0, 0) with (RtoC 0). rewrite Cmod_0.
  unfold Rbool_le. destruct (Rle_dec 0 (15 * eps)) as [_|N]; [|lra].
  unfold richardson. rewrite D. replace ((0 + 2 * PI) / 2) with PI by field. rewrite L, Rr.
  cbv [vadd vdiv Rops fst snd]. f_equal; field.
Qed.

(* the true integral is 0 *)
Lemma expi4_integral : expi_int 4 0 (2 * PI) = (0, 0).
Proof.
  unfold expi_int. replace (4 * (2 * PI)) with (0 + 2 * INR 4 * PI) by (cbn [INR]; field).
  rewrite cos_period, sin_period. replace (4 * 0) with 0 by ring. f_equal; field.
Qed.

(* "smooth oscillatory integrands within the requested tolerance" fails for the adaptive method *)
Lemma C12_adaptive_tolerance_refuted :
  ~ (forall (k a b eps : R) d, k <> 0 -> a <= b -> 0 < eps ->
       Cmod (Cminus (simpson_adaptive Rops (expi k) a b eps (S d)) (expi_int k a b)) <= eps).
Proof.
  intros H. pose proof pi_pos2 as Hpi. assert (3 < PI) by (pose proof PI2_3_2; lra).
  specialize (H 4 0 (2 * PI) (1 / 1000) 39%nat ltac:(lra) ltac:(lra) ltac:(lra)).
  rewrite adaptive_alias_value in H by lra. rewrite expi4_integral in H.
  replace (Cminus (2 * PI, 0) (0, 0)) with (RtoC (2 * PI)) in H by (cbv [Cminus Cplus Copp RtoC fst snd]; f_equal; ring).
  rewrite Cmod_R, Rabs_right in H by lra. lra.
Qed.
