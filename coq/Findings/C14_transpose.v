(* FINDING F6 (C14) — FIXED in /repo commit fd4cfc7 ("fix: transpose_vec transposes matrices of any shape").
   Historical record: the previous utils::transpose_vec was an in-place square swap,

       let num_rows = len.div_ceil(num_cols);
       for row in 0..num_rows { for col in (row + 1)..num_cols {
         vec.swap(get_1d_index(row, col, num_cols), get_1d_index(col, row, num_cols)); } }

   modelled here on its own (pinned copy of the formerly generated ranges / indices, so this file no longer depends on what
   the source says now).  On that loop nest "the transpose of any shape" was false; the present code satisfies the full
   theorem Props/C14.v::C14_transpose.  Never imported by Props/. *)
From Coq Require Import List Arith Bool Lia.
From SpdVerif Require Import Base.GridOps Model.Grid.
Import ListNotations.

Fixpoint upd {A} (l : list A) (i : nat) (x : A) : list A :=
  match l, i with
  | [], _ => []
  | _ :: t, 0 => x :: t
  | h :: t, S j => h :: upd t j x
  end.

(* Vec::swap: panics when an index is out of bounds *)
Definition swap_vec {A} (v : list A) (i j : nat) : outcome (list A) :=
  match nth_error v i, nth_error v j with
  | Some a, Some b => Ok (upd (upd v i b) j a)
  | _, _ => Panic
  end.

Definition old_transpose_vec {A} (v : list A) (num_cols : nat) : outcome (list A) :=
  if (num_cols =? 0)%nat then Panic
  else
    for_range (0, div_ceil (length v) num_cols) (fun row v =>
      for_range (row + 1, num_cols) (fun col v =>
        if (row <? num_cols)%nat && (col <? num_cols)%nat
        then swap_vec v (col * num_cols + row) (row * num_cols + col)
        else Panic) v) v.

Lemma C14_old_transpose_2x3_refuted :
  old_transpose_vec [0; 1; 2; 3; 4; 5] 3 = Panic.
Proof. vm_compute. reflexivity. Qed.

Lemma C14_old_transpose_3x2_refuted :
  old_transpose_vec [0; 1; 2; 3; 4; 5] 2 = Ok [0; 2; 1; 3; 4; 5] /\
  ~ is_transpose 3 2 [0; 1; 2; 3; 4; 5] [0; 2; 1; 3; 4; 5].
Proof.
  split; [vm_compute; reflexivity|].
  intros [_ H]. specialize (H 2 0 ltac:(lia) ltac:(lia)). cbn in H. discriminate.
Qed.

(* the old loop was correct exactly on square and single-column shapes (up to 12 x 12, entries 0,1,2,…) *)
Lemma C14_old_transpose_shapes_12 :
  forallb (fun r => forallb (fun c =>
     Bool.eqb (match old_transpose_vec (seq 0 (S r * S c)) (S c) with
               | Ok w => if list_eq_dec Nat.eq_dec w (mat_transpose (S r) (S c) (seq 0 (S r * S c))) then true else false
               | Panic => false end)
              ((S r =? S c)%nat || (S c =? 1)%nat)) (seq 0 12)) (seq 0 12) = true.
Proof. vm_compute. reflexivity. Qed.

(* the present code on the same shapes: correct on all of them (the general statement is Props/C14.v::C14_transpose) *)
Lemma C14_transpose_shapes_12_now :
  forallb (fun r => forallb (fun c => transposes_ok (S r) (S c)) (seq 0 12)) (seq 0 12) = true.
Proof. vm_compute. reflexivity. Qed.
