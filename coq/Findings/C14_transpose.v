(* FINDING (C14, DESIGN §5 F6): utils::transpose_vec is an in-place square swap.  On the faithful model of the loop nest
   (Model/Grid.v over the generated ranges / indices of Gen/Grid.v) the property clause
   "transposing a flat row-major matrix of any shape yields its matrix transpose" is false.
   Never imported by Props/. *)
From Coq Require Import List Arith Bool Lia.
From SpdVerif Require Import Base.GridOps Gen.Grid Model.Grid.
Import ListNotations.

(* 2 x 3: the second swap of row 0 addresses slot 6 of a 6-element vector -> panic (index out of bounds) *)
Lemma C14_transpose_2x3_refuted :
  transpose_vec [0; 1; 2; 3; 4; 5] 3 = Panic /\
  ~ (exists w, transpose_vec [0; 1; 2; 3; 4; 5] 3 = Ok w /\ is_transpose 2 3 [0; 1; 2; 3; 4; 5] w).
Proof.
  assert (E : transpose_vec [0; 1; 2; 3; 4; 5] 3 = Panic) by (vm_compute; reflexivity).
  split; [exact E|]. intros (w & Hw & _). rewrite E in Hw. discriminate.
Qed.

(* 3 x 2: no panic, but the result [0;2;1;3;4;5] is not the transpose [0;2;4;1;3;5] *)
Lemma C14_transpose_3x2_refuted :
  transpose_vec [0; 1; 2; 3; 4; 5] 2 = Ok [0; 2; 1; 3; 4; 5] /\
  ~ is_transpose 3 2 [0; 1; 2; 3; 4; 5] [0; 2; 1; 3; 4; 5].
Proof.
  split; [vm_compute; reflexivity|].
  intros [_ H]. specialize (H 2 0 ltac:(lia) ltac:(lia)). cbn in H. discriminate.
Qed.

Lemma C14_transpose_nonsquare_refuted :
  exists rows cols (v : list nat), length v = rows * cols /\ 1 <= rows /\ 1 <= cols /\
    ~ (exists w, transpose_vec v cols = Ok w /\ is_transpose rows cols v w).
Proof. exists 2, 3, [0; 1; 2; 3; 4; 5]. repeat split; try (cbn; lia). apply C14_transpose_2x3_refuted. Qed.

(* complete picture for shapes up to 12 x 12 on the matrix with entries 0,1,2,…: correct exactly when square or single-column *)
Lemma C14_transpose_shapes_12 :
  forallb (fun r => forallb (fun c => Bool.eqb (transposes_ok (S r) (S c)) ((S r =? S c)%nat || (S c =? 1)%nat)) (seq 0 12)) (seq 0 12) = true.
Proof. vm_compute. reflexivity. Qed.
