(* C12 finding F5c on the faithful (translated) model: adaptive Simpson uses |b - a| in every panel, so the result is
   symmetric in the endpoints; reversing the interval does not negate it.  Witness: int_1^0 x dx. *)
From Coq Require Import Reals QArith ZArith List Bool Lra Lia.
From Coquelicot Require Import Coquelicot.
From SpdVerif Require Import Base.NumOps Gen.Integration Model.Quadrature Proofs.C12_base Proofs.C12_adaptive.
Import ListNotations.
Local Open Scope R_scope.

Definition ident : list C := [(0, 0); (1, 0)].      (* the polynomial x *)

Lemma adaptive_x_01 : forall eps d, simpson_adaptive Rops (cpeval Rops ident) 0 1 eps d = (1 / 2, 0).
Proof.
  intros eps d. rewrite simpson_adaptive_cubic_exact by (cbn; lra || lia).
  unfold cpint, cprim, ident. cbn [cprim_from cpeval]. unfold vzero.
  cbn [vmk vadd vsub vscale vdiv Rops fst snd s_of_Z Z.add Pos.add]. f_equal; field.
Qed.

Lemma adaptive_x_10 : forall eps d, simpson_adaptive Rops (cpeval Rops ident) 1 0 eps d = (1 / 2, 0).
Proof. intros. rewrite simpson_adaptive_symmetric. apply adaptive_x_01. Qed.

(* the property's reversal clause, instantiated at the adaptive method, is false *)
Lemma C12_adaptive_reverse_refuted :
  ~ (forall (f : R -> C) (a b eps : R) d, simpson_adaptive Rops f b a eps d = Copp (simpson_adaptive Rops f a b eps d)).
Proof.
  intros H. specialize (H (cpeval Rops ident) 0 1 (1 / 100000000) 20%nat).
  rewrite adaptive_x_10, adaptive_x_01 in H. unfold Copp in H. cbn [fst snd] in H.
  injection H as H1 _. lra.
Qed.
