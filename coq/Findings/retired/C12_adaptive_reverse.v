(* RETIRED — historical record, not compiled (tools/mkproject.py does not descend into Findings/retired/).
   F5c (adaptive Simpson symmetric in its endpoints): repaired in /repo by 09f84fe.
   The lemmas below were kernel-checked against the translated model of the tree BEFORE those commits (pinned commit 6c216c0);
   on the repaired tree the full-strength statements are theorems of Props/C12.v (C12_accept_1d_2d, C12_accept_from4,
   C12_adaptive_reverse, C12_adaptive_2d_reverse). *)
(* C12 finding F5c on the faithful (translated) model: quad_simpsons_mem scales every panel by |b - a|, so adaptive Simpson
   is SYMMETRIC in its endpoints for every integrand; reversing the interval does not negate the result.
   Witness: int_1^0 x dx = +1/2.  If this file stops compiling because the defect was repaired, the check only notes it. *)
From Coq Require Import Reals QArith ZArith List Bool Lra Lia.
From Coquelicot Require Import Coquelicot.
From SpdVerif Require Import Base.NumOps Gen.Integration Model.Quadrature Proofs.C12_base Proofs.C12_adaptive.
Import ListNotations.
Local Open Scope R_scope.

(* ------------------------------------------------------------------ symmetry in the endpoints *)
Lemma vadd_comm : forall u v : C, vadd Rops u v = vadd Rops v u.
Proof. intros [a b] [c d]. cbn [vadd Rops fst snd]. f_equal; ring. Qed.

Lemma S3_sym : forall (f : R -> C) (a b : R), S3 f b a = S3 f a b.
Proof.
  intros f a b. unfold S3, quad_simpsons_mem. cbv zeta. cbn [fst snd sdiv sadd ssub sabs s_of_Z Rops].
  rewrite (Rabs_minus_sym a b). replace ((b + a) / 2) with ((a + b) / 2) by field.
  destruct (f a) as [x y], (f b) as [u v], (f ((a + b) / 2)) as [s t]. cbn [vscale vadd Rops fst snd]. f_equal; ring.
Qed.

Lemma stop_sym : forall eps a b, stop eps b a = stop eps a b.
Proof. exact stop_swap. Qed.

(* the hypothesis of simpson_adaptive_reverse_if_panel_antisymmetric fails on the pinned tree *)
Lemma panel_antisymmetric_refuted : ~ (forall (f : R -> C) (a b : R), S3 f b a = Copp (S3 f a b)).
Proof.
  intros H. specialize (H (fun _ => (1, 0)) 0 1). rewrite S3_sym in H.
  assert (E : fst (S3 (fun _ : R => (1, 0)) 0 1) = 1) by (rewrite S3_fst by lra; cbn [fst]; field).
  rewrite H in E at 1. unfold Copp in E. cbn [fst] in E.
  assert (E2 : fst (S3 (fun _ : R => (1, 0)) 0 1) = 1) by (rewrite S3_fst by lra; cbn [fst]; field).
  lra.
Qed.

Lemma delta_sym : forall f a b, delta f b a = delta f a b.
Proof.
  intros. unfold delta. replace ((b + a) / 2) with ((a + b) / 2) by field.
  rewrite (S3_sym f a b), (S3_sym f ((a + b) / 2) b), (S3_sym f a ((a + b) / 2)).
  rewrite (vadd_comm (S3 f ((a + b) / 2) b)). reflexivity.
Qed.

Theorem asr_sym : forall (f : R -> C) d (a b eps : R), asr f b a eps d = asr f a b eps d.
Proof.
  intros f. induction d as [|d IH]; intros a b eps.
  - rewrite !asr_0. apply S3_sym.
  - rewrite !asr_S. rewrite stop_sym, S3_sym. destruct (stop eps a b); [reflexivity|].
    unfold accept, richardson. rewrite delta_sym. replace ((b + a) / 2) with ((a + b) / 2) by field.
    rewrite (S3_sym f ((a + b) / 2) b), (S3_sym f a ((a + b) / 2)).
    rewrite (vadd_comm (S3 f ((a + b) / 2) b)).
    destruct (Rbool_le _ _); [reflexivity|].
    rewrite (IH ((a + b) / 2) b), (IH a ((a + b) / 2)). apply vadd_comm.
Qed.

Theorem simpson_adaptive_symmetric : forall (f : R -> C) (a b eps : R) d,
  simpson_adaptive Rops f b a eps d = simpson_adaptive Rops f a b eps d.
Proof. intros. rewrite !simpson_adaptive_asr. apply asr_sym. Qed.

(* what reversal does give for a > b on cubics: the integral over the re-oriented interval, not its negative *)
Corollary simpson_adaptive_cubic_reversed : forall cs (a b eps : R) d, a <= b -> (length cs <= 4)%nat ->
  simpson_adaptive Rops (cpeval Rops cs) b a eps d = cpint Rops cs a b.
Proof. intros. rewrite simpson_adaptive_symmetric. apply simpson_adaptive_cubic_exact; assumption. Qed.


Definition ident : list C := [(0, 0); (1, 0)].      (* the polynomial x *)

Lemma adaptive_x_01 : forall eps d, simpson_adaptive Rops (cpeval Rops ident) 0 1 eps d = (1 / 2, 0).
Proof.
  intros eps d. rewrite simpson_adaptive_cubic_exact by (cbn; lra || lia).
  unfold cpint, cprim, ident. cbn [cprim_from cpeval]. unfold vzero.
  cbn [vmk vadd vsub vscale vdiv Rops fst snd s_of_Z Z.add Pos.add]. f_equal; field.
Qed.

Lemma adaptive_x_10 : forall eps d, simpson_adaptive Rops (cpeval Rops ident) 1 0 eps d = (1 / 2, 0).
Proof. intros. rewrite simpson_adaptive_symmetric. apply adaptive_x_01. Qed.

(* the property's reversal clause, instantiated at the adaptive method, is false *)
Lemma C12_adaptive_reverse_refuted :
  ~ (forall (f : R -> C) (a b eps : R) d, simpson_adaptive Rops f b a eps d = Copp (simpson_adaptive Rops f a b eps d)).
Proof.
  intros H. specialize (H (cpeval Rops ident) 0 1 (1 / 100000000) 20%nat).
  rewrite adaptive_x_10, adaptive_x_01 in H. unfold Copp in H. cbn [fst snd] in H.
  injection H as H1 _. lra.
Qed.

(* AFTER THE REPAIR (quad_simpsons_mem: `(b - a) / 6.0` instead of `(b - a).abs() / 6.0`) this file no longer compiles and
   the reversal clause becomes a theorem; checked against a patched copy of the source:

     Lemma S3_antisym : forall (f : R -> C) (a b : R), S3 f b a = Copp (S3 f a b).
     Proof.
       intros f a b. unfold S3, quad_simpsons_mem. cbv zeta. cbn [fst snd sdiv sadd ssub sabs s_of_Z Rops].
       replace ((b + a) / 2) with ((a + b) / 2) by field.
       destruct (f a) as [x y], (f b) as [u v], (f ((a + b) / 2)) as [s t]. cbv [Copp vscale vadd Rops fst snd]. f_equal; field.
     Qed.
     Theorem C12_adaptive_reverse : forall (f : R -> C) (a b eps : R) d,
       simpson_adaptive Rops f b a eps d = Copp (simpson_adaptive Rops f a b eps d).
     Proof. exact (simpson_adaptive_reverse_if_panel_antisymmetric S3_antisym). Qed.                                   *)
