(* RETIRED — historical record, not compiled (tools/mkproject.py does not descend into Findings/retired/).
   F5a (2-D Simpson rejected odd divs) and F5b (1-D rejected divs = 4): repaired in /repo by 8ae06cd and bbbb24e.
   The lemmas below were kernel-checked against the translated model of the tree BEFORE those commits (pinned commit 6c216c0);
   on the repaired tree the full-strength statements are theorems of Props/C12.v (C12_accept_1d_2d, C12_accept_from4,
   C12_adaptive_reverse, C12_adaptive_2d_reverse). *)
(* C12 findings F5a / F5b on the faithful (translated) model: which `divs` the two Simpson entry points accept.
   If this file stops compiling because the defects were repaired, the check only notes it. *)
From Coq Require Import ZArith Bool Lia.
From SpdVerif Require Import Base.NumOps Gen.Integration Model.Quadrature Proofs.C12_base Proofs.C12_simpson Proofs.C12_simpson2d.
Local Open Scope Z_scope.

(* exact characterisations on the pinned tree *)
Lemma simpson_accepts_iff : forall d, simpson_accepts d = true <-> 5 <= d.
Proof.
  intros d. split; [|apply simpson_accepts_from5].
  intros H. unfold simpson_accepts in H. cbv zeta in H. bool_facts. zmod_lia.
Qed.

Lemma simpson2d_accepts_iff : forall d, simpson2d_accepts d = true <-> (Z.even d = true /\ 4 <= d).
Proof. intros d. unfold simpson2d_accepts. rewrite !andb_true_iff, Z.leb_le. tauto. Qed.

(* F5a: 1-D accepts divs = 5 (5 + 1 - 2 = 4 divisions), 2-D asserts divs.is_even() *)
Lemma C12_accept_1d_implies_2d_refuted :
  ~ (forall d, simpson_accepts d = true -> simpson2d_accepts d = true).
Proof. intros H. specialize (H 5 eq_refl). discriminate H. Qed.

(* ... and so does every odd divs >= 5 *)
Lemma C12_accept_odd_refuted : forall d, 5 <= d -> Z.odd d = true ->
  simpson_accepts d = true /\ simpson2d_accepts d = false.
Proof.
  intros d Hd Ho. split; [apply simpson_accepts_from5; exact Hd|].
  unfold simpson2d_accepts. rewrite <- Z.negb_odd, Ho. reflexivity.
Qed.

(* F5b: the property quantifies over divisions 4..400, but the 1-D entry point rejects divs = 4
   (4 + 4 % 2 - 2 = 2 < 4, "Steps too low") while the 2-D one accepts it *)
Lemma C12_accept_1d_range_refuted :
  ~ (forall d, 4 <= d <= 400 -> simpson_accepts d = true).
Proof. intros H. specialize (H 4 ltac:(lia)). discriminate H. Qed.

Lemma C12_accept_divs4 : simpson_accepts 4 = false /\ simpson2d_accepts 4 = true.
Proof. split; reflexivity. Qed.
