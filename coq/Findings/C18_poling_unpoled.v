(* FINDING (C18): on a base setup WITHOUT periodic poling — e.g. SPDC::default(), the base of the crate's own SPDCIter doc example —
   the path "periodic_poling.poling_period_um" changes nothing: SPDC::assign_poling_period calls PeriodicPoling::assign_period, which
   only acts on PeriodicPoling::On.  The swept configuration therefore never shows the requested period.  Not imported by Props/. *)
From Coq Require Import Reals Lra List String.
From SpdVerif Require Import Base.Rx Base.PolingBase Gen.Poling Gen.Sweep Spec.SweepPaths Model.Sweep Proofs.C18_table Proofs.C18_frame.
Import ListNotations.
Local Open Scope R_scope.

Section Refuted.
Variable snell_internal : beam -> R -> crystal_setup -> R.
Variable compute_sign : beam -> beam -> crystal_setup -> sign.

(* the reference behaviour shows the requested period; the code leaves the base untouched *)
Lemma C18_poling_period_unpoled_refuted :
  exists f, get_setter snell_internal compute_sign "periodic_poling.poling_period_um" = Some f /\
    forall s v, s_pp s = Off -> v <> 0 ->
      f s v = s /\ config_poling (f s v) = None /\
      config_poling (ideal_set snell_internal compute_sign SPolingPeriod (si_of UUm v) s) = Some (round4 (Rabs v), CfgOff) /\
      f s v <> ideal_set snell_internal compute_sign SPolingPeriod (si_of UUm v) s.
Proof.
  eexists. split; [reflexivity|]. intros s v Hoff Hv.
  assert (E : set_periodic_poling_poling_period_um compute_sign s v = s).
  { destruct s as [sgn idl pm cr pp pw bw th swp iwp df]. cbn [s_pp] in Hoff. subst pp. reflexivity. }
  rewrite E. pose proof (poling_value_unpoled snell_internal compute_sign s v Hoff Hv) as Hid.
  split; [reflexivity|]. split; [unfold config_poling; now rewrite Hoff|]. split; [exact Hid|].
  intros Heq. rewrite <- Heq in Hid. unfold config_poling in Hid. rewrite Hoff in Hid. discriminate.
Qed.
End Refuted.
