(* FINDING (C18): on a base setup WITHOUT periodic poling — e.g. SPDC::default(), the base of the crate's own SPDCIter doc example —
   the path "periodic_poling.poling_period_um" changes nothing: SPDC::assign_poling_period calls PeriodicPoling::assign_period, which
   only acts on PeriodicPoling::On.  The swept configuration therefore never shows the requested period.  Not imported by Props/. *)
From Coq Require Import Reals Lra List String.
From SpdVerif Require Import Base.Rx Base.PolingBase Gen.Poling Gen.Sweep Spec.SweepPaths Model.Sweep Proofs.C18_table Proofs.C18_frame.
Import ListNotations.
Local Open Scope R_scope.

Section Refuted.
Variable snell_internal : beam -> R -> crystal_setup -> R.
Variable compute_sign : beam -> beam -> crystal_setup -> sign.

Lemma C18_poling_period_unpoled_refuted :
  exists f, get_setter snell_internal compute_sign "periodic_poling.poling_period_um" = Some f /\
    forall s v, s_pp s = Off -> f s v = s /\ config_poling (f s v) = None.
Proof.
  assert (Hin : In ("periodic_poling.poling_period_um"%string, (SPolingPeriod, UUm)) spec_table) by (cbn; tauto).
  destruct (setters_match snell_internal compute_sign _ _ _ Hin ltac:(discriminate)) as [f [Hf E]].
  exists f. split; [exact Hf|]. intros s v Hoff. rewrite E, (poling_off_noop _ _ _ _ Hoff).
  split; [reflexivity|]. unfold config_poling. now rewrite Hoff.
Qed.
End Refuted.
