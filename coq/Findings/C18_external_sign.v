(* FINDING (C18): `signal.theta_external_deg` / `idler.theta_external_deg` lose the sign of the requested angle.
   Beam::set_theta_external calls calc_internal_theta_from_external(self, external.abs(), …), so the setter cannot distinguish v from -v:
   a request of -3 deg stores the internal angle of +3 deg (on the unchanged /repo: +1.8064 deg instead of -1.8064 deg for the default
   KTP setup), and the external angle read back through Snell is +3 deg.  The property asks for the Snell-equivalent internal angle
   of the requested value.  Not imported by Props/. *)
From Coq Require Import Reals Lra List String.
From SpdVerif Require Import Base.Rx Base.PolingBase Gen.Poling Gen.Sweep Spec.SweepPaths Model.Sweep Proofs.C18_angles Proofs.C18_table.
Import ListNotations.
Local Open Scope R_scope.

Section Refuted.
Variable snell_internal : beam -> R -> crystal_setup -> R.
Variable compute_sign : beam -> beam -> crystal_setup -> sign.

(* whatever the Snell kernel does: the generated setter gives the same setup for v and for -v *)
Lemma C18_external_sign_refuted : forall p b, In (p, (SBeamThetaExternal b, UDeg)) spec_table ->
  exists f, get_setter snell_internal compute_sign p = Some f /\ forall s v, f s (- v) = f s v.
Proof.
  intros p b Hin. destruct (setters_match snell_internal compute_sign p _ _ Hin) as [f [Hf E]].
  exists f. split; [exact Hf|]. intros s v. rewrite !E. cbn [si_of ideal_set].
  replace (- v * (PI / 180)) with (- (v * (PI / 180))) by ring. now rewrite Rabs_Ropp.
Qed.

(* hence, for any kernel that is injective enough to tell 3 deg from -3 deg, one of the two requests is stored wrongly: if the stored
   angle for +v is th (as C18_external_angle_partial states), the stored angle for -v is th as well, not the Snell-equivalent of -v *)
Corollary C18_external_sign_same_angle : forall p b, In (p, (SBeamThetaExternal b, UDeg)) spec_table ->
  exists f, get_setter snell_internal compute_sign p = Some f /\
    forall s v, b_theta (get_beam b (f s (- v))) = b_theta (get_beam b (f s v)).
Proof.
  intros p b Hin. destruct (C18_external_sign_refuted p b Hin) as [f [Hf E]].
  exists f. split; [exact Hf|]. intros s v. now rewrite E.
Qed.
End Refuted.
