(* HISTORICAL RECORD — finding F17 (C18), FIXED in /repo 6fcae16.
   Before the fix `Beam::set_theta_external` called `calc_internal_theta_from_external(self, external.abs(), …)`, so the generated
   setters for `signal.theta_external_deg` / `idler.theta_external_deg` satisfied `f s (- v) = f s v` for every Snell kernel
   (lemma C18_external_sign_refuted, proved here against the model generated from that source): a request of -3 deg stored the internal
   angle of +3 deg (+1.7295 deg instead of -1.7295 deg on the default KTP setup; read back through Snell: +3 deg).
   The repaired code passes the signed angle to the Snell search, which solves for the magnitude on the side sign(v) of the azimuth
   plane and restores the sign; Props/C18.v::C18_external_angle_partial now states the clause for both signs, and the oracle samples
   negative values (-3 deg reads back -3 deg).  Nothing is proved in this file any more. *)
