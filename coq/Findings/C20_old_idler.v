(* HISTORICAL RECORD: finding F13 (C20) on the model of the tree BEFORE /repo commit c28dd13, i.e. with the source-derived
   flag old_idler pinned to its old value true.  NOT imported by Props/; no check depends on this file.
   SPDC::try_as_optimum computes the idler waist position from `self.idler` -- the OLD idler -- although it replaces the idler by
   the optimum one in the same struct expression (src/spdc/spdc_obj.rs, try_as_optimum: `idler_waist_position:
   self.crystal_setup.optimal_waist_position(self.idler.vacuum_wavelength(), self.idler.polarization())`).
   For a setup whose idler is not already the energy-conserving one (explicit idler of another wavelength, or a sweep
   over idler.wavelength_nm) the result is therefore NOT a fixed point: optimising again moves the idler waist position.
   Witness at the executable (Q) instance; the oracles are constants except the waist position, which is -wavelength
   (any map that depends on the wavelength will do), so every "collinear" contract holds trivially. *)
From Coq Require Import String List Bool ZArith QArith.
From SpdVerif Require Import Base.CfgNumOps Spec.ConfigSpec Gen.ConfigTables Gen.ConfigSites Model.ConfigTypes Model.Config Model.NumInst.
Import ListNotations.
Local Open Scope Q_scope.

Definition K_w : oracles Q := {|
  o_snell_inv := fun _ _ _ => Some 0; o_snell_ext := fun _ _ => Some 0; o_nm_theta := fun _ _ _ _ => Some (1 # 2);
  o_dkz0 := fun _ _ _ => 1; o_nm_period := fun _ _ _ => Some (1 # 100000);
  o_idler_theta := fun _ _ _ _ => Some 0; o_waist_pos := fun _ l _ => Some (- l) |}.

Definition mk_beam (p : polarization) (l : Q) : beam Q := {| b_pol := p; b_phi := 0; b_theta := 0; b_wavelength := l; b_waist := 1 # 10000 |}.

(* signal 1550 nm, pump 775 nm, but an idler at 1500 nm *)
Definition s_w : spdc Q :=
  {| s_crystal := {| cs_kind := "KTP"; cs_pm := Type2_e_eo; cs_phi := 0; cs_theta := 1; cs_length := 1 # 500; cs_temperature := 293; cs_counter := false |};
     s_signal := mk_beam Extraordinary (1550 # 1000000000); s_idler := mk_beam Ordinary (1500 # 1000000000);
     s_pump := mk_beam Extraordinary (775 # 1000000000);
     s_bandwidth := 1; s_power := 1; s_threshold := 1 # 100; s_pp := PolOff; s_zs := 0; s_zi := 0; s_deff := 1 |}.

Definition once := try_as_optimum Q_ops K_w (1 # 1000000000000) true true s_w.

Lemma C20_idempotent_unconditional_refuted :
  exists s1 nf1 s2 nf2,
    try_as_optimum Q_ops K_w (1 # 1000000000000) true true s_w = Ok (s1, nf1) /\
    try_as_optimum Q_ops K_w (1 # 1000000000000) true true s1 = Ok (s2, nf2) /\
    Qeq_bool (s_zi s1) (s_zi s2) = false /\
    (* first: from the old idler's 1500 nm; second: from the energy-conserving 1550 nm *)
    Qeq_bool (s_zi s1) (- (1500 # 1000000000)) = true /\ Qeq_bool (s_zi s2) (- (1550 # 1000000000)) = true.
Proof.
  destruct once as [[s1 nf1] | |] eqn:H1; try (vm_compute in H1; discriminate).
  destruct (try_as_optimum Q_ops K_w (1 # 1000000000000) true true s1) as [[s2 nf2] | |] eqn:H2.
  - exists s1, nf1, s2, nf2. split; [exact H1 |]. split; [exact H2 |].
    vm_compute in H1. inversion H1. subst s1. vm_compute in H2. inversion H2. subst s2. vm_compute. auto.
  - vm_compute in H1. inversion H1. subst. vm_compute in H2. discriminate.
  - vm_compute in H1. inversion H1. subst. vm_compute in H2. discriminate.
Qed.
