(* FINDING F8 (C18): the three `*.frequency_thz` setters store v * 1e12 rad/s; 1 THz = 1e12 cycles per second is 2 pi 1e12 rad/s.
   Witness: 200 THz.  Not imported by Props/. *)
From Coq Require Import Reals Lra List String ZArith.
From Interval Require Import Tactic.
From SpdVerif Require Import Base.Rx Base.PolingBase Gen.Poling Gen.Sweep Spec.SweepPaths Model.Sweep Proofs.C18_table Proofs.C18_frame.
Import ListNotations.
Local Open Scope R_scope.

Lemma round4_value x (k : Z) : IZR k <= x * 10 ^ 4 + / 2 < IZR k + 1 -> 0 <= x * 10 ^ 4 -> round4 x = IZR k / 10 ^ 4.
Proof.
  intros H H0. unfold round4, round_half_away. destruct (Rle_dec 0 (x * 10 ^ 4)); [|contradiction].
  now rewrite (Rfloor_unique _ k H).
Qed.

(* what the configuration shows after "200 THz" with the code's factor, and with the correct one *)
Lemma shown_200_code : round4 (2 * PI * 1 * 299792458 / (200 * 1e12 * 1) / (1e-9 * 1)) = 9418.2578.
Proof.
  rewrite (round4_value _ 94182578); [lra | split; interval with (i_prec 80) | interval].
Qed.

Lemma shown_200_spec : round4 (2 * PI * 1 * 299792458 / (2 * PI * (200 * 1e12) * 1) / (1e-9 * 1)) = 1498.9623.
Proof.
  pose proof PI_RGT_0.
  replace (2 * PI * 1 * 299792458 / (2 * PI * (200 * 1e12) * 1) / (1e-9 * 1)) with (299792458 / 200000) by (field; lra).
  rewrite (round4_value _ 14989623); lra.
Qed.

Section Refuted.
Variable snell_internal : beam -> R -> crystal_setup -> R.
Variable compute_sign : beam -> beam -> crystal_setup -> sign.
Notation getter := (get_setter snell_internal compute_sign).
Notation ideal := (ideal_set snell_internal compute_sign).

(* as coded: the value is written as v * 1e12 (rad/s) *)
Ltac head_of t := match t with ?f _ => head_of f | _ => t end.
Ltac setter_eq' :=
  intros s v;
  match goal with |- ?lhs = _ => let h := head_of lhs in unfold h end;
  cbv beta zeta iota delta [ideal_set put_crystal put_beam get_beam beam_with_theta beam_with_phi beam_with_frequency
                            beam_with_waist si_of norm_angle norm_angle_signed c_light];
  repeat first [rewrite Rdiv_one | rewrite Rmult_1_r]; reflexivity.

Definition thz_entry_actual (e : string * (slot * unit_kind)) : Prop :=
  snd (snd e) = UThz ->
  exists f, getter (fst e) = Some f /\ forall s v, f s v = ideal (fst (snd e)) (v * 1e12) s.

Lemma all_thz_actual : Forall thz_entry_actual spec_table.
Proof.
  unfold spec_table.
  repeat (apply Forall_cons;
          [ unfold thz_entry_actual; cbn [fst snd]; intros Hu;
            first [ discriminate Hu | eexists; split; [reflexivity | setter_eq'] ] | ]).
  apply Forall_nil.
Qed.

Lemma thz_actual p sl :
  In (p, (sl, UThz)) spec_table ->
  exists f, getter p = Some f /\ forall s v, f s v = ideal sl (v * 1e12) s.
Proof.
  intros Hin. pose proof all_thz_actual as H. rewrite Forall_forall in H. exact (H _ Hin eq_refl).
Qed.

Lemma C18_frequency_thz_refuted : forall p b, In (p, (SBeamFrequency b, UThz)) spec_table ->
  exists f, getter p = Some f /\ forall s,
    b_frequency (get_beam b (f s 200)) = 200 * 1e12 /\
    b_frequency (get_beam b (ideal (SBeamFrequency b) (si_of UThz 200) s)) = 2 * PI * (200 * 1e12) /\
    f s 200 <> ideal (SBeamFrequency b) (si_of UThz 200) s /\
    assoc (config_key (SBeamFrequency b)) (config_num (f s 200)) = Some 9418.2578 /\
    assoc (config_key (SBeamFrequency b)) (config_num (ideal (SBeamFrequency b) (si_of UThz 200) s)) = Some 1498.9623.
Proof.
  intros p b Hin.
  destruct (thz_actual p _ Hin) as [f [Hf E]].
  exists f. split; [exact Hf|]. intros s. rewrite E.
  assert (F1 : b_frequency (get_beam b (ideal (SBeamFrequency b) (200 * 1e12) s)) = 200 * 1e12)
    by (destruct s, b; reflexivity).
  assert (F2 : b_frequency (get_beam b (ideal (SBeamFrequency b) (si_of UThz 200) s)) = 2 * PI * (200 * 1e12))
    by (destruct s, b; reflexivity).
  split; [exact F1|]. split; [exact F2|]. split.
  - intros Heq. rewrite Heq, F2 in F1. pose proof PI_RGT_0. assert (3 < PI) by interval. nra.
  - rewrite <- shown_200_code, <- shown_200_spec.
    destruct s as [sg idl pm cr pp pw bw th swp iwp df]; destruct b;
      unfold config_num; cbn [assoc]; eval_keys; proj_simpl; cbn [si_of]; split; reflexivity.
Qed.
End Refuted.
