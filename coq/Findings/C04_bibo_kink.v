(* Finding F4 (C04), the hypothesis it violates.  The convergence theorem of Proofs/C04_conv.v needs the cost to be |h| with
   h strictly monotone on the bounds.  For the auto-angle search of BiBO_1, e -> e + o, 775 nm -> 1550 nm + 1550 nm, crystal
   azimuth 0, 20 C, collinear beams, the longitudinal mismatch as a function of the crystal angle theta,
        dkz(theta) = 2 pi ( n_e(775 nm, theta) / 775 nm  -  n_e(1550 nm, theta) / 1550 nm  -  n_o(1550 nm, theta) / 1550 nm ),
   with the indices of the composed translated model (crystal_index = generated index_along over the generated BiBO_1
   Sellmeier table), RISES from theta = 0 to 25 degrees, then FALLS through zero between 40 and 45 degrees:
   it is not monotone on [0, pi/2], |dkz| has a local maximum inside the bounds, and the two-vertex simplex started at
   (30, 87.3) degrees — which brackets the root — reflects to 1.35 degrees where the cost is lower and walks down to theta = 0.
   Not part of any property's obligations. *)
From Coq Require Import Reals Lra.
From Interval Require Import Tactic.
From SpdVerif Require Import Base.Rx Spec.CrystalTypes Spec.Published Gen.Crystals Proofs.Sellmeier Proofs.C01_tac.
From SpdVerif Require Import Model.Optics Model.Fresnel Proofs.Compose_index.
Local Open Scope R_scope.

(* index of a beam along the lab z axis (collinear), crystal BiBO_1 cut at (theta, azimuth 0), wavelength l um, 20 C *)
Definition n_bibo (l theta : R) (p : polarization) : R := crystal_index BiBO_1 l 20 theta 0 (0, 0, 1) p.

Definition dkz_bibo (theta : R) : R :=
  2 * PI * (n_bibo 0.775 theta Extraordinary / 0.775e-6 - n_bibo 1.55 theta Extraordinary / 1.55e-6 - n_bibo 1.55 theta Ordinary / 1.55e-6).

Lemma n_bibo_model l theta p : 0.775 <= l <= 1.55 ->
  n_bibo l theta p = index_model theta 0 (nx_of BiBO_1 l 20) (ny_of BiBO_1 l 20) (nz_of BiBO_1 l 20) (0, 0, 1) p.
Proof.
  intros Hl. unfold n_bibo. apply crystal_index_is_fresnel.
  - unfold in_window. cbn. lra.
  - unfold temp_ok. lra.
  - unfold unit_vec, vnorm2, vdot, vx, vy, vz. cbn. ring.
Qed.

Ltac bibo_eval :=
  unfold dkz_bibo; rewrite !n_bibo_model by lra;
  unfold index_model, crystal_frame, rot_euler, fresnel_index, y_slow, y_fast, fdisc, fb, fc, inv2, nx_of, ny_of, nz_of, vx, vy, vz;
  cbn [fst snd]; unfold_gen.

Lemma dkz_bibo_0 : 55000 < dkz_bibo 0 < 55500.
Proof. bibo_eval. split; interval with (i_prec 60). Qed.

Lemma dkz_bibo_25 : 167000 < dkz_bibo (5 * PI / 36) < 168000.
Proof. bibo_eval. split; interval with (i_prec 60). Qed.

Lemma dkz_bibo_40 : 44000 < dkz_bibo (2 * PI / 9) < 45500.
Proof. bibo_eval. split; interval with (i_prec 60). Qed.

Lemma dkz_bibo_45 : -9500 < dkz_bibo (PI / 4) < -8500.
Proof. bibo_eval. split; interval with (i_prec 60). Qed.

(* neither dkz nor -dkz is strictly increasing on [0, pi/2]: the hypothesis of the convergence theorem fails, although a
   root exists in (2 pi/9, pi/4) (sign change of a function that is continuous there) *)
Lemma C04_bibo_not_monotone :
  ~ (forall x y, 0 <= x -> x < y -> y <= PI / 2 -> dkz_bibo x < dkz_bibo y) /\
  ~ (forall x y, 0 <= x -> x < y -> y <= PI / 2 -> - dkz_bibo x < - dkz_bibo y) /\
  0 < dkz_bibo (2 * PI / 9) /\ dkz_bibo (PI / 4) < 0.
Proof.
  pose proof PI_RGT_0 as HPI. pose proof dkz_bibo_0 as H0. pose proof dkz_bibo_25 as H25.
  pose proof dkz_bibo_40 as H40. pose proof dkz_bibo_45 as H45.
  split; [|split; [|split; lra]].
  - intros H. pose proof (H (5 * PI / 36) (2 * PI / 9) ltac:(lra) ltac:(lra) ltac:(lra)). lra.
  - intros H. pose proof (H 0 (5 * PI / 36) ltac:(lra) ltac:(lra) ltac:(lra)). lra.
Qed.

(* the cost |dkz| has an interior local maximum between two lower values: not V-shaped *)
Lemma C04_bibo_cost_not_unimodal :
  Rabs (dkz_bibo 0) < Rabs (dkz_bibo (5 * PI / 36)) /\ Rabs (dkz_bibo (2 * PI / 9)) < Rabs (dkz_bibo (5 * PI / 36)) /\
  0 < 5 * PI / 36 < 2 * PI / 9 /\ 2 * PI / 9 < PI / 2.
Proof.
  pose proof PI_RGT_0 as HPI. pose proof dkz_bibo_0 as H0. pose proof dkz_bibo_25 as H25. pose proof dkz_bibo_40 as H40.
  rewrite !Rabs_right by lra. repeat split; lra.
Qed.
