(* HISTORICAL RECORD: findings F7 (C17) on the model of the tree BEFORE /repo commits 07c64a4 / d0489d8, i.e. with the two
   source-derived flags pinned to their old values (rejects_bad_period = false, validates = false).  NOT imported by Props/;
   no check depends on this file.
   Witness configuration: KTP, type-2 e->eo, crystal angle "auto" / 90 deg, pump 775 nm, signal 700 nm (< pump), collinear.
   For EVERY choice of oracles (the panic happens before any numerical kernel is consulted, or independently of it):
     - automatic poling period      -> Panic at the unwrap in optimum_poling_period   (periodic_poling.rs)
     - explicit poling period       -> Panic at the unwrap in compute_sign            (periodic_poling.rs)
     - automatic crystal angle      -> Panic at the unwrap in optimum_theta (crystal_setup.rs), given a defined external angle
     - explicit idler, no poling, explicit angle -> Ok: no wavelength check at all
   The property says each of these is an error (Err).  So "lambda_s <= lambda_p is an error" and "never panics" are REFUTED. *)
From Coq Require Import String List Bool ZArith QArith.
From SpdVerif Require Import Base.CfgNumOps Spec.ConfigSpec Gen.ConfigTables Gen.ConfigSites Model.ConfigTypes Model.Config Model.NumInst.
Import ListNotations.
Local Open Scope Q_scope.

Definition UQ : units Q := {| u_milliw := 1; u_volt := 1000 |}.
Definition minposQ : Q := 1 # 1000000000000.

Definition witness (theta : auto Q) (pp : pp_cfg Q) (idler : auto (beam_cfg Q)) : spdc_cfg Q :=
  {| c_crystal := {| cc_kind := "KTP"; cc_pm := Type2_e_eo; cc_phi_deg := 0; cc_theta_deg := theta;
                     cc_length_um := 2000; cc_temperature_c := 20; cc_counter := false |};
     c_pump := {| pc_wavelength_nm := 775; pc_waist_um := 100; pc_bandwidth_nm := 535 # 100; pc_power_mw := 1;
                  pc_threshold := None |};
     c_signal := {| bc_wavelength_nm := 700; bc_phi_deg := 0; bc_theta_deg := Some 0; bc_theta_ext_deg := None;
                    bc_waist_um := 100; bc_waist_pos_um := Auto |};
     c_idler := idler; c_pp := pp; c_deff := 76 # 10 |}.

Definition idler_explicit : beam_cfg Q :=
  {| bc_wavelength_nm := 1550; bc_phi_deg := 180; bc_theta_deg := Some 0; bc_theta_ext_deg := None;
     bc_waist_um := 100; bc_waist_pos_um := Auto |}.

Lemma C17_auto_period_panics_refuted K :
  try_as_spdc Q_ops UQ K minposQ false false (witness (Param 90) (PCConfig Auto ACOff) Auto) = Panic SiteOptPeriodUnwrap.
Proof. vm_compute. reflexivity. Qed.

Lemma C17_explicit_period_panics_refuted K :
  try_as_spdc Q_ops UQ K minposQ false false (witness (Param 90) (PCConfig (Param (465 # 10)) ACOff) Auto) = Panic SiteComputeSignUnwrap.
Proof. vm_compute. reflexivity. Qed.


Lemma C17_auto_theta_panics_refuted K :
  (forall b cs, o_snell_ext K b cs <> None) ->
  try_as_spdc Q_ops UQ K minposQ false false (witness Auto PCOff Auto) = Panic SiteOptThetaUnwrap.
Proof.
  destruct K as [si se nt dk np it wp]. cbn [o_snell_ext]. intros H. vm_compute.
  match goal with |- context [se ?b ?cs] => specialize (H b cs); destruct (se b cs); [| congruence] end.
  reflexivity.
Qed.

Lemma C17_explicit_idler_no_check_refuted K :
  is_ok (try_as_spdc Q_ops UQ K minposQ false false (witness (Param 90) PCOff (Param idler_explicit))) = true.
Proof. vm_compute. reflexivity. Qed.

(* the property's "a signal wavelength not longer than the pump wavelength is an error, whatever else is auto" *)
Lemma C17_signal_le_pump_is_error_refuted :
  ~ (forall (K : oracles Q) c signal,
       signal_step Q_ops K c = Ok signal -> signal_le_pump Q_ops signal (cfg_pump Q_ops c) = true ->
       is_err (try_as_spdc Q_ops UQ K minposQ false false c) = true).
Proof.
  intros H.
  pose (K0 := {| o_snell_inv := fun _ _ _ => None; o_snell_ext := fun _ _ => None; o_nm_theta := fun _ _ _ _ => None;
                 o_dkz0 := fun _ _ _ => 0; o_nm_period := fun _ _ _ => None; o_idler_theta := fun _ _ _ _ => None;
                 o_waist_pos := fun _ _ _ => None |} : oracles Q).
  specialize (H K0 (witness (Param 90) (PCConfig Auto ACOff) Auto)).
  rewrite (C17_auto_period_panics_refuted K0) in H.
  specialize (H _ eq_refl). cbn in H. discriminate H. vm_compute. reflexivity.
Qed.

Lemma C17_no_panic_refuted :
  ~ (forall (K : oracles Q) c, is_panic (try_as_spdc Q_ops UQ K minposQ false false c) = false).
Proof.
  intros H.
  pose (K0 := {| o_snell_inv := fun _ _ _ => None; o_snell_ext := fun _ _ => None; o_nm_theta := fun _ _ _ _ => None;
                 o_dkz0 := fun _ _ _ => 0; o_nm_period := fun _ _ _ => None; o_idler_theta := fun _ _ _ _ => None;
                 o_waist_pos := fun _ _ _ => None |} : oracles Q).
  specialize (H K0 (witness (Param 90) (PCConfig Auto ACOff) Auto)).
  rewrite (C17_auto_period_panics_refuted K0) in H. discriminate H.
Qed.
