(* HISTORICAL RECORD — FIXED by /repo commit 2b77618 (C02's F2 repair).  The numbers below are what the implementation returned
   BEFORE the repair; on the repaired tree the same call reads the angle back within 1e-5 deg (checked by the `onaxis` generator
   of harness/src/c13.rs on every run).  Kept as the pinned witness of the fixed finding.

   C13 finding: when the refracted beam runs within ~3e-3 rad of an optic axis, set_theta_external stores an internal angle
   that does not satisfy Snell's law and theta_external does not read the requested angle back.  Cause: C02's finding
   (coq/Findings/C02_imaginary_index.v) — next to an optic axis index_along returns 0 for part of the directions, the cost
   |sin(theta_e) - n(theta) sin(theta)| handed to the 2-vertex Nelder-Mead jumps to sin(theta_e) there and the simplex
   stops at a wrong point.  With the one-line repair of index_along proposed for C02 all such round trips pass.

   Witness (values printed by the harness, exact binary64 numbers):
     crystal BBO_1, ordinary polarization, crystal theta = 0.41695936778252535 rad, phi = 0.18375536626270894 rad, T = 20 C,
     lambda = 1.949436217296897e-06 m, beam azimuth pi;
     Beam::set_theta_external(theta_e) with theta_e = 41.61694074488979 deg
       -> stored internal angle theta_i = 0.4172710871237344 rad, index there n = 1.6399418939777184,
          theta_external() reads back 41.652769623652034 deg.
   The lemma evaluates the property's two relations on these returned values. *)
From Coq Require Import Reals.
From Interval Require Import Tactic.
Local Open Scope R_scope.

Definition theta_e : R := (817800370392861 / 1125899906842624).
Definition theta_i : R := (469805478120733 / 1125899906842624).
Definition n_at_theta_i : R := (3692820851313659 / 2251799813685248).
Definition read_back : R := (6548035452181837 / 9007199254740992).

Lemma C13_snell_near_optic_axis_refuted :
  ~ (Rabs (sin theta_e - n_at_theta_i * sin theta_i) <= 3e-8) /\
  ~ (Rabs (read_back - theta_e) <= 1e-5 * (PI / 180)).
Proof.
  unfold theta_e, theta_i, n_at_theta_i, read_back. split; apply Rlt_not_le.
  - apply Rminus_gt_0_lt. interval with (i_prec 80).
  - apply Rminus_gt_0_lt. interval with (i_prec 80).
Qed.
