(* FINDING (C15): Iterator1D::len() / Iterator2D::len() report the length AT CREATION also after items have been consumed
   (generated it1d_len = steps, it2d_len = p1 - p0), and neither iterator provides size_hint.  ExactSizeIterator requires len() to be
   the number of REMAINING items; std's Zip::next_back relies on it, and rayon's enumerate().rev() reaches it:
       Steps(0., 4., 5).into_par_iter().enumerate().rev().collect::<Vec<_>>()
   panics ("internal error: entered unreachable code"), on any pool size.  Witnesses on the generated definitions.  Never imported
   by Props/ (C15_len is about the length at creation, which is all bridge/enumerate/collect use). *)
From Coq Require Import List Arith Bool ZArith QArith.
From SpdVerif Require Import Base.GridOps Gen.Grid Model.Grid Model.Producer.
Import ListNotations.
Local Close Scope Q_scope.

(* after one next_back() on a 5-point range 4 items remain, len() still says 5 *)
Lemma C15_len_after_consumption_refuted :
  let st := snd (it1d_next_back Qops 0%Q 4%Q 5 0 5) in
  it1d_len 5 (fst st) (snd st) = 5 /\ length (drain (it1d_nxt Qops 0%Q 4%Q 5) 6 st) = 4.
Proof. vm_compute. split; reflexivity. Qed.

Lemma C15_len2d_after_consumption_refuted :
  let st := snd (it2d_next_back Qops 0%Q 1%Q 2 0%Q 1%Q 2 0 4 0 4) in
  it2d_len 0 4 (fst st) (snd st) = 4 /\ length (drain (it2d_nxt Qops 0%Q 1%Q 2 0%Q 1%Q 2 (0, 4)) 5 st) = 3.
Proof. vm_compute. split; reflexivity. Qed.

(* std::iter::Zip::next_back (the general, non-TrustedRandomAccess implementation):
     let a_sz = self.a.len(); let b_sz = self.b.len();
     if a_sz != b_sz { if a_sz > b_sz { for _ in 0..a_sz - b_sz { self.a.next_back(); } } else { for _ in 0..b_sz - a_sz { self.b.next_back(); } } }
     match (self.a.next_back(), self.b.next_back()) { (Some(x), Some(y)) => Some((x, y)), (None, None) => None, _ => unreachable!() }
   with a = the index range of enumerate (exact len) and b = Iterator1D with the generated next_back / len *)
Section ZipBack.
Variables (s e : Q) (n : nat).
Definition b_back (st : nat * nat) := it1d_next_back Qops s e n (fst st) (snd st).
Definition b_len (st : nat * nat) := it1d_len n (fst st) (snd st).
Definition a_back (r : nat * nat) : option nat * (nat * nat) :=
  if (snd r <=? fst r)%nat then (None, r) else (Some (snd r - 1), (fst r, snd r - 1)).
Definition a_len (r : nat * nat) := snd r - fst r.

Definition zip_next_back (st : (nat * nat) * (nat * nat)) : outcome (option (nat * Q) * ((nat * nat) * (nat * nat))) :=
  let '(a, b) := st in
  let a_sz := a_len a in let b_sz := b_len b in
  let a' := Nat.iter (a_sz - b_sz) (fun r => snd (a_back r)) a in
  let b' := Nat.iter (b_sz - a_sz) (fun q => snd (b_back q)) b in
  match a_back a', b_back b' with
  | (Some x, a''), (Some y, b'') => Ok (Some (x, y), (a'', b''))
  | (None, a''), (None, b'') => Ok (None, (a'', b''))
  | _, _ => Panic          (* unreachable!() *)
  end.

Fixpoint zip_rev_collect (fuel : nat) (st : (nat * nat) * (nat * nat)) : outcome (list (nat * Q)) :=
  match fuel with
  | 0 => Ok []
  | S f => match zip_next_back st with
           | Ok (Some p, st') => obind (zip_rev_collect f st') (fun l => Ok (p :: l))
           | Ok (None, _) => Ok []
           | Panic => Panic
           end
  end.
End ZipBack.

(* enumerate().rev() over Steps(0, 4, 5): the second call already pairs position 3 with the value of position 2, and the
   traversal ends in unreachable!() *)
Lemma C15_enumerate_rev_refuted :
  zip_rev_collect 0%Q 4%Q 5 10 ((0, 5), it1d_new 5) = Panic /\
  (exists st1 st2 p1 p2, zip_next_back 0%Q 4%Q 5 ((0, 5), it1d_new 5) = Ok (Some p1, st1) /\ fst p1 = 4 /\ Qeq (snd p1) 4%Q /\
                     zip_next_back 0%Q 4%Q 5 st1 = Ok (Some p2, st2) /\ fst p2 = 3 /\ Qeq (snd p2) 2%Q).
Proof.
  split; [vm_compute; reflexivity|].
  eexists _, _, _, _. split; [vm_compute; reflexivity|]. split; [reflexivity|]. split; [vm_compute; reflexivity|].
  split; [vm_compute; reflexivity|]. split; vm_compute; reflexivity.
Qed.
