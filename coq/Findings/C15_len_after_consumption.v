(* FINDING F24 (C15) — FIXED in /repo a05fe3f ("fix: the grid iterators report their remaining length …").
   Historical record.  Before the fix Iterator1D::len() was `self.steps.len()` and Iterator2D::len() was `partition.1 - partition.0`:
   the length AT CREATION, also after items had been consumed, and neither iterator had size_hint.  std's Zip::next_back relies on
   len() being the number of REMAINING items, and rayon's enumerate().rev() reaches it:
       Steps(0., 4., 5).into_par_iter().enumerate().rev().collect::<Vec<_>>()
   panicked ("internal error: entered unreachable code") on any pool size.  The OLD formulas are pinned here, so this file no longer
   depends on what the source says now; the positive statement for the present code is Props/C15.v::C15_exact_size.
   Never imported by Props/. *)
From Coq Require Import List Arith Bool ZArith QArith.
From SpdVerif Require Import Base.GridOps Gen.Grid Model.Grid Model.Producer Model.C15_Zip.
Import ListNotations.
Local Close Scope Q_scope.

Definition old_it1d_len (steps index index_back : nat) : nat := steps.
Definition old_it2d_len (p0 p1 index index_back : nat) : nat := p1 - p0.

(* after one next_back() on a 5-point range 4 items remain, the old len() still said 5 *)
Lemma C15_old_len_after_consumption_refuted :
  let st := snd (it1d_next_back Qops 0%Q 4%Q 5 0 5) in
  old_it1d_len 5 (fst st) (snd st) = 5 /\ length (drain (it1d_nxt Qops 0%Q 4%Q 5) 6 st) = 4.
Proof. vm_compute. split; reflexivity. Qed.

Lemma C15_old_len2d_after_consumption_refuted :
  let st := snd (it2d_next_back Qops 0%Q 1%Q 2 0%Q 1%Q 2 0 4 0 4) in
  old_it2d_len 0 4 (fst st) (snd st) = 4 /\ length (drain (it2d_nxt Qops 0%Q 1%Q 2 0%Q 1%Q 2 (0, 4)) 5 st) = 3.
Proof. vm_compute. split; reflexivity. Qed.

(* enumerate().rev() over Steps(0, 4, 5) with the old len(): the second call pairs position 3 with the value of position 2, and the
   traversal ends in unreachable!() *)
Definition old_b_back (st : nat * nat) := it1d_next_back Qops 0%Q 4%Q 5 (fst st) (snd st).
Definition old_b_len (st : nat * nat) := old_it1d_len 5 (fst st) (snd st).

Lemma C15_old_enumerate_rev_refuted :
  zip_rev_collect old_b_back old_b_len 10 ((0, 5), it1d_new 5) = Panic /\
  (exists st1 st2 p1 p2, zip_next_back old_b_back old_b_len ((0, 5), it1d_new 5) = Ok (Some p1, st1) /\ fst p1 = 4 /\ Qeq (snd p1) 4%Q /\
                         zip_next_back old_b_back old_b_len st1 = Ok (Some p2, st2) /\ fst p2 = 3 /\ Qeq (snd p2) 2%Q).
Proof.
  split; [vm_compute; reflexivity|].
  eexists _, _, _, _. split; [vm_compute; reflexivity|]. split; [reflexivity|]. split; [vm_compute; reflexivity|].
  split; [vm_compute; reflexivity|]. split; vm_compute; reflexivity.
Qed.

(* the present code on the same call: every position paired with its own point, no panic *)
Lemma C15_enumerate_rev_now :
  exists l, zip_rev_collect old_b_back (fun st => it1d_len 5 (fst st) (snd st)) 10 ((0, 5), it1d_new 5) = Ok l /\ map fst l = [4; 3; 2; 1; 0].
Proof. eexists. split; [vm_compute; reflexivity | reflexivity]. Qed.
