(* Remark / boundary finding (C16) on the faithful model.  NOT imported by Props/.
   A beam whose polar angle is within 0.5e-4 degrees below 360 is exported as phi_deg = 360.0000 (outside [0, 360)), and
   converting that configuration again normalises it to 0: the second round trip does not reproduce the first one's
   number (360 vs 0), although the two describe the same direction.  Likewise theta_deg = -180.0000 re-imports as +180.
   This is why C16_stable carries the hypothesis [reimportable] (angles away from the wrap-around).
   Witness at the executable (Q) instance (pi is a 40-digit rational there). *)
From Coq Require Import String List Bool ZArith QArith.
From SpdVerif Require Import Base.CfgNumOps Spec.ConfigSpec Gen.ConfigTables Model.ConfigTypes Model.Config Model.NumInst Gen.ConfigConv.
Import ListNotations.
Local Open Scope Q_scope.

Definition K_c : oracles Q := {|
  o_snell_inv := fun _ _ _ => Some 0; o_snell_ext := fun _ _ => Some 0; o_nm_theta := fun _ _ _ _ => Some (1 # 2);
  o_dkz0 := fun _ _ _ => 1; o_nm_period := fun _ _ _ => Some (1 # 100000);
  o_idler_theta := fun _ _ _ _ => Some 0; o_waist_pos := fun _ _ _ => Some (- (1 # 1000)) |}.
Definition U_c : units Q := {| u_milliw := 1; u_volt := 1000 |}.

(* phi = 359.99996 degrees *)
Definition phi_near_turn : Q := (35999996 # 100000) * (Qpi / 180).
Definition mk (p : polarization) (phi l : Q) : beam Q := {| b_pol := p; b_phi := phi; b_theta := 0; b_wavelength := l; b_waist := 1 # 10000 |}.
Definition s_c : spdc Q :=
  {| s_crystal := {| cs_kind := "KTP"; cs_pm := Type2_e_eo; cs_phi := 0; cs_theta := 1; cs_length := 1 # 500; cs_temperature := 293; cs_counter := false |};
     s_signal := mk Extraordinary phi_near_turn (1550 # 1000000000); s_idler := mk Ordinary 0 (1550 # 1000000000);
     s_pump := mk Extraordinary 0 (775 # 1000000000);
     s_bandwidth := 1 # 1000000000; s_power := 1; s_threshold := 1 # 100; s_pp := PolOff; s_zs := - (1 # 1000); s_zi := - (1 # 1000); s_deff := 1 # 1000000000000000 |}.

Definition c1 := as_config Q_ops U_c s_c.

Lemma C16_stable_at_wrap_refuted :
  Qeq_bool (bc_phi_deg (c_signal c1)) 360 = true /\
  exists s2 nf, try_as_spdc_steps Q_ops U_c K_c (1 # 1000000000000) true c1 = Ok (s2, nf) /\
                Qeq_bool (bc_phi_deg (c_signal (as_config Q_ops U_c s2))) 0 = true.
Proof.
  split; [vm_compute; reflexivity |].
  destruct (try_as_spdc_steps Q_ops U_c K_c (1 # 1000000000000) true c1) as [[s2 nf] | |] eqn:H.
  - exists s2, nf. split; [reflexivity |]. vm_compute in H. inversion H. subst. vm_compute. reflexivity.
  - vm_compute in H. discriminate.
  - vm_compute in H. discriminate.
Qed.
