(* C02 finding F21 — FIXED in /repo f37b32c (walkoff_angle now uses the absolute step eps^(1/3)*0.05 below |theta| < 0.05 rad).
   This file is the historical record of the defect on the code BEFORE that commit; the witness values below were produced by it.

   Beam::walkoff_angle differentiated the index with math::derivative_at, whose step is RELATIVE, h = eps^(1/3) |theta|
   (src/math/differentiation.rs, gradient_at; an absolute step only at theta = 0 exactly).  For a small non-zero crystal angle and a
   TILTED beam — optic axis 12..90 deg from the beam, i.e. inside the property's domain — the step collapses (theta = 1e-6 rad:
   h = 6e-12 rad) and the rounding error of the two index values (about eps n k / h with k ~ 10..30 ulp of index error) swamps the
   quotient: 1.5e-5 rad at theta = 1e-4, 1.5e-3 at 1e-6, 4e-2 at 1e-8, against a stated tolerance of 1e-6 rad.

   Witness (values printed by the harness, exact binary64 numbers): BBO_1, 800 nm, 20 C, crystal phi = 0, crystal theta = 1e-6 rad,
   extraordinary beam at internal polar angle 0.3 rad, azimuth 0 (optic axis 17.2 deg from the beam):
       Beam::walkoff_angle = 0.04189403826374288 rad,   closed form = 0.0434353185 rad.

   code_off_by_more_than_1e6      the returned value is > 1e-6 rad (in fact 1.5e-3) away from the closed form
   exact_arithmetic_is_within_1e9 the SAME formula the old code evaluated (walkoff_tail_gen of the generated derivative_at_gen: central difference with derivative_at's own
                                  step, Gen/Fresnel.v) evaluated in exact arithmetic on the same inputs is within 1e-9 rad of the
                                  closed form — the defect is binary64 rounding at a collapsed step, not the formula
                                  (in general: C02_walkoff_1e6_real).
   Proposed repair (validated on a scratch copy): below |theta| < 0.05 rad use the absolute step eps^(1/3) * 0.05 in walkoff_angle;
   angles >= 0.05 rad keep today's bits.  Not imported by any Props file. *)
From Coq Require Import Reals.
From Interval Require Import Tactic.
From SpdVerif Require Import Model.Optics Model.Fresnel Gen.Fresnel Proofs.C02_walkoff Proofs.C02_walkoff_bound.
Local Open Scope R_scope.

Definition w_no : R := (1869617058970309 / 1125899906842624).
Definition w_ne : R := (3477725347868439 / 2251799813685248).
Definition w_dx : R := (5323618770401843 / 18014398509481984).
Definition w_dz : R := (4302453056439517 / 4503599627370496).
Definition w_theta : R := (4722366482869645 / 4722366482869645213696).
Definition w_rho_code : R := (754695900454551 / 18014398509481984).

Ltac open_all :=
  unfold walkoff_uniaxial_general, w_no, w_ne, w_dx, w_dz, w_theta, w_rho_code, y_uniaxial, inv2, vx, vz; cbn [fst snd]; cbv zeta.

Lemma code_off_by_more_than_1e6 :
  1e-6 < Rabs (walkoff_uniaxial_general w_no w_ne (w_dx, 0, w_dz) w_theta - w_rho_code).
Proof. open_all. apply Rminus_gt_0_lt. interval with (i_prec 80). Qed.

Lemma exact_arithmetic_is_within_1e9 :
  Rabs (walkoff_tail_gen (derivative_at_gen (fun t => n_of w_no w_ne w_dx w_dz (walkoff_theta_assigned_gen t)) (walkoff_theta_at_gen w_theta))
                         (n_of w_no w_ne w_dx w_dz w_theta)
        - walkoff_uniaxial_general w_no w_ne (w_dx, 0, w_dz) w_theta) <= 1e-9.
Proof.
  unfold walkoff_tail_gen, derivative_at_gen, fd_quotient_gen, fd_forward_point_gen,
    fd_backward_point_gen, walkoff_theta_assigned_gen, walkoff_theta_at_gen, fd_step_gen, n_of, y_of, sz_of, eps64, Rpower.
  cbv zeta beta. open_all.
  repeat match goal with
  | |- context [Rlt_dec ?a ?b] => destruct (Rlt_dec a b)
  | |- context [Req_EM_T ?a ?b] => destruct (Req_EM_T a b) as [E | _]; [exfalso; revert E; apply Rgt_not_eq; Lra.lra |]
  end; interval with (i_prec 300).
Qed.

Lemma C02_walkoff_small_angle_refuted :
  ~ (Rabs (w_rho_code - walkoff_uniaxial_general w_no w_ne (w_dx, 0, w_dz) w_theta) <= 1e-6).
Proof. apply Rlt_not_le. rewrite Rabs_minus_sym. exact code_off_by_more_than_1e6. Qed.
