(* HISTORICAL RECORD (F7b was repaired in /repo 25be872: cfg_checks_total_reflection = true; the statements below are conditional on
   the flag being false and are vacuous on the repaired tree; F7b_composed_is_error shows the witness is now Err ETotalReflection).
   Finding F7b on the COMPOSED model (Model/Cfg_Composed.v: the oracle record instantiated with the generated C03/C04 kernels,
   every partial floating-point operation guarded by its definedness).  NOT imported by Props/; no check depends on this file.
   Witness: crystal angle "auto", no poling, pump 775 nm, signal 1550 nm given by the INTERNAL angle 90 deg, in a medium of
   refractive index 2 (any index > 1 does): n sin(theta_s) = 2 > 1, the external angle asin(2) is undefined (NaN in the
   implementation), CrystalSetup::optimum_theta feeds it to its cost function, and the search's unwrap panics.
     - the composed model PANICS on the witness (as the implementation does: corpus case nan_cost:signal_80deg:theta_auto);
     - hence "the composed model never panics, given only a total Snell inverse" -- the statement of C17_no_panic_composed
       before the definedness guards were added -- is REFUTED;
     - the hypothesis no_total_internal_reflection of the present C17_no_panic_composed is false on the witness. *)
From Coq Require Import Reals Lra String List Bool.
From SpdVerif Require Import Base.Rx Base.Vec3 Base.CfgNumOps Model.NumInst Spec.ConfigSpec Spec.ConfigUnits Gen.ConfigTables Gen.ConfigSites
  Model.ConfigTypes Model.Config Model.Cfg_Composed Proofs.C16_round Proofs.C16_stable Proofs.Cfg_composed.
Import ListNotations.
Local Open Scope R_scope.

Definition UR : units R := {| u_milliw := / 1000; u_volt := 1 |}.
Definition index2 : crystal_setup R -> R -> vec -> GI.polarization -> R := fun _ _ _ _ => 2.
Definition snell_id : beam R -> R -> crystal_setup R -> option R := fun _ e _ => Some e.
Definition sd_stop : @NM.ecost R -> @NM.ecost R -> bool := fun _ _ => true.
Definition KW : oracles R := oracles_of_model index2 snell_id sd_stop sd_stop.

Definition witness : spdc_cfg R :=
  {| c_crystal := {| cc_kind := "KTP"; cc_pm := Type2_e_eo; cc_phi_deg := 0; cc_theta_deg := Auto;
                     cc_length_um := 2000; cc_temperature_c := 20; cc_counter := false |};
     c_pump := {| pc_wavelength_nm := 775; pc_waist_um := 100; pc_bandwidth_nm := 5; pc_power_mw := 1; pc_threshold := None |};
     c_signal := {| bc_wavelength_nm := 1550; bc_phi_deg := 0; bc_theta_deg := Some 90; bc_theta_ext_deg := None;
                    bc_waist_um := 100; bc_waist_pos_um := Auto |};
     c_idler := Auto; c_pp := PCOff; c_deff := 7 |}.

Definition witness_signal : beam R :=
  set_angles R_ops
    (beam_new R_ops (signal_polarization Type2_e_eo) (nmul R_ops 0 (u_deg R_ops)) (n0 R_ops) (nmul R_ops 1550 (u_nano R_ops))
       (nmul R_ops 100 (u_micro R_ops)))
    (nmul R_ops 0 (u_deg R_ops)) (nmul R_ops 90 (u_deg R_ops)).

Lemma witness_signal_step : signal_step R_ops KW witness = Ok witness_signal.
Proof. reflexivity. Qed.

Lemma witness_theta : b_theta witness_signal = PI / 2.
Proof.
  unfold witness_signal, set_angles. cbn [b_theta nmul R_ops]. rewrite u_deg_R.
  rewrite (normalize_signed_deg 90) by lra. unfold deg. field.
Qed.

Lemma witness_beyond_tir : snell_ext_defined index2 witness_signal (cfg_cs0 R_ops witness) = false.
Proof.
  unfold snell_ext_defined, snell_arg, index2. rewrite witness_theta, sin_PI2.
  unfold in_unit, Rleb. destruct (Rle_dec (-1) (2 * 1)), (Rle_dec (2 * 1) 1); try reflexivity; exfalso; lra.
Qed.

Lemma witness_wavelengths : cfg_le R_ops witness = false.
Proof. unfold cfg_le. cbn. destruct (Rle_dec 1550 775); [exfalso; lra | reflexivity]. Qed.

(* the composed model's outcome on the witness: the error the property asks for once try_as_spdc checks the external angle
   (cfg_checks_total_reflection = true: the repaired tree), the panic of F7b on a code with neither repair *)
Theorem F7b_composed_is_error minpos rj :
  cfg_checks_total_reflection = true -> try_as_spdc R_ops UR KW minpos rj true witness = Err ETotalReflection.
Proof.
  intros Hf. apply (tir_is_error_composed index2 snell_id sd_stop sd_stop UR minpos rj witness witness_signal Hf).
  - exact witness_wavelengths.
  - exact witness_signal_step.
  - reflexivity.
  - reflexivity.
  - exact witness_beyond_tir.
Qed.

Theorem F7b_composed_panics minpos rj :
  cfg_checks_total_reflection = false -> searches_cannot_fail = false ->
  try_as_spdc R_ops UR KW minpos rj true witness = Panic SiteNelderMeadUnwrap.
Proof.
  intros Hf Hn. apply (tir_panics_composed index2 snell_id sd_stop sd_stop UR minpos rj witness witness_signal Hf Hn).
  - exact witness_wavelengths.
  - exact witness_signal_step.
  - reflexivity.
  - reflexivity.
  - exact witness_beyond_tir.
Qed.

(* REFUTED on a code with neither repair: never panics given only a total Snell inverse *)
Theorem F7b_no_panic_composed_refuted :
  cfg_checks_total_reflection = false -> searches_cannot_fail = false ->
  ~ (forall index_of snell_inv sd_theta sd_period U minpos rj (c : spdc_cfg R),
       (forall b e cs, snell_inv b e cs <> None) ->
       is_panic (try_as_spdc R_ops U (oracles_of_model index_of snell_inv sd_theta sd_period) minpos rj true c) = false).
Proof.
  intros Hf Hn H. specialize (H index2 snell_id sd_stop sd_stop UR 0 false witness).
  fold KW in H. rewrite (F7b_composed_panics 0 false Hf Hn) in H. cbn in H.
  assert (Hs : forall b e cs, snell_id b e cs <> None) by (intros; discriminate).
  specialize (H Hs). discriminate H.
Qed.

(* the hypothesis that C17_no_panic_composed carries (while the code does not check) is false on the witness *)
Theorem F7b_hypothesis_fails : ~ no_total_internal_reflection index2 snell_id sd_stop sd_stop witness.
Proof.
  intros H. specialize (H witness_signal witness_signal_step eq_refl eq_refl).
  fold KW in H. rewrite witness_beyond_tir in H. discriminate H.
Qed.

Print Assumptions F7b_composed_is_error.
