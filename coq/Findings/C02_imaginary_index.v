(* HISTORICAL RECORD — finding F2 is FIXED in /repo commit 2b77618 (the Roots::No arm of index_along now returns the double
   root b/2; Props/C02.v, C02_index_along_any_solver_answer covers that arm).  The statements below are about binary64
   arithmetic and remain true: the rounded discriminant of these inputs IS negative; the repaired code no longer turns that
   into an index of 0.  Kept as the pinned witness of the fixed finding; not part of any property's obligations.

   C02 finding (DESIGN §5 F2): next to an optic axis the binary64 discriminant of index_along's quadratic rounds to a
   negative number, roots::find_roots_quadratic answers Roots::No and index_along returns 0 ("imaginary index"), although
   the exact discriminant of the very same binary64 inputs is positive (and C02_disc_nonneg shows it can never be negative
   for a unit direction).

   disc_f transcribes, operation for operation, what CrystalSetup::index_along and roots 0.0.8 compute in binary64
   (Coq primitive floats = IEEE 754 binary64, round to nearest even):
       s_squared = s.map(|i| i*i);  sum_recip, prod_recip;  b = s_squared.dot(&sum_recip)  (nalgebra: (x0*y0 + x1*y1) + x2*y2);
       c = s_squared.dot(&prod_recip);  discriminant = a1*a1 - 4*a2*a0 with a2 = 1.
   The same transcription in Python reproduces every value the harness observes bit for bit (props/c02.py, replay_f64).

   Witness 1: KTP, 1.339 um, pump along lab z, crystal theta = 0.18057626694646486 rad, phi = 0  (1e-7 rad from an optic axis)
   Witness 2: LiIO3_1, crystal theta = phi = 0, beam direction (2.367e-7, 9.716e-7, 0.9999999999995) (1e-6 rad from the axis)
   The a_i are the crystal's 1/n_i^2 (i.powi(-2)), the s_i the output of to_crystal_frame, as printed by the harness. *)
From Coq Require Import Reals Floats ZArith Lra.
From Interval Require Import Tactic.
From SpdVerif Require Import Model.Optics Model.Fresnel.

Definition disc_f (ax ay az sx sy sz : float) : float :=
  let s2x := (sx * sx)%float in let s2y := (sy * sy)%float in let s2z := (sz * sz)%float in
  let b := (s2x * (ay + az) + s2y * (ax + az) + s2z * (ax + ay))%float in
  let c := (s2x * (ay * az) + s2y * (ax * az) + s2z * (ax * ay))%float in
  (b * b - 4 * 1 * c)%float.

(* exact real value of a finite binary64 number *)
Definition f2r (x : float) : R :=
  match Prim2SF x with
  | S754_finite s m e => (if s then -1 else 1) * IZR (Zpos m) * powerRZ 2 e
  | _ => 0
  end.

Definition disc_r (ax ay az sx sy sz : float) : R :=
  fdisc (f2r ax) (f2r ay) (f2r az) (f2r sx * f2r sx) (f2r sy * f2r sy) (f2r sz * f2r sz).

Ltac exact_disc_pos :=
  unfold disc_r, f2r;
  repeat match goal with |- context [Prim2SF ?x] =>
    let v := eval vm_compute in (Prim2SF x) in change (Prim2SF x) with v end;
  cbv iota beta; unfold fdisc, fb, fc; interval with (i_prec 300).

Section KTP.
Let ax := 0x1.5a0220d8bd0edp-2%float.
Let ay := 0x1.5900e14703fe8p-2%float.
Let az := 0x1.3adaa8540c3b7p-2%float.
Let sx := 0x1.6fd04a390a726p-3%float.
Let sy := 0x0.0p+0%float.
Let sz := 0x1.f7acd109246d1p-1%float.

Lemma KTP_float_discriminant_negative : PrimFloat.ltb (disc_f ax ay az sx sy sz) 0 = true.
Proof. vm_compute. reflexivity. Qed.

Lemma KTP_exact_discriminant_positive : (0 < disc_r ax ay az sx sy sz)%R.
Proof. exact_disc_pos. Qed.
End KTP.

Section LiIO3.
Let ax := 0x1.2beee4497f47dp-2%float.
Let ay := 0x1.2beee4497f47dp-2%float.
Let az := 0x1.5ebadb772b4b1p-2%float.
Let sx := 0x1.fc4f25f02f0f1p-23%float.
Let sy := 0x1.04cea98a8bf72p-20%float.
Let sz := 0x1.fffffffffee69p-1%float.

Lemma LiIO3_float_discriminant_negative : PrimFloat.ltb (disc_f ax ay az sx sy sz) 0 = true.
Proof. vm_compute. reflexivity. Qed.

Lemma LiIO3_exact_discriminant_positive : (0 < disc_r ax ay az sx sy sz)%R.
Proof. exact_disc_pos. Qed.
End LiIO3.

(* "the rounded discriminant is non-negative whenever the exact one is" is refuted *)
Lemma C02_rounded_discriminant_sign_refuted :
  ~ (forall ax ay az sx sy sz : float,
       (0 < disc_r ax ay az sx sy sz)%R -> PrimFloat.ltb (disc_f ax ay az sx sy sz) 0 = false).
Proof.
  intros H.
  pose proof (H _ _ _ _ _ _ KTP_exact_discriminant_positive) as H1.
  rewrite KTP_float_discriminant_negative in H1. discriminate.
Qed.
