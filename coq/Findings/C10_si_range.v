(* C10 finding — the signal-idler two-source rate exceeds 1 on unequal signal / idler axes.
   Never imported by Props/.  Witness: the eight amplitude grids that jsa_range returns for the crate's own example
   configuration (examples/hom.rs: KTP, e->eo, theta 90, 14 mm, 775 -> 1550 nm, pump bandwidth 0.5 nm, auto poling), side 4,
   signal axis  w_s -+ 3e12 rad/s,  idler axis  [w_i - 2e12, w_i + 4e12] rad/s  (w_s = w_i = 1215259075683131 rad/s),
   as exact rationals of the binary64 values.  Rust: SPDC::hom_two_source_rate_series(tau = 0) returns si = 1.2860220867170091.
   The six main grids coincide (a setup against itself); the two auxiliary grids f(wi2, wi1), f(ws2, ws1) have
   norms 4.35e-18 and 1.77e-18, whose product exceeds the squared norm 1.87e-18^2 of the main grid: exactly the case excluded
   by the hypothesis of C10_range_partial. *)
From Coq Require Import Reals QArith Qreals List Lra.
From SpdVerif Require Import Model.FinSum Model.Hom Model.Hom2 Proofs.FinSum_morph Proofs.C09_exec Proofs.C10_exec.
Import ListNotations.

Definition witness_F : list (cx Q) := [((0 # 1), (0 # 1)); ((0 # 1), (0 # 1)); ((4820219702490911 # 618970019642690137449562112), (2644890938309859 # 618970019642690137449562112)); (((-8508147963923629) # 77371252455336267181195264), (5315496683490173 # 38685626227668133590597632)); ((0 # 1), (0 # 1)); (((-8489704962358617) # 9671406556917033397649408), (2376903029292867 # 4835703278458516698824704)); (((-5564653108024241) # 19342813113834066795298816), ((-7905236150421663) # 9671406556917033397649408)); ((0 # 1), (0 # 1)); ((3542295890073023 # 309485009821345068724781056), ((-8655865282454905) # 38685626227668133590597632)); (((-2734006090078955) # 19342813113834066795298816), ((-4939519647179145) # 154742504910672534362390528)); ((0 # 1), (0 # 1)); ((0 # 1), (0 # 1)); (((-151935820752751) # 2417851639229258349412352), (2429370104815023 # 38685626227668133590597632)); ((0 # 1), (0 # 1)); ((0 # 1), (0 # 1)); ((0 # 1), (0 # 1))].
Definition witness_AI : list (cx Q) := [((0 # 1), (0 # 1)); (((-1566194230607225) # 19342813113834066795298816), (2411600708626267 # 77371252455336267181195264)); ((6372518441648561 # 77371252455336267181195264), (496622439405583 # 1208925819614629174706176)); ((2162870269049709 # 618970019642690137449562112), ((-5900055082825165) # 79228162514264337593543950336)); (((-372635179032343) # 19342813113834066795298816), (3843256343669905 # 38685626227668133590597632)); (((-4537016501943095) # 2417851639229258349412352), ((-3416463665096415) # 4835703278458516698824704)); ((5174516968996449 # 154742504910672534362390528), ((-8719087093412723) # 154742504910672534362390528)); ((0 # 1), (0 # 1)); ((5210896521480321 # 19342813113834066795298816), ((-7917041097848475) # 38685626227668133590597632)); (((-2166039117602767) # 38685626227668133590597632), ((-526247738379793) # 4835703278458516698824704)); ((0 # 1), (0 # 1)); ((0 # 1), (0 # 1)); ((5447858618747605 # 309485009821345068724781056), (1920959266943675 # 1237940039285380274899124224)); ((0 # 1), (0 # 1)); ((0 # 1), (0 # 1)); ((0 # 1), (0 # 1))].
Definition witness_BS : list (cx Q) := [((0 # 1), (0 # 1)); ((0 # 1), (0 # 1)); (((-3232000679654335) # 77371252455336267181195264), ((-1816361869933459) # 309485009821345068724781056)); ((6320790335917149 # 4951760157141521099596496896), ((-4938142981522131) # 1237940039285380274899124224)); ((0 # 1), (0 # 1)); ((163875485131245 # 1208925819614629174706176), ((-6263277556989787) # 38685626227668133590597632)); ((1140305750260937 # 2417851639229258349412352), (1341052038542607 # 2417851639229258349412352)); ((6020977240893607 # 154742504910672534362390528), ((-7033578919361051) # 309485009821345068724781056)); ((28838878639537 # 2417851639229258349412352), (1424728357595541 # 38685626227668133590597632)); ((1273546622119975 # 1208925819614629174706176), ((-2978973529087857) # 19342813113834066795298816)); (((-7689916941515071) # 1237940039285380274899124224), (4027464791740207 # 19342813113834066795298816)); ((0 # 1), (0 # 1)); (((-1011169061426541) # 19342813113834066795298816), (2280063384969037 # 19342813113834066795298816)); (((-4028838804139133) # 154742504910672534362390528), ((-2705600197594421) # 154742504910672534362390528)); ((0 # 1), (0 # 1)); ((0 # 1), (0 # 1))].
Definition witness : list (list (cx Q)) :=
  [witness_F; witness_F; witness_F; witness_F; witness_F; witness_F; witness_AI; witness_BS].

(* the executable model, zero delay: rate_si > 1 (and ss, ii in [0,1]) *)
Lemma C10_si_range_refuted_Q :
  let '(ss, ii, si) := ts_rates_Q0 4 witness in (1 < si)%Q /\ (0 <= ss <= 1)%Q /\ (0 <= ii <= 1)%Q.
Proof. vm_compute. repeat split; discriminate. Qed.

(* the real-valued model on the same grids: a setup against itself (six main grids equal, non-zero), unit phases, and
   the signal-idler rate exceeds 1.  So "all three rates lie in [0,1] for every setup and every square grid" does not hold
   for the faithful model without a condition on the axes; C10_range_same_axes / C10_range_partial state the class where it does. *)
Lemma C10_si_range_refuted :
  exists (F AI BS : nat -> cx R),
    (0 < jsi_norm ROps (4 * 4) F)%R /\
    (1 < ts_rate_si ROps 4 (ts_identical F AI BS) (fun _ _ => (1, 0)%R))%R.
Proof.
  exists (fun k => cmap Q2R (arr (0, 0)%Q witness_F k)), (fun k => cmap Q2R (arr (0, 0)%Q witness_AI k)),
         (fun k => cmap Q2R (arr (0, 0)%Q witness_BS k)).
  assert (HN : (0 < jsi_norm ROps (4 * 4) (fun k => cmap Q2R (arr (0, 0)%Q witness_F k)))%R).
  { rewrite <- (jsi_norm_morph Q2R QOps ROps Q2R_morph). rewrite <- Q2R_0. apply Qlt_Rlt. vm_compute. reflexivity. }
  split; [exact HN|].
  assert (HNN : (jsi_norm ROps (4 * 4) (first_s1_i1 (ts_R witness)) * jsi_norm ROps (4 * 4) (second_s2_i2 (ts_R witness)) <> 0)%R).
  { change (first_s1_i1 (ts_R witness)) with (fun k => cmap Q2R (arr (0, 0)%Q witness_F k)).
    change (second_s2_i2 (ts_R witness)) with (fun k => cmap Q2R (arr (0, 0)%Q witness_F k)).
    apply Rmult_integral_contrapositive_currified; lra. }
  pose proof (ts_rates_Q0_correct 4 witness HNN) as H. pose proof C10_si_range_refuted_Q as HQ.
  destruct (ts_rates_Q0 4 witness) as [[ss ii] si]. destruct H as (_ & _ & Hsi). destruct HQ as (HQ & _).
  change (ts_R witness) with (ts_identical (fun k => cmap Q2R (arr (0, 0)%Q witness_F k)) (fun k => cmap Q2R (arr (0, 0)%Q witness_AI k))
                                           (fun k => cmap Q2R (arr (0, 0)%Q witness_BS k))) in Hsi.
  rewrite <- Hsi, <- Q2R_1. apply Qlt_Rlt. exact HQ.
Qed.
