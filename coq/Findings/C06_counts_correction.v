(* C06 finding: the rate clauses of C06 ("coincidence ... rates are invariant under the exchange", "the idler singles ... rate of
   a setup are the signal singles ... rate of the exchanged setup") fail on the faithful model of src/spdc/counts.rs:
   get_counts_correction contains `ngs * ngp` (group indices of the SIGNAL and of the pump) — it is not symmetric under the
   signal/idler exchange; the exchanged setup's factor is ng_i / ng_s times the setup's.  Never imported by Props/. *)
From Coq Require Import Reals Lra.
From Coquelicot Require Import Coquelicot.
From SpdVerif Require Import Base.Rx Base.CxPM Model.PMParams Gen.PMIntegrand Proofs.C06_spectrum.
Local Open Scope R_scope.

Lemma C06_counts_correction_exchange_refuted :
  exists p, 0 < p_lambda_p p /\ 0 < p_lambda_s p /\ 0 < p_lambda_i p /\ 0 < p_n_s0 p /\ 0 < p_n_i0 p /\ 0 < p_n_p0 p /\
            0 < p_ng_s p /\ 0 < p_ng_i p /\ 0 < p_ng_p p /\
            pm_counts_correction (pm_swap p) <> pm_counts_correction p.
Proof.
  exists pm_example. unfold pm_counts_correction.
  cbn [pm_swap pm_example p_lambda_i p_lambda_s p_ng_s p_ng_i p_ng_p p_lambda_p p_n_s0 p_n_i0 p_n_p0].
  repeat split; lra.
Qed.

(* in general: whenever the two group indices differ (all type-2 setups, all non-degenerate setups) *)
Lemma C06_counts_correction_exchange_refuted_general p :
  0 < p_lambda_p p -> 0 < p_lambda_s p -> 0 < p_lambda_i p -> 0 < p_n_s0 p -> 0 < p_n_i0 p -> 0 < p_n_p0 p ->
  0 < p_ng_s p -> 0 < p_ng_p p -> p_ng_s p <> p_ng_i p ->
  pm_counts_correction (pm_swap p) <> pm_counts_correction p.
Proof.
  intros Hlp Hls Hli Hns Hni Hnp Hgs Hgp Hne H.
  pose proof (counts_correction_exchange p ltac:(lra) ltac:(lra) ltac:(lra) ltac:(lra)) as E.
  rewrite H in E.
  assert (Hc : 0 < pm_counts_correction p).
  { unfold pm_counts_correction. apply Rdiv_lt_0_compat.
    - repeat apply Rmult_lt_0_compat; assumption.
    - repeat apply Rmult_lt_0_compat; try assumption; lra. }
  apply Hne. nra.
Qed.
