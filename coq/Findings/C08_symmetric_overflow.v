(* C08 finding: efficiencies_from_counts computes the symmetric efficiency as  C * S / sqrt(Rs * Ri * S * S)  in binary64.
   For non-negative finite rates whose PRODUCT leaves the binary64 range the result is not C / sqrt(Rs Ri):
   it is +inf when the product underflows to 0 and 0 when it overflows to +inf — although the exact value is finite (here 1).
   The real-number model (generated efficiencies_from_counts) gives 1; Coq's primitive binary64 floats evaluate the code's
   expression to infinity / zero.  Proposed patch: `c / rs.sqrt() / ri.sqrt()`.  Never imported by Props/. *)
From Coq Require Import Reals Lra Floats.
From SpdVerif Require Import Base.Rx Gen.Efficiencies Proofs.C08_efficiency.
Local Open Scope R_scope.

(* exact value: equal positive rates give symmetric efficiency 1 *)
Lemma symmetric_equal_rates x : 0 < x -> eff_symmetric (efficiencies_from_counts x x x) = 1.
Proof.
  intros Hx. destruct (efficiencies_values x x x) as (_ & _ & _ & _ & Y1 & _). rewrite Y1 by lra.
  rewrite sqrt_square by lra. field. lra.
Qed.

(* binary64 evaluation of the code's expression  c * 1 / sqrt(rs * ri * 1 * 1)  (S = 1 in the UCUM base) *)
Definition symmetric_b64 (c rs ri : float) : float :=
  PrimFloat.div (PrimFloat.mul c 1%float) (PrimFloat.sqrt (PrimFloat.mul (PrimFloat.mul (PrimFloat.mul rs ri) 1%float) 1%float)).

Lemma C08_symmetric_underflow_refuted : symmetric_b64 1e-300%float 1e-300%float 1e-300%float = infinity.
Proof. vm_compute. reflexivity. Qed.

Lemma C08_symmetric_overflow_refuted : symmetric_b64 1e300%float 1e300%float 1e300%float = 0%float.
Proof. vm_compute. reflexivity. Qed.

(* the proposed patch evaluates to 1 (up to rounding) on the same inputs *)
Definition symmetric_b64_patched (c rs ri : float) : float := PrimFloat.div (PrimFloat.div c (PrimFloat.sqrt rs)) (PrimFloat.sqrt ri).
Lemma patched_underflow_case : PrimFloat.ltb (PrimFloat.abs (PrimFloat.sub (symmetric_b64_patched 1e-300%float 1e-300%float 1e-300%float) 1%float)) 1e-15%float = true.
Proof. vm_compute. reflexivity. Qed.
Lemma patched_overflow_case : PrimFloat.ltb (PrimFloat.abs (PrimFloat.sub (symmetric_b64_patched 1e300%float 1e300%float 1e300%float) 1%float)) 1e-15%float = true.
Proof. vm_compute. reflexivity. Qed.
