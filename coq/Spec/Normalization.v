(* Hand-pinned reference forms for C07 (the physics the code's doc comments and the property text state), against which the
   GENERATED definitions are proved equal.  Pinned by hand: c = 299792458 m/s, eps0 = 8.854187817e-12 F/m expressed in the
   UCUM base of the `dimensioned` crate (gram, not kilogram: 1 F = 1e-3 kF), the 2/pi first-order poling coefficient, and the
   structure  norm ∝ Wp² · (deff·L)² · ωs·ωi/(ns·ni)² · P / σ. *)
From Coq Require Import Reals.
Local Open Scope R_scope.

Definition spec_c : R := 299792458.
Definition spec_eps0 : R := 8.854187817e-12 * 1e-3.

(* angular frequency of a vacuum wavelength and back *)
Definition spec_omega_of_lambda (l : R) : R := 2 * PI * spec_c / l.

(* frequency span of a wavelength FWHM f centred at wavelength l, and the 1/e amplitude half-width of the Gaussian whose
   INTENSITY has that span as full width at half maximum:  exp(-2 (Δ/w)²)|_{Δ = span/2} = 1/2  <=>  w = span / sqrt(2 ln 2) *)
Definition spec_span (l f : R) : R := spec_omega_of_lambda (l - f / 2) - spec_omega_of_lambda (l + f / 2).
Definition spec_width (l f : R) : R := spec_span l f / sqrt (2 * ln 2).

(* poling coefficient: 1 without poling, 2/pi for first-order quasi-phasematching *)
Definition spec_poling_coeff (off : bool) : R := if off then 1 else 2 / PI.

Definition spec_common_norm (off : bool) (wpx wpy deff len power sigma ws wi ns ni : R) : R :=
  (2 * PI) ^ 3 * (spec_poling_coeff off ^ 2 / (4 * PI ^ 5 * sqrt (2 * PI) * spec_c ^ 3 * spec_eps0))
  * (wpx * wpy) * (deff * len) ^ 2 * (ws * wi / (ns * ni) ^ 2) * power / sigma.
