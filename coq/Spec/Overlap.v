(* C08: the property's closed forms for the no-diffraction limit of coincidences / signal singles, as definitions
   (hand-pinned from the property text).  Integrals are Coquelicot Riemann integrals. *)
From Coq Require Import Reals.
From Coquelicot Require Import Coquelicot.
Local Open Scope R_scope.

(* heralded-mode radius: 1/Wh² = 1/Wp² + 1/Ws² *)
Definition W_h (Wp Ws : R) : R := / sqrt (/ (Wp ^ 2) + / (Ws ^ 2)).

(* Gaussian mode overlap *)
Definition eta (Wi Wh : R) : R := (2 * Wi * Wh / (Wi ^ 2 + Wh ^ 2)) ^ 2.

(* error function and the pump walk-off factor of the coincidence peak  F(x) = sqrt(pi) erf(x) / (2x),  F(0) = 1 *)
Definition erf (x : R) : R := 2 / sqrt PI * RInt (fun t => exp (- t ^ 2)) 0 x.
Definition F_walkoff (x : R) : R := if Req_EM_T x 0 then 1 else sqrt PI * erf x / (2 * x).

(* singles counterpart: R = 1/4 ∬_{[-1,1]²} exp(-(d1²+d2²)/Wp² + (d1+d2)² Ws² / (2 Wp² (Wp²+Ws²))) dz1 dz2,
   d = 1/2 · L · tan(rho) · (1 + z) *)
Definition walk_d (L tanrho z : R) : R := / 2 * L * tanrho * (1 + z).
Definition R_exponent (Wp Ws d1 d2 : R) : R :=
  - (d1 ^ 2 + d2 ^ 2) / Wp ^ 2 + (d1 + d2) ^ 2 * Ws ^ 2 / (2 * Wp ^ 2 * (Wp ^ 2 + Ws ^ 2)).
Definition R_integrand (Wp Ws L tanrho z1 z2 : R) : R :=
  exp (R_exponent Wp Ws (walk_d L tanrho z1) (walk_d L tanrho z2)).
Definition R_walkoff (Wp Ws L tanrho : R) : R :=
  / 4 * RInt (fun z1 => RInt (fun z2 => R_integrand Wp Ws L tanrho z1 z2) (-1) 1) (-1) 1.

(* argument of F: L tan(rho) over the 1/e overlap radius of the walked-off pump with the product of the two collection
   modes, sqrt(Wp² + Wsi²) with 1/Wsi² = 1/Ws² + 1/Wi² (the property text leaves x implicit) *)
Definition walk_x (Wp Ws Wi L tanrho : R) : R := Rabs (L * tanrho) / sqrt (Wp ^ 2 + / (/ Ws ^ 2 + / Wi ^ 2)).

(* the property's limit value of  coincidence intensity / signal-singles intensity  at perfect phase matching *)
Definition limit_ratio (Wp Ws Wi L tanrho : R) : R :=
  eta Wi (W_h Wp Ws) * F_walkoff (walk_x Wp Ws Wi L tanrho) ^ 2 / R_walkoff Wp Ws L tanrho.
