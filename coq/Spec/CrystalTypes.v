(* Hand-pinned types for the crystal tables (mirrors of src/crystal/meta.rs and the CrystalType enum).
   The translator checks that the enum's built-in variants are exactly these, in this order. *)
From Coq Require Import Reals String.

Inductive crystal :=
  BBO_1 | KTP | BiBO_1 | LiNbO3_1 | LiNb_MgO | KDP_1 | AgGaSe2_1 | AgGaSe2_2 | LiIO3_2 | LiIO3_1 | AgGaS2_1.

Definition all_crystals :=
  (BBO_1 :: KTP :: BiBO_1 :: LiNbO3_1 :: LiNb_MgO :: KDP_1 :: AgGaSe2_1 :: AgGaSe2_2 :: LiIO3_2 :: LiIO3_1 :: AgGaS2_1 :: nil)%list.

Inductive OpticAxisType := PositiveUniaxial | NegativeUniaxial | PositiveBiaxial | NegativeBiaxial.

Inductive PointGroup :=
  HM_1 | HM_i1 | HM_2 | HM_m | HM_2sm | HM_222 | HM_mm2 | HM_mmm | HM_4 | HM_i4 | HM_4sm | HM_422 | HM_4mm | HM_i42m
| HM_4smmm | HM_3 | HM_i3 | HM_32 | HM_3m | HM_i3m | HM_6 | HM_i6 | HM_6sm | HM_622 | HM_6mm | HM_i62m | HM_6smmm
| HM_23 | HM_mi3 | HM_432 | HM_i43m | HM_mi3m.

Record crystal_meta := {
  meta_id : string;
  meta_name : string;
  meta_url : string;
  meta_axis : OpticAxisType;
  meta_group : PointGroup;
  meta_range : option (R * R);       (* metres *)
  meta_temp_known : bool
}.

Lemma all_crystals_complete c : List.In c all_crystals.
Proof. destruct c; simpl; tauto. Qed.
