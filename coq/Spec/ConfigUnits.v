(* Hand-pinned unit table of the exported configuration (what C16 states): every numeric field of the configuration a
   setup is converted to is the setup's physical value, in the unit the field's name carries, rounded to 4 decimals
   (f64::round: ties away from zero).  The idler waist position is the one field the code has exported UNROUNDED; whether it
   is rounded is the parameter [rz] (instantiated with the flag the generator reads off the source).
   Over the reals; the generated conversion (Gen/ConfigConv.v, from src/spdc/config/*.rs) is proved equal to this. *)
From Coq Require Import Reals String List.
From SpdVerif Require Import Base.Rx Base.CfgNumOps Spec.ConfigSpec Model.ConfigTypes.
Local Open Scope R_scope.

Definition round4 (x : R) : R := round_half_away (x * 10000) / 10000.

Definition deg : R := PI / 180.          (* rad per degree *)
Definition micro : R := / 1000000.       (* m per um *)
Definition nano : R := / 1000000000.     (* m per nm *)
Definition pico : R := / 1000000000000.
Definition celsius_of_kelvin (t : R) : R := t - 27315 / 100.

Definition beam_spec (b : beam R) (waist_position_um : R) : beam_cfg R :=
  {| bc_wavelength_nm := round4 (b_wavelength b / nano);
     bc_phi_deg := round4 (b_phi b / deg);
     bc_theta_deg := Some (round4 (b_theta b / deg));      (* always the INTERNAL angle *)
     bc_theta_ext_deg := None;
     bc_waist_um := round4 (b_waist b / micro);
     bc_waist_pos_um := Param waist_position_um |}.

Definition apod_spec (rg : bool) (a : apod R) : apod_cfg R :=
  match a with
  | AOff => ACOff | AGaussian f => ACGaussian (if rg then round4 (f / micro) else f / micro)
  | ABartlett x => ACBartlett x | ABlackman x => ACBlackman x | AConnes x => ACConnes x | ACosine x => ACCosine x
  | AHamming x => ACHamming x | AWelch x => ACWelch x | AInterpolate l => ACInterpolate l
  end.

(* magnitude of the period; the sign is dropped (re-derived on import) *)
Definition poling_spec (rg : bool) (pp : poling R) : pp_cfg R :=
  match pp with
  | PolOff => PCOff
  | PolOn period _ a => PCConfig (Param (round4 (period / micro))) (apod_spec rg a)
  end.

(* rz / rg: whether the idler waist position / the Gaussian apodization FWHM are rounded like every other number (the two
   fields the code has exported unrounded; instantiated with the flags the generator reads off the source) *)
Definition as_config_spec (rz rg : bool) (U : units R) (s : spdc R) : spdc_cfg R :=
  {| c_crystal :=
       {| cc_kind := cs_kind (s_crystal s); cc_pm := cs_pm (s_crystal s);
          cc_phi_deg := round4 (cs_phi (s_crystal s) / deg);
          cc_theta_deg := Param (round4 (cs_theta (s_crystal s) / deg));      (* explicit, never "auto" *)
          cc_length_um := round4 (cs_length (s_crystal s) / micro);
          cc_temperature_c := round4 (celsius_of_kelvin (cs_temperature (s_crystal s)));
          cc_counter := cs_counter (s_crystal s) |};
     c_pump :=
       {| pc_wavelength_nm := round4 (b_wavelength (s_pump s) / nano);
          pc_waist_um := round4 (b_waist (s_pump s) / micro);
          pc_bandwidth_nm := round4 (s_bandwidth s / nano);
          pc_power_mw := round4 (s_power s / u_milliw U);
          pc_threshold := Some (s_threshold s) |};
     c_signal := beam_spec (s_signal s) (round4 (s_zs s / micro));
     c_idler := Param (beam_spec (s_idler s) (if rz then round4 (s_zi s / micro) else s_zi s / micro));   (* explicit *)
     c_pp := poling_spec rg (s_pp s);
     c_deff := round4 (s_deff s / (pico / u_volt U)) |}.
