(* Hand-pinned reference data for C01: the published Sellmeier and thermo-optic equations of the eleven built-in
   crystals, transcribed from the formulas quoted in the source's doc comments / reference pages at the pinned commit.
   Units: wavelength l in micrometres, temperature T in degrees Celsius.

   Every index has the form   n(l, T) = sqrt (S(l^2)) + dn * (T - 20)
   with  S(x) = A + sum_i B_i x / (x - C_i) + sum_j B'_j / (x - C'_j) - D x.
   (B / (1 - (c/l)^2) is the same as B x / (x - c^2).)

   Noted discrepancy: the doc comment of linbo3_1.rs prints the n_e pole as 0.04443, the code and the vendor handbook
   have 0.044432; 0.044432 is pinned here. *)
From Coq Require Import Reals List.
From SpdVerif Require Import Spec.CrystalTypes.
Import ListNotations.
Local Open Scope R_scope.

Inductive axis := AX | AY | AZ.

Record sellmeier := {
  sA : R;
  sP1 : list (R * R);   (* terms B x / (x - C) *)
  sP2 : list (R * R);   (* terms B / (x - C) *)
  sD : R
}.

Definition t1 (p : R * R) (x : R) : R := fst p * x / (x - snd p).
Definition t2 (p : R * R) (x : R) : R := fst p / (x - snd p).

Fixpoint sum_terms (t : R * R -> R -> R) (l : list (R * R)) (x : R) : R :=
  match l with
  | [] => 0
  | p :: r => t p x + sum_terms t r x
  end.

Definition sell_eval (s : sellmeier) (x : R) : R :=
  sA s + sum_terms t1 (sP1 s) x + sum_terms t2 (sP2 s) x - sD s * x.

(* Gayer et al., Appl. Phys. B 91, 343 (2008), eq. (3): temperature parameter *)
Definition gayer_f (T : R) : R := (T - 24.5) * (T + 570.82).

Definition pub_sell (c : crystal) (ax : axis) (l T : R) : sellmeier :=
  match c, ax with
  | BBO_1, (AX | AY) => {| sA := 2.7359; sP1 := []; sP2 := [(0.01878, 0.01822)]; sD := 0.01354 |}
  | BBO_1, AZ => {| sA := 2.3753; sP1 := []; sP2 := [(0.01224, 0.01667)]; sD := 0.01516 |}
  | KTP, AX => {| sA := 2.10468; sP1 := [(0.89342, 0.04438)]; sP2 := []; sD := 0.01036 |}
  | KTP, AY =>
      if Rlt_dec l 1.2
      then {| sA := 2.14559; sP1 := [(0.87629, 0.0485)]; sP2 := []; sD := 0.01173 |}
      else {| sA := 2.0993; sP1 := [(0.922683, 0.0467695)]; sP2 := []; sD := 0.0138408 |}
  | KTP, AZ => {| sA := 1.9446; sP1 := [(1.3617, 0.047)]; sP2 := []; sD := 0.01491 |}
  | BiBO_1, AX => {| sA := 3.074; sP1 := []; sP2 := [(0.0323, 0.0316)]; sD := 0.01337 |}
  | BiBO_1, AY => {| sA := 3.1685; sP1 := []; sP2 := [(0.0373, 0.0346)]; sD := 0.0175 |}
  | BiBO_1, AZ => {| sA := 3.6545; sP1 := []; sP2 := [(0.0511, 0.0371)]; sD := 0.0226 |}
  | LiNbO3_1, (AX | AY) => {| sA := 4.9048; sP1 := []; sP2 := [(0.11768, 0.0475)]; sD := 0.027169 |}
  | LiNbO3_1, AZ => {| sA := 4.582; sP1 := []; sP2 := [(0.099169, 0.044432)]; sD := 0.02195 |}
  | LiNb_MgO, (AX | AY) =>
      let f := gayer_f T in
      {| sA := 5.653 + 7.941e-7 * f; sP1 := [];
         sP2 := [(0.1185 + 3.134e-8 * f, (0.2091 + -4.641e-9 * f) ^ 2); (89.61 + -2.188e-6 * f, 10.85 ^ 2)];
         sD := 1.97e-2 |}
  | LiNb_MgO, AZ =>
      let f := gayer_f T in
      {| sA := 5.756 + 2.86e-6 * f; sP1 := [];
         sP2 := [(0.0983 + 4.7e-8 * f, (0.202 + 6.113e-8 * f) ^ 2); (189.32 + 1.516e-4 * f, 12.52 ^ 2)];
         sD := 1.32e-2 |}
  | KDP_1, (AX | AY) => {| sA := 2.259276; sP1 := [(13.005522, 400)]; sP2 := [(0.01008956, 0.012942625)]; sD := 0 |}
  | KDP_1, AZ => {| sA := 2.132668; sP1 := [(3.2279924, 400)]; sP2 := [(0.008637494, 0.012281043)]; sD := 0 |}
  | AgGaSe2_1, (AX | AY) => {| sA := 3.9362; sP1 := [(2.9113, 0.38821 ^ 2); (1.7954, 40 ^ 2)]; sP2 := []; sD := 0 |}
  | AgGaSe2_1, AZ => {| sA := 3.3132; sP1 := [(3.3616, 0.38201 ^ 2); (1.7677, 40 ^ 2)]; sP2 := []; sD := 0 |}
  | AgGaSe2_2, (AX | AY) => {| sA := 4.6453; sP1 := [(2.2057, 0.43347 ^ 2); (1.8377, 40 ^ 2)]; sP2 := []; sD := 0 |}
  | AgGaSe2_2, AZ => {| sA := 5.2912; sP1 := [(1.397, 0.53339 ^ 2); (1.9282, 40 ^ 2)]; sP2 := []; sD := 0 |}
  | LiIO3_2, (AX | AY) => {| sA := 3.4095; sP1 := []; sP2 := [(0.047664, 0.033991)]; sD := 0 |}
  | LiIO3_2, AZ => {| sA := 2.9163; sP1 := []; sP2 := [(0.034514, 0.031034)]; sD := 0 |}
  | LiIO3_1, (AX | AY) => {| sA := 2.03132; sP1 := [(1.37623, 0.0350832); (1.06745, 169)]; sP2 := []; sD := 0 |}
  | LiIO3_1, AZ => {| sA := 1.83086; sP1 := [(1.08807, 0.031381); (0.554582, 158.76)]; sP2 := []; sD := 0 |}
  | AgGaS2_1, (AX | AY) => {| sA := 3.628; sP1 := [(2.1686, 0.1003); (2.1753, 950)]; sP2 := []; sD := 0 |}
  | AgGaS2_1, AZ => {| sA := 4.0172; sP1 := [(1.5274, 0.131); (2.1699, 950)]; sP2 := []; sD := 0 |}
  end.

(* linear thermo-optic coefficient dn/dT (per kelvin), reference temperature 20 C; 0 where the published law has none
   (LiNb_MgO's temperature dependence is inside its Sellmeier coefficients) *)
Definition pub_dn (c : crystal) (ax : axis) : R :=
  match c, ax with
  | BBO_1, (AX | AY) => -9.3e-6
  | BBO_1, AZ => -16.6e-6
  | KTP, AX => 1.1e-5
  | KTP, AY => 1.3e-5
  | KTP, AZ => 1.6e-5
  | LiNbO3_1, (AX | AY) => -0.874e-6
  | LiNbO3_1, AZ => 39.073e-6
  | AgGaSe2_1, _ => 15e-5
  | AgGaSe2_2, _ => 15e-5
  | AgGaS2_1, (AX | AY) => 15.4e-5
  | AgGaS2_1, AZ => 15.5e-5
  | _, _ => 0
  end.

Definition published (c : crystal) (ax : axis) (l T : R) : R :=
  sqrt (sell_eval (pub_sell c ax l T) (l ^ 2)) + pub_dn c ax * (T - 20).

(* the optical range the property names: 100 nm – 20 um, in metres *)
Definition optical_lo : R := 100e-9.
Definition optical_hi : R := 20e-6.

Definition proj (ax : axis) (v : R * R * R) : R :=
  match ax with AX => fst (fst v) | AY => snd (fst v) | AZ => snd v end.
