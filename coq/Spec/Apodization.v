(* Hand-pinned reference: the apodization functions as published (https://mathworld.wolfram.com/ApodizationFunction.html,
   the reference quoted in src/spdc/periodic_poling.rs), in the variable x with half-width a, and the Gaussian of standard
   deviation sigma.  Transcribed by hand; used by C19_matches_published. *)
From Coq Require Import Reals.
Local Open Scope R_scope.

Definition pub_bartlett (a x : R) : R := 1 - Rabs x / a.
Definition pub_blackman (a x : R) : R := 21 / 50 + 1 / 2 * cos (PI * x / a) + 2 / 25 * cos (2 * PI * x / a).
Definition pub_connes (a x : R) : R := (1 - x ^ 2 / a ^ 2) ^ 2.
Definition pub_cosine (a x : R) : R := cos (PI * x / (2 * a)).
Definition pub_hamming (a x : R) : R := 27 / 50 + 23 / 50 * cos (PI * x / a).
Definition pub_welch (a x : R) : R := 1 - x ^ 2 / a ^ 2.
(* Gaussian of standard deviation sigma at physical position x *)
Definition pub_gaussian (sigma x : R) : R := exp (- x ^ 2 / (2 * sigma ^ 2)).
(* FWHM = 2 sqrt (2 ln 2) sigma *)
Definition pub_sigma_of_fwhm (fwhm : R) : R := fwhm / (2 * sqrt (2 * ln 2)).
