(* Hand-pinned reference data for C16/C17/C20: the enums (mirrors of src/spdc/pm_type.rs and
   src/crystal/polarization_type.rs; the generator tools/gen/config.py checks that the source declares exactly these
   variants in this order), the documented spellings, and the documented defaults. *)
From Coq Require Import String List Ascii QArith.
Import ListNotations.
Local Open Scope string_scope.

Inductive pm_type := Type0_o_oo | Type0_e_ee | Type1_e_oo | Type2_e_eo | Type2_e_oe.
Inductive polarization := Ordinary | Extraordinary.

Definition all_pm_types := [Type0_o_oo; Type0_e_ee; Type1_e_oo; Type2_e_eo; Type2_e_oe].
Definition all_polarizations := [Ordinary; Extraordinary].

Definition pm_eqb (a b : pm_type) : bool :=
  match a, b with
  | Type0_o_oo, Type0_o_oo | Type0_e_ee, Type0_e_ee | Type1_e_oo, Type1_e_oo
  | Type2_e_eo, Type2_e_eo | Type2_e_oe, Type2_e_oe => true
  | _, _ => false
  end.
Definition pol_eqb (a b : polarization) : bool :=
  match a, b with Ordinary, Ordinary | Extraordinary, Extraordinary => true | _, _ => false end.

(* What a phase-matching type's NAME states: the type number and the pump / signal / idler polarizations
   (doc comments of the enum: "Type 0: o -> o + o", "Type 2: e -> e + o", ...). *)
Definition pol_letter (p : polarization) : string := match p with Ordinary => "o" | Extraordinary => "e" end.

Record pm_name := { pn_digit : string; pn_pump : polarization; pn_signal : polarization; pn_idler : polarization }.

Definition pm_name_of (t : pm_type) : pm_name :=
  match t with
  | Type0_o_oo => {| pn_digit := "0"; pn_pump := Ordinary;      pn_signal := Ordinary;      pn_idler := Ordinary |}
  | Type0_e_ee => {| pn_digit := "0"; pn_pump := Extraordinary; pn_signal := Extraordinary; pn_idler := Extraordinary |}
  | Type1_e_oo => {| pn_digit := "1"; pn_pump := Extraordinary; pn_signal := Ordinary;      pn_idler := Ordinary |}
  | Type2_e_eo => {| pn_digit := "2"; pn_pump := Extraordinary; pn_signal := Extraordinary; pn_idler := Ordinary |}
  | Type2_e_oe => {| pn_digit := "2"; pn_pump := Extraordinary; pn_signal := Ordinary;      pn_idler := Extraordinary |}
  end.

(* The canonical printed form "Type<d>_<p>_<s><i>" assembled from what the name states. *)
Definition pm_canonical (t : pm_type) : string :=
  let n := pm_name_of t in
  "Type" ++ pn_digit n ++ "_" ++ pol_letter (pn_pump n) ++ "_" ++ pol_letter (pn_signal n) ++ pol_letter (pn_idler n).

(* Documented spellings.  The doc comment of `impl FromStr for PMType` lists
      "ooo", "o-oo", "Type2 e eo", "type 2 e->eo", "Type_2_e_eo"
   and the configuration examples of the crate (README, SPDC doc comment, config tests) use "e->eo".
   Each form is instantiated for every type. *)
Definition spelling_forms (d p s i : string) : list string :=
  [ p ++ s ++ i;                                   (* "ooo" *)
    p ++ "-" ++ s ++ i;                            (* "o-oo" *)
    p ++ "->" ++ s ++ i;                           (* "e->eo" *)
    "Type" ++ d ++ " " ++ p ++ " " ++ s ++ i;      (* "Type2 e eo" *)
    "type " ++ d ++ " " ++ p ++ "->" ++ s ++ i;    (* "type 2 e->eo" *)
    "Type_" ++ d ++ "_" ++ p ++ "_" ++ s ++ i;     (* "Type_2_e_eo" *)
    "Type" ++ d ++ "_" ++ p ++ "_" ++ s ++ i;      (* the printed form *)
    "TYPE" ++ d ++ "_" ++ p ++ "_" ++ s ++ i ].    (* matching is case-insensitive *)

Definition documented_spellings (t : pm_type) : list string :=
  let n := pm_name_of t in
  spelling_forms (pn_digit n) (pol_letter (pn_pump n)) (pol_letter (pn_signal n)) (pol_letter (pn_idler n)).

(* the literal examples of the doc comment, as written there *)
Definition doc_examples : list (string * pm_type) :=
  [ ("ooo", Type0_o_oo); ("o-oo", Type0_o_oo); ("Type2 e eo", Type2_e_eo); ("type 2 e->eo", Type2_e_eo);
    ("Type_2_e_eo", Type2_e_eo); ("e->eo", Type2_e_eo) ].

(* polarization spellings: "o" | "ordinary", "e" | "extraordinary", any letter case *)
Definition pol_spellings (p : polarization) : list string :=
  match p with
  | Ordinary => ["o"; "ordinary"; "O"; "Ordinary"; "ORDINARY"]
  | Extraordinary => ["e"; "extraordinary"; "E"; "Extraordinary"; "EXTRAORDINARY"]
  end.
Definition pol_printed (p : polarization) : string :=
  match p with Ordinary => "Ordinary" | Extraordinary => "Extraordinary" end.

(* Documented defaults of omitted optional configuration fields (doc comments / serde(default) / Default impls):
   crystal.phi_deg = 0, crystal.theta_deg = "auto", counter_propagation = false, signal.phi_deg = 0,
   waist_position_um = "auto", idler = "auto", periodic_poling = off, apodization = off,
   pump.spectrum_threshold = 1e-2 ("If unset, defaults to 1e-2"), 4 decimals in exported configurations. *)
Definition spec_spectrum_threshold : Q := 1 # 100.
(* what an OMITTED field of the JSON text means, field by field (every field that may be omitted; all others are required) *)
Definition spec_omitted_values : list (string * string) :=
  [ ("CrystalConfig.phi_deg", "0"); ("CrystalConfig.theta_deg", "auto"); ("CrystalConfig.counter_propagation", "false");
    ("SignalConfig.phi_deg", "0"); ("SignalConfig.waist_position_um", "auto");
    ("IdlerConfig.phi_deg", "0"); ("IdlerConfig.waist_position_um", "auto");
    ("SPDCConfig.idler", "auto"); ("SPDCConfig.periodic_poling", "Off");
    ("PeriodicPolingConfig.Config.apodization", "Off") ].
Definition spec_config_decimals : Z := 4.
(* Default::default() of the configuration: KTP, type-2 e->eo, 2000 um, 20 C; 775 nm pump, 100 um waist, 5.53 nm,
   1 mW; 1550 nm signal, collinear, 100 um waist, deff 1 pm/V. *)
Definition spec_default_numbers : list (string * Q) :=
  [ ("crystal.phi_deg", 0); ("crystal.length_um", 2000); ("crystal.temperature_c", 20);
    ("pump.wavelength_nm", 775); ("pump.waist_um", 100); ("pump.bandwidth_nm", 553 # 100); ("pump.average_power_mw", 1);
    ("pump.spectrum_threshold", 1 # 100);
    ("signal.wavelength_nm", 1550); ("signal.phi_deg", 0); ("signal.theta_deg", 0); ("signal.waist_um", 100);
    ("deff_pm_per_volt", 1) ]%Q.
