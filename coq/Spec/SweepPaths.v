(* Hand-pinned reference for C18: the 25 documented sweep paths (JSON configuration paths of SPDCConfig), the quantity each
   one names and the unit of the value.  Independent of the generated files.
   Units: nm, um (micrometre), deg, degrees Celsius, mW, pm/V, THz = 1e12 cycles per second (angular frequency 2 pi v 1e12 rad/s). *)
From Coq Require Import Reals String List.
Import ListNotations.
Local Open Scope R_scope.
Local Open Scope string_scope.

Inductive beam_id : Type := BSignal | BIdler | BPump.

Inductive unit_kind : Type := UDeg | UUm | UNm | UCelsius | UMw | UPmV | UThz.

(* the stored quantity a path names *)
Inductive slot : Type :=
  | SCrystalPhi | SCrystalTheta | SCrystalLength | SCrystalTemperature
  | SBeamTheta (b : beam_id)            (* internal polar angle *)
  | SBeamThetaExternal (b : beam_id)    (* external polar angle: stored as the Snell-equivalent internal angle *)
  | SBeamPhi (b : beam_id)
  | SBeamFrequency (b : beam_id)        (* centre frequency *)
  | SBeamWavelength (b : beam_id)       (* vacuum wavelength, stored as the angular frequency 2 pi c / lambda *)
  | SBeamWaist (b : beam_id)
  | SWaistPosition (b : beam_id)
  | SPumpPower | SPumpBandwidth
  | SPolingPeriod                       (* magnitude; the sign is derived automatically *)
  | SDeff.

Definition spec_table : list (string * (slot * unit_kind)) :=
  [ ("crystal.phi_deg", (SCrystalPhi, UDeg));
    ("crystal.theta_deg", (SCrystalTheta, UDeg));
    ("crystal.length_um", (SCrystalLength, UUm));
    ("crystal.temperature_c", (SCrystalTemperature, UCelsius));
    ("signal.theta_deg", (SBeamTheta BSignal, UDeg));
    ("signal.theta_external_deg", (SBeamThetaExternal BSignal, UDeg));
    ("signal.phi_deg", (SBeamPhi BSignal, UDeg));
    ("signal.frequency_thz", (SBeamFrequency BSignal, UThz));
    ("signal.wavelength_nm", (SBeamWavelength BSignal, UNm));
    ("signal.waist_um", (SBeamWaist BSignal, UUm));
    ("signal.waist_position_um", (SWaistPosition BSignal, UUm));
    ("idler.theta_deg", (SBeamTheta BIdler, UDeg));
    ("idler.theta_external_deg", (SBeamThetaExternal BIdler, UDeg));
    ("idler.phi_deg", (SBeamPhi BIdler, UDeg));
    ("idler.frequency_thz", (SBeamFrequency BIdler, UThz));
    ("idler.wavelength_nm", (SBeamWavelength BIdler, UNm));
    ("idler.waist_um", (SBeamWaist BIdler, UUm));
    ("idler.waist_position_um", (SWaistPosition BIdler, UUm));
    ("pump.frequency_thz", (SBeamFrequency BPump, UThz));
    ("pump.wavelength_nm", (SBeamWavelength BPump, UNm));
    ("pump.waist_um", (SBeamWaist BPump, UUm));
    ("pump.average_power_mw", (SPumpPower, UMw));
    ("pump.bandwidth_nm", (SPumpBandwidth, UNm));
    ("periodic_poling.poling_period_um", (SPolingPeriod, UUm));
    ("deff_pm_per_volt", (SDeff, UPmV)) ].

(* value in the unit -> SI value (kelvin for temperatures, rad/s for frequencies) *)
Definition si_of (u : unit_kind) (v : R) : R :=
  match u with
  | UDeg => v * (PI / 180)
  | UUm => v * 1e-6
  | UNm => v * 1e-9
  | UCelsius => v + 273.15
  | UMw => v * 1e-3
  | UPmV => v * 1e-12
  | UThz => 2 * PI * (v * 1e12)
  end.

Definition beam_name (b : beam_id) : string :=
  match b with BSignal => "signal" | BIdler => "idler" | BPump => "pump" end.

(* the configuration field through which the slot is observed *)
Definition config_key (sl : slot) : string :=
  match sl with
  | SCrystalPhi => "crystal.phi_deg"
  | SCrystalTheta => "crystal.theta_deg"
  | SCrystalLength => "crystal.length_um"
  | SCrystalTemperature => "crystal.temperature_c"
  | SBeamTheta b | SBeamThetaExternal b => beam_name b ++ ".theta_deg"
  | SBeamPhi b => beam_name b ++ ".phi_deg"
  | SBeamFrequency b | SBeamWavelength b => beam_name b ++ ".wavelength_nm"
  | SBeamWaist b => beam_name b ++ ".waist_um"
  | SWaistPosition b => beam_name b ++ ".waist_position_um"
  | SPumpPower => "pump.average_power_mw"
  | SPumpBandwidth => "pump.bandwidth_nm"
  | SPolingPeriod => "periodic_poling.poling_period_um"
  | SDeff => "deff_pm_per_volt"
  end.

(* speed of light, m/s *)
Definition c_light : R := 299792458.
