(* C06 — property theorems.  This file contains statements, `exact` proofs, non-vacuity examples and Print Assumptions only.

   pm_integrand, pm_jsa, pm_jsi, pm_counts_* … are GENERATED from the Rust source on every run (Gen/PMIntegrand.v, generator
   tools/gen/pm_integrand.py); p : pm_params collects the scalars the code reads from the SPDC object at one frequency pair;
   pm_swap is SPDC::with_swapped_signal_idler composed with the exchange of the two frequency arguments (the harness checks on every
   run that the Rust scalars of the exchanged setup are bit-for-bit pm_swap of the setup's).  Q is `integrator.integrate`: an
   arbitrary functional. *)
From Coq Require Import Reals List String.
From Coquelicot Require Import Coquelicot.
From SpdVerif Require Import Base.Rx Base.CxPM Model.PMParams Gen.PMIntegrand Proofs.C06_algebra Proofs.C06_swap Proofs.C06_defined
  Proofs.C06_spectrum Proofs.C07_counts Proofs.C06_cells.
Local Open Scope R_scope.

(* the two algebraic identities: the exponent of the integrand in manifestly exchange-symmetric form, for arbitrary complex A1..A10 *)
Theorem C06_exponent_identities : forall A1 A2 A3 A4 A5 A6 A7 A8 A9 A10 : C,
  A1 <> RtoC 0 -> A2 <> RtoC 0 -> pm_det A1 A3 A8 <> RtoC 0 -> pm_det A2 A4 A9 <> RtoC 0 ->
  pm_expo A1 A2 A3 A4 A5 A6 A7 A8 A9 A10 = pm_expo_sym A1 A2 A3 A4 A5 A6 A7 A8 A9 A10.
Proof. exact pm_expo_reduced. Qed.

(* every complex division of the integrand is defined, for every z, once the collection modes have positive area and the exit
   angles are short of grazing *)
Theorem C06_integrand_defined : forall p z, pm_physical p ->
  pm_expo_defined p z /\ pm_denominator p z <> RtoC 0.
Proof. exact (fun p z H => conj (physical_expo_defined p H z) (physical_denominator_nonzero p H z)). Qed.

(* ... and every real division (1/k, 0.5/ks_f, |k|/n, sec^2) has a non-zero divisor for positive indices and frequencies *)
Theorem C06_real_divisions_defined : forall p, pm_physical_real p ->
  pm_k_s p <> 0 /\ pm_k_i p <> 0 /\ pm_k_p p <> 0 /\ pm_ks_f p <> 0 /\ pm_ki_f p <> 0 /\
  p_n_s p <> 0 /\ p_n_i p <> 0 /\ pm_M2 p <> 0 /\
  cos (p_theta_s_e p / 1) ^ 2 <> 0 /\ cos (p_theta_i_e p / 1) ^ 2 <> 0.
Proof. exact real_divisions_defined. Qed.

(* clause 1: integrand(exchanged setup)(omega_i, omega_s, z) = integrand(setup)(omega_s, omega_i, z) for ALL parameter values and all z *)
Theorem C06_integrand_exchange : forall p, pm_physical p -> forall z, pm_integrand (pm_swap p) z = pm_integrand p z.
Proof. exact integrand_exchange_physical. Qed.

(* the same under the bare definedness conditions at one z (no positivity assumed) *)
Theorem C06_integrand_exchange_pointwise : forall p z, pm_expo_defined p z -> pm_integrand (pm_swap p) z = pm_integrand p z.
Proof. exact integrand_exchange. Qed.

(* clause 2: for EVERY quadrature functional Q, fibre-coupled amplitude, raw and normalised joint spectral amplitude (as complex
   numbers: magnitude and phase) and intensity agree *)
Theorem C06_fiber_coupling_exchange : forall Q p, pm_physical p -> pm_fiber_coupling Q (pm_swap p) = pm_fiber_coupling Q p.
Proof. exact sw_fiber_coupling. Qed.

Theorem C06_jsa_exchange : forall Q p, pm_physical p -> pm_jsa Q (pm_swap p) = pm_jsa Q p.
Proof. exact jsa_exchange. Qed.

Theorem C06_jsi_exchange : forall Q p, pm_physical p -> pm_jsi Q (pm_swap p) = pm_jsi Q p.
Proof. exact jsi_exchange. Qed.

Theorem C06_normalisation_symmetric : forall p,
  pm_jsi_normalization (pm_swap p) = pm_jsi_normalization p /\
  pm_invalid_frequencies (pm_swap p) = pm_invalid_frequencies p /\
  (forall w, pm_pump_spectral_amplitude (pm_swap p) w = pm_pump_spectral_amplitude p w).
Proof. exact (fun p => conj (sw_jsi_normalization p) (conj (sw_invalid_frequencies p) (sw_pump_spectral_amplitude p))). Qed.

(* clause 3a: grid sums of the JSI (the integral the coincidence rate is proportional to) *)
Theorem C06_jsi_grid_sum_exchange : forall Q S Ssw pts dw2,
  exchange_tie S Ssw -> (forall x, In x pts -> pm_physical (S (fst x) (snd x))) ->
  pm_grid_sum (fun ws wi => pm_jsi Q (Ssw ws wi) * dw2) (transpose pts) =
  pm_grid_sum (fun ws wi => pm_jsi Q (S ws wi) * dw2) pts.
Proof. exact jsi_grid_sum_exchange. Qed.

(* clause 3b: coincidence RATE.  PARTIAL: invariance is proved for the setups whose counts correction factor is exchange symmetric
   (equal signal and idler group indices).  It is FALSE otherwise — Findings/C06_counts_correction.v; what holds in general is
   the exact ratio ng_i / ng_s (next theorem). *)
Theorem C06_counts_coincidences_exchange_partial : forall Q S Ssw p0 pts dw2,
  exchange_tie S Ssw -> (forall x, In x pts -> pm_physical (S (fst x) (snd x))) ->
  p_ng_s p0 = p_ng_i p0 ->
  pm_counts_coincidences Q Ssw (pm_swap p0) (transpose pts) dw2 = pm_counts_coincidences Q S p0 pts dw2.
Proof.
  exact (fun Q S Ssw p0 pts dw2 Ht Hp Hg =>
           counts_coincidences_exchange Q S Ssw p0 pts dw2 Ht Hp (counts_correction_exchange_eq p0 Hg)).
Qed.

Theorem C06_counts_coincidences_exchange_ratio : forall Q S Ssw p0 pts dw2,
  exchange_tie S Ssw -> (forall x, In x pts -> pm_physical (S (fst x) (snd x))) ->
  p_lambda_p p0 <> 0 -> p_n_s0 p0 <> 0 -> p_n_i0 p0 <> 0 -> p_n_p0 p0 <> 0 ->
  pm_counts_coincidences Q Ssw (pm_swap p0) (transpose pts) dw2 * p_ng_s p0 =
  pm_counts_coincidences Q S p0 pts dw2 * p_ng_i p0.
Proof. exact counts_coincidences_exchange_ratio. Qed.

(* the same with the cell area the code uses: dw2 = dws * dwi from Steps2D::division_widths() (pinned by the generator to the division
   widths of the two axes; cell_area = product of the GENERATED steps_division_width of each axis, Proofs/C07_counts.v).  The exchanged
   setup's grid is the transposed one, with the widths in the other order. *)
Theorem C06_counts_coincidences_exchange_cells : forall Q S Ssw p0 pts xs xe nx ys ye ny,
  exchange_tie S Ssw -> (forall x, In x pts -> pm_physical (S (fst x) (snd x))) ->
  p_lambda_p p0 <> 0 -> p_n_s0 p0 <> 0 -> p_n_i0 p0 <> 0 -> p_n_p0 p0 <> 0 ->
  pm_counts_coincidences Q Ssw (pm_swap p0) (transpose pts) (cell_area ys ye ny xs xe nx) * p_ng_s p0 =
  pm_counts_coincidences Q S p0 pts (cell_area xs xe nx ys ye ny) * p_ng_i p0.
Proof. exact counts_coincidences_exchange_cells. Qed.

Theorem C06_singles_idler_rate_exchange_cells : forall Ssw jsis p0 pts xs xe nx ys ye ny,
  p_lambda_p p0 <> 0 -> p_n_s0 p0 <> 0 -> p_n_i0 p0 <> 0 -> p_n_p0 p0 <> 0 ->
  pm_counts_singles_idler jsis Ssw p0 pts (cell_area xs xe nx ys ye ny) * p_ng_i p0 =
  pm_counts_singles_signal jsis Ssw (pm_swap p0) (transpose pts) (cell_area ys ye ny xs xe nx) * p_ng_s p0.
Proof. exact singles_idler_rate_exchange_cells. Qed.

(* clause 4: idler singles.  DEFINITIONAL: the code computes the idler singles through the exchanged setup (shape pinned by the generator), so
   the spectrum statement below is that definition unfolded (map_map), not an independent fact; the RATE equals the exchanged setup's signal singles rate when the correction factor is symmetric (PARTIAL, as
   above), and in general up to the exact factor ng_s / ng_i. *)
Theorem C06_singles_idler_spectrum : forall Ssw jsis pts,
  pm_jsi_singles_idler_range jsis Ssw pts = map (fun x => jsis (Ssw (fst x) (snd x))) (transpose pts).
Proof. exact singles_idler_spectrum_structural. Qed.

Theorem C06_singles_idler_rate_partial : forall Ssw jsis p0 pts dw2,
  p_ng_s p0 = p_ng_i p0 ->
  pm_counts_singles_idler jsis Ssw p0 pts dw2 = pm_counts_singles_signal jsis Ssw (pm_swap p0) (transpose pts) dw2.
Proof.
  exact (fun Ssw jsis p0 pts dw2 Hg => singles_idler_rate_exchange Ssw jsis p0 pts dw2 (counts_correction_exchange_eq p0 Hg)).
Qed.

Theorem C06_singles_idler_rate_ratio : forall Ssw jsis p0 pts dw2,
  p_lambda_p p0 <> 0 -> p_n_s0 p0 <> 0 -> p_n_i0 p0 <> 0 -> p_n_p0 p0 <> 0 ->
  pm_counts_singles_idler jsis Ssw p0 pts dw2 * p_ng_i p0 =
  pm_counts_singles_signal jsis Ssw (pm_swap p0) (transpose pts) dw2 * p_ng_s p0.
Proof. exact singles_idler_rate_exchange_ratio. Qed.

(* the role exchange of the source is the permutation pm_swap models: signal <-> idler beams, signal <-> idler waist positions,
   everything else kept; PMType::inverse exchanges the two type-2 orders and keeps the rest *)
Theorem C06_role_exchange_pinned :
  swap_field_source =
  (("crystal_setup", "crystal_setup") :: ("deff", "deff") :: ("idler", "signal") :: ("idler_waist_position", "signal_waist_position") ::
   ("pp", "pp") :: ("pump", "pump") :: ("pump_average_power", "pump_average_power") :: ("pump_bandwidth", "pump_bandwidth") ::
   ("pump_spectrum_threshold", "pump_spectrum_threshold") :: ("signal", "idler") ::
   ("signal_waist_position", "idler_waist_position") :: nil)%string /\
  pm_type_inverse_arms = (("Type2_e_eo", "Type2_e_oe") :: ("Type2_e_oe", "Type2_e_eo") :: ("_", "_") :: nil)%string.
Proof. exact (conj swap_field_source_pinned pm_type_inverse_pinned). Qed.

(* non-vacuity: the hypotheses are satisfiable — a concrete non-collinear, unequal-waist, apodized parameter set is physical,
   and the exchange tie holds for the setup family it generates *)
Example C06_physical_example : pm_physical pm_example.
Proof. exact physical_example. Qed.

Example C06_physical_real_example : pm_physical_real pm_example.
Proof. exact physical_real_example. Qed.

Example C06_equal_group_index_example : p_ng_s (pm_set_ng 1.8 pm_example) = p_ng_i (pm_set_ng 1.8 pm_example).
Proof. exact equal_group_index_example. Qed.

Example C06_exchange_tie_example : exchange_tie (fun ws wi => pm_example) (fun a b => pm_swap pm_example).
Proof. exact (fun ws wi => eq_refl). Qed.

Print Assumptions C06_exponent_identities.
Print Assumptions C06_integrand_defined.
Print Assumptions C06_real_divisions_defined.
Print Assumptions C06_integrand_exchange.
Print Assumptions C06_integrand_exchange_pointwise.
Print Assumptions C06_fiber_coupling_exchange.
Print Assumptions C06_jsa_exchange.
Print Assumptions C06_jsi_exchange.
Print Assumptions C06_normalisation_symmetric.
Print Assumptions C06_jsi_grid_sum_exchange.
Print Assumptions C06_counts_coincidences_exchange_partial.
Print Assumptions C06_counts_coincidences_exchange_ratio.
Print Assumptions C06_counts_coincidences_exchange_cells.
Print Assumptions C06_singles_idler_rate_exchange_cells.
Print Assumptions C06_singles_idler_spectrum.
Print Assumptions C06_singles_idler_rate_partial.
Print Assumptions C06_singles_idler_rate_ratio.
Print Assumptions C06_role_exchange_pinned.
