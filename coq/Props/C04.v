(* C04 — property theorems.  Statements, `exact` proofs, non-vacuity examples and Print Assumptions only.

   Model/NM1d.v is argmin's two-vertex Nelder–Mead under argmin's Executor (the algorithm behind math::nelder_mead_1d), generic
   in the point type, the cost order, the cost function, the termination test and the five point operations — so the theorems
   hold for the rounded binary64 operations as well as for exact ones.  The same Gallina function, instantiated at Coq's
   primitive binary64 floats, is compared bit for bit with nelder_mead_1d on every run (result and the whole sequence of
   evaluated points).  Gen/AutoCalc.v (regenerated from src/ on every run) says how optimum_poling_period and
   CrystalSetup::optimum_theta drive it (seeds, bounds, iteration limit, tolerance, early exit, final test, sign). *)
From Coq Require Import Reals List Bool Floats.
From SpdVerif Require Import Base.Rx Base.Vec3 Gen.Idler Gen.AutoCalc Model.Idler Model.NM1d Model.AutoCalc
  Proofs.C03_base Proofs.C03_idler Proofs.C04_nm Proofs.C04_poling Proofs.C04_collinear Proofs.C04_all Proofs.C04_conv Proofs.C04_conv_poling Proofs.C04_sim Proofs.C04_float Proofs.C04_mono.
Local Open Scope R_scope.

(* a strict weak order on the finite costs (binary64 without NaN, Q and R are) *)
Definition strict_weak_order {K : Type} (klt : K -> K -> bool) : Prop :=
  (forall a, klt a a = false) /\ (forall a b c, klt a b = true -> klt b c = true -> klt a c = true) /\
  (forall a b c, klt a c = true -> klt a b = true \/ klt b c = true).

(* the best cost never increases: the cost recorded for the result is its true cost and does not exceed either initial cost *)
Theorem C04_nm_monotone : forall (P K : Type) (klt : K -> K -> bool), strict_weak_order klt ->
  forall (o : @ops P) (f : P -> @ecost K) sd g0 g1 n,
  let s := nm_run klt o f sd g0 g1 n in
  vc (sbest s) = f (vp (sbest s)) /\ ele klt (vc (sbest s)) (f g0) = true /\ ele klt (vc (sbest s)) (f g1) = true.
Proof. exact (fun P K klt H => nm_monotone klt (proj1 H) (proj1 (proj2 H)) (proj2 (proj2 H))). Qed.

(* ... and more iterations never give a worse result *)
Theorem C04_nm_monotone_iter : forall (P K : Type) (klt : K -> K -> bool), strict_weak_order klt ->
  forall (o : @ops P) (f : P -> @ecost K) sd g0 g1 n k,
  ele klt (vc (sbest (nm_run klt o f sd g0 g1 (n + k)))) (vc (sbest (nm_run klt o f sd g0 g1 n))) = true.
Proof. exact (fun P K klt H => nm_monotone_iter klt (proj1 H) (proj1 (proj2 H)) (proj2 (proj2 H))). Qed.

(* the returned point is one of the points at which the cost function was evaluated (the seeds are among them) *)
Theorem C04_nm_result_evaluated : forall (P K : Type) (klt : K -> K -> bool), strict_weak_order klt ->
  forall (o : @ops P) (f : P -> @ecost K) sd g0 g1 n,
  let s := nm_run klt o f sd g0 g1 n in
  In (nm_result klt o f sd g0 g1 n) (strace s) /\ In g0 (strace s) /\ In g1 (strace s).
Proof. exact (fun P K klt H => nm_result_evaluated klt (proj1 H) (proj1 (proj2 H)) (proj2 (proj2 H))). Qed.

(* the cost is +infinity outside the bounds: if one seed has a finite cost the returned point is inside the bounds *)
Theorem C04_nm_bounds : forall (P K : Type) (klt : K -> K -> bool), strict_weak_order klt ->
  forall (o : @ops P) (f : P -> @ecost K) sd (inb : P -> bool) g0 g1 n,
  (forall x, inb x = false -> f x = CInf) -> is_inf (f g0) = false \/ is_inf (f g1) = false ->
  inb (nm_result klt o f sd g0 g1 n) = true /\ is_inf (f (nm_result klt o f sd g0 g1 n)) = false.
Proof. exact (fun P K klt H => nm_bounds klt (proj1 H) (proj1 (proj2 H)) (proj2 (proj2 H))). Qed.

(* optimum_poling_period, for every mismatch function, simplex operations and termination test:
   an accepted period is sign(dkz unpoled) * period with MIN_POSITIVE <= period <= L; its sign is the sign of the unpoled
   mismatch; PeriodicPoling::new of it is On {period, sign} *)
Theorem C04_sign_and_bound : forall dkz o sd L p, optimum_poling_period dkz o sd L = AutoOk p ->
  z0 dkz <> 0 /\ p = sign_val (sign_from (z0 dkz)) * nm_period dkz o sd L /\
  opp_min_period <= nm_period dkz o sd L <= L /\ 0 < Rabs p <= L /\
  (0 < z0 dkz -> 0 < p) /\ (z0 dkz < 0 -> p < 0) /\ poling_of p = PPOn (nm_period dkz o sd L) (sign_from (z0 dkz)).
Proof. exact sign_and_bound. Qed.

(* error rule of the wrapper: a simplex result above the crystal length (or below MIN_POSITIVE) is an error, not a period;
   an exactly phase-matched unpoled setup returns the infinite period *)
Theorem C04_error_rule : forall dkz o sd L, z0 dkz <> 0 ->
  (L < nm_period dkz o sd L \/ nm_period dkz o sd L < opp_min_period) -> optimum_poling_period dkz o sd L = AutoErr.
Proof. exact error_rule. Qed.

Theorem C04_perfect_rule : forall dkz o sd L, z0 dkz = 0 -> optimum_poling_period dkz o sd L = AutoInfinite.
Proof. exact perfect_rule. Qed.

(* PeriodicPoling::try_as_optimum / SPDC::assign_optimum_periodic_poling / SPDC::optimum_periodic_poling (both arms translated;
   the SPDC methods pinned): from an unpoled base as from a poled one, the installed poling is PeriodicPoling::new of the period
   optimum_poling_period returned — signed period = that period, k_eff = 2 pi / period *)
Theorem C04_assigned_poling : forall base_on opp, opp <> 0 ->
  assigned_poling base_on opp = poling_of opp /\ 0 < tao_period base_on opp /\
  pp_signed_period_on (tao_positive base_on opp) (tao_period base_on opp) = opp /\
  pp_k_eff (assigned_poling base_on opp) = 2 * PI / opp.
Proof. exact assigned_poling_spec. Qed.

(* with exact simplex operations: a seed 2 pi / |dkz unpoled| more than 1 um above the crystal length is always refused
   (every evaluated point stays outside the bounds) — for every mismatch function and termination test *)
Theorem C04_seed_beyond_length_error : forall dkz sd L, z0 dkz <> 0 -> L + 1e-6 < Rabs (2 * PI / z0 dkz) ->
  optimum_poling_period dkz real_ops sd L = AutoErr.
Proof. exact seed_beyond_length. Qed.

(* collinear signal (C03's model, every index function): the idler stays collinear, dkz(period) = dkz(unpoled) - 2 pi/(sign period) *)
Theorem C04_collinear_dkz : forall index pm spol ppol phis ls lp ws wp, 0 < lp -> lp < ls ->
  forall p s, 0 < p ->
  w_z index spol ppol phis 0 ls lp ws wp PPOff <> 0 -> w_z index spol ppol phis 0 ls lp ws wp (PPOn p s) <> 0 ->
  dkz_of index pm false (beam_new spol phis 0 ls ws) (pump_new ppol lp wp) (PPOn p s) =
  dkz_of index pm false (beam_new spol phis 0 ls ws) (pump_new ppol lp wp) PPOff - 2 * PI / ((if s then 1 else -1) * p).
Proof. exact collinear_dkz. Qed.

(* ... hence the seed is an exact root and the returned period IS 2 pi / dkz(unpoled) (sign included) and nulls the mismatch,
   whatever the simplex operations and termination test, whenever that period is admissible *)
Theorem C04_collinear_root : forall index pm spol ppol phis ls lp ws wp, 0 < lp -> lp < ls ->
  forall o sd L,
  let dkz := dkz_of index pm false (beam_new spol phis 0 ls ws) (pump_new ppol lp wp) in
  let z := dkz PPOff in
  z <> 0 -> w_z index spol ppol phis 0 ls lp ws wp PPOff <> 0 ->
  (* no evaluated period makes the closing vector vanish (there the code computes 0/0) *)
  (forall x, In x (strace (nm_run Rltb o (pol_cost dkz L) sd (opp_seed0 (opp_guess z)) (opp_seed1 (opp_guess z)) opp_max_iter)) ->
             opp_min_period <= x <= L -> w_z index spol ppol phis 0 ls lp ws wp (PPOn x (sign_from z)) <> 0) ->
  opp_min_period <= Rabs (2 * PI / z) <= L ->
  optimum_poling_period dkz o sd L = AutoOk (2 * PI / z) /\ dkz (poling_of (2 * PI / z)) = 0.
Proof. exact collinear_root. Qed.

(* residual bound, PARTIAL: conditional on the contract "the simplex returns a point of cost < 2e-3 / L".
   Missing: that argmin's simplex meets this contract for non-collinear signals (convergence of a direct-search method on
   |dkz|); the contract is checked per input by the check's oracle, and fails in the cases of Findings/C04_findings.v *)
Theorem C04_residual_partial : forall dkz o sd L p c, 0 < L -> optimum_poling_period dkz o sd L = AutoOk p ->
  nm_period_cost dkz o sd L = CFin c -> c < 2e-3 / L -> Rabs (dkz (poling_of p)) * L / 2 < 1e-3.
Proof. exact residual_partial. Qed.

(* the auto crystal angle lies in [0, pi/2] — for every cost function, simplex operations and termination test *)
Theorem C04_theta_range : forall cost_theta o sd, 0 <= optimum_theta cost_theta o sd <= PI / 2.
Proof. exact theta_range. Qed.

(* residual at the auto angle, PARTIAL: same contract; missing: convergence (F4 is a case where it fails) *)
Theorem C04_theta_residual_partial : forall cost_theta o sd L c, 0 < L ->
  optimum_theta_cost cost_theta o sd = CFin c -> c < 2e-3 / L ->
  cost_theta (optimum_theta cost_theta o sd) * L / 2 < 1e-3.
Proof. exact theta_residual_partial. Qed.

(* ------------------------------------------------------------------------------------------------------------------------
   CONVERGENCE of the two-vertex simplex in exact arithmetic on V-shaped costs: cost = |h| inside [lo, hi], +infinity outside,
   h strictly increasing on [lo, hi] with a root r there (|h| = |-h| covers the decreasing case).
   `steps` iterates the model's `step` (no termination test), `width` = |worst - best|, `doublings` = the step accepts the expansion. *)

(* the first step that is not a doubling step puts the root within twice the width of the best vertex, without growing the width *)
Theorem C04_conv_bracket_established : forall lo hi r h, lo <= r <= hi -> h r = 0 ->
  (forall x y, lo <= x -> x < y -> y <= hi -> h x < h y) ->
  forall s, stI lo hi h s -> ~ doublings lo hi h s ->
  B2s lo hi r h (step Rltb real_ops (vcost lo hi h) s) /\
  width (step Rltb real_ops (vcost lo hi h) s) <= width s /\
  Rabs (r - bs (step Rltb real_ops (vcost lo hi h) s)) <= 2 * width (step Rltb real_ops (vcost lo hi h) s).
Proof. exact u_bracket_established. Qed.

(* inside the bracket: it is kept, the width never grows, and after 2 m steps it is at most width / 2^m
   (a plain reflection is always followed by a contraction): error <= 2 width / 2^m — a factor 1/sqrt 2 per iteration *)
Theorem C04_conv_bracket_rate : forall lo hi r h, lo <= r <= hi -> h r = 0 ->
  (forall x y, lo <= x -> x < y -> y <= hi -> h x < h y) ->
  forall m s, stI lo hi h s -> B2s lo hi r h s ->
  B2s lo hi r h (steps lo hi h (2 * m) s) /\ width (steps lo hi h (2 * m) s) <= width s / 2 ^ m /\
  Rabs (r - bs (steps lo hi h (2 * m) s)) <= 2 * width s / 2 ^ m.
Proof. exact u_bracket_rate. Qed.

(* the approach phase is short: J + 1 doubling steps at the start need 2^J width0 < |r - best0| *)
Theorem C04_conv_doubling_count : forall lo hi r h, lo <= r <= hi -> h r = 0 ->
  (forall x y, lo <= x -> x < y -> y <= hi -> h x < h y) ->
  forall J s, stI lo hi h s -> (forall j, (j <= J)%nat -> doublings lo hi h (steps lo hi h j s)) ->
  2 ^ J * width s < Rabs (r - bs s).
Proof. exact u_doubling_count. Qed.

(* from the seeds, for the executor: unless the termination test fires before iteration J + 1 + 2 m, the returned point is
   within 2 * 2^J |g1 - g0| / 2^m of the root *)
Theorem C04_nm_run_converges : forall lo hi r h, lo <= r <= hi -> h r = 0 ->
  (forall x y, lo <= x -> x < y -> y <= hi -> h x < h y) ->
  forall sd g0 g1 n J m, g0 <> g1 -> (lo <= g0 <= hi \/ lo <= g1 <= hi) ->
  let s := init Rltb (vcost lo hi h) g0 g1 in
  (forall j, (j < J)%nat -> doublings lo hi h (steps lo hi h j s)) -> ~ doublings lo hi h (steps lo hi h J s) ->
  (J + 1 + 2 * m <= n)%nat ->
  (exists k, (k < J + 1 + 2 * m)%nat /\ terminated sd (steps lo hi h k s) = true) \/
  Rabs (r - nm_result Rltb real_ops (vcost lo hi h) sd g0 g1 n) <= 2 * (2 ^ J * Rabs (g1 - g0)) / 2 ^ m.
Proof. exact nm_run_converges. Qed.

(* what an early stop of the standard-deviation test (exact form (ca - cb)^2 / 2 < tol^2) implies: with a lower slope m of h
   and both vertices on the same side of the root, (m width)^2 < 2 tol^2.  (Vertices straddling the root with nearly equal
   costs stop the search without any bound: that is the exception to the residual contract.) *)
Theorem C04_sd_stop_same_side : forall lo hi r h, lo <= r <= hi -> h r = 0 ->
  forall tol m s, 0 < m -> (forall x y, lo <= x -> x <= y -> y <= hi -> m * (y - x) <= h y - h x) ->
  stI lo hi h s -> terminated (sd_real tol) s = true -> 0 <= (bs s - r) * (ws s - r) ->
  (m * width s) * (m * width s) < 2 * tol * tol.
Proof. exact u_sd_stop_same_side. Qed.

(* with an upper slope M of h the cost of the best vertex is bounded inside the bracket: the residual contract *)
Theorem C04_conv_bracket_cost : forall lo hi r h M s, (forall x, lo <= x <= hi -> Rabs (h x) <= M * Rabs (x - r)) -> 0 <= M ->
  stI lo hi h s -> B2s lo hi r h s -> exists v, vc (s0 s) = CFin v /\ v <= M * (2 * width s).
Proof. exact u_bracket_cost. Qed.

(* optimum_poling_period (exact simplex operations): if dkz(period) — optimum idler recomputed per period — is strictly
   monotone on [MIN_POSITIVE, L] with a root r there, the returned simplex point is within 2 * 2^J * 1e-6 / 2^m of r
   unless the termination test fires before iteration J + 1 + 2 m <= 1000 *)
Theorem C04_poling_search_converges : forall dkz sd L r h,
  (forall x, Rabs (h x) = Rabs (dkz_on dkz x (sign_from (z0 dkz)))) -> opp_min_period <= r <= L -> h r = 0 ->
  (forall x y, opp_min_period <= x -> x < y -> y <= L -> h x < h y) ->
  forall J m, let g := opp_seed0 (opp_guess (z0 dkz)) in
  opp_min_period <= g <= L \/ opp_min_period <= g + 1e-6 <= L ->
  let s := init Rltb (vcost opp_min_period L h) g (g + 1e-6) in
  (forall j, (j < J)%nat -> doublings opp_min_period L h (steps opp_min_period L h j s)) ->
  ~ doublings opp_min_period L h (steps opp_min_period L h J s) -> (J + 1 + 2 * m <= opp_max_iter)%nat ->
  (exists k, (k < J + 1 + 2 * m)%nat /\ terminated sd (steps opp_min_period L h k s) = true) \/
  Rabs (r - nm_period dkz real_ops sd L) <= 2 * (2 ^ J * 1e-6) / 2 ^ m.
Proof. exact poling_search_converges. Qed.

Example C04_conv_nonvacuous :
  let h := fun x : R => x in
  (-10 <= 0 <= 10 /\ h 0 = 0 /\ (forall x y, -10 <= x -> x < y -> y <= 10 -> h x < h y)) /\
  (1 : R) <> 2 /\ (-10 <= 1 <= 10 \/ -10 <= 2 <= 10) /\
  ~ doublings (-10) 10 h (steps (-10) 10 h 0 (init Rltb (vcost (-10) 10 h) 1 2)).
Proof. exact conv_nonvacuous. Qed.

(* ------------------------------------------------------------------------------------------------------------------------
   REFINEMENT between instances of the model. *)

(* generic: corresponding seeds, and candidate points / costs / orders / termination tests corresponding along the first run
   => corresponding results and evaluation traces *)
Theorem C04_nm_simulation : forall (P1 K1 P2 K2 : Type) (klt1 : K1 -> K1 -> bool) (klt2 : K2 -> K2 -> bool)
  (o1 : @ops P1) (o2 : @ops P2) (f1 : P1 -> @ecost K1) (f2 : P2 -> @ecost K2) sd1 sd2 (phi : P1 -> P2) (psi : K1 -> K2)
  (okc : @ecost K1 -> Prop),
  (forall a b, okc a -> okc b -> elt klt1 a b = elt klt2 (psie psi a) (psie psi b)) ->
  (forall a b, okc a -> okc b -> sd1 a b = sd2 (psie psi a) (psie psi b)) ->
  forall g0 g1 n, pt_ok f1 f2 phi psi okc g0 (phi g0) -> pt_ok f1 f2 phi psi okc g1 (phi g1) ->
  run_ok klt1 o1 o2 f1 f2 sd1 phi psi okc n (init klt1 f1 g0 g1) ->
  nm_result klt2 o2 f2 sd2 (phi g0) (phi g1) n = phi (nm_result klt1 o1 f1 sd1 g0 g1 n) /\
  strace (nm_run klt2 o2 f2 sd2 (phi g0) (phi g1) n) = map phi (strace (nm_run klt1 o1 f1 sd1 g0 g1 n)).
Proof. exact @nm_simulation. Qed.

(* the primitive-binary64 instance (validated bit for bit against nelder_mead_1d each run) and the exact real instance
   (the one of the convergence / wrapper theorems) compute the same run wherever every binary64 operation is exact *)
Theorem C04_float_refines_real : forall (g : PrimFloat.float -> PrimFloat.float) (lo hi : PrimFloat.float) (G : R -> @ecost R) g0 g1 n,
  let f := bounded lo hi g in
  pt_ok f G fR fR okf g0 (fR g0) -> pt_ok f G fR fR okf g1 (fR g1) ->
  run_ok PrimFloat.ltb float_ops real_ops f G (sd_small_float 0%float) fR fR okf n (init PrimFloat.ltb f g0 g1) ->
  nm_result Rltb real_ops G (sd_real 0) (fR g0) (fR g1) n = fR (fst (nm_float g g0 g1 n lo hi 0%float)) /\
  strace (nm_run Rltb real_ops G (sd_real 0) (fR g0) (fR g1) n)
    = map fR (strace (nm_run PrimFloat.ltb float_ops f (sd_small_float 0%float) g0 g1 n)).
Proof. exact float_refines_real. Qed.

(* an exact binary64 addition / subtraction / multiplication: the real result is representable *)
Theorem C04_float_ops_exact : forall x y, ffinite x = true -> ffinite y = true ->
  (representable (fR x + fR y) -> fR (x + y)%float = fR x + fR y /\ ffinite (x + y)%float = true) /\
  (representable (fR x - fR y) -> fR (x - y)%float = fR x - fR y /\ ffinite (x - y)%float = true) /\
  (representable (fR x * fR y) -> fR (x * y)%float = fR x * fR y /\ ffinite (x * y)%float = true).
Proof. exact (fun x y Hx Hy => conj (fadd_exact x y Hx Hy) (conj (fsub_exact x y Hx Hy) (fmul_exact x y Hx Hy))). Qed.

Example C04_float_refinement_nonvacuous :
  let g := fun _ : PrimFloat.float => 1%float in
  let G := fun _ : R => @CFin R 1 in
  let f := bounded (-16)%float 16%float g in
  pt_ok f G fR fR okf 1%float (fR 1%float) /\ pt_ok f G fR fR okf 2%float (fR 2%float) /\
  run_ok PrimFloat.ltb float_ops real_ops f G (sd_small_float 0%float) fR fR okf 1 (init PrimFloat.ltb f 1%float 2%float).
Proof. exact float_refinement_nonvacuous. Qed.

(* ------------------------------------------------------------------------------------------------------------------------
   The monotonicity hypothesis, ESTABLISHED for a non-collinear signal when the idler's index does not depend on its direction
   (ordinary idler in a uniaxial crystal): closed form of the closure's mismatch with the optimum idler recomputed per poling,
   dkz(pp) = K phi(w(pp)), phi(t) = t (1 - kap / sqrt(t^2 + u^2)), and strict monotonicity in the period for either sign —
   on every bracket whose smallest longitudinal closing component t1 > 0 satisfies kap u^2 < (t1^2 + u^2)^(3/2). *)
Theorem C04_dkz_closed_form : forall index pm spol ppol phis ths ls lp ws wp nio,
  0 < lp -> lp < ls -> 0 <= ths < PI / 2 -> (forall l d, index l d (idler_polarization pm) = nio l) ->
  forall pp, pp_defined pp -> 0 < w_z index spol ppol phis ths ls lp ws wp pp ->
  dkz_of index pm false (beam_new spol phis ths ls ws) (pump_new ppol lp wp) pp =
  Kq ls * phi_mis (kappa spol ppol phis ths ls lp ws wp nio / Kq ls) (u_t index spol phis ths ls ws) (w_z index spol ppol phis ths ls lp ws wp pp).
Proof. exact dkz_closed. Qed.

Theorem C04_phi_increasing : forall kap u t1 t2, 0 <= kap -> 0 < t1 -> t1 < t2 ->
  kap * u ^ 2 < R_sqrt.sqrt (t1 ^ 2 + u ^ 2) ^ 3 -> phi_mis kap u t1 < phi_mis kap u t2.
Proof. exact phi_mis_increasing. Qed.

Theorem C04_dkz_monotone_positive : forall index pm spol ppol phis ths ls lp ws wp nio,
  0 < lp -> lp < ls -> 0 <= ths < PI / 2 -> (forall l d, index l d (idler_polarization pm) = nio l) ->
  forall p1 p2, 0 < p1 -> p1 < p2 -> 0 <= kappa spol ppol phis ths ls lp ws wp nio ->
  0 < w_z index spol ppol phis ths ls lp ws wp (PPOn p1 true) ->
  kappa spol ppol phis ths ls lp ws wp nio / Kq ls * u_t index spol phis ths ls ws ^ 2 <
    R_sqrt.sqrt (w_z index spol ppol phis ths ls lp ws wp (PPOn p1 true) ^ 2 + u_t index spol phis ths ls ws ^ 2) ^ 3 ->
  dkz_of index pm false (beam_new spol phis ths ls ws) (pump_new ppol lp wp) (PPOn p1 true) <
  dkz_of index pm false (beam_new spol phis ths ls ws) (pump_new ppol lp wp) (PPOn p2 true).
Proof. exact dkz_monotone_positive. Qed.

Theorem C04_dkz_monotone_negative : forall index pm spol ppol phis ths ls lp ws wp nio,
  0 < lp -> lp < ls -> 0 <= ths < PI / 2 -> (forall l d, index l d (idler_polarization pm) = nio l) ->
  forall p1 p2, 0 < p1 -> p1 < p2 -> 0 <= kappa spol ppol phis ths ls lp ws wp nio ->
  0 < w_z index spol ppol phis ths ls lp ws wp (PPOn p2 false) ->
  kappa spol ppol phis ths ls lp ws wp nio / Kq ls * u_t index spol phis ths ls ws ^ 2 <
    R_sqrt.sqrt (w_z index spol ppol phis ths ls lp ws wp (PPOn p2 false) ^ 2 + u_t index spol phis ths ls ws ^ 2) ^ 3 ->
  dkz_of index pm false (beam_new spol phis ths ls ws) (pump_new ppol lp wp) (PPOn p2 false) <
  dkz_of index pm false (beam_new spol phis ths ls ws) (pump_new ppol lp wp) (PPOn p1 false).
Proof. exact dkz_monotone_negative. Qed.

(* the hypotheses are satisfiable: kap = 1, u = 1/10, t1 = 1 *)
Example C04_mono_nonvacuous : (0 : R) <= 1 /\ (0 : R) < 1 /\ 1 * (1 / 10) ^ 2 < R_sqrt.sqrt (1 ^ 2 + (1 / 10) ^ 2) ^ 3.
Proof. exact mono_nonvacuous. Qed.

(* non-vacuity *)
Example C04_nonvacuous_order : strict_weak_order Rltb.
Proof. exact (conj Rltb_irrefl (conj Rltb_trans Rltb_cotrans)). Qed.
Example C04_nonvacuous_period : forall o sd, optimum_poling_period ex_dkz o sd (1 / 100) = AutoOk (1 / 1000).
Proof. exact nonvacuous. Qed.

(* the hypotheses of C04_collinear_dkz / C04_collinear_root are satisfiable with a NON-ZERO unpoled mismatch: dispersive index
   n(l) = 1 + l/4, pump wavelength 1, signal wavelength 2: dkz(unpoled) = -pi/2, the closing vector never vanishes for the
   (negative) sign the search uses, and |2 pi / dkz| = 4 is admissible for L = 10 *)
Example C04_nonvacuous_collinear :
  let index := fun (l : R) (_ : vec) (_ : polarization) => 1 + l / 4 in
  dkz_of index Type2_e_eo false (beam_new Ordinary 0 0 2 (1, 1)) (pump_new Ordinary 1 (1, 1)) PPOff = - (PI / 2) /\
  dkz_of index Type2_e_eo false (beam_new Ordinary 0 0 2 (1, 1)) (pump_new Ordinary 1 (1, 1)) PPOff <> 0 /\
  w_z index Ordinary Ordinary 0 0 2 1 (1, 1) (1, 1) PPOff <> 0 /\
  (forall x, 0 < x -> w_z index Ordinary Ordinary 0 0 2 1 (1, 1) (1, 1) (PPOn x false) <> 0).
Proof. exact nonvacuous_collinear_dispersive. Qed.

Print Assumptions C04_nm_monotone.
Print Assumptions C04_nm_monotone_iter.
Print Assumptions C04_nm_result_evaluated.
Print Assumptions C04_nm_bounds.
Print Assumptions C04_sign_and_bound.
Print Assumptions C04_error_rule.
Print Assumptions C04_perfect_rule.
Print Assumptions C04_seed_beyond_length_error.
Print Assumptions C04_collinear_dkz.
Print Assumptions C04_collinear_root.
Print Assumptions C04_residual_partial.
Print Assumptions C04_theta_range.
Print Assumptions C04_theta_residual_partial.
Print Assumptions C04_conv_bracket_established.
Print Assumptions C04_conv_bracket_rate.
Print Assumptions C04_conv_doubling_count.
Print Assumptions C04_nm_run_converges.
Print Assumptions C04_sd_stop_same_side.
Print Assumptions C04_conv_bracket_cost.
Print Assumptions C04_poling_search_converges.
Print Assumptions C04_nm_simulation.
Print Assumptions C04_float_refines_real.
Print Assumptions C04_float_ops_exact.
Print Assumptions C04_dkz_closed_form.
Print Assumptions C04_phi_increasing.
Print Assumptions C04_dkz_monotone_positive.
Print Assumptions C04_dkz_monotone_negative.
Print Assumptions C04_assigned_poling.
