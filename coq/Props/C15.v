(* C15 — property theorems.  Statements, `exact` proofs, non-vacuity examples and Print Assumptions only.
   "Every way the work can be split" = every binary split tree with admissible split points (Model/Producer.v);
   split_at / next / len of the two producers are the definitions GENERATED from src/utils.rs (Gen/Grid.v). *)
From Coq Require Import String.
From Coq Require Import List Arith Bool Lia Reals.
From SpdVerif Require Import Base.GridOps Gen.Grid Model.Grid Model.Producer Proofs.C15_generic Proofs.C15_inst Model.C15_Float Proofs.C15_float Gen.C15_Reductions Proofs.C15_sites Model.C15_Bridge Proofs.C15_bridge Gen.C15_ParSites Proofs.C15_parsites Gen.Ranges Proofs.C14_ranges.
Import ListNotations.

(* 1. 2-D grids: every split tree delivers the same points in the same positions — for EVERY carrier, hence bit-exactly *)
Theorem C15_2d_exact : forall T (O : ops T) (x0 x1 : T) (nx : nat) (y0 y1 : T) (ny : nat) (t : tree),
  admissible 0 t (nx * ny) ->
  run (prod2d O x0 x1 nx y0 y1 ny) t (root2d nx ny) = Ok (seq2d O x0 x1 nx y0 y1 ny).
Proof. exact (@run2d_exact). Qed.

(* 2. 1-D ranges over the reals (split_at re-derives endpoints: equal as real numbers; binary64 adds <= 1e-14 relative, measured) *)
Theorem C15_1d_exact_real : forall (s e : R) (n : nat) (t : tree),
  admissible 1 t n -> run (prod1d Rops) t (root1d s e n) = Ok (seq1d Rops s e n).
Proof. exact run1d_exact_real. Qed.

(* 2'. for every carrier (binary64 included): any admissible tree on the 1-D producer yields exactly n items, no panic *)
Theorem C15_1d_count_exact : forall T (O : ops T) (s e : T) (n : nat) (t : tree), admissible 1 t n ->
  exists l, run (prod1d O) t (root1d s e n) = Ok l /\ length l = n.
Proof. exact (@run1d_length). Qed.

(* 2''. the float clause, PROVED under a stated guard: with every + - * / of the generated Steps::value and split_at rounded to
   nearest (FLX-53 = binary64 absent overflow and underflow; Flocq round_FLT_FLX), any admissible split tree of depth D delivers,
   at every position, a value within ((1+4u)^(D+1) - 1) max(|start|,|end|) of the exact sequential value (u = 2^-53, n-1 < 2^53).
   Numerically <= 1e-14 for D <= 20 and <= 3e-14 for D <= 64 (rayon's bridge halves the length: D <= log2 n <= 64).
   _partial: the guard "no intermediate result overflows or is subnormal" is assumed (by working in FLX), and the bound is
   relative to the range scale max(|start|,|end|), not to each value. *)
Theorem C15_1d_float_bound_partial : forall (s e : R) (n : nat) (t : tree), (INR (n - 1) < 9007199254740992)%R -> admissible 1 t n ->
  exists l, run (prod1d FXops) t (root1d s e n) = Ok l /\ length l = n /\
    forall i, i < n -> (Rabs (nth i l 0 - steps_value Rops s e n i) <= ((1 + 4 * u53) ^ S (depth t) - 1) * Mx s e)%R.
Proof. exact (fun s e n t Hd => run1d_float_bound s e n Hd t). Qed.

Theorem C15_1d_float_bound_numbers : forall k,
  (k <= 20 -> ((1 + 4 * u53) ^ S k - 1 <= 1e-14)%R) /\ (k <= 64 -> ((1 + 4 * u53) ^ S k - 1 <= 3e-14)%R).
Proof. exact depth_bound_numeric. Qed.

(* 3. the ExactSizeIterator::len contract, for every producer reachable by splitting *)
Theorem C15_len :
  (forall T (O : ops T) x0 x1 nx y0 y1 ny t, admissible 0 t (nx * ny) ->
     exists ls, leaves (prod2d O x0 x1 nx y0 y1 ny) t (root2d nx ny) = Ok ls /\
       Forall (fun q => p_len (prod2d O x0 x1 nx y0 y1 ny) q = length (p_items (prod2d O x0 x1 nx y0 y1 ny) q)) ls) /\
  (forall (s e : R) n t, admissible 1 t n ->
     exists ls, leaves (prod1d Rops) t (root1d s e n) = Ok ls /\
       Forall (fun q => p_len (prod1d Rops) q = length (p_items (prod1d Rops) q)) ls).
Proof. exact (conj (@leaves2d_len) leaves1d_len). Qed.

(* IndexedParallelIterator::len of the two parallel iterators (the length bridge() hands to the consumer) is the sequential length *)
Theorem C15_par_len : forall T (O : ops T),
  (forall (s e : T) n, par1d_len n = length (seq1d O s e n)) /\
  (forall x0 x1 nx y0 y1 ny, par2d_len (fst (fst (root2d nx ny))) (snd (fst (root2d nx ny))) (fst (snd (root2d nx ny))) (snd (snd (root2d nx ny)))
                             = length (seq2d O x0 x1 nx y0 y1 ny)).
Proof. exact (@par_len). Qed.

(* 4. enumerate and indexed collect deliver point k at position k: the *_range functions return the sequential array *)
Theorem C15_enumerate :
  (forall T (O : ops T) x0 x1 nx y0 y1 ny t, admissible 0 t (nx * ny) ->
     run_enum (prod2d O x0 x1 nx y0 y1 ny) t 0 (root2d nx ny) = Ok (combine (seq 0 (nx * ny)) (seq2d O x0 x1 nx y0 y1 ny))) /\
  (forall (s e : R) n t, admissible 1 t n ->
     run_enum (prod1d Rops) t 0 (root1d s e n) = Ok (combine (seq 0 n) (seq1d Rops s e n))).
Proof. exact (conj (@enum2d) enum1d). Qed.

Theorem C15_collect :
  (forall T (O : ops T) x0 x1 nx y0 y1 ny t, admissible 0 t (nx * ny) ->
     run_collect (prod2d O x0 x1 nx y0 y1 ny) t (nx * ny) (root2d nx ny) = Ok (seq2d O x0 x1 nx y0 y1 ny)) /\
  (forall (s e : R) n t, admissible 1 t n ->
     run_collect (prod1d Rops) t n (root1d s e n) = Ok (seq1d Rops s e n)).
Proof. exact (conj (@collect2d_tree) collect1d_tree). Qed.

(* every range evaluator has the form collect(map f (parallel grid)): under any split tree it returns f(point k) at position k *)
Theorem C15_range_functions : forall T (O : ops T) x0 x1 nx y0 y1 ny B (f : T * T -> B) t, admissible 0 t (nx * ny) ->
  run_collect (pmap f (prod2d O x0 x1 nx y0 y1 ny)) t (nx * ny) (root2d nx ny) = Ok (map f (seq2d O x0 x1 nx y0 y1 ny)).
Proof. exact (fun T O x0 x1 nx y0 y1 ny B f t => range2d O x0 x1 nx y0 y1 ny f t). Qed.

(* 5. any tree-shaped map-reduce in a monoid equals the sequential left fold (exact; the 1e-12 float clause is measured) *)
Theorem C15_reduce : forall B (op : B -> B -> B) (e0 : B),
  (forall x y z, op x (op y z) = op (op x y) z) -> (forall x, op e0 x = x) -> (forall x, op x e0 = x) ->
  (forall T (O : ops T) x0 x1 nx y0 y1 ny (f : T * T -> B) t, admissible 0 t (nx * ny) ->
     run_reduce (prod2d O x0 x1 nx y0 y1 ny) op e0 f t (root2d nx ny) =
     Ok (fold_left (fun acc a => op acc (f a)) (seq2d O x0 x1 nx y0 y1 ny) e0)) /\
  (forall (s e : R) n (f : R -> B) t, admissible 1 t n ->
     run_reduce (prod1d Rops) op e0 f t (root1d s e n) = Ok (fold_left (fun acc a => op acc (f a)) (seq1d Rops s e n) e0)).
Proof.
  exact (fun B op e0 Ha Hl Hr =>
    conj (fun T O x0 x1 nx y0 y1 ny f t H => reduce2d O x0 x1 nx y0 y1 ny op e0 f t Ha Hl Hr H)
         (fun s e n f t H => reduce1d s e n op e0 f t Ha Hl Hr H)).
Qed.

(* 5'. enumerate().map(f).sum() — hom_rate over the 2-D grid, simpson2d's two nested 1-D ranges *)
Theorem C15_reduce_enumerate : forall B (op : B -> B -> B) (e0 : B),
  (forall x y z, op x (op y z) = op (op x y) z) -> (forall x, op e0 x = x) -> (forall x, op x e0 = x) ->
  (forall T (O : ops T) x0 x1 nx y0 y1 ny (f : nat * (T * T) -> B) t, admissible 0 t (nx * ny) ->
     run_reduce (penum (prod2d O x0 x1 nx y0 y1 ny)) op e0 f t (0, root2d nx ny) =
     Ok (fold_left (fun acc x => op acc (f x)) (combine (seq 0 (nx * ny)) (seq2d O x0 x1 nx y0 y1 ny)) e0)) /\
  (forall (s e : R) n (f : nat * R -> B) t, admissible 1 t n ->
     run_reduce (penum (prod1d Rops)) op e0 f t (0, root1d s e n) =
     Ok (fold_left (fun acc x => op acc (f x)) (combine (seq 0 n) (seq1d Rops s e n)) e0)).
Proof.
  exact (fun B op e0 Ha Hl Hr =>
    conj (fun T O x0 x1 nx y0 y1 ny f t H => reduce_enum2d O x0 x1 nx y0 y1 ny op e0 f t Ha Hl Hr H)
         (fun s e n f t H => reduce_enum1d s e n op e0 f t Ha Hl Hr H)).
Qed.

(* 5''. Simpson: from the GENERATED branch pieces of math::integration::simpson — the `then` branch is sequential, the `else` branch
   parallel, both run the same closure chain over the same index range, which is all d+1 nodes 0..d; hence under any split tree
   of rayon's range producer the parallel branch equals the sequential branch's fold (in any monoid; floats: 1e-12 measured) *)
Theorem C15_simpson_parallel_is_sequential : forall B (op : B -> B -> B) (e0 : B) (g : nat -> B) d t,
  (forall x y z, op x (op y z) = op (op x y) z) -> (forall x, op e0 x = x) -> (forall x, op x e0 = x) ->
  admissible 0 t (range_count (simpson_else_range d)) ->
  run_reduce prod_range op e0 g t (range_root (simpson_else_range d)) =
  Ok (fold_left (fun acc n => op acc (g n)) (range_list (simpson_then_range d)) e0) /\
  range_list (simpson_then_range d) = seq 0 (S d).
Proof. exact (@simpson_parallel_is_sequential). Qed.

Theorem C15_simpson_branches :
  simpson_then_parallel = false /\ simpson_else_parallel = true /\ simpson_then_chain = simpson_else_chain /\
  (forall d, simpson_else_range d = simpson_then_range d) /\ (forall d, range_list (simpson_then_range d) = seq 0 (S d)).
Proof. exact simpson_branches. Qed.

(* 5'''. CENSUS of every parallel call site of the crate (generated from all of src/; the generator fails when the text mentions a
   parallel construct it did not find in a parsed body): each descriptor classifies into a shape and the shape's statement — a
   universally quantified theorem about the drivers of Model/Producer.v over the custom producers, rayon's Vec producer and rayon's
   range producer, for EVERY admissible split tree — holds.  Sites using par_bridge, for_each, reduce, fold, rayon::join/scope/spawn
   or any other entry / adaptor / terminal do not classify, and this theorem fails.  (The link descriptor -> rayon adaptor semantics
   is the hand model of Map / Enumerate / Collect / Sum.)
   What this adds: every shape's statement is proved once and for all (every_shape_holds), so the content that depends on the SOURCE is
   exactly "the census is closed under the proved shapes" — classify is total on the generated list; a site outside the ten proved
   shapes makes the theorem fail.  It does not prove that a descriptor describes its call site faithfully (generator, trusted). *)
Theorem C15_par_sites_sound : Forall (fun s => exists sh, classify s = Some sh /\ shape_holds sh) par_sites.
Proof. exact par_sites_sound. Qed.

Theorem C15_census_complete :
  forallb in_census ["JointSpectrum::jsa_range"; "JointSpectrum::jsa_normalized_range"; "JointSpectrum::jsi_range"; "JointSpectrum::jsi_normalized_range";
                     "JointSpectrum::jsi_singles_range"; "JointSpectrum::jsi_singles_idler_range"; "JointSpectrum::jsi_singles_normalized_range";
                     "JointSpectrum::jsi_singles_idler_normalized_range";
                     "FrequencySpace::into_signal_idler_par_iterator"; "SumDiffFrequencySpace::into_signal_idler_par_iterator";
                     "WavelengthSpace::into_signal_idler_par_iterator"; "SignalIdlerWavelengthArray::into_signal_idler_par_iterator";
                     "SignalIdlerFrequencyArray::into_signal_idler_par_iterator";
                     "simpson"; "simpson2d"; "counts_coincidences"; "counts_singles_signal"; "counts_singles_idler"; "hom_rate"; "SPDC::hom_rate_series"]%string = true
  /\ List.length par_sites = 21.
Proof. exact census_complete. Qed.

(* the range evaluators' call table (same generated table as C14): map of the point function, argument order, collect *)
Theorem C15_range_table :
  forallb entry_ok range_calls = true /\ has "jsa_range" = true /\ has "jsi_range" = true /\ has "jsi_singles_range" = true.
Proof. exact range_table_ok. Qed.

(* 5''''. PINNED, not proved: the detailed table of the reduction sites (sources, bindings, closure texts) is the expected one; its
   class labels are names of the theorems above (the semantic statement is C15_par_sites_sound) *)
Theorem C15_call_sites :
  (map (fun s => (s_fn s, s_source s, site_class s)) reduction_sites = expected_sites /\
   forallb (fun s => negb (String.eqb (site_class s) "UNCOVERED")) reduction_sites = true) /\
  map s_detail reduction_sites = expected_details.
Proof. exact (conj sites_covered sites_pinned). Qed.

(* real sums (count rates, HOM rate) and complex sums (quadrature) are instances *)
Theorem C15_reduce_real_monoids :
  ((forall x y z : R, (x + (y + z) = x + y + z)%R) /\ (forall x : R, (0 + x = x)%R) /\ (forall x : R, (x + 0 = x)%R)) /\
  ((forall x y z, cplus x (cplus y z) = cplus (cplus x y) z) /\ (forall x, cplus (0%R, 0%R) x = x) /\ (forall x, cplus x (0%R, 0%R) = x)).
Proof. exact (conj Rplus_monoid cplus_monoid). Qed.

(* every tree rayon's bridge can build (split at len/2 while len/2 >= 1) is admissible for both producers;
   split_at(0) on the 1-D producer (usize `index - 1`) is outside: the debug-build model panics there *)
Theorem C15_bridge_trees_admissible : forall t n, bridge_shaped t n -> admissible 1 t n /\ admissible 0 t n.
Proof. exact bridge_admissible. Qed.

(* rayon's bridge modelled with an explicit steal oracle (Model/C15_Bridge.v: LengthSplitter / Splitter budget, reset on steal):
   for EVERY thread count, min_len and steal pattern the tree it builds is admissible, so both producers deliver the sequential
   sequence (2-D: any carrier, bit-exact; 1-D: over the reals, floats within C15_1d_float_bound_partial) *)
Theorem C15_bridge_any_steals : forall (min_len threads : nat) (steal : steal_oracle),
  (forall len, bridge_shaped (bridge min_len threads steal len) len) /\
  (forall T (O : ops T) x0 x1 nx y0 y1 ny,
     run (prod2d O x0 x1 nx y0 y1 ny) (bridge min_len threads steal (nx * ny)) (root2d nx ny) = Ok (seq2d O x0 x1 nx y0 y1 ny)) /\
  (forall (s e : R) n, run (prod1d Rops) (bridge min_len threads steal n) (root1d s e n) = Ok (seq1d Rops s e n)).
Proof.
  exact (fun min_len threads steal =>
    conj (bridge_shaped_any min_len threads steal)
   (conj (fun T O x0 x1 nx y0 y1 ny => run2d_exact O x0 x1 nx y0 y1 ny _ (proj2 (bridge_admissible_any min_len threads steal (nx * ny))))
         (fun s e n => run1d_exact_real s e n _ (proj1 (bridge_admissible_any min_len threads steal n))))).
Qed.

Theorem C15_split_at_zero_1d : forall T (O : ops T) p, p_split (prod1d O) p 0 = Panic.
Proof. exact (@split1d_zero). Qed.

(* non-vacuity *)
Example C15_nonvacuous_tree : admissible 1 (Node 2 (Node 1 Leaf Leaf) (Node 3 Leaf Leaf)) 5 /\ bridge_shaped (Node 2 (Node 1 Leaf Leaf) (Node 1 Leaf Leaf)) 5.
Proof. cbn. repeat split; lia. Qed.

Print Assumptions C15_2d_exact.
Print Assumptions C15_1d_exact_real.
Print Assumptions C15_1d_count_exact.
Print Assumptions C15_1d_float_bound_partial.
Print Assumptions C15_1d_float_bound_numbers.
Print Assumptions C15_len.
Print Assumptions C15_par_len.
Print Assumptions C15_enumerate.
Print Assumptions C15_collect.
Print Assumptions C15_range_functions.
Print Assumptions C15_reduce.
Print Assumptions C15_reduce_enumerate.
Print Assumptions C15_simpson_parallel_is_sequential.
Print Assumptions C15_simpson_branches.
Print Assumptions C15_call_sites.
Print Assumptions C15_par_sites_sound.
Print Assumptions C15_census_complete.
Print Assumptions C15_range_table.
Print Assumptions C15_reduce_real_monoids.
Print Assumptions C15_bridge_trees_admissible.
Print Assumptions C15_bridge_any_steals.
Print Assumptions C15_split_at_zero_1d.
