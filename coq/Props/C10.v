(* C10 — two-source HOM visibility = heralded-photon purity: property theorems.
   Statements, `exact` proofs, non-vacuity examples, Print Assumptions only.

   Model (Model/Hom2.v): [ts_rate_ss/ii/si o n A u] are the three four-index sums of hom.rs hom_two_source_rate_series over
   the eight amplitude grids [A] (record fields named as in the source, index permutations as written there) and the phase
   factors [u]; [setup_ts_rates J1 J2 ls1 li1 ls2 li2 n dt] builds the grids by tabulating the sources' amplitudes (oracles)
   on the regions the source uses; [setup_ts_visibilities_identical] is hom_two_source_visibilities for spdc1 == spdc2;
   [purity_s], [purity_i] are Re tr((F F^dagger)^2)/(tr F F^dagger)^2 and Re tr((F^dagger F)^2)/(tr F^dagger F)^2 of the
   sampled matrix F(s,i) = F[get_1d_index(s,i,n)]; [ts_rates_Q0], [purity_s_Q] are the executable rational instances. *)
From Coq Require Import Reals QArith Lra List.
From SpdVerif Require Import Model.FinSum Model.Hom Model.Hom2 Model.C10_Pyth Proofs.C10_pyth Proofs.FinSum_lemmas Proofs.Cx_lemmas Proofs.CMat Proofs.C10_sums
  Proofs.C10_svd Proofs.C10_expand Proofs.C10_identical Proofs.C10_setup Proofs.C10_exec Proofs.C10_sharp Proofs.C10_si_char Proofs.C10_scale Gen.HomSrc Proofs.C10_src.
From SpdVerif Require Import Model.PMParams Gen.PMIntegrand Proofs.C06_defined Proofs.C06_spectrum Proofs.C09_compose Proofs.C10_compose Proofs.C09_grid_tie Base.GridOps Gen.Grid.
Local Open Scope R_scope.

(* identical sources (six main grids = one array F), unit phases (zero delay):
   rate_ss = rate_ii = 1/2 (1 - P), V_ss = tr((FF^+)^2)/(tr FF^+)^2, V_ii = tr((F^+F)^2)/(tr F^+F)^2, equal by trace cyclicity *)
Theorem C10_ss_trace : forall n (F AI BS : nat -> cx R) (u : nat -> nat -> cx R),
  (forall k l, u k l = (1, 0)) -> jsi_norm ROps (n * n) F <> 0 ->
  ts_rate_ss ROps n (ts_identical F AI BS) u = 1 / 2 * (1 - purity_s ROps n (Fmat n F)) /\
  ts_rate_ii ROps n (ts_identical F AI BS) u = 1 / 2 * (1 - purity_i ROps n (Fmat n F)) /\
  visibility_of_rate (ts_rate_ss ROps n (ts_identical F AI BS) u) = purity_s ROps n (Fmat n F) /\
  visibility_of_rate (ts_rate_ii ROps n (ts_identical F AI BS) u) = purity_i ROps n (Fmat n F) /\
  purity_s ROps n (Fmat n F) = purity_i ROps n (Fmat n F).
Proof. exact identical_zero_delay. Qed.

Theorem C10_ss_eq_ii : forall n M, purity_s ROps n M = purity_i ROps n M.
Proof. exact purity_s_eq_i. Qed.

(* for ANY factorisation F = U diag(sv) V^dagger with orthonormal columns (sv real): both purities are sum sv^4/(sum sv^2)^2 *)
Theorem C10_singular_values : forall n M sv,
  is_csvd n M sv -> frob2 ROps n M <> 0 ->
  rsum n (fun k => sv k * sv k) <> 0 /\ purity_s ROps n M = purity_sv n sv /\ purity_i ROps n M = purity_sv n sv.
Proof. exact purity_singular_values. Qed.

Theorem C10_power_sums : forall n M sv,
  is_csvd n M sv ->
  frob2 ROps n M = rsum n (fun k => sv k * sv k) /\
  re_tr_sq ROps n (FhF ROps n M) = rsum n (fun k => sv k ^ 4) /\
  re_tr_sq ROps n (FFh ROps n M) = rsum n (fun k => sv k ^ 4).
Proof. exact csvd_power_sums. Qed.

(* the setup-level identical-source visibilities, for every amplitude function J and every square grid *)
Theorem C10_setup_visibilities : forall J ls li n sv,
  jsi_norm ROps (n * n) (tabulate J (axes_grid ls li n)) <> 0 ->
  is_csvd n (Fmat n (tabulate J (axes_grid ls li n))) sv ->
  fst (fst (setup_ts_visibilities_identical J ls li n)) = purity_sv n sv /\
  snd (fst (setup_ts_visibilities_identical J ls li n)) = purity_sv n sv.
Proof. exact setup_identical_visibilities_sv. Qed.

(* the free function hom_two_source_visibilities(&a, &b, ..) with two structurally equal sources (same amplitude function, same
   waist positions and transit times), whichever way the test `spdc1 == spdc2` comes out: zero ss / ii delays and
   V_ss = V_ii = purity, as for a setup against itself *)
Theorem C10_free_function_identical : forall same J a ls li n,
  jsi_norm ROps (n * n) (tabulate J (axes_grid ls li n)) <> 0 ->
  fst (fst (setup_ts_visibilities same J J a a ls li ls li n)) = (0, purity_s ROps n (Fmat n (tabulate J (axes_grid ls li n)))) /\
  snd (fst (setup_ts_visibilities same J J a a ls li ls li n)) = (0, purity_i ROps n (Fmat n (tabulate J (axes_grid ls li n)))).
Proof. exact free_function_identical. Qed.

Theorem C10_time_delays_equal_sources : forall a,
  ts_time_delays a a = (0, 0, idl_time a - sig_time a + (idl_wp a - sig_wp a) / light_c).
Proof. exact ts_time_delays_same. Qed.

(* brightness invariance: a second source whose amplitude is c times the first's (different pump power, d_eff, global phase)
   gives the same three rates as the first source against itself, at every delay and on any two ranges *)
Theorem C10_brightness_invariant : forall J c ls1 li1 ls2 li2 n dt,
  c <> (0, 0) ->
  jsi_norm ROps (n * n) (tabulate J (axes_grid ls1 li1 n)) * jsi_norm ROps (n * n) (tabulate J (axes_grid ls2 li2 n)) <> 0 ->
  setup_ts_rates J (fun a b => cmul ROps c (J a b)) ls1 li1 ls2 li2 n dt = setup_ts_rates J J ls1 li1 ls2 li2 n dt.
Proof. exact setup_brightness_invariant. Qed.

(* composition with the generated spectrum model (C06): the two-source visibilities swap under signal <-> idler relabelling.
   S: the setup's scalars, Ssw: its with_swapped_signal_idler twin, Q: any quadrature; the setup on the ranges (ls, li), the twin
   on (li, ls); C06's definedness conditions at the grid points.  V_ss(S) = V_ii(twin), V_ii(S) = V_ss(twin), V_ss(S) = V_ii(S). *)
Theorem C10_purity_exchange : forall Q S Ssw ls li n,
  exchange_tie S Ssw -> physical_on S (axes_grid ls li n) ->
  jsi_norm ROps (n * n) (tabulate (jsa_of Q S) (axes_grid ls li n)) <> 0 ->
  let v := setup_ts_visibilities_identical (jsa_of Q S) ls li n in
  let v' := setup_ts_visibilities_identical (jsa_of Q Ssw) li ls n in
  fst (fst v) = snd (fst v') /\ snd (fst v) = fst (fst v') /\ fst (fst v) = snd (fst v).
Proof. exact purity_exchange. Qed.

Theorem C10_purity_transpose : forall n M,
  purity_i ROps n (cmTr M) = purity_s ROps n M /\ purity_s ROps n (cmTr M) = purity_i ROps n M.
Proof. exact purity_i_transpose. Qed.

(* rates in [0,1] at every delay, arbitrary eight grids: each rate needs the product of the norms of its two cross grids
   not to exceed norm1 * norm2 *)
Theorem C10_range_general : forall n A u_ss u_ii u_si,
  unit_phases u_ss -> unit_phases u_ii -> unit_phases u_si ->
  0 < jsi_norm ROps (n * n) (first_s1_i1 A) -> 0 < jsi_norm ROps (n * n) (second_s2_i2 A) ->
  let N12 := jsi_norm ROps (n * n) (first_s1_i1 A) * jsi_norm ROps (n * n) (second_s2_i2 A) in
  (jsi_norm ROps (n * n) (first_s2_i1 A) * jsi_norm ROps (n * n) (second_s1_i2 A) <= N12 -> 0 <= ts_rate_ss ROps n A u_ss <= 1) /\
  (jsi_norm ROps (n * n) (first_s1_i2 A) * jsi_norm ROps (n * n) (second_s2_i1 A) <= N12 -> 0 <= ts_rate_ii ROps n A u_ii <= 1) /\
  (jsi_norm ROps (n * n) (first_i2_i1 A) * jsi_norm ROps (n * n) (second_s2_s1 A) <= N12 -> 0 <= ts_rate_si ROps n A u_si <= 1).
Proof. exact ts_rates_range. Qed.

(* the sharp bound for arbitrary grids: rate_xx <= 1/4 (1 + sqrt(B_xx / (N1 N2)))^2 (written without the inner division),
   B_xx the product of the norms of the two cross grids of that channel; equals 1 when B_xx = N1 N2.  On the witness of
   Findings/C10_si_range.v this bound is 1.54, the observed rate 1.29. *)
Theorem C10_si_partial : forall n A u_ss u_ii u_si,
  unit_phases u_ss -> unit_phases u_ii -> unit_phases u_si ->
  0 < jsi_norm ROps (n * n) (first_s1_i1 A) -> 0 < jsi_norm ROps (n * n) (second_s2_i2 A) ->
  let N12 := jsi_norm ROps (n * n) (first_s1_i1 A) * jsi_norm ROps (n * n) (second_s2_i2 A) in
  let bound B := (sqrt N12 + sqrt B) * (sqrt N12 + sqrt B) / (4 * N12) in
  ts_rate_ss ROps n A u_ss <= bound (jsi_norm ROps (n * n) (first_s2_i1 A) * jsi_norm ROps (n * n) (second_s1_i2 A)) /\
  ts_rate_ii ROps n A u_ii <= bound (jsi_norm ROps (n * n) (first_s1_i2 A) * jsi_norm ROps (n * n) (second_s2_i1 A)) /\
  ts_rate_si ROps n A u_si <= bound (jsi_norm ROps (n * n) (first_i2_i1 A) * jsi_norm ROps (n * n) (second_s2_s1 A)).
Proof. exact ts_rates_sharp. Qed.

(* exact characterisation of rate > 1 (known finding F10).  N12 = norm1 * norm2, B = sum |b|^2, X = sum Re(a conj(b u)):
   rate = (N12 + B - 2X)/(4 N12);  rate > 1 <-> B - 2X > 3 N12;  for the signal-idler channel B = |f(wi2,wi1)|^2 |f(ws2,ws1)|^2 and
   rate_si > 1 -> B > N12 (necessary),  B > 9 N12 -> rate_si > 1 whatever the phases (sufficient);  the necessary condition is
   sharp: on unequal axes, for every lambda > 1 some amplitude has B = lambda^2 N12 and rate_si = (1+lambda)^2/4 *)
Theorem C10_rate_gt1_iff : forall n A b u,
  unit_phases u -> 0 < ts_N12 n A ->
  (1 < ts_rate ROps n A b u <-> 3 * ts_N12 n A < b_norm n b - 2 * ts_cross n A b u).
Proof. exact ts_rate_gt1_iff. Qed.

Theorem C10_si_gt1_necessary : forall n A u,
  unit_phases u -> 0 < ts_N12 n A -> 1 < ts_rate_si ROps n A u ->
  ts_N12 n A < jsi_norm ROps (n * n) (first_i2_i1 A) * jsi_norm ROps (n * n) (second_s2_s1 A).
Proof. exact si_gt1_necessary. Qed.

Theorem C10_si_gt1_sufficient : forall n A u,
  unit_phases u -> 0 < ts_N12 n A ->
  9 * ts_N12 n A < jsi_norm ROps (n * n) (first_i2_i1 A) * jsi_norm ROps (n * n) (second_s2_s1 A) -> 1 < ts_rate_si ROps n A u.
Proof. exact si_gt1_sufficient. Qed.

Theorem C10_si_gt1_attained : forall x y lambda : R,
  x <> y -> 1 < lambda ->
  exists J : R -> R -> cx R,
    let A := ts_tabulate J J (x, x) (y, y) (x, x) (y, y) 1 in
    ts_N12 1 A = 1 /\
    jsi_norm ROps (1 * 1) (first_i2_i1 A) * jsi_norm ROps (1 * 1) (second_s2_s1 A) = lambda * lambda /\
    ts_rate_si ROps 1 A (fun _ _ => (1, 0)) = (1 + lambda) * (1 + lambda) / 4 /\
    1 < ts_rate_si ROps 1 A (fun _ _ => (1, 0)).
Proof. exact si_gt1_attained. Qed.

Theorem C10_rate_lower : forall n A b u,
  unit_phases u -> 0 < ts_N12 n A ->
  (sqrt (b_norm n b) - sqrt (ts_N12 n A)) * (sqrt (b_norm n b) - sqrt (ts_N12 n A)) / (4 * ts_N12 n A) <= ts_rate ROps n A b u.
Proof. exact ts_rate_lower. Qed.

(* a setup against itself (SPDC::hom_two_source_rate_series), every delay: ss and ii always in [0,1]; si in [0,1] when the two
   auxiliary grids f(wi2, wi1), f(ws2, ws1) are not larger in norm than the main grid.
   PARTIAL for the signal-idler rate: on unequal signal and idler axes the norm condition is not a consequence of the model
   (the auxiliary grids sample the amplitude on other regions); the check validates rate_si <= 1 numerically there. *)
Theorem C10_range_partial : forall J ls li n dt,
  0 < jsi_norm ROps (n * n) (tabulate J (axes_grid ls li n)) ->
  let '(ss, ii, si) := setup_ts_rates J J ls li ls li n dt in
  0 <= ss <= 1 /\ 0 <= ii <= 1 /\
  (jsi_norm ROps (n * n) (tabulate J (axes_grid li li n)) * jsi_norm ROps (n * n) (tabulate J (axes_grid ls ls n))
     <= jsi_norm ROps (n * n) (tabulate J (axes_grid ls li n)) * jsi_norm ROps (n * n) (tabulate J (axes_grid ls li n)) ->
   0 <= si <= 1).
Proof. exact setup_identical_range. Qed.

(* identical signal and idler axes: all three rates in [0,1] at every delay *)
Theorem C10_range_same_axes : forall J ax n dt,
  0 < jsi_norm ROps (n * n) (tabulate J (axes_grid ax ax n)) ->
  let '(ss, ii, si) := setup_ts_rates J J ax ax ax ax n dt in
  0 <= ss <= 1 /\ 0 <= ii <= 1 /\ 0 <= si <= 1.
Proof. exact setup_identical_range_same_axes. Qed.

(* the executable twins run by the check *)
Theorem C10_exec_twin : forall n l,
  jsi_norm ROps (n * n) (first_s1_i1 (ts_R l)) * jsi_norm ROps (n * n) (second_s2_i2 (ts_R l)) <> 0 ->
  let '(ss, ii, si) := ts_rates_Q0 n l in
  Q2R ss = ts_rate_ss ROps n (ts_R l) (fun _ _ => (1, 0)) /\
  Q2R ii = ts_rate_ii ROps n (ts_R l) (fun _ _ => (1, 0)) /\
  Q2R si = ts_rate_si ROps n (ts_R l) (fun _ _ => (1, 0)).
Proof. exact ts_rates_Q0_correct. Qed.

Theorem C10_exec_twin_purity : forall n F,
  frob2 ROps n (Fmat_R n F) * frob2 ROps n (Fmat_R n F) <> 0 ->
  Q2R (purity_s_Q n F) = purity_s ROps n (Fmat_R n F) /\ Q2R (purity_i_Q n F) = purity_i ROps n (Fmat_R n F).
Proof. exact purity_Q_correct. Qed.

(* the two-source function translated from src/spdc/hom.rs on this run (Gen/HomSrc.v: where each of the eight grids is
   sampled, every index permutation, the products, the three phases, the normalisation) is the model the theorems are about *)
Theorem C10_source_is_model : forall n A r1 r2 dt J1 J2 ls1 li1 ls2 li2,
  src_ts_rates n A r1 r2 dt
    = (ts_rate_ss ROps n A (ts_phase_ss r1 r2 dt), ts_rate_ii ROps n A (ts_phase_ii r1 r2 dt), ts_rate_si ROps n A (ts_phase_si r1 r2 dt)) /\
  src_ts_tabulate J1 J2 ls1 li1 ls2 li2 n = ts_tabulate J1 J2 ls1 li1 ls2 li2 n /\
  src_ts_rates n (src_ts_tabulate J1 J2 ls1 li1 ls2 li2 n) (axes_grid ls1 li1 n) (axes_grid ls2 li2 n) dt
    = setup_ts_rates J1 J2 ls1 li1 ls2 li2 n dt.
Proof. exact src_ts_is_model. Qed.

Theorem C10_source_wrappers : forall J ls li n dt,
  src_setup_ts_rates_self J ls li n dt = setup_ts_rates J J ls li ls li n dt /\
  src_ts_visibilities_identical J ls li n = setup_ts_visibilities_identical J ls li n.
Proof. exact src_ts_wrappers. Qed.

Theorem C10_source_free_function : forall same J1 J2 a b ls1 li1 ls2 li2 n,
  src_ts_time_delays a b = ts_time_delays a b /\
  src_ts_visibilities same J1 J2 a b ls1 li1 ls2 li2 n = setup_ts_visibilities same J1 J2 a b ls1 li1 ls2 li2 n.
Proof. exact src_ts_free_function. Qed.

(* the non-zero-delay twin: on arithmetic axes (signal x0 + s h, idler x0 + k h + r i h, n >= 2 points, h <> 0) and the delay
   m0 atan(4/3) / h every phase factor is the rational (3/5 + 4/5 i)^m, and the rational instance equals the real-valued rates *)
Theorem C10_pyth_twin : forall (n : nat) (x0 h : R) (k r m0 : Z),
  (1 < n)%nat -> h <> 0 ->
  forall l : list (list (cx Q)),
  jsi_norm ROps (n * n) (first_s1_i1 (ts_R l)) * jsi_norm ROps (n * n) (second_s2_i2 (ts_R l)) <> 0 ->
  let g := axes_grid (pyth_ls n x0 h) (pyth_li n x0 h k r) n in
  let '(ss, ii, si) := ts_rates_Qpyth n l m0 k r in
  Q2R ss = ts_rate_ss ROps n (ts_R l) (ts_phase_ss g g (pyth_delay m0 h)) /\
  Q2R ii = ts_rate_ii ROps n (ts_R l) (ts_phase_ii g g (pyth_delay m0 h)) /\
  Q2R si = ts_rate_si ROps n (ts_R l) (ts_phase_si g g (pyth_delay m0 h)).
Proof. exact ts_rates_Qpyth_correct. Qed.

(* the index maps of the four-fold sum and the grid are the ones generated from src/utils.rs (Gen/Grid.v) *)
Theorem C10_index_maps_generated : forall (g : grid R) (k index cols col row : nat),
  (grid_ws ROps g k, grid_wi ROps g k) = Grid.steps2d_value Rops (g_x0 g) (g_x1 g) (g_cols g) (g_y0 g) (g_y1 g) (g_rows g) k /\
  FinSum.get_2d_indices index cols = Grid.get_2d_indices index cols /\ FinSum.get_1d_index col row cols = Grid.get_1d_index col row cols.
Proof. exact (fun g k index cols col row => conj (grid_point_generated g k) (conj (get_2d_indices_generated index cols) (get_1d_index_generated col row cols))). Qed.

(* ---- non-vacuity *)
Example C10_nonvacuous_norm : jsi_norm ROps (2 * 2) (fun _ => (1, 0)) <> 0.
Proof. unfold jsi_norm, cnorm2. cbn. lra. Qed.

Example C10_nonvacuous_csvd : is_csvd 1 (fun _ _ => (0, 2)) (fun _ => 2).
Proof.
  exists (fun _ _ => (0, 1)), (fun _ _ => (1, 0)). unfold unitary_cols, csum, gcsum. repeat split; intros;
  repeat match goal with H : (_ < 1)%nat |- _ => apply PeanoNat.Nat.lt_1_r in H; subst end;
  cbn; apply injective_projections; cbn; lra.
Qed.

Example C10_nonvacuous_csvd2 :
  is_csvd 2 (fun s i => if Nat.eqb s i then (0, 0) else if Nat.eqb s 0 then (0, 2) else (3, 0)) (fun k => if Nat.eqb k 0 then 2 else 3).
Proof. exact csvd_example_2. Qed.

Example C10_nonvacuous_unit : unit_phases (fun _ _ => (1, 0)).
Proof. intros k l. unfold cnorm2. cbn. lra. Qed.

Example C10_nonvacuous_exec :
  let F := ((1, 0) :: (0, 0) :: (0, 0) :: (0, 1) :: nil)%Q in
  Qeq (purity_s_Q 2 F) (1 # 2) /\ Qeq (purity_i_Q 2 F) (1 # 2) /\
  Qeq (fst (fst (ts_rates_Q0 2 (F :: F :: F :: F :: F :: F :: F :: F :: nil)))) (1 # 4).
Proof. vm_compute. repeat split. Qed.

Print Assumptions C10_ss_trace.
Print Assumptions C10_ss_eq_ii.
Print Assumptions C10_singular_values.
Print Assumptions C10_power_sums.
Print Assumptions C10_setup_visibilities.
Print Assumptions C10_free_function_identical.
Print Assumptions C10_time_delays_equal_sources.
Print Assumptions C10_brightness_invariant.
Print Assumptions C10_purity_exchange.
Print Assumptions C10_purity_transpose.
Print Assumptions C10_range_general.
Print Assumptions C10_si_partial.
Print Assumptions C10_rate_gt1_iff.
Print Assumptions C10_si_gt1_necessary.
Print Assumptions C10_si_gt1_sufficient.
Print Assumptions C10_si_gt1_attained.
Print Assumptions C10_rate_lower.
Print Assumptions C10_range_partial.
Print Assumptions C10_range_same_axes.
Print Assumptions C10_source_is_model.
Print Assumptions C10_source_wrappers.
Print Assumptions C10_source_free_function.
Print Assumptions C10_pyth_twin.
Print Assumptions C10_index_maps_generated.
Print Assumptions C10_exec_twin.
Print Assumptions C10_exec_twin_purity.
