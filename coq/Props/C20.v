(* C20 — property theorems (statements, `exact` proofs, non-vacuity examples, Print Assumptions only).
   Models: Model/Config.v (SPDC::try_as_optimum in the code's order, incl. the two quirks: idler computed with the OLD
   poling, idler waist position computed from the OLD idler) and Model/NormSpectrum.v (JointSpectrum::new, the normalised
   accessors, SPDCIter::jsi_values(_normalized)); every numerical kernel is an oracle and every theorem is quantified over
   all oracles (optimiser kernels under the stated collinear contracts; raw spectra and normalisation factors arbitrary). *)
From Coq Require Import Reals List.
From Coquelicot Require Import Complex.
From SpdVerif Require Import Base.CfgNumOps Model.NumInst Spec.ConfigSpec Gen.ConfigTables Gen.ConfigSites Model.ConfigTypes Model.Config Model.NormSpectrum
  Proofs.C20_idempotent Proofs.C20_spectrum Gen.CfgSteps Gen.C20_SpectrumSteps Proofs.CfgSteps_eq Proofs.C20_spectrum_steps_eq Model.Cfg_Composed Proofs.Cfg_composed Proofs.C20_sweep_spectrum Proofs.C20_swap.
Import ListNotations.
Local Open Scope R_scope.

(* The models ARE the source: the statement-by-statement translations of SPDC::try_as_optimum, JointSpectrum::new, the accessors,
   the range / idler variants and the two sweep functions GENERATED from the source equal the models the theorems are about
   (instantiated with the flags of try_as_optimum read off the source). *)
Theorem C20_try_as_optimum_is_generated : forall num (o : NumOps num) K minpos (s : spdc num),
  gen_try_as_optimum o K minpos s = try_as_optimum o K minpos optimum_idler_sees_old_poling optimum_waist_sees_old_idler s.
Proof. exact gen_try_as_optimum_eq. Qed.

Theorem C20_spectrum_is_generated : forall K minpos jsa_raw singles_raw norm_jsi norm_singles freq pm_inv,
  (forall s, gen_joint_spectrum_new K minpos jsa_raw singles_raw norm_jsi norm_singles freq s =
             joint_spectrum_new K minpos optimum_idler_sees_old_poling optimum_waist_sees_old_idler jsa_raw singles_raw norm_jsi norm_singles freq s) /\
  (forall j ws wi,
     gen_jsa jsa_raw norm_jsi j ws wi = jsa jsa_raw norm_jsi j ws wi /\
     gen_jsi jsa_raw norm_jsi j ws wi = jsi jsa_raw norm_jsi j ws wi /\
     gen_jsi_singles singles_raw norm_singles j ws wi = jsi_singles singles_raw norm_singles j ws wi /\
     gen_jsa_normalized jsa_raw norm_jsi j ws wi = jsa_normalized jsa_raw norm_jsi j ws wi /\
     gen_jsi_normalized jsa_raw norm_jsi j ws wi = jsi_normalized jsa_raw norm_jsi j ws wi /\
     gen_jsi_singles_normalized singles_raw norm_singles j ws wi = jsi_singles_normalized singles_raw norm_singles j ws wi) /\
  (forall j grid,
     gen_jsi_singles_idler_normalized_range K minpos jsa_raw singles_raw norm_jsi norm_singles freq pm_inv j grid =
     jsi_singles_idler_normalized_range K minpos optimum_idler_sees_old_poling optimum_waist_sees_old_idler jsa_raw singles_raw norm_jsi norm_singles freq pm_inv j grid) /\
  (forall base setups,
     gen_jsi_values jsa_raw norm_jsi freq setups = jsi_values jsa_raw norm_jsi freq setups /\
     gen_jsi_values_normalized K minpos jsa_raw norm_jsi freq base setups =
     jsi_values_normalized K minpos optimum_idler_sees_old_poling optimum_waist_sees_old_idler jsa_raw norm_jsi freq base setups).
Proof.
  exact (fun K minpos jsa_raw singles_raw norm_jsi norm_singles freq pm_inv =>
    conj (gen_new_eq K minpos jsa_raw singles_raw norm_jsi norm_singles freq)
    (conj (gen_accessors_eq jsa_raw singles_raw norm_jsi norm_singles)
    (conj (gen_idler_range_eq K minpos jsa_raw singles_raw norm_jsi norm_singles freq pm_inv)
          (gen_sweeps_eq K minpos jsa_raw norm_jsi freq)))).
Qed.

(* op / oi: the two flags of try_as_optimum READ OFF THE SOURCE by the generator (Gen/ConfigSites.v:
   optimum_idler_sees_old_poling, optimum_waist_sees_old_idler; both true on the current tree).  The theorems hold for both values.
   Optimising an optimised setup leaves it unchanged -- when the code computes the idler waist position from the OLD idler
   (oi = true), for setups whose idler is energy-conserving with the type's polarization (every setup built from a configuration
   with an automatic idler, and every optimised setup); the unconditional statement is then refuted: Findings/C20_old_idler.v.
   When the code uses the new idler (oi = false) the statement is unconditional. *)
Theorem C20_idempotent : forall K minpos op oi s s' nf,
  collinear_contract K -> (oi = true -> idler_consistent s) ->
  try_as_optimum R_ops K minpos op oi s = Ok (s', nf) -> try_as_optimum R_ops K minpos op oi s' = Ok (s', nf).
Proof. exact optimum_idempotent. Qed.

(* for EVERY setup: after one optimisation the idler is consistent, so the second optimisation is a fixed point *)
Theorem C20_idempotent_after_two : forall K minpos op oi s s1 nf1 s2 nf2,
  collinear_contract K -> try_as_optimum R_ops K minpos op oi s = Ok (s1, nf1) -> try_as_optimum R_ops K minpos op oi s1 = Ok (s2, nf2) ->
  try_as_optimum R_ops K minpos op oi s2 = Ok (s2, nf2).
Proof. exact optimum_idempotent_after_two. Qed.

(* what optimisation does: collinear signal; signal wavelength and waist, idler waist, pump, bandwidth, power, threshold,
   deff, crystal kind/length/temperature kept; poling stays on/off; with poling on the crystal is untouched *)
Theorem C20_optimum_keeps : forall K minpos op oi s s' nf,
  try_as_optimum R_ops K minpos op oi s = Ok (s', nf) ->
  collinear (s_signal s') /\ b_wavelength (s_signal s') = b_wavelength (s_signal s) /\
  b_waist (s_signal s') = b_waist (s_signal s) /\ b_waist (s_idler s') = b_waist (s_idler s) /\
  s_pump s' = s_pump s /\ s_bandwidth s' = s_bandwidth s /\ s_power s' = s_power s /\ s_threshold s' = s_threshold s /\
  s_deff s' = s_deff s /\ cs_length (s_crystal s') = cs_length (s_crystal s) /\
  cs_temperature (s_crystal s') = cs_temperature (s_crystal s) /\ cs_kind (s_crystal s') = cs_kind (s_crystal s) /\
  (s_pp s = PolOff <-> s_pp s' = PolOff) /\ (s_pp s <> PolOff -> s_crystal s' = s_crystal s).
Proof. exact optimum_keeps. Qed.

(* ... and everything else that is not optimised: crystal azimuth, phase-matching type, counter-propagation flag, the signal's
   polarization, the apodization of the poling; the new idler has the energy-conserving wavelength, the type's idler polarization
   and the azimuth opposite to the optimised signal's *)
Theorem C20_optimum_keeps_more : forall K minpos op oi s s' nf,
  try_as_optimum R_ops K minpos op oi s = Ok (s', nf) ->
  cs_phi (s_crystal s') = cs_phi (s_crystal s) /\ cs_pm (s_crystal s') = cs_pm (s_crystal s) /\
  cs_counter (s_crystal s') = cs_counter (s_crystal s) /\
  b_pol (s_signal s') = b_pol (s_signal s) /\
  b_pol (s_idler s') = idler_polarization (cs_pm (s_crystal s)) /\
  b_phi (s_idler s') = normalize_angle R_ops (nadd R_ops (b_phi (s_signal s')) (npi R_ops)) /\
  b_wavelength (s_idler s') = idler_wavelength R_ops (s_signal s') (s_pump s) /\
  match s_pp s, s_pp s' with
  | PolOff, PolOff => True
  | PolOn _ _ a, PolOn _ _ a' => a' = a
  | _, _ => False
  end.
Proof. exact optimum_keeps_more. Qed.

(* every normalised value = unnormalised value / unnormalised value at the centre of the optimised setup -- where that reference
   is not 0 (at a zero reference the implementation returns x/0; the stream requires a minimum number of non-zero references) *)
Theorem C20_normalised_def : forall K minpos op oi jsa_raw singles_raw norm_jsi norm_singles freq s j so nf ws wi,
  joint_spectrum_new K minpos op oi jsa_raw singles_raw norm_jsi norm_singles freq s = Ok j ->
  try_as_optimum R_ops K minpos op oi s = Ok (so, nf) ->
  let '(w0s, w0i) := center freq so in
  (jsa_of jsa_raw norm_jsi so w0s w0i <> 0%C ->
     jsa_normalized jsa_raw norm_jsi j ws wi =
       Cdiv (jsa_of jsa_raw norm_jsi s ws wi) (RtoC (Cmod (jsa_of jsa_raw norm_jsi so w0s w0i)))) /\
  (0 <= norm_jsi so w0s w0i -> jsi_of jsa_raw norm_jsi so w0s w0i <> 0 ->
     jsi_normalized jsa_raw norm_jsi j ws wi = jsi_of jsa_raw norm_jsi s ws wi / jsi_of jsa_raw norm_jsi so w0s w0i) /\
  (singles_of singles_raw norm_singles so w0s w0i <> 0 ->
     jsi_singles_normalized singles_raw norm_singles j ws wi =
       singles_of singles_raw norm_singles s ws wi / singles_of singles_raw norm_singles so w0s w0i).
Proof. exact normalised_def_guarded. Qed.

Theorem C20_ranges_pointwise : forall jsa_raw singles_raw norm_jsi norm_singles j grid,
  jsa_normalized_range jsa_raw norm_jsi j grid = map (fun p => jsa_normalized jsa_raw norm_jsi j (fst p) (snd p)) grid /\
  jsi_normalized_range jsa_raw norm_jsi j grid = map (fun p => jsi_normalized jsa_raw norm_jsi j (fst p) (snd p)) grid /\
  jsi_singles_normalized_range singles_raw norm_singles j grid =
    map (fun p => jsi_singles_normalized singles_raw norm_singles j (fst p) (snd p)) grid.
Proof. exact ranges_pointwise. Qed.

Theorem C20_idler_singles_def : forall K minpos op oi jsa_raw singles_raw norm_jsi norm_singles freq pm_inv j grid l,
  jsi_singles_idler_normalized_range K minpos op oi jsa_raw singles_raw norm_jsi norm_singles freq pm_inv j grid = Ok l ->
  exists ji so nf,
    joint_spectrum_new K minpos op oi jsa_raw singles_raw norm_jsi norm_singles freq (swap_signal_idler pm_inv (js_spdc j)) = Ok ji /\
    try_as_optimum R_ops K minpos op oi (swap_signal_idler pm_inv (js_spdc j)) = Ok (so, nf) /\
    (singles_of singles_raw norm_singles so (fst (center freq so)) (snd (center freq so)) <> 0 ->
     l = map (fun p => singles_of singles_raw norm_singles (swap_signal_idler pm_inv (js_spdc j)) (snd p) (fst p) /
                       singles_of singles_raw norm_singles so (fst (center freq so)) (snd (center freq so))) grid).
Proof. exact idler_singles_def_guarded. Qed.

(* an optimised setup has normalised coincidence intensity 1, normalised amplitude of modulus 1 and normalised singles
   intensity 1 at its centre (guards: the reference values are not 0) *)
Theorem C20_unit_at_centre : forall K minpos op oi jsa_raw singles_raw norm_jsi norm_singles freq so nf j,
  try_as_optimum R_ops K minpos op oi so = Ok (so, nf) ->
  joint_spectrum_new K minpos op oi jsa_raw singles_raw norm_jsi norm_singles freq so = Ok j ->
  let '(w0s, w0i) := center freq so in
  (jsa_of jsa_raw norm_jsi so w0s w0i <> 0%C -> Cmod (jsa_normalized jsa_raw norm_jsi j w0s w0i) = 1) /\
  (0 <= norm_jsi so w0s w0i -> jsi_of jsa_raw norm_jsi so w0s w0i <> 0 -> jsi_normalized jsa_raw norm_jsi j w0s w0i = 1) /\
  (singles_of singles_raw norm_singles so w0s w0i <> 0 -> jsi_singles_normalized singles_raw norm_singles j w0s w0i = 1).
Proof. exact unit_at_centre. Qed.

(* normalised intensity is the squared modulus of the normalised amplitude, everywhere *)
Theorem C20_square : forall (jsa_raw : spdc R -> R -> R -> C) (norm_jsi : spdc R -> R -> R -> R) j ws wi,
  0 <= norm_jsi (js_spdc j) ws wi -> js_jsa_center j <> 0 ->
  jsi_normalized jsa_raw norm_jsi j ws wi = (Cmod (jsa_normalized jsa_raw norm_jsi j ws wi)) ^ 2.
Proof. exact square. Qed.

(* sweep normalisation: raw sweep values divided by the (non-zero) reference taken from the base setup's optimum *)
Theorem C20_sweep : forall K minpos op oi jsa_raw norm_jsi freq base setups opt nf,
  try_as_optimum R_ops K minpos op oi base = Ok (opt, nf) ->
  jsi_of jsa_raw norm_jsi opt (fst (center freq opt)) (snd (center freq opt)) <> 0 ->
  jsi_values_normalized K minpos op oi jsa_raw norm_jsi freq base setups =
  Ok (map (fun v => v / jsi_of jsa_raw norm_jsi opt (fst (center freq opt)) (snd (center freq opt))) (jsi_values jsa_raw norm_jsi freq setups)).
Proof. exact sweep_guarded. Qed.

(* ---- the sweep and the spectrum object speak about the SAME quantities with the SAME reference (Proofs/C20_sweep_spectrum.v):
   raw sweep values are the unnormalised coincidence intensity of each setup at its own centre ... *)
Theorem C20_sweep_raw_is_jsi : forall (jsa_raw : spdc R -> R -> R -> C) (norm_jsi : spdc R -> R -> R -> R) freq setups,
  jsi_values jsa_raw norm_jsi freq setups = map (fun s => jsi_of jsa_raw norm_jsi s (fst (center freq s)) (snd (center freq s))) setups.
Proof. exact sweep_raw_is_jsi. Qed.

(* ... a swept setup whose optimum is the base's optimum (the base itself; the optimum, by idempotence) gets from the sweep exactly
   the value its own JointSpectrum reports at its centre ... *)
Theorem C20_sweep_is_spectrum : forall K minpos op oi jsa_raw singles_raw norm_jsi norm_singles freq base s opt nf nf' j,
  try_as_optimum R_ops K minpos op oi base = Ok (opt, nf) ->
  try_as_optimum R_ops K minpos op oi s = Ok (opt, nf') ->
  joint_spectrum_new K minpos op oi jsa_raw singles_raw norm_jsi norm_singles freq s = Ok j ->
  0 <= norm_jsi opt (fst (center freq opt)) (snd (center freq opt)) ->
  jsi_values_normalized K minpos op oi jsa_raw norm_jsi freq base [s] =
  Ok [jsi_normalized jsa_raw norm_jsi j (fst (center freq s)) (snd (center freq s))].
Proof. exact sweep_is_spectrum. Qed.

(* ... the base's optimum sweeps to 1 (reference not 0) ... *)
Theorem C20_sweep_unit_at_optimum : forall K minpos op oi jsa_raw norm_jsi freq base opt nf,
  try_as_optimum R_ops K minpos op oi base = Ok (opt, nf) ->
  jsi_of jsa_raw norm_jsi opt (fst (center freq opt)) (snd (center freq opt)) <> 0 ->
  jsi_values_normalized K minpos op oi jsa_raw norm_jsi freq base [opt] = Ok [1].
Proof. exact sweep_unit_at_optimum. Qed.

(* ... and a sweep is pointwise: one value per setup, in order, independent of the neighbours and of the position in the sweep *)
Theorem C20_sweep_pointwise : forall K minpos op oi jsa_raw norm_jsi freq base setups l,
  jsi_values_normalized K minpos op oi jsa_raw norm_jsi freq base setups = Ok l ->
  length l = length setups /\
  forall k s, nth_error setups k = Some s ->
    exists v, nth_error l k = Some v /\ jsi_values_normalized K minpos op oi jsa_raw norm_jsi freq base [s] = Ok [v].
Proof. exact sweep_pointwise. Qed.

(* non-vacuity of the sweep theorems: the example setup optimises, so it is a base whose optimum exists *)
Example C20_ex_sweep_base : exists base opt nf,
  try_as_optimum R_ops ex_K0 0 optimum_idler_sees_old_poling optimum_waist_sees_old_idler base = Ok (opt, nf).
Proof. destruct (ex_optimises optimum_idler_sees_old_poling optimum_waist_sees_old_idler) as (s & s' & nf & _ & H). exists s, s', nf. exact H. Qed.

(* ---- the idler variants see the same references from the other side (Proofs/C20_swap.v): exchanging signal and idler twice gives
   the setup back (with the code's PMType::inverse, read off the source by the generator), so the "idler singles" of the swapped
   setup's spectrum are the signal singles of the original one, point for point *)
Theorem C20_swap_involutive : forall s : spdc R, swap_signal_idler pm_inverse (swap_signal_idler pm_inverse s) = s.
Proof. exact swap_involutive_now. Qed.

Theorem C20_idler_of_swapped_is_signal : forall K minpos op oi jsa_raw singles_raw norm_jsi norm_singles freq s j ji grid,
  joint_spectrum_new K minpos op oi jsa_raw singles_raw norm_jsi norm_singles freq s = Ok j ->
  joint_spectrum_new K minpos op oi jsa_raw singles_raw norm_jsi norm_singles freq (swap_signal_idler pm_inverse s) = Ok ji ->
  jsi_singles_idler_normalized_range K minpos op oi jsa_raw singles_raw norm_jsi norm_singles freq pm_inverse ji grid =
  Ok (map (fun p => jsi_singles_normalized singles_raw norm_singles j (snd p) (fst p)) grid).
Proof. exact (idler_of_swapped_is_signal pm_inverse pm_inverse_involutive_c20). Qed.

(* =====================================================================================================================
   FULL STRENGTH for the code as it is now (try_as_optimum_now = the model with the flags the generator reads off the source;
   the proof of C20_idempotent_now contains the obligation optimum_waist_sees_old_idler = false): optimising is idempotent for
   EVERY setup, and EVERY optimised setup has unit normalised values at its centre. *)
Theorem C20_idempotent_now : forall K minpos s s' nf,
  collinear_contract K -> try_as_optimum_now K minpos s = Ok (s', nf) -> try_as_optimum_now K minpos s' = Ok (s', nf).
Proof. exact optimum_idempotent_now. Qed.

Theorem C20_unit_at_centre_of_optimum : forall K minpos jsa_raw singles_raw norm_jsi norm_singles freq s so nf j,
  collinear_contract K -> try_as_optimum_now K minpos s = Ok (so, nf) ->
  joint_spectrum_new K minpos optimum_idler_sees_old_poling optimum_waist_sees_old_idler jsa_raw singles_raw norm_jsi norm_singles freq so = Ok j ->
  let '(w0s, w0i) := center freq so in
  (jsa_of jsa_raw norm_jsi so w0s w0i <> 0%C -> Cmod (jsa_normalized jsa_raw norm_jsi j w0s w0i) = 1) /\
  (0 <= norm_jsi so w0s w0i -> jsi_of jsa_raw norm_jsi so w0s w0i <> 0 -> jsi_normalized jsa_raw norm_jsi j w0s w0i = 1) /\
  (singles_of singles_raw norm_singles so w0s w0i <> 0 -> jsi_singles_normalized singles_raw norm_singles j w0s w0i = 1).
Proof. exact unit_at_centre_of_optimum. Qed.

(* ... and through the sweep path: a sweep whose base is an optimised setup gives that setup the value 1 *)
Theorem C20_sweep_unit_of_optimised_base : forall K minpos jsa_raw norm_jsi freq s so nf,
  collinear_contract K -> try_as_optimum_now K minpos s = Ok (so, nf) ->
  jsi_of jsa_raw norm_jsi so (fst (center freq so)) (snd (center freq so)) <> 0 ->
  jsi_values_normalized K minpos optimum_idler_sees_old_poling optimum_waist_sees_old_idler jsa_raw norm_jsi freq so [so] = Ok [1].
Proof. exact sweep_unit_of_optimised_base. Qed.

(* the same PER SETUP: only what optimising THIS setup asks of the oracles *)
Theorem C20_idempotent_now_at : forall K minpos s s' nf,
  optimum_contract_at K minpos s -> try_as_optimum_now K minpos s = Ok (s', nf) -> try_as_optimum_now K minpos s' = Ok (s', nf).
Proof. exact optimum_idempotent_now_at. Qed.

(* COMPOSED with the generated / proved kernels of C03 / C04 (oracles_of_model, any index function, any Snell inverse, any
   termination tests; every partial floating-point operation guarded by its definedness): the contract of optimising a setup is
   PROVED for that instance (external angle of the collinear optimised signal: n sin 0 = 0, asin 0 whatever the crystal angle;
   emission angle of a collinear signal: val = n_s sin(theta_s) / sqrt(arg) = 0 whatever the poling) PROVIDED the idler's angle is
   defined (arg > 0) under the poling before and after the optimisation -- where it is not, the implementation's idler angle is
   NaN under one of them and the two runs differ. *)
Theorem C20_optimum_contract_composed : forall index_of snell_inv sd_theta sd_period minpos s,
  idler_defined_before_and_after index_of snell_inv sd_theta sd_period minpos s ->
  optimum_contract_at (oracles_of_model index_of snell_inv sd_theta sd_period) minpos s.
Proof. exact optimum_contract_composed. Qed.

Theorem C20_idempotent_composed : forall index_of snell_inv sd_theta sd_period minpos s s' nf,
  idler_defined_before_and_after index_of snell_inv sd_theta sd_period minpos s ->
  try_as_optimum_now (oracles_of_model index_of snell_inv sd_theta sd_period) minpos s = Ok (s', nf) ->
  try_as_optimum_now (oracles_of_model index_of snell_inv sd_theta sd_period) minpos s' = Ok (s', nf).
Proof. exact idempotent_composed. Qed.

(* ---- non-vacuity: oracles satisfying the contracts, an idler-consistent setup that optimises *)
Definition ex_K : oracles R := ex_K0.   (* constant oracles, Proofs/C20_idempotent.v *)
Example C20_ex_contract : collinear_contract ex_K.
Proof. split; intros; reflexivity. Qed.
Example C20_ex_optimises : exists s s' nf, idler_consistent s /\
  try_as_optimum R_ops ex_K 0 optimum_idler_sees_old_poling optimum_waist_sees_old_idler s = Ok (s', nf).
Proof. exact (ex_optimises optimum_idler_sees_old_poling optimum_waist_sees_old_idler). Qed.

Print Assumptions C20_try_as_optimum_is_generated.
Print Assumptions C20_spectrum_is_generated.
Print Assumptions C20_optimum_contract_composed.
Print Assumptions C20_idempotent_now_at.
Print Assumptions C20_idempotent_composed.
Print Assumptions C20_idempotent_now.
Print Assumptions C20_optimum_keeps_more.
Print Assumptions C20_unit_at_centre_of_optimum.
Print Assumptions C20_idempotent.
Print Assumptions C20_idempotent_after_two.
Print Assumptions C20_optimum_keeps.
Print Assumptions C20_normalised_def.
Print Assumptions C20_ranges_pointwise.
Print Assumptions C20_idler_singles_def.
Print Assumptions C20_unit_at_centre.
Print Assumptions C20_square.
Print Assumptions C20_sweep.
Print Assumptions C20_sweep_raw_is_jsi.
Print Assumptions C20_sweep_is_spectrum.
Print Assumptions C20_sweep_unit_at_optimum.
Print Assumptions C20_sweep_pointwise.
Print Assumptions C20_swap_involutive.
Print Assumptions C20_idler_of_swapped_is_signal.
Print Assumptions C20_sweep_unit_of_optimised_base.
