(* C03 — property theorems.  Statements, `exact` proofs, non-vacuity examples and Print Assumptions only.

   Everything is stated about Gen/Idler.v (translated from src/ on every run: delta_k, Beam::new, Beam::wavevector,
   direction_from_polar, PeriodicPoling::k_eff / signed_period, IdlerBeam::try_new_optimum, the PMType tables) composed in
   Model/Idler.v.  [index] is the refractive-index oracle (CrystalSetup::index_along — property C02): every theorem holds
   for every index function.  signal = Beam::new(spol, phis, ths, ls, ws), pump = PumpBeam::from(Beam::new(ppol, _, _, lp, wp)). *)
From Coq Require Import Reals ZArith.
From SpdVerif Require Import Base.Rx Base.Vec3 Gen.Idler Model.Idler Proofs.C03_base Proofs.C03_idler Proofs.C03_all.
Local Open Scope R_scope.

(* delta_k is literally kp - ks - ki - k_eff z, each k = direction * n * omega / c with n the index along that beam's own
   direction for its own polarization at the given frequency; k_eff = 2 pi / (sign * period), 0 without poling *)
Theorem C03_delta_k_def : forall index omega_s omega_i (signal idler pump : beam) pp,
  delta_k_model index omega_s omega_i signal idler pump pp =
  vsub (vsub (vsub (vscale (index (frequency_to_vacuum_wavelength (b_omega pump)) (b_dir pump) (b_pol pump) * b_omega pump / c_light) (b_dir pump))
                   (vscale (index (frequency_to_vacuum_wavelength omega_s) (b_dir signal) (b_pol signal) * omega_s / c_light) (b_dir signal)))
             (vscale (index (frequency_to_vacuum_wavelength omega_i) (b_dir idler) (b_pol idler) * omega_i / c_light) (b_dir idler)))
       (vscale (match pp with PPOff => 0 | PPOn p s => 2 * PI / ((if s then 1 else -1) * p) end) ez).
Proof. exact delta_k_model_eq. Qed.

(* the stored direction of a beam is the unit vector of its polar angles (normalisation of the angles does not move it) *)
Theorem C03_direction : forall pol phi theta lambda w,
  b_dir (beam_new pol phi theta lambda w) = (sin theta * cos phi, sin theta * sin phi, cos theta) /\
  vnorm2 (b_dir (beam_new pol phi theta lambda w)) = 1.
Proof. exact direction. Qed.

(* arg (2 pi / ls)^2 = |kp - ks - k_eff z|^2 : the square root in the idler angle is the length of the closing vector *)
Theorem C03_arg_is_closing_norm : forall index spol ppol phis ths ls lp ws wp pp,
  0 < lp -> 0 < ls -> pp_defined pp -> - (PI / 2) < ths < PI / 2 ->
  opt_arg index (beam_new spol phis ths ls ws) (pump_new ppol lp wp) pp * (2 * PI / ls) ^ 2 =
  vnorm2 (closing_vector index (beam_new spol phis ths ls ws) (pump_new ppol lp wp) pp).
Proof. exact arg_norm. Qed.

(* error rule: an idler is refused exactly when the signal wavelength is not longer than the pump wavelength *)
Theorem C03_error_rule : forall index pm cp spol ppol phis ths ls lp ws wp pp, ls <> 0 -> lp <> 0 ->
  (ls <= lp <-> optimum_idler index pm cp (beam_new spol phis ths ls ws) (pump_new ppol lp wp) pp = None).
Proof. exact idler_error_rule. Qed.

(* energy conservation, polarization from the type, azimuth opposite to the signal's (in [0, 2 pi)), the signal's waist *)
Theorem C03_fields : forall index pm spol ppol phis ths ls lp ws wp pp, 0 < lp -> 0 < ls ->
  forall cp i, optimum_idler index pm cp (beam_new spol phis ths ls ws) (pump_new ppol lp wp) pp = Some i ->
  lp < ls /\ / b_lambda i = / lp - / ls /\
  b_omega i = b_omega (pump_new ppol lp wp) - b_omega (beam_new spol phis ths ls ws) /\
  b_pol i = idler_polarization pm /\ b_waist i = ws /\
  0 <= b_phi i < 2 * PI /\ (exists k : Z, b_phi i = phis + PI + 2 * IZR k * PI) /\
  cos (b_phi i) = - cos phis /\ sin (b_phi i) = - sin phis.
Proof. exact fields. Qed.

(* the polarization tables agree with the letters of the type's name "TypeN_p_si" (pump, signal, idler) *)
Theorem C03_polarization_by_name : forall p,
  name_letters (pm_to_str p) = Some (pump_polarization p, signal_polarization p, idler_polarization p).
Proof. exact polarization_by_name. Qed.

(* momentum: co-propagating setup, signal polar angle in (-pi/2, pi/2) (either sign), closing vector kp - ks - k_eff z
   pointing forward.  Then sqrt/asin are defined, the idler direction IS the unit closing vector (cross product zero, dot
   product positive), and the residual mismatch at the centre frequencies is parallel to the idler.
   (Before /repo 4e30e73 the code multiplied the angle by signum(theta_s) once more and the statement failed for every
   negative angle: Findings/C03_negative_theta.v keeps that record against a pinned copy of the old formula.) *)
Theorem C03_parallel : forall index pm spol ppol phis ths ls lp ws wp pp,
  0 < lp -> 0 < ls -> pp_defined pp -> - (PI / 2) < ths < PI / 2 ->
  forall i,
  0 < vz (closing_vector index (beam_new spol phis ths ls ws) (pump_new ppol lp wp) pp) ->
  optimum_idler index pm false (beam_new spol phis ths ls ws) (pump_new ppol lp wp) pp = Some i ->
  optimum_defined index (beam_new spol phis ths ls ws) (pump_new ppol lp wp) pp /\
  b_dir i = vscale (/ vnorm (closing_vector index (beam_new spol phis ths ls ws) (pump_new ppol lp wp) pp))
                   (closing_vector index (beam_new spol phis ths ls ws) (pump_new ppol lp wp) pp) /\
  vcross (b_dir i) (closing_vector index (beam_new spol phis ths ls ws) (pump_new ppol lp wp) pp) = vzero /\
  0 < vdot (b_dir i) (closing_vector index (beam_new spol phis ths ls ws) (pump_new ppol lp wp) pp) /\
  vcross (delta_k_model index (b_omega (beam_new spol phis ths ls ws)) (b_omega i) (beam_new spol phis ths ls ws) i (pump_new ppol lp wp) pp)
         (b_dir i) = vzero.
Proof. exact parallel. Qed.

(* collinear signal -> collinear idler *)
Theorem C03_collinear : forall index pm spol ppol phis ths ls lp ws wp pp,
  0 < lp -> 0 < ls -> pp_defined pp -> - (PI / 2) < ths < PI / 2 ->
  forall i, ths = 0 ->
  vz (closing_vector index (beam_new spol phis ths ls ws) (pump_new ppol lp wp) pp) <> 0 ->
  optimum_idler index pm false (beam_new spol phis ths ls ws) (pump_new ppol lp wp) pp = Some i ->
  b_theta i = 0 /\ b_dir i = ez.
Proof. exact collinear. Qed.

(* beyond the property text: a counter-propagating setup takes the pi - asin branch and closes a backward closing vector *)
Theorem C03_parallel_counter : forall index pm spol ppol phis ths ls lp ws wp pp,
  0 < lp -> 0 < ls -> pp_defined pp -> - (PI / 2) < ths < PI / 2 ->
  forall i,
  vz (closing_vector index (beam_new spol phis ths ls ws) (pump_new ppol lp wp) pp) < 0 ->
  optimum_idler index pm true (beam_new spol phis ths ls ws) (pump_new ppol lp wp) pp = Some i ->
  b_dir i = vscale (/ vnorm (closing_vector index (beam_new spol phis ths ls ws) (pump_new ppol lp wp) pp))
                   (closing_vector index (beam_new spol phis ths ls ws) (pump_new ppol lp wp) pp).
Proof. exact parallel_counter. Qed.

(* non-vacuity: constant index 3/2, pump wavelength 1, signal wavelength 2, no poling, signal polar angle +1/10 and -1/10:
   the hypotheses of C03_parallel hold and an idler is produced *)
Example C03_nonvacuous : forall t, - (1 / 10) <= t <= 1 / 10 ->
  let index := fun (_ : R) (_ : vec) (_ : polarization) => 3 / 2 in
  (0 < 1 /\ 0 < 2 /\ pp_defined PPOff /\ - (PI / 2) < t < PI / 2) /\
  0 < vz (closing_vector index (beam_new Ordinary 0 t 2 (1, 1)) (pump_new Ordinary 1 (1, 1)) PPOff) /\
  exists i, optimum_idler index Type2_e_eo false (beam_new Ordinary 0 t 2 (1, 1)) (pump_new Ordinary 1 (1, 1)) PPOff = Some i.
Proof. exact nonvacuous_at. Qed.

(* with poling: period 10 (+) keeps the closing vector forward — hypotheses of C03_parallel with PeriodicPoling::On;
   period 1/2 (+), counter-propagating, turns it backward — hypotheses of C03_parallel_counter *)
Example C03_nonvacuous_poled :
  let index := fun (_ : R) (_ : vec) (_ : polarization) => 3 / 2 in
  (pp_defined (PPOn 10 true) /\ - (PI / 2) < 1 / 10 < PI / 2) /\
  0 < vz (closing_vector index (beam_new Ordinary 0 (1 / 10) 2 (1, 1)) (pump_new Ordinary 1 (1, 1)) (PPOn 10 true)) /\
  (exists i, optimum_idler index Type2_e_eo false (beam_new Ordinary 0 (1 / 10) 2 (1, 1)) (pump_new Ordinary 1 (1, 1)) (PPOn 10 true) = Some i) /\
  pp_defined (PPOn (1 / 2) true) /\
  vz (closing_vector index (beam_new Ordinary 0 (1 / 10) 2 (1, 1)) (pump_new Ordinary 1 (1, 1)) (PPOn (1 / 2) true)) < 0 /\
  (exists i, optimum_idler index Type2_e_eo true (beam_new Ordinary 0 (1 / 10) 2 (1, 1)) (pump_new Ordinary 1 (1, 1)) (PPOn (1 / 2) true) = Some i).
Proof. exact nonvacuous_poled. Qed.

Print Assumptions C03_delta_k_def.
Print Assumptions C03_direction.
Print Assumptions C03_arg_is_closing_norm.
Print Assumptions C03_error_rule.
Print Assumptions C03_fields.
Print Assumptions C03_polarization_by_name.
Print Assumptions C03_parallel.
Print Assumptions C03_collinear.
Print Assumptions C03_parallel_counter.
