(* Statement pins for C15. *)
From Coq Require Import List Arith Reals.
From SpdVerif Require Import Base.GridOps Gen.Grid Model.Grid Model.Producer Props.C15.
Import ListNotations.

Check (C15_2d_exact : forall T (O : ops T) (x0 x1 : T) (nx : nat) (y0 y1 : T) (ny : nat) (t : tree),
  admissible 0 t (nx * ny) -> run (prod2d O x0 x1 nx y0 y1 ny) t (root2d nx ny) = Ok (seq2d O x0 x1 nx y0 y1 ny)).
Check (C15_1d_exact_real : forall (s e : R) (n : nat) (t : tree),
  admissible 1 t n -> run (prod1d Rops) t (root1d s e n) = Ok (seq1d Rops s e n)).
Check (C15_1d_count_exact : forall T (O : ops T) (s e : T) (n : nat) (t : tree), admissible 1 t n ->
  exists l, run (prod1d O) t (root1d s e n) = Ok l /\ length l = n).
Check (C15_range_functions : forall T (O : ops T) x0 x1 nx y0 y1 ny B (f : T * T -> B) t, admissible 0 t (nx * ny) ->
  run_collect (pmap f (prod2d O x0 x1 nx y0 y1 ny)) t (nx * ny) (root2d nx ny) = Ok (map f (seq2d O x0 x1 nx y0 y1 ny))).
Check (C15_bridge_trees_admissible : forall t n, Proofs.C15_generic.bridge_shaped t n -> admissible 1 t n /\ admissible 0 t n).
