(* C07_aux — AUXILIARY COMPOSITION theorems of property C07: statements that connect the property's own model with the generated
   kinematics / wrappers / grid-resolution / simple phase-matching models (Proofs/Compose_*.v).  Same house style as Props/C07.v
   (statements, `exact` proofs, non-vacuity Examples, Print Assumptions; pinned in Props/C07_aux_pins.v).  Built and audited as a
   separate target (vlib/auxprops.py): a failure here is reported as a broken obligation of the AUXILIARY COMPOSITION, the theorems of
   Props/C07.v stay accountable on their own. *)
From SpdVerif Require Import Gen.WrapBase Gen.W_SPDC_counts_coincidences Gen.W_SPDC_counts_singles_signal Gen.W_SPDC_counts_singles_idler
  Gen.W_SPDC_efficiencies Proofs.Compose_wrappers_eff.

(* The rate theorems above are about the functions counts_coincidences / counts_singles_signal / counts_singles_idler of
   src/spdc/counts.rs (and efficiencies of efficiencies.rs).  The methods of the same names on the SPDC object — what a user of the
   crate calls — are translated as forwarders (Gen/W_SPDC_*.v: callee and forwarded arguments in source order,
   the callee bound by its name): each hands
   (self, ranges.into(), integrator), in that order and unchanged, to its callee f.  So the scaling laws hold of what the methods return. *)
Theorem C07_counts_methods_forward : forall (obj : Type) (f : spdc obj -> obj -> obj -> obj) (s : spdc obj) (ranges integrator : obj),
  SPDC_counts_coincidences_gen {| SPDC_counts_coincidences_K_counts_coincidences := f |} s ranges integrator = f s ranges integrator /\
  SPDC_counts_singles_signal_gen {| SPDC_counts_singles_signal_K_counts_singles_signal := f |} s ranges integrator = f s ranges integrator /\
  SPDC_counts_singles_idler_gen {| SPDC_counts_singles_idler_K_counts_singles_idler := f |} s ranges integrator = f s ranges integrator /\
  SPDC_efficiencies_gen {| SPDC_efficiencies_K_efficiencies := f |} s ranges integrator = f s ranges integrator.
Proof. exact wrap_counts_order. Qed.
Print Assumptions C07_counts_methods_forward.
