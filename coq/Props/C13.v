(* C13 — property theorems.  This file contains statements, `exact` proofs and Print Assumptions only.

   Gen/Beam.v is regenerated from src/beam/mod.rs, src/math/mod.rs, src/utils.rs on every run: record `beam` (the struct's
   fields), beam_new_gen, one state transformer per public setter, pump_from_beam_gen (From<Beam> for PumpBeam), the Snell
   conversions with the optimiser `nm` and the crystal's index `n_along` as parameters, the unit conversions.
   Model/Beam.v adds the op type, `step`/`run` (dispatch to the generated setters) and the normal forms norm_u / norm_s. *)
From Coq Require Import Reals List String.
From Interval Require Import Tactic.
From SpdVerif Require Import Base.Rx Model.Optics Model.Fresnel Gen.Fresnel Gen.Beam Model.Beam
  Proofs.C02_frame Proofs.C02_gen Proofs.C13_norm Proofs.C13_beam Proofs.C13_snell.
Local Open Scope R_scope.

(* the state invariant holds after the constructor and after ANY finite sequence of public mutations, for any arguments and
   any behaviour of the Snell optimiser: direction = (sin th cos ph, sin th sin ph, cos th), unit norm,
   azimuth in [0, 2 pi), polar angle in (-pi, pi].  (binary64: rem_euclid may round up to exactly 2 pi — measured.) *)
Theorem C13_invariant : forall snell_inv p phi theta l w ops,
  beam_inv (run snell_inv (beam_new_gen p phi theta l w) ops).
Proof. exact (fun snell_inv p phi theta l w ops => run_inv snell_inv ops _ (new_inv p phi theta l w)). Qed.

Theorem C13_direction_unit : forall snell_inv p phi theta l w ops,
  let s := run snell_inv (beam_new_gen p phi theta l w) ops in
  b_direction s = polar_dir (b_phi s) (b_theta s) /\ vnorm2 (b_direction s) = 1.
Proof. exact (fun snell_inv p phi theta l w ops =>
  let H := run_inv snell_inv ops _ (new_inv p phi theta l w) in conj (proj1 H) (proj1 (proj2 H))). Qed.

(* both angles are congruent modulo 2 pi to the last requested values (for set_theta_external the requested polar angle
   is what the Snell inversion returned, the requested azimuth the current one; for the pump conversion both are 0) *)
Theorem C13_congruent : forall snell_inv p phi theta l w ops,
  let s0 := beam_new_gen p phi theta l w in
  congruent (b_phi (run snell_inv s0 ops)) (fst (last_requested snell_inv s0 ops phi theta)) /\
  congruent (b_theta (run snell_inv s0 ops)) (snd (last_requested snell_inv s0 ops phi theta)).
Proof. exact (fun snell_inv p phi theta l w ops =>
  run_congruent snell_inv ops _ phi theta (proj1 (new_congruent p phi theta l w)) (proj2 (new_congruent p phi theta l w))). Qed.

(* a mutation leaves the fields it is not about alone *)
Theorem C13_frame : forall snell_inv s o,
  (match o with SetVacuumWavelength _ | SetFrequency _ => True | _ => b_frequency (step snell_inv s o) = b_frequency s end) /\
  (match o with SetPolarization _ | WithPolarization _ => True | _ => b_polarization (step snell_inv s o) = b_polarization s end) /\
  (match o with SetWaist _ => True | _ => b_waist (step snell_inv s o) = b_waist s end).
Proof. exact step_frame. Qed.

(* a pump converted from any beam points along z *)
Theorem C13_pump_along_z : forall snell_inv s,
  b_direction (step snell_inv s IntoPump) = (0, 0, 1) /\ b_phi (step snell_inv s IntoPump) = 0 /\
  b_theta (step snell_inv s IntoPump) = 0.
Proof. exact pump_points_along_z. Qed.

(* the generated normalisers are x - 2 pi floor(x / 2 pi) and its signed variant, with their ranges *)
Theorem C13_normalize : forall x,
  normalize_angle_gen x = norm_u x /\ normalize_angle_signed_gen x = norm_s x /\
  0 <= norm_u x < 2 * PI /\ - PI < norm_s x <= PI /\ congruent (norm_u x) x /\ congruent (norm_s x) x.
Proof. exact (fun x => conj (normalize_angle_gen_eq x) (conj (normalize_angle_signed_gen_eq x)
  (conj (norm_u_range x) (conj (norm_s_range x) (conj (norm_u_congr x) (norm_s_congr x)))))). Qed.

(* Snell forward: sin(theta_e) = n(theta_i) sin(theta_i), guarded by |n sin theta_i| <= 1 (the domain of asin) *)
Theorem C13_snell_forward : forall n_along s theta_i,
  let n := n_along (normalize (polar_dir (b_phi s) theta_i)) in
  -1 <= n * sin theta_i <= 1 ->
  sin (calc_external_theta_from_internal_gen n_along s theta_i) = n * sin theta_i.
Proof. exact snell_forward_relation. Qed.

(* Snell round trip, either sign of the external angle (the property's [0, 80 deg] is the e >= 0 instance; since /repo 6fcae16 a
   negative external angle gives the mirrored internal angle: b_theta = sign(e) theta*, sin|theta_e| = n(theta_i) sin|theta_i|).
   PARTIAL (conditional): argmin's Nelder-Mead is an oracle `nm`; IF on this input it returns a point in
   its bounds [0, pi/2] with residual |sin theta_e - n(theta) sin theta| <= r, THEN the stored angle satisfies Snell's law
   within r and the read-back external angle is within r / cos M of theta_e (M any angle < pi/2 with sin theta_e + r <= sin M).
   Missing for the unconditional statement: convergence of the 100-iteration simplex (checked per input by the harness). *)
Theorem C13_snell_roundtrip_partial : forall nm n_along s e r M,
  beam_inv s -> Rabs e <= M -> M < PI / 2 ->
  0 <= theta_star nm n_along s e <= PI / 2 ->
  snell_cost_gen n_along s e (theta_star nm n_along s e) <= r ->
  sin (Rabs e) + r <= sin M ->
  let s' := set_theta_external_gen (snell_inv_of nm n_along) s e in
  b_theta s' = signum e * theta_star nm n_along s e /\ b_phi s' = b_phi s /\
  Rabs (sin (Rabs e) - n_along (normalize (polar_dir (b_phi s) (b_theta s'))) * sin (Rabs (b_theta s'))) <= r /\
  Rabs (theta_external_gen n_along s' - e) <= r / cos M.
Proof.
  exact (fun nm n_along s e r M Hs He HM Hb Hc HrM =>
    conj (proj1 (after_set_theta_external nm n_along s e Hs Hb))
      (conj (proj2 (after_set_theta_external nm n_along s e Hs Hb))
        (conj (stored_angle_satisfies_snell nm n_along s e r M Hs He HM Hb Hc)
              (snell_roundtrip nm n_along s e r M Hs He HM Hb Hc HrM)))).
Qed.

(* the property's numbers: theta_e in [0, 80 deg], residual <= 3e-8  ==>  read-back within 1e-5 deg *)
Theorem C13_snell_roundtrip_80deg_partial : forall nm n_along s e r,
  beam_inv s -> Rabs e <= 80 * (PI / 180) -> r <= 3e-8 ->
  0 <= theta_star nm n_along s e <= PI / 2 ->
  snell_cost_gen n_along s e (theta_star nm n_along s e) <= r ->
  Rabs (theta_external_gen n_along (set_theta_external_gen (snell_inv_of nm n_along) s e) - e) <= 1e-5 * (PI / 180).
Proof. exact snell_roundtrip_80deg. Qed.

(* with an index >= 1 the internal angle is not larger than the external one, up to the residual *)
Theorem C13_internal_not_larger_partial : forall nm n_along s e r M,
  beam_inv s -> Rabs e <= M -> M < PI / 2 ->
  0 <= theta_star nm n_along s e <= PI / 2 ->
  snell_cost_gen n_along s e (theta_star nm n_along s e) <= r ->
  1 <= n_along (normalize (polar_dir (b_phi s) (signum e * theta_star nm n_along s e))) ->
  sin (Rabs (b_theta (set_theta_external_gen (snell_inv_of nm n_along) s e))) <= sin (Rabs e) + r.
Proof. exact internal_not_larger. Qed.

(* unit conversions *)
Theorem C13_units_frequency_wavelength : forall l w,
  (l <> 0 -> vacuum_wavelength_to_frequency_gen l = 2 * PI * 299792458 / l /\
             frequency_to_vacuum_wavelength_gen (vacuum_wavelength_to_frequency_gen l) = l) /\
  (w <> 0 -> frequency_to_vacuum_wavelength_gen w = 2 * PI * 299792458 / w /\
             vacuum_wavelength_to_frequency_gen (frequency_to_vacuum_wavelength_gen w) = w).
Proof. exact units_frequency_wavelength. Qed.

Theorem C13_units_temperature : forall c k,
  from_kelvin_to_celsius_gen (from_celsius_to_kelvin_gen c) = c /\
  from_celsius_to_kelvin_gen (from_kelvin_to_celsius_gen k) = k /\
  from_celsius_to_kelvin_gen c = c + 273.15.
Proof. exact units_temperature. Qed.

Theorem C13_units_fwhm : forall x,
  waist_to_fwhm_gen (fwhm_to_waist_gen x) = x /\ fwhm_to_waist_gen (waist_to_fwhm_gen x) = x /\
  x = 2 * sqrt (2 * ln 2) * fwhm_to_sigma_gen x.
Proof. exact units_fwhm. Qed.

Theorem C13_beam_wavelength_frequency : forall snell_inv s l w,
  l <> 0 -> w <> 0 ->
  b_frequency (step snell_inv s (SetVacuumWavelength l)) = 2 * PI * 299792458 / l /\
  frequency_to_vacuum_wavelength_gen (b_frequency (step snell_inv s (SetVacuumWavelength l))) = l /\
  b_frequency (step snell_inv s (SetFrequency w)) = w.
Proof. exact beam_wavelength_frequency. Qed.

(* automatic waist position: -L / (2 n_z), n_z the index for propagation along z (guard: n_z <> 0; C02_index_along_positive) *)
Theorem C13_waist_position : forall L (n_along : vec -> R),
  n_along (0, 0, 1) <> 0 -> optimal_waist_position_gen L n_along = - L / (2 * n_along (0, 0, 1)).
Proof. exact optimal_waist_position_gen_eq. Qed.

(* non-vacuity *)
Example C13_nonvacuous_snell : Rabs 0.5 <= 80 * (PI / 180) /\ (0:R) <= 3e-8 /\ 80 * (PI / 180) < PI / 2.
Proof. rewrite Rabs_right by Lra.lra. pose proof PI_RGT_0. repeat split; try Lra.lra. apply Rminus_le. interval. Qed.
Example C13_nonvacuous_inv : exists s, beam_inv s.
Proof. exists (beam_new_gen Ordinary 0 0 1 1). apply new_inv. Qed.
Example C13_nonvacuous_units : (1:R) <> 0.
Proof. Lra.lra. Qed.

(* ---- composed with C01/C02 (Proofs/Compose_index.v): the index oracle instantiated with the generated index_along over the
   generated crystal tables, for every built-in crystal, in-window wavelength, T in [-50, 200] C, orientation, polarization *)
From SpdVerif Require Import Spec.CrystalTypes Spec.Published Gen.Crystals Proofs.Sellmeier Proofs.Compose_index Proofs.C13_builtin.

Theorem C13_internal_not_larger_builtin : forall nm c l T theta phi p s e r M,
  in_window c l -> temp_ok T ->
  beam_inv s -> Rabs e <= M -> M < PI / 2 ->
  0 <= theta_star nm (builtin_index c l T theta phi p) s e <= PI / 2 ->
  snell_cost_gen (builtin_index c l T theta phi p) s e (theta_star nm (builtin_index c l T theta phi p) s e) <= r ->
  sin (Rabs (b_theta (set_theta_external_gen (snell_inv_of nm (builtin_index c l T theta phi p)) s e))) <= sin (Rabs e) + r.
Proof. exact internal_not_larger_builtin. Qed.

Theorem C13_waist_position_builtin : forall c l T theta phi p L,
  in_window c l -> temp_ok T ->
  let nz := crystal_index c l T theta phi (0, 0, 1) p in
  optimal_waist_position_gen L (builtin_index c l T theta phi p) = - L / (2 * nz) /\
  1 < nz < 4 /\
  (0 < L -> - L / 2 < optimal_waist_position_gen L (builtin_index c l T theta phi p) < - L / 8).
Proof. exact waist_position_builtin. Qed.

Theorem C13_snell_forward_builtin : forall c l T theta phi p s theta_i,
  in_window c l -> temp_ok T -> Rabs (sin theta_i) <= / 4 ->
  sin (calc_external_theta_from_internal_gen (builtin_index c l T theta phi p) s theta_i) =
  crystal_index c l T theta phi (normalize (polar_dir (b_phi s) theta_i)) p * sin theta_i.
Proof. exact snell_forward_builtin. Qed.

(* ---- the Snell inversion WITHOUT an oracle: grpE's executable model of argmin's two-vertex Nelder-Mead (Model/NM1d.v, theorems
   Proofs/C04_nm.v; tied bit for bit to math::nelder_mead_1d by the PrimFloat replay cases of C04 and of this check) instantiated over
   the reals with the generated cost, seeds (theta_e, theta_e + 1) and bounds [0, pi/2].  nm_real sd fuel: any termination test `sd`,
   any iteration budget `fuel`. *)
From SpdVerif Require Import Model.NM1d Proofs.C13_nm Proofs.C13_continuity.

(* PROVED: the returned angle lies in [0, pi/2] and its residual is at most the residual at the seed theta_e *)
Theorem C13_snell_nm_bounds_and_residual : forall sd fuel n_along s e,
  Rabs e <= PI / 2 ->
  0 <= theta_star (nm_real sd fuel) n_along s e <= PI / 2 /\
  snell_cost_gen n_along s e (theta_star (nm_real sd fuel) n_along s e) <= snell_cost_gen n_along s e (Rabs e).
Proof. exact snell_nm_bounds_and_residual. Qed.

(* PROVED (intermediate value theorem): a continuous index >= 1 along the path gives a zero of the cost in [0, theta_e]:
   the contract `some point has residual 0` is a theorem *)
Theorem C13_snell_root_exists : forall n_along s e,
  Rabs e <= PI / 2 ->
  (forall t, 0 <= t <= Rabs e -> continuity_pt (fun u => n_along (normalize (polar_dir (b_phi s) (signum e * u)))) t) ->
  1 <= n_along (normalize (polar_dir (b_phi s) e)) ->
  exists t, 0 <= t <= Rabs e /\ snell_cost_gen n_along s e t = 0.
Proof. exact snell_root_exists. Qed.

(* both for the built-in crystals: continuity of the Fresnel index along the path and n > 1 are discharged *)
Theorem C13_snell_root_exists_builtin : forall c l T theta phi p s e,
  in_window c l -> temp_ok T -> Rabs e <= PI / 2 ->
  exists t, 0 <= t <= Rabs e /\ snell_cost_gen (builtin_index c l T theta phi p) s e t = 0.
Proof. exact snell_root_exists_builtin. Qed.

Theorem C13_snell_nm_builtin : forall sd fuel c l T theta phi p s e,
  in_window c l -> temp_ok T -> Rabs e <= PI / 2 ->
  let n_along := builtin_index c l T theta phi p in
  let star := theta_star (nm_real sd fuel) n_along s e in
  0 <= star <= PI / 2 /\
  snell_cost_gen n_along s e star <= (n_along (normalize (polar_dir (b_phi s) e)) - 1) * sin (Rabs e).
Proof. exact snell_nm_builtin. Qed.

(* round trip with the optimiser modelled.  PARTIAL: what remains a checked contract is convergence — that the residual r
   reached within the 100 iterations is <= 3e-8 (then the read-back is within 1e-5 deg by C13_snell_roundtrip_80deg_partial) *)
Theorem C13_snell_roundtrip_model_partial : forall sd fuel n_along s e r M,
  beam_inv s -> Rabs e <= M -> M < PI / 2 ->
  snell_cost_gen n_along s e (theta_star (nm_real sd fuel) n_along s e) <= r ->
  sin (Rabs e) + r <= sin M ->
  let s' := set_theta_external_gen (snell_inv_of (nm_real sd fuel) n_along) s e in
  Rabs (b_theta s') <= PI / 2 /\
  Rabs (sin (Rabs e) - n_along (normalize (polar_dir (b_phi s) (b_theta s'))) * sin (Rabs (b_theta s'))) <= r /\
  Rabs (theta_external_gen n_along s' - e) <= r / cos M.
Proof. exact snell_roundtrip_model. Qed.

(* ---- who calls optimal_waist_position: SPDC::assign_optimal_waist_positions (+ with_optimal_waist_positions), SPDC::try_as_optimum,
   SPDCConfig::try_as_spdc (`auto`).  Gen/C13Callers.v (tools/gen/c13_callers.py) lists every call with its arguments read
   symbolically; each caller sets both positions, the signal's from the signal's wavelength AND polarization, the idler's from the
   idler's.  The generator fails closed on a call site it does not know. *)
From SpdVerif Require Import Gen.C13Callers Proofs.C13_callers.

Theorem C13_waist_position_callers : forall ls li ps pi,
  List.Forall (waist_call_ok ls li ps pi) (waist_position_calls_gen ls li ps pi) /\
  sets_both "assign_optimal_waist_positions"%string (waist_position_calls_gen ls li ps pi) /\
  sets_both "try_as_optimum"%string (waist_position_calls_gen ls li ps pi) /\
  sets_both "try_as_spdc"%string (waist_position_calls_gen ls li ps pi).
Proof. exact waist_position_callers. Qed.

(* sharpened (review): under the round-trip hypotheses the asin-domain guard of the forward relation is implied by the residual
   bound (no condition on theta_i: covers the whole 0..80 deg range), and |theta_i| <= |theta_e| holds for the ANGLES up to r / cos M *)
Theorem C13_snell_forward_after_set_partial : forall nm n_along s e r M,
  beam_inv s -> Rabs e <= M -> M < PI / 2 ->
  0 <= theta_star nm n_along s e <= PI / 2 ->
  snell_cost_gen n_along s e (theta_star nm n_along s e) <= r -> sin (Rabs e) + r <= sin M ->
  let s' := set_theta_external_gen (snell_inv_of nm n_along) s e in
  sin (theta_external_gen n_along s') = n_along (normalize (polar_dir (b_phi s) (b_theta s'))) * sin (b_theta s').
Proof. exact forward_relation_after_set. Qed.

Theorem C13_internal_angle_not_larger_partial : forall nm n_along s e r M,
  beam_inv s -> Rabs e <= M -> M < PI / 2 ->
  0 <= theta_star nm n_along s e <= PI / 2 ->
  snell_cost_gen n_along s e (theta_star nm n_along s e) <= r -> sin (Rabs e) + r <= sin M ->
  1 <= n_along (normalize (polar_dir (b_phi s) (signum e * theta_star nm n_along s e))) ->
  Rabs (b_theta (set_theta_external_gen (snell_inv_of nm n_along) s e)) <= Rabs e + r / cos M.
Proof. exact internal_angle_not_larger. Qed.

Theorem C13_internal_angle_not_larger_builtin : forall nm c l T theta phi p s e r M,
  in_window c l -> temp_ok T ->
  beam_inv s -> Rabs e <= M -> M < PI / 2 ->
  0 <= theta_star nm (builtin_index c l T theta phi p) s e <= PI / 2 ->
  snell_cost_gen (builtin_index c l T theta phi p) s e (theta_star nm (builtin_index c l T theta phi p) s e) <= r ->
  sin (Rabs e) + r <= sin M ->
  Rabs (b_theta (set_theta_external_gen (snell_inv_of nm (builtin_index c l T theta phi p)) s e)) <= Rabs e + r / cos M.
Proof. exact internal_angle_not_larger_builtin. Qed.

(* a witness for ALL hypotheses of the conditional Snell theorems at once (theta_e = 0.5 rad, constant index sin 0.5 / sin 0.3 ~ 1.62,
   an optimiser that answers 0.3 rad: residual 0) *)
Example C13_nonvacuous_snell_witness :
  let nm := fun (_ : R -> R) (_ _ _ _ _ _ : R) => 0.3 in
  let n_along := fun _ : vec => sin 0.5 / sin 0.3 in
  let s := beam_new_gen Ordinary 0 0 1.55e-6 1e-4 in
  beam_inv s /\ Rabs 0.5 <= 1 /\ 1 < PI / 2 /\ 0 <= theta_star nm n_along s 0.5 <= PI / 2 /\
  snell_cost_gen n_along s 0.5 (theta_star nm n_along s 0.5) <= 3e-8 /\ sin (Rabs 0.5) + 3e-8 <= sin 1 /\
  1 <= n_along (normalize (polar_dir (b_phi s) (signum 0.5 * theta_star nm n_along s 0.5))).
Proof.
  cbv zeta. unfold theta_star, snell_cost_gen. rewrite !div1.
  assert (Hs3 : 0 < sin 0.3) by interval.
  assert (Ha : Rabs 0.5 = 0.5) by (apply Rabs_right; Lra.lra).
  assert (Hs5 : 0 < sin 0.5) by interval.
  rewrite Ha. repeat split; try apply new_inv; try Lra.lra.
  - pose proof PI2_1. Lra.lra.
  - pose proof PI2_1. Lra.lra.
  - rewrite (Rabs_right (sin 0.5)) by Lra.lra.
    replace (sin 0.5 - sin 0.5 / sin 0.3 * sin 0.3) with 0 by (field; Lra.lra). rewrite Rabs_R0. Lra.lra.
  - apply Rminus_le. interval.
  - apply Rmult_le_reg_r with (sin 0.3); [exact Hs3 |]. unfold Rdiv. rewrite Rmult_assoc, Rinv_l, Rmult_1_r, Rmult_1_l by Lra.lra.
    apply Rminus_le. interval.
Qed.
Example C13_nonvacuous_units_witness : (1.55e-6 : R) <> 0 /\ (1.2153e15 : R) <> 0.
Proof. split; Lra.lra. Qed.

(* SignalConfig / IdlerConfig::try_as_beam, translated as compositions of the generated constructor and setters (Gen/C13Callers.v): with
   theta_external_deg Snell's law is solved on a beam that already has the requested azimuth and polarization — so every
   round-trip theorem above applies to beams that come from the flat configuration — and with theta_deg both angles are as requested *)
Theorem C13_config_external_order :
  external_order_ok signal_config_external_gen /\ external_order_ok idler_config_external_gen.
Proof. exact (conj signal_config_external_order idler_config_external_order). Qed.

Theorem C13_config_internal_angles :
  internal_ok signal_config_internal_gen /\ internal_ok idler_config_internal_gen.
Proof. exact (conj signal_config_internal idler_config_internal). Qed.

Example C13_builtin_nonvacuous : in_window KTP 1.55 /\ temp_ok 20 /\ Rabs (sin 0) <= / 4.
Proof. rewrite sin_0, Rabs_R0. unfold in_window, temp_ok; cbn. repeat split; Lra.lra. Qed.

Print Assumptions C13_invariant.
Print Assumptions C13_direction_unit.
Print Assumptions C13_congruent.
Print Assumptions C13_frame.
Print Assumptions C13_pump_along_z.
Print Assumptions C13_normalize.
Print Assumptions C13_snell_forward.
Print Assumptions C13_snell_roundtrip_partial.
Print Assumptions C13_snell_roundtrip_80deg_partial.
Print Assumptions C13_internal_not_larger_partial.
Print Assumptions C13_units_frequency_wavelength.
Print Assumptions C13_units_temperature.
Print Assumptions C13_units_fwhm.
Print Assumptions C13_beam_wavelength_frequency.
Print Assumptions C13_waist_position.
Print Assumptions C13_internal_not_larger_builtin.
Print Assumptions C13_waist_position_builtin.
Print Assumptions C13_snell_forward_builtin.
Print Assumptions C13_snell_nm_bounds_and_residual.
Print Assumptions C13_snell_root_exists.
Print Assumptions C13_snell_root_exists_builtin.
Print Assumptions C13_snell_nm_builtin.
Print Assumptions C13_snell_roundtrip_model_partial.
Print Assumptions C13_waist_position_callers.
Print Assumptions C13_snell_forward_after_set_partial.
Print Assumptions C13_internal_angle_not_larger_partial.
Print Assumptions C13_internal_angle_not_larger_builtin.
Print Assumptions C13_config_external_order.
Print Assumptions C13_config_internal_angles.

(* ---- composition with the generated kinematics / wrappers / grid-resolution / simple phase-matching models (Proofs/Compose_*.v) ---- *)
From Coquelicot Require Import Coquelicot.
From SpdVerif Require Import Gen.Kinematics Proofs.Compose_kinematics Proofs.Compose_kinematics_links Proofs.Compose_kinematics_examples.

(* The kinematic accessors of Beam (effective_index_of_refraction, phase_velocity, group_velocity, group_index, average_transit_time),
   translated from src/beam/mod.rs into Gen/Kinematics.v with index = CrystalSetup::index_along (any function), omega, d, p the beam's
   frequency, unit direction and polarization; the `_off` definitions are the bodies with PeriodicPoling::Off.
   lam omega = 2 pi c / omega; n_at = index at that wavelength; slope = math::derivative_at of the index in the wavelength, the central
   difference with step eps^(1/3) |lambda| (kin_slope_is_central_difference). *)

(* group index as the code computes it: n / (1 + (lambda / n) D) *)
Theorem C13_group_index_form : forall index omega d p,
  n_at index omega d p <> 0 -> 1 + lam omega / n_at index omega d p * slope index omega d p <> 0 ->
  beam_group_index_off_gen index omega d p = n_at index omega d p / (1 + lam omega / n_at index omega d p * slope index omega d p).
Proof. exact kin_group_index_off. Qed.
Print Assumptions C13_group_index_form.

(* group velocity times group index is c, unpoled and poled *)
Theorem C13_group_velocity_times_group_index : forall index omega d p,
  beam_group_velocity_off_gen index omega d p <> 0 ->
  beam_group_velocity_off_gen index omega d p * beam_group_index_off_gen index omega d p = light_speed.
Proof. exact kin_vg_ng_off. Qed.
Print Assumptions C13_group_velocity_times_group_index.

Theorem C13_group_velocity_times_group_index_poled : forall index omega d p period,
  beam_group_velocity_gen index omega d p period <> 0 ->
  beam_group_velocity_gen index omega d p period * beam_group_index_gen index omega d p period = light_speed.
Proof. exact kin_vg_ng_on. Qed.
Print Assumptions C13_group_velocity_times_group_index_poled.

(* average transit time: half the crystal length along the beam, (L/2)/|cos theta|, over the group velocity *)
Theorem C13_average_transit_time : forall index omega d p period L,
  unit_vec d -> vz d <> 0 -> 0 <= L ->
  beam_average_transit_time_gen index omega d p L period = (0.5 * L / Rabs (vz d)) / beam_group_velocity_gen index omega d p period.
Proof. exact kin_transit_time_on. Qed.
Print Assumptions C13_average_transit_time.

Theorem C13_average_transit_time_unpoled : forall index omega d p L,
  unit_vec d -> vz d <> 0 -> 0 <= L ->
  beam_average_transit_time_off_gen index omega d p L = (0.5 * L / Rabs (vz d)) / beam_group_velocity_off_gen index omega d p.
Proof. exact kin_transit_time_off. Qed.
Print Assumptions C13_average_transit_time_unpoled.

(* positive index and a finite-difference dispersion above -n/lambda: the three kinematic quantities are positive *)
Theorem C13_kinematics_positive : forall index omega d p,
  0 < n_at index omega d p -> -1 < lam omega / n_at index omega d p * slope index omega d p ->
  0 < beam_phase_velocity_off_gen index omega d p /\ 0 < beam_group_velocity_off_gen index omega d p /\
  0 < beam_group_index_off_gen index omega d p.
Proof. exact kin_positive_off. Qed.
Print Assumptions C13_kinematics_positive.

(* OBSERVATION.  The code's group velocity v_p (1 + (lambda/n) dn/dlambda) is the first-order expansion of the textbook
   c / (n - lambda dn/dlambda): their product with the textbook group index misses c by the relative amount (lambda D / n)^2 *)
Theorem C13_group_velocity_is_first_order : forall index omega d p,
  n_at index omega d p <> 0 ->
  beam_group_velocity_off_gen index omega d p * (n_at index omega d p - lam omega * slope index omega d p) =
  light_speed * (1 - (lam omega * slope index omega d p / n_at index omega d p) ^ 2).
Proof. exact kin_group_velocity_vs_textbook. Qed.
Print Assumptions C13_group_velocity_is_first_order.

(* the finite difference against the derivative: for an index three times differentiable in the wavelength with third derivative
   bounded by M, |D - n'(lambda)| <= M h^2 / 6, h = fd_step_gen lambda = eps^(1/3) |lambda|.  PARTIAL: the bound on the third derivative
   of the built-in index functions is not proved. *)
Theorem C13_dispersion_finite_difference_partial : forall index omega d p M,
  (forall t k, (k <= 3)%nat -> ex_derive_n (fun lm => index lm d p) k t) ->
  (forall t, Rabs (Derive_n (fun lm => index lm d p) 3 t) <= M) ->
  Rabs (slope index omega d p - Derive (fun lm => index lm d p) (lam omega)) <= M * fd_step_gen (lam omega) ^ 2 / 6.
Proof. exact kin_slope_vs_derivative. Qed.
Print Assumptions C13_dispersion_finite_difference_partial.

(* with the generated index of a built-in crystal (C01 bounds 1 < n < 4 through C02's index_along): c/4 < v_p < c *)
Theorem C13_phase_velocity_builtin : forall c T theta phi omega d p,
  in_window c (lam omega / 1e-6) -> temp_ok T -> unit_vec d ->
  light_speed / 4 < beam_phase_velocity_off_gen (crystal_index_m c T theta phi) omega d p < light_speed.
Proof. exact kin_crystal_phase_velocity. Qed.
Print Assumptions C13_phase_velocity_builtin.

(* non-vacuity: an extraordinary beam along z in a dispersion-free medium of index 7/4 satisfies the hypotheses of the theorems above
   (group index 7/4, non-zero group velocity); a constant index satisfies the smoothness hypotheses with M = 0; 1.55 um in KTP at 20 C *)
Example C13_kinematics_example : forall w, 0 < w ->
  n_at ex_index w ez Extraordinary <> 0 /\ 0 < n_at ex_index w ez Extraordinary /\
  1 + lam w / n_at ex_index w ez Extraordinary * slope ex_index w ez Extraordinary <> 0 /\
  -1 < lam w / n_at ex_index w ez Extraordinary * slope ex_index w ez Extraordinary /\
  beam_group_index_off_gen ex_index w ez Extraordinary = 7 / 4 /\
  beam_group_velocity_off_gen ex_index w ez Extraordinary <> 0.
Proof. exact kin_basic_nonvacuous. Qed.
Example C13_kinematics_smooth_example : forall d p,
  (forall t k, (k <= 3)%nat -> ex_derive_n (fun lm => ex_index lm d p) k t) /\
  (forall t, Rabs (Derive_n (fun lm => ex_index lm d p) 3 t) <= 0).
Proof. exact kin_smooth_nonvacuous. Qed.
Example C13_kinematics_direction_example : unit_vec ez /\ vz ez <> 0 /\ 0 <= 0.002.
Proof. exact kin_hom_nonvacuous. Qed.
Example C13_kinematics_builtin_example : in_window KTP (lam ex_omega / 1e-6) /\ temp_ok 20 /\ unit_vec ez.
Proof. exact kin_builtin_nonvacuous. Qed.
