(* C13 — property theorems.  This file contains statements, `exact` proofs and Print Assumptions only.

   Gen/Beam.v is regenerated from src/beam/mod.rs, src/math/mod.rs, src/utils.rs on every run: record `beam` (the struct's
   fields), beam_new_gen, one state transformer per public setter, pump_from_beam_gen (From<Beam> for PumpBeam), the Snell
   conversions with the optimiser `nm` and the crystal's index `n_along` as parameters, the unit conversions.
   Model/Beam.v adds the op type, `step`/`run` (dispatch to the generated setters) and the normal forms norm_u / norm_s. *)
From Coq Require Import Reals List String.
From Interval Require Import Tactic.
From SpdVerif Require Import Base.Rx Model.Optics Model.Fresnel Gen.Fresnel Gen.Beam Model.Beam
  Proofs.C02_frame Proofs.C02_gen Proofs.C13_norm Proofs.C13_beam Proofs.C13_snell.
Local Open Scope R_scope.

(* the state invariant holds after the constructor and after ANY finite sequence of public mutations, for any arguments and
   any behaviour of the Snell optimiser: direction = (sin th cos ph, sin th sin ph, cos th), unit norm,
   azimuth in [0, 2 pi), polar angle in (-pi, pi].  (binary64: rem_euclid may round up to exactly 2 pi — measured.) *)
Theorem C13_invariant : forall snell_inv p phi theta l w ops,
  beam_inv (run snell_inv (beam_new_gen p phi theta l w) ops).
Proof. exact (fun snell_inv p phi theta l w ops => run_inv snell_inv ops _ (new_inv p phi theta l w)). Qed.

Theorem C13_direction_unit : forall snell_inv p phi theta l w ops,
  let s := run snell_inv (beam_new_gen p phi theta l w) ops in
  b_direction s = polar_dir (b_phi s) (b_theta s) /\ vnorm2 (b_direction s) = 1.
Proof. exact (fun snell_inv p phi theta l w ops =>
  let H := run_inv snell_inv ops _ (new_inv p phi theta l w) in conj (proj1 H) (proj1 (proj2 H))). Qed.

(* both angles are congruent modulo 2 pi to the last requested values (for set_theta_external the requested polar angle
   is what the Snell inversion returned, the requested azimuth the current one; for the pump conversion both are 0) *)
Theorem C13_congruent : forall snell_inv p phi theta l w ops,
  let s0 := beam_new_gen p phi theta l w in
  congruent (b_phi (run snell_inv s0 ops)) (fst (last_requested snell_inv s0 ops phi theta)) /\
  congruent (b_theta (run snell_inv s0 ops)) (snd (last_requested snell_inv s0 ops phi theta)).
Proof. exact (fun snell_inv p phi theta l w ops =>
  run_congruent snell_inv ops _ phi theta (proj1 (new_congruent p phi theta l w)) (proj2 (new_congruent p phi theta l w))). Qed.

(* a mutation leaves the fields it is not about alone *)
Theorem C13_frame : forall snell_inv s o,
  (match o with SetVacuumWavelength _ | SetFrequency _ => True | _ => b_frequency (step snell_inv s o) = b_frequency s end) /\
  (match o with SetPolarization _ | WithPolarization _ => True | _ => b_polarization (step snell_inv s o) = b_polarization s end) /\
  (match o with SetWaist _ => True | _ => b_waist (step snell_inv s o) = b_waist s end).
Proof. exact step_frame. Qed.

(* a pump converted from any beam points along z *)
Theorem C13_pump_along_z : forall snell_inv s,
  b_direction (step snell_inv s IntoPump) = (0, 0, 1) /\ b_phi (step snell_inv s IntoPump) = 0 /\
  b_theta (step snell_inv s IntoPump) = 0.
Proof. exact pump_points_along_z. Qed.

(* the generated normalisers are x - 2 pi floor(x / 2 pi) and its signed variant, with their ranges *)
Theorem C13_normalize : forall x,
  normalize_angle_gen x = norm_u x /\ normalize_angle_signed_gen x = norm_s x /\
  0 <= norm_u x < 2 * PI /\ - PI < norm_s x <= PI /\ congruent (norm_u x) x /\ congruent (norm_s x) x.
Proof. exact (fun x => conj (normalize_angle_gen_eq x) (conj (normalize_angle_signed_gen_eq x)
  (conj (norm_u_range x) (conj (norm_s_range x) (conj (norm_u_congr x) (norm_s_congr x)))))). Qed.

(* Snell forward: sin(theta_e) = n(theta_i) sin(theta_i), guarded by |n sin theta_i| <= 1 (the domain of asin) *)
Theorem C13_snell_forward : forall n_along s theta_i,
  let n := n_along (normalize (polar_dir (b_phi s) theta_i)) in
  -1 <= n * sin theta_i <= 1 ->
  sin (calc_external_theta_from_internal_gen n_along s theta_i) = n * sin theta_i.
Proof. exact snell_forward_relation. Qed.

(* Snell round trip, either sign of the external angle (the property's [0, 80 deg] is the e >= 0 instance; since /repo 6fcae16 a
   negative external angle gives the mirrored internal angle: b_theta = sign(e) theta*, sin|theta_e| = n(theta_i) sin|theta_i|).
   PARTIAL (conditional): argmin's Nelder-Mead is an oracle `nm`; IF on this input it returns a point in
   its bounds [0, pi/2] with residual |sin theta_e - n(theta) sin theta| <= r, THEN the stored angle satisfies Snell's law
   within r and the read-back external angle is within r / cos M of theta_e (M any angle < pi/2 with sin theta_e + r <= sin M).
   Missing for the unconditional statement: convergence of the 100-iteration simplex (checked per input by the harness). *)
Theorem C13_snell_roundtrip_partial : forall nm n_along s e r M,
  beam_inv s -> Rabs e <= M -> M < PI / 2 ->
  0 <= theta_star nm n_along s e <= PI / 2 ->
  snell_cost_gen n_along s e (theta_star nm n_along s e) <= r ->
  sin (Rabs e) + r <= sin M ->
  let s' := set_theta_external_gen (snell_inv_of nm n_along) s e in
  b_theta s' = signum e * theta_star nm n_along s e /\ b_phi s' = b_phi s /\
  Rabs (sin (Rabs e) - n_along (normalize (polar_dir (b_phi s) (b_theta s'))) * sin (Rabs (b_theta s'))) <= r /\
  Rabs (theta_external_gen n_along s' - e) <= r / cos M.
Proof.
  exact (fun nm n_along s e r M Hs He HM Hb Hc HrM =>
    conj (proj1 (after_set_theta_external nm n_along s e Hs Hb))
      (conj (proj2 (after_set_theta_external nm n_along s e Hs Hb))
        (conj (stored_angle_satisfies_snell nm n_along s e r M Hs He HM Hb Hc)
              (snell_roundtrip nm n_along s e r M Hs He HM Hb Hc HrM)))).
Qed.

(* the property's numbers: theta_e in [0, 80 deg], residual <= 3e-8  ==>  read-back within 1e-5 deg *)
Theorem C13_snell_roundtrip_80deg_partial : forall nm n_along s e r,
  beam_inv s -> Rabs e <= 80 * (PI / 180) -> r <= 3e-8 ->
  0 <= theta_star nm n_along s e <= PI / 2 ->
  snell_cost_gen n_along s e (theta_star nm n_along s e) <= r ->
  Rabs (theta_external_gen n_along (set_theta_external_gen (snell_inv_of nm n_along) s e) - e) <= 1e-5 * (PI / 180).
Proof. exact snell_roundtrip_80deg. Qed.

(* with an index >= 1 the internal angle is not larger than the external one, up to the residual *)
Theorem C13_internal_not_larger_partial : forall nm n_along s e r M,
  beam_inv s -> Rabs e <= M -> M < PI / 2 ->
  0 <= theta_star nm n_along s e <= PI / 2 ->
  snell_cost_gen n_along s e (theta_star nm n_along s e) <= r ->
  1 <= n_along (normalize (polar_dir (b_phi s) (signum e * theta_star nm n_along s e))) ->
  sin (Rabs (b_theta (set_theta_external_gen (snell_inv_of nm n_along) s e))) <= sin (Rabs e) + r.
Proof. exact internal_not_larger. Qed.

(* unit conversions *)
Theorem C13_units_frequency_wavelength : forall l w,
  (l <> 0 -> vacuum_wavelength_to_frequency_gen l = 2 * PI * 299792458 / l /\
             frequency_to_vacuum_wavelength_gen (vacuum_wavelength_to_frequency_gen l) = l) /\
  (w <> 0 -> frequency_to_vacuum_wavelength_gen w = 2 * PI * 299792458 / w /\
             vacuum_wavelength_to_frequency_gen (frequency_to_vacuum_wavelength_gen w) = w).
Proof. exact units_frequency_wavelength. Qed.

Theorem C13_units_temperature : forall c k,
  from_kelvin_to_celsius_gen (from_celsius_to_kelvin_gen c) = c /\
  from_celsius_to_kelvin_gen (from_kelvin_to_celsius_gen k) = k /\
  from_celsius_to_kelvin_gen c = c + 273.15.
Proof. exact units_temperature. Qed.

Theorem C13_units_fwhm : forall x,
  waist_to_fwhm_gen (fwhm_to_waist_gen x) = x /\ fwhm_to_waist_gen (waist_to_fwhm_gen x) = x /\
  x = 2 * sqrt (2 * ln 2) * fwhm_to_sigma_gen x.
Proof. exact units_fwhm. Qed.

Theorem C13_beam_wavelength_frequency : forall snell_inv s l w,
  l <> 0 -> w <> 0 ->
  b_frequency (step snell_inv s (SetVacuumWavelength l)) = 2 * PI * 299792458 / l /\
  frequency_to_vacuum_wavelength_gen (b_frequency (step snell_inv s (SetVacuumWavelength l))) = l /\
  b_frequency (step snell_inv s (SetFrequency w)) = w.
Proof. exact beam_wavelength_frequency. Qed.

(* automatic waist position: -L / (2 n_z), n_z the index for propagation along z (guard: n_z <> 0; C02_index_along_positive) *)
Theorem C13_waist_position : forall L (n_along : vec -> R),
  n_along (0, 0, 1) <> 0 -> optimal_waist_position_gen L n_along = - L / (2 * n_along (0, 0, 1)).
Proof. exact optimal_waist_position_gen_eq. Qed.

(* non-vacuity *)
Example C13_nonvacuous_snell : Rabs 0.5 <= 80 * (PI / 180) /\ (0:R) <= 3e-8 /\ 80 * (PI / 180) < PI / 2.
Proof. rewrite Rabs_right by Lra.lra. pose proof PI_RGT_0. repeat split; try Lra.lra. apply Rminus_le. interval. Qed.
Example C13_nonvacuous_inv : exists s, beam_inv s.
Proof. exists (beam_new_gen Ordinary 0 0 1 1). apply new_inv. Qed.
Example C13_nonvacuous_units : (1:R) <> 0.
Proof. Lra.lra. Qed.

(* ---- composed with C01/C02 (Proofs/Compose_index.v): the index oracle instantiated with the generated index_along over the
   generated crystal tables, for every built-in crystal, in-window wavelength, T in [-50, 200] C, orientation, polarization *)
From SpdVerif Require Import Spec.CrystalTypes Spec.Published Gen.Crystals Proofs.Sellmeier Proofs.Compose_index Proofs.C13_builtin.

Theorem C13_internal_not_larger_builtin : forall nm c l T theta phi p s e r M,
  in_window c l -> temp_ok T ->
  beam_inv s -> Rabs e <= M -> M < PI / 2 ->
  0 <= theta_star nm (builtin_index c l T theta phi p) s e <= PI / 2 ->
  snell_cost_gen (builtin_index c l T theta phi p) s e (theta_star nm (builtin_index c l T theta phi p) s e) <= r ->
  sin (Rabs (b_theta (set_theta_external_gen (snell_inv_of nm (builtin_index c l T theta phi p)) s e))) <= sin (Rabs e) + r.
Proof. exact internal_not_larger_builtin. Qed.

Theorem C13_waist_position_builtin : forall c l T theta phi p L,
  in_window c l -> temp_ok T ->
  let nz := crystal_index c l T theta phi (0, 0, 1) p in
  optimal_waist_position_gen L (builtin_index c l T theta phi p) = - L / (2 * nz) /\
  1 < nz < 4 /\
  (0 < L -> - L / 2 < optimal_waist_position_gen L (builtin_index c l T theta phi p) < - L / 8).
Proof. exact waist_position_builtin. Qed.

Theorem C13_snell_forward_builtin : forall c l T theta phi p s theta_i,
  in_window c l -> temp_ok T -> Rabs (sin theta_i) <= / 4 ->
  sin (calc_external_theta_from_internal_gen (builtin_index c l T theta phi p) s theta_i) =
  crystal_index c l T theta phi (normalize (polar_dir (b_phi s) theta_i)) p * sin theta_i.
Proof. exact snell_forward_builtin. Qed.

(* ---- the Snell inversion WITHOUT an oracle: grpE's executable model of argmin's two-vertex Nelder-Mead (Model/NM1d.v, theorems
   Proofs/C04_nm.v; tied bit for bit to math::nelder_mead_1d by the PrimFloat replay cases of C04 and of this check) instantiated over
   the reals with the generated cost, seeds (theta_e, theta_e + 1) and bounds [0, pi/2].  nm_real sd fuel: any termination test `sd`,
   any iteration budget `fuel`. *)
From SpdVerif Require Import Model.NM1d Proofs.C13_nm Proofs.C13_continuity.

(* PROVED: the returned angle lies in [0, pi/2] and its residual is at most the residual at the seed theta_e *)
Theorem C13_snell_nm_bounds_and_residual : forall sd fuel n_along s e,
  Rabs e <= PI / 2 ->
  0 <= theta_star (nm_real sd fuel) n_along s e <= PI / 2 /\
  snell_cost_gen n_along s e (theta_star (nm_real sd fuel) n_along s e) <= snell_cost_gen n_along s e (Rabs e).
Proof. exact snell_nm_bounds_and_residual. Qed.

(* PROVED (intermediate value theorem): a continuous index >= 1 along the path gives a zero of the cost in [0, theta_e]:
   the contract `some point has residual 0` is a theorem *)
Theorem C13_snell_root_exists : forall n_along s e,
  Rabs e <= PI / 2 ->
  (forall t, 0 <= t <= Rabs e -> continuity_pt (fun u => n_along (normalize (polar_dir (b_phi s) (signum e * u)))) t) ->
  1 <= n_along (normalize (polar_dir (b_phi s) e)) ->
  exists t, 0 <= t <= Rabs e /\ snell_cost_gen n_along s e t = 0.
Proof. exact snell_root_exists. Qed.

(* both for the built-in crystals: continuity of the Fresnel index along the path and n > 1 are discharged *)
Theorem C13_snell_root_exists_builtin : forall c l T theta phi p s e,
  in_window c l -> temp_ok T -> Rabs e <= PI / 2 ->
  exists t, 0 <= t <= Rabs e /\ snell_cost_gen (builtin_index c l T theta phi p) s e t = 0.
Proof. exact snell_root_exists_builtin. Qed.

Theorem C13_snell_nm_builtin : forall sd fuel c l T theta phi p s e,
  in_window c l -> temp_ok T -> Rabs e <= PI / 2 ->
  let n_along := builtin_index c l T theta phi p in
  let star := theta_star (nm_real sd fuel) n_along s e in
  0 <= star <= PI / 2 /\
  snell_cost_gen n_along s e star <= (n_along (normalize (polar_dir (b_phi s) e)) - 1) * sin (Rabs e).
Proof. exact snell_nm_builtin. Qed.

(* round trip with the optimiser modelled.  PARTIAL: what remains a checked contract is convergence — that the residual r
   reached within the 100 iterations is <= 3e-8 (then the read-back is within 1e-5 deg by C13_snell_roundtrip_80deg_partial) *)
Theorem C13_snell_roundtrip_model_partial : forall sd fuel n_along s e r M,
  beam_inv s -> Rabs e <= M -> M < PI / 2 ->
  snell_cost_gen n_along s e (theta_star (nm_real sd fuel) n_along s e) <= r ->
  sin (Rabs e) + r <= sin M ->
  let s' := set_theta_external_gen (snell_inv_of (nm_real sd fuel) n_along) s e in
  Rabs (b_theta s') <= PI / 2 /\
  Rabs (sin (Rabs e) - n_along (normalize (polar_dir (b_phi s) (b_theta s'))) * sin (Rabs (b_theta s'))) <= r /\
  Rabs (theta_external_gen n_along s' - e) <= r / cos M.
Proof. exact snell_roundtrip_model. Qed.

(* ---- who calls optimal_waist_position: SPDC::assign_optimal_waist_positions (+ with_optimal_waist_positions), SPDC::try_as_optimum,
   SPDCConfig::try_as_spdc (`auto`).  Gen/C13Callers.v (tools/gen/c13_callers.py) lists every call with its arguments read
   symbolically; each caller sets both positions, the signal's from the signal's wavelength AND polarization, the idler's from the
   idler's.  The generator fails closed on a call site it does not know. *)
From SpdVerif Require Import Gen.C13Callers Proofs.C13_callers.

Theorem C13_waist_position_callers : forall ls li ps pi,
  List.Forall (waist_call_ok ls li ps pi) (waist_position_calls_gen ls li ps pi) /\
  sets_both "assign_optimal_waist_positions"%string (waist_position_calls_gen ls li ps pi) /\
  sets_both "try_as_optimum"%string (waist_position_calls_gen ls li ps pi) /\
  sets_both "try_as_spdc"%string (waist_position_calls_gen ls li ps pi).
Proof. exact waist_position_callers. Qed.

(* sharpened (review): under the round-trip hypotheses the asin-domain guard of the forward relation is implied by the residual
   bound (no condition on theta_i: covers the whole 0..80 deg range), and |theta_i| <= |theta_e| holds for the ANGLES up to r / cos M *)
Theorem C13_snell_forward_after_set_partial : forall nm n_along s e r M,
  beam_inv s -> Rabs e <= M -> M < PI / 2 ->
  0 <= theta_star nm n_along s e <= PI / 2 ->
  snell_cost_gen n_along s e (theta_star nm n_along s e) <= r -> sin (Rabs e) + r <= sin M ->
  let s' := set_theta_external_gen (snell_inv_of nm n_along) s e in
  sin (theta_external_gen n_along s') = n_along (normalize (polar_dir (b_phi s) (b_theta s'))) * sin (b_theta s').
Proof. exact forward_relation_after_set. Qed.

Theorem C13_internal_angle_not_larger_partial : forall nm n_along s e r M,
  beam_inv s -> Rabs e <= M -> M < PI / 2 ->
  0 <= theta_star nm n_along s e <= PI / 2 ->
  snell_cost_gen n_along s e (theta_star nm n_along s e) <= r -> sin (Rabs e) + r <= sin M ->
  1 <= n_along (normalize (polar_dir (b_phi s) (signum e * theta_star nm n_along s e))) ->
  Rabs (b_theta (set_theta_external_gen (snell_inv_of nm n_along) s e)) <= Rabs e + r / cos M.
Proof. exact internal_angle_not_larger. Qed.

Theorem C13_internal_angle_not_larger_builtin : forall nm c l T theta phi p s e r M,
  in_window c l -> temp_ok T ->
  beam_inv s -> Rabs e <= M -> M < PI / 2 ->
  0 <= theta_star nm (builtin_index c l T theta phi p) s e <= PI / 2 ->
  snell_cost_gen (builtin_index c l T theta phi p) s e (theta_star nm (builtin_index c l T theta phi p) s e) <= r ->
  sin (Rabs e) + r <= sin M ->
  Rabs (b_theta (set_theta_external_gen (snell_inv_of nm (builtin_index c l T theta phi p)) s e)) <= Rabs e + r / cos M.
Proof. exact internal_angle_not_larger_builtin. Qed.

(* a witness for ALL hypotheses of the conditional Snell theorems at once (theta_e = 0.5 rad, constant index sin 0.5 / sin 0.3 ~ 1.62,
   an optimiser that answers 0.3 rad: residual 0) *)
Example C13_nonvacuous_snell_witness :
  let nm := fun (_ : R -> R) (_ _ _ _ _ _ : R) => 0.3 in
  let n_along := fun _ : vec => sin 0.5 / sin 0.3 in
  let s := beam_new_gen Ordinary 0 0 1.55e-6 1e-4 in
  beam_inv s /\ Rabs 0.5 <= 1 /\ 1 < PI / 2 /\ 0 <= theta_star nm n_along s 0.5 <= PI / 2 /\
  snell_cost_gen n_along s 0.5 (theta_star nm n_along s 0.5) <= 3e-8 /\ sin (Rabs 0.5) + 3e-8 <= sin 1 /\
  1 <= n_along (normalize (polar_dir (b_phi s) (signum 0.5 * theta_star nm n_along s 0.5))).
Proof.
  cbv zeta. unfold theta_star, snell_cost_gen. rewrite !div1.
  assert (Hs3 : 0 < sin 0.3) by interval.
  assert (Ha : Rabs 0.5 = 0.5) by (apply Rabs_right; Lra.lra).
  assert (Hs5 : 0 < sin 0.5) by interval.
  rewrite Ha. repeat split; try apply new_inv; try Lra.lra.
  - pose proof PI2_1. Lra.lra.
  - pose proof PI2_1. Lra.lra.
  - rewrite (Rabs_right (sin 0.5)) by Lra.lra.
    replace (sin 0.5 - sin 0.5 / sin 0.3 * sin 0.3) with 0 by (field; Lra.lra). rewrite Rabs_R0. Lra.lra.
  - apply Rminus_le. interval.
  - apply Rmult_le_reg_r with (sin 0.3); [exact Hs3 |]. unfold Rdiv. rewrite Rmult_assoc, Rinv_l, Rmult_1_r, Rmult_1_l by Lra.lra.
    apply Rminus_le. interval.
Qed.
Example C13_nonvacuous_units_witness : (1.55e-6 : R) <> 0 /\ (1.2153e15 : R) <> 0.
Proof. split; Lra.lra. Qed.

(* SignalConfig / IdlerConfig::try_as_beam, translated as compositions of the generated constructor and setters (Gen/C13Callers.v): with
   theta_external_deg Snell's law is solved on a beam that already has the requested azimuth and polarization — so every
   round-trip theorem above applies to beams that come from the flat configuration — and with theta_deg both angles are as requested *)
Theorem C13_config_external_order :
  external_order_ok signal_config_external_gen /\ external_order_ok idler_config_external_gen.
Proof. exact (conj signal_config_external_order idler_config_external_order). Qed.

Theorem C13_config_internal_angles :
  internal_ok signal_config_internal_gen /\ internal_ok idler_config_internal_gen.
Proof. exact (conj signal_config_internal idler_config_internal). Qed.

Example C13_builtin_nonvacuous : in_window KTP 1.55 /\ temp_ok 20 /\ Rabs (sin 0) <= / 4.
Proof. rewrite sin_0, Rabs_R0. unfold in_window, temp_ok; cbn. repeat split; Lra.lra. Qed.

Print Assumptions C13_invariant.
Print Assumptions C13_direction_unit.
Print Assumptions C13_congruent.
Print Assumptions C13_frame.
Print Assumptions C13_pump_along_z.
Print Assumptions C13_normalize.
Print Assumptions C13_snell_forward.
Print Assumptions C13_snell_roundtrip_partial.
Print Assumptions C13_snell_roundtrip_80deg_partial.
Print Assumptions C13_internal_not_larger_partial.
Print Assumptions C13_units_frequency_wavelength.
Print Assumptions C13_units_temperature.
Print Assumptions C13_units_fwhm.
Print Assumptions C13_beam_wavelength_frequency.
Print Assumptions C13_waist_position.
Print Assumptions C13_internal_not_larger_builtin.
Print Assumptions C13_waist_position_builtin.
Print Assumptions C13_snell_forward_builtin.
Print Assumptions C13_snell_nm_bounds_and_residual.
Print Assumptions C13_snell_root_exists.
Print Assumptions C13_snell_root_exists_builtin.
Print Assumptions C13_snell_nm_builtin.
Print Assumptions C13_snell_roundtrip_model_partial.
Print Assumptions C13_waist_position_callers.
Print Assumptions C13_snell_forward_after_set_partial.
Print Assumptions C13_internal_angle_not_larger_partial.
Print Assumptions C13_internal_angle_not_larger_builtin.
Print Assumptions C13_config_external_order.
Print Assumptions C13_config_internal_angles.
