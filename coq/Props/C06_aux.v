(* C06_aux — AUXILIARY COMPOSITION theorems of property C06: statements that connect the property's own model with the generated
   kinematics / wrappers / grid-resolution / simple phase-matching models (Proofs/Compose_*.v).  Same house style as Props/C06.v
   (statements, `exact` proofs, non-vacuity Examples, Print Assumptions; pinned in Props/C06_aux_pins.v).  Built and audited as a
   separate target (vlib/auxprops.py): a failure here is reported as a broken obligation of the AUXILIARY COMPOSITION, the theorems of
   Props/C06.v stay accountable on their own. *)
From Coq Require Import Reals.
From SpdVerif Require Import Base.Rx Base.CxPM Model.PMParams Gen.PMIntegrand Model.Optics Gen.Kinematics Proofs.Compose_kinematics
  Proofs.Compose_kinematics_links Proofs.Compose_kinematics_examples.
Local Open Scope R_scope.

(* The rate-level scalars of the parameter record (centre wavelengths, indices there, group indices: the fields get_counts_correction
   reads) taken from three beams through the GENERATED Beam::group_index / vacuum_wavelength / refractive_index
   (Gen/Kinematics.v; index = CrystalSetup::index_along, an arbitrary function): the correction factor of the exchanged setup
   times the signal's generated group index is the original factor times the idler's — finding F14 stated on the translated
   kinematics rather than on free scalars. *)
Theorem C06_counts_correction_exchange_generated : forall index ws wi wp ds di dp ps pi_ pp_ q,
  counts_scalars_from_beams index ws wi wp ds di dp ps pi_ pp_ q ->
  lam wp <> 0 -> n_at index ws ds ps <> 0 -> n_at index wi di pi_ <> 0 -> n_at index wp dp pp_ <> 0 ->
  pm_counts_correction (pm_swap q) * beam_group_index_off_gen index ws ds ps =
  pm_counts_correction q * beam_group_index_off_gen index wi di pi_.
Proof. exact F14_counts_correction_generated. Qed.
Print Assumptions C06_counts_correction_exchange_generated.

(* ... and the ratio exchanged / original in terms of what the code computes: ng = n / (1 + (lambda / n) D), D the central
   difference of the index in the vacuum wavelength (math::derivative_at) *)
Theorem C06_counts_correction_ratio_generated : forall index ws wi wp ds di dp ps pi_ pp_ q,
  counts_scalars_from_beams index ws wi wp ds di dp ps pi_ pp_ q ->
  lam wp <> 0 -> n_at index ws ds ps <> 0 -> n_at index wi di pi_ <> 0 -> n_at index wp dp pp_ <> 0 ->
  1 + lam ws / n_at index ws ds ps * slope index ws ds ps <> 0 -> 1 + lam wi / n_at index wi di pi_ * slope index wi di pi_ <> 0 ->
  pm_counts_correction q <> 0 ->
  pm_counts_correction (pm_swap q) / pm_counts_correction q =
  (n_at index wi di pi_ / (1 + lam wi / n_at index wi di pi_ * slope index wi di pi_)) /
  (n_at index ws ds ps / (1 + lam ws / n_at index ws ds ps * slope index ws ds ps)).
Proof. exact F14_counts_ratio_generated. Qed.
Print Assumptions C06_counts_correction_ratio_generated.

(* non-vacuity: ordinary signal (n = 3/2), extraordinary idler and pump (n = 7/4) in a dispersion-free medium satisfy every hypothesis
   of the two theorems above, and the ratio is (7/4) / (3/2), not 1 *)
Example C06_counts_correction_generated_example :
  counts_scalars_from_beams ex_index 1.2e15 1.23e15 2.43e15 ez ez ez Ordinary Extraordinary Extraordinary ex_q /\
  lam 2.43e15 <> 0 /\ n_at ex_index 1.2e15 ez Ordinary <> 0 /\ n_at ex_index 1.23e15 ez Extraordinary <> 0 /\
  n_at ex_index 2.43e15 ez Extraordinary <> 0 /\
  1 + lam 1.2e15 / n_at ex_index 1.2e15 ez Ordinary * slope ex_index 1.2e15 ez Ordinary <> 0 /\
  1 + lam 1.23e15 / n_at ex_index 1.23e15 ez Extraordinary * slope ex_index 1.23e15 ez Extraordinary <> 0 /\
  pm_counts_correction ex_q <> 0 /\
  pm_counts_correction (pm_swap ex_q) / pm_counts_correction ex_q = (7 / 4) / (3 / 2).
Proof. exact kin_F14_nonvacuous. Qed.
