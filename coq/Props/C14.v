(* C14 — property theorems.  This file contains statements, `exact` proofs, non-vacuity examples and Print Assumptions only.
   All grid formulas (steps_value, steps2d_value, get_2d_indices, get_1d_index, it1d_next, …, the space conversions, the
   loop ranges / swap indices of transpose_vec) are the definitions GENERATED from /repo/src by tools/gen/grid.py. *)
From Coq Require Import String QArith Qreals.
From Coq Require Import List Arith Bool Lia Reals Lra Permutation.
From SpdVerif Require Import Base.GridOps Gen.Grid Gen.Ranges Model.Grid Proofs.C14_iter Proofs.C14_steps Proofs.C14_spaces Proofs.C14_transpose Proofs.C14_qr Proofs.C14_ranges Model.C15_Float Proofs.C15_float.
Local Close Scope Q_scope.
Import ListNotations.

(* 1-D: n values, first = start, last = end (n >= 2), constant spacing (end-start)/(n-1).  Over the reals. *)
Theorem C14_steps : forall (s e : R) (n : nat), 1 <= n ->
  length (seq1d Rops s e n) = n /\
  nth 0 (seq1d Rops s e n) 0%R = s /\
  (2 <= n -> nth (n - 1) (seq1d Rops s e n) 0%R = e) /\
  (forall i, S i < n -> (nth (S i) (seq1d Rops s e n) 0 - nth i (seq1d Rops s e n) 0 = (e - s) / INR (n - 1))%R).
Proof. exact steps_spec. Qed.

(* ascending ranges are strictly increasing, descending ones strictly decreasing *)
Theorem C14_steps_monotone : forall (s e : R) (n i j : nat), 2 <= n -> i < j ->
  ((s < e)%R -> (steps_value Rops s e n i < steps_value Rops s e n j)%R) /\
  ((e < s)%R -> (steps_value Rops s e n j < steps_value Rops s e n i)%R).
Proof. exact (fun s e n i j Hn Hij => conj (fun H => steps_value_increasing s e n i j Hn H Hij) (fun H => steps_value_decreasing s e n i j Hn H Hij)). Qed.

(* the code's iterator (next() until None) produces exactly value(0..n-1); for every carrier, so bit-exactly in binary64 *)
Theorem C14_steps_collect : forall T (O : ops T) (s e : T) (n : nat),
  collect1d O s e n = seq1d O s e n /\ length (seq1d O s e n) = n.
Proof. exact (fun T O s e n => conj (collect1d_seq O s e n) (seq1d_length O s e n)). Qed.

(* any interleaving of next()/next_back() with at least n calls: front items ++ reversed back items is the sequence;
   in particular the same multiset, and (all calls from the back) the reversed sequence *)
Theorem C14_steps_interleave : forall T (O : ops T) (s e : T) (n : nat) (sched : list bool), n <= length sched ->
  let out := run_sched (it1d_nxt O s e n) (it1d_bck O s e n) sched (it1d_new n) in
  fronts out ++ rev (backs out) = seq1d O s e n /\ Permutation (fronts out ++ backs out) (seq1d O s e n).
Proof. exact (fun T O => it1d_interleave O). Qed.

Theorem C14_steps_rev : forall T (O : ops T) (s e : T) (n : nat),
  backs (run_sched (it1d_nxt O s e n) (it1d_bck O s e n) (repeat false n) (it1d_new n)) = rev (seq1d O s e n).
Proof. exact (fun T O => it1d_rev O). Qed.

(* 2-D: nx*ny points, the code's iterator produces value(0..nx*ny-1), which is the list of rows, first axis fastest *)
Theorem C14_2d : forall T (O : ops T) (x0 x1 : T) (nx : nat) (y0 y1 : T) (ny : nat),
  collect2d O x0 x1 nx y0 y1 ny = seq2d O x0 x1 nx y0 y1 ny /\
  length (seq2d O x0 x1 nx y0 y1 ny) = nx * ny /\
  seq2d O x0 x1 nx y0 y1 ny =
    flat_map (fun j => map (fun i => (xcoord O x0 x1 nx i, ycoord O nx y0 y1 ny j)) (seq 0 nx)) (seq 0 ny).
Proof.
  exact (fun T O x0 x1 nx y0 y1 ny =>
    conj (collect2d_seq O x0 x1 nx y0 y1 ny) (conj (seq2d_length O x0 x1 nx y0 y1 ny) (seq2d_row_major O x0 x1 nx y0 y1 ny))).
Qed.

(* the point of column i, row j sits at flat index get_1d_index i j nx *)
Theorem C14_2d_lookup : forall T (O : ops T) x0 x1 nx y0 y1 ny i j d, i < nx -> j < ny ->
  nth (get_1d_index i j nx) (seq2d O x0 x1 nx y0 y1 ny) d = (xcoord O x0 x1 nx i, ycoord O nx y0 y1 ny j).
Proof. exact (fun T O => seq2d_nth O). Qed.

Theorem C14_2d_interleave : forall T (O : ops T) x0 x1 nx y0 y1 ny (sched : list bool), nx * ny <= length sched ->
  let out := run_sched (it2d_nxt O x0 x1 nx y0 y1 ny (fst (it2d_new nx ny))) (it2d_bck O x0 x1 nx y0 y1 ny (fst (it2d_new nx ny))) sched (snd (it2d_new nx ny)) in
  fronts out ++ rev (backs out) = seq2d O x0 x1 nx y0 y1 ny /\ Permutation (fronts out ++ backs out) (seq2d O x0 x1 nx y0 y1 ny).
Proof. exact (fun T O => it2d_interleave O). Qed.

(* over the reals the 2-D point at flat index k is (x-axis value at k mod nx, y-axis value at k / nx), corners are endpoints *)
(* guard 1 <= nx: the code computes index % cols and index / cols on usize (a zero column count panics; a grid with nx = 0 has no
   points, so its iterators never evaluate this) *)
Theorem C14_2d_values : forall (x0 x1 : R) (nx : nat) (y0 y1 : R) (ny k : nat), 1 <= nx ->
  steps2d_value Rops x0 x1 nx y0 y1 ny k = (steps_value Rops x0 x1 nx (k mod nx), steps_value Rops y0 y1 ny (k / nx)).
Proof. exact (fun x0 x1 nx y0 y1 ny k _ => steps2d_value_axes x0 x1 nx y0 y1 ny k). Qed.

Theorem C14_2d_corners : forall (x0 x1 : R) (nx : nat) (y0 y1 : R) (ny : nat), 1 <= nx -> 1 <= ny ->
  steps2d_value Rops x0 x1 nx y0 y1 ny 0 = (x0, y0) /\
  (2 <= nx -> 2 <= ny -> steps2d_value Rops x0 x1 nx y0 y1 ny (nx * ny - 1) = (x1, y1)).
Proof. exact seq2d_corners. Qed.

(* flat index <-> (column, row) are mutually inverse *)
Theorem C14_index_inverse :
  (forall col row cols, col < cols -> get_2d_indices (get_1d_index col row cols) cols = (col, row)) /\
  (forall index cols, 0 < cols ->
     fst (get_2d_indices index cols) < cols /\
     get_1d_index_pre (fst (get_2d_indices index cols)) (snd (get_2d_indices index cols)) cols = true /\
     get_1d_index (fst (get_2d_indices index cols)) (snd (get_2d_indices index cols)) cols = index).
Proof. exact (conj idx_2d_of_1d idx_1d_of_2d). Qed.

(* wavelength <-> frequency: endpoints to endpoints (swapped, so that ascending positive axes stay ascending); round trips *)
Theorem C14_wavelength_frequency :
  (forall x0 x1 nx y0 y1 ny,
     to_fs (mk_space x0 x1 nx y0 y1 ny) = mk_space (w_of x1) (w_of x0) nx (w_of y1) (w_of y0) ny /\
     to_ws (mk_space x0 x1 nx y0 y1 ny) = mk_space (l_of x1) (l_of x0) nx (l_of y1) (l_of y0) ny) /\
  (forall s, ascending (fst s) -> ascending (snd s) ->
     (ascending (fst (to_fs s)) /\ ascending (snd (to_fs s))) /\ (ascending (fst (to_ws s)) /\ ascending (snd (to_ws s)))) /\
  (forall s, nonzero_axes s -> to_ws (to_fs s) = s /\ to_fs (to_ws s) = s).
Proof.
  exact (conj (fun x0 x1 nx y0 y1 ny => conj (to_fs_endpoints x0 x1 nx y0 y1 ny) (to_ws_endpoints x0 x1 nx y0 y1 ny))
        (conj (fun s Hx Hy => conj (to_fs_ascending s Hx Hy) (to_ws_ascending s Hx Hy))
              (fun s H => conj (ws_fs_roundtrip s H) (fs_ws_roundtrip s H)))).
Qed.

(* READING of "each axis re-sorted ascending": the code SWAPS the two endpoints of each axis (it does not sort).  An ascending
   positive axis therefore stays ascending (above) and a descending one stays descending (here): the orientation is kept, which is
   exactly what makes the round trip the identity — an implementation that sorted could not round-trip a descending axis. *)
Theorem C14_wavelength_frequency_descending : forall s, descending (fst s) -> descending (snd s) ->
  descending (fst (to_fs s)) /\ descending (snd (to_fs s)).
Proof. exact to_fs_descending. Qed.

(* every `impl From<space> for space` (what `.into()` calls) is the named conversion *)
Theorem C14_from_impls : forall x0 x1 nx y0 y1 ny,
  from_ws_for_fs Rops TWO_PI x0 x1 nx y0 y1 ny = fs_from_wavelength_space Rops TWO_PI x0 x1 nx y0 y1 ny /\
  from_sd_for_fs Rops x0 x1 nx y0 y1 ny = sd_as_frequency_space Rops x0 x1 nx y0 y1 ny /\
  from_ws_for_sd Rops TWO_PI x0 x1 nx y0 y1 ny = sd_from_wavelength_space Rops TWO_PI x0 x1 nx y0 y1 ny /\
  from_fs_for_sd Rops x0 x1 nx y0 y1 ny = sd_from_frequency_space Rops x0 x1 nx y0 y1 ny /\
  from_fs_for_ws Rops TWO_PI x0 x1 nx y0 y1 ny = fs_as_wavelength_space Rops TWO_PI x0 x1 nx y0 y1 ny /\
  from_sd_for_ws Rops TWO_PI x0 x1 nx y0 y1 ny = sd_as_wavelength_space Rops TWO_PI x0 x1 nx y0 y1 ny.
Proof. exact from_impls_delegate. Qed.

(* frequency <-> sum/difference: counts and centre preserved; round trip = identity IFF the two spans are equal *)
Theorem C14_sumdiff : forall s : space R,
  (ax_n (fst (to_sd s)) = ax_n (fst s) /\ ax_n (snd (to_sd s)) = ax_n (snd s) /\
   ax_n (fst (of_sd s)) = ax_n (fst s) /\ ax_n (snd (of_sd s)) = ax_n (snd s)) /\
  sd_point Rops (centre (fst (to_sd s))) (centre (snd (to_sd s))) = (centre (fst s), centre (snd s)) /\
  (centre (fst (of_sd s)), centre (snd (of_sd s))) = sd_point Rops (centre (fst s)) (centre (snd s)) /\
  (of_sd (to_sd s) = s <-> span (fst s) = span (snd s)) /\
  (to_sd (of_sd s) = s <-> span (fst s) = span (snd s)) /\
  to_sd (of_sd (to_sd s)) = to_sd s /\ of_sd (to_sd (of_sd s)) = of_sd s.
Proof.
  exact (fun s => conj (sd_counts s) (conj (to_sd_centre s) (conj (of_sd_centre s) (conj (fs_sd_roundtrip_iff s)
          (conj (sd_fs_roundtrip_iff s) (sd_roundtrip_idempotent s)))))).
Qed.

(* the remaining named conversions are compositions of the four above *)
Theorem C14_conversions_compose : forall x0 x1 nx y0 y1 ny,
  ws_as_frequency_space Rops TWO_PI x0 x1 nx y0 y1 ny = fs_from_wavelength_space Rops TWO_PI x0 x1 nx y0 y1 ny /\
  ws_from_frequency_space Rops TWO_PI x0 x1 nx y0 y1 ny = fs_as_wavelength_space Rops TWO_PI x0 x1 nx y0 y1 ny /\
  fs_as_sum_diff_space Rops x0 x1 nx y0 y1 ny = sd_from_frequency_space Rops x0 x1 nx y0 y1 ny /\
  fs_from_sum_diff_space Rops x0 x1 nx y0 y1 ny = sd_as_frequency_space Rops x0 x1 nx y0 y1 ny /\
  on_space (sd_from_wavelength_space Rops TWO_PI) (mk_space x0 x1 nx y0 y1 ny) = to_sd (to_fs (mk_space x0 x1 nx y0 y1 ny)) /\
  on_space (ws_as_sum_diff_space Rops TWO_PI) (mk_space x0 x1 nx y0 y1 ny) = to_sd (to_fs (mk_space x0 x1 nx y0 y1 ny)) /\
  on_space (sd_as_wavelength_space Rops TWO_PI) (mk_space x0 x1 nx y0 y1 ny) = to_ws (of_sd (mk_space x0 x1 nx y0 y1 ny)) /\
  on_space (ws_from_sum_diff_space Rops TWO_PI) (mk_space x0 x1 nx y0 y1 ny) = to_ws (of_sd (mk_space x0 x1 nx y0 y1 ny)).
Proof. exact conversions_compose. Qed.

(* a flat (signal, idler) list built from a grid is traversed as the same pairs in the same order.  Tie to the code: the GENERATED
   description of SignalIdlerFrequencyArray / SignalIdlerWavelengthArray (both the sequential and the parallel iterator) is
   chunks_exact(2) with the pair (a[0], a[1]) and the point map of the frequency / wavelength space; on that description the
   pairing is chunk2; a trailing odd element is dropped *)
Theorem C14_flat_list : forall A B (f : A * A -> B) (grid : list (A * A)),
  chunk2 (flatten2 grid) = grid /\ map f (chunk2 (flatten2 grid)) = map f grid.
Proof. exact (fun A B f grid => conj (chunk2_flatten2 grid) (flat_list_is_grid f grid)). Qed.

Theorem C14_flat_list_generated :
  (farr_chunk = (2, (0, 1)) /\ warr_chunk = (2, (0, 1)) /\
   (forall a b : R, farr_point a b = fs_point a b) /\ (forall a b : R, warr_point Rops TWO_PI a b = ws_point Rops TWO_PI a b)) /\
  (forall A (l : list A), array_pairs farr_chunk l = chunk2 l /\ array_pairs warr_chunk l = chunk2 l) /\
  (forall A (grid : list (A * A)) (x : A), chunk2 (flatten2 grid ++ [x]) = grid).
Proof. exact (conj arrays_generated (conj (fun A l => conj (array_pairs_chunk2 l) (array_pairs_chunk2 l)) (fun A grid x => chunk2_odd grid x))). Qed.

(* transpose_vec (the generated early return, ranges, read index and assertion of the out-of-place double loop): the matrix
   transpose for EVERY shape rows x cols, including rows = 0 and cols = 0 (then the vector is empty and so is the result).
   (F6, the former in-place square swap, was fixed in /repo fd4cfc7; its record is Findings/C14_transpose.v.) *)
Theorem C14_transpose : forall A (rows cols : nat) (v : list A),
  length v = rows * cols -> exists w, transpose_vec v cols = Ok w /\ is_transpose rows cols v w.
Proof. exact (@transpose_correct). Qed.

(* outside the matrix case: num_cols = 0 returns the input unchanged (no panic); a length that is not a multiple of num_cols
   drops the trailing len mod num_cols elements and transposes the rest (no panic) *)
Theorem C14_transpose_ragged : forall A (v : list A) (cols : nat),
  transpose_vec v 0 = Ok v /\
  (1 <= cols -> exists w, transpose_vec v cols = Ok w /\
     is_transpose (length v / cols) cols (firstn (length v / cols * cols) v) w).
Proof. exact (fun A v cols => conj (transpose_zero_cols v) (transpose_ragged v cols)). Qed.

(* every JointSpectrum::*_range is `range.into_signal_idler_par_iterator().map(|(signal, idler)| point(..)).collect()` with the
   point function of the same name and the documented argument order (idler variants: swapped spectrum, swapped arguments);
   with C15_collect this is "one value per grid point, in grid order, identical to evaluating point by point" *)
Theorem C14_range_table :
  forallb entry_ok range_calls = true /\ has "jsa_range" = true /\ has "jsi_range" = true /\ has "jsi_singles_range" = true.
Proof. exact range_table_ok. Qed.

Theorem C14_range_table_names :
  map fst range_calls = ["jsa_range"; "jsa_normalized_range"; "jsi_range"; "jsi_normalized_range"; "jsi_singles_range"; "jsi_singles_idler_range";
                         "jsi_singles_normalized_range"; "jsi_singles_idler_normalized_range"]%string.
Proof. exact range_table_names. Qed.

(* the constructors of the three spaces keep their arguments in order (first tuple = signal axis) *)
Theorem C14_constructors : forall (x0 x1 : R) nx (y0 y1 : R) ny,
  fs_new x0 x1 nx y0 y1 ny = mk_space x0 x1 nx y0 y1 ny /\ sd_new x0 x1 nx y0 y1 ny = mk_space x0 x1 nx y0 y1 ny /\
  ws_new x0 x1 nx y0 y1 ny = mk_space x0 x1 nx y0 y1 ny.
Proof. exact constructors_keep_order. Qed.

(* the executable Q instance run by the correspondence cases is the real instance on rational arguments *)
Theorem C14_model_Q_is_R :
  (forall s e n i, Q2R (steps_value Qops s e n i) = steps_value Rops (Q2R s) (Q2R e) n i) /\
  (forall x0 x1 nx y0 y1 ny k,
     (Q2R (fst (steps2d_value Qops x0 x1 nx y0 y1 ny k)), Q2R (snd (steps2d_value Qops x0 x1 nx y0 y1 ny k))) =
     steps2d_value Rops (Q2R x0) (Q2R x1) nx (Q2R y0) (Q2R y1) ny k).
Proof. exact (conj steps_value_Q2R steps2d_value_Q2R). Qed.

(* the few-ulp clause, PROVED: the float evaluation of the generated Steps::value (the same generated term instantiated at
   operations rounded to nearest-even) is within 4 u max(|start|,|end|), u = 2^-53, of the exact value, for 2 <= n, 0 <= i <= n-1,
   n-1 < 2^53 (integers exact).  First for FLX-53 (binary64 with unbounded exponent: no overflow / underflow), then for
   binary64 = FLT(-1074,53) under the explicit guard that the exact arguments of the four roundings are zero or normal
   (>= 2^-1022); overflow is outside the model: for |endpoint| * (n-1) above f64::MAX (about 1.8e308) the product start*(d-i)
   overflows to infinity in the code (e.g. Steps(1e306, 1.5e306, 300).value(1) = inf) — the value clauses are claimed only below
   that magnitude. *)
Theorem C14_steps_value_float_partial : forall (s e : R) (n i : nat), 2 <= n -> i <= n - 1 -> (INR (n - 1) < 9007199254740992)%R ->
  (Rabs (steps_value FXops s e n i - steps_value Rops s e n i) <= 4 * u53 * Mx s e)%R /\
  (steps_value_guard s e n i -> (Rabs (steps_value F64ops s e n i - steps_value Rops s e n i) <= 4 * u53 * Mx s e)%R).
Proof.
  exact (fun s e n i Hn Hi Hd => conj (steps_value_float_bound s e n i Hn Hi Hd) (steps_value_binary64_bound s e n i Hn Hi Hd)).
Qed.

(* non-vacuity *)
Example C14_nonvacuous_float_guard : steps_value_guard 1 2 3 1.
Proof. exact steps_value_guard_example. Qed.
Example C14_nonvacuous_space : ascending (fst (mk_space 1 2 3 1 2 3)) /\ nonzero_axes (mk_space 1 2 3 1 2 3).
Proof. unfold ascending, nonzero_axes, mk_space; cbn. repeat split; lra. Qed.
Example C14_nonvacuous_transpose : transpose_vec [0; 1; 2; 3; 4; 5] 3 = Ok [0; 3; 1; 4; 2; 5] /\ is_transpose 2 3 [0; 1; 2; 3; 4; 5] [0; 3; 1; 4; 2; 5].
Proof. split; [reflexivity|]. split; [reflexivity|]. intros [|[|r]] [|[|[|c]]] Hr Hc; try lia; reflexivity. Qed.
Example C14_nonvacuous_ragged : transpose_vec [0; 1; 2; 3; 4; 5; 6] 3 = Ok [0; 3; 1; 4; 2; 5].
Proof. reflexivity. Qed.
Example C14_nonvacuous_spans : exists s : space R, span (fst s) = span (snd s).
Proof. exists (mk_space 0 1 2 5 6 2). unfold span, mk_space; cbn. lra. Qed.

Print Assumptions C14_steps.
Print Assumptions C14_steps_monotone.
Print Assumptions C14_steps_collect.
Print Assumptions C14_2d_lookup.
Print Assumptions C14_steps_interleave.
Print Assumptions C14_steps_rev.
Print Assumptions C14_2d.
Print Assumptions C14_2d_interleave.
Print Assumptions C14_2d_values.
Print Assumptions C14_2d_corners.
Print Assumptions C14_index_inverse.
Print Assumptions C14_wavelength_frequency.
Print Assumptions C14_sumdiff.
Print Assumptions C14_conversions_compose.
Print Assumptions C14_flat_list.
Print Assumptions C14_flat_list_generated.
Print Assumptions C14_wavelength_frequency_descending.
Print Assumptions C14_from_impls.
Print Assumptions C14_transpose.
Print Assumptions C14_transpose_ragged.
Print Assumptions C14_range_table.
Print Assumptions C14_model_Q_is_R.
Print Assumptions C14_range_table_names.
Print Assumptions C14_constructors.
Print Assumptions C14_steps_value_float_partial.
