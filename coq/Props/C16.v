(* C16 — property theorems (statements, `exact` proofs, non-vacuity examples, Print Assumptions only).
   Generated from the source on every run: Gen/ConfigTables.v (enum tables, the five regex literals, sigfigs),
   Gen/ConfigConv.v (From<SPDC> for SPDCConfig and the From impls it uses, Default impls).  Hand-pinned: Spec/ConfigSpec.v
   (documented spellings, what a type's name states, documented defaults), Spec/ConfigUnits.v (unit table).
   Model: Model/Config.v (try_as_spdc in the code's order with oracles), Model/Regex.v (regex engine). *)
From Coq Require Import Reals Ascii String List Bool ZArith QArith.
From Flocq Require Import Core.
From SpdVerif Require Import Base.Rx Base.CfgNumOps Spec.ConfigSpec Gen.ConfigTables Spec.ConfigUnits Model.ConfigTypes Model.Config
  Model.NumInst Model.Regex Model.Names Gen.ConfigConv
  Proofs.C16_names Proofs.C16_round Proofs.C16_roundtrip Proofs.C16_stable Proofs.C16_defaults Proofs.Regex Proofs.C16_disjoint Proofs.C16_sigfigs_b64 Gen.ConfigSites Gen.CfgSteps Proofs.CfgSteps_eq Model.Cfg_Composed Proofs.Cfg_composed.
Import ListNotations.
Local Open Scope R_scope.

(* ================================================================================================ names *)
(* the five translated regex literals are inside the syntax the engine interprets *)
Theorem C16_regexes_supported : pm_regexes_compile = true.
Proof. exact pm_regexes_ok. Qed.

(* the regex engine is correct w.r.t. the language semantics of regular expressions *)
Theorem C16_matcher_correct : forall ci r s, matches ci r s = true <-> lang ci r s.
Proof. exact matches_correct. Qed.

Theorem C16_pm_parses_printed : forall t, pm_from_str (pm_display t) = Some t /\ pm_from_str (pm_to_str t) = Some t.
Proof. exact (fun t => conj (pm_parses_printed t) (pm_parses_to_str t)). Qed.

Theorem C16_pm_parses_documented : forall t s, In s (documented_spellings t) -> pm_from_str s = Some t.
Proof. exact pm_parses_documented. Qed.

Theorem C16_pm_doc_examples : forall s t, In (s, t) doc_examples -> pm_from_str s = Some t.
Proof. exact pm_doc_examples. Qed.

Theorem C16_pm_printed_is_canonical : forall t, pm_display t = pm_canonical t /\ pm_to_str t = pm_canonical t.
Proof. exact pm_printed_canonical. Qed.

Theorem C16_pm_polarizations_match_name : forall t,
  pump_polarization t = pn_pump (pm_name_of t) /\ signal_polarization t = pn_signal (pm_name_of t) /\
  idler_polarization t = pn_idler (pm_name_of t).
Proof. exact pm_polarizations_match_name. Qed.

(* whatever string parses to a type spells that type's signal and idler letters last (any letter case) *)
Theorem C16_pm_parse_sound : forall s t, pm_from_str s = Some t ->
  exists pre x y, list_ascii_of_string s = (pre ++ [x; y])%list /\
    lower x = letter_of (signal_polarization t) /\ lower y = letter_of (idler_polarization t).
Proof. exact pm_parse_sound. Qed.

(* the five regular languages of PMType::from_str are pairwise disjoint on ALL byte strings (pm_re d a x y is the shape every
   compiled table entry has: C16_pm_compiled_shape), so the order of the if-chain is irrelevant: a string parses to t iff SOME
   entry for t matches it *)
Theorem C16_pm_compiled_shape :
  compile_table pm_regex_table =
  [ (Some {| c_ci := true; c_re := pm_re "0"%char "o"%char "o"%char "o"%char |}, Type0_o_oo);
    (Some {| c_ci := true; c_re := pm_re "0"%char "e"%char "e"%char "e"%char |}, Type0_e_ee);
    (Some {| c_ci := true; c_re := pm_re "1"%char "e"%char "o"%char "o"%char |}, Type1_e_oo);
    (Some {| c_ci := true; c_re := pm_re "2"%char "e"%char "e"%char "o"%char |}, Type2_e_eo);
    (Some {| c_ci := true; c_re := pm_re "2"%char "e"%char "o"%char "e"%char |}, Type2_e_oe) ].
Proof. exact pm_compiled_shape. Qed.

Theorem C16_pm_regexes_disjoint : forall d1 a1 x1 y1 t1 d2 a2 x2 y2 t2 w,
  In (d1, a1, x1, y1, t1) pm_entries -> In (d2, a2, x2, y2, t2) pm_entries ->
  matches true (pm_re d1 a1 x1 y1) w = true -> matches true (pm_re d2 a2 x2 y2) w = true -> t1 = t2.
Proof. exact pm_regexes_disjoint. Qed.

Theorem C16_pm_order_irrelevant : forall s t,
  pm_from_str s = Some t <->
  exists d a x y, In (d, a, x, y, t) pm_entries /\ matches true (pm_re d a x y) (list_ascii_of_string s) = true.
Proof. exact pm_from_str_iff. Qed.

Theorem C16_pm_inverse : forall t,
  signal_polarization (pm_inverse t) = idler_polarization t /\ idler_polarization (pm_inverse t) = signal_polarization t /\
  pump_polarization (pm_inverse t) = pump_polarization t /\ pm_inverse (pm_inverse t) = t.
Proof. exact (fun t => match pm_inverse_swaps t with conj a (conj b c) => conj a (conj b (conj c (pm_inverse_involutive t))) end). Qed.

Theorem C16_pol_parses : forall p,
  pol_from_str (pol_display p) = Some p /\ pol_display p = pol_printed p /\
  forall s, In s (pol_spellings p) -> pol_from_str s = Some p.
Proof. exact (fun p => conj (pol_parses_printed p) (conj (pol_display_printed p) (pol_parses_documented p))). Qed.

Theorem C16_pol_any_case : forall s p, In (lower_string s, p) pol_from_str_table -> pol_from_str s = Some p.
Proof. exact pol_parses_any_case. Qed.

(* try_as_spdc_steps is SPDCConfig::try_as_spdc after the optional up-front wavelength validation (Props/C17.v: C17_entry):
   try_as_spdc V c = try_as_spdc_steps c whenever the check does not fire. *)
(* ================================================================================================ the model IS the source *)
(* The statement-by-statement translation of SPDCConfig::try_as_spdc GENERATED from the source (Gen/CfgSteps.v) equals the model
   every theorem below is about; likewise the bodies of the helpers it calls.  (try_as_spdc_steps is try_as_spdc after the
   optional up-front wavelength validation, Props/C17.v: C17_entry.) *)
Theorem C16_try_as_spdc_is_generated : forall num (o : NumOps num) U K minpos rj (c : spdc_cfg num),
  gen_try_as_spdc_steps o U K minpos rj c = try_as_spdc_steps o U K minpos rj c.
Proof. exact gen_try_as_spdc_steps_eq. Qed.

Theorem C16_helpers_are_generated : forall num (o : NumOps num) K minpos,
  (forall cfg, gen_crystal_of_cfg o cfg = crystal_of_cfg o cfg) /\
  (forall p cs, gen_pump_of_cfg o p cs = pump_of_cfg o p cs) /\
  (forall c cs, gen_signal_of_cfg o K c cs = beam_of_cfg o K (signal_polarization (cs_pm cs)) c cs) /\
  (forall c cs, gen_idler_of_cfg o K c cs = beam_of_cfg o K (idler_polarization (cs_pm cs)) c cs) /\
  (forall a, gen_apod_of_cfg o a = apod_of_cfg o a) /\
  (forall p signal pump cs, gen_poling_of_cfg o K minpos p signal pump cs = poling_of_cfg o K minpos cfg_rejects_bad_period p signal pump cs).
Proof.
  exact (fun num o K minpos => conj (gen_crystal_of_cfg_eq num o) (conj (gen_pump_of_cfg_eq num o) (conj (gen_signal_of_cfg_eq num o K)
        (conj (gen_idler_of_cfg_eq num o K) (conj (gen_apod_of_cfg_eq num o) (gen_poling_of_cfg_eq num o K minpos)))))).
Qed.

(* ================================================================================================ round trip *)
(* the generated setup -> configuration conversion IS the unit table *)
(* (export_rounds_idler_waist_position: whether the code rounds the idler waist position, read off the source; the unit table's
   only parameter) *)
Theorem C16_as_config_is_unit_table : forall U s, as_config R_ops U s = as_config_spec export_rounds_idler_waist_position export_rounds_gaussian_fwhm U s.
Proof. exact as_config_matches_spec. Qed.

(* every exported number is within 0.5e-4 of the physical value in the field's unit; idler, crystal angle and waist
   positions explicit; poling exported as the positive magnitude *)
Theorem C16_roundtrip : forall U s,
  let c := as_config R_ops U s in
  cc_kind (c_crystal c) = cs_kind (s_crystal s) /\ cc_pm (c_crystal c) = cs_pm (s_crystal s) /\
  cc_counter (c_crystal c) = cs_counter (s_crystal s) /\
  close4 (cc_phi_deg (c_crystal c)) (cs_phi (s_crystal s) / deg) /\
  (exists t, cc_theta_deg (c_crystal c) = Param t /\ close4 t (cs_theta (s_crystal s) / deg)) /\
  close4 (cc_length_um (c_crystal c)) (cs_length (s_crystal s) / micro) /\
  close4 (cc_temperature_c (c_crystal c)) (cs_temperature (s_crystal s) - 27315 / 100) /\
  close4 (pc_wavelength_nm (c_pump c)) (b_wavelength (s_pump s) / nano) /\
  close4 (pc_waist_um (c_pump c)) (b_waist (s_pump s) / micro) /\
  close4 (pc_bandwidth_nm (c_pump c)) (s_bandwidth s / nano) /\
  close4 (pc_power_mw (c_pump c)) (s_power s / u_milliw U) /\
  pc_threshold (c_pump c) = Some (s_threshold s) /\
  beam_close (s_signal s) (c_signal c) /\
  (exists z, bc_waist_pos_um (c_signal c) = Param z /\ close4 z (s_zs s / micro)) /\
  (exists ic, c_idler c = Param ic /\ beam_close (s_idler s) ic /\
              exists z, bc_waist_pos_um ic = Param z /\ close4 z (s_zi s / micro)) /\
  match s_pp s with
  | PolOff => c_pp c = PCOff
  | PolOn period _ a => exists p, c_pp c = PCConfig (Param p) (apod_spec export_rounds_gaussian_fwhm a) /\ close4 p (period / micro)
  end /\
  close4 (c_deff c) (s_deff s / (pico / u_volt U)).
Proof. exact roundtrip_within. Qed.

(* FULL STRENGTH for the code as it is now: the idler waist position is rounded too (the statement's `true` is the obligation
   export_rounds_idler_waist_position = true), so EVERY exported number is the physical value rounded to 4 decimals -- an
   integer multiple of 1e-4 (at most 4 fractional digits: such numbers of moderate size have at most 15 significant digits and
   survive serde_json's default float parser; that last step is validated per run, serde/ryu are external).  Passed through
   unrounded: pump.spectrum_threshold and the apodization parameters -- the Gaussian FWHM in um is re-derived as fwhm/1e-6 and can
   carry 17 digits (flag export_rounds_gaussian_fwhm, false on the current tree: reported by the check as a JSON-lossy finding). *)
Theorem C16_as_config_is_unit_table_now : forall U s, as_config R_ops U s = as_config_spec true export_rounds_gaussian_fwhm U s.
Proof. exact as_config_now_unit_table. Qed.

Theorem C16_exported_numbers_four_decimals : forall U s,
  let c := as_config R_ops U s in
  dec4 (cc_phi_deg (c_crystal c)) /\ (forall t, cc_theta_deg (c_crystal c) = Param t -> dec4 t) /\
  dec4 (cc_length_um (c_crystal c)) /\ dec4 (cc_temperature_c (c_crystal c)) /\
  dec4 (pc_wavelength_nm (c_pump c)) /\ dec4 (pc_waist_um (c_pump c)) /\ dec4 (pc_bandwidth_nm (c_pump c)) /\
  dec4 (pc_power_mw (c_pump c)) /\
  beam_cfg_dec4 (c_signal c) /\ (forall ic, c_idler c = Param ic -> beam_cfg_dec4 ic) /\
  (forall p a, c_pp c = PCConfig (Param p) a -> dec4 p) /\ dec4 (c_deff c).
Proof. exact exported_numbers_four_decimals. Qed.

Theorem C16_round4 : forall x, round4 (round4 x) = round4 x /\ Rabs (round4 x - x) <= / 20000.
Proof. exact (fun x => conj (round4_idempotent x) (round4_err x)). Qed.

(* binary64 (Flocq) statement for math::sigfigs(x, 4): sigfigs_b64 x = b64 (round_half_away (b64 (x * 10^4)) / 10^4), b64 = round to
   nearest-even in binary64.  At an EXACT tie (x * 10^4 = k + 1/2) the product is representable and the code rounds away from
   zero exactly as round4 does; farther than 2^-53 |x * 10^4| from every half-integer (normal range) the binary64 product rounds
   to the same integer as the exact one.  In both cases the result is the binary64 number nearest to the 4-decimal value
   round4 x.  _partial: inside the 2^-53-relative band around a tie the two may differ by 1e-4 (the checks skip such inputs). *)
Theorem C16_sigfigs_b64_tie_partial : forall x (k : Z),
  (Z.abs (2 * k + 1) < 2 ^ 53)%Z -> x * 10000 = IZR k + / 2 ->
  b64 (x * 10000) = x * 10000 /\ sigfigs_b64 x = b64 (round4 x).
Proof. exact sigfigs_b64_tie. Qed.

Theorem C16_sigfigs_b64_away_from_ties_partial : forall x,
  let p := x * 10000 in
  bpow radix2 (-1022) <= Rabs p ->
  (forall z : Z, Rabs (p - (IZR z + / 2)) > / 2 * bpow radix2 (-52) * Rabs p) ->
  round_half_away (b64 p) = round_half_away p /\ sigfigs_b64 x = b64 (round4 x).
Proof. exact sigfigs_b64_away_from_ties. Qed.

(* converting the exported configuration again reproduces it exactly (all oracles), for setups whose exported angles are
   not at the wrap-around of their range (there 360.0000 re-imports as 0; Findings/C16_wrap.v) *)
Theorem C16_stable : forall U K minpos rj s, reimportable U s ->
  exists s2, try_as_spdc_steps R_ops U K minpos rj (as_config R_ops U s) = Ok (s2, []) /\
             as_config R_ops U s2 = as_config R_ops U s.
Proof. exact (fun U K minpos rj s => stable U K minpos rj export_rounds_gaussian_fwhm export_rounds_idler_waist_position s eq_refl eq_refl). Qed.

(* ================================================================================================ auto = explicit *)
Theorem C16_auto_is_explicit : forall num (o : NumOps num) U K minpos rj (c : spdc_cfg num) s nf,
  try_as_spdc_steps o U K minpos rj c = Ok (s, nf) ->
  (cc_theta_deg (c_crystal c) = Auto ->
     optimum_theta o K (cfg_cs0 o c) (s_signal s) (s_pump s) = Ok (cs_theta (s_crystal s)) /\
     s_crystal s = set_crystal_theta (cfg_cs0 o c) (cs_theta (s_crystal s))) /\
  (cc_theta_deg (c_crystal c) <> Auto -> s_crystal s = cfg_cs0 o c) /\
  (forall a, c_pp c = PCConfig Auto a ->
     (exists per, optimum_poling_period o K minpos (s_signal s) (s_pump s) (cfg_cs0 o c) = Ok (inl per) /\
                  s_pp s = poling_new o per (apod_of_cfg o a)) \/
     (optimum_poling_period o K minpos (s_signal s) (s_pump s) (cfg_cs0 o c) = Ok (inr tt) /\ In NFPeriodInfinite nf)) /\
  (forall pu a, c_pp c = PCConfig (Param pu) a ->
     exists sg, compute_sign o K (s_signal s) (s_pump s) (cfg_cs0 o c) = Ok sg /\
                s_pp s = poling_new o (nmul o (sign_mul o sg (nabs o pu)) (u_micro o)) (apod_of_cfg o a)) /\
  (c_idler c = Auto ->
     exists nfi, idler_optimum o K (s_signal s) (s_pump s) (s_crystal s) (s_pp s) = Ok (s_idler s, nfi)) /\
  (bc_waist_pos_um (c_signal c) = Auto ->
     fst (waist_position o K (s_crystal s) (s_signal s) NFWaistSignal) = s_zs s) /\
  (idler_focus_cfg c = Auto ->
     fst (waist_position o K (s_crystal s) (s_idler s) NFWaistIdler) = s_zi s) /\
  (forall f, bc_waist_pos_um (c_signal c) = Param f -> s_zs s = explicit_focus o f) /\
  (forall f, idler_focus_cfg c = Param f -> s_zi s = explicit_focus o f).
Proof. exact auto_is_explicit. Qed.

(* the STRONGER reading -- "auto" = the explicit public call on the FINISHED setup.  For the idler and the waist positions it is the
   statement above (they are computed last, on the finished crystal).  For the crystal angle it needs that the external angle of the
   finished signal does not depend on the crystal angle -- proved for collinear signals of the composed model
   (C16_auto_theta_final_composed); for a non-collinear signal it is FALSE on the implementation: known finding F22. *)
Theorem C16_auto_theta_is_final_optimum : forall num (o : NumOps num) U K minpos rj (c : spdc_cfg num) s nf,
  try_as_spdc_steps o U K minpos rj c = Ok (s, nf) -> cc_theta_deg (c_crystal c) = Auto ->
  (forall th, o_snell_ext K (s_signal s) (set_crystal_theta (cfg_cs0 o c) th) = o_snell_ext K (s_signal s) (cfg_cs0 o c)) ->
  optimum_theta o K (s_crystal s) (s_signal s) (s_pump s) = Ok (cs_theta (s_crystal s)).
Proof. exact auto_theta_is_final_optimum. Qed.

Theorem C16_auto_theta_final_composed : forall index_of snell_inv sd_theta sd_period U minpos rj (c : spdc_cfg R) s nf,
  try_as_spdc_steps R_ops U (oracles_of_model index_of snell_inv sd_theta sd_period) minpos rj c = Ok (s, nf) ->
  cc_theta_deg (c_crystal c) = Auto -> C20_idempotent.collinear (s_signal s) ->
  optimum_theta R_ops (oracles_of_model index_of snell_inv sd_theta sd_period) (s_crystal s) (s_signal s) (s_pump s)
  = Ok (cs_theta (s_crystal s)).
Proof. exact auto_theta_final_composed. Qed.

(* COMPOSED with the generated / proved kernels of C03 / C04 (oracles_of_model: Model/Cfg_Composed.v): each "auto" field IS the
   value those models compute on the setup built so far -- the crystal angle is C04's optimum_theta of the composed cost (and lies
   in [0, pi/2]); an accepted automatic period is C04's optimum_poling_period (0 < |period| <= L); the automatic idler is C03's
   optimum_idler of the final signal / pump / crystal / poling, where its emission angle is defined (arg > 0, |val| <= 1) -- each
   where every candidate of the search has a defined cost (with the NaN-safe solver an undefined candidate costs +infinity and the
   result is that of the guarded search, which need not be C04's). *)
Theorem C16_auto_is_explicit_composed : forall index_of snell_inv sd_theta sd_period U rj (c : spdc_cfg R) s nf,
  try_as_spdc_steps R_ops U (oracles_of_model index_of snell_inv sd_theta sd_period) GA.opp_min_period rj c = Ok (s, nf) ->
  (cc_theta_deg (c_crystal c) = Auto ->
     forall e, o_snell_ext (oracles_of_model index_of snell_inv sd_theta sd_period) (s_signal s) (cfg_cs0 R_ops c) = Some e ->
     (forall x, theta_cost_defined index_of snell_inv (erase_theta R_ops (cfg_cs0 R_ops c)) e (s_signal s) (s_pump s) x = true) ->
       cs_theta (s_crystal s) =
         MA.optimum_theta (theta_cost_c index_of snell_inv (erase_theta R_ops (cfg_cs0 R_ops c)) e (s_signal s) (s_pump s)) MA.real_ops sd_theta /\
       0 <= cs_theta (s_crystal s) <= PI / 2) /\
  (forall a, c_pp c = PCConfig Auto a -> ~ In NFPeriodInfinite nf ->
     idler_defined index_of (s_signal s) (s_pump s) (cfg_cs0 R_ops c) MI.PPOff = true ->
     (forall x, period_cost_defined index_of (s_signal s) (s_pump s) (cfg_cs0 R_ops c) x = true) ->
     exists v, MA.optimum_poling_period (dkz_c index_of (s_signal s) (s_pump s) (cfg_cs0 R_ops c)) MA.real_ops sd_period
                 (cs_length (cfg_cs0 R_ops c)) = MA.AutoOk v /\
               s_pp s = poling_new R_ops v (apod_of_cfg R_ops a) /\ 0 < Rabs v <= cs_length (cfg_cs0 R_ops c)) /\
  (c_idler c = Auto -> beam_wf (s_signal s) -> 0 < b_wavelength (s_pump s) ->
     idler_defined index_of (s_signal s) (s_pump s) (s_crystal s) (ipp (s_pp s)) = true ->
     exists i, MI.optimum_idler (index_of (s_crystal s)) (ipm (cs_pm (s_crystal s))) (cs_counter (s_crystal s))
                 (ib (s_signal s)) (ipump (s_pump s)) (ipp (s_pp s)) = Some i /\ ib (s_idler s) = i).
Proof. exact auto_is_explicit_composed. Qed.

(* ================================================================================================ defaults *)
(* what an OMITTED field of the JSON text means -- for every field that may be omitted (the #[serde(default)] list read off
   the source, each with Default::default() of its type) it is the documented value; and the serde attributes of every
   configuration type, field and variant are exactly the pinned ones (Proofs/C16_defaults.v: serde_attributes_documented), so
   nothing is skipped, renamed, flattened or defaulted through a function.  pump.spectrum_threshold (an Option) is covered by
   C16_omitted_threshold. *)
Theorem C16_defaults :
  serde_omitted_values = spec_omitted_values /\
  map fst serde_omitted_values = map (fun f => f) (map fst (filter (fun r => String.eqb (snd r) "serde(default)") serde_attributes)) /\
  Qeq_bool default_threshold spec_spectrum_threshold = true /\
  sig_figs_in_config = spec_config_decimals.
Proof.
  exact (conj serde_omitted_documented (conj eq_refl (conj (proj1 default_threshold_documented) default_decimals_documented))).
Qed.

(* Default::default() of the configuration types (NOT what an omitted field means: most of these fields are required) *)
Theorem C16_default_impls :
  qlist_eqb default_numbers spec_default_numbers = true /\
  default_crystal_kind = "KTP"%string /\ default_pm_type = Type2_e_eo /\ default_crystal_theta_auto = true /\
  default_counter_propagation = false /\ default_signal_waist_position_auto = true /\
  default_signal_theta_external_none = true /\ default_idler_auto = true.
Proof. exact (conj default_numbers_documented default_symbols_documented). Qed.

(* the standalone public conversions From<SPDC> for PumpConfig / SignalConfig / IdlerConfig (generated from their own source)
   are the pump / signal / idler parts of the exported configuration, so every export theorem covers them *)
Theorem C16_standalone_conversions : forall num (o : NumOps num) U (s : spdc num),
  pump_as_config o U s = c_pump (as_config o U s) /\ signal_as_config o s = c_signal (as_config o U s) /\
  Param (idler_as_config o s) = c_idler (as_config o U s).
Proof. exact standalone_conversions. Qed.

Theorem C16_omitted_threshold : forall num (o : NumOps num) U K minpos rj (c : spdc_cfg num) s nf,
  pc_threshold (c_pump c) = None -> try_as_spdc_steps o U K minpos rj c = Ok (s, nf) -> s_threshold s = nQ o spec_spectrum_threshold.
Proof. exact omitted_threshold_is_default. Qed.

(* ---- non-vacuity *)
Example C16_ex_reimportable : exists U s, reimportable U s.
Proof. exact (ex_intro _ example_units (ex_intro _ example_setup reimportable_example)). Qed.

Print Assumptions C16_regexes_supported.
Print Assumptions C16_matcher_correct.
Print Assumptions C16_pm_parses_printed.
Print Assumptions C16_pm_parses_documented.
Print Assumptions C16_pm_doc_examples.
Print Assumptions C16_pm_printed_is_canonical.
Print Assumptions C16_pm_polarizations_match_name.
Print Assumptions C16_pm_parse_sound.
Print Assumptions C16_pm_compiled_shape.
Print Assumptions C16_pm_regexes_disjoint.
Print Assumptions C16_pm_order_irrelevant.
Print Assumptions C16_pm_inverse.
Print Assumptions C16_pol_parses.
Print Assumptions C16_pol_any_case.
Print Assumptions C16_try_as_spdc_is_generated.
Print Assumptions C16_helpers_are_generated.
Print Assumptions C16_as_config_is_unit_table.
Print Assumptions C16_roundtrip.
Print Assumptions C16_as_config_is_unit_table_now.
Print Assumptions C16_exported_numbers_four_decimals.
Print Assumptions C16_round4.
Print Assumptions C16_sigfigs_b64_tie_partial.
Print Assumptions C16_sigfigs_b64_away_from_ties_partial.
Print Assumptions C16_stable.
Print Assumptions C16_auto_is_explicit.
Print Assumptions C16_auto_is_explicit_composed.
Print Assumptions C16_auto_theta_is_final_optimum.
Print Assumptions C16_auto_theta_final_composed.
Print Assumptions C16_defaults.
Print Assumptions C16_default_impls.
Print Assumptions C16_standalone_conversions.
Print Assumptions C16_omitted_threshold.
