(* C01 — property theorems.  This file contains statements, `exact` proofs and Print Assumptions only. *)
From Coq Require Import Reals List String.
From SpdVerif Require Import Spec.CrystalTypes Spec.Published Gen.Crystals Proofs.Sellmeier Proofs.C01_all.
Local Open Scope R_scope.

(* l: vacuum wavelength in micrometres inside the crystal's declared window; T: temperature in Celsius in [-50, 200];
   n_of c ax l T is the generated (translated-from-source) index function evaluated at l um, T C. *)

Theorem C01_matches_published : forall c ax l T,
  in_window c l -> temp_ok T -> n_of c ax l T = published c ax l T.
Proof. exact matches_published. Qed.

Theorem C01_defined : forall c ax l T,
  in_window c l -> temp_ok T -> sell_defined (pub_sell c ax l T) (l ^ 2).
Proof. exact defined. Qed.

Theorem C01_bounds : forall c ax l T, in_window c l -> temp_ok T -> 1 < n_of c ax l T < 4.
Proof. exact bounds. Qed.

Theorem C01_decreasing : forall c ax l1 l2 T,
  in_window c l1 -> in_window c l2 -> temp_ok T -> l1 < l2 -> n_of c ax l2 T < n_of c ax l1 T.
Proof. exact decreasing. Qed.

Theorem C01_class : forall c l T, in_window c l -> temp_ok T ->
  class_ok (meta_axis (get_meta c)) (n_of c AX l T) (n_of c AY l T) (n_of c AZ l T).
Proof. exact class. Qed.

Theorem C01_window : forall c, window_ok (get_meta c).
Proof. exact window. Qed.

Theorem C01_id_roundtrip : forall c, from_string (to_string c) = Some c.
Proof. exact id_roundtrip. Qed.

Theorem C01_meta_roundtrip : forall c,
  option_map get_meta (from_string (meta_id (get_meta c))) = Some (get_meta c).
Proof. exact meta_roundtrip. Qed.

Theorem C01_ids_unique : NoDup (map to_string all_crystals).
Proof. exact ids_unique. Qed.

Theorem C01_all_meta_listed : (forall c, In (get_meta c) get_all_meta) /\ List.length get_all_meta = List.length all_crystals.
Proof. exact (conj all_meta_listed all_meta_length). Qed.

Theorem C01_temperature_independent : forall c ax l T T',
  meta_temp_known (get_meta c) = false -> in_window c l -> temp_ok T -> temp_ok T' -> n_of c ax l T = n_of c ax l T'.
Proof. exact temperature_independent. Qed.

Theorem C01_temperature_linear : forall c ax l T,
  linear_law c = true -> in_window c l -> temp_ok T -> n_of c ax l T = n_of c ax l 20 + pub_dn c ax * (T - 20).
Proof. exact temperature_linear. Qed.

Theorem C01_temperature_reference_MgO : forall ax l,
  in_window LiNb_MgO l -> n_of LiNb_MgO ax l 24.5 = sqrt (sell_eval (C01_LiNb_MgO.ref_sell ax) (l ^ 2)).
Proof. exact temperature_reference_MgO. Qed.

Theorem C01_temperature_cases : forall c,
  meta_temp_known (get_meta c) = false \/ linear_law c = true \/ c = LiNb_MgO.
Proof. exact temperature_cases. Qed.

(* non-vacuity: the hypotheses are satisfiable for a concrete in-window point *)
Example C01_nonvacuous : in_window BBO_1 1.55 /\ temp_ok 20.
Proof. unfold in_window, temp_ok; cbn. Lra.lra. Qed.

Print Assumptions C01_matches_published.
Print Assumptions C01_defined.
Print Assumptions C01_bounds.
Print Assumptions C01_decreasing.
Print Assumptions C01_class.
Print Assumptions C01_window.
Print Assumptions C01_id_roundtrip.
Print Assumptions C01_meta_roundtrip.
Print Assumptions C01_ids_unique.
Print Assumptions C01_all_meta_listed.
Print Assumptions C01_temperature_independent.
Print Assumptions C01_temperature_linear.
Print Assumptions C01_temperature_reference_MgO.
Print Assumptions C01_temperature_cases.
