(* C03_aux — AUXILIARY COMPOSITION theorems of property C03: statements that connect the property's own model with the generated
   kinematics / wrappers / grid-resolution / simple phase-matching models (Proofs/Compose_*.v).  Same house style as Props/C03.v
   (statements, `exact` proofs, non-vacuity Examples, Print Assumptions; pinned in Props/C03_aux_pins.v).  Built and audited as a
   separate target (vlib/auxprops.py): a failure here is reported as a broken obligation of the AUXILIARY COMPOSITION, the theorems of
   Props/C03.v stay accountable on their own. *)
From Coq Require Import Reals ZArith List String.
Import ListNotations.
From SpdVerif Require Import Base.Rx Base.Vec3 Gen.Idler Model.Idler Gen.WrapBase Gen.W_SPDC_delta_k Gen.W_SPDC_optimum_idler
  Gen.W_SPDC_assign_optimum_idler Gen.W_SPDC_assign_optimum_crystal_theta Proofs.Compose_wrappers_c03.
Local Open Scope R_scope.

(* The methods of the SPDC object through which the rest of the crate reaches delta_k and the optimum idler, as translated from
   src/spdc/spdc_obj.rs (Gen/W_SPDC_*.v, one file per method: which callee, which arguments, in which order; K_* are the callee
   records with every callee bound by its name).  `uval` is the sum of the value types handed
   around; crate_delta_k / crate_try_new_optimum are delta_k_model / optimum_idler with their parameters in the order of the Rust
   signatures (delta_k(omega_s, omega_i, signal, idler, pump, crystal_setup, pp); try_new_optimum(signal, pump, crystal_setup, pp));
   spdc_of builds the record of fields.  SPDC::delta_k(omega_s, omega_i) is the delta_k of this file at (omega_s, omega_i) — in that
   order — on the object's own signal, idler, pump and poling: *)
Theorem C03_spdc_delta_k : forall index s i p pm cp q zs zi ws wi,
  SPDC_delta_k_gen (K_delta_k index) (spdc_of s i p pm cp q zs zi) (UFreq ws) (UFreq wi) = UVec (delta_k_model index ws wi s i p q).
Proof. exact wrap_delta_k_model. Qed.
Print Assumptions C03_spdc_delta_k.

(* SPDC::optimum_idler() is the optimum idler of this file for the object's signal, pump, phase-matching type and poling *)
Theorem C03_spdc_optimum_idler : forall index s i p pm cp q zs zi,
  SPDC_optimum_idler_gen (K_optimum_idler index) (spdc_of s i p pm cp q zs zi) =
  match optimum_idler index pm cp s p q with Some o => Some (UBeam o) | None => None end.
Proof. exact wrap_optimum_idler_model. Qed.
Print Assumptions C03_spdc_optimum_idler.

(* SPDC::assign_optimum_idler() stores that idler with the waist of the idler it replaces, changes nothing else, and stores nothing
   when try_new_optimum fails *)
Theorem C03_spdc_assign_optimum_idler : forall index s i p pm cp q zs zi,
  SPDC_assign_optimum_idler_gen (K_assign_optimum_idler index) (spdc_of s i p pm cp q zs zi) =
  match optimum_idler index pm cp s p q with
  | Some o => Some (spdc_of s (mkBeam (b_pol o) (b_phi o) (b_theta o) (b_omega o) (b_dir o) (b_waist i)) p pm cp q zs zi)
  | None => None
  end.
Proof. exact wrap_assign_optimum_idler_model. Qed.
Print Assumptions C03_spdc_assign_optimum_idler.

(* SPDC::assign_optimum_crystal_theta() switches the poling off first, then replaces the crystal setup by
   crystal_setup.assign_optimum_theta(signal, pump); the idler is not recomputed (try_as_optimum calls assign_optimum_idler next) *)
Theorem C03_spdc_assign_optimum_crystal_theta : forall (obj : Type) (off : obj) (aot : obj -> obj -> obj -> obj) (s : spdc obj),
  SPDC_assign_optimum_crystal_theta_gen {| SPDC_assign_optimum_crystal_theta_K_PeriodicPoling_Off := off;
                                           SPDC_assign_optimum_crystal_theta_K_assign_optimum_theta := aot |} s =
    mk_spdc (signal s) (idler s) (pump s) (aot (crystal_setup s) (signal s) (pump s)) off
            (signal_waist_position s) (idler_waist_position s).
Proof. exact wrap_assign_optimum_crystal_theta. Qed.
Print Assumptions C03_spdc_assign_optimum_crystal_theta.

(* the callee and the argument expressions of SPDC::delta_k as read off the source text *)
Theorem C03_spdc_delta_k_source :
  SPDC_delta_k_calls =
    [("return", "crate::delta_k", ["omega_s"; "omega_i"; "&self.signal"; "&self.idler"; "&self.pump"; "&self.crystal_setup"; "&self.pp"])]%string.
Proof. exact (proj1 wrap_c03_sources). Qed.
Print Assumptions C03_spdc_delta_k_source.
