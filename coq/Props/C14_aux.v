(* C14_aux — AUXILIARY COMPOSITION theorems of property C14: statements that connect the property's own model with the generated
   kinematics / wrappers / grid-resolution / simple phase-matching models (Proofs/Compose_*.v).  Same house style as Props/C14.v
   (statements, `exact` proofs, non-vacuity Examples, Print Assumptions; pinned in Props/C14_aux_pins.v).  Built and audited as a
   separate target (vlib/auxprops.py): a failure here is reported as a broken obligation of the AUXILIARY COMPOSITION, the theorems of
   Props/C14.v stay accountable on their own. *)
From Coq Require Import List Arith Lia Reals.
From SpdVerif Require Import Base.GridOps Gen.Grid Model.Grid Proofs.C14_steps Proofs.C14_spaces Gen.GridRes Proofs.Compose_gridres.
Local Open Scope R_scope.

(* set_resolution / with_resolution of FrequencySpace, SumDiffFrequencySpace and WavelengthSpace, translated from
   src/jsa/si_iterator.rs (Gen/GridRes.v): the same function for the three representations — both counts become res, the four
   end points stay — and with_resolution is set_resolution on the moved value.  fs_res / sd_res / ws_res apply it to a space. *)
Theorem C14_set_resolution : forall (T : Type) (x0 x1 : T) nx (y0 y1 : T) ny res,
  fs_set_resolution x0 x1 nx y0 y1 ny res = ((x0, x1, res), (y0, y1, res)) /\
  sd_set_resolution x0 x1 nx y0 y1 ny res = ((x0, x1, res), (y0, y1, res)) /\
  ws_set_resolution x0 x1 nx y0 y1 ny res = ((x0, x1, res), (y0, y1, res)) /\
  fs_with_resolution x0 x1 nx y0 y1 ny res = fs_set_resolution x0 x1 nx y0 y1 ny res /\
  sd_with_resolution x0 x1 nx y0 y1 ny res = sd_set_resolution x0 x1 nx y0 y1 ny res /\
  ws_with_resolution x0 x1 nx y0 y1 ny res = ws_set_resolution x0 x1 nx y0 y1 ny res.
Proof. exact gridres_same. Qed.
Print Assumptions C14_set_resolution.

(* fs_res / sd_res / ws_res are, by definition (Proofs/Compose_gridres.v), the three generated set_resolution functions applied to the six
   components of a space; first_point / last_point are the generated steps2d_value at index 0 and res * res - 1.
   The re-sampled grid of each of the three representations: res * res points in the documented order, first point (x0, y0) and, for
   res >= 2, last point (x1, y1) *)
Theorem C14_set_resolution_grid : forall (s : space R) res,
  length (on_space (seq2d Rops) (fs_res s res)) = (res * res)%nat /\
  length (on_space (seq2d Rops) (sd_res s res)) = (res * res)%nat /\
  length (on_space (seq2d Rops) (ws_res s res)) = (res * res)%nat.
Proof. exact gridres_grid_all. Qed.
Print Assumptions C14_set_resolution_grid.

Theorem C14_set_resolution_corners : forall (s : space R) res, (1 <= res)%nat ->
  (first_point (fs_res s res) = (ax_lo (fst s), ax_lo (snd s)) /\ first_point (sd_res s res) = (ax_lo (fst s), ax_lo (snd s)) /\
   first_point (ws_res s res) = (ax_lo (fst s), ax_lo (snd s))) /\
  ((2 <= res)%nat ->
   last_point (fs_res s res) res = (ax_hi (fst s), ax_hi (snd s)) /\ last_point (sd_res s res) res = (ax_hi (fst s), ax_hi (snd s)) /\
   last_point (ws_res s res) res = (ax_hi (fst s), ax_hi (snd s))).
Proof. exact gridres_corners_all. Qed.
Print Assumptions C14_set_resolution_corners.

(* changing the resolution commutes with every conversion between the three representations (the conversions carry the counts
   through unchanged): it does not matter at which point of a conversion chain the resolution is set *)
Theorem C14_set_resolution_commutes_with_conversions : forall (s : space R) res,
  to_fs (ws_res s res) = fs_res (to_fs s) res /\
  to_ws (fs_res s res) = ws_res (to_ws s) res /\
  to_sd (fs_res s res) = sd_res (to_sd s) res /\
  of_sd (sd_res s res) = fs_res (of_sd s) res.
Proof. exact gridres_commutes_with_conversions. Qed.
Print Assumptions C14_set_resolution_commutes_with_conversions.

(* SumDiffFrequencySpace::new, Steps2D::new store their two axes in the order given; Steps2D::ranges returns the end points, x first *)
Theorem C14_constructors_and_ranges : forall (T : Type) (xa xb : T) xn (ya yb : T) yn,
  sd_new xa xb xn ya yb yn = ((xa, xb, xn), (ya, yb, yn)) /\ steps2d_new xa xb xn ya yb yn = ((xa, xb, xn), (ya, yb, yn)) /\
  steps2d_ranges xa xb xn ya yb yn = ((xa, xb), (ya, yb)).
Proof. exact gridres_new. Qed.
Print Assumptions C14_constructors_and_ranges.

(* an instance of the hypotheses and of the conclusions: 1500..1600 x 1500..1600 sampled 5 x 7, re-sampled at resolution 2 *)
Example C14_set_resolution_example :
  let s : space R := ((1500, 1600, 5%nat), (1500, 1600, 7%nat)) in
  (1 <= 2)%nat /\ (2 <= 2)%nat /\ fs_res s 2 = ((1500, 1600, 2%nat), (1500, 1600, 2%nat)) /\
  length (on_space (seq2d Rops) (sd_res s 2)) = 4%nat /\
  first_point (ws_res s 2) = (1500, 1500) /\ last_point (ws_res s 2) 2 = (1600, 1600).
Proof. exact gridres_example. Qed.
