(* C13_aux — AUXILIARY COMPOSITION theorems of property C13: statements that connect the property's own model with the generated
   kinematics / wrappers / grid-resolution / simple phase-matching models (Proofs/Compose_*.v).  Same house style as Props/C13.v
   (statements, `exact` proofs, non-vacuity Examples, Print Assumptions; pinned in Props/C13_aux_pins.v).  Built and audited as a
   separate target (vlib/auxprops.py): a failure here is reported as a broken obligation of the AUXILIARY COMPOSITION, the theorems of
   Props/C13.v stay accountable on their own. *)
From Coq Require Import Reals.
From Coquelicot Require Import Coquelicot.
From SpdVerif Require Import Base.Rx Model.Optics Model.Fresnel Gen.Fresnel Spec.CrystalTypes Gen.Crystals Proofs.Sellmeier Gen.Kinematics
  Proofs.Compose_kinematics Proofs.Compose_kinematics_links Proofs.Compose_kinematics_examples.
Local Open Scope R_scope.

(* The kinematic accessors of Beam (effective_index_of_refraction, phase_velocity, group_velocity, group_index, average_transit_time),
   translated from src/beam/mod.rs into Gen/Kinematics.v with index = CrystalSetup::index_along (any function), omega, d, p the beam's
   frequency, unit direction and polarization; the `_off` definitions are the bodies with PeriodicPoling::Off.
   lam omega = 2 pi c / omega; n_at = index at that wavelength; slope = math::derivative_at of the index in the wavelength, the central
   difference with step eps^(1/3) |lambda| (kin_slope_is_central_difference). *)

(* group index as the code computes it: n / (1 + (lambda / n) D) *)
Theorem C13_group_index_form : forall index omega d p,
  n_at index omega d p <> 0 -> 1 + lam omega / n_at index omega d p * slope index omega d p <> 0 ->
  beam_group_index_off_gen index omega d p = n_at index omega d p / (1 + lam omega / n_at index omega d p * slope index omega d p).
Proof. exact kin_group_index_off. Qed.
Print Assumptions C13_group_index_form.

(* group velocity times group index is c, unpoled and poled *)
Theorem C13_group_velocity_times_group_index : forall index omega d p,
  beam_group_velocity_off_gen index omega d p <> 0 ->
  beam_group_velocity_off_gen index omega d p * beam_group_index_off_gen index omega d p = light_speed.
Proof. exact kin_vg_ng_off. Qed.
Print Assumptions C13_group_velocity_times_group_index.

Theorem C13_group_velocity_times_group_index_poled : forall index omega d p period,
  beam_group_velocity_gen index omega d p period <> 0 ->
  beam_group_velocity_gen index omega d p period * beam_group_index_gen index omega d p period = light_speed.
Proof. exact kin_vg_ng_on. Qed.
Print Assumptions C13_group_velocity_times_group_index_poled.

(* average transit time: half the crystal length along the beam, (L/2)/|cos theta|, over the group velocity *)
Theorem C13_average_transit_time : forall index omega d p period L,
  unit_vec d -> vz d <> 0 -> 0 <= L ->
  beam_average_transit_time_gen index omega d p L period = (0.5 * L / Rabs (vz d)) / beam_group_velocity_gen index omega d p period.
Proof. exact kin_transit_time_on. Qed.
Print Assumptions C13_average_transit_time.

Theorem C13_average_transit_time_unpoled : forall index omega d p L,
  unit_vec d -> vz d <> 0 -> 0 <= L ->
  beam_average_transit_time_off_gen index omega d p L = (0.5 * L / Rabs (vz d)) / beam_group_velocity_off_gen index omega d p.
Proof. exact kin_transit_time_off. Qed.
Print Assumptions C13_average_transit_time_unpoled.

(* positive index and a finite-difference dispersion above -n/lambda: the three kinematic quantities are positive *)
Theorem C13_kinematics_positive : forall index omega d p,
  0 < n_at index omega d p -> -1 < lam omega / n_at index omega d p * slope index omega d p ->
  0 < beam_phase_velocity_off_gen index omega d p /\ 0 < beam_group_velocity_off_gen index omega d p /\
  0 < beam_group_index_off_gen index omega d p.
Proof. exact kin_positive_off. Qed.
Print Assumptions C13_kinematics_positive.

(* OBSERVATION.  The code's group velocity v_p (1 + (lambda/n) dn/dlambda) is the first-order expansion of the textbook
   c / (n - lambda dn/dlambda): their product with the textbook group index misses c by the relative amount (lambda D / n)^2 *)
Theorem C13_group_velocity_is_first_order : forall index omega d p,
  n_at index omega d p <> 0 ->
  beam_group_velocity_off_gen index omega d p * (n_at index omega d p - lam omega * slope index omega d p) =
  light_speed * (1 - (lam omega * slope index omega d p / n_at index omega d p) ^ 2).
Proof. exact kin_group_velocity_vs_textbook. Qed.
Print Assumptions C13_group_velocity_is_first_order.

(* the finite difference against the derivative, under LOCAL hypotheses: the index is three times differentiable in the wavelength
   on an open interval (a, b) containing the two sample points lambda -+ h (h = fd_step_gen lambda = eps^(1/3) |lambda|) and its third
   derivative is bounded by M between them; then |D - n'(lambda)| <= M h^2 / 6.  PARTIAL: the bound M on the third derivative of the
   built-in (Sellmeier) index functions near the sampled wavelength is not proved. *)
Theorem C13_dispersion_finite_difference_partial : forall index omega d p M a b,
  a < lam omega - fd_step_gen (lam omega) -> lam omega + fd_step_gen (lam omega) < b ->
  (forall t, a < t < b -> forall k, (k <= 3)%nat -> ex_derive_n (fun lm => index lm d p) k t) ->
  (forall t, lam omega - fd_step_gen (lam omega) < t < lam omega + fd_step_gen (lam omega) ->
             Rabs (Derive_n (fun lm => index lm d p) 3 t) <= M) ->
  Rabs (slope index omega d p - Derive (fun lm => index lm d p) (lam omega)) <= M * fd_step_gen (lam omega) ^ 2 / 6.
Proof. exact kin_slope_vs_derivative. Qed.
Print Assumptions C13_dispersion_finite_difference_partial.

(* with the generated index of a built-in crystal (C01 bounds 1 < n < 4 through C02's index_along): c/4 < v_p < c *)
Theorem C13_phase_velocity_builtin : forall c T theta phi omega d p,
  in_window c (lam omega / 1e-6) -> temp_ok T -> unit_vec d ->
  light_speed / 4 < beam_phase_velocity_off_gen (crystal_index_m c T theta phi) omega d p < light_speed.
Proof. exact kin_crystal_phase_velocity. Qed.
Print Assumptions C13_phase_velocity_builtin.

(* non-vacuity: an extraordinary beam along z in a dispersion-free medium of index 7/4 satisfies the hypotheses of the theorems above
   (group index 7/4, non-zero group velocity); a linear dispersive index satisfies the local smoothness hypotheses with M = 0 and has slope -100000; 1.55 um in KTP at 20 C *)
Example C13_kinematics_example : forall w, 0 < w ->
  n_at ex_index w ez Extraordinary <> 0 /\ 0 < n_at ex_index w ez Extraordinary /\
  1 + lam w / n_at ex_index w ez Extraordinary * slope ex_index w ez Extraordinary <> 0 /\
  -1 < lam w / n_at ex_index w ez Extraordinary * slope ex_index w ez Extraordinary /\
  beam_group_index_off_gen ex_index w ez Extraordinary = 7 / 4 /\
  beam_group_velocity_off_gen ex_index w ez Extraordinary <> 0.
Proof. exact kin_basic_nonvacuous. Qed.
(* a genuinely dispersive index, n(lambda) = 2 - 100000 lambda, satisfies the local hypotheses on (lambda - 2h, lambda + 2h) with M = 0; its
   slope is not zero: the code's central difference and the derivative are both -100000 *)
Example C13_kinematics_smooth_example : forall w d p, 0 < w ->
  let l := lam w in let h := fd_step_gen l in
  l - 2 * h < l - h /\ l + h < l + 2 * h /\
  (forall t, l - 2 * h < t < l + 2 * h -> forall k, (k <= 3)%nat -> ex_derive_n (fun lm => lin_index lm d p) k t) /\
  (forall t, l - h < t < l + h -> Rabs (Derive_n (fun lm => lin_index lm d p) 3 t) <= 0) /\
  slope lin_index w d p = -100000 /\ Derive (fun lm => lin_index lm d p) l = -100000.
Proof. exact kin_smooth_nonvacuous. Qed.
Example C13_kinematics_direction_example : unit_vec ez /\ vz ez <> 0 /\ 0 <= 0.002.
Proof. exact kin_hom_nonvacuous. Qed.
Example C13_kinematics_builtin_example : in_window KTP (lam ex_omega / 1e-6) /\ temp_ok 20 /\ unit_vec ez.
Proof. exact kin_builtin_nonvacuous. Qed.
