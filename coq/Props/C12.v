(* C12 — quadrature: property theorems.  This file contains statements, `exact` proofs, non-vacuity examples and
   Print Assumptions only.

   Objects.  [Rops] is the real/complex instance of the operation record the kernels of src/math/integration.rs are
   translated over (Gen/Integration.v, regenerated from the source on every run): scalars R for f64, Coquelicot's C for
   Complex<f64>.  [simpson], [simpson2d], [simpson_adaptive], [simpson_adaptive_2d], [simpson_accepts], [simpson2d_accepts]
   and the [*_calls] functions (number of integrand evaluations) are the TRANSLATED functions.  A rule is a list of
   (node, weight); [cpeval cs x] = sum_k c_k x^k with complex c_k; [cpint cs a b] its integral over [a,b]
   (C12_poly_integral: it is the Riemann integral).  The statements below hold for ALL intervals, integrands/polynomials,
   division counts, tolerances and depths they quantify over.  Open defects are witnessed in Findings/ (adaptive Simpson
   accepting aliased samples); the repaired ones (F5a, F5b, F5c) are kept in Findings/retired/ as historical records. *)
From Coq Require Import Reals QArith ZArith List Bool.
From Bignums Require Import BigZ.
From Coquelicot Require Import Coquelicot.
From SpdVerif Require Import Base.NumOps Gen.Integration Model.Quadrature.
From SpdVerif Require Import Proofs.C12_base Proofs.C12_simpson Proofs.C12_rule Proofs.C12_simpson2d Proofs.C12_adaptive Proofs.C12_cert Proofs.C12_expi Proofs.C12_alias Proofs.C12_gl_expi Proofs.C12_gl_cert Proofs.C12_expi2d Proofs.C12_float.
From SpdVerif Require Import Model.C12_FloatOps.
Import ListNotations.
Local Open Scope R_scope.

(* ---- the closed form used as "the integral" is the Riemann integral, componentwise *)
Theorem C12_poly_integral : forall (cs : list C) (a b : R),
  is_RInt (fun x => fst (cpeval Rops cs x)) a b (fst (cpint Rops cs a b)) /\
  is_RInt (fun x => snd (cpeval Rops cs x)) a b (snd (cpint Rops cs a b)).
Proof. exact cpint_is_RInt. Qed.

(* ---- composite Simpson, 1-D *)
Theorem C12_simpson_is_rule : forall (f : R -> C) (a b : R) divs,
  simpson Rops f a b divs = apply_rule Rops (simpson_rule Rops a b divs) f.
Proof. exact simpson_is_rule. Qed.

(* every even number of divisions >= 2, every a b (a > b and a = b included), every complex cubic *)
Theorem C12_simpson_rule_exact : forall n (a b : R) (cs : list C),
  (2 <= n)%Z -> Z.even n = true -> (length cs <= 4)%nat ->
  apply_rule Rops (simpson_rule_n Rops a b n) (cpeval Rops cs) = cpint Rops cs a b.
Proof. exact simpson_rule_n_exact. Qed.

Theorem C12_simpson_exact : forall divs (a b : R) (cs : list C),
  simpson_accepts divs = true -> (length cs <= 4)%nat ->
  simpson Rops (cpeval Rops cs) a b divs = cpint Rops cs a b.
Proof. exact simpson_exact. Qed.

Theorem C12_simpson_reverse : forall (f : R -> C) (a b : R) divs, simpson_accepts divs = true ->
  simpson Rops f b a divs = Copp (simpson Rops f a b divs).
Proof. exact simpson_reverse. Qed.

Theorem C12_simpson_linear : forall (alpha beta : C) (f g : R -> C) (a b : R) divs,
  simpson Rops (fun x => Cplus (Cmult alpha (f x)) (Cmult beta (g x))) a b divs =
  Cplus (Cmult alpha (simpson Rops f a b divs)) (Cmult beta (simpson Rops g a b divs)).
Proof. exact simpson_linear. Qed.

Theorem C12_simpson_calls : forall (f : R -> C) (a b : R) divs, simpson_accepts divs = true ->
  simpson_calls Rops f (fun _ => 1%nat) a b divs = Z.to_nat (simpson_norm divs + 1).
Proof. exact simpson_calls_count. Qed.

(* smooth oscillatory integrands: the textbook bound (b-a) h^4 max|f(4)|/180 for f = amp*exp(ikx), h = (b-a)/n,
   every interval, every k <> 0, every complex amplitude, every accepted divs; [expi_int] is the Riemann integral *)
Theorem C12_simpson_expi_bound : forall divs (a b k : R) (amp : C), simpson_accepts divs = true -> k <> 0 ->
  Cmod (Cminus (simpson Rops (fun x => Cmult amp (expi k x)) a b divs) (Cmult amp (expi_int k a b)))
    <= Cmod amp * (Rabs (b - a) * Rabs ((b - a) / IZR (simpson_norm divs)) ^ 4 * Rabs k ^ 4 / 180).
Proof. exact simpson_expi_bound. Qed.

Theorem C12_expi_integral : forall k a b : R, k <> 0 ->
  is_RInt (fun x => fst (expi k x)) a b (fst (expi_int k a b)) /\
  is_RInt (fun x => snd (expi k x)) a b (snd (expi_int k a b)).
Proof. exact expi_int_is_RInt. Qed.

(* ---- rounding analysis of the translated `simpson` (its sequential evaluation order) in binary64, absent overflow and
   underflow: [Fops rnd64] instantiates the SAME generated code with every operation followed by round-to-nearest-even at
   precision 53 (Flocq).  With n the normalised division count, x_i the rounded nodes the code evaluates the integrand at,
   each component of the result is within ((1+u)^(n+6) - 1) |b-a|/(3n) sum_i w_i |f(x_i)| of the exact rule value on those
   samples; (1+u)^k - 1 <= k u/(1 - k u), and <= 1.5e-14 on the whole sequential branch (n < 128).
   The hypothesis n < 128 is the code's own branch condition: from 128 divisions on the sum runs through rayon's parallel reduction,
   whose association order is not specified and not modelled here. *)
Theorem C12_simpson_binary64 : forall (func : R -> C) (a b : R) divs, simpson_accepts divs = true ->
  (simpson_norm divs < 128)%Z ->
  let n := simpson_norm divs in
  let idx := zrange_incl 0 n in
  let s := (b - a) / (3 * IZR n) in
  let x := node_hat rnd64 a b n in
  Rabs (fst (simpson (Fops rnd64) func a b divs) - s * rsum (map (fun i => wR i n * fst (func (x i))) idx))
    <= G u64 (Z.to_nat n + 6) * (Rabs s * rsum (map (fun i => wR i n * Rabs (fst (func (x i)))) idx)) /\
  Rabs (snd (simpson (Fops rnd64) func a b divs) - s * rsum (map (fun i => wR i n * snd (func (x i))) idx))
    <= G u64 (Z.to_nat n + 6) * (Rabs s * rsum (map (fun i => wR i n * Rabs (snd (func (x i)))) idx)).
Proof. exact (fun func a b divs H _ => simpson_binary64 func a b divs H). Qed.

Theorem C12_float_constants :
  u64 = / 9007199254740992 /\
  (forall k : nat, INR k * u64 < 1 -> G u64 k <= INR k * u64 / (1 - INR k * u64)) /\
  (forall n : Z, (n < 128)%Z -> G u64 (Z.to_nat n + 6) <= 1.5e-14).
Proof. exact (conj u64_value (conj G64_gamma G64_sequential)). Qed.

(* ---- composite Simpson, 2-D *)
Theorem C12_simpson2d_is_tensor : forall (f : R -> R -> C) (ax bx ay by_ : R) divs, (0 < simpson2d_norm divs)%Z ->
  simpson2d Rops f ax bx ay by_ divs =
  apply_rule2 Rops (tensor Rops (simpson_rule_n Rops ax bx (simpson2d_norm divs)) (simpson_rule_n Rops ay by_ (simpson2d_norm divs))) f.
Proof. exact simpson2d_is_tensor. Qed.

Theorem C12_simpson2d_separable : forall (p q : R -> C) (ax bx ay by_ : R) divs, simpson2d_accepts divs = true ->
  simpson2d Rops (fun x y => Cmult (p x) (q y)) ax bx ay by_ divs =
  Cmult (apply_rule Rops (simpson_rule_n Rops ax bx (simpson2d_norm divs)) p)
        (apply_rule Rops (simpson_rule_n Rops ay by_ (simpson2d_norm divs)) q).
Proof. exact simpson2d_separable. Qed.

Theorem C12_simpson2d_exact_bicubic : forall (cp cq : list C) (ax bx ay by_ : R) divs,
  simpson2d_accepts divs = true -> (length cp <= 4)%nat -> (length cq <= 4)%nat ->
  simpson2d Rops (fun x y => Cmult (cpeval Rops cp x) (cpeval Rops cq y)) ax bx ay by_ divs =
  Cmult (cpint Rops cp ax bx) (cpint Rops cq ay by_).
Proof. exact simpson2d_exact_bicubic. Qed.

Theorem C12_simpson2d_product_of_1d : forall (cp cq : list C) (ax bx ay by_ : R) divs,
  simpson_accepts divs = true -> simpson2d_accepts divs = true -> (length cp <= 4)%nat -> (length cq <= 4)%nat ->
  simpson2d Rops (fun x y => Cmult (cpeval Rops cp x) (cpeval Rops cq y)) ax bx ay by_ divs =
  Cmult (simpson Rops (cpeval Rops cp) ax bx divs) (simpson Rops (cpeval Rops cq) ay by_ divs).
Proof. exact simpson_2d_product_of_1d. Qed.

(* separable oscillatory integrand amp exp(i(kx + ly)): the 1-D textbook bounds combine *)
Theorem C12_simpson2d_expi_bound : forall divs (ax bx ay by_ k l : R) (amp : C),
  simpson2d_accepts divs = true -> k <> 0 -> l <> 0 ->
  let n := simpson2d_norm divs in
  let Bx := Cmod amp * simpson_expi_B k ax bx n in
  let By := simpson_expi_B l ay by_ n in
  let Ix := Cmult amp (expi_int k ax bx) in
  let Iy := expi_int l ay by_ in
  Cmod (Cminus (simpson2d Rops (fun x y => Cmult (Cmult amp (expi k x)) (expi l y)) ax bx ay by_ divs) (Cmult Ix Iy))
    <= Bx * (Cmod Iy + By) + Cmod Ix * By.
Proof. exact simpson2d_expi_bound. Qed.

Theorem C12_simpson2d_reverse : forall (f : R -> R -> C) (ax bx ay by_ : R) divs, simpson2d_accepts divs = true ->
  simpson2d Rops f bx ax ay by_ divs = Copp (simpson2d Rops f ax bx ay by_ divs) /\
  simpson2d Rops f ax bx by_ ay divs = Copp (simpson2d Rops f ax bx ay by_ divs).
Proof. exact simpson2d_reverse. Qed.

Theorem C12_simpson2d_linear : forall (alpha beta : C) (f g : R -> R -> C) (ax bx ay by_ : R) divs, (0 < simpson2d_norm divs)%Z ->
  simpson2d Rops (fun x y => Cplus (Cmult alpha (f x y)) (Cmult beta (g x y))) ax bx ay by_ divs =
  Cplus (Cmult alpha (simpson2d Rops f ax bx ay by_ divs)) (Cmult beta (simpson2d Rops g ax bx ay by_ divs)).
Proof. exact simpson2d_linear. Qed.

Theorem C12_simpson2d_calls : forall (f : R -> R -> C) (ax bx ay by_ : R) divs, simpson2d_accepts divs = true ->
  simpson2d_calls Rops f (fun _ _ => 1%nat) ax bx ay by_ divs =
  (Z.to_nat (simpson2d_norm divs + 1) * Z.to_nat (simpson2d_norm divs + 1))%nat.
Proof. exact simpson2d_calls_count. Qed.

(* ---- Integrator::integrate / integrate2d: the Simpson and AdaptiveSimpson arms (translated) pass their arguments through *)
Theorem C12_dispatch : forall (f : R -> C) (g : R -> R -> C) (a b c d eps : R) divs depth,
  integrate_Simpson Rops f a b divs = simpson Rops f a b divs /\
  integrate2d_Simpson Rops g a b c d divs = simpson2d Rops g a b c d divs /\
  integrate_AdaptiveSimpson Rops f a b eps depth = simpson_adaptive Rops f a b eps depth /\
  integrate2d_AdaptiveSimpson Rops g a b c d eps depth = simpson_adaptive_2d Rops g a b c d eps depth.
Proof. exact dispatch_simpson. Qed.

(* ---- any fixed rule (Simpson, and the gauss-quad adapter whatever its table is) *)
Theorem C12_linear : forall (r : rule Rops) (alpha beta : C) (f g : R -> C),
  apply_rule Rops r (fun x => Cplus (Cmult alpha (f x)) (Cmult beta (g x))) =
  Cplus (Cmult alpha (apply_rule Rops r f)) (Cmult beta (apply_rule Rops r g)).
Proof. exact rule_linear. Qed.

Theorem C12_linear_2d : forall (r : rule2 Rops) (alpha beta : C) (f g : R -> R -> C),
  apply_rule2 Rops r (fun x y => Cplus (Cmult alpha (f x y)) (Cmult beta (g x y))) =
  Cplus (Cmult alpha (apply_rule2 Rops r f)) (Cmult beta (apply_rule2 Rops r g)).
Proof. exact rule2_linear. Qed.

Theorem C12_tensor : forall (rx ry : rule Rops) (p q : R -> C),
  apply_rule2 Rops (tensor Rops rx ry) (fun x y => Cmult (p x) (q y)) =
  Cmult (apply_rule Rops rx p) (apply_rule Rops ry q).
Proof. exact tensor_separable. Qed.

(* ---- rule certificate: moment errors on [-1,1] bound the error on every polynomial, on every interval *)
Theorem C12_rule_certificate : forall (r : rule Rops) (d : nat) (eps : R),
  (forall k, (k <= d)%nat -> Rabs (moment r k - leg_moment k) <= eps) ->
  forall cs : list C, (length cs <= S d)%nat ->
  Cmod (Cminus (apply_rule Rops r (cpeval Rops cs)) (cpint Rops cs (-1) 1)) <= eps * sum_cmod cs.
Proof. exact rule_certificate. Qed.

(* gauss-quad's affine transfer; the bound is eps * |b-a|/2 * sum_k |c_k| max(|a|,|b|)^k *)
Theorem C12_rule_certificate_transfer : forall (r : rule Rops) (d : nat) (eps : R),
  (forall k, (k <= d)%nat -> Rabs (moment r k - leg_moment k) <= eps) ->
  forall (a b : R) (cs : list C), (length cs <= S d)%nat ->
  Cmod (Cminus (apply_rule Rops (gq_transfer Rops r a b) (cpeval Rops cs)) (cpint Rops cs a b))
    <= eps * Rabs (tr_u a b) * scale_cmod cs (tr_M a b).
Proof. exact rule_certificate_transfer. Qed.

Theorem C12_transfer_scale : forall a b : R, tr_u a b = (b - a) / 2 /\ tr_M a b = Rmax (Rabs a) (Rabs b).
Proof. exact transfer_scale. Qed.

Theorem C12_rule_certificate_reverse : forall (r : rule Rops) (d : nat) (eps : R),
  (forall k, (k <= d)%nat -> Rabs (moment r k - leg_moment k) <= eps) ->
  forall (a b : R) (cs : list C), (length cs <= S d)%nat ->
  Cmod (Cplus (apply_rule Rops (gq_transfer Rops r b a) (cpeval Rops cs)) (apply_rule Rops (gq_transfer Rops r a b) (cpeval Rops cs)))
    <= 2 * (eps * Rabs (tr_u a b) * scale_cmod cs (tr_M a b)).
Proof. exact rule_certificate_reverse. Qed.

(* the executable certificate: `cert_check_big … = true` (closed by vm_compute on the nodes/weights extracted from the
   running code, one generated lemma per Gauss-Legendre order per run) yields the bound for that rule *)
Theorem C12_certified_rule_exact : forall (E F : Z) (d : nat) (en ed : Z) (xs ws : list bigZ),
  (0 <=? E)%Z = true -> (0 <=? F)%Z = true -> (0 <? ed)%Z = true ->
  cert_check_big E F d en ed xs ws = true ->
  forall (a b : R) (cs : list C), (length cs <= S d)%nat ->
  Cmod (Cminus (apply_rule Rops (gq_transfer Rops (big_rule E F xs ws) a b) (cpeval Rops cs)) (cpint Rops cs a b))
    <= IZR en / IZR ed * Rabs (tr_u a b) * scale_cmod cs (tr_M a b).
Proof. exact certified_rule_exact. Qed.

(* ---- the external-integrator arms of Integrator::integrate / integrate2d are TRANSLATED with the crates as oracles.
   Gauss-Legendre: for every table of fixed linear rules ([rule_oracle table] applies table n with gauss-quad's affine
   transfer) the generated adapters — two real passes, re/im recombination, degree.max(2), nesting order — are the rule and
   the tensor rule *)
Theorem C12_gl_adapter_is_rule : forall (table : Z -> rule Rops) (func : R -> C) (a b : R) degree,
  integrate_GaussLegendre Rops (rule_oracle Rops table) func a b degree =
  apply_rule Rops (gq_transfer Rops (table (gl_points degree)) a b) func.
Proof. exact gl_adapter_is_rule. Qed.

Theorem C12_gl_adapter_2d_is_rule : forall (table : Z -> rule Rops) (func : R -> R -> C) (a b c d : R) degree,
  integrate2d_GaussLegendre Rops (rule_oracle Rops table) func a b c d degree =
  apply_rule2 Rops (tensor Rops (gq_transfer Rops (table (gl_points degree)) a b) (gq_transfer Rops (table (gl_points degree)) c d)) func.
Proof. exact gl_adapter_2d_is_rule. Qed.

Theorem C12_gl_adapter_exact : forall (table : Z -> rule Rops) (degree : Z) (d : nat) (eps : R),
  (forall k, (k <= d)%nat -> Rabs (moment (table (gl_points degree)) k - leg_moment k) <= eps) ->
  forall (a b : R) (cs : list C), (length cs <= S d)%nat ->
  Cmod (Cminus (integrate_GaussLegendre Rops (rule_oracle Rops table) (cpeval Rops cs) a b degree) (cpint Rops cs a b))
    <= eps * Rabs (tr_u a b) * scale_cmod cs (tr_M a b).
Proof. exact gl_adapter_exact. Qed.

Theorem C12_gl_adapter_linear : forall (table : Z -> rule Rops) (degree : Z) (alpha beta : C) (f g : R -> C) (a b : R),
  integrate_GaussLegendre Rops (rule_oracle Rops table) (fun x => Cplus (Cmult alpha (f x)) (Cmult beta (g x))) a b degree =
  Cplus (Cmult alpha (integrate_GaussLegendre Rops (rule_oracle Rops table) f a b degree))
        (Cmult beta (integrate_GaussLegendre Rops (rule_oracle Rops table) g a b degree)).
Proof. exact gl_adapter_linear. Qed.

Theorem C12_gl_adapter_2d_separable : forall (table : Z -> rule Rops) (degree : Z) (p q : R -> C) (a b c d : R),
  integrate2d_GaussLegendre Rops (rule_oracle Rops table) (fun x y => Cmult (p x) (q y)) a b c d degree =
  Cmult (integrate_GaussLegendre Rops (rule_oracle Rops table) p a b degree)
        (integrate_GaussLegendre Rops (rule_oracle Rops table) q c d degree).
Proof. exact gl_adapter_2d_separable. Qed.

(* Clenshaw-Curtis and Gauss-Kronrod: what the generated adapters hand to the external integrators (any oracle) *)
Theorem C12_cc_gk_adapters : forall (cc : (R -> R) -> R -> R -> R -> R) (gk : R -> nat -> (C -> C) -> C -> C -> C)
    (f : R -> C) (g : R -> R -> C) (a b c d tol : R) iters,
  integrate_ClenshawCurtis Rops cc f a b tol = (cc (fun x => fst (f x)) a b tol, cc (fun x => snd (f x)) a b tol) /\
  integrate2d_ClenshawCurtis Rops cc g a b c d tol =
    (cc (fun x => cc (fun y => fst (g x y)) c d tol) a b tol, cc (fun x => cc (fun y => snd (g x y)) c d tol) a b tol) /\
  integrate_GaussKonrod Rops gk f a b tol iters = gk tol iters (fun z => f (fst z)) (a, 0) (b, 0) /\
  integrate2d_GaussKonrod Rops gk g a b c d tol iters =
    gk tol iters (fun z => gk tol iters (fun w => g (fst z) (fst w)) (c, 0) (d, 0)) (a, 0) (b, 0).
Proof. exact cc_gk_adapters. Qed.

(* 2-D adapter on a product of complex polynomials of degree <= d, from the two 1-D certificate bounds *)
Theorem C12_gl_adapter_2d_exact : forall (table : Z -> rule Rops) (degree : Z) (d : nat) (eps : R),
  (forall k, (k <= d)%nat -> Rabs (moment (table (gl_points degree)) k - leg_moment k) <= eps) ->
  forall (a b c e : R) (cp cq : list C), (length cp <= S d)%nat -> (length cq <= S d)%nat ->
  let Bp := eps * Rabs (tr_u a b) * scale_cmod cp (tr_M a b) in
  let Bq := eps * Rabs (tr_u c e) * scale_cmod cq (tr_M c e) in
  Cmod (Cminus (integrate2d_GaussLegendre Rops (rule_oracle Rops table) (fun x y => Cmult (cpeval Rops cp x) (cpeval Rops cq y)) a b c e degree)
               (Cmult (cpint Rops cp a b) (cpint Rops cq c e)))
    <= Bp * (Cmod (cpint Rops cq c e) + Bq) + Cmod (cpint Rops cp a b) * Bq.
Proof. exact gl_adapter_2d_exact. Qed.

(* ---- smooth oscillatory integrands for a certified rule (Gauss-Legendre given the run's certificate).
   Taylor remainder of exp(it), complex modulus: *)
Theorem C12_taylor_remainder : forall (d : nat) (t : R), Cmod (ER d t, EI d t) <= Rabs t ^ S d / INR (fact (S d)).
Proof. exact taylor_remainder. Qed.

(* moments within eps to degree d, nodes in [-1,1]:  error on exp(ikx) over [-1,1] <= eps sum_{m<=d} |k|^m/m! + (W+2) |k|^(d+1)/(d+1)! *)
Theorem C12_certified_rule_expi : forall (r : rule Rops) (d : nat) (eps k : R),
  (forall m, (m <= d)%nat -> Rabs (moment r m - leg_moment m) <= eps) -> nodes_in_unit r -> k <> 0 ->
  Cmod (Cminus (apply_rule Rops r (expi k)) (expi_int k (-1) 1))
    <= eps * expsum (Rabs k) d + (abs_weight r + 2) * (Rabs k ^ S d / INR (fact (S d))).
Proof. exact certified_rule_expi. Qed.

(* ... and after gauss-quad's affine transfer, with a complex amplitude, on every interval *)
Theorem C12_certified_rule_expi_transfer : forall (r : rule Rops) (d : nat) (eps k : R) (a b : R) (amp : C),
  (forall m, (m <= d)%nat -> Rabs (moment r m - leg_moment m) <= eps) -> nodes_in_unit r -> k <> 0 -> a <> b ->
  let ku := k * tr_u a b in
  Cmod (Cminus (apply_rule Rops (gq_transfer Rops r a b) (fun x => Cmult amp (expi k x))) (Cmult amp (expi_int k a b)))
    <= Cmod amp * Rabs (tr_u a b) * (eps * expsum (Rabs ku) d + (abs_weight r + 2) * (Rabs ku ^ S d / INR (fact (S d)))).
Proof. exact certified_rule_expi_transfer. Qed.

(* the executable form: moment certificate + range check (nodes in [-1,1], weights >= 0) of an extracted dyadic rule,
   both closed by vm_compute in the generated per-rule files of every run *)
Theorem C12_certified_rule_expi_exact : forall (E F : Z) (d : nat) (en ed : Z) (xs ws : list bigZ),
  (0 <=? E)%Z = true -> (0 <=? F)%Z = true -> (0 <? ed)%Z = true ->
  cert_check_big E F d en ed xs ws = true -> range_check_big E xs ws = true ->
  forall (a b k : R) (amp : C), k <> 0 -> a <> b ->
  let ku := k * tr_u a b in
  Cmod (Cminus (apply_rule Rops (gq_transfer Rops (big_rule E F xs ws) a b) (fun x => Cmult amp (expi k x))) (Cmult amp (expi_int k a b)))
    <= Cmod amp * Rabs (tr_u a b) *
       (IZR en / IZR ed * expsum (Rabs ku) d + (4 + IZR en / IZR ed) * (Rabs ku ^ S d / INR (fact (S d)))).
Proof. exact certified_rule_expi_exact. Qed.

(* ---- adaptive Simpson *)
Theorem C12_adaptive_cubic_exact : forall (cs : list C) (a b eps : R) d, a <= b -> (length cs <= 4)%nat ->
  simpson_adaptive Rops (cpeval Rops cs) a b eps d = cpint Rops cs a b.
Proof. exact simpson_adaptive_cubic_exact. Qed.

(* 2-D adaptive Simpson (nested) on a product of complex cubics: exact, hence equal to the product of the 1-D results *)
Theorem C12_adaptive_2d_bicubic_exact : forall (cp cq : list C) (ax bx ay by_ eps : R) d,
  ax <= bx -> ay <= by_ -> (length cp <= 4)%nat -> (length cq <= 4)%nat ->
  simpson_adaptive_2d Rops (fun x y => Cmult (cpeval Rops cp x) (cpeval Rops cq y)) ax bx ay by_ eps d =
  Cmult (cpint Rops cp ax bx) (cpint Rops cq ay by_).
Proof. exact simpson_adaptive_2d_bicubic_exact. Qed.

(* the 2-D form is the nest of two 1-D adaptive integrations: tolerance and depth reach BOTH levels unchanged (values and
   integrand-call counts) *)
Theorem C12_adaptive_2d_nest : forall (f : R -> R -> C) (ax bx ay by_ eps : R) d,
  simpson_adaptive_2d Rops f ax bx ay by_ eps d =
  simpson_adaptive Rops (fun x => simpson_adaptive Rops (fun y => f x y) ay by_ eps d) ax bx eps d /\
  simpson_adaptive_2d_calls Rops f (fun _ _ => 1%nat) ax bx ay by_ eps d =
  simpson_adaptive_calls Rops (fun x => simpson_adaptive Rops (fun y => f x y) ay by_ eps d)
    (fun x => simpson_adaptive_calls Rops (fun y => f x y) (fun _ => 1%nat) ay by_ eps d) ax bx eps d.
Proof. exact (fun f ax bx ay by_ eps d => conj (simpson_adaptive_2d_nest f ax bx ay by_ eps d) (simpson_adaptive_2d_calls_nest f ax bx ay by_ eps d)). Qed.

(* the value returned when a panel is accepted is exact up to degree 5 (pins the Richardson constant 15) *)
Theorem C12_adaptive_richardson_quintic : forall (cs : list C) (a b : R), a <= b -> (length cs <= 6)%nat ->
  richardson (cpeval Rops cs) a b = cpint Rops cs a b.
Proof. exact richardson_quintic. Qed.

(* the acceptance test |delta| <= 15 eps bounds the error of the uncorrected two-panel value by eps (degree <= 5) *)
Theorem C12_adaptive_accepted_error : forall (cs : list C) (a b eps : R), a <= b -> (length cs <= 6)%nat ->
  accept (cpeval Rops cs) a b eps = true ->
  Cmod (Cminus (vadd Rops (S3 (cpeval Rops cs) a ((a + b) / 2)) (S3 (cpeval Rops cs) ((a + b) / 2) b)) (cpint Rops cs a b)) <= eps.
Proof. exact accepted_error_quintic. Qed.

(* unfolding used by the two statements above: what one level of the translated recursion returns *)
Theorem C12_adaptive_step : forall (f : R -> C) (a b eps : R) d,
  simpson_adaptive Rops f a b eps (S d) =
  if stop eps a b then S3 f a b
  else if accept f a b eps then richardson f a b
  else vadd Rops (simpson_adaptive Rops f a ((a + b) / 2) (eps / 2) d) (simpson_adaptive Rops f ((a + b) / 2) b (eps / 2) d).
Proof. exact simpson_adaptive_step. Qed.

(* termination / bounded work: EVERY integrand, interval, tolerance *)
Theorem C12_adaptive_terminates : forall (f : R -> C) (a b eps : R) d,
  (simpson_adaptive_calls Rops f (fun _ => 1%nat) a b eps d <= 2 ^ (d + 1) + 1)%nat.
Proof. exact simpson_adaptive_terminates. Qed.

Theorem C12_adaptive_2d_terminates : forall (f : R -> R -> C) (ax bx ay by_ eps : R) d,
  (simpson_adaptive_2d_calls Rops f (fun _ _ => 1%nat) ax bx ay by_ eps d <= (2 ^ (d + 1) + 1) * (2 ^ (d + 1) + 1))%nat.
Proof. exact simpson_adaptive_2d_calls_bound. Qed.

Theorem C12_adaptive_cubic_calls : forall (cs : list C) (a b eps : R) d, a <= b -> 0 <= eps -> (length cs <= 4)%nat ->
  (simpson_adaptive_calls Rops (cpeval Rops cs) (fun _ => 1%nat) a b eps d <= 5)%nat.
Proof. exact simpson_adaptive_cubic_calls. Qed.

(* reversal: every integrand, tolerance and depth; either axis in 2-D *)
Theorem C12_adaptive_reverse : forall (f : R -> C) (a b eps : R) d,
  simpson_adaptive Rops f b a eps d = Copp (simpson_adaptive Rops f a b eps d).
Proof. exact simpson_adaptive_reverse. Qed.

Theorem C12_adaptive_2d_reverse : forall (f : R -> R -> C) (ax bx ay by_ eps : R) d,
  simpson_adaptive_2d Rops f bx ax ay by_ eps d = Copp (simpson_adaptive_2d Rops f ax bx ay by_ eps d) /\
  simpson_adaptive_2d Rops f ax bx by_ ay eps d = Copp (simpson_adaptive_2d Rops f ax bx ay by_ eps d).
Proof. exact simpson_adaptive_2d_reverse. Qed.

(* ---- the first level of the adaptive recursion (mechanism and exact witness class of known finding F5e).
   With the recursion not stopped, the first level accepts iff |left + right - whole| <= 15 eps; then the Richardson value is
   returned after exactly 5 integrand calls; otherwise (depth >= 2, left half not stopped) at least 7 calls are made. *)
Theorem C12_adaptive_first_level : forall (f : R -> C) (a b eps : R) d, stop eps a b = false ->
  (accept f a b eps = true <-> Cmod (delta f a b) <= 15 * eps) /\
  (accept f a b eps = true ->
     simpson_adaptive Rops f a b eps (S d) = richardson f a b /\
     simpson_adaptive_calls Rops f ones1 a b eps (S d) = 5%nat) /\
  (accept f a b eps = false -> stop (eps / 2) a ((a + b) / 2) = false ->
     (7 <= simpson_adaptive_calls Rops f ones1 a b eps (S (S d)))%nat).
Proof. exact first_level. Qed.

(* any integrand whose five first-level samples coincide is accepted at once, for every eps > 0: result (b - a) f(a) *)
Theorem C12_adaptive_aliased_first_level : forall (f : R -> C) (a b eps : R) (v : C) d,
  a <= b -> 0 < eps -> stop eps a b = false -> samples_equal f a b v ->
  simpson_adaptive Rops f a b eps (S d) = vscale Rops (b - a) v /\
  simpson_adaptive_calls Rops f ones1 a b eps (S d) = 5%nat.
Proof. exact aliased_first_level. Qed.

(* for amp exp(ikx), amp <> 0, the five samples coincide exactly when k (b - a) / 4 is a multiple of 2 pi ... *)
Theorem C12_adaptive_alias_family : forall (amp : C) (k a b : R), amp <> (0, 0) ->
  (samples_equal (cexpi amp k) a b (cexpi amp k a) <-> exists j : Z, k * (b - a) / 4 = 2 * PI * IZR j).
Proof. exact alias_family. Qed.

(* ... and then the method returns (b - a) amp exp(ika) after 5 calls whatever the tolerance, while the integral is 0 *)
Theorem C12_adaptive_alias_family_result : forall (amp : C) (k a b eps : R) (j : Z) d,
  a <= b -> 0 < eps -> stop eps a b = false -> k * (b - a) / 4 = 2 * PI * IZR j ->
  simpson_adaptive Rops (cexpi amp k) a b eps (S d) = vscale Rops (b - a) (cexpi amp k a) /\
  simpson_adaptive_calls Rops (cexpi amp k) ones1 a b eps (S d) = 5%nat /\
  (k <> 0 -> Cmult amp (expi_int k a b) = (0, 0)).
Proof. exact alias_family_result. Qed.

(* ---- accepted parameters: every divs >= 4 (in particular the property's range 4..400) is accepted by both forms, and
   whatever the 1-D form accepts the 2-D form accepts — for ALL divs, no parity hypothesis *)
Theorem C12_accept_from4 : forall d, (4 <= d)%Z -> simpson_accepts d = true /\ simpson2d_accepts d = true.
Proof. exact accept_from4. Qed.

Theorem C12_accept_1d_2d : forall d, simpson_accepts d = true -> simpson2d_accepts d = true.
Proof. exact accept_1d_2d. Qed.

(* the number of divisions actually used stays within 2 of the requested divs (1-D: d-2..d, 2-D: d..d+1), so the textbook
   error bound may be computed from the REQUESTED value *)
Theorem C12_norm_bounds : forall d, (4 <= d)%Z ->
  (d - 2 <= simpson_norm d <= d)%Z /\ (d <= simpson2d_norm d <= d + 1)%Z.
Proof. exact norm_bounds. Qed.

(* accepted parameters give an even number of divisions >= 2 in both forms *)
Theorem C12_accept_norm : forall d,
  (simpson_accepts d = true -> Z.even (simpson_norm d) = true /\ (2 <= simpson_norm d)%Z) /\
  (simpson2d_accepts d = true -> Z.even (simpson2d_norm d) = true /\ (2 <= simpson2d_norm d)%Z).
Proof. exact accept_norm. Qed.

(* ---- non-vacuity of the hypotheses used above *)
Example C12_ex_accepts_default : simpson_accepts default_simpson_divs = true /\ simpson2d_accepts default_simpson_divs = true.
Proof. exact (conj eq_refl eq_refl). Qed.
Example C12_ex_sequential_branch : (simpson_norm 50 < 128)%Z /\ simpson_accepts 50 = true.
Proof. split; reflexivity. Qed.
Example C12_ex_even : Z.even 48 = true /\ simpson_accepts 4 = true /\ simpson2d_accepts 5 = true.
Proof. exact (conj eq_refl (conj eq_refl eq_refl)). Qed.
Example C12_ex_cert : cert_check_big 0 0 1 0 1 (BigZ.zero :: nil) (BigZ.two :: nil) = true.
Proof. exact cert_example. Qed.
Example C12_ex_moments : forall k, (k <= 1)%nat ->
  Rabs (moment (big_rule 0 0 (BigZ.zero :: nil) (BigZ.two :: nil)) k - leg_moment k) <= IZR 0 / IZR 1.
Proof. exact cert_example_moments. Qed.
(* the same two hypotheses on a real rule: binary64 3-point Gauss-Legendre, degree 5, 1e-13 *)
Example C12_ex_cert_gl3 : cert_check_big 106 52 5 1 (10 ^ 13) gl3_xs gl3_ws = true.
Proof. exact cert_example_gl3. Qed.
Example C12_ex_moments_gl3 : forall k, (k <= 5)%nat ->
  Rabs (moment (big_rule 106 52 gl3_xs gl3_ws) k - leg_moment k) <= IZR 1 / IZR (10 ^ 13).
Proof. exact cert_example_gl3_moments. Qed.
Example C12_ex_range_gl3 : range_check_big 106 gl3_xs gl3_ws = true.
Proof. exact range_example_gl3. Qed.
Example C12_ex_accept_step : accept (fun _ => (0, 0)) 0 1 1 = true.
Proof. exact accept_zero_example. Qed.

Example C12_ex_not_stopped : stop 1 0 1 = false.
Proof. exact stop_example. Qed.

Print Assumptions C12_poly_integral.
Print Assumptions C12_simpson_is_rule.
Print Assumptions C12_simpson_rule_exact.
Print Assumptions C12_simpson_exact.
Print Assumptions C12_simpson_reverse.
Print Assumptions C12_simpson_linear.
Print Assumptions C12_simpson_calls.
Print Assumptions C12_simpson_binary64.
Print Assumptions C12_float_constants.
Print Assumptions C12_simpson_expi_bound.
Print Assumptions C12_expi_integral.
Print Assumptions C12_simpson2d_is_tensor.
Print Assumptions C12_simpson2d_separable.
Print Assumptions C12_simpson2d_exact_bicubic.
Print Assumptions C12_simpson2d_product_of_1d.
Print Assumptions C12_simpson2d_reverse.
Print Assumptions C12_simpson2d_linear.
Print Assumptions C12_simpson2d_calls.
Print Assumptions C12_dispatch.
Print Assumptions C12_linear.
Print Assumptions C12_linear_2d.
Print Assumptions C12_tensor.
Print Assumptions C12_rule_certificate.
Print Assumptions C12_rule_certificate_transfer.
Print Assumptions C12_transfer_scale.
Print Assumptions C12_rule_certificate_reverse.
Print Assumptions C12_certified_rule_exact.
Print Assumptions C12_gl_adapter_is_rule.
Print Assumptions C12_gl_adapter_2d_is_rule.
Print Assumptions C12_cc_gk_adapters.
Print Assumptions C12_gl_adapter_exact.
Print Assumptions C12_gl_adapter_linear.
Print Assumptions C12_gl_adapter_2d_separable.
Print Assumptions C12_gl_adapter_2d_exact.
Print Assumptions C12_taylor_remainder.
Print Assumptions C12_certified_rule_expi.
Print Assumptions C12_certified_rule_expi_transfer.
Print Assumptions C12_certified_rule_expi_exact.
Print Assumptions C12_simpson2d_expi_bound.
Print Assumptions C12_adaptive_cubic_exact.
Print Assumptions C12_adaptive_2d_bicubic_exact.
Print Assumptions C12_adaptive_2d_nest.
Print Assumptions C12_adaptive_richardson_quintic.
Print Assumptions C12_adaptive_accepted_error.
Print Assumptions C12_adaptive_step.
Print Assumptions C12_adaptive_terminates.
Print Assumptions C12_adaptive_2d_terminates.
Print Assumptions C12_adaptive_cubic_calls.
Print Assumptions C12_adaptive_reverse.
Print Assumptions C12_adaptive_2d_reverse.
Print Assumptions C12_adaptive_first_level.
Print Assumptions C12_adaptive_aliased_first_level.
Print Assumptions C12_adaptive_alias_family.
Print Assumptions C12_adaptive_alias_family_result.
Print Assumptions C12_accept_from4.
Print Assumptions C12_accept_1d_2d.
Print Assumptions C12_norm_bounds.
Print Assumptions C12_accept_norm.
