(* C18 — property theorems.  Statements, `exact` proofs, non-vacuity examples and Print Assumptions only.
   setter_table / get_setter / config_num / config_opaque / config_poling / spdc_iter_* are GENERATED from
   src/spdc/spdc_iter.rs, src/beam/mod.rs, src/spdc/spdc_obj.rs, src/spdc/config/mod.rs, src/utils.rs on every run (Gen/Sweep.v);
   spec_table / si_of / config_key are the hand-pinned table of the 25 documented paths (Spec/SweepPaths.v); ideal_set is the
   hand-written "write this slot, touch nothing else" (Model/Sweep.v).  snell / csign are the two external kernels (Snell search,
   poling sign) — every theorem holds for all of them.
   Three defects found by this check were repaired in /repo (frequency_thz factor 2 pi: c033754; poling period on an unpoled base:
   7f110fb; sign of a negative external angle: 6fcae16); the theorems are stated at full strength for the repaired code. *)
From Coq Require Import Reals List String.
From SpdVerif Require Import Base.Rx Base.PolingBase Gen.Poling Gen.Sweep Spec.SweepPaths Model.Sweep
  Proofs.C18_table Proofs.C18_frame Proofs.C18_sweep Proofs.C18_all Proofs.C18_external Proofs.C18_normspectrum.
From SpdVerif Require Base.CfgNumOps Model.NumInst Model.ConfigTypes Model.Config Model.NormSpectrum.
From SpdVerif Require Model.Optics Model.Fresnel Gen.Beam.
Import ListNotations.
Local Open Scope R_scope.

(* the code supports exactly the documented paths, each once *)
Theorem C18_paths : forall snell csign,
  incl (map fst (setter_table snell csign)) (map fst spec_table) /\ incl (map fst spec_table) (map fst (setter_table snell csign)) /\
  NoDup (map fst (setter_table snell csign)) /\ List.length (setter_table snell csign) = 25%nat.
Proof. exact paths_same. Qed.

(* unknown strings are rejected (Rust: Err("Unknown property: …")), documented ones accepted *)
Theorem C18_unknown : forall snell csign p, get_setter snell csign p = None <-> ~ In p (map fst spec_table).
Proof. exact unknown_rejected. Qed.

(* each of the 25 setters is "write the named slot with the value converted from the path's unit" (THz: 2 pi v 1e12 rad/s) *)
Theorem C18_setters_match : forall snell csign p sl u, In (p, (sl, u)) spec_table ->
  exists f, get_setter snell csign p = Some f /\ forall s v, f s v = ideal_set snell csign sl (si_of u v) s.
Proof. exact setters_match. Qed.

(* frame: nothing but the named configuration field changes (external angle: on a beam with normalised azimuth) *)
Theorem C18_frame : forall snell csign p sl u, In (p, (sl, u)) spec_table ->
  exists f, get_setter snell csign p = Some f /\ forall s v, slot_guard sl s ->
    config_opaque (f s v) = config_opaque s /\
    (sl <> SPolingPeriod -> config_poling (f s v) = config_poling s) /\
    agree_except (config_key sl) (config_num (f s v)) (config_num s).
Proof. exact frame_all. Qed.

(* value: the named field shows the requested value, rounded to 4 decimals like every field of the view (an external angle shows the Snell-equivalent internal angle; a frequency shows as the vacuum wavelength
   c / (v 1e12) in nm).  Guards: internal polar angle in (-180, 180], azimuth in [0, 360), wavelength / frequency non-zero, Snell result
   in (-pi, pi]. *)
Theorem C18_value : forall snell csign p sl u, In (p, (sl, u)) spec_table -> sl <> SPolingPeriod ->
  exists f, get_setter snell csign p = Some f /\ forall s v, value_guard snell sl u v s ->
    assoc (config_key sl) (config_num (f s v)) = Some (expected_value snell sl u v s).
Proof. exact value_all. Qed.

(* external angle, BOTH signs, against the Snell search as generated for C13 (Gen/Beam.v): the generated setter with its Snell oracle
   instantiated by the generated calc_internal_theta_from_external (nm = the Nelder-Mead kernel, index = the crystal's index along a
   direction for this beam's wavelength and polarization).  With e = v deg: IF the optimiser returns a magnitude th in [0, pi/2] with
   residual <= r, THEN the stored internal angle is sign(e) * th (so it has the sign of the request), it satisfies Snell's law within
   r on that side of the azimuth plane, | |sin e| - n(sign(e) th) sin th | <= r, the view shows it in degrees (4 decimals), and the
   azimuth is untouched.  PARTIAL: convergence of the simplex is checked per input (the read-back bound r / cos M is C13's
   C13_snell_roundtrip_partial; the harness reads the external angle back for every sampled value, both signs). *)
Theorem C18_external_angle_partial : forall nm index pol csign p b, In (p, (SBeamThetaExternal b, UDeg)) spec_table ->
  exists f, get_setter (snell_of nm index pol) csign p = Some f /\ forall s v r,
    let bm := get_beam b s in
    let e := v * (PI / 180) in
    let n_along := index (s_crystal_setup s) bm in
    let th := theta_mag nm n_along (to13 pol bm) e in
    0 <= b_phi bm < 2 * PI ->
    0 <= th <= PI / 2 ->
    Gen.Beam.snell_cost_gen n_along (to13 pol bm) e th <= r ->
    let bm' := get_beam b (f s v) in
    b_theta bm' = signum e * th /\ (0 <= v -> 0 <= b_theta bm') /\ (v < 0 -> b_theta bm' <= 0) /\
    b_phi bm' = b_phi bm /\
    Rabs (Rabs (sin e) - n_along (Model.Optics.normalize (Model.Fresnel.polar_dir (b_phi bm') (b_theta bm'))) * sin (Rabs (b_theta bm'))) <= r /\
    assoc (config_key (SBeamThetaExternal b)) (config_num (f s v)) = Some (round4 (b_theta bm' / (PI / 180))).
Proof. exact external_contract. Qed.

(* THz = 1e12 cycles per second: the stored angular frequency is 2 pi v 1e12 rad/s *)
Theorem C18_frequency_thz : forall snell csign p b, In (p, (SBeamFrequency b, UThz)) spec_table ->
  exists f, get_setter snell csign p = Some f /\ forall s v, b_frequency (get_beam b (f s v)) = 2 * PI * (v * 1e12).
Proof. exact frequency_stored. Qed.

(* poling period, on ANY base: numeric and opaque views untouched; the view shows |v| um; the stored magnitude is positive and the
   sign is the automatically derived one; a poled base keeps its apodization, an unpoled one becomes poled without apodization *)
Theorem C18_poling_period : forall snell csign,
  exists f, get_setter snell csign "periodic_poling.poling_period_um" = Some f /\
    (forall s v, config_num (f s v) = config_num s /\ config_opaque (f s v) = config_opaque s) /\
    (forall p sg ap s v, s_pp s = On p sg ap -> v <> 0 ->
       config_poling (f s v) = Some (round4 (Rabs v), apod_to_config ap) /\
       exists m, s_pp (f s v) = On m (csign (s_signal s) (s_pump s) (s_crystal_setup s)) ap /\ 0 < m /\ m = Rabs v * 1e-6) /\
    (forall s v, s_pp s = Off -> v <> 0 ->
       config_poling (f s v) = Some (round4 (Rabs v), CfgOff) /\
       exists m, s_pp (f s v) = On m (csign (s_signal s) (s_pump s) (s_crystal_setup s)) ApOff /\ 0 < m /\ m = Rabs v * 1e-6).
Proof. exact poling_all. Qed.

(* SPDCIter::try_new (generated): accepted iff both paths are documented; the first path's setter is the first component *)
Theorem C18_try_new : forall snell csign spdc0 p1 p2,
  spdc_iter_try_new snell csign spdc0 p1 p2 =
  match get_setter snell csign p1, get_setter snell csign p2 with
  | Some s1, Some s2 => Some (spdc0, (s1, s2))
  | _, _ => None
  end.
Proof. exact try_new_spec. Qed.

(* sweep (generated SPDCIter::into_iter over the generated Iterator2D): nx * ny setups; setup j * nx + i is the base with the FIRST
   setter applied first at value i of the first axis, then the second setter at value j of the second axis (first parameter fastest) *)
Theorem C18_order : forall base setter1 setter2 x0 x1 nx y0 y1 ny,
  List.length (spdc_iter_into_iter base setter1 setter2 x0 x1 nx y0 y1 ny) = (nx * ny)%nat /\
  (forall i j d, (i < nx)%nat -> (j < ny)%nat ->
     nth (j * nx + i) (spdc_iter_into_iter base setter1 setter2 x0 x1 nx y0 y1 ny) d =
     setter2 (setter1 base (axis_value x0 x1 nx i)) (axis_value y0 y1 ny j)) /\
  (forall k, (k < nx * ny)%nat -> exists i j, (i < nx)%nat /\ (j < ny)%nat /\ k = (j * nx + i)%nat).
Proof.
  exact (fun base s1 s2 x0 x1 nx y0 y1 ny =>
    conj (setups_length base s1 s2 x0 x1 nx y0 y1 ny)
      (conj (fun i j d Hi Hj => setups_nth base s1 s2 x0 x1 nx y0 y1 ny i j d Hi Hj) (index_decompose nx ny))).
Qed.

Theorem C18_grid : forall a b n,
  axis_value a b n 0 = a /\ ((1 < n)%nat -> axis_value a b n (n - 1) = b) /\
  (forall i, (1 < n)%nat -> axis_value a b n (S i) - axis_value a b n i = (b - a) / INR (n - 1)) /\
  (forall i, axis_value a b 1 i = a).
Proof. exact (fun a b n => conj (axis_first a b n) (conj (axis_last a b n) (conj (fun i H => axis_step a b n i H) (axis_single a b)))). Qed.

(* swept spectrum values (generated SPDCIter::jsi_values; jsa2 = |jsa_raw|^2 and nrm = jsi_normalization are the spectrum kernels):
   nx * ny values; value j * nx + i is the centre value of the individually constructed setup *)
Theorem C18_values : forall base setter1 setter2 jsa2 nrm x0 x1 nx y0 y1 ny,
  List.length (spdc_iter_jsi_values jsa2 nrm base setter1 setter2 x0 x1 nx y0 y1 ny) = (nx * ny)%nat /\
  forall i j d, (i < nx)%nat -> (j < ny)%nat ->
    nth (j * nx + i) (spdc_iter_jsi_values jsa2 nrm base setter1 setter2 x0 x1 nx y0 y1 ny) d =
    centre_value jsa2 nrm (setter2 (setter1 base (axis_value x0 x1 nx i)) (axis_value y0 y1 ny j)).
Proof.
  exact (fun base s1 s2 jsa2 nrm x0 x1 nx y0 y1 ny =>
    conj (values_length base s1 s2 jsa2 nrm x0 x1 nx y0 y1 ny)
         (fun i j d Hi Hj => values_nth base s1 s2 jsa2 nrm x0 x1 nx y0 y1 ny i j d Hi Hj)).
Qed.

(* the same for the setters the code actually installs: for any two documented paths try_new succeeds, setup j * nx + i is "slot 1 := value
   i of the first axis in path 1's unit, THEN slot 2 := value j of the second axis", and the swept spectrum value is that setup's *)
Theorem C18_sweep_paths : forall snell csign p1 sl1 u1 p2 sl2 u2,
  In (p1, (sl1, u1)) spec_table -> In (p2, (sl2, u2)) spec_table ->
  forall base, exists s1 s2,
    spdc_iter_try_new snell csign base p1 p2 = Some (base, (s1, s2)) /\
    forall jsa2 nrm x0 x1 nx y0 y1 ny i j d, (i < nx)%nat -> (j < ny)%nat ->
      nth (j * nx + i) (spdc_iter_into_iter base s1 s2 x0 x1 nx y0 y1 ny) base =
        ideal_set snell csign sl2 (si_of u2 (axis_value y0 y1 ny j)) (ideal_set snell csign sl1 (si_of u1 (axis_value x0 x1 nx i)) base) /\
      nth (j * nx + i) (spdc_iter_jsi_values jsa2 nrm base s1 s2 x0 x1 nx y0 y1 ny) d =
        centre_value jsa2 nrm (ideal_set snell csign sl2 (si_of u2 (axis_value y0 y1 ny j))
                                 (ideal_set snell csign sl1 (si_of u1 (axis_value x0 x1 nx i)) base)).
Proof. exact sweep_paths. Qed.

(* normalised sweep (generated SPDCIter::jsi_values_normalized; opt_of = SPDC::try_as_optimum as an oracle): it panics (None) iff the
   base cannot be optimised; otherwise every value is the raw swept value divided by the reference at the optimised BASE's centre *)
Theorem C18_values_normalized : forall base setter1 setter2 jsa2 nrm opt_of x0 x1 nx y0 y1 ny,
  (opt_of base = None ->
     spdc_iter_jsi_values_normalized jsa2 nrm opt_of base setter1 setter2 x0 x1 nx y0 y1 ny = None) /\
  (forall opt, opt_of base = Some opt -> reference jsa2 nrm opt <> 0 ->
     spdc_iter_jsi_values_normalized jsa2 nrm opt_of base setter1 setter2 x0 x1 nx y0 y1 ny =
     Some (map (fun v => v / reference jsa2 nrm opt) (spdc_iter_jsi_values jsa2 nrm base setter1 setter2 x0 x1 nx y0 y1 ny))).
Proof.
  exact (fun base s1 s2 jsa2 nrm opt_of x0 x1 nx y0 y1 ny =>
    conj (normalized_none base s1 s2 jsa2 nrm opt_of x0 x1 nx y0 y1 ny)
         (fun opt H Hr => normalized_some base s1 s2 jsa2 nrm opt_of x0 x1 nx y0 y1 ny opt H Hr)).
Qed.

(* the generated sweep spectra ARE C20's modelled ones (Model/NormSpectrum.v, where try_as_optimum is the modelled optimisation):
   for every translation tr of setups between the two record models compatible with the kernels (centre frequencies, |jsa_raw|^2,
   jsi_normalization) and every base whose optimum the oracle and the model agree on *)
Theorem C18_values_are_C20_model : forall K minpos op oi jsa_raw norm_jsi freq jsa2 nrm opt_of tr,
  (forall s, Model.NormSpectrum.center freq (tr s) = (b_frequency (s_signal s), b_frequency (s_idler s))) ->
  (forall s ws wi, (Coquelicot.Complex.Cmod (jsa_raw (tr s) ws wi)) ^ 2 = jsa2 ws wi s) ->
  (forall s ws wi, norm_jsi (tr s) ws wi = nrm ws wi s) ->
  forall base setter1 setter2 x0 x1 nx y0 y1 ny,
  Model.NormSpectrum.jsi_values jsa_raw norm_jsi freq (map tr (spdc_iter_into_iter base setter1 setter2 x0 x1 nx y0 y1 ny)) =
    spdc_iter_jsi_values jsa2 nrm base setter1 setter2 x0 x1 nx y0 y1 ny /\
  (forall opt nf, opt_of base = Some opt ->
     Model.Config.try_as_optimum Model.NumInst.R_ops K minpos op oi (tr base) = Model.ConfigTypes.Ok (tr opt, nf) ->
     Model.NormSpectrum.jsi_values_normalized K minpos op oi jsa_raw norm_jsi freq (tr base)
       (map tr (spdc_iter_into_iter base setter1 setter2 x0 x1 nx y0 y1 ny)) =
     match spdc_iter_jsi_values_normalized jsa2 nrm opt_of base setter1 setter2 x0 x1 nx y0 y1 ny with
     | Some l => Model.ConfigTypes.Ok l
     | None => Model.ConfigTypes.Panic Model.ConfigTypes.SiteOptimumUnwrap
     end).
Proof.
  exact (fun K minpos op oi jsa_raw norm_jsi freq jsa2 nrm opt_of tr Hc Hj Hn base s1 s2 x0 x1 nx y0 y1 ny =>
    conj (raw_values_agree jsa_raw norm_jsi freq jsa2 nrm tr Hc Hj Hn base s1 s2 x0 x1 nx y0 y1 ny)
         (fun opt nf Hg H20 => normalized_agree K minpos op oi jsa_raw norm_jsi freq jsa2 nrm opt_of tr Hc Hj Hn base s1 s2 x0 x1 nx y0 y1 ny opt nf Hg H20)).
Qed.

(* ---- non-vacuity ---- *)
Example C18_nonvacuous_entry : In ("signal.wavelength_nm"%string, (SBeamWavelength BSignal, UNm)) spec_table /\
  In ("pump.frequency_thz"%string, (SBeamFrequency BPump, UThz)) spec_table /\ SBeamWavelength BSignal <> SPolingPeriod.
Proof. repeat split; try discriminate; cbn; tauto. Qed.

Example C18_nonvacuous_guards : forall snell s,
  value_guard snell (SBeamTheta BSignal) UDeg 2.5 s /\ value_guard snell (SBeamPhi BIdler) UDeg 180 s /\
  value_guard snell (SBeamWavelength BPump) UNm 775 s /\ value_guard snell (SBeamFrequency BSignal) UThz 200 s /\ slot_guard SCrystalTheta s.
Proof. intros. cbn. repeat split; Lra.lra. Qed.

Example C18_nonvacuous_external : In ("signal.theta_external_deg"%string, (SBeamThetaExternal BSignal, UDeg)) spec_table /\
  0 <= 1 * (PI / 180) <= PI / 2.
Proof. pose proof PI_RGT_0. split; [cbn; tauto|]. Lra.lra. Qed.

Example C18_nonvacuous_beam : beam_ok (mk_beam (mk_beam_waist 1e-4 1e-4) 1.2e15 0%nat 0 0).
Proof. unfold beam_ok. cbn. pose proof PI_RGT_0. Lra.lra. Qed.

Print Assumptions C18_paths.
Print Assumptions C18_unknown.
Print Assumptions C18_setters_match.
Print Assumptions C18_frame.
Print Assumptions C18_value.
Print Assumptions C18_poling_period.
Print Assumptions C18_external_angle_partial.
Print Assumptions C18_frequency_thz.
Print Assumptions C18_try_new.
Print Assumptions C18_order.
Print Assumptions C18_grid.
Print Assumptions C18_values.
Print Assumptions C18_sweep_paths.
Print Assumptions C18_values_normalized.
Print Assumptions C18_values_are_C20_model.
