(* C07 — property theorems.  Statements, `exact` proofs, non-vacuity Examples and Print Assumptions only.
   Every function named here (common_norm, jsi_normalization, pump_spectral_amplitude, invalid_frequencies, jsa_raw,
   spectrum_jsi, efficiencies_from_counts, ...) is GENERATED from the Rust source on every run (Gen/Spectrum.v,
   Gen/Efficiencies.v); `setup` (Model/SpectrumSetup.v) is the record of the SPDC fields that code reads plus the
   untranslated kernels as oracle fields; `scale_setup a b s` multiplies power by a and deff by b. *)
From Coq Require Import Reals Bool List String.
From SpdVerif Require Import Base.Rx Model.SpectrumSetup Gen.Spectrum Gen.Efficiencies Model.Spectrum
  Spec.Normalization
  Proofs.C07_scaling Proofs.C07_envelope Proofs.C07_support Proofs.C07_defined Proofs.C07_spec Proofs.C07_examples.
From SpdVerif Require Import Spec.CrystalTypes Gen.Crystals Proofs.Sellmeier Model.Optics Model.Fresnel Proofs.Compose_index Proofs.C07_builtin.
From Coquelicot Require Import Coquelicot.
From SpdVerif Require Import Model.PMParams Gen.PMIntegrand Proofs.C07_counts Proofs.C07_frame.
From SpdVerif Require Import Model.FinSum Model.Hom Model.Hom2 Model.Schmidt Gen.HomSrc Proofs.C07_ratios Proofs.C07_examples2.
Local Open Scope R_scope.

(* ---------- 1. linearity in power, quadratic in deff; for ALL inputs (no side condition) *)
Theorem C07_norm_linear : forall a b ws wi s,
  common_norm ws wi (scale_setup a b s) = a * b ^ 2 * common_norm ws wi s /\
  jsi_normalization ws wi (scale_setup a b s) = a * b ^ 2 * jsi_normalization ws wi s /\
  jsi_singles_normalization ws wi (scale_setup a b s) = a * b ^ 2 * jsi_singles_normalization ws wi s.
Proof. exact (fun a b ws wi s => conj (common_norm_linear a b ws wi s) (conj (jsi_normalization_linear a b ws wi s) (jsi_singles_normalization_linear a b ws wi s))). Qed.

(* derived from the GENERATED read sets (Gen/Spectrum.v: reads_f = fields of `setup` the translated body of f reads, directly
   or through translated callees): a function takes the same value on setups agreeing on its read set (Proofs/C07_frame.v),
   the read sets of the raw functions contain neither power nor deff, scale_setup changes only these two fields *)
Theorem C07_raw_read_sets :
  forall l, In l (reads_pump_spectral_amplitude :: reads_invalid_frequencies :: reads_jsa_raw :: reads_jsi_singles_raw :: nil) ->
  ~ In "power"%string l /\ ~ In "deff"%string l.
Proof. exact raw_reads_no_power_deff. Qed.

Theorem C07_raw_independent : forall a b ws wi s,
  jsa_raw ws wi (scale_setup a b s) = jsa_raw ws wi s /\
  jsi_singles_raw ws wi (scale_setup a b s) = jsi_singles_raw ws wi s /\
  pump_spectral_amplitude ws (scale_setup a b s) = pump_spectral_amplitude ws s /\
  invalid_frequencies ws wi (scale_setup a b s) = invalid_frequencies ws wi s.
Proof. exact raw_independent_from_reads. Qed.

Theorem C07_spectra_linear : forall a b ws wi s,
  spectrum_jsi ws wi (scale_setup a b s) = a * b ^ 2 * spectrum_jsi ws wi s /\
  spectrum_jsi_singles ws wi (scale_setup a b s) = a * b ^ 2 * spectrum_jsi_singles ws wi s.
Proof. exact (fun a b ws wi s => conj (spectrum_jsi_linear a b ws wi s) (spectrum_jsi_singles_linear a b ws wi s)). Qed.

Theorem C07_amplitude_scales : forall a b ws wi s,
  0 <= a -> 0 <= jsi_normalization ws wi s ->
  spectrum_jsa ws wi (scale_setup a b s) = cscale (sqrt a * Rabs b) (spectrum_jsa ws wi s).
Proof. exact spectrum_jsa_scale. Qed.

Theorem C07_counts_linear : forall a b corr pts dw2 s sw,
  counts_coincidences corr pts dw2 (scale_setup a b s) = a * b ^ 2 * counts_coincidences corr pts dw2 s /\
  counts_singles_signal corr pts dw2 (scale_setup a b s) = a * b ^ 2 * counts_singles_signal corr pts dw2 s /\
  counts_singles_idler corr pts dw2 (scale_setup a b sw) = a * b ^ 2 * counts_singles_idler corr pts dw2 sw.
Proof. exact (fun a b corr pts dw2 s sw => conj (counts_coincidences_linear a b corr pts dw2 s) (conj (counts_singles_signal_linear a b corr pts dw2 s) (counts_singles_idler_linear a b corr pts dw2 sw))). Qed.

(* the GENERATED rendering of src/spdc/counts.rs (Gen/PMIntegrand.v, emitted only while the three Rust bodies keep the shape
   `dw2 = dws * dwi; correction * Σ spectrum * dw2`): generated correction factor x grid sum of the generated per-point
   spectrum x cell area; the cell area is the product of the two generated division widths (Gen/Grid.v); any rate of this
   shape is linear in the per-point spectrum.  No hypotheses. *)
Theorem C07_counts_match_generated : forall (Q : (R -> C) -> R -> R -> C) (jsis : pm_params -> R) (S Ssw : R -> R -> pm_params) (p0 : pm_params)
    pts xs xe nx ys ye ny,
  let dw2 := cell_area xs xe nx ys ye ny in
  dw2 = (xe - xs) / INR (nx - 1) * ((ye - ys) / INR (ny - 1)) /\
  pm_counts_coincidences Q S p0 pts dw2 = pm_counts_correction p0 * grid_sum (fun ws wi => pm_jsi Q (S ws wi)) pts dw2 /\
  pm_counts_singles_signal jsis S p0 pts dw2 = pm_counts_correction p0 * grid_sum (fun ws wi => jsis (S ws wi)) pts dw2 /\
  pm_counts_singles_idler jsis Ssw p0 pts dw2 = pm_counts_correction p0 * grid_sum (fun ws wi => jsis (Ssw wi ws)) pts dw2.
Proof.
  exact (fun Q jsis S Ssw p0 pts xs xe nx ys ye ny =>
           conj (cell_area_eq xs xe nx ys ye ny) (generated_counts_shape Q jsis S Ssw p0 pts (cell_area xs xe nx ys ye ny))).
Qed.

Theorem C07_rate_shape_linear : forall k corr (f g : R -> R -> R) pts dw2,
  (forall ws wi, f ws wi = k * g ws wi) -> corr * grid_sum f pts dw2 = k * (corr * grid_sum g pts dw2).
Proof. exact shape_linear. Qed.

Theorem C07_cell_area_matters : forall corr f pts dws dwi,
  corr * grid_sum f pts 1 <> 0 -> dws <> 0 -> dws <> dwi ->
  corr * grid_sum f pts (dws * dws) <> corr * grid_sum f pts (dws * dwi).
Proof. exact wrong_cell_area_differs. Qed.

(* ratios are independent of power and deff *)
Theorem C07_efficiencies_invariant : forall a b corr pts dw2 s sw,
  0 < a -> b <> 0 ->
  0 <= counts_singles_signal corr pts dw2 s -> 0 <= counts_singles_idler corr pts dw2 sw ->
  let e := efficiencies_from_counts (counts_coincidences corr pts dw2 s) (counts_singles_signal corr pts dw2 s)
             (counts_singles_idler corr pts dw2 sw) in
  let e' := efficiencies_from_counts (counts_coincidences corr pts dw2 (scale_setup a b s))
             (counts_singles_signal corr pts dw2 (scale_setup a b s)) (counts_singles_idler corr pts dw2 (scale_setup a b sw)) in
  eff_symmetric e' = eff_symmetric e /\ eff_signal e' = eff_signal e /\ eff_idler e' = eff_idler e.
Proof. exact efficiencies_power_deff_invariant. Qed.

Theorem C07_normalized_invariant : forall a b ws wi s so,
  0 < a -> b <> 0 -> 0 <= jsi_normalization (omega_s0 so) (omega_i0 so) so ->
  (center_jsa so <> 0 ->
   spectrum_jsi_normalized ws wi (scale_setup a b s) (center_jsa (scale_setup a b so))
   = spectrum_jsi_normalized ws wi s (center_jsa so)) /\
  (center_jsi_singles so <> 0 ->
   spectrum_jsi_singles_normalized ws wi (scale_setup a b s) (center_jsi_singles (scale_setup a b so))
   = spectrum_jsi_singles_normalized ws wi s (center_jsi_singles so)).
Proof.
  exact (fun a b ws wi s so Ha Hb Hn =>
    conj (jsi_normalized_invariant a b ws wi s so Ha Hb Hn) (jsi_singles_normalized_invariant a b ws wi s so Ha Hb)).
Qed.

(* the normalised AMPLITUDE *)
Theorem C07_jsa_normalized_invariant : forall a b ws wi s so,
  0 < a -> b <> 0 -> 0 <= jsi_normalization ws wi s -> 0 <= jsi_normalization (omega_s0 so) (omega_i0 so) so -> center_jsa so <> 0 ->
  spectrum_jsa_normalized ws wi (scale_setup a b s) (center_jsa (scale_setup a b so))
  = spectrum_jsa_normalized ws wi s (center_jsa so).
Proof. exact jsa_normalized_invariant. Qed.

(* Schmidt number, HOM rate / visibility, two-source HOM rates: the GENERATED definitions of src/math/schmidt.rs and
   src/spdc/hom.rs (Gen/SchmidtSrc.v, Gen/HomSrc.v; their models Model/Schmidt.v, Model/Hom.v, Model/Hom2.v are proved equal to
   the generated ones in Proofs/C09_src.v, C10_src.v, C11_src.v), composed with the GENERATED amplitude
   jsa_fun s = fun ws wi => spectrum_jsa ws wi s, for which jsa_fun (scale_setup a b s) = (sqrt a |b|) · jsa_fun s. *)
Theorem C07_schmidt_invariant : forall a b s g n,
  0 < a -> b <> 0 -> norm_nonneg_on_support s ->
  trG2 ROps n (mag_matrix n (src_jsa_range (jsa_fun s) g)) <> 0 ->
  schmidt_K ROps n (mag_matrix n (src_jsa_range (jsa_fun (scale_setup a b s)) g))
  = schmidt_K ROps n (mag_matrix n (src_jsa_range (jsa_fun s) g)).
Proof. exact schmidt_power_deff_invariant. Qed.

Theorem C07_hom_invariant : forall a b s g taus dt,
  0 < a -> b <> 0 -> norm_nonneg_on_support s ->
  jsi_norm ROps (grid_len g) (tabulate (jsa_fun s) g) <> 0 ->
  src_setup_hom_rate_series (jsa_fun (scale_setup a b s)) g taus = src_setup_hom_rate_series (jsa_fun s) g taus /\
  src_hom_visibility (jsa_fun (scale_setup a b s)) g dt = src_hom_visibility (jsa_fun s) g dt.
Proof. exact generated_hom_power_deff_invariant. Qed.

(* the hypothesis of the three theorems holds for every physical setup with positive indices *)
Theorem C07_norm_nonneg_on_support : forall s,
  physical s -> (forall ws wi, indices_pos s ws wi) -> norm_nonneg_on_support s.
Proof. exact on_support_norm_nonneg. Qed.

(* two sources whose power / deff are scaled INDEPENDENTLY *)
Theorem C07_hom_two_source_invariant : forall a1 b1 a2 b2 s1 s2 ls1 li1 ls2 li2 n dt,
  0 < a1 -> b1 <> 0 -> 0 < a2 -> b2 <> 0 ->
  norm_nonneg_on_support s1 -> norm_nonneg_on_support s2 ->
  jsi_norm ROps (n * n) (tabulate (jsa_fun s1) (axes_grid ls1 li1 n)) * jsi_norm ROps (n * n) (tabulate (jsa_fun s2) (axes_grid ls2 li2 n)) <> 0 ->
  setup_ts_rates (jsa_fun (scale_setup a1 b1 s1)) (jsa_fun (scale_setup a2 b2 s2)) ls1 li1 ls2 li2 n dt
  = setup_ts_rates (jsa_fun s1) (jsa_fun s2) ls1 li1 ls2 li2 n dt.
Proof. exact two_source_power_deff_invariant. Qed.

(* the generated normalisation equals the hand-pinned reference form (Spec/Normalization.v): constants 2pi, c, eps0 in the
   UCUM base, the 2/pi poling coefficient, and the structure Wp^2 (deff L)^2 ws wi/(ns ni)^2 P / sigma; unconditional *)
Theorem C07_norm_matches_spec : forall ws wi s,
  common_norm ws wi s =
  spec_common_norm (pp_off s) (wpx s) (wpy s) (deff s) (len s) (power s)
    (spec_width (spec_omega_of_lambda (omega_p s)) (fwhm s)) ws wi (n_s s ws) (n_i s wi).
Proof. exact common_norm_spec. Qed.

Theorem C07_frequency_conversion_spec : forall l f,
  vacuum_wavelength_to_frequency l = 2 * PI * 299792458 / l /\ frequency_to_vacuum_wavelength l = 2 * PI * 299792458 / l /\
  fwhm_to_spectral_width l f = (2 * PI * 299792458 / (l - f / 2) - 2 * PI * 299792458 / (l + f / 2)) / sqrt (2 * ln 2).
Proof. exact (fun l f => conj (proj1 (conversion_spec l)) (conj (proj2 (conversion_spec l)) (width_spec l f))). Qed.

(* ---------- 2. the Gaussian envelope *)
(* stated under the generated definedness predicate of the envelope: where the Rust code would form 0/0 or x/0 (fwhm = 0,
   fwhm = 2 lambda_p, omega_p = 0) the predicate is false (C07_envelope_undefined_cases), so nothing rests on Coq's total division *)
Theorem C07_envelope_center : forall s, pump_spectral_amplitude_defined (omega_p s) s -> pump_spectral_amplitude (omega_p s) s = 1.
Proof. exact envelope_center_defined. Qed.

Theorem C07_envelope_undefined_cases : forall w s,
  (fwhm s = 2 * lambda_p s -> ~ pump_spectral_amplitude_defined w s) /\ (fwhm s = 0 -> ~ pump_spectral_amplitude_defined w s).
Proof. exact (fun w s => conj (not_defined_at_double_lambda w s) (not_defined_at_zero_bandwidth w s)). Qed.

(* fwhm_span s = ω(λp − ½·fwhm) − ω(λp + ½·fwhm) with the generated wavelength→frequency conversion *)
Theorem C07_envelope_half_max : forall s,
  pump_spectral_amplitude_defined (omega_p s) s ->
  pump_spectral_amplitude (omega_p s + fwhm_span s / 2) s ^ 2 = 1 / 2 /\
  pump_spectral_amplitude (omega_p s - fwhm_span s / 2) s ^ 2 = 1 / 2.
Proof. exact envelope_half_max_defined. Qed.

Theorem C07_envelope_half_max_only : forall d s,
  pump_spectral_amplitude_defined (omega_p s) s -> pump_spectral_amplitude (omega_p s + d) s ^ 2 = 1 / 2 -> Rabs d = Rabs (fwhm_span s / 2).
Proof. exact envelope_half_max_only_defined. Qed.

Theorem C07_envelope_shape : forall w s,
  pump_spectral_amplitude_defined w s ->
  pump_spectral_amplitude w s = exp (- ((w - omega_p s) / spectral_width s) ^ 2) /\ 0 < pump_spectral_amplitude w s <= 1.
Proof. exact (fun w s _ => conj (envelope_gaussian w s) (envelope_range w s)). Qed.

Theorem C07_span_positive : forall s, 0 < omega_p s -> 0 < fwhm s < 2 * lambda_p s -> 0 < fwhm_span s.
Proof. exact fwhm_span_pos. Qed.

Theorem C07_raw_is_envelope_times_phasematching : forall ws wi s,
  invalid_frequencies ws wi s = false -> threshold s <= pump_spectral_amplitude (ws + wi) s ->
  jsa_raw ws wi s = (pump_spectral_amplitude (ws + wi) s * pm_re s ws wi, pump_spectral_amplitude (ws + wi) s * pm_im s ws wi)
  /\ jsi_singles_raw ws wi s = pump_spectral_amplitude (ws + wi) s ^ 2 * pm_singles s ws wi.
Proof. exact jsa_raw_product. Qed.

(* ---------- 3. exact zero off the support *)
Theorem C07_box_exact : forall ws wi s,
  invalid_frequencies ws wi s = true <->
  (ws <= 0 \/ wi <= 0 \/ ws > omega_p s \/ wi > omega_p s \/ Rabs (ws - wi) > 0.75 * omega_p s).
Proof. exact invalid_frequencies_iff. Qed.

Theorem C07_support : forall ws wi s,
  (ws <= 0 \/ wi <= 0 \/ ws > omega_p s \/ wi > omega_p s \/ Rabs (ws - wi) > 0.75 * omega_p s)
  \/ pump_spectral_amplitude (ws + wi) s < threshold s ->
  jsa_raw ws wi s = (0, 0) /\ jsi_singles_raw ws wi s = 0 /\
  spectrum_jsa ws wi s = (0, 0) /\ spectrum_jsi ws wi s = 0 /\ spectrum_jsi_singles ws wi s = 0.
Proof.
  exact (fun ws wi s H => conj (proj1 (off_support_raw_zero ws wi s H)) (conj (proj2 (off_support_raw_zero ws wi s H)) (off_support_spectrum_zero ws wi s H))).
Qed.

Theorem C07_support_normalized : forall ws wi s c,
  off_support ws wi s ->
  spectrum_jsa_normalized ws wi s c = (0, 0) /\ spectrum_jsi_normalized ws wi s c = 0
  /\ spectrum_jsi_singles_normalized ws wi s c = 0.
Proof. exact off_support_normalized_zero. Qed.

Theorem C07_support_tight : forall ws wi s,
  ~ off_support ws wi s -> (pm_re s ws wi <> 0 \/ pm_im s ws wi <> 0) -> jsa_raw ws wi s <> (0, 0).
Proof. exact on_support_raw_nonzero. Qed.

(* ---------- 4. definedness (partial: positivity of the indices is C01/C02's theorem, here a hypothesis; finiteness of
   the fibre-coupling integrals is validated, not proved) *)
Theorem C07_defined_partial : forall ws wi s,
  physical s -> 0 < ws -> 0 < wi -> indices_pos s ws wi ->
  jsi_normalization_defined ws wi s /\ 0 < jsi_normalization ws wi s /\
  jsi_singles_normalization_defined ws wi s /\ 0 < jsi_singles_normalization ws wi s.
Proof. exact normalization_defined_pos. Qed.

Theorem C07_spectrum_defined_partial : forall ws wi s,
  physical s -> (invalid_frequencies ws wi s = false -> indices_pos s ws wi) ->
  spectrum_jsa_defined ws wi s /\ spectrum_jsi_defined ws wi s /\ spectrum_jsi_singles_defined ws wi s /\
  pump_spectral_amplitude_defined (ws + wi) s.
Proof. exact (fun ws wi s H Hn => match spectrum_defined ws wi s H Hn with conj A (conj B C) => conj A (conj B (conj C (envelope_defined (ws + wi) s H))) end). Qed.

(* the FULL definedness clause for the built-in crystals: the index oracles are the code's own computation
   (crystal_index = generated index_along over the generated crystal tables, Proofs/Compose_index.v), so no index hypothesis
   is left.  `physical s` lists setup parameters only (positive pump frequency, 0 < fwhm < 2 lambda_p, positive length / power /
   waists, deff <> 0, external angles inside (-pi/2, pi/2)).  What remains unproved for the property's last clause is only
   the finiteness of the two fibre-coupling integrals themselves. *)
Theorem C07_defined_builtin : forall c T theta phi ds di ps pi_ s ws wi,
  let s' := with_crystal_indices c T theta phi ds di ps pi_ s in
  physical s -> temp_ok T -> unit_vec ds -> unit_vec di ->
  in_window c (lambda_um ws) -> in_window c (lambda_um wi) ->
  indices_pos s' ws wi /\
  pump_spectral_amplitude_defined (ws + wi) s' /\
  jsi_normalization_defined ws wi s' /\ 0 < jsi_normalization ws wi s' /\
  jsi_singles_normalization_defined ws wi s' /\ 0 < jsi_singles_normalization ws wi s' /\
  spectrum_jsa_defined ws wi s' /\ spectrum_jsi_defined ws wi s' /\ spectrum_jsi_singles_defined ws wi s'.
Proof. exact defined_builtin. Qed.

(* ---------- non-vacuity: a concrete physical setup (775 nm pump, 0.5 nm FWHM, 1 mW, 1 pm/V) *)
Example C07_nonvacuous_physical : physical example_setup /\ indices_pos example_setup 1.2e15 1.2e15.
Proof. exact example_physical. Qed.
Example C07_nonvacuous_builtin : in_window KTP (lambda_um 1.2e15) /\ temp_ok 20 /\ unit_vec (0, 0, 1).
Proof. exact example_builtin. Qed.
Example C07_nonvacuous_envelope_defined : pump_spectral_amplitude_defined (omega_p example_setup) example_setup.
Proof. exact example_defined. Qed.
Example C07_nonvacuous_product :
  invalid_frequencies 1.2e15 1.2e15 example_setup = false /\ threshold example_setup <= pump_spectral_amplitude (1.2e15 + 1.2e15) example_setup.
Proof. exact example_product_hyp. Qed.
Example C07_nonvacuous_normalized :
  0 <= jsi_normalization 1.2e15 1.2e15 example_setup /\ center_jsa example_setup <> 0 /\ center_jsi_singles example_setup <> 0.
Proof. exact example_norm_center. Qed.
Example C07_nonvacuous_ratios :
  norm_nonneg_on_support example_setup /\ jsi_norm ROps (grid_len example_grid) (tabulate (jsa_fun example_setup) example_grid) <> 0.
Proof. exact (conj example_norm_on_support example_hom_norm). Qed.
Example C07_nonvacuous_cell_area : 1 * grid_sum (fun _ _ => 1) ((0, 0) :: nil) 1 <> 0 /\ (1 : R) <> 0 /\ (1 : R) <> 2.
Proof. exact example_cell_area. Qed.
Example C07_nonvacuous_on_support : ~ off_support 1.2e15 1.2e15 example_setup.
Proof. exact example_on_support. Qed.
Example C07_nonvacuous_off_support : off_support 2.5e15 1e14 example_setup /\ off_support 1.3e15 1.2e15 example_setup.
Proof. exact example_off_support. Qed.

Print Assumptions C07_norm_linear.
Print Assumptions C07_raw_read_sets.
Print Assumptions C07_raw_independent.
Print Assumptions C07_spectra_linear.
Print Assumptions C07_amplitude_scales.
Print Assumptions C07_counts_linear.
Print Assumptions C07_counts_match_generated.
Print Assumptions C07_rate_shape_linear.
Print Assumptions C07_cell_area_matters.
Print Assumptions C07_efficiencies_invariant.
Print Assumptions C07_normalized_invariant.
Print Assumptions C07_jsa_normalized_invariant.
Print Assumptions C07_schmidt_invariant.
Print Assumptions C07_hom_invariant.
Print Assumptions C07_hom_two_source_invariant.
Print Assumptions C07_norm_nonneg_on_support.
Print Assumptions C07_norm_matches_spec.
Print Assumptions C07_frequency_conversion_spec.
Print Assumptions C07_envelope_center.
Print Assumptions C07_envelope_undefined_cases.
Print Assumptions C07_envelope_half_max.
Print Assumptions C07_envelope_half_max_only.
Print Assumptions C07_envelope_shape.
Print Assumptions C07_span_positive.
Print Assumptions C07_raw_is_envelope_times_phasematching.
Print Assumptions C07_box_exact.
Print Assumptions C07_support.
Print Assumptions C07_support_normalized.
Print Assumptions C07_support_tight.
Print Assumptions C07_defined_partial.
Print Assumptions C07_spectrum_defined_partial.
Print Assumptions C07_defined_builtin.
