(* C09 — HOM coincidence rate: property theorems.  Statements, `exact` proofs, non-vacuity examples, Print Assumptions only.

   Model (Model/Hom.v): [hom_rate g f gs tau norm] is src/spdc/hom.rs hom_rate on the Steps2D grid [g] with the two flat
   amplitude arrays as index functions; [hom_rate_series]; [setup_hom_rate_series J g taus] / [setup_hom_visibility] are the
   wrappers of spdc_obj.rs / hom.rs with the setup's amplitude J(ws, wi) as an arbitrary function (oracle);
   [transpose_arr n f] is the exchanged-argument array on a square grid; [hom_rate_Q0] is the executable rational instance
   at zero delay that the check runs on the arrays handed to the Rust function. *)
From Coq Require Import Reals QArith Lra List.
From SpdVerif Require Import Model.FinSum Model.Hom Model.Hom2 Model.C10_Pyth Proofs.C10_pyth Model.C09_Total Proofs.C09_total Proofs.FinSum_lemmas Proofs.Cx_lemmas Proofs.C09_range Proofs.C09_dip
  Proofs.C09_struct Proofs.C09_exec Gen.HomSrc Proofs.C09_src.
From SpdVerif Require Import Model.PMParams Gen.PMIntegrand Proofs.C06_defined Proofs.C06_spectrum Proofs.C09_compose Proofs.C09_grid_tie Proofs.C09_examples Base.GridOps Gen.Grid Proofs.FinSum_morph.
Local Open Scope R_scope.

(* rate in [0,1] and visibility in [-1,1] at EVERY delay, for every complex array on a square grid with identical axes
   and its exchanged-argument counterpart *)
Theorem C09_range : forall n g f gs tau,
  square_sym n g -> (forall k, (k < n * n)%nat -> gs k = transpose_arr n f k) -> 0 < jsi_norm ROps (n * n) f ->
  0 <= hom_rate g f gs tau None <= 1 /\ -1 <= visibility_of_rate (hom_rate g f gs tau None) <= 1.
Proof. exact hom_rate_range. Qed.

(* what the bound really needs: any grid, any second array whose norm does not exceed the first's *)
Theorem C09_range_general : forall g f gs tau,
  0 < jsi_norm ROps (grid_len g) f -> jsi_norm ROps (grid_len g) gs <= jsi_norm ROps (grid_len g) f ->
  0 <= hom_rate g f gs tau None <= 1 /\ -1 <= visibility_of_rate (hom_rate g f gs tau None) <= 1.
Proof. exact hom_rate_range_general. Qed.

(* a spectrum symmetric under exchange of its arguments: rate 0, visibility 1 at zero delay *)
Theorem C09_symmetric_zero : forall n g f gs,
  square_sym n g -> (forall k, (k < n * n)%nat -> gs k = transpose_arr n f k) ->
  (forall k, (k < n * n)%nat -> transpose_arr n f k = f k) -> jsi_norm ROps (n * n) f <> 0 ->
  hom_rate g f gs 0 None = 0 /\ visibility_of_rate (hom_rate g f gs 0 None) = 1.
Proof. exact hom_rate_symmetric_zero_sq. Qed.

(* separable profile a(ws) a(wi) times exp(i t0 (wi - ws)/2): the rate is [dip_rate g a (tau - t0)], a function of
   tau - t0 only, and is exactly 0 at tau = +t0.
   PARTIAL: the continuum closed form 1/2 (1 - exp(-sigma^2 (tau - t0)^2 / 2)) of a Gaussian profile is a Fourier integral
   and is not proved here; the check validates it numerically to discretisation accuracy on well-sampled grids. *)
Theorem C09_dip_position_partial : forall n g a t0 gs,
  square_sym n g -> (forall k, (k < n * n)%nat -> gs k = transpose_arr n (separable_phase g a t0) k) ->
  rsum n (fun s => cnorm2 ROps (a s)) <> 0 ->
  jsi_norm ROps (n * n) (separable_phase g a t0) <> 0 /\
  (forall tau, hom_rate g (separable_phase g a t0) gs tau None = dip_rate g a (tau - t0)) /\
  hom_rate g (separable_phase g a t0) gs t0 None = 0.
Proof. exact hom_rate_dip_both. Qed.

(* a delay series is the list of the individually computed rates *)
Theorem C09_series : forall g f gs taus,
  hom_rate_series g f gs taus = map (fun tau => hom_rate g f gs tau None) taus.
Proof. exact hom_rate_series_map. Qed.

(* setup-level calls = array-level functions on the tabulated amplitude and its exchanged-argument tabulation, which on a
   square symmetric grid is the transposed array; hence the bounds hold for every setup amplitude J *)
Theorem C09_setup_is_array_level : forall J g taus,
  setup_hom_rate_series J g taus = hom_rate_series g (tabulate J g) (tabulate (swap_args J) g) taus /\
  forall delta_t, setup_hom_visibility J g delta_t =
    (delta_t, visibility_of_rate (hom_rate g (tabulate J g) (tabulate (swap_args J) g) delta_t None)).
Proof. exact setup_series_is_array_level. Qed.

Theorem C09_setup_exchanged_is_transpose : forall n g J,
  square_sym n g -> forall k, (k < n * n)%nat -> tabulate (swap_args J) g k = transpose_arr n (tabulate J g) k.
Proof. exact tabulate_swap_transpose. Qed.

Theorem C09_setup_range : forall n J g taus,
  square_sym n g -> 0 < jsi_norm ROps (n * n) (tabulate J g) ->
  (forall r, In r (setup_hom_rate_series J g taus) -> 0 <= r <= 1) /\
  (forall delta_t, -1 <= snd (setup_hom_visibility J g delta_t) <= 1).
Proof. exact setup_rates_range. Qed.

(* the executable twin run by the check is the real-valued rate at zero delay *)
Theorem C09_exec_twin : forall (g : grid R) (f gs : list (cx Q)),
  jsi_norm ROps (grid_len g) (RC f) <> 0 ->
  Q2R (hom_rate_Q0 (grid_len g) f gs) = hom_rate g (RC f) (RC gs) 0 None.
Proof. exact hom_rate_Q0_correct. Qed.

Theorem C09_exec_twin_normed : forall (g : grid R) (f gs : list (cx Q)) (norm : Q),
  Q2R norm <> 0 -> Q2R (hom_rate_Q0_normed (grid_len g) f gs norm) = hom_rate g (RC f) (RC gs) 0 (Some (Q2R norm)).
Proof. exact hom_rate_Q0_normed_correct. Qed.

(* the functions translated from src/spdc/hom.rs on this run (Gen/HomSrc.v: summand closure, phase factor, normalisation,
   default norm, argument order of the series) are the model the theorems above are about *)
Theorem C09_source_is_model : forall g f gs tau norm taus,
  src_hom_rate g f gs tau norm = hom_rate g f gs tau norm /\ src_hom_rate_series g f gs taus = hom_rate_series g f gs taus.
Proof. exact src_is_model. Qed.

Theorem C09_source_wrappers : forall J g taus delta_t,
  src_setup_hom_rate_series J g taus = setup_hom_rate_series J g taus /\ src_hom_visibility J g delta_t = setup_hom_visibility J g delta_t.
Proof. exact src_wrappers. Qed.

Theorem C09_source_range : forall n g f gs tau,
  square_sym n g -> (forall k, (k < n * n)%nat -> gs k = transpose_arr n f k) -> 0 < jsi_norm ROps (n * n) f ->
  0 <= src_hom_rate g f gs tau None <= 1.
Proof. exact src_hom_rate_range. Qed.

(* ---- composition with the generated spectrum model (Gen/PMIntegrand.v, C06): the amplitude is no longer abstract.
   jsa_of Q S (ws, wi) = pm_jsa Q (S ws wi): JointSpectrum::jsa of the setup whose scalars at (ws, wi) are S ws wi, Q the quadrature
   (any functional); exchange_tie S Ssw: Ssw is the with_swapped_signal_idler twin; pm_physical: C06's definedness conditions
   (positive mode areas, exit angles short of grazing), required at the grid points only. *)
(* an exchange-symmetric setup (its own twin: same polarisation/indices, waists, angles, waist positions for signal and idler; the
   exact condition is [self_exchange S]: S wi ws = pm_swap (S ws wi)): zero-delay HOM rate exactly 0, visibility 1 — every
   quadrature, crystal, length, and on EVERY grid (the exchanged-argument array coincides with the first one point by point; on a
   square grid with identical axes the sampled matrix is moreover symmetric, C09_twin_array_is_transpose) *)
Theorem C09_symmetric_setup_dip : forall Q S g,
  self_exchange S -> physical_on S g ->
  jsi_norm ROps (grid_len g) (tabulate (jsa_of Q S) g) <> 0 ->
  setup_hom_rate_series (jsa_of Q S) g (0 :: nil) = 0 :: nil /\ setup_hom_visibility (jsa_of Q S) g 0 = (0, 1).
Proof. exact symmetric_setup_dip. Qed.

Theorem C09_symmetric_setup_amplitude : forall Q S ws wi,
  self_exchange S -> pm_physical (S ws wi) -> jsa_of Q S wi ws = jsa_of Q S ws wi.
Proof. exact symmetric_setup_amplitude. Qed.

(* any setup, any grid: the second array of the wrappers (sp.jsa(wi, ws) on the grid) is the exchanged twin's jsa_range on the same
   grid, so setup-level HOM = array-level HOM of (jsa_range of the setup, jsa_range of the twin); on a square grid with identical
   axes that second array is also the transposed first one *)
Theorem C09_setup_is_array_with_twin : forall Q S Ssw g taus,
  exchange_tie S Ssw -> physical_on Ssw g ->
  setup_hom_rate_series (jsa_of Q S) g taus = hom_rate_series g (tabulate (jsa_of Q S) g) (tabulate (jsa_of Q Ssw) g) taus /\
  forall delta_t, setup_hom_visibility (jsa_of Q S) g delta_t =
    (delta_t, visibility_of_rate (hom_rate g (tabulate (jsa_of Q S) g) (tabulate (jsa_of Q Ssw) g) delta_t None)).
Proof. exact setup_hom_is_array_hom_with_twin. Qed.

Theorem C09_twin_array_is_transpose : forall Q S Ssw n g,
  square_sym n g -> exchange_tie S Ssw -> physical_on Ssw g ->
  forall k, (k < n * n)%nat -> tabulate (jsa_of Q Ssw) g k = transpose_arr n (tabulate (jsa_of Q S) g) k.
Proof. exact twin_array_is_transpose. Qed.

(* the grid / index model used above is the one generated from src/utils.rs (Gen/Grid.v): get_2d_indices, get_1d_index, Steps2D::value *)
Theorem C09_grid_is_generated : forall (g : grid R) (k index cols col row : nat),
  (grid_ws ROps g k, grid_wi ROps g k) = Grid.steps2d_value Rops (g_x0 g) (g_x1 g) (g_cols g) (g_y0 g) (g_y1 g) (g_rows g) k /\
  grid_len g = Grid.steps2d_len (g_cols g) (g_rows g) /\
  FinSum.get_2d_indices index cols = Grid.get_2d_indices index cols /\ FinSum.get_1d_index col row cols = Grid.get_1d_index col row cols.
Proof. exact (fun g k index cols col row => conj (grid_point_generated g k) (conj (grid_len_generated g) (conj (get_2d_indices_generated index cols) (get_1d_index_generated col row cols)))). Qed.

(* ---- the code paths outside the main model (Model/C09_Total.v): slices of any length, zero norm, empty delay list *)
(* hom_rate panics (slice index out of bounds) exactly when one of the two slices is shorter than the grid *)
Theorem C09_total_panic_iff : forall g f gs tau norm,
  hom_rate_total g f gs tau norm = HomPanic <-> (length f < grid_len g)%nat \/ (length gs < grid_len g)%nat.
Proof. exact hom_total_panic_iff. Qed.

(* with the default norm and slices at least as long as the grid: NaN exactly for an all-zero first slice (0/0), never an
   infinity, otherwise 1/2 (1 - sum / (norm of the WHOLE first slice)) *)
Theorem C09_total_default_norm : forall g f gs tau,
  (grid_len g <= length f)%nat -> (grid_len g <= length gs)%nat ->
  (hom_rate_total g f gs tau None = HomNaN <-> all_zero f) /\
  hom_rate_total g f gs tau None <> HomInf /\
  (~ all_zero f ->
   hom_rate_total g f gs tau None =
     HomVal (1 / 2 * (1 - hom_sum ROps (grid_len g) (arr (0, 0) f) (arr (0, 0) gs) (hom_phase g tau) / jsi_norm ROps (length f) (arr (0, 0) f)))).
Proof. exact hom_total_default_norm. Qed.

(* slices of exactly the grid's length, first slice not all zero: the value of the model the theorems above are about *)
Theorem C09_total_is_model : forall g f gs tau,
  length f = grid_len g -> length gs = grid_len g -> ~ all_zero f ->
  hom_rate_total g f gs tau None = HomVal (hom_rate g (arr (0, 0) f) (arr (0, 0) gs) tau None).
Proof. exact hom_total_is_model. Qed.

Theorem C09_total_zero_norm : forall g f gs tau,
  (grid_len g <= length f)%nat -> (grid_len g <= length gs)%nat ->
  let result := hom_sum ROps (grid_len g) (arr (0, 0) f) (arr (0, 0) gs) (hom_phase g tau) in
  (result = 0 -> hom_rate_total g f gs tau (Some 0) = HomNaN) /\ (result <> 0 -> hom_rate_total g f gs tau (Some 0) = HomInf).
Proof. exact hom_total_zero_norm. Qed.

(* series: an empty delay list never panics (even on short slices); a non-empty one panics exactly when a slice is short *)
Theorem C09_series_total_cases : forall g f gs taus,
  (taus = nil -> hom_rate_series_total g f gs taus = SeriesOk nil) /\
  (taus <> nil ->
     (hom_rate_series_total g f gs taus = SeriesPanic <-> (length f < grid_len g)%nat \/ (length gs < grid_len g)%nat) /\
     ((grid_len g <= length f)%nat -> (grid_len g <= length gs)%nat ->
      hom_rate_series_total g f gs taus
      = SeriesOk (map (fun tau => hom_rate_total g f gs tau (Some (jsi_norm ROps (length f) (arr (0, 0) f)))) taus))).
Proof. exact series_total_cases. Qed.

Theorem C09_series_total_is_model : forall g f gs taus,
  length f = grid_len g -> length gs = grid_len g -> ~ all_zero f -> taus <> nil ->
  hom_rate_series_total g f gs taus = SeriesOk (map HomVal (hom_rate_series g (arr (0, 0) f) (arr (0, 0) gs) taus)).
Proof. exact series_total_is_model. Qed.

(* the non-zero-delay twin: arithmetic axes (signal x0 + s h, idler x0 + k h + r i h), delay m0 atan(4/3) / h *)
Theorem C09_pyth_twin : forall (n : nat) (x0 h : R) (k r m0 : Z),
  (1 < n)%nat -> h <> 0 ->
  forall f gs : list (cx Q),
  jsi_norm ROps (n * n) (RC f) <> 0 ->
  Q2R (hom_rate_Qpyth n f gs m0 k r) =
  hom_rate (axes_grid (pyth_ls n x0 h) (pyth_li n x0 h k r) n) (RC f) (RC gs) (pyth_delay m0 h) None.
Proof. exact hom_rate_Qpyth_correct. Qed.

(* the executable twin of the total model (run by the check on the edge inputs) stands for the real outcome *)
Theorem C09_total_exec_twin : forall (g : grid R) (f gs : list (cx Q)) (u : nat -> cx Q) (tau : R) (norm : option Q),
  (forall k, (k < grid_len g)%nat -> hom_phase g tau k = cmap Q2R (u k)) ->
  hom_rate_total g (map Q2C f) (map Q2C gs) tau (option_map Q2R norm) = outcome_of_q (hom_rate_total_Q (grid_len g) f gs u norm).
Proof. exact hom_rate_total_Q_correct. Qed.

(* ---- non-vacuity *)
Example C09_nonvacuous_symmetric_setup_dip :
  let g := sym_grid 1 ex_w0 ex_w0 in
  self_exchange pm_sym_example /\ physical_on pm_sym_example g /\
  jsi_norm ROps (grid_len g) (tabulate (jsa_of ex_Q pm_sym_example) g) <> 0.
Proof. exact symmetric_dip_example. Qed.

Example C09_nonvacuous_twin :
  let S := fun _ _ : R => pm_example in let Ssw := fun _ _ : R => pm_swap pm_example in
  exchange_tie S Ssw /\ physical_on Ssw (sym_grid 2 1 2).
Proof. exact twin_example. Qed.

Example C09_nonvacuous_pyth :
  (1 < 2)%nat /\ (1 : R) <> 0 /\ jsi_norm ROps (2 * 2) (RC ((1, 0) :: (0, 1) :: (0, 0) :: (2, 0) :: nil)%Q) <> 0.
Proof. exact pyth_example. Qed.

Example C09_nonvacuous_self_exchange : self_exchange pm_sym_example.
Proof. exact pm_sym_example_self_exchange. Qed.

Example C09_nonvacuous_grid : square_sym 3 (sym_grid 3 1 2).
Proof. repeat split. Qed.

Example C09_nonvacuous_norm : 0 < jsi_norm ROps (2 * 2) (fun _ => (1, 0)).
Proof. unfold jsi_norm, cnorm2. cbn. lra. Qed.

Example C09_nonvacuous_symmetric : forall k, (k < 2 * 2)%nat -> transpose_arr 2 (fun _ : nat => (1, 0)) k = (1, 0).
Proof. reflexivity. Qed.

Example C09_nonvacuous_exec :
  Qeq (hom_rate_Q0 4 ((1, 0) :: (0, 1) :: (0, -1) :: (2, 0) :: nil)%Q ((1, 0) :: (0, -1) :: (0, 1) :: (2, 0) :: nil)%Q) (2 # 7).
Proof. vm_compute. reflexivity. Qed.

Print Assumptions C09_range.
Print Assumptions C09_range_general.
Print Assumptions C09_symmetric_zero.
Print Assumptions C09_dip_position_partial.
Print Assumptions C09_series.
Print Assumptions C09_setup_is_array_level.
Print Assumptions C09_setup_exchanged_is_transpose.
Print Assumptions C09_setup_range.
Print Assumptions C09_source_is_model.
Print Assumptions C09_source_wrappers.
Print Assumptions C09_source_range.
Print Assumptions C09_symmetric_setup_dip.
Print Assumptions C09_symmetric_setup_amplitude.
Print Assumptions C09_setup_is_array_with_twin.
Print Assumptions C09_twin_array_is_transpose.
Print Assumptions C09_grid_is_generated.
Print Assumptions C09_total_exec_twin.
Print Assumptions C09_total_panic_iff.
Print Assumptions C09_total_default_norm.
Print Assumptions C09_total_is_model.
Print Assumptions C09_total_zero_norm.
Print Assumptions C09_series_total_cases.
Print Assumptions C09_series_total_is_model.
Print Assumptions C09_pyth_twin.
Print Assumptions C09_exec_twin.
Print Assumptions C09_exec_twin_normed.
