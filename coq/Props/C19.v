(* C19 — property theorems.  Statements, `exact` proofs, non-vacuity examples and Print Assumptions only.
   Every function named below (integration_constant, pp_*, domain_entry, domain_centre, apod_*_config) is GENERATED from
   src/spdc/periodic_poling.rs, src/types.rs and src/spdc/config/apodization.rs on every run (Gen/Poling.v).
   z is the normalised crystal position, L the crystal length, a window's width parameter is its payload. *)
From Coq Require Import Reals List.
From SpdVerif Require Import Base.Rx Base.PolingBase Gen.Poling Model.Poling
  Spec.Apodization Proofs.C19_base Proofs.C19_windows Proofs.C19_published Proofs.C19_interp Proofs.C19_domains Proofs.C19_updates Proofs.C19_config.
Import ListNotations.
Local Open Scope R_scope.

(* ---- windows (unit_window: Off, Gaussian with fwhm > 0 and L > 0, the six width-parameter kinds with parameter 1) ---- *)
Theorem C19_even : forall ap L z, unit_window ap L -> integration_constant ap (- z) L = integration_constant ap z L.
Proof. exact even. Qed.

Theorem C19_centre : forall ap L, unit_window ap L -> integration_constant ap 0 L = 1.
Proof. exact centre. Qed.

Theorem C19_range : forall ap L z, unit_window ap L -> -1 <= z <= 1 -> 0 <= integration_constant ap z L <= 1.
Proof. exact range. Qed.

(* more than the property asks: any width parameter a >= 1 keeps the values in [0,1]; evenness needs no side condition;
   the centre value is 1 for every non-zero width *)
Theorem C19_range_wide : forall k a z L, 1 <= a -> -1 <= z <= 1 -> 0 <= integration_constant (window k a) z L <= 1.
Proof. exact window_range_wide. Qed.

Theorem C19_even_any_width : forall k a z L, a <> 0 -> integration_constant (window k a) (- z) L = integration_constant (window k a) z L.
Proof. exact (fun k a z L _ => window_even_any k a z L). Qed.

Theorem C19_centre_any_width : forall k a L, a <> 0 -> integration_constant (window k a) 0 L = 1.
Proof. exact window_centre_any. Qed.

Theorem C19_blackman_factored : forall z L,
  integration_constant (ApBlackman 1) z L = 0.16 * (cos (PI * z) + 1) * (cos (PI * z) + 2.125).
Proof. exact blackman_factored. Qed.

Theorem C19_end_values : forall L,
  integration_constant (ApBartlett 1) 1 L = 0 /\ integration_constant (ApBlackman 1) 1 L = 0 /\
  integration_constant (ApConnes 1) 1 L = 0 /\ integration_constant (ApCosine 1) 1 L = 0 /\
  integration_constant (ApHamming 1) 1 L = 0.08 /\ integration_constant (ApWelch 1) 1 L = 0.
Proof. exact window_end_values. Qed.

(* Gaussian: one half at physical position +- FWHM/2, i.e. z = +- fwhm / L (inside the crystal: fwhm <= L, so the code's range
   assertion on z holds); the divisor of the formula is non-zero *)
Theorem C19_gaussian_half : forall fwhm L, 0 < fwhm -> 0 < L -> fwhm <= L ->
  -1 <= fwhm / L <= 1 /\ integration_constant (ApGaussian fwhm) (fwhm / L) L = / 2 /\ integration_constant (ApGaussian fwhm) (- (fwhm / L)) L = / 2.
Proof. exact gaussian_half_in_range. Qed.

Theorem C19_gaussian_defined : forall fwhm L, 0 < fwhm -> 0 < L ->
  2 * (fwhm / (2 * sqrt (2 * ln 2))) / L <> 0 /\ 0 <= 2 * ln 2.
Proof. exact gaussian_defined. Qed.

Theorem C19_off : forall z L, integration_constant ApOff z L = 1 /\ pp_integration_constant Off z L = 1.
Proof. exact off_one. Qed.

(* the translated formulas are the published apodization functions (Spec/Apodization.v, hand-pinned) *)
Theorem C19_matches_published : forall a z L, 0 < a ->
  integration_constant (ApBartlett a) z L = pub_bartlett a z /\
  integration_constant (ApBlackman a) z L = pub_blackman a z /\
  integration_constant (ApConnes a) z L = pub_connes a z /\
  integration_constant (ApCosine a) z L = pub_cosine a z /\
  integration_constant (ApHamming a) z L = pub_hamming a z /\
  integration_constant (ApWelch a) z L = pub_welch a z.
Proof. exact matches_published_width. Qed.

Theorem C19_matches_published_gaussian : forall fwhm z L, 0 < fwhm -> 0 < L ->
  integration_constant (ApGaussian fwhm) z L = pub_gaussian (pub_sigma_of_fwhm fwhm) (z * L / 2).
Proof. exact matches_published_gaussian. Qed.

(* ---- interpolated profile, any sample vector ---- *)
Theorem C19_interpolate_ends : forall values L, (1 <= length values)%nat ->
  integration_constant (ApInterpolate values) (-1) L = nth 0 values 0 /\
  integration_constant (ApInterpolate values) 1 L = nth (length values - 1) values 0.
Proof. exact (fun values L H => conj (interp_first values L H) (interp_last values L H)). Qed.

(* between samples k and k+1, at z = -1 + 2 (k + t) / (n - 1), 0 <= t <= 1 (every z in [-1,1] is of this form) *)
Theorem C19_interpolate_linear : forall values L k t, (k + 1 < length values)%nat -> 0 <= t <= 1 ->
  integration_constant (ApInterpolate values) (interp_position (length values) k t) L =
  nth k values 0 * (1 - t) + nth (k + 1) values 0 * t.
Proof. exact interp_linear_position. Qed.

Theorem C19_interpolate_positions : forall n z, (2 <= n)%nat -> -1 <= z <= 1 ->
  exists k t, (k + 1 < n)%nat /\ 0 <= t <= 1 /\ z = interp_position n k t.
Proof. exact interp_position_surjective. Qed.

Theorem C19_interpolate_degenerate : forall v z L,
  integration_constant (ApInterpolate nil) z L = 1 /\ integration_constant (ApInterpolate [v]) z L = v.
Proof. exact (fun v z L => conj (interp_empty z L) (interp_single v z L)). Qed.

(* ---- domains ---- *)
(* count = ceil (L / period): the unique natural k >= 1 with (k-1) period < L <= k period; both lists have k entries *)
Theorem C19_count : forall p s ap L, 0 < p -> 0 < L ->
  exists k : nat, (1 <= k)%nat /\ pp_num_domains (On p s ap) L = INR k /\
    (INR k - 1) * p < L <= INR k * p /\ length (pp_poling_domains (On p s ap) L) = k /\
    length (pp_poling_domain_lengths (On p s ap) L) = k.
Proof. exact count. Qed.

Theorem C19_count_unique : forall p L (k k' : nat),
  0 < p -> (INR k - 1) * p < L <= INR k * p -> (INR k' - 1) * p < L <= INR k' * p -> k = k'.
Proof. exact count_unique. Qed.

Theorem C19_count_off : forall L, pp_num_domains Off L = 0 /\ pp_poling_domains Off L = nil /\ pp_poling_domain_lengths Off L = nil.
Proof. exact count_off. Qed.

Theorem C19_entries : forall p s ap L (n k : nat) d,
  pp_num_domains (On p s ap) L = INR n -> (k < n)%nat ->
  nth k (pp_poling_domains (On p s ap) L) d = domain_entry ap L (INR n) (INR k).
Proof. exact domains_nth. Qed.

(* the window is evaluated at the domain's centre, which is strictly inside (-1,1) (the code's range assertion holds) *)
Theorem C19_centres : forall (n k : nat), (k < n)%nat ->
  domain_centre (INR n) (INR k) = (2 * INR k + 1) / INR n - 1 /\ -1 < domain_centre (INR n) (INR k) < 1.
Proof.
  exact (fun n k H => conj (domain_centre_eq (INR n) (INR k)
           (Rgt_not_eq _ _ (lt_0_INR n (Nat.le_lt_trans _ _ _ (Nat.le_0_l k) H)))) (domain_centre_range n k H)).
Qed.

(* fractions in [0,1] summing to 1; the narrower one d satisfies d <= 1/2 and sin (pi d) = |a(z_c)|; order flips at the centre.
   Hypothesis: the window value at the centre lies in [-1,1] (otherwise acos is undefined and Rust returns NaN). *)
Theorem C19_fractions : forall ap L (n k : nat), (k < n)%nat ->
  let zc := domain_centre (INR n) (INR k) in
  let a := integration_constant ap zc L in
  -1 <= a <= 1 ->
  let e := domain_entry ap L (INR n) (INR k) in
  0 <= fst e <= 1 /\ 0 <= snd e <= 1 /\ fst e + snd e = 1 /\
  let d := Rmin (fst e) (snd e) in
  d = duty a /\ 0 <= d <= / 2 /\ sin (PI * d) = Rabs a /\
  ((n < 2 * k + 1)%nat -> e = (1 - d, d)) /\ ((2 * k + 1 <= n)%nat -> e = (d, 1 - d)).
Proof. exact entry_wellformed. Qed.

Theorem C19_fractions_unit_windows : forall ap L (n k : nat), unit_window ap L -> (k < n)%nat ->
  -1 <= integration_constant ap (domain_centre (INR n) (INR k)) L <= 1.
Proof. exact unit_window_value_ok. Qed.

Theorem C19_duty_unique : forall a d, -1 <= a <= 1 -> 0 <= d <= / 2 -> sin (PI * d) = Rabs a -> d = duty a.
Proof. exact duty_unique. Qed.

Theorem C19_no_apodization_half : forall L (n k : nat), domain_entry ApOff L (INR n) (INR k) = (/ 2, / 2).
Proof. exact entry_off. Qed.

Theorem C19_mirror : forall ap L (n k : nat), unit_window ap L -> (k < n)%nat -> (2 * k + 1 <> n)%nat ->
  domain_entry ap L (INR n) (INR (n - 1 - k)) =
  (snd (domain_entry ap L (INR n) (INR k)), fst (domain_entry ap L (INR n) (INR k))).
Proof. exact entry_mirror. Qed.

Theorem C19_lengths : forall p s ap L (n k : nat) d,
  pp_num_domains (On p s ap) L = INR n -> (k < n)%nat ->
  nth k (pp_poling_domain_lengths (On p s ap) L) d =
  (fst (domain_entry ap L (INR n) (INR k)) * p, snd (domain_entry ap L (INR n) (INR k)) * p).
Proof. exact domain_lengths_nth. Qed.

(* ---- update operations: all sequences ---- *)
Theorem C19_updates : forall ops r, request_ok r -> Forall op_ok ops ->
  pp_run (rep r) ops = rep (request_run r ops) /\ request_ok (request_run r ops).
Proof. exact run_rep. Qed.

(* try_as_optimum (the optimum period is an oracle): an optimiser error is passed on; on success the new period is the optimiser's
   and the apodization is the one the description had (none for an unpoled one).  As OpAsOptimum it is one of the operations
   C19_updates quantifies over. *)
Theorem C19_as_optimum : forall s,
  pp_try_as_optimum None s = None /\
  forall p, p <> 0 -> pp_try_as_optimum (Some p) s = Some (rep (Some (p, pp_apodization s))).
Proof. exact as_optimum_spec. Qed.

(* the wrapper PeriodicPoling::integration_constant evaluates the stored window at the same position and length *)
Theorem C19_wrapper : forall m sg a z L, pp_integration_constant (On m sg a) z L = integration_constant a z L.
Proof. exact wrapper_on. Qed.

Theorem C19_new : forall p a, p <> 0 -> pp_new p a = rep (Some (p, a)).
Proof. exact new_rep. Qed.

Theorem C19_reachable : forall s, pp_wf s -> exists r, request_ok r /\ s = rep r.
Proof. exact wf_is_rep. Qed.

Theorem C19_rep_sign : forall p a, p <> 0 ->
  match rep (Some (p, a)) with
  | On m s _ => 0 < m /\ m = Rabs p /\ (s = NEGATIVE <-> p < 0) /\ (s = POSITIVE <-> 0 < p)
  | Off => False
  end.
Proof. exact rep_sign. Qed.

Theorem C19_rep_observers : forall p a, p <> 0 ->
  pp_signed_period (rep (Some (p, a))) = Some p /\ pp_k_eff (rep (Some (p, a))) = 2 * PI / p /\
  pp_apodization (rep (Some (p, a))) = a /\ pp_wf (rep (Some (p, a))).
Proof.
  exact (fun p a H => conj (rep_signed_period p a H) (conj (rep_k_eff p a H) (conj (rep_apodization p a) (rep_wf (Some (p, a)) H)))).
Qed.

Theorem C19_frames : forall m s a, 0 < m ->
  (forall p, p <> 0 ->
     pp_with_period (On m s a) p = On (Rabs p) (if Rlt_dec p 0 then NEGATIVE else POSITIVE) a /\
     pp_assign_period (On m s a) p = On (Rabs p) (if Rlt_dec p 0 then NEGATIVE else POSITIVE) a) /\
  (forall b, pp_set_apodization (On m s a) b = On m s b /\ pp_with_apodization (On m s a) b = On m s b).
Proof. exact (fun m s a H => conj (fun p Hp => with_period_frame m s a p H Hp) (fun b => set_apodization_frame m s a b H)). Qed.

(* ---- config <-> runtime mapping of window kinds ---- *)
Theorem C19_config_roundtrip : forall ap c,
  apod_of_config (apod_to_config ap) = ap /\ apod_to_config (apod_of_config c) = c /\
  cfg_kind (apod_to_config ap) = apod_kind ap /\ apod_kind (apod_of_config c) = cfg_kind c.
Proof. exact (fun ap c => conj (config_roundtrip ap) (conj (config_roundtrip' c) (conj (config_kind ap) (config_kind' c)))). Qed.

Theorem C19_config_gaussian_unit : forall fwhm, apod_to_config (ApGaussian fwhm) = CfgGaussian (fwhm * 1e6).
Proof. exact config_gaussian_unit. Qed.

Theorem C19_config_spellings :
  NoDup all_apod_kinds /\ (forall ap, In (apod_kind ap) all_apod_kinds) /\
  map fst apod_config_spellings = all_apod_kinds /\ NoDup (List.concat (map snd apod_config_spellings)).
Proof. exact (conj kinds_nodup (conj kinds_listed (conj spellings_cover spellings_unambiguous))). Qed.

(* ---- non-vacuity of the hypotheses ---- *)
Example C19_nonvacuous_windows :
  unit_window (ApBlackman 1) 1 /\ unit_window (ApGaussian 1e-3) 2e-3 /\ -1 <= 0.25 <= 1.
Proof. cbn. repeat split; Lra.lra. Qed.

Example C19_nonvacuous_interp : (1 + 1 < length ([0; 0.5; 1]%R : list R))%nat /\ 0 <= 0.5 <= 1.
Proof. cbn. repeat split; try Lia.lia; Lra.lra. Qed.

Example C19_nonvacuous_domains : (3 < 10)%nat /\ 0 < 10e-6 /\ 0 < 1000e-6 /\
  -1 <= integration_constant ApOff (domain_centre (INR 10) (INR 3)) 1 <= 1.
Proof. cbn. unfold apod_Off. repeat split; try Lia.lia; Lra.lra. Qed.

Example C19_nonvacuous_updates :
  request_ok (Some (-46.5e-6, ApOff)) /\ Forall op_ok [OpWithPeriod 10e-6; OpSetApodization (ApBartlett 1); OpAssignPeriod (-3e-6)] /\
  pp_wf (On 1 NEGATIVE ApOff).
Proof. cbn. repeat split; repeat constructor; cbn; Lra.lra. Qed.

Print Assumptions C19_even.
Print Assumptions C19_centre.
Print Assumptions C19_range.
Print Assumptions C19_range_wide.
Print Assumptions C19_even_any_width.
Print Assumptions C19_centre_any_width.
Print Assumptions C19_blackman_factored.
Print Assumptions C19_end_values.
Print Assumptions C19_gaussian_half.
Print Assumptions C19_gaussian_defined.
Print Assumptions C19_off.
Print Assumptions C19_matches_published.
Print Assumptions C19_matches_published_gaussian.
Print Assumptions C19_interpolate_ends.
Print Assumptions C19_interpolate_linear.
Print Assumptions C19_interpolate_positions.
Print Assumptions C19_interpolate_degenerate.
Print Assumptions C19_count.
Print Assumptions C19_count_unique.
Print Assumptions C19_count_off.
Print Assumptions C19_entries.
Print Assumptions C19_centres.
Print Assumptions C19_fractions.
Print Assumptions C19_fractions_unit_windows.
Print Assumptions C19_duty_unique.
Print Assumptions C19_no_apodization_half.
Print Assumptions C19_mirror.
Print Assumptions C19_lengths.
Print Assumptions C19_updates.
Print Assumptions C19_as_optimum.
Print Assumptions C19_wrapper.
Print Assumptions C19_new.
Print Assumptions C19_reachable.
Print Assumptions C19_rep_sign.
Print Assumptions C19_rep_observers.
Print Assumptions C19_frames.
Print Assumptions C19_config_roundtrip.
Print Assumptions C19_config_gaussian_unit.
Print Assumptions C19_config_spellings.
