(* C11 — Schmidt number: property theorems.  Statements, `exact` proofs, non-vacuity examples, Print Assumptions only.

   Model (Model/Schmidt.v): [schmidt_number svd len a] is src/math/schmidt.rs with the SVD routine as an oracle;
   [schmidt_K ROps n M] = (tr G)^2 / tr(G^2), G = M^T M, is the trace form; [mag_matrix n a] is the row-major matrix of
   element-wise moduli of the flat complex array [a]; [schmidt_K_Q] is the executable rational instance that the
   check runs (vm_compute) on the arrays handed to the Rust function. *)
From Coq Require Import Reals NArith ZArith QArith Lra List String.
From SpdVerif Require Import Model.FinSum Model.Hom Model.Schmidt Proofs.FinSum_lemmas Proofs.RMat Proofs.C11_len Proofs.C11_trace
  Proofs.C11_families Proofs.C11_svd Proofs.C11_exec Gen.SchmidtSrc Proofs.C11_src Proofs.C11_rounding.
Local Open Scope R_scope.

(* the length check accepts exactly the perfect squares (every usize) *)
Theorem C11_square_check : forall len : N, accepted_len len = true <-> exists d : N, len = (d * d)%N.
Proof. exact accepted_len_iff. Qed.

(* the code path: rejected iff not a perfect square; when the SVD oracle answers with the singular values of any
   orthogonal factorisation, the result is the trace form of the magnitude matrix of side sqrt(len) *)
Theorem C11_code_path :
  forall svd : nat -> (nat -> nat -> R) -> option (nat -> R),
  (forall n M sv, svd n M = Some sv -> is_svd n M sv) ->
  forall (len : nat) (a : nat -> cx R),
    match schmidt_number svd len a with
    | ErrNotSquare => forall d : nat, len <> (d * d)%nat
    | ErrSvd => (exists d : nat, len = (d * d)%nat) /\
                svd (side_of_len (N.of_nat len)) (mag_matrix (side_of_len (N.of_nat len)) a) = None
    | OkNaN => exists d : nat, len = (d * d)%nat /\ forall i j, (i < d)%nat -> (j < d)%nat -> mag_matrix d a i j = 0
    | OkK k => exists d : nat, len = (d * d)%nat /\ trG2 ROps d (mag_matrix d a) <> 0 /\ k = schmidt_K ROps d (mag_matrix d a)
    end.
Proof. exact schmidt_number_spec. Qed.

(* Ok(NaN) (0/0) exactly for the all-zero magnitude matrix; every other array gets a value with a defined division *)
Theorem C11_nan_iff_zero :
  forall svd : nat -> (nat -> nat -> R) -> option (nat -> R),
  (forall n M sv, svd n M = Some sv -> is_svd n M sv) ->
  forall (d : nat) (a : nat -> cx R), svd d (mag_matrix d a) <> None ->
  (schmidt_number svd (d * d) a = OkNaN <-> forall i j, (i < d)%nat -> (j < d)%nat -> mag_matrix d a i j = 0).
Proof. exact schmidt_number_nan_iff. Qed.

(* the same, for the function translated from src/math/schmidt.rs on this run (Gen/SchmidtSrc.v) *)
Theorem C11_source_is_model : forall svd len a, src_schmidt_number svd len a = schmidt_number svd len a.
Proof. exact src_schmidt_number_eq. Qed.

Theorem C11_source_code_path :
  forall svd : nat -> (nat -> nat -> R) -> option (nat -> R),
  (forall n M sv, svd n M = Some sv -> is_svd n M sv) ->
  forall (len : nat) (a : nat -> cx R),
    match src_schmidt_number svd len a with
    | ErrNotSquare => forall d : nat, len <> (d * d)%nat
    | ErrSvd => exists d : nat, len = (d * d)%nat
    | OkNaN => exists d : nat, len = (d * d)%nat /\ forall i j, (i < d)%nat -> (j < d)%nat -> mag_matrix d a i j = 0
    | OkK k => exists d : nat, len = (d * d)%nat /\ trG2 ROps d (mag_matrix d a) <> 0 /\ k = schmidt_K ROps d (mag_matrix d a)
    end.
Proof. exact src_code_path. Qed.

(* the arguments of the SVD call are those of the source: no U, no V, eps = f64::EPSILON, at most 10 000 iterations *)
Theorem C11_svd_call_pinned : src_svd_args = (false, false, "f64::EPSILON"%string, 10000%N).
Proof. exact src_svd_args_pinned. Qed.

(* setup level: JointSpectrum::schmidt_number(range) is the function applied to the setup's sampled amplitudes (J arbitrary);
   on a square grid of side n it is never rejected and, when the oracle answers, equals the trace form of the samples *)
Theorem C11_setup_level :
  forall svd : nat -> (nat -> nat -> R) -> option (nat -> R),
  (forall n M sv, svd n M = Some sv -> is_svd n M sv) ->
  forall J g n, g_cols g = n -> g_rows g = n ->
    src_setup_schmidt_number svd J g = schmidt_number svd (grid_len g) (tabulate J g) /\
    match src_setup_schmidt_number svd J g with
    | ErrNotSquare => False
    | ErrSvd => svd n (mag_matrix n (tabulate J g)) = None
    | OkNaN => forall i j, (i < n)%nat -> (j < n)%nat -> mag_matrix n (tabulate J g) i j = 0
    | OkK k => trG2 ROps n (mag_matrix n (tabulate J g)) <> 0 /\ k = schmidt_K ROps n (mag_matrix n (tabulate J g))
    end.
Proof. exact src_setup_level. Qed.

Theorem C11_rejects_nonsquare :
  forall svd : nat -> (nat -> nat -> R) -> option (nat -> R),
  (forall n M sv, svd n M = Some sv -> is_svd n M sv) ->
  forall (len : nat) (a : nat -> cx R),
    schmidt_number svd len a = ErrNotSquare <-> forall d : nat, len <> (d * d)%nat.
Proof. exact schmidt_number_rejects. Qed.

(* K = (sum sv^2)^2 / sum sv^4 over the singular values of ANY orthogonal factorisation M = U diag(sv) V^T *)
Theorem C11_svd_link : forall n M sv,
  is_svd n M sv ->
  sv_norm_squared n sv = trG ROps n M /\ sv_kinv n sv = trG2 ROps n M /\
  (trG2 ROps n M <> 0 -> sv_kinv n sv <> 0 /\ schmidt_of_sv n sv = schmidt_K ROps n M).
Proof. exact svd_link. Qed.

(* 1 <= K <= n for every matrix that is not identically zero (and the division is then defined) *)
Theorem C11_bounds : forall n M, nonzero_matrix n M -> 0 < trG2 ROps n M /\ 1 <= schmidt_K ROps n M <= INR n.
Proof. exact schmidt_bounds. Qed.

(* the division is undefined only for the zero matrix *)
Theorem C11_defined_iff_nonzero : forall n M,
  (trG2 ROps n M = 0 <-> (forall i j, (i < n)%nat -> (j < n)%nat -> M i j = 0)) /\
  (trG ROps n M = 0 <-> (forall i j, (i < n)%nat -> (j < n)%nat -> M i j = 0)).
Proof. exact (fun n M => conj (trG2_zero_iff n M) (trG_zero_iff n M)). Qed.

Theorem C11_separable : forall n u v, nonzero_matrix n (outer u v) -> schmidt_K ROps n (outer u v) = 1.
Proof. exact schmidt_separable. Qed.

Theorem C11_diagonal : forall n m, (0 < n)%nat -> m <> 0 -> schmidt_K ROps n (perm_diag (fun i => i) (fun _ => m)) = INR n.
Proof. exact schmidt_diagonal. Qed.

Theorem C11_perm_diagonal : forall n p q m, is_perm n p q -> (0 < n)%nat -> m <> 0 ->
  trG2 ROps n (perm_diag p (fun _ => m)) <> 0 /\ schmidt_K ROps n (perm_diag p (fun _ => m)) = INR n.
Proof. exact schmidt_perm_diag. Qed.

(* the two extremes on the flat complex array as the function receives it *)
Theorem C11_separable_array : forall n (u v a : nat -> cx R),
  (forall r c, (r < n)%nat -> (c < n)%nat -> a (r * n + c)%nat = cmul ROps (u r) (v c)) ->
  (exists r c, (r < n)%nat /\ (c < n)%nat /\ a (r * n + c)%nat <> (0, 0)) ->
  schmidt_K ROps n (mag_matrix n a) = 1.
Proof. exact schmidt_separable_complex. Qed.

Theorem C11_perm_diagonal_array : forall n p q m (a : nat -> cx R),
  is_perm n p q -> (0 < n)%nat -> m <> 0 ->
  (forall r c, (r < n)%nat -> (c < n)%nat -> cmod (a (r * n + c)%nat) = if Nat.eqb c (p r) then m else 0) ->
  schmidt_K ROps n (mag_matrix n a) = INR n.
Proof. exact schmidt_perm_diag_complex. Qed.

(* invariances, stated on the flat complex array as the function receives it *)
Theorem C11_scale : forall n (a : nat -> cx R) (z : cx R),
  z <> (0, 0) -> trG2 ROps n (mag_matrix n a) <> 0 ->
  schmidt_K ROps n (mag_matrix n (fun k => cmul ROps z (a k))) = schmidt_K ROps n (mag_matrix n a).
Proof. exact schmidt_complex_scale. Qed.

Theorem C11_phases : forall n (a : nat -> cx R) (phi : nat -> R),
  schmidt_K ROps n (mag_matrix n (fun k => cmul ROps (cpolar 1 (phi k)) (a k))) = schmidt_K ROps n (mag_matrix n a).
Proof. exact schmidt_phase_factors. Qed.

Theorem C11_moduli_only : forall n (a b : nat -> cx R),
  (forall k, (k < n * n)%nat -> cmod (b k) = cmod (a k)) ->
  schmidt_K ROps n (mag_matrix n b) = schmidt_K ROps n (mag_matrix n a).
Proof. exact schmidt_phases. Qed.

Theorem C11_transpose : forall n (a : nat -> cx R),
  schmidt_K ROps n (mag_matrix n (transpose_arr n a)) = schmidt_K ROps n (mag_matrix n a).
Proof. exact schmidt_transpose_arr. Qed.

Theorem C11_transpose_matrix : forall n M, schmidt_K ROps n (mT M) = schmidt_K ROps n M.
Proof. exact schmidt_transpose. Qed.

(* the executable twin run by the check is the real trace form of the same magnitudes *)
Theorem C11_exec_twin : forall n mags,
  trG2 ROps n (mat_of n (Rmags mags)) <> 0 ->
  Q2R (schmidt_K_Q n mags) = schmidt_K ROps n (mat_of n (Rmags mags)) /\
  Q2R (trG_Q n mags) = trG ROps n (mat_of n (Rmags mags)) /\
  Q2R (trG2_Q n mags) = trG2 ROps n (mat_of n (Rmags mags)).
Proof. exact exec_twin_correct. Qed.

(* rounding of the arithmetic AFTER the SVD (binary64 round-to-nearest, any tie rule): for non-negative singular values, sides up
   to 40, the returned fl(fl(N^ N^)/D^) with N^ = sum fl(s^2), D^ = sum fl(fl(s^2) fl(s^2)) is within 1e-13 relative of
   (sum s^2)^2 / sum s^4 — for ANY order of the rounded additions: every binary summation tree [t] over the n terms of height <= n
   (left-to-right, nalgebra's unrolled dot products, pairwise, blocked ...).
   PARTIAL: exponent range unbounded (FLX: no under/overflow — cf. finding F16 at scales beyond 1e+-75), powi(4) as the square of
   the square; the accuracy of the singular values themselves remains the oracle contract. *)
Theorem C11_rounding_partial : forall (choice : Z -> bool) n sv (t : stree),
  (n <= 40)%nat -> (forall k, 0 <= sv k) -> 0 < sv_kinv n sv ->
  (forall a, teval t a = rsum n a) -> (theight t <= n)%nat ->
  let K := sv_norm_squared n sv * sv_norm_squared n sv / sv_kinv n sv in
  Rabs (Khat (b64_rnd choice) sv (tfl (b64_rnd choice) t) - K) <= 1e-13 * K.
Proof. exact schmidt_rounding_b64_any_order. Qed.

Theorem C11_rounding_left_to_right_partial : forall (choice : Z -> bool) n sv,
  (n <= 40)%nat -> (forall k, 0 <= sv k) -> 0 < sv_kinv n sv ->
  let K := sv_norm_squared n sv * sv_norm_squared n sv / sv_kinv n sv in
  Rabs (Khat (b64_rnd choice) sv (fsum (b64_rnd choice) n) - K) <= 1e-13 * K.
Proof. exact schmidt_rounding_b64. Qed.

(* ---- non-vacuity *)
Example C11_nonvacuous_nonzero : nonzero_matrix 2 (outer (fun _ => 1) (fun _ => 2)).
Proof. exists 0%nat, 0%nat. unfold outer. repeat split; auto; lra. Qed.

Example C11_nonvacuous_perm : is_perm 3 (fun i => i) (fun i => i).
Proof. exact (is_perm_id 3). Qed.

Example C11_nonvacuous_svd : is_svd 1 (fun _ _ => 3) (fun _ => 3).
Proof.
  exists (fun _ _ => 1), (fun _ _ => 1). unfold orthonormal_cols, rsum. repeat split; intros;
  repeat match goal with H : (_ < 1)%nat |- _ => apply PeanoNat.Nat.lt_1_r in H; subst end; cbn; lra.
Qed.

Example C11_nonvacuous_svd2 : is_svd 2 (fun i j => if Nat.eqb i j then 0 else if Nat.eqb i 0 then 2 else 3) (fun k => if Nat.eqb k 0 then 2 else 3).
Proof. exact svd_example_2. Qed.

Example C11_nonvacuous_rounding :
  let t := Node (Node (Leaf 0) (Leaf 1)) (Leaf 2) in
  (forall a, teval t a = rsum 3 a) /\ (theight t <= 3)%nat /\ (forall k : nat, 0 <= (fun _ => 1) k) /\ 0 < sv_kinv 3 (fun _ => 1).
Proof. exact rounding_example_tree. Qed.

Example C11_nonvacuous_exec : Qeq (schmidt_K_Q 2 (1%Q :: 0%Q :: 0%Q :: 1%Q :: nil)) 2%Q /\ Qeq (schmidt_K_Q 2 (1%Q :: 2%Q :: 2%Q :: 4%Q :: nil)) 1%Q.
Proof. split; vm_compute; reflexivity. Qed.

Example C11_nonvacuous_lens : accepted_len 1444 = true /\ accepted_len 1445 = false /\ accepted_len 0 = true.
Proof. repeat split; vm_compute; reflexivity. Qed.

Print Assumptions C11_square_check.
Print Assumptions C11_code_path.
Print Assumptions C11_source_is_model.
Print Assumptions C11_source_code_path.
Print Assumptions C11_setup_level.
Print Assumptions C11_rejects_nonsquare.
Print Assumptions C11_svd_link.
Print Assumptions C11_bounds.
Print Assumptions C11_defined_iff_nonzero.
Print Assumptions C11_separable.
Print Assumptions C11_diagonal.
Print Assumptions C11_perm_diagonal.
Print Assumptions C11_separable_array.
Print Assumptions C11_perm_diagonal_array.
Print Assumptions C11_scale.
Print Assumptions C11_phases.
Print Assumptions C11_moduli_only.
Print Assumptions C11_transpose.
Print Assumptions C11_transpose_matrix.
Print Assumptions C11_rounding_partial.
Print Assumptions C11_rounding_left_to_right_partial.
Print Assumptions C11_nan_iff_zero.
Print Assumptions C11_svd_call_pinned.
Print Assumptions C11_exec_twin.
