(* Statement pins for C14: `Check (name : statement)` fails when a property theorem's statement drifts. *)
From Coq Require Import List Arith Reals.
From SpdVerif Require Import Base.GridOps Gen.Grid Model.Grid Proofs.C14_spaces Props.C14.
Import ListNotations.

Check (C14_transpose : forall A (rows cols : nat) (v : list A),
  length v = rows * cols -> exists w, transpose_vec v cols = Ok w /\ is_transpose rows cols v w).
Check (C14_steps_collect : forall T (O : ops T) (s e : T) (n : nat),
  collect1d O s e n = seq1d O s e n /\ length (seq1d O s e n) = n).
Check (C14_index_inverse :
  (forall col row cols, col < cols -> get_2d_indices (get_1d_index col row cols) cols = (col, row)) /\
  (forall index cols, 0 < cols ->
     fst (get_2d_indices index cols) < cols /\
     get_1d_index_pre (fst (get_2d_indices index cols)) (snd (get_2d_indices index cols)) cols = true /\
     get_1d_index (fst (get_2d_indices index cols)) (snd (get_2d_indices index cols)) cols = index)).
Check (C14_steps : forall (s e : R) (n : nat), 1 <= n ->
  length (seq1d Rops s e n) = n /\
  nth 0 (seq1d Rops s e n) 0%R = s /\
  (2 <= n -> nth (n - 1) (seq1d Rops s e n) 0%R = e) /\
  (forall i, S i < n -> (nth (S i) (seq1d Rops s e n) 0 - nth i (seq1d Rops s e n) 0 = (e - s) / INR (n - 1))%R)).
Check ((fun s : space R => proj1 (proj2 (proj2 (proj2 (C14_sumdiff s))))) : forall s : space R, of_sd (to_sd s) = s <-> span (fst s) = span (snd s)).
