(* C17 — property theorems (statements, `exact` proofs, non-vacuity examples, Print Assumptions only).
   Model: Model/Config.v, SPDCConfig::try_as_spdc in the code's order of operations with outcome Ok | Err e | Panic site
   (Panic exactly where the code has unwrap()); numerical kernels are oracles.  Every theorem is quantified over the
   numeric carrier, its operations, the unit constants and ALL oracles. *)
From Coq Require Import Reals String List Bool ZArith QArith.
From SpdVerif Require Import Base.CfgNumOps Spec.ConfigSpec Gen.ConfigTables Gen.ConfigSites Model.ConfigTypes Model.Config Model.NumInst
  Proofs.C17_rules Proofs.C17_finite Proofs.C17_entry Proofs.C17_current Proofs.Cfg_composed_examples Gen.CfgSteps Proofs.CfgSteps_eq Model.Cfg_Composed Proofs.Cfg_composed Proofs.Cfg_composed_builtin.
Import ListNotations.

(* The model IS the source: the statement-by-statement translation of SPDCConfig::try_as_spdc generated from the source
   (Gen/CfgSteps.v: every `?` a bind, every mutation a new version) equals the model the theorems below are about. *)
Theorem C17_try_as_spdc_is_generated : forall num (o : NumOps num) U K minpos rj (c : spdc_cfg num),
  gen_try_as_spdc_steps o U K minpos rj c = try_as_spdc_steps o U K minpos rj c.
Proof. exact gen_try_as_spdc_steps_eq. Qed.

(* error rule 1: both or neither of the signal's internal and external angle *)
Theorem C17_rule_signal_angles : forall num (o : NumOps num) U K minpos rj (c : spdc_cfg num),
  angle_spec_bad (c_signal c) -> try_as_spdc_steps o U K minpos rj c = Err EThetaSpec.
Proof. exact rule_signal_angles. Qed.

(* error rule 2: automatic crystal angle together with periodic poling (never Ok; Err as soon as signal and poling
   themselves are built) *)
Theorem C17_rule_auto_theta_with_poling : forall num (o : NumOps num) U K minpos rj (c : spdc_cfg num) signal pp nf,
  cc_theta_deg (c_crystal c) = Auto -> c_pp c <> PCOff ->
  signal_step o K c = Ok signal -> poling_step o K minpos rj c signal = Ok (pp, nf) ->
  try_as_spdc_steps o U K minpos rj c = Err EAutoThetaWithPoling.
Proof. exact rule_auto_theta_with_poling. Qed.

Theorem C17_rule_auto_theta_with_poling_never_ok : forall num (o : NumOps num) U K minpos rj (c : spdc_cfg num),
  cc_theta_deg (c_crystal c) = Auto -> c_pp c <> PCOff -> is_ok (try_as_spdc_steps o U K minpos rj c) = false.
Proof. exact rule_auto_theta_with_poling_never_ok. Qed.

(* error rule 3 (lambda_s <= lambda_p): the full decision table of what the code does.  Only the class
   "explicit crystal angle, no poling, automatic idler" yields the error the property demands; the other classes panic
   or succeed (finding F7, refuted lemmas in Findings/C17_F7.v). *)
Theorem C17_signal_le_pump_outcomes : forall num (o : NumOps num) U K minpos rj (c : spdc_cfg num) signal,
  signal_step o K c = Ok signal -> signal_le_pump o signal (cfg_pump o c) = true ->
  match c_pp c with
  | PCConfig Auto _ => try_as_spdc_steps o U K minpos rj c = Panic SiteOptPeriodUnwrap
  | PCConfig (Param pu) _ =>
      if rj && neqb o pu (n0 o) then try_as_spdc_steps o U K minpos rj c = Err EBadPeriod
      else try_as_spdc_steps o U K minpos rj c = Panic SiteComputeSignUnwrap
  | PCOff =>
      match cc_theta_deg (c_crystal c) with
      | Auto => try_as_spdc_steps o U K minpos rj c = Panic SiteOptThetaUnwrap \/ try_as_spdc_steps o U K minpos rj c = Panic SiteNelderMeadUnwrap \/
                try_as_spdc_steps o U K minpos rj c = Err ETotalReflection
      | Param _ =>
          match c_idler c with
          | Auto => try_as_spdc_steps o U K minpos rj c = Err ESignalLePump
          | Param ic =>
              match beam_of_cfg o K (idler_polarization (cs_pm (cfg_cs0 o c))) ic (cfg_cs0 o c) with
              | Ok _ => is_ok (try_as_spdc_steps o U K minpos rj c) = true
              | Err e => try_as_spdc_steps o U K minpos rj c = Err e
              | Panic s => try_as_spdc_steps o U K minpos rj c = Panic s
              end
          end
      end
  end.
Proof. exact signal_le_pump_outcomes. Qed.

Theorem C17_rule_signal_le_pump_partial : forall num (o : NumOps num) U K minpos rj (c : spdc_cfg num) signal,
  signal_step o K c = Ok signal -> signal_le_pump o signal (cfg_pump o c) = true ->
  c_pp c = PCOff -> cc_theta_deg (c_crystal c) <> Auto -> c_idler c = Auto ->
  try_as_spdc_steps o U K minpos rj c = Err ESignalLePump.
Proof. exact rule_signal_le_pump_partial. Qed.

(* error rule 4: the automatic poling period does not fit into the crystal *)
Theorem C17_rule_impossible_period : forall num (o : NumOps num) U K minpos rj (c : spdc_cfg num) signal a p,
  signal_step o K c = Ok signal -> c_pp c = PCConfig Auto a ->
  signal_le_pump o signal (cfg_pump o c) = false ->
  neqb o (o_dkz0 K signal (cfg_pump o c) (cfg_cs0 o c)) (n0 o) = false ->
  o_nm_period K signal (cfg_pump o c) (cfg_cs0 o c) = Some p ->
  nltb o (cs_length (cfg_cs0 o c)) p = true ->
  try_as_spdc_steps o U K minpos rj c = Err EImpossiblePeriod.
Proof. exact rule_impossible_period. Qed.

(* never panics — for the non-failing class: signal wavelength longer than the pump's, and no simplex search fails
   (oracle contract; it fails exactly on a NaN cost, checked per input by the harness).  The unrestricted statement is
   refuted: Findings/C17_F7.v. *)
Theorem C17_no_panic_partial : forall num (o : NumOps num) U K minpos rj (c : spdc_cfg num),
  searches_total K ->
  (forall signal, signal_step o K c = Ok signal -> signal_le_pump o signal (cfg_pump o c) = false) ->
  is_panic (try_as_spdc_steps o U K minpos rj c) = false.
Proof. exact no_panic_partial. Qed.

(* every panic is one of the three unwraps of the "signal <= pump" error, or a failed simplex search *)
Theorem C17_panic_sites : forall num (o : NumOps num) U K minpos rj (c : spdc_cfg num) s,
  try_as_spdc_steps o U K minpos rj c = Panic s ->
  (exists signal, signal_step o K c = Ok signal /\ signal_le_pump o signal (cfg_pump o c) = true /\
                  (s = SiteOptThetaUnwrap \/ s = SiteComputeSignUnwrap \/ s = SiteOptPeriodUnwrap))
  \/ s = SiteNelderMeadUnwrap.
Proof. exact panic_sites. Qed.

(* finiteness (real-number counterpart: every partial operation is defined): under the oracle contracts "idler angle and
   waist position defined" and "delta k of the unpoled crystal is not exactly 0", a successful conversion has no
   non-finite field.  _partial: binary64 overflow/underflow is not modelled; the contracts are checked per input. *)
Theorem C17_finite_partial : forall num (o : NumOps num) U K minpos rj (c : spdc_cfg num) s nf,
  geometry_defined K ->
  (forall signal, signal_step o K c = Ok signal -> neqb o (o_dkz0 K signal (cfg_pump o c) (cfg_cs0 o c)) (n0 o) = false) ->
  try_as_spdc_steps o U K minpos rj c = Ok (s, nf) -> nf = [].
Proof. exact finite_partial. Qed.

(* the period is infinite only when poling is off: poling is on in the setup iff the configuration asks for it, and an
   infinite period with poling on needs the automatic period with delta k exactly 0 *)
Theorem C17_poling_off_iff : forall num (o : NumOps num) U K minpos rj (c : spdc_cfg num) s nf,
  try_as_spdc_steps o U K minpos rj c = Ok (s, nf) -> (s_pp s = PolOff <-> c_pp c = PCOff).
Proof. exact poling_off_iff. Qed.

Theorem C17_infinite_period_only_if : forall num (o : NumOps num) U K minpos rj (c : spdc_cfg num) s nf,
  try_as_spdc_steps o U K minpos rj c = Ok (s, nf) -> In NFPeriodInfinite nf ->
  exists a signal, c_pp c = PCConfig Auto a /\ signal_step o K c = Ok signal /\
                   neqb o (o_dkz0 K signal (cfg_pump o c) (cfg_cs0 o c)) (n0 o) = true.
Proof. exact infinite_period_only_if. Qed.

(* ---------------------------------------------------------------------------------------------------------------------
   The entry point: try_as_spdc V = (if V: the up-front check `signal.wavelength_nm <= pump.wavelength_nm -> Err`) followed by
   the conversion steps.  V is READ OFF THE SOURCE by the generator (Gen/ConfigSites.v: cfg_validates_wavelengths).  All
   theorems above are about the steps; they transfer to the entry point whenever the check does not fire: *)
Theorem C17_entry : forall num (o : NumOps num) U K minpos rj V (c : spdc_cfg num),
  entry_passes o V c -> try_as_spdc o U K minpos rj V c = try_as_spdc_steps o U K minpos rj c.
Proof. exact entry_passes_eq. Qed.

(* On a tree that validates (V = true): rule 3 holds in every auto/explicit combination, and no unwrap() of the
   "signal <= pump" error is reachable any more: only a failed simplex search can panic. *)
Theorem C17_rule_signal_le_pump_when_validated : forall num (o : NumOps num) U K minpos rj (c : spdc_cfg num),
  cfg_le o c = true -> try_as_spdc o U K minpos rj true c = Err ESignalLePump.
Proof. exact entry_validation_le. Qed.

Theorem C17_panics_only_search_when_validated : forall num (o : NumOps num) U K minpos rj (c : spdc_cfg num) s,
  scale_order o -> try_as_spdc o U K minpos rj true c = Panic s -> s = SiteNelderMeadUnwrap.
Proof. exact validated_panics_only_search. Qed.

(* =====================================================================================================================
   FULL STRENGTH, for the code as it is now: try_as_spdc_now = the model instantiated with the flags the generator reads off
   the source (cfg_validates_wavelengths, cfg_rejects_bad_period); C17_flags_now pins them (a source that loses the up-front
   wavelength validation or the zero-period rejection breaks this obligation). *)
Theorem C17_flags_now : cfg_validates_wavelengths = true /\ cfg_rejects_bad_period = true.
Proof. exact flags_now. Qed.

(* the repairs of F7b / F7f / F7g / F7h are in the code: external-range check, total-reflection check, NaN-safe searches, crystal
   validation (read off the source; a source that loses one breaks this obligation, and the stream finds the concrete input) *)
Theorem C17_repairs_now : cfg_checks_external_range = true /\ cfg_checks_total_reflection = true /\ searches_cannot_fail = true /\
                          cfg_validates_crystal = true.
Proof. exact repairs_now. Qed.

(* rule 3: a signal wavelength not longer than the pump's is an error, whatever else is auto or explicit *)
Theorem C17_rule_signal_le_pump : forall num (o : NumOps num) U K minpos (c : spdc_cfg num),
  cfg_le o c = true -> try_as_spdc_now o U K minpos c = Err ESignalLePump.
Proof. exact now_rule_signal_le_pump. Qed.

Theorem C17_rule_signal_angles_now : forall num (o : NumOps num) U K minpos (c : spdc_cfg num),
  angle_spec_bad (c_signal c) -> is_err (try_as_spdc_now o U K minpos c) = true /\
  (cfg_le o c = false -> try_as_spdc_now o U K minpos c = Err EThetaSpec).
Proof. exact now_rule_signal_angles. Qed.

Theorem C17_rule_auto_theta_with_poling_now : forall num (o : NumOps num) U K minpos (c : spdc_cfg num),
  cc_theta_deg (c_crystal c) = Auto -> c_pp c <> PCOff -> is_ok (try_as_spdc_now o U K minpos c) = false.
Proof. exact now_rule_auto_theta_with_poling. Qed.

Theorem C17_rule_impossible_period_now : forall num (o : NumOps num) U K minpos (c : spdc_cfg num) signal a p,
  cfg_le o c = false -> signal_step o K c = Ok signal -> c_pp c = PCConfig Auto a ->
  signal_le_pump o signal (cfg_pump o c) = false ->
  neqb o (o_dkz0 K signal (cfg_pump o c) (cfg_cs0 o c)) (n0 o) = false ->
  o_nm_period K signal (cfg_pump o c) (cfg_cs0 o c) = Some p -> nltb o (cs_length (cfg_cs0 o c)) p = true ->
  try_as_spdc_now o U K minpos c = Err EImpossiblePeriod.
Proof. exact now_rule_impossible_period. Qed.

(* rule 5: an explicit poling period of 0 is an error *)
Theorem C17_rule_bad_period : forall num (o : NumOps num) U K minpos (c : spdc_cfg num) signal pu a,
  cfg_le o c = false -> signal_step o K c = Ok signal -> c_pp c = PCConfig (Param pu) a -> neqb o pu (n0 o) = true ->
  try_as_spdc_now o U K minpos c = Err EBadPeriod.
Proof. exact now_rule_bad_period. Qed.

(* never panics -- whatever the wavelengths -- provided the oracle calls THIS configuration makes are defined
   ([searches_defined_at o K c]: the Snell inverse answers; if the crystal angle is automatic, the signal's external angle at the
   placeholder crystal angle is defined -- no total internal reflection -- and the angle search succeeds; if the poling period is
   automatic, the period search succeeds.  A search fails exactly on a NaN cost: known findings F7b, F7f, F7h, where this
   hypothesis is false and the model, like the implementation, panics: C17_tir_panics_composed below).
   [scale_order]: multiplying both wavelengths by the nm unit factor preserves their order (law of the carrier; true over R and
   Q, Example C17_ex_entry). *)
Theorem C17_no_panic : forall num (o : NumOps num) U K minpos (c : spdc_cfg num),
  scale_order o -> searches_defined_at o K c -> is_panic (try_as_spdc_now o U K minpos c) = false.
Proof. exact now_no_panic_at. Qed.

(* FULL STRENGTH on the repaired code: try_as_spdc NEVER panics -- for every configuration and EVERY oracle record (no hypothesis on
   the numerical kernels).  Why: the wavelengths are validated first (rule 3), a search cannot fail (searches_cannot_fail: Cost1d::cost,
   which every nelder_mead_1d call goes through, turns a NaN point / NaN cost into +infinity), a signal beyond total internal
   reflection and a period search that finds nothing are errors (rules 7, 4').  The flags are pinned by C17_flags_now /
   C17_repairs_now; [scale_order] is a law of the carrier (true over R and Q). *)
Theorem C17_no_panic_full : forall num (o : NumOps num) U K minpos (c : spdc_cfg num),
  scale_order o -> is_panic (try_as_spdc_now o U K minpos c) = false.
Proof. exact now_no_panic_full. Qed.

(* rule 6: an external signal angle of 90 degrees or more is an error *)
Theorem C17_rule_external_range : forall num (o : NumOps num) U K minpos (c : spdc_cfg num) e,
  cfg_le o c = false -> bc_theta_deg (c_signal c) = None -> bc_theta_ext_deg (c_signal c) = Some e ->
  nltb o (nabs o e) (nQ o 90) = false -> try_as_spdc_now o U K minpos c = Err EExternalRange.
Proof. exact now_rule_external_range. Qed.

(* rule 6 for an explicit idler (the same test in IdlerConfig::try_as_beam), once the earlier steps have succeeded *)
Theorem C17_rule_external_range_idler : forall num (o : NumOps num) U K minpos (c : spdc_cfg num) signal pp nfp cs ic e,
  cfg_le o c = false -> signal_step o K c = Ok signal -> poling_step o K minpos cfg_rejects_bad_period c signal = Ok (pp, nfp) ->
  theta_step o K c signal pp = Ok cs -> c_idler c = Param ic ->
  bc_theta_deg ic = None -> bc_theta_ext_deg ic = Some e -> nltb o (nabs o e) (nQ o 90) = false ->
  try_as_spdc_now o U K minpos c = Err EExternalRange.
Proof. exact now_rule_external_range_idler. Qed.

(* rule 7: an automatic crystal angle for a signal beyond total internal reflection is an error *)
Theorem C17_rule_total_reflection : forall num (o : NumOps num) U K minpos (c : spdc_cfg num) signal,
  cfg_le o c = false -> signal_step o K c = Ok signal -> is_auto (cc_theta_deg (c_crystal c)) = true -> c_pp c = PCOff ->
  o_snell_ext K signal (cfg_cs0 o c) = None -> try_as_spdc_now o U K minpos c = Err ETotalReflection.
Proof. exact now_rule_total_reflection. Qed.

(* rule 4': an automatic-period search that finds nothing is the "could not determine poling period" error *)
Theorem C17_rule_search_finds_nothing : forall num (o : NumOps num) U K minpos (c : spdc_cfg num) signal a,
  cfg_le o c = false -> signal_step o K c = Ok signal -> c_pp c = PCConfig Auto a ->
  signal_le_pump o signal (cfg_pump o c) = false ->
  neqb o (o_dkz0 K signal (cfg_pump o c) (cfg_cs0 o c)) (n0 o) = false ->
  o_nm_period K signal (cfg_pump o c) (cfg_cs0 o c) = None -> try_as_spdc_now o U K minpos c = Err EImpossiblePeriod.
Proof. exact now_rule_search_finds_nothing. Qed.

Theorem C17_panics_only_search : forall num (o : NumOps num) U K minpos (c : spdc_cfg num) s,
  scale_order o -> try_as_spdc_now o U K minpos c = Panic s -> s = SiteNelderMeadUnwrap.
Proof. exact now_panics_only_search. Qed.

(* the property's first sentence: either Ok with no non-finite field, or Err.  PARTIAL: the finiteness half needs the definedness of
   what this configuration computes -- the results of its searches are finite numbers (search_results_defined_at), its idler angle
   and the waist positions are defined (geometry_defined_at), delta k of the unpoled crystal is not exactly 0 *)
Theorem C17_ok_finite_or_err_partial : forall num (o : NumOps num) U K minpos (c : spdc_cfg num),
  scale_order o -> search_results_defined_at o K c -> geometry_defined_at o K minpos cfg_rejects_bad_period c ->
  (forall signal, signal_step o K c = Ok signal -> neqb o (o_dkz0 K signal (cfg_pump o c) (cfg_cs0 o c)) (n0 o) = false) ->
  (exists s, try_as_spdc_now o U K minpos c = Ok (s, [])) \/ (exists e, try_as_spdc_now o U K minpos c = Err e).
Proof. exact now_ok_finite_or_err_at. Qed.

(* =====================================================================================================================
   COMPOSED with the generated / proved models of the kernels (C03 optimum idler, C04 auto period / auto angle / Nelder-Mead):
   oracles_of_model index_of snell_inv sd_theta sd_period is an INSTANCE of the oracle record over the reals, for any index
   function (Proofs/Compose_index.crystal_index for built-in crystals: C17_no_panic_composed_builtin), any Snell inverse and any
   termination tests.  nm-unit scaling preserves order over the reals.  Every partial floating-point operation of the kernels
   (asin beyond [-1, 1], sqrt of a negative number, division by 0) carries its definedness guard in the composed oracles; with the
   NaN-safe solver (Gen/AutoCalc.v: nm_nan_cost_is_infinite) a candidate with an undefined cost costs +infinity and the search goes
   on.  On the repaired code "never panics" needs NOTHING of the composed instance (C17_no_panic_full holds for every oracle record).
   C17_no_panic_composed states what a code WITHOUT the repairs needs, each hypothesis guarded by the flag of the repair that makes
   it void ([rj]: the zero-period flag, any value; the entry validates the wavelengths):
     Snell inverse total; no_total_internal_reflection (F7b, F7f); angle_costs_defined; period_costs_defined (F7h).
   C17_tir_is_error_composed / C17_tir_panics_composed: the F7b witness class is the error now, and was the panic. *)
Theorem C17_no_panic_composed : forall index_of snell_inv sd_theta sd_period U minpos rj (c : spdc_cfg R),
  (searches_cannot_fail = false -> forall b e cs, snell_inv b e cs <> None) ->
  (cfg_checks_total_reflection = false -> searches_cannot_fail = false -> no_total_internal_reflection index_of snell_inv sd_theta sd_period c) ->
  (searches_cannot_fail = false -> angle_costs_defined index_of snell_inv sd_theta sd_period c) ->
  (searches_cannot_fail = false -> period_costs_defined index_of snell_inv sd_theta sd_period c) ->
  is_panic (try_as_spdc R_ops U (oracles_of_model index_of snell_inv sd_theta sd_period) minpos rj true c) = false.
Proof. exact no_panic_composed. Qed.

Theorem C17_tir_is_error_composed : forall index_of snell_inv sd_theta sd_period U minpos (c : spdc_cfg R) signal,
  cfg_le R_ops c = false -> signal_step R_ops (oracles_of_model index_of snell_inv sd_theta sd_period) c = Ok signal ->
  is_auto (cc_theta_deg (c_crystal c)) = true -> c_pp c = PCOff ->
  snell_ext_defined index_of signal (cfg_cs0 R_ops c) = false ->
  try_as_spdc_now R_ops U (oracles_of_model index_of snell_inv sd_theta sd_period) minpos c = Err ETotalReflection.
Proof. exact tir_is_error_composed_now. Qed.

Theorem C17_tir_panics_composed : forall index_of snell_inv sd_theta sd_period U minpos rj (c : spdc_cfg R) signal,
  cfg_checks_total_reflection = false -> searches_cannot_fail = false ->
  cfg_le R_ops c = false -> signal_step R_ops (oracles_of_model index_of snell_inv sd_theta sd_period) c = Ok signal ->
  is_auto (cc_theta_deg (c_crystal c)) = true -> c_pp c = PCOff ->
  snell_ext_defined index_of signal (cfg_cs0 R_ops c) = false ->
  try_as_spdc R_ops U (oracles_of_model index_of snell_inv sd_theta sd_period) minpos rj true c = Panic SiteNelderMeadUnwrap.
Proof. exact tir_panics_composed. Qed.

Theorem C17_no_panic_composed_builtin : forall snell_inv sd_theta sd_period U minpos rj (c : spdc_cfg R),
  (searches_cannot_fail = false -> forall b e cs, snell_inv b e cs <> None) ->
  (cfg_checks_total_reflection = false -> searches_cannot_fail = false -> no_total_internal_reflection builtin_index_of snell_inv sd_theta sd_period c) ->
  (searches_cannot_fail = false -> angle_costs_defined builtin_index_of snell_inv sd_theta sd_period c) ->
  (searches_cannot_fail = false -> period_costs_defined builtin_index_of snell_inv sd_theta sd_period c) ->
  is_panic (try_as_spdc R_ops U (oracles_of_model builtin_index_of snell_inv sd_theta sd_period) minpos rj true c) = false.
Proof. exact no_panic_builtin. Qed.

(* Ok with nothing non-finite, or Err, on the code as it is now.  PARTIAL: the Snell inverse answers (C13), every candidate of the
   angle / period search has a defined cost, the index along z is never 0 and the emission angle of this configuration's optimum
   idler is defined (arg > 0, |val| <= 1), delta k of the unpoled crystal is not exactly 0 *)
Theorem C17_ok_finite_or_err_composed_partial : forall index_of snell_inv sd_theta sd_period U minpos (c : spdc_cfg R),
  (forall b e cs, snell_inv b e cs <> None) ->
  angle_costs_defined index_of snell_inv sd_theta sd_period c -> period_costs_defined index_of snell_inv sd_theta sd_period c ->
  (forall cs l pol, index_of cs l Vec3.ez pol <> 0%R) ->
  idler_defined_at index_of snell_inv sd_theta sd_period minpos cfg_rejects_bad_period c ->
  (forall signal, signal_step R_ops (oracles_of_model index_of snell_inv sd_theta sd_period) c = Ok signal ->
     dkz_c index_of signal (cfg_pump R_ops c) (cfg_cs0 R_ops c) MI.PPOff <> 0%R) ->
  (exists s, try_as_spdc_now R_ops U (oracles_of_model index_of snell_inv sd_theta sd_period) minpos c = Ok (s, [])) \/
  (exists e, try_as_spdc_now R_ops U (oracles_of_model index_of snell_inv sd_theta sd_period) minpos c = Err e).
Proof. exact ok_finite_or_err_composed_now. Qed.

(* the model's IdlerBeam::try_new_optimum at the composed instance IS C03's generated optimum_idler: refused exactly when
   lambda_s <= lambda_p, otherwise the same beam *)
Theorem C17_idler_is_C03 : forall index_of snell_inv sd_theta sd_period s p cs pp,
  beam_wf s -> (0 < b_wavelength p)%R -> idler_defined index_of s p cs (ipp pp) = true ->
  match MI.optimum_idler (index_of cs) (ipm (cs_pm cs)) (cs_counter cs) (ib s) (ipump p) (ipp pp) with
  | None => (b_wavelength s <= b_wavelength p)%R /\
            idler_optimum R_ops (oracles_of_model index_of snell_inv sd_theta sd_period) s p cs pp = Err ESignalLePump
  | Some i => (b_wavelength p < b_wavelength s)%R /\
              exists b, idler_optimum R_ops (oracles_of_model index_of snell_inv sd_theta sd_period) s p cs pp = Ok (b, []) /\ ib b = i
  end.
Proof. exact idler_composed. Qed.

(* the model's optimum_poling_period at the composed instance IS C04's (early exit, seed, sign, bounds, final test) *)
Theorem C17_period_is_C04 : forall index_of snell_inv sd_theta sd_period s p cs,
  signal_le_pump R_ops s p = false ->
  idler_defined index_of s p cs MI.PPOff = true -> (forall x, period_cost_defined index_of s p cs x = true) ->
  match MA.optimum_poling_period (dkz_c index_of s p cs) MA.real_ops sd_period (cs_length cs) with
  | MA.AutoInfinite => optimum_poling_period R_ops (oracles_of_model index_of snell_inv sd_theta sd_period) GA.opp_min_period s p cs = Ok (inr tt)
  | MA.AutoErr => optimum_poling_period R_ops (oracles_of_model index_of snell_inv sd_theta sd_period) GA.opp_min_period s p cs = Err EImpossiblePeriod
  | MA.AutoOk v => optimum_poling_period R_ops (oracles_of_model index_of snell_inv sd_theta sd_period) GA.opp_min_period s p cs = Ok (inl v)
  end.
Proof. exact period_composed. Qed.

(* ---- non-vacuity: the hypotheses are satisfiable (concrete configuration and oracles at the Q instance) *)
Local Open Scope Q_scope.
Definition ex_units : units Q := {| u_milliw := 1; u_volt := 1000 |}.
Definition ex_oracles : oracles Q := {|
  o_snell_inv := fun _ e _ => Some (e / 2); o_snell_ext := fun _ _ => Some 0; o_nm_theta := fun _ _ _ _ => Some (1 # 2);
  o_dkz0 := fun _ _ _ => -135000; o_nm_period := fun _ _ _ => Some (465 # 10000000);
  o_idler_theta := fun _ _ _ _ => Some 0; o_waist_pos := fun _ _ _ => Some (- (6 # 10000)) |}.
Definition ex_cfg (ls : Q) (theta : auto Q) (pp : pp_cfg Q) : spdc_cfg Q :=
  {| c_crystal := {| cc_kind := "KTP"; cc_pm := Type2_e_eo; cc_phi_deg := 0; cc_theta_deg := theta;
                     cc_length_um := 2000; cc_temperature_c := 20; cc_counter := false |};
     c_pump := {| pc_wavelength_nm := 775; pc_waist_um := 100; pc_bandwidth_nm := 535 # 100; pc_power_mw := 1;
                  pc_threshold := None |};
     c_signal := {| bc_wavelength_nm := ls; bc_phi_deg := 0; bc_theta_deg := Some 0; bc_theta_ext_deg := None;
                    bc_waist_um := 100; bc_waist_pos_um := Auto |};
     c_idler := Auto; c_pp := pp; c_deff := 76 # 10 |}.

Example C17_ex_ok : is_ok (try_as_spdc_now Q_ops ex_units ex_oracles (1 # 1000000000000) (ex_cfg 1550 (Param 90) (PCConfig Auto ACOff))) = true.
Proof. vm_compute. reflexivity. Qed.
Example C17_ex_contracts : searches_total ex_oracles /\ geometry_defined ex_oracles.
Proof. repeat split; intros; discriminate. Qed.
Example C17_ex_le_pump : exists signal, signal_step Q_ops ex_oracles (ex_cfg 700 (Param 90) PCOff) = Ok signal /\
  signal_le_pump Q_ops signal (cfg_pump Q_ops (ex_cfg 700 (Param 90) PCOff)) = true.
Proof. eexists. split; [vm_compute; reflexivity | vm_compute; reflexivity]. Qed.
Example C17_ex_auto_theta_poling : try_as_spdc_now Q_ops ex_units ex_oracles (1 # 1000000000000) (ex_cfg 1550 Auto (PCConfig Auto ACOff)) = Err EAutoThetaWithPoling.
Proof. vm_compute. reflexivity. Qed.
Example C17_ex_impossible : try_as_spdc_now Q_ops ex_units ex_oracles (1 # 1000000000000)
  {| c_crystal := {| cc_kind := "KTP"; cc_pm := Type2_e_eo; cc_phi_deg := 0; cc_theta_deg := Param 90;
                     cc_length_um := 10; cc_temperature_c := 20; cc_counter := false |};
     c_pump := c_pump (ex_cfg 1550 Auto PCOff); c_signal := c_signal (ex_cfg 1550 Auto PCOff); c_idler := Auto;
     c_pp := PCConfig Auto ACOff; c_deff := 1 |} = Err EImpossiblePeriod.
Proof. vm_compute. reflexivity. Qed.

Example C17_ex_entry : entry_passes Q_ops cfg_validates_wavelengths (ex_cfg 1550 (Param 90) PCOff) /\ scale_order Q_ops.
Proof.
  split; [right; vm_compute; reflexivity |].
  intros a b. cbn [nleb nmul Q_ops]. unfold u_nano. cbn [nQ Q_ops].
  apply eq_true_iff_eq. rewrite !Qle_bool_iff, !Qred_correct. split; intros H.
  - apply Qmult_lt_0_le_reg_r in H; [exact H | reflexivity].
  - apply Qmult_le_compat_r; [exact H | discriminate].
Qed.

Example C17_ex_le : try_as_spdc_now Q_ops ex_units ex_oracles (1 # 1000000000000) (ex_cfg 700 Auto (PCConfig Auto ACOff)) = Err ESignalLePump.
Proof. vm_compute. reflexivity. Qed.
Example C17_ex_bad_period : try_as_spdc_now Q_ops ex_units ex_oracles (1 # 1000000000000) (ex_cfg 1550 (Param 90) (PCConfig (Param 0) ACOff)) = Err EBadPeriod.
Proof. vm_compute. reflexivity. Qed.

(* rules 6, 7, 4' on concrete configurations; an automatic crystal angle that SUCCEEDS; the composed definedness hypotheses are
   satisfiable with an automatic angle *)
Definition ex_cfg_ext (e : Q) (theta : auto Q) : spdc_cfg Q :=
  {| c_crystal := c_crystal (ex_cfg 1550 theta PCOff); c_pump := c_pump (ex_cfg 1550 theta PCOff);
     c_signal := {| bc_wavelength_nm := 1550; bc_phi_deg := 0; bc_theta_deg := None; bc_theta_ext_deg := Some e;
                    bc_waist_um := 100; bc_waist_pos_um := Auto |};
     c_idler := Auto; c_pp := PCOff; c_deff := 76 # 10 |}.
Example C17_ex_rule6 : try_as_spdc_now Q_ops ex_units ex_oracles (1 # 1000000000000) (ex_cfg_ext (3185 # 10) (Param 90)) = Err EExternalRange
  /\ is_ok (try_as_spdc_now Q_ops ex_units ex_oracles (1 # 1000000000000) (ex_cfg_ext (-415 # 10) (Param 90))) = true.
Proof. split; vm_compute; reflexivity. Qed.
Example C17_ex_rule6_idler : try_as_spdc_now Q_ops ex_units ex_oracles (1 # 1000000000000)
  {| c_crystal := c_crystal (ex_cfg 1550 (Param 90) PCOff); c_pump := c_pump (ex_cfg 1550 (Param 90) PCOff);
     c_signal := c_signal (ex_cfg 1550 (Param 90) PCOff);
     c_idler := Param {| bc_wavelength_nm := 1550; bc_phi_deg := 180; bc_theta_deg := None; bc_theta_ext_deg := Some 90;
                         bc_waist_um := 100; bc_waist_pos_um := Auto |};
     c_pp := PCOff; c_deff := 1 |} = Err EExternalRange.
Proof. vm_compute. reflexivity. Qed.
Definition ex_oracles_tir : oracles Q := {|
  o_snell_inv := o_snell_inv ex_oracles; o_snell_ext := fun _ _ => None; o_nm_theta := o_nm_theta ex_oracles;
  o_dkz0 := o_dkz0 ex_oracles; o_nm_period := fun _ _ _ => None; o_idler_theta := o_idler_theta ex_oracles;
  o_waist_pos := o_waist_pos ex_oracles |}.
Example C17_ex_rule7 : try_as_spdc_now Q_ops ex_units ex_oracles_tir (1 # 1000000000000) (ex_cfg 1550 Auto PCOff) = Err ETotalReflection.
Proof. vm_compute. reflexivity. Qed.
Example C17_ex_rule4' : try_as_spdc_now Q_ops ex_units ex_oracles_tir (1 # 1000000000000) (ex_cfg 1550 (Param 90) (PCConfig Auto ACOff))
  = Err EImpossiblePeriod.
Proof. vm_compute. reflexivity. Qed.
Example C17_ex_auto_theta_ok : exists s, try_as_spdc_now Q_ops ex_units ex_oracles (1 # 1000000000000) (ex_cfg 1550 Auto PCOff) = Ok (s, [])
  /\ cs_theta (s_crystal s) == 1 # 2.
Proof. eexists. split; [vm_compute; reflexivity | vm_compute; reflexivity]. Qed.
(* a configuration WITH an automatic crystal angle for which angle_costs_defined holds non-vacuously: collinear signal in a medium
   of index 3/2, identity Snell inverse -- every candidate angle has a defined cost (arg = (ns - N)^2 + ... > 0 needs N <> ns:
   here the pump index equals the signal's and ls/lp = 2) *)
Example C17_ex_angle_costs_defined :
  is_auto (cc_theta_deg (c_crystal Cfg_composed_examples.ex_cfg_R)) = true /\
  angle_costs_defined (fun _ _ _ _ => (3 / 2)%R) (fun _ e _ => Some e) (fun _ _ => true) (fun _ _ => true) Cfg_composed_examples.ex_cfg_R.
Proof. split; [reflexivity | exact Cfg_composed_examples.angle_costs_defined_example]. Qed.

Print Assumptions C17_try_as_spdc_is_generated.
Example C17_ex_snell_total : exists si : beam R -> R -> crystal_setup R -> option R, forall b e cs, si b e cs <> None.
Proof. exact snell_total_example. Qed.

Print Assumptions C17_no_panic_composed.
Print Assumptions C17_tir_panics_composed.
Print Assumptions C17_no_panic_composed_builtin.
Print Assumptions C17_ok_finite_or_err_composed_partial.
Print Assumptions C17_idler_is_C03.
Print Assumptions C17_period_is_C04.
Print Assumptions C17_flags_now.
Print Assumptions C17_repairs_now.
Print Assumptions C17_no_panic_full.
Print Assumptions C17_rule_external_range.
Print Assumptions C17_rule_total_reflection.
Print Assumptions C17_rule_search_finds_nothing.
Print Assumptions C17_rule_external_range_idler.
Print Assumptions C17_tir_is_error_composed.
Print Assumptions C17_rule_signal_le_pump.
Print Assumptions C17_rule_signal_angles_now.
Print Assumptions C17_rule_auto_theta_with_poling_now.
Print Assumptions C17_rule_impossible_period_now.
Print Assumptions C17_rule_bad_period.
Print Assumptions C17_no_panic.
Print Assumptions C17_panics_only_search.
Print Assumptions C17_ok_finite_or_err_partial.
Print Assumptions C17_entry.
Print Assumptions C17_rule_signal_le_pump_when_validated.
Print Assumptions C17_panics_only_search_when_validated.
Print Assumptions C17_rule_signal_angles.
Print Assumptions C17_rule_auto_theta_with_poling.
Print Assumptions C17_rule_auto_theta_with_poling_never_ok.
Print Assumptions C17_signal_le_pump_outcomes.
Print Assumptions C17_rule_signal_le_pump_partial.
Print Assumptions C17_rule_impossible_period.
Print Assumptions C17_no_panic_partial.
Print Assumptions C17_panic_sites.
Print Assumptions C17_finite_partial.
Print Assumptions C17_poling_off_iff.
Print Assumptions C17_infinite_period_only_if.
