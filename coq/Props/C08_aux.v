(* C08_aux — AUXILIARY COMPOSITION theorems of property C08: statements that connect the property's own model with the generated
   kinematics / wrappers / grid-resolution / simple phase-matching models (Proofs/Compose_*.v).  Same house style as Props/C08.v
   (statements, `exact` proofs, non-vacuity Examples, Print Assumptions; pinned in Props/C08_aux_pins.v).  Built and audited as a
   separate target (vlib/auxprops.py): a failure here is reported as a broken obligation of the AUXILIARY COMPOSITION, the theorems of
   Props/C08.v stay accountable on their own. *)
From Coq Require Import Reals List String.
Import ListNotations.
From SpdVerif Require Import Base.Rx Gen.Efficiencies Gen.WrapBase Gen.W_efficiencies Proofs.Compose_wrappers_eff.
Local Open Scope R_scope.

(* What SPDC::efficiencies(ranges, integrator) returns, following the forwarders as translated from src/spdc/spdc_obj.rs and
   src/spdc/efficiencies.rs (Gen/W_*.v, every callee bound by its name): SPDC::efficiencies -> efficiencies -> SPDC::counts_{coincidences, singles_signal,
   singles_idler} -> the three rate functions of counts.rs (cc, cs, ci: any functions of (spdc, ranges, integrator)) ->
   efficiencies_from_counts, whose three arguments arrive in the order (coincidences, signal singles, idler singles).  spdc_efficiencies
   is that composition with the generated efficiencies_from_counts at its end. *)
Theorem C08_spdc_efficiencies : forall (cc cs ci : spdc eff_val -> eff_val -> eff_val -> R) s ranges integrator,
  spdc_efficiencies cc cs ci s ranges integrator =
  EEff (efficiencies_from_counts (cc s ranges integrator) (cs s ranges integrator) (ci s ranges integrator)).
Proof. exact wrap_efficiencies_model. Qed.
Print Assumptions C08_spdc_efficiencies.

(* hence the property's clause on the method itself: coincidences not above either singles rate => no partial operation of the body
   fails and the three efficiencies SPDC::efficiencies returns lie in [0, 1] *)
Theorem C08_spdc_efficiencies_in_unit_interval : forall (cc cs ci : spdc eff_val -> eff_val -> eff_val -> R) s ranges integrator,
  let c := cc s ranges integrator in let rs := cs s ranges integrator in let ri := ci s ranges integrator in
  0 <= c -> c <= rs -> c <= ri ->
  efficiencies_from_counts_defined c rs ri /\
  exists e, spdc_efficiencies cc cs ci s ranges integrator = EEff e /\
    0 <= eff_signal e <= 1 /\ 0 <= eff_idler e <= 1 /\ 0 <= eff_symmetric e <= 1.
Proof. exact wrap_efficiencies_defined_and_bounded. Qed.
Print Assumptions C08_spdc_efficiencies_in_unit_interval.

(* the callees of `efficiencies` and the argument expressions of its calls as read off the source text: the signal singles rate is
   computed by counts_singles_signal and passed second, the idler singles rate by counts_singles_idler and passed third *)
Theorem C08_efficiencies_source :
  efficiencies_callees = ["counts_coincidences"; "counts_singles_signal"; "counts_singles_idler"; "efficiencies_from_counts"]%string /\
  efficiencies_calls =
    [("coincidences_rate", "spdc.counts_coincidences", ["ranges"; "integrator"]);
     ("signal_singles_rate", "spdc.counts_singles_signal", ["ranges"; "integrator"]);
     ("idler_singles_rate", "spdc.counts_singles_idler", ["ranges"; "integrator"]);
     ("return", "efficiencies_from_counts", ["coincidences_rate"; "signal_singles_rate"; "idler_singles_rate"])]%string.
Proof. exact (conj (proj1 wrap_eff_sources) (proj1 (proj2 wrap_eff_sources))). Qed.
Print Assumptions C08_efficiencies_source.

(* non-vacuity: rates 3, 4, 5 Hz *)
Example C08_spdc_efficiencies_example : 0 <= 3 /\ 3 <= 4 /\ 3 <= 5.
Proof. repeat split; Lra.lra. Qed.
