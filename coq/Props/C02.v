(* C02 — property theorems.  This file contains statements, `exact` proofs and Print Assumptions only.

   Gen/Fresnel.v is regenerated from src/crystal/crystal_setup.rs, src/beam/mod.rs, src/math/differentiation.rs on every run:
     index_along_gen theta phi nx ny nz d p   CrystalSetup::index_along for crystal angles theta, phi, principal indices
                                               (nx, ny, nz) (what get_indices returned; C01's business), lab direction d,
                                               polarization p — with the number-of-roots case split, the double-root arm for `no real root`, and the sign test
     to_crystal_frame_gen, walkoff_gen, fd_step_gen, optimal_waist_position_gen … likewise
   Model/Fresnel.v is the mathematical statement (Fresnel's wave-normal equation in y = 1/n^2). *)
From Coq Require Import Reals.
From Coquelicot Require Import Coquelicot.
From SpdVerif Require Import Model.Optics Model.Fresnel Gen.Fresnel
  Proofs.C02_fresnel Proofs.C02_index Proofs.C02_frame Proofs.C02_gen Proofs.C02_walkoff.
Local Open Scope R_scope.

(* the real-number discriminant of the code's quadratic is never negative: the `imaginary index` exit (Roots::No) is dead
   over the reals for every unit direction and any principal values *)
Theorem C02_disc_nonneg : forall ax ay az px py pz,
  0 <= px -> 0 <= py -> 0 <= pz -> px + py + pz = 1 -> 0 <= fdisc ax ay az px py pz.
Proof. exact disc_nonneg. Qed.

(* the two model values are the two solutions of Fresnel's equation, and they interlace the principal values *)
Theorem C02_roots_of_fresnel : forall ax ay az px py pz,
  0 <= px -> 0 <= py -> 0 <= pz -> px + py + pz = 1 ->
  fresnel_poly ax ay az px py pz (y_slow ax ay az px py pz) = 0 /\
  fresnel_poly ax ay az px py pz (y_fast ax ay az px py pz) = 0 /\
  (forall y, fresnel_poly ax ay az px py pz y = (y - y_slow ax ay az px py pz) * (y - y_fast ax ay az px py pz)).
Proof. exact (fun ax ay az px py pz H1 H2 H3 H4 =>
  conj (slow_is_root ax ay az px py pz H1 H2 H3 H4) (conj (fast_is_root ax ay az px py pz H1 H2 H3 H4)
       (poly_factor ax ay az px py pz H1 H2 H3 H4))). Qed.

Theorem C02_interlace : forall ax ay az px py pz,
  0 <= px -> 0 <= py -> 0 <= pz -> px + py + pz = 1 ->
  min3 ax ay az <= y_slow ax ay az px py pz /\ y_slow ax ay az px py pz <= mid3 ax ay az /\
  mid3 ax ay az <= y_fast ax ay az px py pz /\ y_fast ax ay az px py pz <= max3 ax ay az.
Proof. exact interlace. Qed.

(* the generated index_along IS the Fresnel solution per polarization: Ordinary = slow (larger n), Extraordinary = fast,
   for ALL positive principal indices, ALL crystal angles and ALL unit lab directions *)
Theorem C02_index_along_is_fresnel : forall theta phi nx ny nz d p,
  0 < nx -> 0 < ny -> 0 < nz -> unit_vec d ->
  index_along_gen theta phi nx ny nz d p = index_model theta phi nx ny nz d p.
Proof. exact index_along_is_model. Qed.

(* FULL STRENGTH for the repaired code (the Roots::No arm returns the double root b/2 instead of an `imaginary` 0): whatever
   roots::find_roots_quadratic answers — the exact case analysis, or `no real root` because the binary64 discriminant rounded
   below zero next to an optic axis — the generated index_along returns a finite positive value between the fast and the slow
   Fresnel solution (hence between the smallest and largest principal index), and on an optic axis (exact discriminant 0)
   exactly the Fresnel solution.  index_along_core_of_gen r is the generated body with the solver's answer r as a parameter;
   index_along_core_gen is that body at the exact answer. *)
Theorem C02_index_along_any_solver_answer : forall p nx ny nz sx sy sz r,
  0 < nx -> 0 < ny -> 0 < nz -> sx * sx + sy * sy + sz * sz = 1 ->
  r = RootsNo \/
  r = find_roots_quadratic_monic (index_along_b_gen nx ny nz sx sy sz) (index_along_c_gen nx ny nz sx sy sz) ->
  fresnel_index Extraordinary nx ny nz sx sy sz <= index_along_core_of_gen r p nx ny nz sx sy sz <= fresnel_index Ordinary nx ny nz sx sy sz /\
  0 < index_along_core_of_gen r p nx ny nz sx sy sz /\
  (fdisc (inv2 nx) (inv2 ny) (inv2 nz) (sx * sx) (sy * sy) (sz * sz) = 0 ->
   index_along_core_of_gen r p nx ny nz sx sy sz = fresnel_index p nx ny nz sx sy sz).
Proof. exact index_along_any_solver_answer. Qed.

Theorem C02_index_along_core_at_exact_answer : forall p nx ny nz sx sy sz,
  index_along_core_gen p nx ny nz sx sy sz =
  index_along_core_of_gen (find_roots_quadratic_monic (index_along_b_gen nx ny nz sx sy sz) (index_along_c_gen nx ny nz sx sy sz))
    p nx ny nz sx sy sz.
Proof. exact (fun p nx ny nz sx sy sz => match p with Ordinary => eq_refl | Extraordinary => eq_refl end). Qed.

(* finite (all partial operations defined), positive, between the smallest and largest principal index, fast <= mid <= slow *)
Theorem C02_bounds : forall nx ny nz sx sy sz,
  0 < nx -> 0 < ny -> 0 < nz -> sx * sx + sy * sy + sz * sz = 1 ->
  0 < min3 nx ny nz /\
  min3 nx ny nz <= fresnel_index Extraordinary nx ny nz sx sy sz /\
  fresnel_index Extraordinary nx ny nz sx sy sz <= fresnel_index Ordinary nx ny nz sx sy sz /\
  fresnel_index Ordinary nx ny nz sx sy sz <= max3 nx ny nz.
Proof. exact index_between_principal. Qed.

Theorem C02_defined : forall nx ny nz sx sy sz lo hi,
  0 < lo -> lo <= nx <= hi -> lo <= ny <= hi -> lo <= nz <= hi -> sx * sx + sy * sy + sz * sz = 1 ->
  fresnel_defined nx ny nz sx sy sz.
Proof. exact (fun nx ny nz sx sy sz lo hi H0 H1 H2 H3 H4 => proj1 (index_bounds nx ny nz sx sy sz lo hi H0 H1 H2 H3 H4)). Qed.

Theorem C02_mid_between : forall nx ny nz sx sy sz,
  0 < nx -> 0 < ny -> 0 < nz -> sx * sx + sy * sy + sz * sz = 1 ->
  fresnel_index Extraordinary nx ny nz sx sy sz <= mid3 nx ny nz <= fresnel_index Ordinary nx ny nz sx sy sz.
Proof. exact index_mid_between. Qed.

Theorem C02_index_along_positive : forall theta phi nx ny nz d p,
  0 < nx -> 0 < ny -> 0 < nz -> unit_vec d -> 0 < index_along_gen theta phi nx ny nz d p.
Proof. exact index_along_positive. Qed.

(* unchanged when the direction is reversed or mirrored in a principal plane (any sign pattern of the crystal-frame
   components), and reversal in the lab frame is reversal in the crystal frame *)
Theorem C02_symmetry : forall p nx ny nz sx sy sz ex ey ez,
  (ex = 1 \/ ex = -1) -> (ey = 1 \/ ey = -1) -> (ez = 1 \/ ez = -1) ->
  fresnel_index p nx ny nz (ex * sx) (ey * sy) (ez * sz) = fresnel_index p nx ny nz sx sy sz.
Proof. exact index_symmetric. Qed.

Theorem C02_frame_reversal : forall theta phi d, crystal_frame theta phi (vneg d) = vneg (crystal_frame theta phi d).
Proof. exact crystal_frame_neg. Qed.

(* rotation into the crystal frame: generated = Rz(phi) Ry(theta); unit vectors stay unit; a pump along lab z gets
   crystal-frame polar angles exactly (theta, phi) *)
Theorem C02_frame : forall theta phi d,
  to_crystal_frame_gen theta phi d = crystal_frame theta phi d /\
  (unit_vec d -> unit_vec (crystal_frame theta phi d)) /\
  crystal_frame theta phi (0, 0, 1) = polar_dir phi theta.
Proof. exact (fun theta phi d => conj (to_crystal_frame_gen_eq theta phi d)
         (conj (crystal_frame_unit theta phi d) (crystal_frame_pump theta phi))). Qed.

(* uniaxial media: one value is n_o for every direction, the other obeys 1/n^2 = cos^2/no^2 + sin^2/ne^2 with the angle
   measured from the optic axis (cos = s_z) *)
Theorem C02_uniaxial : forall no ne sx sy th,
  0 < no -> 0 < ne -> sx * sx + sy * sy + cos th * cos th = 1 ->
  (ne <= no -> fresnel_index Ordinary no no ne sx sy (cos th) = no /\
               fresnel_index Extraordinary no no ne sx sy (cos th) = n_uniaxial no ne th) /\
  (no <= ne -> fresnel_index Ordinary no no ne sx sy (cos th) = n_uniaxial no ne th /\
               fresnel_index Extraordinary no no ne sx sy (cos th) = no).
Proof. exact uniaxial_closed_form. Qed.

Theorem C02_uniaxial_any_direction : forall no ne sx sy sz,
  0 < no -> 0 < ne -> sx * sx + sy * sy + sz * sz = 1 ->
  (ne <= no -> fresnel_index Ordinary no no ne sx sy sz = no /\
               fresnel_index Extraordinary no no ne sx sy sz = 1 / sqrt (y_uniaxial (inv2 no) (inv2 ne) (sz * sz))) /\
  (no <= ne -> fresnel_index Ordinary no no ne sx sy sz = 1 / sqrt (y_uniaxial (inv2 no) (inv2 ne) (sz * sz)) /\
               fresnel_index Extraordinary no no ne sx sy sz = no).
Proof. exact uniaxial_closed_form_sz. Qed.

(* the double root occurs exactly on the two optic axes *)
Theorem C02_optic_axes : forall ax ay az px py pz,
  0 <= px -> 0 <= py -> 0 <= pz -> px + py + pz = 1 -> (az < ay < ax \/ ax < ay < az) ->
  (fdisc ax ay az px py pz = 0 <-> py = 0 /\ px = (ax - ay) / (ax - az) /\ pz = (ay - az) / (ax - az)).
Proof. exact disc_zero_iff_optic_axis. Qed.

(* walk-off.  PARTIAL: proved for the exact derivative (tan rho = -(1/n) dn/dtheta with d/dtheta the real derivative) of the
   uniaxial model with the pump along lab z.  The code replaces the derivative by the central difference with step
   eps^(1/3) |theta| (walkoff_gen, C02_walkoff_gen_is_central_difference); the truncation/rounding error of that difference
   (the 1e-6 rad of the property) is bounded by C02_walkoff_truncation_partial in terms of the third derivative of
   theta |-> n(theta); that derivative bound and the binary64 rounding of the quotient are measured, not proved. *)
Theorem C02_walkoff_formula_partial : forall no ne phi th,
  0 < no -> 0 < ne ->
  (ne <= no ->
     walkoff_exact (fun t => index_model t phi no no ne (0, 0, 1) Extraordinary) th = walkoff_uniaxial_closed no ne th /\
     walkoff_exact (fun t => index_model t phi no no ne (0, 0, 1) Ordinary) th = 0) /\
  (no <= ne ->
     walkoff_exact (fun t => index_model t phi no no ne (0, 0, 1) Ordinary) th = walkoff_uniaxial_closed no ne th /\
     walkoff_exact (fun t => index_model t phi no no ne (0, 0, 1) Extraordinary) th = 0).
Proof. exact walkoff_model_pump. Qed.

(* the same for ANY unit beam direction d (s_z = -sin theta dx + cos theta dz): exact derivative in closed form *)
Theorem C02_walkoff_any_beam_partial : forall no ne phi d th,
  0 < no -> 0 < ne -> unit_vec d ->
  (ne <= no ->
     walkoff_exact (fun t => index_model t phi no no ne d Extraordinary) th = walkoff_uniaxial_general no ne d th /\
     walkoff_exact (fun t => index_model t phi no no ne d Ordinary) th = 0) /\
  (no <= ne ->
     walkoff_exact (fun t => index_model t phi no no ne d Ordinary) th = walkoff_uniaxial_general no ne d th /\
     walkoff_exact (fun t => index_model t phi no no ne d Extraordinary) th = 0).
Proof. exact walkoff_model_general. Qed.

Theorem C02_walkoff_sign_and_90 : forall no ne,
  0 < no -> 0 < ne ->
  walkoff_uniaxial_closed no ne (PI / 2) = 0 /\
  (forall th, 0 < th < PI / 2 ->
     (ne < no -> 0 < walkoff_uniaxial_closed no ne th) /\ (no < ne -> walkoff_uniaxial_closed no ne th < 0)).
Proof. exact (fun no ne H1 H2 => conj (walkoff_closed_at_90 no ne) (walkoff_closed_sign no ne H1 H2)). Qed.

Theorem C02_walkoff_gen_is_central_difference : forall n theta,
  exists h, walkoff_step_ok theta h /\
  walkoff_gen n theta = atan (- ((n (theta + h) - n (theta - h)) / (2 * h)) / n theta).
Proof. exact walkoff_gen_unfold. Qed.

(* PARTIAL: distance between the code's walk-off (central difference; whatever step branch the code takes, the step is
   positive and at most eps^(1/3) max(|theta|, 1): walkoff_step_ok) and the exact one, for any
   index function n that is three times differentiable with third derivative bounded by M near theta: M h^2 / (6 n(theta)).
   With h ~ 6e-6 |theta| the property's 1e-6 rad follows from any M <= 1e5; missing: that bound on the third derivative of
   theta |-> index (not proved), and the binary64 rounding of the quotient (measured). *)
Theorem C02_walkoff_truncation_partial : forall (n : R -> R) theta M,
  0 < n theta ->
  (forall t k, (k <= 3)%nat -> ex_derive_n n k t) ->
  (forall t, Rabs (Derive_n n 3 t) <= M) ->
  Rabs (walkoff_gen n theta - walkoff_exact n theta) <= M * (Rpower eps64 (1 / 3) * Rmax (Rabs theta) 1) ^ 2 / (6 * n theta).
Proof. exact walkoff_gen_truncation. Qed.

(* every orientation: the two divisors of the code's walk-off formula (step width, index) are non-zero over the reals *)
Theorem C02_walkoff_defined : forall theta phi nx ny nz d p,
  0 < nx -> 0 < ny -> 0 < nz -> unit_vec d ->
  (forall f, exists h, 0 < h /\ walkoff_np_prime_gen f (walkoff_theta_at_gen theta) =
                               (f (walkoff_theta_at_gen theta + h) - f (walkoff_theta_at_gen theta - h)) / (2 * h)) /\
  (forall t, 0 < index_along_gen t phi nx ny nz d p).
Proof. exact walkoff_defined. Qed.

(* non-vacuity *)
Example C02_nonvacuous_unit : unit_vec (0, 0, 1) /\ 0 * 0 + 0 * 0 + 1 * 1 = 1 /\ (0 <= 0 /\ 0 + 0 + 1 = 1).
Proof. unfold unit_vec, vnorm2, vdot, vx, vy, vz; cbn [fst snd]. repeat split; Lra.lra. Qed.
Example C02_nonvacuous_uniaxial : 0 * 0 + 0 * 0 + cos 0 * cos 0 = 1.
Proof. rewrite cos_0. Lra.lra. Qed.
Example C02_nonvacuous_axes : (1 < 2 < 3 \/ 3 < 2 < 1) /\ 0 < 1 < PI / 2.
Proof. split; [left; Lra.lra |]. pose proof PI2_1. Lra.lra. Qed.

(* ---------------------------------------------------------------------------------------------------------------------
   Composition with C01 (the property quantifies over every built-in crystal, in-window wavelength and temperature):
   the generated index_along applied to the generated principal indices of the crystal. *)
From SpdVerif Require Import Spec.CrystalTypes Spec.Published Gen.Crystals Proofs.Sellmeier Proofs.Compose_index.

Theorem C02_crystal_index_is_fresnel : forall c l T theta phi d p,
  in_window c l -> temp_ok T -> unit_vec d ->
  crystal_index c l T theta phi d p = index_model theta phi (nx_of c l T) (ny_of c l T) (nz_of c l T) d p.
Proof. exact crystal_index_is_fresnel. Qed.

(* finite, positive, physical: strictly between 1 and 4 for every crystal, orientation, direction and polarization *)
Theorem C02_crystal_index_bounds : forall c l T theta phi d p,
  in_window c l -> temp_ok T -> unit_vec d -> 1 < crystal_index c l T theta phi d p < 4.
Proof. exact crystal_index_bounds. Qed.

Example C02_crystal_nonvacuous : in_window KTP 1.55 /\ temp_ok 20 /\ unit_vec (0, 0, 1).
Proof. unfold in_window, temp_ok, unit_vec, vnorm2, vdot, vx, vy, vz; cbn. repeat split; Lra.lra. Qed.

(* ---- the 1e-6 rad walk-off clause in REAL arithmetic (C02_walkoff_truncation_partial with an explicit third-derivative bound
   |d^3 n / d theta^3| <= 29500 for 1 <= n_o, n_e <= 4, Proofs/C02_walkoff_bound.v): for every uniaxial medium in that index
   range, every crystal azimuth, every unit beam direction d and every crystal angle |theta| <= 90 deg, the walk-off the code
   computes — atan of minus its central difference quotient (own step eps^(1/3)|theta|) over the index, all operations exact —
   is within 1e-6 rad of the closed form for the direction-dependent polarization and exactly 0 for the other one.
   For a pump along z the closed form is the property's atan(1/2 n^2 (1/ne^2 - 1/no^2) sin 2 theta).
   What remains measured, not proved: the binary64 rounding of the quotient (about eps n / h; this — not the truncation — is
   why the property starts at 12 deg), checked every run by the interval goals and the 60-digit oracle. *)
From SpdVerif Require Import Proofs.C02_walkoff_bound Proofs.C02_walkoff_crystal.

Theorem C02_walkoff_1e6_real : forall no ne phi d theta p,
  1 <= no <= 4 -> 1 <= ne <= 4 -> unit_vec d -> Rabs theta <= PI / 2 ->
  (direction_dependent no ne p ->
     Rabs (walkoff_gen (fun t => index_along_gen t phi no no ne d p) theta - walkoff_uniaxial_general no ne d theta) <= 1e-6) /\
  (direction_independent no ne p ->
     walkoff_gen (fun t => index_along_gen t phi no no ne d p) theta = 0).
Proof. exact walkoff_1e6_real. Qed.

Theorem C02_walkoff_1e6_real_pump : forall no ne phi theta p,
  1 <= no <= 4 -> 1 <= ne <= 4 -> Rabs theta <= PI / 2 -> direction_dependent no ne p ->
  Rabs (walkoff_gen (fun t => index_along_gen t phi no no ne (0, 0, 1) p) theta - walkoff_uniaxial_closed no ne theta) <= 1e-6.
Proof. exact walkoff_1e6_real_pump. Qed.

(* every built-in uniaxial crystal, in-window wavelength, temperature in [-50, 200] C: generated tables + generated index_along *)
Theorem C02_walkoff_1e6_real_crystal : forall c l T phi d theta p,
  in_window c l -> temp_ok T -> unit_vec d -> Rabs theta <= PI / 2 ->
  dependent_polarization (meta_axis (get_meta c)) = Some p ->
  Rabs (walkoff_gen (fun t => crystal_index c l T t phi d p) theta -
        walkoff_uniaxial_general (nx_of c l T) (nz_of c l T) d theta) <= 1e-6 /\
  walkoff_gen (fun t => crystal_index c l T t phi d (match p with Ordinary => Extraordinary | Extraordinary => Ordinary end)) theta = 0.
Proof. exact walkoff_1e6_real_crystal. Qed.

Theorem C02_walkoff_third_derivative_bound : forall no ne dx dz,
  1 <= no <= 4 -> 1 <= ne <= 4 -> dx * dx + dz * dz <= 1 -> forall t,
  Rabs (Coquelicot.Derive.Derive_n (C02_walkoff.n_of no ne dx dz) 3 t) <= 29500.
Proof. exact third_derivative_bound. Qed.

(* crystal angles up to 180 deg (C02_walkoff_1e6_real covers |theta| <= 90 deg for ALL index pairs in [1, 4]; the property's domain is
   12..90 deg between optic axis and BEAM, which for a pump along z includes crystal angles 90..168 deg).  There the code's step
   eps^(1/3)|theta| is twice as long; the 1e-6 bound is proved for index pairs with |1/no^2 - 1/ne^2| <= 0.7 (any indices >= 1.2;
   every built-in crystal numerically) — PARTIAL for the rest of the box, where the crude third-derivative bound gives 1.8e-6 *)
Theorem C02_walkoff_1e6_real_wide_partial : forall no ne phi d theta p,
  1 <= no <= 4 -> 1 <= ne <= 4 -> Rabs (inv2 no - inv2 ne) <= 0.7 -> unit_vec d -> Rabs theta <= PI ->
  (direction_dependent no ne p ->
     Rabs (walkoff_gen (fun t => index_along_gen t phi no no ne d p) theta - walkoff_uniaxial_general no ne d theta) <= 1e-6) /\
  (direction_independent no ne p ->
     walkoff_gen (fun t => index_along_gen t phi no no ne d p) theta = 0).
Proof. exact walkoff_1e6_real_wide. Qed.

(* the theta-derivative used by walkoff_exact exists for the uniaxial model, any unit beam, either polarization: the conclusions
   `walkoff_exact ... = closed form` and `= 0` of C02_walkoff_formula_partial / C02_walkoff_any_beam_partial do not rest on Coq's
   totalised Derive *)
Theorem C02_walkoff_derivative_exists : forall no ne phi d p th,
  0 < no -> 0 < ne -> unit_vec d -> ex_derive (fun t => index_model t phi no no ne d p) th.
Proof. exact index_model_derivable. Qed.

Example C02_walkoff_nonvacuous : 1 <= 1.66 <= 4 /\ 1 <= 1.55 <= 4 /\ Rabs 0.5 <= PI / 2 /\ direction_dependent 1.66 1.55 Extraordinary /\
  dependent_polarization (meta_axis (get_meta BBO_1)) = Some Extraordinary.
Proof.
  pose proof PI2_1. repeat split; try Lra.lra.
  - rewrite Rabs_right; Lra.lra.
  - left. split; [Lra.lra | reflexivity].
Qed.

(* ---- walk-off closed form for ANY medium (biaxial included), away from the optic axes (exact discriminant > 0), any unit beam:
   -(1/n) dn/dtheta = 1/2 n^2 y',  y' = (b' -/+ (2 b b' - 4 c')/(2 sqrt D))/2 with b', c' explicit in the crystal-frame direction
   and its theta-derivative (Proofs/C02_walkoff_biaxial.v).  Exact derivative; the code's central difference is within
   M h^2/(6 n) of it by C02_walkoff_truncation_partial (no explicit M is proved for the biaxial index). *)
From SpdVerif Require Import Proofs.C02_walkoff_biaxial.

Theorem C02_walkoff_biaxial_partial : forall phi nx ny nz d p t,
  0 < nx -> 0 < ny -> 0 < nz -> unit_vec d ->
  0 < fdisc (inv2 nx) (inv2 ny) (inv2 nz) (vx (sfun phi d t) * vx (sfun phi d t)) (vy (sfun phi d t) * vy (sfun phi d t))
            (vz (sfun phi d t) * vz (sfun phi d t)) ->
  walkoff_exact (fun u => index_model u phi nx ny nz d p) t = walkoff_biaxial_closed phi nx ny nz d p t.
Proof. exact (fun phi nx ny nz d p t Hx Hy Hz Hd => walkoff_biaxial phi nx ny nz d Hx Hy Hz Hd p t). Qed.

Print Assumptions C02_disc_nonneg.
Print Assumptions C02_roots_of_fresnel.
Print Assumptions C02_interlace.
Print Assumptions C02_index_along_is_fresnel.
Print Assumptions C02_index_along_any_solver_answer.
Print Assumptions C02_index_along_core_at_exact_answer.
Print Assumptions C02_bounds.
Print Assumptions C02_defined.
Print Assumptions C02_mid_between.
Print Assumptions C02_index_along_positive.
Print Assumptions C02_symmetry.
Print Assumptions C02_frame_reversal.
Print Assumptions C02_frame.
Print Assumptions C02_uniaxial.
Print Assumptions C02_optic_axes.
Print Assumptions C02_walkoff_formula_partial.
Print Assumptions C02_walkoff_any_beam_partial.
Print Assumptions C02_uniaxial_any_direction.
Print Assumptions C02_walkoff_sign_and_90.
Print Assumptions C02_walkoff_gen_is_central_difference.
Print Assumptions C02_walkoff_truncation_partial.
Print Assumptions C02_walkoff_defined.
Print Assumptions C02_crystal_index_is_fresnel.
Print Assumptions C02_crystal_index_bounds.
Print Assumptions C02_walkoff_1e6_real.
Print Assumptions C02_walkoff_1e6_real_pump.
Print Assumptions C02_walkoff_1e6_real_crystal.
Print Assumptions C02_walkoff_third_derivative_bound.
Print Assumptions C02_walkoff_1e6_real_wide_partial.
Print Assumptions C02_walkoff_derivative_exists.
Print Assumptions C02_walkoff_biaxial_partial.
