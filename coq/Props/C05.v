(* C05 — property theorems.  This file contains statements, `exact` proofs, non-vacuity examples and Print Assumptions only.

   pm_integrand, pm_closure, pm_A1 … are GENERATED from src/phasematch/coincidences.rs on every run (Gen/PMIntegrand.v).
   pm_closure is the z-closure of get_pm_integrand as a function of its captured coefficients (As, Ai, Bs, Bi, Cs, Ci, Ds, Di, mx, my,
   m, n, hh, A5, A7, ee, ff); the integrand is that closure applied to the generated coefficients (first theorem, by conversion).
   All theorems below are PARTIAL with respect to the property text in one respect, stated once: they establish the exact
   plane-wave (zero-diffraction) form, that it is the limit of the real integrand for large waists (C05_waist_limit), and the
   quadrature error; the RATE of that convergence — the bound "<= 1e-3 for every waist >= 2 mm and L <= 20 mm" on the diffraction
   corrections (relative size L / (k W^2)) — is NOT proved: it is validated on the Rust code over the property's box by the S5 oracle
   of props/c05.py. *)
From Coq Require Import Reals.
From Coquelicot Require Import Coquelicot.
From SpdVerif Require Import Base.Rx Base.CxPM Model.PMParams Model.PMLimit Gen.PMIntegrand Gen.PMSimpson Proofs.C06_algebra Proofs.C06_swap
  Proofs.C06_defined Proofs.C05_closure Proofs.C05_limit Proofs.C05_sinc Proofs.C05_simpson_tac Proofs.C05_simpson Proofs.C05_waistlimit Proofs.C05_waistlimit_walkoff.
Local Open Scope R_scope.

Theorem C05_integrand_is_closure : forall p z, pm_integrand p z = pm_closure_of p z.
Proof. exact integrand_is_closure. Qed.

(* the fibre-coupled amplitude is 1/2 x (quadrature of the integrand over [-1, 1]); Q is `integrator.integrate` *)
Theorem C05_fiber_coupling_form : forall Q p, pm_fiber_coupling Q p = Cmult (RtoC (1 / 2)) (Q (pm_integrand p) (-1) 1).
Proof. exact fiber_coupling_form. Qed.

(* clause 1: collinear reduction of the generated integrand: A5 = A7 = 0, exponent A10 - A6^2 (A2 + A4 - A9) / denom2 *)
Theorem C05_collinear_reduction : forall p z, pm_collinear p -> pm_physical p ->
  pm_A5 p = RtoC 0 /\ pm_A7 p = RtoC 0 /\
  pm_numerator p z =
    Cexp (Cminus (pm_A10 p z)
                 (Cdiv (Cmult (pm_A6sq p z) (Cminus (Cplus (pm_A2 p z) (pm_A4 p z)) (pm_A9 p z))) (pm_denom2 p z))).
Proof. exact collinear_reduction. Qed.

(* the coefficients of a collinear setup: real parts are the plane-wave values; the imaginary parts are exactly the 1/k terms
   (DEL2s, DEL2i: waist position / k;  Cs, Ci, Ds, Di, m: L / k) that the zero-diffraction limit drops *)
Theorem C05_collinear_coefficients : forall p z, pm_collinear p ->
  fst (pm_A1 p z) = - (pm_Wx_SQ p + pm_Ws_SQ p) / 4 /\ fst (pm_A3 p z) = - (pm_Wx_SQ p + pm_Wi_SQ p) / 4 /\
  fst (pm_A2 p z) = - (pm_Wy_SQ p + pm_Ws_SQ p) / 4 /\ fst (pm_A4 p z) = - (pm_Wy_SQ p + pm_Wi_SQ p) / 4 /\
  fst (pm_A8 p z) = - pm_Wx_SQ p / 2 /\ fst (pm_A9 p z) = - pm_Wy_SQ p / 2 /\
  pm_A5 p = RtoC 0 /\ pm_A7 p = RtoC 0 /\
  pm_A6 p z = (0, pm_n p * (1 + z)) /\
  pm_A10 p z = (0, pm_ks_f p * p_z0s p + pm_ki_f p * p_z0i p + pm_ee p + pm_ff p * z) /\
  snd (pm_A1 p z) = - pm_DEL2s p + (pm_Cs p + pm_Ds p * z) /\ snd (pm_A3 p z) = - pm_DEL2i p + (pm_Ci p + pm_Di p * z) /\
  snd (pm_A2 p z) = - pm_DEL2s p + (pm_Cs p + pm_Ds p * z) /\ snd (pm_A4 p z) = - pm_DEL2i p + (pm_Ci p + pm_Di p * z) /\
  snd (pm_A8 p z) = - (pm_m p * z) /\ snd (pm_A9 p z) = - (pm_m p * z).
Proof. exact collinear_coefficients. Qed.

(* Delta k bookkeeping: ff = (L/2)(k_p - k_s - k_i - k_eff), pump wavenumber (and pump index) at omega_s + omega_i *)
Theorem C05_delta_k_bookkeeping : forall p,
  pm_ff p = 0.5 * p_L p * (pm_k_p p - pm_k_s p - pm_k_i p - p_k_eff p) /\
  pm_k_p p = p_n_p p * (p_omega_s p + p_omega_i p) / 299792458 /\
  pm_k_s p = signum (p_dirz_s p) * (p_n_s p * p_omega_s p / 299792458) /\
  pm_k_i p = signum (p_dirz_i p) * (p_n_i p * p_omega_i p / 299792458).
Proof. exact delta_k_bookkeeping. Qed.

(* the walk-off coefficient n of the closure (A6 = i n (1 + z)) is (L/2) tan(rho) for every walk-off angle, positive or negative *)
Theorem C05_walkoff_length : forall p, pm_n p = 0.5 * p_L p * tan (p_rho p).
Proof. exact walkoff_length. Qed.

(* clause 2: zero-diffraction closed form of the closure (wx = Wx^2, wy = Wy^2, ss = Ws_SQ, si = Wi_SQ, nn = (L/2) tan rho):
   integrand(z) = apod(z) (4 / sqrt(Sigma_x Sigma_y)) exp(-a^2 (1+z)^2) Cexp(i (psi_h + ee + ff z)),  a^2 = nn^2 (ss + si) / Sigma_y;
   for round beams Sigma_x = Sigma_y = Sigma = Wp^2 Ws^2 + Wp^2 Wi^2 + Ws^2 Wi^2 *)
Theorem C05_zero_diffraction_partial : forall apod wx wy ss si nn psi_h ee ff z,
  0 < ss -> 0 < si -> 0 <= wx -> 0 <= wy ->
  pm_closure apod 1 (RtoC (- (wx + ss) / 4)) (RtoC (- (wx + si) / 4)) (RtoC (- (wy + ss) / 4)) (RtoC (- (wy + si) / 4))
             0 0 0 0 (RtoC (- wx / 2)) (RtoC (- wy / 2)) 0 nn (0, psi_h) (RtoC 0) (RtoC 0) (RtoC 0) ee ff z =
  Cmult (RtoC (apod z * (4 / sqrt (Sig ss si wx * Sig ss si wy)) * exp (- (nn * nn * (ss + si) / Sig ss si wy) * ((1 + z) * (1 + z)))))
        (Cexp (0, psi_h + ee + ff * z)).
Proof. exact closure_zero_diffraction. Qed.

Theorem C05_zero_diffraction_modulus_partial : forall apod wx wy ss si nn psi_h ee ff z,
  0 < ss -> 0 < si -> 0 <= wx -> 0 <= wy ->
  Cmod (pm_closure apod 1 (RtoC (- (wx + ss) / 4)) (RtoC (- (wx + si) / 4)) (RtoC (- (wy + ss) / 4)) (RtoC (- (wy + si) / 4))
                   0 0 0 0 (RtoC (- wx / 2)) (RtoC (- wy / 2)) 0 nn (0, psi_h) (RtoC 0) (RtoC 0) (RtoC 0) ee ff z) =
  Rabs (apod z) * (4 / sqrt (Sig ss si wx * Sig ss si wy)) * exp (- (nn * nn * (ss + si) / Sig ss si wy) * ((1 + z) * (1 + z))).
Proof. exact closure_zero_diffraction_modulus. Qed.

(* the zero-diffraction closed form IS the large-waist limit of the real integrand: for every collinear setup, with all three waists
   multiplied by s (every diffraction coefficient DEL2s, DEL2i, Cs, Ci, Ds, Di, m and the walk-off n kept at their actual values) and
   the integrand rescaled by s^4,  s^4 integrand_s(z) -> apod(z) (4 / sqrt(Sigma_x Sigma_y)) exp(i (psi0 + ff z))  as s -> infinity.
   (Qualitative: the RATE — the 1e-3 at 2 mm of the property text — is validated by the S5 oracle, not proved.) *)
Theorem C05_waist_limit : forall p z,
  pm_collinear p -> 0 < pm_Ws_SQ p -> 0 < pm_Wi_SQ p ->
  filterlim (fun s => Cmult (RtoC ((s * s) * (s * s))) (pm_integrand (pm_scale_waists s p) z)) (Rbar_locally p_infty)
            (locally (plane_wave_value (p_apod p) (pm_Wx_SQ p) (pm_Wy_SQ p) (pm_Ws_SQ p) (pm_Wi_SQ p)
                                       (pm_ks_f p * p_z0s p + pm_ki_f p * p_z0i p) (pm_ee p) (pm_ff p) z)).
Proof. exact integrand_waist_limit. Qed.

(* the same for the closure with arbitrary coefficient values *)
Theorem C05_closure_waist_limit : forall apod wx wy ss si dls dli cs ci ds di m nn psi_h ee ff z,
  0 < ss -> 0 < si -> 0 <= wx -> 0 <= wy ->
  filterlim (scaled apod wx wy ss si dls dli cs ci ds di m nn psi_h ee ff z) (Rbar_locally p_infty)
            (locally (plane_wave_value apod wx wy ss si psi_h ee ff z)).
Proof. exact waist_limit. Qed.

(* ... and with the walk-off length scaled like the waists (fixed walk-off-to-waist ratio) the limit is the FULL zero-diffraction closed form,
   walk-off Gaussian included:  s^4 closure(waists x s, n x s) -> apod (4/sqrt(Sx Sy)) exp(-a^2 (1+z)^2) e^{i(psi0 + ff z)} *)
Theorem C05_closure_waist_limit_walkoff : forall apod wx wy ss si dls dli cs ci ds di m nn psi_h ee ff z,
  0 < ss -> 0 < si -> 0 <= wx -> 0 <= wy ->
  filterlim (scaledW apod wx wy ss si dls dli cs ci ds di m nn psi_h ee ff z) (Rbar_locally p_infty)
            (locally (plane_wave_valueW apod wx wy ss si nn psi_h ee ff z)).
Proof. exact waist_limitW. Qed.

(* clause 3: the sinc integral *)
Theorem C05_sinc : forall psi ff,
  Cmult (RtoC (1 / 2)) (Cint (fun z => Cexp (0, psi + ff * z)) (-1) 1) = Cmult (Cexp (0, psi)) (RtoC (sinc ff)).
Proof. exact sinc_integral. Qed.

(* plane-wave limit: without walk-off and apodization, (1/2) Int_{-1}^{1} of the zero-diffraction closure is
   (4 / sqrt(Sigma_x Sigma_y)) e^{i psi0} sinc(ff); modulus (4/Sigma) |sinc(Delta k_z L / 2)|, i.e. 4/Sigma at perfect phase matching
   and |sinc| relative to it *)
Theorem C05_plane_wave_limit_partial : forall wx wy ss si psi_h ee ff,
  0 < ss -> 0 < si -> 0 <= wx -> 0 <= wy ->
  Cmult (RtoC (1 / 2)) (Cint (zd_closure wx wy ss si psi_h ee ff 0) (-1) 1) =
    Cmult (RtoC (4 / sqrt (Sig ss si wx * Sig ss si wy))) (Cmult (Cexp (0, psi_h + ee)) (RtoC (sinc ff))) /\
  Cmod (Cmult (RtoC (1 / 2)) (Cint (zd_closure wx wy ss si psi_h ee ff 0) (-1) 1)) =
    4 / sqrt (Sig ss si wx * Sig ss si wy) * Rabs (sinc ff).
Proof.
  exact (fun wx wy ss si psi_h ee ff H1 H2 H3 H4 =>
           conj (plane_wave_limit wx wy ss si psi_h ee ff H1 H2 H3 H4) (plane_wave_modulus wx wy ss si psi_h ee ff H1 H2 H3 H4)).
Qed.

(* with pump walk-off (nn = (L/2) tan rho <> 0), at perfect phase matching: (4/Sigma) sqrt(pi) erf(x) / (2 x),
   x = 2 |nn| sqrt((ss + si) / Sigma_y) = L |tan rho| sqrt((Ws^2 + Wi^2) / Sigma) *)
Theorem C05_walkoff_peak_partial : forall wx wy ss si nn psi_h ee,
  0 < ss -> 0 < si -> 0 <= wx -> 0 <= wy -> nn <> 0 ->
  Cmult (RtoC (1 / 2)) (Cint (zd_closure wx wy ss si psi_h ee 0 nn) (-1) 1) =
  Cmult (RtoC (4 / sqrt (Sig ss si wx * Sig ss si wy) *
               (sqrt PI * erf (2 * (Rabs nn * sqrt ((ss + si) / Sig ss si wy))) / (2 * (2 * (Rabs nn * sqrt ((ss + si) / Sig ss si wy)))))))
        (Cexp (0, psi_h + ee)).
Proof. exact walkoff_peak. Qed.

Theorem C05_peak_integrals : (forall a, 0 < a ->
    1 / 2 * RInt (fun z => exp (- (a * a) * ((1 + z) * (1 + z)))) (-1) 1 = sqrt PI * erf (2 * a) / (2 * (2 * a))) /\
  1 / 2 * RInt (fun z => exp (- (0 * 0) * ((1 + z) * (1 + z)))) (-1) 1 = 1.
Proof. exact (conj walkoff_peak_integral nowalkoff_peak_integral). Qed.

(* clause 4: the quadrature the default integrator uses (Simpson, divs = 50 |-> 48 panels) against the exact plane-wave integral,
   through the third side lobe and beyond (|ff| <= 4 pi) *)
Theorem C05_simpson48_sinc : forall psi ff, -4 * PI <= ff <= 4 * PI ->
  Cmod (Cminus (Cmult (RtoC (1 / 2)) (Csimpson (fun z => Cexp (0, psi + ff * z)) (-1) 1 50))
               (Cmult (Cexp (0, psi)) (RtoC (sinc ff)))) <= 3.1e-5.
Proof. exact simpson48_plane_wave. Qed.

Theorem C05_simpson_default_panels : simpson_divs 50 = 48%nat.
Proof. exact simpson_divs_50. Qed.

(* the Simpson rule of the theorem above is the one translated from src/math/integration.rs, and Integrator::default() is divs = 50 *)
Theorem C05_simpson_model_is_source :
  (forall f a b divs, gen_simpson f a b divs = simpson f a b divs) /\
  gen_default_simpson_divs = 50%nat /\ (gen_simpson_min_divs <= simpson_divs 50)%nat.
Proof. exact (conj simpson_is_generated default_divs_is_50). Qed.

(* non-vacuity *)
Example C05_collinear_example : pm_collinear pm_example_collinear /\ pm_physical pm_example_collinear.
Proof. exact collinear_example. Qed.

Example C05_zero_diffraction_instance : forall z,
  Cmod (pm_closure (fun _ => 1) 1 (RtoC (- (6.25e-6 + 4e-6) / 4)) (RtoC (- (6.25e-6 + 9e-6) / 4)) (RtoC (- (6.25e-6 + 4e-6) / 4))
                   (RtoC (- (6.25e-6 + 9e-6) / 4)) 0 0 0 0 (RtoC (- (6.25e-6) / 2)) (RtoC (- (6.25e-6) / 2)) 0 0.00007 (0, 0.3)
                   (RtoC 0) (RtoC 0) (RtoC 0) 1.5 2 z) =
  Rabs 1 * (4 / sqrt (Sig 4e-6 9e-6 6.25e-6 * Sig 4e-6 9e-6 6.25e-6)) *
  exp (- (0.00007 * 0.00007 * (4e-6 + 9e-6) / Sig 4e-6 9e-6 6.25e-6) * ((1 + z) * (1 + z))).
Proof. exact zero_diffraction_instance. Qed.

Print Assumptions C05_integrand_is_closure.
Print Assumptions C05_fiber_coupling_form.
Print Assumptions C05_collinear_reduction.
Print Assumptions C05_collinear_coefficients.
Print Assumptions C05_delta_k_bookkeeping.
Print Assumptions C05_walkoff_length.
Print Assumptions C05_zero_diffraction_partial.
Print Assumptions C05_zero_diffraction_modulus_partial.
Print Assumptions C05_waist_limit.
Print Assumptions C05_closure_waist_limit.
Print Assumptions C05_closure_waist_limit_walkoff.
Print Assumptions C05_sinc.
Print Assumptions C05_plane_wave_limit_partial.
Print Assumptions C05_walkoff_peak_partial.
Print Assumptions C05_peak_integrals.
Print Assumptions C05_simpson48_sinc.
Print Assumptions C05_simpson_default_panels.
Print Assumptions C05_simpson_model_is_source.
