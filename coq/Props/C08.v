(* C08 — property theorems.  Statements, `exact` proofs, non-vacuity Examples and Print Assumptions only.
   efficiencies_from_counts and its `_defined` predicate (one conjunct per division / sqrt the Rust body performs, each
   under its path condition) are GENERATED from src/spdc/efficiencies.rs; spectrum_jsi / spectrum_jsi_singles are the
   generated per-point spectra over the oracle integrals pm_re/pm_im/pm_singles of `setup` (the two several-hundred-line
   fibre-coupling integrands are not modelled here); counts_* are the hand model of src/spdc/counts.rs (tied in C07). *)
From Coq Require Import Reals Bool List.
From Coquelicot Require Import Coquelicot.
From SpdVerif Require Import Base.Rx Model.SpectrumSetup Gen.Spectrum Gen.Efficiencies Model.Spectrum Spec.Overlap
  Proofs.C07_defined Proofs.C08_efficiency Proofs.C08_overlap Proofs.C08_sums Proofs.C08_examples.
From SpdVerif Require Import Base.CxPM Model.PMParams Model.PMLimit Gen.PMIntegrand Gen.PMSingles Proofs.C05_closure
  Proofs.C05_waistlimit_walkoff Proofs.PM_singles_limit Proofs.C08_limit_generated Proofs.C08_limit_from_integrands Proofs.C08_limit_examples.
Local Open Scope R_scope.

(* ---------- 1. efficiency algebra, for all triples of rates with non-negative singles *)
Theorem C08_no_division_by_zero : forall c rs ri, 0 <= rs -> 0 <= ri -> efficiencies_from_counts_defined c rs ri.
Proof. exact efficiencies_defined. Qed.

Theorem C08_efficiency_algebra : forall c rs ri,
  let e := efficiencies_from_counts c rs ri in
  (ri <> 0 -> eff_signal e = c / ri) /\ (ri = 0 -> eff_signal e = 0) /\
  (rs <> 0 -> eff_idler e = c / rs) /\ (rs = 0 -> eff_idler e = 0) /\
  (rs <> 0 -> ri <> 0 -> eff_symmetric e = c / (sqrt rs * sqrt ri)) /\ (rs = 0 \/ ri = 0 -> eff_symmetric e = 0) /\
  eff_coincidences e = c /\ eff_signal_singles e = rs /\ eff_idler_singles e = ri.
Proof. exact efficiencies_values. Qed.

(* the code divides by sqrt(Rs)·sqrt(Ri) (fix F19: the product Rs·Ri can leave binary64); over the reals and for non-negative
   rates this is the property's C / sqrt(Rs·Ri) *)
Theorem C08_symmetric_property_form : forall c rs ri,
  0 <= rs -> 0 <= ri -> rs <> 0 -> ri <> 0 -> eff_symmetric (efficiencies_from_counts c rs ri) = c / sqrt (rs * ri).
Proof. exact symmetric_is_property_form. Qed.

Theorem C08_efficiencies_in_unit_interval : forall c rs ri,
  0 <= c -> c <= rs -> c <= ri ->
  let e := efficiencies_from_counts c rs ri in
  0 <= eff_signal e <= 1 /\ 0 <= eff_idler e <= 1 /\ 0 <= eff_symmetric e <= 1.
Proof. exact efficiencies_in_unit. Qed.

Theorem C08_symmetric_is_geometric_mean : forall c rs ri,
  0 <= c -> 0 < rs -> 0 < ri ->
  let e := efficiencies_from_counts c rs ri in eff_symmetric e = sqrt (eff_signal e * eff_idler e).
Proof. exact efficiencies_geometric_mean. Qed.

(* ---------- 2. non-negativity of rates *)
Theorem C08_nonneg : forall corr pts dw2 s sw,
  0 <= corr -> 0 <= dw2 ->
  (forall p, In p pts -> 0 <= spectrum_jsi (fst p) (snd p) s /\ 0 <= spectrum_jsi_singles (fst p) (snd p) s
                         /\ 0 <= spectrum_jsi_singles (snd p) (fst p) sw) ->
  0 <= counts_coincidences corr pts dw2 s /\ 0 <= counts_singles_signal corr pts dw2 s /\ 0 <= counts_singles_idler corr pts dw2 sw.
Proof. exact counts_nonneg. Qed.

Theorem C08_spectra_nonneg : forall ws wi s,
  physical s -> (invalid_frequencies ws wi s = false -> indices_pos s ws wi) -> 0 <= pm_singles s ws wi ->
  0 <= spectrum_jsi ws wi s /\ 0 <= spectrum_jsi_singles ws wi s.
Proof. exact spectra_nonneg. Qed.

(* ---------- 3. the limit formulas *)
Theorem C08_overlap : forall Wp Ws Wi,
  0 < Wp -> 0 < Ws -> 0 < Wi ->
  0 < W_h Wp Ws /\ / (W_h Wp Ws) ^ 2 = / Wp ^ 2 + / Ws ^ 2 /\
  0 < eta Wi (W_h Wp Ws) <= 1 /\ (eta Wi (W_h Wp Ws) = 1 <-> Wi = W_h Wp Ws).
Proof.
  exact (fun Wp Ws Wi Hp Hs Hi => conj (W_h_pos Wp Ws Hp Hs) (conj (W_h_spec Wp Ws Hp Hs)
           (conj (eta_range Wi _ Hi (W_h_pos Wp Ws Hp Hs)) (eta_one_iff Wi _ Hi (W_h_pos Wp Ws Hp Hs))))).
Qed.

Theorem C08_F_range : forall x, 0 <= x -> 0 < F_walkoff x <= 1.
Proof. exact F_walkoff_range0. Qed.

Theorem C08_no_walkoff : forall Wp Ws L, Wp <> 0 -> F_walkoff 0 = 1 /\ R_walkoff Wp Ws L 0 = 1.
Proof. exact (fun Wp Ws L H => conj F_walkoff_0 (R_no_walkoff Wp Ws L H)). Qed.

Theorem C08_R_integrand_range : forall Wp Ws L tanrho z1 z2, 0 < Wp -> 0 < Ws -> 0 < R_integrand Wp Ws L tanrho z1 z2 <= 1.
Proof. exact R_integrand_range. Qed.

(* R in (0,1]; the iterated Riemann integral exists (inner integral continuous in z1 by differentiation under the integral) *)
Theorem C08_R_range : forall Wp Ws L tanrho,
  0 < Wp -> 0 < Ws ->
  ex_RInt (fun z1 => RInt (fun z2 => R_integrand Wp Ws L tanrho z1 z2) (-1) 1) (-1) 1 /\
  (forall z1, ex_RInt (fun z2 => R_integrand Wp Ws L tanrho z1 z2) (-1) 1) /\
  0 < R_walkoff Wp Ws L tanrho <= 1.
Proof.
  exact (fun Wp Ws L t Hp Hs => conj (R_outer_ex Wp Ws L t Hp Hs) (conj (fun z1 => R_inner_ex Wp Ws L t z1 Hp Hs) (R_walkoff_range Wp Ws L t Hp Hs))).
Qed.

(* ---------- 3b. the no-diffraction limit, PROVED (as a limit) on the GENERATED integrands (group I's proofs:
   Gen/PMIntegrand.v pm_integrand = coincidence integrand, Gen/PMSingles.v pms_integrand = singles integrand, both translated
   from the Rust source).  Collinear setup, round beams Wp/Ws/Wi, no apodization, perfect phase matching (ff = L Δk_z/2 = 0);
   pm_scale_wr s scales the three waists and the walk-off length by s.  Pointwise s^4·pm_integrand -> Lc, s^6·pms_integrand -> Ls,
   and  Wi²·|½∫Lc|² / (¼∬|Ls|) = limit_ratio = η·F²/R  with η, F, R, x of Spec/Overlap.v.
   Not proved: the RATE of convergence (the property's 1e-4 at waists >= 1 mm) — validated by the oracle. *)
Theorem C08_limit_generated : forall p Wp Ws Wi,
  pm_collinear p ->
  p_wpx p = Wp -> p_wpy p = Wp -> p_wsx p = Ws -> p_wsy p = Ws -> p_wix p = Wi -> p_wiy p = Wi ->
  0 < Wp -> 0 < Ws -> 0 < Wi ->
  (forall z, p_apod p z = 1) -> pm_ff p = 0 -> pms_k_p p <> 0 -> pms_k_s p <> 0 ->
  let psi := pm_ks_f p * p_z0s p + pm_ki_f p * p_z0i p + pm_ee p in
  let Lc := coinc_limit_integrand Wp Ws Wi (p_L p) (tan (p_rho p)) psi in
  let Ls := singles_limit_integrand Wp Ws (p_L p) (tan (p_rho p)) in
  (forall z, filterlim (fun s => Cmult (RtoC ((s * s) * (s * s))) (pm_integrand (pm_scale_wr s p) z)) (Rbar_locally p_infty) (locally (Lc z))) /\
  (forall z1 z2, filterlim (fun s => Cmult (RtoC ((s * s) * (s * s) * (s * s))) (pms_integrand (pm_scale_wr s p) z1 z2))
                           (Rbar_locally p_infty) (locally (Ls z1 z2))) /\
  Wi ^ 2 * Cmod (Cmult (RtoC (1 / 2)) (Cint Lc (-1) 1)) ^ 2 /
    (/ 4 * RInt (fun z1 => RInt (fun z2 => Cmod (Ls z1 z2)) (-1) 1) (-1) 1) = limit_ratio Wp Ws Wi (p_L p) (tan (p_rho p)).
Proof. exact limit_ratio_generated. Qed.

Theorem C08_limit_coincidence_integrand : forall p z,
  pm_collinear p -> 0 < pm_Ws_SQ p -> 0 < pm_Wi_SQ p ->
  filterlim (fun s => Cmult (RtoC ((s * s) * (s * s))) (pm_integrand (pm_scale_wr s p) z)) (Rbar_locally p_infty)
            (locally (plane_wave_valueW (p_apod p) (pm_Wx_SQ p) (pm_Wy_SQ p) (pm_Ws_SQ p) (pm_Wi_SQ p) (0.5 * p_L p * tan (p_rho p))
                                        (pm_ks_f p * p_z0s p + pm_ki_f p * p_z0i p) (pm_ee p) (pm_ff p) z)).
Proof. exact coincidence_integrand_limit. Qed.

Theorem C08_limit_singles_integrand : forall p z1 z2,
  pm_collinear p -> pms_k_p p <> 0 -> pms_k_s p <> 0 -> 0 < pms_Ws_SQ p -> 0 < pms_Wx_SQ p -> 0 < pms_Wy_SQ p ->
  filterlim (fun s => Cmult (RtoC ((s * s) * (s * s) * (s * s))) (pms_integrand (pm_scale_wr s p) z1 z2)) (Rbar_locally p_infty)
            (locally (singles_limit_value (p_apod p) (pms_Wx_SQ p) (pms_Wy_SQ p) (pms_Ws_SQ p) (p_L p * tan (p_rho p)) (pms_C3 p) z1 z2)).
Proof. exact singles_integrand_limit. Qed.

(* ---------- 4. conditional chain (partial: the pointwise hypothesis is validated by the oracle, not proved) *)
Theorem C08_pointwise_partial : forall corr pts dw2 s sw,
  0 <= corr -> 0 <= dw2 ->
  (forall p, In p pts ->
     0 <= spectrum_jsi (fst p) (snd p) s /\
     spectrum_jsi (fst p) (snd p) s <= spectrum_jsi_singles (fst p) (snd p) s /\
     spectrum_jsi (fst p) (snd p) s <= spectrum_jsi_singles (snd p) (fst p) sw) ->
  let c := counts_coincidences corr pts dw2 s in
  let rs := counts_singles_signal corr pts dw2 s in
  let ri := counts_singles_idler corr pts dw2 sw in
  let e := efficiencies_from_counts c rs ri in
  0 <= c /\ c <= rs /\ c <= ri /\
  efficiencies_from_counts_defined c rs ri /\
  0 <= eff_signal e <= 1 /\ 0 <= eff_idler e <= 1 /\ 0 <= eff_symmetric e <= 1.
Proof. exact pointwise_implies_unit. Qed.

(* what the ratio of the two spectra is made of: everything but sec(theta_i) Wi^2 |pm|^2 / pm_singles cancels *)
Theorem C08_ratio_structure : forall ws wi s,
  invalid_frequencies ws wi s = false -> threshold s <= pump_spectral_amplitude (ws + wi) s ->
  common_norm ws wi s <> 0 -> cos (theta_s_e s / 1) <> 0 -> cos (theta_i_e s / 1) <> 0 -> wsx s * wsy s <> 0 -> pm_singles s ws wi <> 0 ->
  (pm_re s ws wi <> 0 \/ pm_im s ws wi <> 0) ->
  spectrum_jsi ws wi s / spectrum_jsi_singles ws wi s =
  (1 / cos (theta_i_e s / 1)) * (wix s * wiy s) * (pm_re s ws wi ^ 2 + pm_im s ws wi ^ 2) / pm_singles s ws wi.
Proof. exact ratio_structure. Qed.

(* ---------- non-vacuity *)
Example C08_nonvacuous_rates : 0 <= 3 /\ 3 <= 4 /\ 3 <= 5 /\ eff_signal (efficiencies_from_counts 3 4 5) = 3 / 5.
Proof. exact example_rates. Qed.
Example C08_nonvacuous_zero_rates : eff_symmetric (efficiencies_from_counts 0 0 0) = 0 /\ eff_signal (efficiencies_from_counts 1 2 0) = 0.
Proof. exact example_zero_rates. Qed.
Example C08_nonvacuous_limit :
  pm_collinear limit_example /\
  p_wpx limit_example = 0.0025 /\ p_wpy limit_example = 0.0025 /\ p_wsx limit_example = 0.002 /\ p_wsy limit_example = 0.002 /\
  p_wix limit_example = 0.003 /\ p_wiy limit_example = 0.003 /\
  (forall z, p_apod limit_example z = 1) /\ pm_ff limit_example = 0 /\ pms_k_p limit_example <> 0 /\ pms_k_s limit_example <> 0.
Proof. exact limit_example_ok. Qed.
Example C08_nonvacuous_pointwise : exists corr pts dw2 s sw, 0 <= corr /\ 0 <= dw2 /\ pts <> nil /\
  (forall p, In p pts ->
     0 <= spectrum_jsi (fst p) (snd p) s /\
     spectrum_jsi (fst p) (snd p) s <= spectrum_jsi_singles (fst p) (snd p) s /\
     spectrum_jsi (fst p) (snd p) s <= spectrum_jsi_singles (snd p) (fst p) sw).
Proof. exact example_pointwise. Qed.

Print Assumptions C08_no_division_by_zero.
Print Assumptions C08_efficiency_algebra.
Print Assumptions C08_symmetric_property_form.
Print Assumptions C08_efficiencies_in_unit_interval.
Print Assumptions C08_symmetric_is_geometric_mean.
Print Assumptions C08_nonneg.
Print Assumptions C08_spectra_nonneg.
Print Assumptions C08_overlap.
Print Assumptions C08_F_range.
Print Assumptions C08_no_walkoff.
Print Assumptions C08_R_integrand_range.
Print Assumptions C08_R_range.
Print Assumptions C08_limit_generated.
Print Assumptions C08_limit_coincidence_integrand.
Print Assumptions C08_limit_singles_integrand.
Print Assumptions C08_pointwise_partial.
Print Assumptions C08_ratio_structure.
