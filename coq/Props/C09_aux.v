(* C09_aux — AUXILIARY COMPOSITION theorems of property C09: statements that connect the property's own model with the generated
   kinematics / wrappers / grid-resolution / simple phase-matching models (Proofs/Compose_*.v).  Same house style as Props/C09.v
   (statements, `exact` proofs, non-vacuity Examples, Print Assumptions; pinned in Props/C09_aux_pins.v).  Built and audited as a
   separate target (vlib/auxprops.py): a failure here is reported as a broken obligation of the AUXILIARY COMPOSITION, the theorems of
   Props/C09.v stay accountable on their own. *)
From Coq Require Import Reals.
From SpdVerif Require Import Model.Hom2 Gen.HomSrc Model.Optics Model.Fresnel Gen.Kinematics Proofs.Compose_kinematics Proofs.Compose_kinematics_links
  Proofs.Compose_kinematics_examples.
Local Open Scope R_scope.

(* hom_time_delay (the delay at which the dip sits; an input of the theorems above) on the GENERATED Beam::average_transit_time
   (Gen/Kinematics.v): with the two transit times of ts_source_of_beams taken from the signal and idler beams of one crystal
   (length L, signed poling period `period`, index = CrystalSetup::index_along, any function), the generated hom_time_delay is
   the difference of the two half-crystal path lengths over the generated group velocities, plus the waist-position term. *)
Theorem C09_hom_time_delay_from_beams : forall index L period ws wi ds di ps pi_ wp_s wp_i,
  unit_vec ds -> unit_vec di -> vz ds <> 0 -> vz di <> 0 -> 0 <= L ->
  src_hom_time_delay (ts_source_of_beams index L period ws wi ds di ps pi_ wp_s wp_i) =
  (0.5 * L / Rabs (vz di)) / beam_group_velocity_gen index wi di pi_ period
  - (0.5 * L / Rabs (vz ds)) / beam_group_velocity_gen index ws ds ps period + (wp_i - wp_s) / light_speed.
Proof. exact kin_hom_time_delay. Qed.
Print Assumptions C09_hom_time_delay_from_beams.

(* identical signal and idler beams (degenerate, collinear, same polarization): only the waist positions delay the dip *)
Theorem C09_hom_time_delay_degenerate : forall index L period w d p wp_s wp_i,
  unit_vec d -> vz d <> 0 -> 0 <= L ->
  src_hom_time_delay (ts_source_of_beams index L period w w d d p p wp_s wp_i) = (wp_i - wp_s) / light_speed.
Proof. exact kin_hom_time_delay_degenerate. Qed.
Print Assumptions C09_hom_time_delay_degenerate.

(* the three delays of the two-source rates (ss, ii, si) of two crystals *)
Theorem C09_two_source_time_delays_from_beams :
  forall index1 index2 L1 L2 period1 period2 ws1 wi1 ws2 wi2 ds1 di1 ds2 di2 ps1 pi1 ps2 pi2 a1 b1 a2 b2,
  unit_vec ds1 -> unit_vec di1 -> unit_vec ds2 -> unit_vec di2 -> vz ds1 <> 0 -> vz di1 <> 0 -> vz ds2 <> 0 -> vz di2 <> 0 ->
  0 <= L1 -> 0 <= L2 ->
  let s1 := ts_source_of_beams index1 L1 period1 ws1 wi1 ds1 di1 ps1 pi1 a1 b1 in
  let s2 := ts_source_of_beams index2 L2 period2 ws2 wi2 ds2 di2 ps2 pi2 a2 b2 in
  let Ts1 := (0.5 * L1 / Rabs (vz ds1)) / beam_group_velocity_gen index1 ws1 ds1 ps1 period1 in
  let Ti1 := (0.5 * L1 / Rabs (vz di1)) / beam_group_velocity_gen index1 wi1 di1 pi1 period1 in
  let Ts2 := (0.5 * L2 / Rabs (vz ds2)) / beam_group_velocity_gen index2 ws2 ds2 ps2 period2 in
  let Ti2 := (0.5 * L2 / Rabs (vz di2)) / beam_group_velocity_gen index2 wi2 di2 pi2 period2 in
  src_ts_time_delays s1 s2 =
  ((Ts2 - Ts1 + (a2 - a1) / light_speed, Ti2 - Ti1 + (b2 - b1) / light_speed), Ti2 - Ts1 + (b2 - a1) / light_speed).
Proof. exact kin_ts_time_delays. Qed.
Print Assumptions C09_two_source_time_delays_from_beams.

(* non-vacuity: a beam along z in a 2 mm crystal *)
Example C09_time_delay_hypotheses_example : unit_vec ez /\ vz ez <> 0 /\ 0 <= 0.002.
Proof. exact kin_hom_nonvacuous. Qed.
