(* C05_aux — AUXILIARY COMPOSITION theorems of property C05: statements that connect the property's own model with the generated
   kinematics / wrappers / grid-resolution / simple phase-matching models (Proofs/Compose_*.v).  Same house style as Props/C05.v
   (statements, `exact` proofs, non-vacuity Examples, Print Assumptions; pinned in Props/C05_aux_pins.v).  Built and audited as a
   separate target (vlib/auxprops.py): a failure here is reported as a broken obligation of the AUXILIARY COMPOSITION, the theorems of
   Props/C05.v stay accountable on their own. *)
From Coq Require Import Reals.
From Coquelicot Require Import Coquelicot.
From SpdVerif Require Import Base.Rx Base.CxPM Model.PMLimit Proofs.C05_limit Proofs.C05_sinc Base.Vec3 Gen.PMSimple Proofs.Compose_pmsimple.
Local Open Scope R_scope.

(* math::sinc as translated from the source (Gen/PMSimple.v) is the sinc in which clause 3 and the plane-wave limit are stated *)
Theorem C05_sinc_is_generated : forall x, sinc_gen x = sinc x.
Proof. exact pms_sinc. Qed.
Print Assumptions C05_sinc_is_generated.

(* phasematch_sinc (src/phasematch/coincidences.rs; the "no fiber coupling" approximation of the crate, public API), translated with
   dk = SPDC::delta_k(omega_s, omega_i), L the crystal length and (wx, wy) the pump waist: sinc(Delta k_z L / 2) times the transverse
   Gaussian, real *)
Theorem C05_phasematch_sinc_form : forall (dk : R -> R -> vec) L wx wy ws wi,
  phasematch_sinc_gen dk L wx wy ws wi =
  (sinc (L / 2 * vz (dk ws wi)) * exp (- ((vx (dk ws wi) * wx)² + (vy (dk ws wi) * wy)²) / 2), 0).
Proof. exact pms_phasematch_sinc. Qed.
Print Assumptions C05_phasematch_sinc_form.

(* the plane-wave limit of the fibre-coupled integrand (C05_plane_wave_limit_partial: no walk-off, no apodization) has the modulus
   of the prefactor 4 / sqrt(Sigma_x Sigma_y) times |phasematch_sinc| taken with zero pump waist, at ff = Delta k_z L / 2 *)
Theorem C05_plane_wave_limit_is_phasematch_sinc : forall (dk : R -> R -> vec) L wx wy ss si psi_h ee ws wi,
  0 < ss -> 0 < si -> 0 <= wx -> 0 <= wy ->
  Cmod (Cmult (RtoC (1 / 2)) (Cint (zd_closure wx wy ss si psi_h ee (L * 0.5 * vz (dk ws wi)) 0) (-1) 1)) =
  4 / sqrt (Sig ss si wx * Sig ss si wy) * Rabs (fst (phasematch_sinc_gen dk L 0 0 ws wi)).
Proof. exact pms_sinc_is_plane_wave_limit. Qed.
Print Assumptions C05_plane_wave_limit_is_phasematch_sinc.

(* both approximations are real, of modulus at most 1 ... *)
Theorem C05_phasematch_approximations_bounded : forall (dk : R -> R -> vec) L wx wy ws wi,
  snd (phasematch_sinc_gen dk L wx wy ws wi) = 0 /\ Rabs (fst (phasematch_sinc_gen dk L wx wy ws wi)) <= 1 /\
  snd (phasematch_gaussian_gen dk L ws wi) = 0 /\ 0 < fst (phasematch_gaussian_gen dk L ws wi) <= 1.
Proof. exact pms_phasematch_bounded. Qed.
Print Assumptions C05_phasematch_approximations_bounded.

(* ... and equal to 1 at perfect phase matching *)
Theorem C05_phasematch_approximations_peak : forall (dk : R -> R -> vec) L wx wy ws wi, dk ws wi = (0, 0, 0) ->
  phasematch_sinc_gen dk L wx wy ws wi = (1, 0) /\ phasematch_gaussian_gen dk L ws wi = (1, 0).
Proof. exact pms_phasematched. Qed.
Print Assumptions C05_phasematch_approximations_peak.

(* gaussian_pm's constant 0.193 ("ensures that the Gaussian and sinc functions have the same widths"): at x_half = sqrt(ln 2 / 0.193)
   the Gaussian is exactly 1/2 and the sinc is 1/2 to 2e-4 — the two approximations have the same half width in amplitude *)
Theorem C05_gaussian_sinc_same_half_width :
  gaussian_pm_gen x_half = 1 / 2 /\ Rabs (sinc_gen x_half - 1 / 2) <= 2e-4.
Proof. exact pms_gaussian_sinc_same_half_width. Qed.
Print Assumptions C05_gaussian_sinc_same_half_width.

(* non-vacuity of the hypotheses above *)
Example C05_phasematch_example : (0 < 1 /\ 0 < 1 /\ 0 <= 2 /\ 0 <= 3) /\ (fun _ _ : R => ((0, 0, 0) : vec)) 1 2 = (0, 0, 0).
Proof. split; [repeat split; Lra.lra | reflexivity]. Qed.
