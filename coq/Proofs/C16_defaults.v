(* C16: omitted optional fields take the documented defaults (generated Default impls / serde(default) list / the
   unwrap_or literal of try_as_spdc vs the hand-pinned Spec/ConfigSpec.v). *)
From Coq Require Import String List Bool ZArith QArith.
From SpdVerif Require Import Base.CfgNumOps Spec.ConfigSpec Gen.ConfigTables Model.ConfigTypes Model.Config Gen.ConfigConv.
Import ListNotations.
Local Open Scope string_scope.

Fixpoint qlist_eqb (a b : list (string * Q)) : bool :=
  match a, b with
  | [], [] => true
  | (k, v) :: a', (k', v') :: b' => String.eqb k k' && Qeq_bool v v' && qlist_eqb a' b'
  | _, _ => false
  end.

Lemma default_numbers_documented : qlist_eqb default_numbers spec_default_numbers = true.
Proof. vm_compute. reflexivity. Qed.

Lemma default_threshold_documented : Qeq_bool default_threshold spec_spectrum_threshold = true /\
  Qeq_bool (default_threshold_q) spec_spectrum_threshold = true.
Proof. split; vm_compute; reflexivity. Qed.

Lemma default_decimals_documented : sig_figs_in_config = spec_config_decimals.
Proof. reflexivity. Qed.

Lemma default_symbols_documented :
  default_crystal_kind = "KTP" /\ default_pm_type = Type2_e_eo /\ default_crystal_theta_auto = true /\
  default_counter_propagation = false /\ default_signal_waist_position_auto = true /\
  default_signal_theta_external_none = true /\ default_idler_auto = true.
Proof. repeat split; reflexivity. Qed.

Lemma serde_defaults_documented :
  serde_default_fields =
  [ "CrystalConfig.phi_deg"; "CrystalConfig.theta_deg"; "CrystalConfig.counter_propagation"; "SignalConfig.phi_deg";
    "SignalConfig.waist_position_um"; "IdlerConfig.phi_deg"; "IdlerConfig.waist_position_um"; "SPDCConfig.idler";
    "SPDCConfig.periodic_poling" ].
Proof. reflexivity. Qed.

(* what an omitted field means: the generated table (serde(default) + the type's Default) is the documented one *)
Lemma serde_omitted_documented : serde_omitted_values = spec_omitted_values.
Proof. reflexivity. Qed.

(* EVERY serde-relevant attribute of every configuration type / field / variant, pinned exactly: no skip_serializing, no
   default = "fn", no rename, no flatten, no field added or removed -- otherwise this lemma stops holding *)
Lemma serde_attributes_documented :
  serde_attributes =
  [ ("AutoCalcParam", "derive(Debug,Clone,Serialize,Deserialize,PartialEq); serde(untagged)");
    ("AutoCalcParam.Auto", ""); ("AutoCalcParam.Param", "");
    ("CrystalConfig", "serde_as; derive(Debug,Clone,Serialize,Deserialize,PartialEq)");
    ("CrystalConfig.kind", ""); ("CrystalConfig.pm_type", "serde_as(as=""DisplayFromStr"")");
    ("CrystalConfig.phi_deg", "serde(default)"); ("CrystalConfig.theta_deg", "serde(default)");
    ("CrystalConfig.length_um", ""); ("CrystalConfig.temperature_c", ""); ("CrystalConfig.counter_propagation", "serde(default)");
    ("PumpConfig", "derive(Debug,Clone,Serialize,Deserialize,PartialEq)");
    ("PumpConfig.wavelength_nm", ""); ("PumpConfig.waist_um", ""); ("PumpConfig.bandwidth_nm", "");
    ("PumpConfig.average_power_mw", ""); ("PumpConfig.spectrum_threshold", "");
    ("SignalConfig", "derive(Debug,Clone,Serialize,Deserialize,PartialEq)");
    ("SignalConfig.wavelength_nm", ""); ("SignalConfig.phi_deg", "serde(default)"); ("SignalConfig.theta_deg", "");
    ("SignalConfig.theta_external_deg", ""); ("SignalConfig.waist_um", ""); ("SignalConfig.waist_position_um", "serde(default)");
    ("IdlerConfig", "derive(Debug,Clone,Serialize,Deserialize,PartialEq)");
    ("IdlerConfig.wavelength_nm", ""); ("IdlerConfig.phi_deg", "serde(default)"); ("IdlerConfig.theta_deg", "");
    ("IdlerConfig.theta_external_deg", ""); ("IdlerConfig.waist_um", ""); ("IdlerConfig.waist_position_um", "serde(default)");
    ("SPDCConfig", "derive(Debug,Clone,Serialize,Deserialize,PartialEq)");
    ("SPDCConfig.crystal", ""); ("SPDCConfig.pump", ""); ("SPDCConfig.signal", ""); ("SPDCConfig.idler", "serde(default)");
    ("SPDCConfig.periodic_poling", "serde(default)"); ("SPDCConfig.deff_pm_per_volt", "");
    ("PeriodicPolingConfig", "derive(Debug,Clone,Serialize,Deserialize,PartialEq,Default); serde(untagged)");
    ("PeriodicPolingConfig.Off", "serde(alias=""off"",alias=""none"",alias=""None""); default");
    ("PeriodicPolingConfig.Config", ""); ("PeriodicPolingConfig.Config.poling_period_um", "");
    ("PeriodicPolingConfig.Config.apodization", "serde(default)");
    ("ApodizationConfig", "derive(Debug,Clone,Serialize,Deserialize,PartialEq,Default); serde(tag=""kind"",content=""parameter"")");
    ("ApodizationConfig.Off", "serde(alias=""off"",alias=""none"",alias=""None""); default");
    ("ApodizationConfig.Gaussian", "serde(alias=""gaussian"",alias=""Gaussian"")"); ("ApodizationConfig.Gaussian.fwhm_um", "");
    ("ApodizationConfig.Bartlett", "serde(alias=""bartlett"",alias=""Bartlett"")");
    ("ApodizationConfig.Blackman", "serde(alias=""blackman"",alias=""Blackman"")");
    ("ApodizationConfig.Connes", "serde(alias=""connes"",alias=""Connes"")");
    ("ApodizationConfig.Cosine", "serde(alias=""cosine"",alias=""Cosine"")");
    ("ApodizationConfig.Hamming", "serde(alias=""hamming"",alias=""Hamming"")");
    ("ApodizationConfig.Welch", "serde(alias=""welch"",alias=""Welch"")");
    ("ApodizationConfig.Interpolate", "serde(alias=""interpolate"",alias=""Interpolate"")") ].
Proof. reflexivity. Qed.

(* the standalone From<SPDC> for PumpConfig / SignalConfig / IdlerConfig are the corresponding parts of From<SPDC> for SPDCConfig *)
Lemma standalone_conversions num (o : NumOps num) U (s : spdc num) :
  pump_as_config o U s = c_pump (as_config o U s) /\ signal_as_config o s = c_signal (as_config o U s) /\
  Param (idler_as_config o s) = c_idler (as_config o U s).
Proof. repeat split; reflexivity. Qed.

(* the model's treatment of an omitted threshold is the documented default *)
Lemma omitted_threshold_is_default num (o : NumOps num) U K minpos rj (c : spdc_cfg num) s nf :
  pc_threshold (c_pump c) = None -> try_as_spdc_steps o U K minpos rj c = Ok (s, nf) -> s_threshold s = nQ o spec_spectrum_threshold.
Proof.
  intros Hn. unfold try_as_spdc_steps.
  destruct (signal_step o K c); cbn [bind]; try discriminate.
  destruct (poling_step o K minpos rj c _); cbn [bind]; try discriminate.
  destruct (theta_step o K c _ _); cbn [bind]; try discriminate.
  destruct (idler_step o K c _ _ _); cbn [bind]; try discriminate.
  unfold finish_spdc. rewrite Hn. intros H. inversion H. reflexivity.
Qed.
