(* C16: omitted optional fields take the documented defaults (generated Default impls / serde(default) list / the
   unwrap_or literal of try_as_spdc vs the hand-pinned Spec/ConfigSpec.v). *)
From Coq Require Import String List Bool ZArith QArith.
From SpdVerif Require Import Base.CfgNumOps Spec.ConfigSpec Gen.ConfigTables Model.ConfigTypes Model.Config Gen.ConfigConv.
Import ListNotations.
Local Open Scope string_scope.

Fixpoint qlist_eqb (a b : list (string * Q)) : bool :=
  match a, b with
  | [], [] => true
  | (k, v) :: a', (k', v') :: b' => String.eqb k k' && Qeq_bool v v' && qlist_eqb a' b'
  | _, _ => false
  end.

Lemma default_numbers_documented : qlist_eqb default_numbers spec_default_numbers = true.
Proof. vm_compute. reflexivity. Qed.

Lemma default_threshold_documented : Qeq_bool default_threshold spec_spectrum_threshold = true /\
  Qeq_bool (default_threshold_q) spec_spectrum_threshold = true.
Proof. split; vm_compute; reflexivity. Qed.

Lemma default_decimals_documented : sig_figs_in_config = spec_config_decimals.
Proof. reflexivity. Qed.

Lemma default_symbols_documented :
  default_crystal_kind = "KTP" /\ default_pm_type = Type2_e_eo /\ default_crystal_theta_auto = true /\
  default_counter_propagation = false /\ default_signal_waist_position_auto = true /\
  default_signal_theta_external_none = true /\ default_idler_auto = true.
Proof. repeat split; reflexivity. Qed.

Lemma serde_defaults_documented :
  serde_default_fields =
  [ "CrystalConfig.phi_deg"; "CrystalConfig.theta_deg"; "CrystalConfig.counter_propagation"; "SignalConfig.phi_deg";
    "SignalConfig.waist_position_um"; "IdlerConfig.phi_deg"; "IdlerConfig.waist_position_um"; "SPDCConfig.idler";
    "SPDCConfig.periodic_poling" ].
Proof. reflexivity. Qed.

(* the model's treatment of an omitted threshold is the documented default *)
Lemma omitted_threshold_is_default num (o : NumOps num) U K minpos rj (c : spdc_cfg num) s nf :
  pc_threshold (c_pump c) = None -> try_as_spdc_steps o U K minpos rj c = Ok (s, nf) -> s_threshold s = nQ o spec_spectrum_threshold.
Proof.
  intros Hn. unfold try_as_spdc_steps.
  destruct (signal_step o K c); cbn [bind]; try discriminate.
  destruct (poling_step o K minpos rj c _); cbn [bind]; try discriminate.
  destruct (theta_step o K c _ _); cbn [bind]; try discriminate.
  destruct (idler_step o K c _ _ _); cbn [bind]; try discriminate.
  unfold finish_spdc. rewrite Hn. intros H. inversion H. reflexivity.
Qed.
