(* The composed instance with the CONCRETE index function of the built-in crystals (Proofs/Compose_index.v: generated index_along
   over the generated Sellmeier tables): every composition theorem holds for it (they are quantified over the index function), and
   the index is in (1, 4) inside the transmission window, so the waist position -L / (2 n_z) is a genuine quotient. *)
From Coq Require Import Reals Lra String List Bool.
From SpdVerif Require Import Base.Rx Base.Vec3 Base.CfgNumOps Model.NumInst Spec.ConfigSpec Model.ConfigTypes Model.Config Model.Cfg_Composed
  Proofs.C20_idempotent Proofs.Cfg_composed.
From SpdVerif Require Spec.CrystalTypes Gen.Crystals Model.Optics Model.Fresnel Proofs.Sellmeier Proofs.Compose_index.
Local Open Scope R_scope.

Definition opol (p : GI.polarization) : Model.Optics.polarization :=
  match p with GI.Ordinary => Model.Optics.Ordinary | GI.Extraordinary => Model.Optics.Extraordinary end.

(* CrystalSetup::index_along for a built-in crystal: wavelength in metres -> um, temperature in K -> C *)
Definition builtin_index_of (cs : crystal_setup R) (l : R) (d : vec) (p : GI.polarization) : R :=
  match Gen.Crystals.from_string (cs_kind cs) with
  | Some c => Compose_index.crystal_index c (l / (/ 1000000)) (cs_temperature cs - 27315 / 100) (cs_theta cs) (cs_phi cs) d (opol p)
  | None => 1      (* expression crystals (meval) are outside the model *)
  end.

Theorem builtin_index_bounds cs c l d p :
  Gen.Crystals.from_string (cs_kind cs) = Some c ->
  Proofs.Sellmeier.in_window c (l / (/ 1000000)) -> Proofs.Sellmeier.temp_ok (cs_temperature cs - 27315 / 100) -> Model.Fresnel.unit_vec d ->
  1 < builtin_index_of cs l d p < 4.
Proof.
  intros Hc Hw HT Hd. unfold builtin_index_of. rewrite Hc. apply Compose_index.crystal_index_bounds; assumption.
Qed.

(* the composition theorems at the built-in index *)
Theorem no_panic_builtin snell_inv sd_t sd_p U minpos rj c :
  (ConfigSites.searches_cannot_fail = false -> forall b e cs, snell_inv b e cs <> None) ->
  (ConfigSites.cfg_checks_total_reflection = false -> ConfigSites.searches_cannot_fail = false ->
     no_total_internal_reflection builtin_index_of snell_inv sd_t sd_p c) ->
  (ConfigSites.searches_cannot_fail = false -> angle_costs_defined builtin_index_of snell_inv sd_t sd_p c) ->
  (ConfigSites.searches_cannot_fail = false -> period_costs_defined builtin_index_of snell_inv sd_t sd_p c) ->
  is_panic (try_as_spdc R_ops U (oracles_of_model builtin_index_of snell_inv sd_t sd_p) minpos rj true c) = false.
Proof. apply no_panic_composed. Qed.

Theorem idempotent_builtin snell_inv sd_t sd_p minpos s s' nf :
  idler_defined_before_and_after builtin_index_of snell_inv sd_t sd_p minpos s ->
  try_as_optimum_now (oracles_of_model builtin_index_of snell_inv sd_t sd_p) minpos s = Ok (s', nf) ->
  try_as_optimum_now (oracles_of_model builtin_index_of snell_inv sd_t sd_p) minpos s' = Ok (s', nf).
Proof. apply idempotent_composed. Qed.
