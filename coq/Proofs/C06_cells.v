(* C06 — the rate clauses with the cell area the code uses: dw2 = dws * dwi, (dws, dwi) = Steps2D::division_widths() = the GENERATED
   division widths of the two axes (Gen/Grid.v: steps_division_width; Proofs/C07_counts.v: cell_area, reused).  The exchanged setup is
   evaluated on the transposed grid, whose cell area is the product in the other order. *)
From Coq Require Import Reals Lra List.
From Coquelicot Require Import Coquelicot.
From SpdVerif Require Import Base.Rx Base.CxPM Base.GridOps Gen.Grid Model.PMParams Gen.PMIntegrand Proofs.C06_swap Proofs.C06_defined
  Proofs.C06_spectrum Proofs.C07_counts.
Local Open Scope R_scope.

Lemma cell_area_is_generated xs xe nx ys ye ny :
  cell_area xs xe nx ys ye ny = pm_cell_area (steps_division_width Rops xs xe nx) (steps_division_width Rops ys ye ny).
Proof. reflexivity. Qed.

Lemma cell_area_transposed xs xe nx ys ye ny : cell_area ys ye ny xs xe nx = cell_area xs xe nx ys ye ny.
Proof. unfold cell_area. apply Rmult_comm. Qed.

Theorem counts_coincidences_exchange_cells Q S Ssw p0 pts xs xe nx ys ye ny :
  exchange_tie S Ssw -> (forall x, In x pts -> pm_physical (S (fst x) (snd x))) ->
  p_lambda_p p0 <> 0 -> p_n_s0 p0 <> 0 -> p_n_i0 p0 <> 0 -> p_n_p0 p0 <> 0 ->
  pm_counts_coincidences Q Ssw (pm_swap p0) (transpose pts) (cell_area ys ye ny xs xe nx) * p_ng_s p0 =
  pm_counts_coincidences Q S p0 pts (cell_area xs xe nx ys ye ny) * p_ng_i p0.
Proof. intros. rewrite cell_area_transposed. apply counts_coincidences_exchange_ratio; assumption. Qed.

Theorem singles_idler_rate_exchange_cells Ssw jsis p0 pts xs xe nx ys ye ny :
  p_lambda_p p0 <> 0 -> p_n_s0 p0 <> 0 -> p_n_i0 p0 <> 0 -> p_n_p0 p0 <> 0 ->
  pm_counts_singles_idler jsis Ssw p0 pts (cell_area xs xe nx ys ye ny) * p_ng_i p0 =
  pm_counts_singles_signal jsis Ssw (pm_swap p0) (transpose pts) (cell_area ys ye ny xs xe nx) * p_ng_s p0.
Proof. intros. rewrite cell_area_transposed. apply singles_idler_rate_exchange_ratio; assumption. Qed.

(* equal group indices: a witness that the hypothesis of the `_partial` rate theorems is satisfiable *)
Lemma equal_group_index_example : p_ng_s (pm_set_ng 1.8 pm_example) = p_ng_i (pm_set_ng 1.8 pm_example).
Proof. reflexivity. Qed.
