(* Tie #1 for the L4 models: the statement-by-statement translations of SPDCConfig::try_as_spdc and SPDC::try_as_optimum
   GENERATED from the source (Gen/CfgSteps.v) are EQUAL to the hand-written models of Model/Config.v (for every carrier, all
   numeric operations, all oracles).  A reordering of the source's statements, a call that sees another version of the crystal
   setup / beam / poling, a dropped `?`, swapped SPDC::new arguments ... change the generated definition and break this file. *)
From Coq Require Import String List Bool ZArith QArith.
From SpdVerif Require Import Base.CfgNumOps Spec.ConfigSpec Gen.ConfigTables Gen.ConfigSites Model.ConfigTypes Model.Config Gen.CfgSteps.
Import ListNotations.

Section Eq.
  Variable num : Type.
  Variable o : NumOps num.
  Variable U : units num.
  Variable K : oracles num.
  Variable minpos : num.
  Variable rj : bool.

  Theorem gen_try_as_spdc_steps_eq c :
    gen_try_as_spdc_steps o U K minpos rj c = try_as_spdc_steps o U K minpos rj c.
  Proof. reflexivity. Qed.

  (* try_as_optimum: the model instantiated with the two flags the generator reads off the source *)
  Theorem gen_try_as_optimum_eq s :
    gen_try_as_optimum o K minpos s =
    try_as_optimum o K minpos optimum_idler_sees_old_poling optimum_waist_sees_old_idler s.
  Proof.
    unfold gen_try_as_optimum, try_as_optimum, opt_signal, opt_crystal_poling, finish_optimum, poling_try_new_optimum,
      waist_position, waist_pos_raw, ninety_deg, optimum_idler_sees_old_poling, optimum_waist_sees_old_idler.
    cbv zeta.
    destruct (s_pp s) as [| per sg a]; [reflexivity |].
    destruct (optimum_poling_period o K minpos _ (s_pump s) (s_crystal s)) as [[p | []] | |]; reflexivity.
  Qed.
  (* ---- the helpers the two entry points call: generated bodies = the model's primitives *)
  Theorem gen_crystal_of_cfg_eq cfg : gen_crystal_of_cfg o cfg = crystal_of_cfg o cfg.
  Proof. reflexivity. Qed.

  Theorem gen_pump_of_cfg_eq p cs : gen_pump_of_cfg o p cs = pump_of_cfg o p cs.
  Proof. reflexivity. Qed.

  Theorem gen_signal_of_cfg_eq c cs : gen_signal_of_cfg o K c cs = beam_of_cfg o K (signal_polarization (cs_pm cs)) c cs.
  Proof. reflexivity. Qed.

  Theorem gen_idler_of_cfg_eq c cs : gen_idler_of_cfg o K c cs = beam_of_cfg o K (idler_polarization (cs_pm cs)) c cs.
  Proof. reflexivity. Qed.

  Theorem gen_apod_of_cfg_eq a : gen_apod_of_cfg o a = apod_of_cfg o a.
  Proof. destruct a; reflexivity. Qed.

  (* try_as_periodic_poling: the model instantiated with the rejection flag read off the source *)
  Theorem gen_poling_of_cfg_eq p signal pump cs :
    gen_poling_of_cfg o K minpos p signal pump cs = poling_of_cfg o K minpos cfg_rejects_bad_period p signal pump cs.
  Proof.
    destruct p as [| per a]; [reflexivity |]. unfold gen_poling_of_cfg, poling_of_cfg. cbv zeta. rewrite gen_apod_of_cfg_eq.
    destruct per; reflexivity.
  Qed.

  Theorem gen_poling_flag : @gen_poling_rejects_zero = cfg_rejects_bad_period.
  Proof. reflexivity. Qed.
End Eq.
