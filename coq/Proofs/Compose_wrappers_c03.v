(* The forwarders of `impl SPDC` through which the crate reaches delta_k, the optimum idler and the optimum crystal angle
   (src/spdc/spdc_obj.rs: delta_k, optimum_idler, assign_optimum_idler, assign_optimum_crystal_theta — the four that the theorems of
   Props/C03_aux.v are about; the other forwarders are in Compose_wrappers_misc.v), as translated one per file by tools/gen/wrappers.py (Gen/W_SPDC_*.v): which callee, which arguments, in
   which order, which fields are overwritten, how `?` propagates.

   Part 1 pins every wrapper: (i) the callee names and every call of the body with its argument expressions, as the string lists
   the generator reads off the source (reflexivity); (ii) the generated definition against the expected right-hand side, with the
   callee record K instantiated BY FIELD NAME.  Exchanging two forwarded arguments or two callees, calling a different function,
   dropping or reordering a field assignment makes a `reflexivity` below fail, i.e. breaks S3 of every check that imports this file.

   Part 2 instantiates the opaque value type with the C03 model (Model/Idler.v):
     SPDC::delta_k(omega_s, omega_i)  is  delta_k_model index omega_s omega_i signal idler pump pp     (C03_delta_k_def applies),
     SPDC::optimum_idler()            is  optimum_idler index pm cp signal pump pp                     (C03's optimum idler),
     SPDC::assign_optimum_idler()     stores that idler with the waist of the previous idler and touches nothing else. *)
From Coq Require Import Reals Bool List String.
From SpdVerif Require Import Base.Rx Base.Vec3 Gen.Idler Model.Idler Gen.WrapBase.
From SpdVerif Require Import Gen.W_SPDC_delta_k Gen.W_SPDC_optimum_idler Gen.W_SPDC_assign_optimum_idler Gen.W_SPDC_assign_optimum_crystal_theta.
Import ListNotations.
Local Open Scope R_scope.

(* ---------------------------------------------------------------- Part 1: callees and argument order *)
Lemma wrap_c03_sources :
  SPDC_delta_k_calls =
    [("return", "crate::delta_k", ["omega_s"; "omega_i"; "&self.signal"; "&self.idler"; "&self.pump"; "&self.crystal_setup"; "&self.pp"])]%string /\
  SPDC_optimum_idler_calls =
    [("return", "IdlerBeam::try_new_optimum", ["&self.signal"; "&self.pump"; "&self.crystal_setup"; "&self.pp"])]%string /\
  SPDC_assign_optimum_idler_calls =
    [("idler", "IdlerBeam::try_new_optimum", ["&self.signal"; "&self.pump"; "&self.crystal_setup"; "&self.pp"]);
     ("idler", "set_waist", ["self.idler.waist()"]);
     ("self.idler", "=", ["idler"]);
     ("return", "Ok", ["self"])]%string /\
  SPDC_assign_optimum_crystal_theta_calls =
    [("self.pp", "=", ["PeriodicPoling::Off"]);
     ("self.crystal_setup", "assign_optimum_theta", ["&self.signal"; "&self.pump"]);
     ("return", "", ["self"])]%string.
Proof. repeat split; reflexivity. Qed.

Lemma wrap_c03_callees :
  SPDC_delta_k_callees = ["delta_k"]%string /\ SPDC_optimum_idler_callees = ["IdlerBeam_try_new_optimum"]%string /\
  SPDC_assign_optimum_idler_callees = ["IdlerBeam_try_new_optimum"; "waist"; "set_waist"]%string /\
  SPDC_assign_optimum_crystal_theta_callees = ["PeriodicPoling_Off"; "assign_optimum_theta"]%string.
Proof. repeat split; reflexivity. Qed.

Section Order.
Variable obj : Type.
Notation spdc := (spdc obj).

Lemma wrap_delta_k_order : forall (dk : obj -> obj -> obj -> obj -> obj -> obj -> obj -> obj) (s : spdc) (omega_s omega_i : obj),
  SPDC_delta_k_gen {| SPDC_delta_k_K_delta_k := dk |} s omega_s omega_i =
  dk omega_s omega_i (signal s) (idler s) (pump s) (crystal_setup s) (pp s).
Proof. reflexivity. Qed.

Lemma wrap_optimum_idler_order : forall (tno : obj -> obj -> obj -> obj -> option obj) (s : spdc),
  SPDC_optimum_idler_gen {| SPDC_optimum_idler_K_IdlerBeam_try_new_optimum := tno |} s = tno (signal s) (pump s) (crystal_setup s) (pp s).
Proof. reflexivity. Qed.

(* assign_optimum_idler: the optimum idler from (signal, pump, crystal_setup, pp), given the waist of the idler it replaces;
   an error of try_new_optimum is returned and nothing is stored *)
Lemma wrap_assign_optimum_idler : forall (tno : obj -> obj -> obj -> obj -> option obj) (wst : obj -> obj) (setw : obj -> obj -> obj) (s : spdc),
  SPDC_assign_optimum_idler_gen {| SPDC_assign_optimum_idler_K_IdlerBeam_try_new_optimum := tno;
                                   SPDC_assign_optimum_idler_K_waist := wst;
                                   SPDC_assign_optimum_idler_K_set_waist := setw |} s =
    match tno (signal s) (pump s) (crystal_setup s) (pp s) with
    | Some i => Some (mk_spdc (signal s) (setw i (wst (idler s))) (pump s) (crystal_setup s) (pp s)
                               (signal_waist_position s) (idler_waist_position s))
    | None => None
    end.
Proof. intros. unfold SPDC_assign_optimum_idler_gen. cbn. destruct (tno _ _ _ _); reflexivity. Qed.

(* assign_optimum_crystal_theta: the poling is switched off FIRST, then the crystal setup is replaced by
   crystal_setup.assign_optimum_theta(signal, pump); nothing else changes *)
Lemma wrap_assign_optimum_crystal_theta : forall (off : obj) (aot : obj -> obj -> obj -> obj) (s : spdc),
  SPDC_assign_optimum_crystal_theta_gen {| SPDC_assign_optimum_crystal_theta_K_PeriodicPoling_Off := off;
                                           SPDC_assign_optimum_crystal_theta_K_assign_optimum_theta := aot |} s =
    mk_spdc (signal s) (idler s) (pump s) (aot (crystal_setup s) (signal s) (pump s)) off
            (signal_waist_position s) (idler_waist_position s).
Proof. reflexivity. Qed.

(* the idler is not recomputed by assign_optimum_crystal_theta (SPDC::try_as_optimum calls assign_optimum_idler afterwards) *)
Lemma wrap_assign_optimum_crystal_theta_keeps_idler : forall (K : SPDC_assign_optimum_crystal_theta_K obj) (s : spdc),
  idler (SPDC_assign_optimum_crystal_theta_gen K s) = idler s /\
  signal (SPDC_assign_optimum_crystal_theta_gen K s) = signal s /\
  pump (SPDC_assign_optimum_crystal_theta_gen K s) = pump s.
Proof. repeat split; reflexivity. Qed.
End Order.

(* ---------------------------------------------------------------- Part 2: on the C03 model *)
(* values handed around by the wrappers *)
Inductive uval : Type :=
  | UFreq (omega : R) | UBeam (b : beam) | USetup (pm : pm_type) (counter_propagation : bool) | UPoling (p : poling)
  | UVec (v : vec) | UWaist (w : R * R) | UBad.

Section OnModel.
Variable index : R -> vec -> polarization -> R.     (* CrystalSetup::index_along of the setup stored in the SPDC object *)

(* spdcalc::delta_k(omega_s, omega_i, signal, idler, pump, crystal_setup, pp), parameters in the order of its signature
   (src/phasematch/delta_k.rs) *)
Definition crate_delta_k (omega_s omega_i sg idl pmp setup pl : uval) : uval :=
  match omega_s, omega_i, sg, idl, pmp, setup, pl with
  | UFreq ws, UFreq wi, UBeam s, UBeam i, UBeam p, USetup _ _, UPoling q => UVec (delta_k_model index ws wi s i p q)
  | _, _, _, _, _, _, _ => UBad
  end.

(* IdlerBeam::try_new_optimum(signal, pump, crystal_setup, pp) *)
Definition crate_try_new_optimum (sg pmp setup pl : uval) : option uval :=
  match sg, pmp, setup, pl with
  | UBeam s, UBeam p, USetup pm cp, UPoling q =>
      match optimum_idler index pm cp s p q with Some i => Some (UBeam i) | None => None end
  | _, _, _, _ => Some UBad
  end.

(* Beam::waist / Beam::set_waist *)
Definition crate_waist (b : uval) : uval := match b with UBeam b => UWaist (b_waist b) | _ => UBad end.
Definition crate_set_waist (b w : uval) : uval :=
  match b, w with
  | UBeam b, UWaist w => UBeam (mkBeam (b_pol b) (b_phi b) (b_theta b) (b_omega b) (b_dir b) w)
  | _, _ => UBad
  end.

(* the callee records, every callee bound by its name *)
Definition K_delta_k : SPDC_delta_k_K uval := {| SPDC_delta_k_K_delta_k := crate_delta_k |}.
Definition K_optimum_idler : SPDC_optimum_idler_K uval := {| SPDC_optimum_idler_K_IdlerBeam_try_new_optimum := crate_try_new_optimum |}.
Definition K_assign_optimum_idler : SPDC_assign_optimum_idler_K uval :=
  {| SPDC_assign_optimum_idler_K_IdlerBeam_try_new_optimum := crate_try_new_optimum;
     SPDC_assign_optimum_idler_K_waist := crate_waist;
     SPDC_assign_optimum_idler_K_set_waist := crate_set_waist |}.

(* an SPDC object whose components are a signal, an idler, a pump, a crystal setup and a poling *)
Definition spdc_of (s i p : beam) (pm : pm_type) (cp : bool) (q : poling) (zs zi : uval) : spdc uval :=
  mk_spdc (UBeam s) (UBeam i) (UBeam p) (USetup pm cp) (UPoling q) zs zi.

Theorem wrap_delta_k_model : forall s i p pm cp q zs zi ws wi,
  SPDC_delta_k_gen K_delta_k (spdc_of s i p pm cp q zs zi) (UFreq ws) (UFreq wi) = UVec (delta_k_model index ws wi s i p q).
Proof. reflexivity. Qed.

(* the components, written out: signal at ws, idler at wi *)
Lemma wrap_delta_k_z : forall s i p pm cp q zs zi ws wi,
  SPDC_delta_k_gen K_delta_k (spdc_of s i p pm cp q zs zi) (UFreq ws) (UFreq wi) =
  UVec (vx (wavevector index p (b_omega p)) - vx (wavevector index s ws) - vx (wavevector index i wi) - pp_k_eff q * 0,
        vy (wavevector index p (b_omega p)) - vy (wavevector index s ws) - vy (wavevector index i wi) - pp_k_eff q * 0,
        vz (wavevector index p (b_omega p)) - vz (wavevector index s ws) - vz (wavevector index i wi) - pp_k_eff q * 1).
Proof. reflexivity. Qed.

Theorem wrap_optimum_idler_model : forall s i p pm cp q zs zi,
  SPDC_optimum_idler_gen K_optimum_idler (spdc_of s i p pm cp q zs zi) =
  match optimum_idler index pm cp s p q with Some o => Some (UBeam o) | None => None end.
Proof. reflexivity. Qed.

Theorem wrap_assign_optimum_idler_model : forall s i p pm cp q zs zi,
  SPDC_assign_optimum_idler_gen K_assign_optimum_idler (spdc_of s i p pm cp q zs zi) =
  match optimum_idler index pm cp s p q with
  | Some o => Some (spdc_of s (mkBeam (b_pol o) (b_phi o) (b_theta o) (b_omega o) (b_dir o) (b_waist i)) p pm cp q zs zi)
  | None => None
  end.
Proof.
  intros. unfold SPDC_assign_optimum_idler_gen, K_assign_optimum_idler, spdc_of. cbn.
  destruct (optimum_idler index pm cp s p q); reflexivity.
Qed.

End OnModel.

Print Assumptions wrap_c03_sources.
Print Assumptions wrap_c03_callees.
Print Assumptions wrap_delta_k_order.
Print Assumptions wrap_optimum_idler_order.
Print Assumptions wrap_assign_optimum_idler.
Print Assumptions wrap_assign_optimum_crystal_theta.
Print Assumptions wrap_assign_optimum_crystal_theta_keeps_idler.
Print Assumptions wrap_delta_k_model.
Print Assumptions wrap_delta_k_z.
Print Assumptions wrap_optimum_idler_model.
Print Assumptions wrap_assign_optimum_idler_model.
