(* C07 clause 4 for the built-in crystals, without an index hypothesis: the index oracles of the setup record are
   instantiated with Compose_index.crystal_index (= generated index_along over the generated crystal tables, C01∘C02) exactly
   as Beam::refractive_index does (lambda = frequency_to_vacuum_wavelength(omega); index_along(lambda, direction, polarization)).
   Then for every built-in crystal, in-window signal/idler (and pump) wavelengths, T in [-50, 200] C, every crystal orientation,
   unit beam directions and polarizations: every generated `_defined` predicate of the envelope / normalisations holds and the
   normalisations are strictly positive.
   Still hypotheses (they are setup parameters, not consequences): positive pump frequency, 0 < fwhm < 2 lambda_p, positive
   length / power / waists, deff <> 0, external angles inside (-pi/2, pi/2) (Snell's law is C13's).
   Still not proved: finiteness of the two fibre-coupling integrals themselves (complex denominators of the integrands). *)
From Coq Require Import Reals Bool Lra.
From SpdVerif Require Import Base.Rx Spec.CrystalTypes Spec.Published Gen.Crystals Proofs.Sellmeier Proofs.C01_all.
From SpdVerif Require Import Model.Optics Model.Fresnel Proofs.Compose_index.
From SpdVerif Require Import Model.SpectrumSetup Gen.Spectrum Proofs.C07_envelope Proofs.C07_defined.
Local Open Scope R_scope.

(* vacuum wavelength in micrometres of an angular frequency, through the generated conversion *)
Definition lambda_um (w : R) : R := frequency_to_vacuum_wavelength w / 1e-6.

(* the setup s with its two index oracles replaced by the code's computation for crystal c at temperature T (Celsius), cut
   (theta, phi), signal / idler directions ds / di and polarizations ps / pi_ *)
Definition with_crystal_indices (c : crystal) (T theta phi : R) (ds di : vec) (ps pi_ : polarization) (s : setup) : setup :=
  {| omega_p := omega_p s; omega_s0 := omega_s0 s; omega_i0 := omega_i0 s; fwhm := fwhm s; threshold := threshold s;
     pp_off := pp_off s; len := len s; power := power s; deff := deff s;
     wpx := wpx s; wpy := wpy s; wsx := wsx s; wsy := wsy s; wix := wix s; wiy := wiy s;
     theta_s_e := theta_s_e s; theta_i_e := theta_i_e s;
     n_s := fun w => crystal_index c (lambda_um w) T theta phi ds ps;
     n_i := fun w => crystal_index c (lambda_um w) T theta phi di pi_;
     pm_re := pm_re s; pm_im := pm_im s; pm_singles := pm_singles s |}.

Lemma window_lo_pos c l : in_window c l -> 0 < l * 1e-6.
Proof.
  unfold in_window. destruct (window c) as (lo & hi & E & Hlo & _ & _). rewrite E. intros [H _].
  unfold optical_lo in Hlo. lra.
Qed.

Lemma in_window_freq_pos c w : in_window c (lambda_um w) -> 0 < w.
Proof.
  intros H. apply window_lo_pos in H. unfold lambda_um, frequency_to_vacuum_wavelength in H.
  assert (HK : 0 < 2 * PI * 1 * 299792458) by (pose proof PI_RGT_0; lra).
  set (K := 2 * PI * 1 * 299792458) in *.
  destruct (Rtotal_order w 0) as [Hn|[Hz|Hp]]; [exfalso|exfalso|exact Hp].
  - assert (/ (w * 1) < 0) by (apply Rinv_lt_0_compat; lra).
    assert (K / (w * 1) < 0) by (unfold Rdiv; nra).
    assert (K / (w * 1) / 1e-6 * 1e-6 = K / (w * 1)) by (field; lra). lra.
  - subst w. replace (0 * 1) with 0 in H by ring. unfold Rdiv in H. rewrite Rinv_0 in H. lra.
Qed.

Lemma physical_with_indices c T theta phi ds di ps pi_ s :
  physical s -> physical (with_crystal_indices c T theta phi ds di ps pi_ s).
Proof. intros H. exact H. Qed.

Theorem defined_builtin c T theta phi ds di ps pi_ s ws wi :
  let s' := with_crystal_indices c T theta phi ds di ps pi_ s in
  physical s -> temp_ok T -> unit_vec ds -> unit_vec di ->
  in_window c (lambda_um ws) -> in_window c (lambda_um wi) ->
  indices_pos s' ws wi /\
  pump_spectral_amplitude_defined (ws + wi) s' /\
  jsi_normalization_defined ws wi s' /\ 0 < jsi_normalization ws wi s' /\
  jsi_singles_normalization_defined ws wi s' /\ 0 < jsi_singles_normalization ws wi s' /\
  spectrum_jsa_defined ws wi s' /\ spectrum_jsi_defined ws wi s' /\ spectrum_jsi_singles_defined ws wi s'.
Proof.
  cbn zeta. intros Hph HT Hds Hdi Hws Hwi.
  set (s' := with_crystal_indices c T theta phi ds di ps pi_ s).
  assert (Hph' : physical s') by exact Hph.
  assert (Hidx : indices_pos s' ws wi).
  { split; unfold s', with_crystal_indices; cbn [n_s n_i]; apply crystal_index_positive; assumption. }
  pose proof (in_window_freq_pos c ws Hws) as Pws. pose proof (in_window_freq_pos c wi Hwi) as Pwi.
  destruct (normalization_defined_pos ws wi s' Hph' Pws Pwi Hidx) as (D1 & Q1 & D2 & Q2).
  destruct (spectrum_defined ws wi s' Hph' (fun _ => Hidx)) as (S1 & S2 & S3).
  split; [exact Hidx|]. split; [apply envelope_defined; exact Hph'|].
  split; [exact D1|]. split; [exact Q1|]. split; [exact D2|]. split; [exact Q2|].
  split; [exact S1|]. split; [exact S2|exact S3].
Qed.

(* the indices used are the Fresnel solution for the crystal's published principal indices and lie in (1, 4) *)
Lemma builtin_indices_bounds c T theta phi ds di ps pi_ s ws wi :
  let s' := with_crystal_indices c T theta phi ds di ps pi_ s in
  temp_ok T -> unit_vec ds -> unit_vec di -> in_window c (lambda_um ws) -> in_window c (lambda_um wi) ->
  1 < n_s s' ws < 4 /\ 1 < n_i s' wi < 4.
Proof.
  cbn zeta. intros HT Hds Hdi Hws Hwi. unfold with_crystal_indices; cbn [n_s n_i].
  split; apply crystal_index_bounds; assumption.
Qed.
