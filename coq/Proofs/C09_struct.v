(* C09 — structural clauses: a delay series is the list of individually computed rates (shared norm = jsi_norm of the
   first array); the setup-level wrappers are the array-level functions on the tabulated amplitude and its
   exchanged-argument tabulation, which on a square symmetric grid is the transposed array. *)
From Coq Require Import Reals Lra Lia Arith List.
From SpdVerif Require Import Model.FinSum Model.Hom Proofs.FinSum_lemmas Proofs.Cx_lemmas Proofs.C09_range Proofs.C09_dip.
Local Open Scope R_scope.

Theorem hom_rate_series_map g f gs taus :
  hom_rate_series g f gs taus = map (fun tau => hom_rate g f gs tau None) taus.
Proof. reflexivity. Qed.

Corollary hom_rate_series_nth g f gs taus i d :
  (i < length taus)%nat -> nth i (hom_rate_series g f gs taus) d = hom_rate g f gs (nth i taus 0) None.
Proof.
  intros Hi. rewrite hom_rate_series_map.
  rewrite (nth_indep _ d (hom_rate g f gs 0 None)) by (rewrite map_length; assumption).
  apply (map_nth (fun tau => hom_rate g f gs tau None)).
Qed.

Lemma hom_rate_some g f gs tau x :
  hom_rate g f gs tau (Some x) = 1 / 2 * (1 - hom_sum ROps (grid_len g) f gs (hom_phase g tau) / x).
Proof. unfold hom_rate. apply hom_rate_gen_R. Qed.

(* the rate reads the arrays only below the grid length *)
Lemma hom_rate_ext g f f' gs gs' tau :
  (forall k, (k < grid_len g)%nat -> f k = f' k) -> (forall k, (k < grid_len g)%nat -> gs k = gs' k) ->
  hom_rate g f gs tau None = hom_rate g f' gs' tau None.
Proof.
  intros Hf Hgs. unfold hom_rate. rewrite !hom_rate_gen_R, !hom_sum_rsum, !jsi_norm_rsum.
  rewrite (rsum_ext _ _ (fun k => hom_term ROps (f' k) (gs' k) (hom_phase g tau k))).
  - rewrite (rsum_ext _ (fun k => cnorm2 ROps (f k)) (fun k => cnorm2 ROps (f' k))); [reflexivity|].
    intros k Hk. rewrite (Hf k Hk). reflexivity.
  - intros k Hk. rewrite (Hf k Hk), (Hgs k Hk). reflexivity.
Qed.

(* on a square grid with identical axes, evaluating J(wi, ws) on the grid gives the transposed array of J(ws, wi) *)
Theorem tabulate_swap_transpose n g J :
  square_sym n g -> forall k, (k < n * n)%nat -> tabulate (swap_args J) g k = transpose_arr n (tabulate J g) k.
Proof.
  intros Hg k Hk. rewrite transpose_arr_idx. unfold tabulate, swap_args.
  destruct (grid_swap n g Hg k Hk) as [E1 E2]. rewrite E1, E2. reflexivity.
Qed.

Theorem setup_series_is_array_level J g taus :
  setup_hom_rate_series J g taus = hom_rate_series g (tabulate J g) (tabulate (swap_args J) g) taus /\
  forall delta_t, setup_hom_visibility J g delta_t =
    (delta_t, visibility_of_rate (hom_rate g (tabulate J g) (tabulate (swap_args J) g) delta_t None)).
Proof. split; reflexivity. Qed.

Theorem setup_series_transposed n J g taus :
  square_sym n g ->
  setup_hom_rate_series J g taus = hom_rate_series g (tabulate J g) (transpose_arr n (tabulate J g)) taus.
Proof.
  intros Hg. unfold setup_hom_rate_series. rewrite !hom_rate_series_map. apply map_ext. intros tau.
  apply hom_rate_ext; [reflexivity|]. rewrite (grid_len_sq n g Hg). apply tabulate_swap_transpose. assumption.
Qed.

Theorem setup_rates_range n J g taus :
  square_sym n g -> 0 < jsi_norm ROps (n * n) (tabulate J g) ->
  (forall r, In r (setup_hom_rate_series J g taus) -> 0 <= r <= 1) /\
  (forall delta_t, -1 <= snd (setup_hom_visibility J g delta_t) <= 1).
Proof.
  intros Hg Hpos. split.
  - intros r Hin. unfold setup_hom_rate_series in Hin. rewrite hom_rate_series_map in Hin.
    apply in_map_iff in Hin. destruct Hin as (tau & <- & _).
    apply (hom_rate_range n g _ _ tau Hg (tabulate_swap_transpose n g J Hg) Hpos).
  - intros dt. cbn [setup_hom_visibility snd].
    apply (hom_rate_range n g _ _ dt Hg (tabulate_swap_transpose n g J Hg) Hpos).
Qed.
