(* C18 — the generated setter table against the hand-pinned path/unit table. *)
From Coq Require Import Reals Lra List String Bool.
From SpdVerif Require Import Base.Rx Base.PolingBase Gen.Poling Gen.Sweep Spec.SweepPaths Model.Sweep Proofs.C18_angles.
Import ListNotations.
Local Open Scope R_scope.

Lemma subset_b_spec a b : subset_b a b = true -> incl a b.
Proof.
  unfold subset_b. rewrite forallb_forall. intros H x Hx. specialize (H x Hx).
  apply existsb_exists in H. destruct H as [y [Hy E]]. apply String.eqb_eq in E. now subst.
Qed.

Section Table.
Variable snell_internal : beam -> R -> crystal_setup -> R.
Variable compute_sign : beam -> beam -> crystal_setup -> sign.

Notation table := (setter_table snell_internal compute_sign).
Notation getter := (get_setter snell_internal compute_sign).
Notation ideal := (ideal_set snell_internal compute_sign).

(* the code supports exactly the 25 documented paths, each once *)
Lemma paths_same :
  incl (map fst table) (map fst spec_table) /\ incl (map fst spec_table) (map fst table) /\
  NoDup (map fst table) /\ List.length table = 25%nat.
Proof.
  split; [apply subset_b_spec; vm_compute; reflexivity|].
  split; [apply subset_b_spec; vm_compute; reflexivity|].
  split; [|reflexivity].
  cbn. repeat constructor; cbn; intuition discriminate.
Qed.

(* the two generated forms of the table agree *)
Lemma getter_is_assoc p : getter p = assoc p table.
Proof.
  unfold get_setter. cbn [assoc setter_table].
  repeat (destruct (String.eqb p _); [reflexivity|]). reflexivity.
Qed.

Lemma assoc_none {A} p (l : list (string * A)) : assoc p l = None <-> ~ In p (map fst l).
Proof.
  induction l as [| [k a] t IH]; cbn; [tauto|].
  destruct (String.eqb p k) eqn:E.
  - apply String.eqb_eq in E. subst. split; [discriminate | intros H; exfalso; apply H; now left].
  - apply String.eqb_neq in E. rewrite IH. split; intros H; [intros [H1 | H1]; [congruence | tauto] | tauto].
Qed.

(* unknown strings are rejected, known ones accepted *)
Lemma unknown_rejected p : getter p = None <-> ~ In p (map fst spec_table).
Proof.
  rewrite getter_is_assoc, assoc_none. destruct paths_same as (H1 & H2 & _).
  split; intros H Hin; apply H; [apply H2 | apply H1]; exact Hin.
Qed.

Ltac norm1 := repeat first [rewrite Rdiv_one | rewrite Rmult_1_r].

Ltac head_of t := match t with ?f _ => head_of f | _ => t end.

(* equality of two record values, field by field; numeric fields up to ring / linear arithmetic *)
Ltac rec_eq :=
  match goal with
  | |- mk_spdc _ _ _ _ _ _ _ _ _ _ _ = mk_spdc _ _ _ _ _ _ _ _ _ _ _ => f_equal; rec_eq
  | |- mk_beam _ _ _ _ _ = mk_beam _ _ _ _ _ => f_equal; rec_eq
  | |- mk_beam_waist _ _ = mk_beam_waist _ _ => f_equal; rec_eq
  | |- mk_crystal_setup _ _ _ _ _ _ _ = mk_crystal_setup _ _ _ _ _ _ _ => f_equal; rec_eq
  | |- @eq R _ _ => first [reflexivity | ring | lra]
  | |- _ => reflexivity
  end.

Ltac setter_eq :=
  intros s v;
  match goal with |- ?lhs = _ => let h := head_of lhs in unfold h end;
  cbv beta zeta iota delta [ideal_set put_crystal put_beam get_beam beam_with_theta beam_with_phi beam_with_frequency
                            beam_with_waist si_of norm_angle norm_angle_signed c_light];
  norm1; first [reflexivity | rec_eq].

(* every path writes exactly its slot with the value converted from the path's unit *)
Definition entry_ok (e : string * (slot * unit_kind)) : Prop :=
  exists f, getter (fst e) = Some f /\ forall s v, f s v = ideal (fst (snd e)) (si_of (snd (snd e)) v) s.

Lemma all_entries_ok : Forall entry_ok spec_table.
Proof.
  unfold spec_table.
  repeat (apply Forall_cons; [ unfold entry_ok; cbn [fst snd]; eexists; split; [reflexivity | setter_eq] | ]).
  apply Forall_nil.
Qed.

Lemma setters_match p sl u :
  In (p, (sl, u)) spec_table ->
  exists f, getter p = Some f /\ forall s v, f s v = ideal sl (si_of u v) s.
Proof.
  intros Hin. pose proof all_entries_ok as H. rewrite Forall_forall in H. exact (H _ Hin).
Qed.
End Table.
