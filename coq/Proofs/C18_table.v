(* C18 — the generated setter table against the hand-pinned path/unit table. *)
From Coq Require Import Reals Lra List String Bool.
From SpdVerif Require Import Base.Rx Base.PolingBase Gen.Poling Gen.Sweep Spec.SweepPaths Model.Sweep.
Import ListNotations.
Local Open Scope R_scope.

Lemma subset_b_spec a b : subset_b a b = true -> incl a b.
Proof.
  unfold subset_b. rewrite forallb_forall. intros H x Hx. specialize (H x Hx).
  apply existsb_exists in H. destruct H as [y [Hy E]]. apply String.eqb_eq in E. now subst.
Qed.

Lemma Rdiv_one x : x / 1 = x.
Proof. field. Qed.

Section Table.
Variable snell_internal : beam -> R -> crystal_setup -> R.
Variable compute_sign : beam -> beam -> crystal_setup -> sign.

Notation table := (setter_table snell_internal compute_sign).
Notation getter := (get_setter snell_internal compute_sign).
Notation ideal := (ideal_set snell_internal compute_sign).

(* the code supports exactly the 25 documented paths, each once *)
Lemma paths_same :
  incl (map fst table) (map fst spec_table) /\ incl (map fst spec_table) (map fst table) /\
  NoDup (map fst table) /\ List.length table = 25%nat.
Proof.
  split; [apply subset_b_spec; vm_compute; reflexivity|].
  split; [apply subset_b_spec; vm_compute; reflexivity|].
  split; [|reflexivity].
  cbn. repeat constructor; cbn; intuition discriminate.
Qed.

(* the two generated forms of the table agree *)
Lemma getter_is_assoc p : getter p = assoc p table.
Proof.
  unfold get_setter. cbn [assoc setter_table].
  repeat (destruct (String.eqb p _); [reflexivity|]). reflexivity.
Qed.

Lemma assoc_none {A} p (l : list (string * A)) : assoc p l = None <-> ~ In p (map fst l).
Proof.
  induction l as [| [k a] t IH]; cbn; [tauto|].
  destruct (String.eqb p k) eqn:E.
  - apply String.eqb_eq in E. subst. split; [discriminate | intros H; exfalso; apply H; now left].
  - apply String.eqb_neq in E. rewrite IH. split; intros H; [intros [H1 | H1]; [congruence | tauto] | tauto].
Qed.

(* unknown strings are rejected, known ones accepted *)
Lemma unknown_rejected p : getter p = None <-> ~ In p (map fst spec_table).
Proof.
  rewrite getter_is_assoc, assoc_none. destruct paths_same as (H1 & H2 & _).
  split; intros H Hin; apply H; [apply H2 | apply H1]; exact Hin.
Qed.

Ltac norm1 := repeat first [rewrite Rdiv_one | rewrite Rmult_1_r].

Ltac head_of t := match t with ?f _ => head_of f | _ => t end.

Ltac setter_eq :=
  intros s v;
  match goal with |- ?lhs = _ => let h := head_of lhs in unfold h end;
  cbv beta zeta iota delta [ideal_set put_crystal put_beam get_beam beam_with_theta beam_with_phi beam_with_frequency
                            beam_with_waist si_of norm_angle norm_angle_signed c_light];
  norm1; reflexivity.

Lemma assign_eq_with p sg ap q : pp_assign_period (On p sg ap) q = pp_with_period (On p sg ap) q.
Proof.
  cbn [pp_assign_period pp_with_period]. unfold pp_new.
  destruct (Rgt_dec q (0 * 1)) as [H | H]; f_equal.
  - apply Rabs_right. lra.
  - apply Rabs_left1. lra.
Qed.

(* the poling-period arm as the code has it now (assign_period) agrees with the reference on every POLED base; if the code is
   changed to create the poling when absent, the generic tactic closes the goal without this case *)
Ltac poling_eq :=
  intros s v Hpre;
  match goal with |- ?lhs = _ => let h := head_of lhs in unfold h end;
  cbv beta zeta iota delta [ideal_set si_of]; cbn [slot_pre] in Hpre;
  destruct s as [sg idl pm cr pp pw bw th swp iwp df]; cbn [s_pp s_signal s_idler s_pump s_crystal_setup
    s_pump_average_power s_pump_bandwidth s_pump_spectrum_threshold s_signal_waist_position s_idler_waist_position s_deff] in *;
  destruct pp as [| p0 sg0 ap0]; [exfalso; apply Hpre; reflexivity|];
  norm1; rewrite assign_eq_with; reflexivity.

(* every non-frequency path writes exactly its slot with the value converted from the path's unit *)
Definition entry_ok (e : string * (slot * unit_kind)) : Prop :=
  snd (snd e) <> UThz ->
  exists f, getter (fst e) = Some f /\
    forall s v, slot_pre (fst (snd e)) s -> f s v = ideal (fst (snd e)) (si_of (snd (snd e)) v) s.

Lemma all_entries_ok : Forall entry_ok spec_table.
Proof.
  unfold spec_table.
  repeat (apply Forall_cons;
          [ unfold entry_ok; cbn [fst snd]; intros Hu;
            first [ exfalso; apply Hu; reflexivity
                  | eexists; split; [reflexivity | first [ intros s v _; revert s v; setter_eq | poling_eq ] ] ] | ]).
  apply Forall_nil.
Qed.

Lemma setters_match p sl u :
  In (p, (sl, u)) spec_table -> u <> UThz ->
  exists f, getter p = Some f /\ forall s v, slot_pre sl s -> f s v = ideal sl (si_of u v) s.
Proof.
  intros Hin Hu. pose proof all_entries_ok as H. rewrite Forall_forall in H. exact (H _ Hin Hu).
Qed.

(* the three frequency setters write the frequency slot with SOME value (which one is finding F8's subject) *)
Definition thz_entry_some (e : string * (slot * unit_kind)) : Prop :=
  snd (snd e) = UThz ->
  exists f, getter (fst e) = Some f /\ forall s v, exists x, f s v = ideal (fst (snd e)) x s.

Ltac setter_some :=
  intros s v; eexists;
  match goal with |- ?lhs = _ => let h := head_of lhs in unfold h end;
  cbv beta zeta iota delta [ideal_set put_crystal put_beam get_beam beam_with_theta beam_with_phi beam_with_frequency
                            beam_with_waist si_of norm_angle norm_angle_signed c_light];
  reflexivity.

Lemma all_thz_some : Forall thz_entry_some spec_table.
Proof.
  unfold spec_table.
  repeat (apply Forall_cons;
          [ unfold thz_entry_some; cbn [fst snd]; intros Hu;
            first [ discriminate Hu | eexists; split; [reflexivity | setter_some] ] | ]).
  apply Forall_nil.
Qed.

Lemma thz_some p sl :
  In (p, (sl, UThz)) spec_table ->
  exists f, getter p = Some f /\ forall s v, exists x, f s v = ideal sl x s.
Proof.
  intros Hin. pose proof all_thz_some as H. rewrite Forall_forall in H. exact (H _ Hin eq_refl).
Qed.
End Table.
