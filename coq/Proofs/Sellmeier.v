(* Generic lemmas about Sellmeier forms (Spec/Published.v): monotonicity in x = l^2, definedness. *)
From Coq Require Import Reals List Lra Lia QArith.
From SpdVerif Require Import Base.Rx Spec.CrystalTypes Spec.Published Gen.Crystals.
Import ListNotations.
Local Open Scope R_scope.

(* a pole C is outside [x1, x2] *)
Definition pole_out (x1 x2 C : R) : Prop := C < x1 \/ x2 < C.

Definition ok1 (x1 x2 : R) (p : R * R) : Prop := 0 <= fst p * snd p /\ pole_out x1 x2 (snd p).
Definition ok2 (x1 x2 : R) (p : R * R) : Prop := 0 <= fst p /\ pole_out x1 x2 (snd p).

Lemma same_side_pos x1 x2 C : x1 <= x2 -> pole_out x1 x2 C -> 0 < (x1 - C) * (x2 - C).
Proof.
  intros Hx [H | H].
  - apply Rmult_lt_0_compat; lra.
  - replace ((x1 - C) * (x2 - C)) with ((C - x1) * (C - x2)) by ring. apply Rmult_lt_0_compat; lra.
Qed.

Lemma t2_diff B C x1 x2 : x1 - C <> 0 -> x2 - C <> 0 ->
  t2 (B, C) x1 - t2 (B, C) x2 = B * (x2 - x1) / ((x1 - C) * (x2 - C)).
Proof. intros. unfold t2; simpl. field. split; assumption. Qed.

Lemma t1_diff B C x1 x2 : x1 - C <> 0 -> x2 - C <> 0 ->
  t1 (B, C) x1 - t1 (B, C) x2 = (B * C) * (x2 - x1) / ((x1 - C) * (x2 - C)).
Proof. intros. unfold t1; simpl. field. split; assumption. Qed.

Lemma pole_out_ne x1 x2 C : x1 <= x2 -> pole_out x1 x2 C -> x1 - C <> 0 /\ x2 - C <> 0.
Proof. intros Hx [H | H]; split; lra. Qed.

Lemma t2_mono p x1 x2 : x1 <= x2 -> ok2 x1 x2 p -> t2 p x2 <= t2 p x1.
Proof.
  destruct p as [B C]. intros Hx [HB Hp]; simpl in *.
  destruct (pole_out_ne _ _ _ Hx Hp) as [N1 N2].
  pose proof (t2_diff B C x1 x2 N1 N2) as E.
  pose proof (same_side_pos _ _ _ Hx Hp) as P.
  assert (0 <= B * (x2 - x1) / ((x1 - C) * (x2 - C))).
  { apply Rmult_le_pos. apply Rmult_le_pos; lra. left. apply Rinv_0_lt_compat, P. }
  lra.
Qed.

Lemma t2_strict p x1 x2 : x1 < x2 -> ok2 x1 x2 p -> 0 < fst p -> t2 p x2 < t2 p x1.
Proof.
  destruct p as [B C]. intros Hx [HB Hp] HB'; simpl in *.
  assert (Hx' : x1 <= x2) by lra.
  destruct (pole_out_ne _ _ _ Hx' Hp) as [N1 N2].
  pose proof (t2_diff B C x1 x2 N1 N2) as E.
  pose proof (same_side_pos _ _ _ Hx' Hp) as P.
  assert (0 < B * (x2 - x1) / ((x1 - C) * (x2 - C))).
  { apply Rmult_lt_0_compat. apply Rmult_lt_0_compat; lra. apply Rinv_0_lt_compat, P. }
  lra.
Qed.

Lemma t1_mono p x1 x2 : x1 <= x2 -> ok1 x1 x2 p -> t1 p x2 <= t1 p x1.
Proof.
  destruct p as [B C]. intros Hx [HB Hp]; simpl in *.
  destruct (pole_out_ne _ _ _ Hx Hp) as [N1 N2].
  pose proof (t1_diff B C x1 x2 N1 N2) as E.
  pose proof (same_side_pos _ _ _ Hx Hp) as P.
  assert (0 <= (B * C) * (x2 - x1) / ((x1 - C) * (x2 - C))).
  { apply Rmult_le_pos. apply Rmult_le_pos; lra. left. apply Rinv_0_lt_compat, P. }
  lra.
Qed.

Lemma t1_strict p x1 x2 : x1 < x2 -> ok1 x1 x2 p -> 0 < fst p * snd p -> t1 p x2 < t1 p x1.
Proof.
  destruct p as [B C]. intros Hx [HB Hp] HB'; simpl in *.
  assert (Hx' : x1 <= x2) by lra.
  destruct (pole_out_ne _ _ _ Hx' Hp) as [N1 N2].
  pose proof (t1_diff B C x1 x2 N1 N2) as E.
  pose proof (same_side_pos _ _ _ Hx' Hp) as P.
  assert (0 < (B * C) * (x2 - x1) / ((x1 - C) * (x2 - C))).
  { apply Rmult_lt_0_compat. apply Rmult_lt_0_compat; lra. apply Rinv_0_lt_compat, P. }
  lra.
Qed.

Lemma sum_mono (t : R * R -> R -> R) (ok : R * R -> Prop) x1 x2 l :
  (forall p, ok p -> t p x2 <= t p x1) -> Forall ok l -> sum_terms t l x2 <= sum_terms t l x1.
Proof.
  intros Ht H. induction H as [|p r Hp Hr IH]; simpl; [lra|]. specialize (Ht p Hp). lra.
Qed.

Lemma sum_strict (t : R * R -> R -> R) (ok st : R * R -> Prop) x1 x2 l :
  (forall p, ok p -> t p x2 <= t p x1) -> (forall p, ok p -> st p -> t p x2 < t p x1) ->
  Forall ok l -> Exists st l -> sum_terms t l x2 < sum_terms t l x1.
Proof.
  intros Ht Hs H E. induction H as [|p r Hp Hr IH]; simpl.
  - inversion E.
  - inversion E as [? ? Hst | ? ? Hex]; subst.
    + pose proof (Hs p Hp Hst). pose proof (sum_mono t ok x1 x2 r Ht Hr). lra.
    + specialize (IH Hex). specialize (Ht p Hp). lra.
Qed.

(* what makes a Sellmeier form strictly decreasing *)
Definition sell_strict (s : sellmeier) : Prop :=
  0 < sD s \/ Exists (fun p => 0 < fst p) (sP2 s) \/ Exists (fun p => 0 < fst p * snd p) (sP1 s).

Theorem sell_decreasing s x1 x2 :
  x1 < x2 -> Forall (ok1 x1 x2) (sP1 s) -> Forall (ok2 x1 x2) (sP2 s) -> 0 <= sD s -> sell_strict s ->
  sell_eval s x2 < sell_eval s x1.
Proof.
  intros Hx H1 H2 HD Hs. unfold sell_eval.
  assert (Hx' : x1 <= x2) by lra.
  pose proof (sum_mono t1 (ok1 x1 x2) x1 x2 _ (fun p => t1_mono p x1 x2 Hx') H1) as M1.
  pose proof (sum_mono t2 (ok2 x1 x2) x1 x2 _ (fun p => t2_mono p x1 x2 Hx') H2) as M2.
  assert (sD s * x1 <= sD s * x2) as MD by (apply Rmult_le_compat_l; lra).
  destruct Hs as [Hs | [Hs | Hs]].
  - assert (sD s * x1 < sD s * x2) by (apply Rmult_lt_compat_l; lra). lra.
  - pose proof (sum_strict t2 (ok2 x1 x2) (fun p => 0 < fst p) x1 x2 _
                  (fun p => t2_mono p x1 x2 Hx') (fun p => t2_strict p x1 x2 Hx) H2 Hs). lra.
  - pose proof (sum_strict t1 (ok1 x1 x2) (fun p => 0 < fst p * snd p) x1 x2 _
                  (fun p => t1_mono p x1 x2 Hx') (fun p => t1_strict p x1 x2 Hx) H1 Hs). lra.
Qed.

(* definedness of one evaluation: every denominator non-zero and the radicand positive *)
Definition sell_defined (s : sellmeier) (x : R) : Prop :=
  Forall (fun p => x - snd p <> 0) (sP1 s) /\ Forall (fun p => x - snd p <> 0) (sP2 s) /\ 0 < sell_eval s x.

(* shared vocabulary of the C01 statements *)
Definition n_of (c : crystal) (ax : axis) (l T : R) : R := proj ax (get_indices c (l * 1e-6) (T + 273.15)).

Definition in_window (c : crystal) (l : R) : Prop :=
  match meta_range (get_meta c) with
  | Some (lo, hi) => lo <= l * 1e-6 <= hi
  | None => False
  end.

Definition temp_ok (T : R) : Prop := -50 <= T <= 200.

Lemma sq_lt l1 l2 : 0 < l1 -> l1 < l2 -> l1 ^ 2 < l2 ^ 2.
Proof. intros. simpl. nra. Qed.

Lemma sqrt_plus_lt a b d : 0 <= a -> a < b -> sqrt a + d < sqrt b + d.
Proof. intros. pose proof (sqrt_lt_1_alt a b). lra. Qed.

Lemma um_cancel l : l * 1e-6 / (1e-6 * 1) = l.
Proof. unfold Q2R; cbn [Qnum Qden]. field. Qed.

Lemma in_window_bounds c l lo hi :
  meta_range (get_meta c) = Some (lo, hi) -> in_window c l -> lo / 1e-6 <= l <= hi / 1e-6.
Proof.
  unfold in_window. intros ->. intros [H1 H2].
  split.
  - apply Rmult_le_reg_r with (r := 1e-6); [lra|]. replace (lo / 1e-6 * 1e-6) with lo by (field; lra). exact H1.
  - apply Rmult_le_reg_r with (r := 1e-6); [lra|]. replace (hi / 1e-6 * 1e-6) with hi by (field; lra). exact H2.
Qed.

(* Coq 8.16 parses decimal literals to [Q2R (Qmake n d)]; [field] only computes with them once Q2R is unfolded *)
Ltac dec_norm := unfold Q2R; cbn [Qnum Qden].

Ltac sell_simpl :=
  unfold sell_eval, t1, t2; cbn [sum_terms sA sP1 sP2 sD fst snd].

(* turn [in_window c l] (c concrete) into numeric bounds on l *)
Ltac window_bounds H :=
  let H' := fresh "Hl" in
  match type of H with
  | in_window ?c ?l => pose proof (in_window_bounds c l _ _ eq_refl H) as H'
  end.
