(* C19 — the translated window formulas are the published ones (Spec/Apodization.v). *)
From Coq Require Import Reals Lra.
From Interval Require Import Tactic.
From SpdVerif Require Import Base.Rx Base.PolingBase Gen.Poling Model.Poling Spec.Apodization Proofs.C19_windows.
Local Open Scope R_scope.

Lemma matches_published_width a z L : 0 < a ->
  integration_constant (ApBartlett a) z L = pub_bartlett a z /\
  integration_constant (ApBlackman a) z L = pub_blackman a z /\
  integration_constant (ApConnes a) z L = pub_connes a z /\
  integration_constant (ApCosine a) z L = pub_cosine a z /\
  integration_constant (ApHamming a) z L = pub_hamming a z /\
  integration_constant (ApWelch a) z L = pub_welch a z.
Proof.
  intros Ha. cbn [integration_constant].
  unfold apod_Bartlett, apod_Blackman, apod_Connes, apod_Cosine, apod_Hamming, apod_Welch,
    pub_bartlett, pub_blackman, pub_connes, pub_cosine, pub_hamming, pub_welch.
  repeat match goal with |- _ /\ _ => split end.
  - lra.
  - set (c1 := cos (PI * z / a)). set (c2 := cos (2 * PI * z / a)). lra.
  - f_equal. field. lra.
  - rewrite half_lit. f_equal. field. lra.
  - set (c := cos (PI * z / a)). lra.
  - field. lra.
Qed.

(* Gaussian: at normalised position z (physical position x = z L / 2) the value is the Gaussian of sigma = FWHM / (2 sqrt (2 ln 2)) *)
Lemma matches_published_gaussian fwhm z L : 0 < fwhm -> 0 < L ->
  integration_constant (ApGaussian fwhm) z L = pub_gaussian (pub_sigma_of_fwhm fwhm) (z * L / 2).
Proof.
  intros Hf HL. cbn [integration_constant]. unfold apod_Gaussian, pub_gaussian, pub_sigma_of_fwhm.
  pose proof ln2_pos as Hl.
  assert (Hs : 0 < sqrt (2 * ln 2)) by (apply sqrt_lt_R0; lra).
  f_equal. replace (-0.5) with (- / 2) by lra. field. lra.
Qed.
