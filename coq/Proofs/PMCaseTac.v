(* Tactics for the generated correspondence cases of the phasematching integrand (C05, C06; coq/Cases/, never committed).

   A case states that the GENERATED integrand (Gen/PMIntegrand.v), evaluated on the exact rational values of the scalars the Rust
   harness dumped, encloses the complex number Rust computed.  Unfolding the complex arithmetic of the whole integrand into one real
   expression is exponential in its nesting depth, so the enclosure is computed forward, one complex operation at a time:
   [cx_enc rn t] leaves hypotheses  lo <= fst t <= hi  and  lo' <= snd t <= hi'  for the complex term t, obtained by
   [interval_intro] from the hypotheses of its operands (which are then cleared unless they are generated definitions: the cost
   of interval_intro grows with the context).  [rn] normalises a real leaf expression: it unfolds the real-valued generated
   definitions and the record projections (supplied by the case file, because the list of generated names is only known after
   generation).  [pm_enc rn t] does this for a generated complex definition t = f P [z]; [pm_forget t] drops its hypotheses. *)
From Coq Require Import Reals Lra.
From Coquelicot Require Import Coquelicot.
From Interval Require Import Tactic.
From SpdVerif Require Import Base.Rx Base.CxPM Model.PMParams.
Local Open Scope R_scope.

Ltac enc_real_as t e :=
  let H := fresh "Hb" in
  interval_intro e with (i_prec 100) as H;
  lazymatch type of H with
  | ?lo <= _ <= ?hi =>
      let H' := fresh "He" in
      assert (H' : lo <= t <= hi) by exact H; clear H
  end.

Ltac have_enc t :=
  lazymatch goal with
  | _ : _ <= fst t <= _, _ : _ <= snd t <= _ |- _ => idtac
  end.

Ltac pm_forget t :=
  repeat match goal with
  | H : _ <= fst t <= _ |- _ => clear H
  | H : _ <= snd t <= _ |- _ => clear H
  end.

(* is t an application of a generated definition (kept) or an intermediate operation node (cleared after use)? *)
Ltac forget_if_node t :=
  lazymatch t with
  | Cplus _ _ => pm_forget t | Cminus _ _ => pm_forget t | Copp _ => pm_forget t | Cmult _ _ => pm_forget t
  | Cinv _ => pm_forget t | Cdiv _ _ => pm_forget t | RtoC _ => pm_forget t | Cexp _ => pm_forget t
  | Csqrt _ => pm_forget t | Cconj _ => pm_forget t | (_, _) => pm_forget t
  | _ => idtac
  end.

Ltac cx_enc rn t :=
  tryif have_enc t then idtac else
  lazymatch t with
  | Cplus ?a ?b => cx_enc rn a; cx_enc rn b;
      enc_real_as (fst t) (fst a + fst b); enc_real_as (snd t) (snd a + snd b); forget_if_node a; forget_if_node b
  | Cminus ?a ?b => cx_enc rn a; cx_enc rn b;
      enc_real_as (fst t) (fst a + - fst b); enc_real_as (snd t) (snd a + - snd b); forget_if_node a; forget_if_node b
  | Copp ?a => cx_enc rn a;
      enc_real_as (fst t) (- fst a); enc_real_as (snd t) (- snd a); forget_if_node a
  | Cconj ?a => cx_enc rn a;
      enc_real_as (fst t) (fst a); enc_real_as (snd t) (- snd a); forget_if_node a
  | Cmult ?a ?b => cx_enc rn a; cx_enc rn b;
      enc_real_as (fst t) (fst a * fst b - snd a * snd b); enc_real_as (snd t) (fst a * snd b + snd a * fst b);
      forget_if_node a; forget_if_node b
  | Cinv ?a => cx_enc rn a;
      enc_real_as (fst t) (fst a / (fst a ^ 2 + snd a ^ 2)); enc_real_as (snd t) (- snd a / (fst a ^ 2 + snd a ^ 2));
      forget_if_node a
  | Cdiv ?a ?b => cx_enc rn (Cmult a (Cinv b));
      lazymatch goal with
      | Hr : ?lo <= fst (Cmult a (Cinv b)) <= ?hi, Hi : ?lo2 <= snd (Cmult a (Cinv b)) <= ?hi2 |- _ =>
          assert (lo <= fst t <= hi) by exact Hr; assert (lo2 <= snd t <= hi2) by exact Hi; clear Hr Hi
      end
  | RtoC ?x => let x' := rn x in enc_real_as (fst t) x'; enc_real_as (snd t) 0
  | Cexp ?a => cx_enc rn a;
      enc_real_as (fst t) (exp (fst a) * cos (snd a)); enc_real_as (snd t) (exp (fst a) * sin (snd a)); forget_if_node a
  | Csqrt ?a => cx_enc rn a;
      let H1 := fresh "Hb" in let H2 := fresh "Hb" in
      first
        [ assert (0 <= snd a) by lra;
          interval_intro (sqrt ((sqrt (fst a ^ 2 + snd a ^ 2) + fst a) / 2)) with (i_prec 100) as H1;
          interval_intro (sqrt ((sqrt (fst a ^ 2 + snd a ^ 2) - fst a) / 2)) with (i_prec 100) as H2;
          lazymatch type of H1 with ?lo <= _ <= ?hi => lazymatch type of H2 with ?lo2 <= _ <= ?hi2 =>
            assert (lo <= fst t <= hi) by exact H1;
            assert (lo2 <= snd t <= hi2) by
              (change (snd t) with ((if Rle_dec 0 (snd a) then 1 else -1) * sqrt ((sqrt (fst a ^ 2 + snd a ^ 2) - fst a) / 2));
               destruct (Rle_dec 0 (snd a)); [lra | contradiction])
          end end
        | assert (snd a < 0) by lra;
          interval_intro (sqrt ((sqrt (fst a ^ 2 + snd a ^ 2) + fst a) / 2)) with (i_prec 100) as H1;
          interval_intro (- sqrt ((sqrt (fst a ^ 2 + snd a ^ 2) - fst a) / 2)) with (i_prec 100) as H2;
          lazymatch type of H1 with ?lo <= _ <= ?hi => lazymatch type of H2 with ?lo2 <= _ <= ?hi2 =>
            assert (lo <= fst t <= hi) by exact H1;
            assert (lo2 <= snd t <= hi2) by
              (change (snd t) with ((if Rle_dec 0 (snd a) then 1 else -1) * sqrt ((sqrt (fst a ^ 2 + snd a ^ 2) - fst a) / 2));
               destruct (Rle_dec 0 (snd a)); [lra | lra])
          end end
        | (* sign of the imaginary part not decided by the enclosure (e.g. exactly real radicand), but the real part is positive:
             away from the branch cut both branches are within sqrt((|a| - re a)/2) of 0 *)
          interval_intro (sqrt ((sqrt (fst a ^ 2 + snd a ^ 2) + fst a) / 2)) with (i_prec 100) as H1;
          interval_intro (sqrt ((sqrt (fst a ^ 2 + snd a ^ 2) - fst a) / 2)) with (i_prec 100) as H2;
          lazymatch goal with Hre : ?lor <= fst a <= _ |- _ => assert (0 < lor) by (interval with (i_prec 100)) end;
          lazymatch type of H1 with ?lo <= _ <= ?hi => lazymatch type of H2 with _ <= _ <= ?hi2 =>
            assert (lo <= fst t <= hi) by exact H1;
            assert (- hi2 <= snd t <= hi2) by
              (change (snd t) with ((if Rle_dec 0 (snd a) then 1 else -1) * sqrt ((sqrt (fst a ^ 2 + snd a ^ 2) - fst a) / 2));
               pose proof (sqrt_pos ((sqrt (fst a ^ 2 + snd a ^ 2) - fst a) / 2));
               destruct (Rle_dec 0 (snd a)); lra)
          end end ];
      clear H1 H2; forget_if_node a
  | (?x, ?y) => let x' := rn x in let y' := rn y in enc_real_as (fst t) x'; enc_real_as (snd t) y'
  end.

Ltac pm_enc rn t :=
  let f := lazymatch t with ?f _ _ _ => f | ?f _ _ => f | ?f _ => f end in
  let body := eval unfold f in t in
  cx_enc rn body;
  lazymatch goal with
  | Hr : ?lo <= fst body <= ?hi, Hi : ?lo2 <= snd body <= ?hi2 |- _ =>
      assert (lo <= fst t <= hi) by (unfold f; exact Hr); assert (lo2 <= snd t <= hi2) by (unfold f; exact Hi);
      forget_if_node body
  end.

(* final comparison: the enclosure of t lies within tol of the Rust value *)
Ltac pm_close := split; interval with (i_prec 100).
