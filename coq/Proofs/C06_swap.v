(* C06 — every coefficient of the GENERATED integrand (Gen/PMIntegrand.v, translated from get_pm_integrand) under the
   signal/idler exchange [pm_swap], and the exchange identity of the integrand. *)
From Coq Require Import Reals Lra.
From Coquelicot Require Import Coquelicot.
From SpdVerif Require Import Base.Rx Base.CxPM Model.PMParams Gen.PMIntegrand Proofs.C06_algebra.
Local Open Scope R_scope.

(* ---- signal-chain coefficient of the exchanged setup = idler-chain coefficient of the original, and vice versa.
   [pm_swap p] is a record literal, so its projections reduce by conversion; the proofs are [reflexivity] except where
   commutativity of + is needed (omega_p = omega_s + omega_i, dksi = k_s + k_i + k_eff, hh = sum of both chains). *)
Lemma sw_omega_p p : pm_omega_p (pm_swap p) = pm_omega_p p.
Proof. unfold pm_omega_p; cbn [pm_swap p_omega_s p_omega_i]. ring. Qed.

Lemma sw_k_p p : pm_k_p (pm_swap p) = pm_k_p p.
Proof. unfold pm_k_p. rewrite sw_omega_p. reflexivity. Qed.

Lemma sw_k_s p : pm_k_s (pm_swap p) = pm_k_i p. Proof. reflexivity. Qed.
Lemma sw_k_i p : pm_k_i (pm_swap p) = pm_k_s p. Proof. reflexivity. Qed.
Lemma sw_ks_f p : pm_ks_f (pm_swap p) = pm_ki_f p. Proof. reflexivity. Qed.
Lemma sw_ki_f p : pm_ki_f (pm_swap p) = pm_ks_f p. Proof. reflexivity. Qed.
Lemma sw_GAM1s p : pm_GAM1s (pm_swap p) = pm_GAM1i p. Proof. reflexivity. Qed.
Lemma sw_GAM1i p : pm_GAM1i (pm_swap p) = pm_GAM1s p. Proof. reflexivity. Qed.
Lemma sw_GAM2s p : pm_GAM2s (pm_swap p) = pm_GAM2i p. Proof. reflexivity. Qed.
Lemma sw_GAM2i p : pm_GAM2i (pm_swap p) = pm_GAM2s p. Proof. reflexivity. Qed.
Lemma sw_GAM3s p : pm_GAM3s (pm_swap p) = pm_GAM3i p. Proof. reflexivity. Qed.
Lemma sw_GAM3i p : pm_GAM3i (pm_swap p) = pm_GAM3s p. Proof. reflexivity. Qed.
Lemma sw_GAM4s p : pm_GAM4s (pm_swap p) = pm_GAM4i p. Proof. reflexivity. Qed.
Lemma sw_GAM4i p : pm_GAM4i (pm_swap p) = pm_GAM4s p. Proof. reflexivity. Qed.
Lemma sw_DEL1s p : pm_DEL1s (pm_swap p) = pm_DEL1i p. Proof. reflexivity. Qed.
Lemma sw_DEL1i p : pm_DEL1i (pm_swap p) = pm_DEL1s p. Proof. reflexivity. Qed.
Lemma sw_DEL2s p : pm_DEL2s (pm_swap p) = pm_DEL2i p. Proof. reflexivity. Qed.
Lemma sw_DEL2i p : pm_DEL2i (pm_swap p) = pm_DEL2s p. Proof. reflexivity. Qed.
Lemma sw_DEL3s p : pm_DEL3s (pm_swap p) = pm_DEL3i p. Proof. reflexivity. Qed.
Lemma sw_DEL3i p : pm_DEL3i (pm_swap p) = pm_DEL3s p. Proof. reflexivity. Qed.
Lemma sw_DEL4s p : pm_DEL4s (pm_swap p) = pm_DEL4i p. Proof. reflexivity. Qed.
Lemma sw_DEL4i p : pm_DEL4i (pm_swap p) = pm_DEL4s p. Proof. reflexivity. Qed.
Lemma sw_As p : pm_As (pm_swap p) = pm_Ai p. Proof. reflexivity. Qed.
Lemma sw_Ai p : pm_Ai (pm_swap p) = pm_As p. Proof. reflexivity. Qed.
Lemma sw_Bs p : pm_Bs (pm_swap p) = pm_Bi p. Proof. reflexivity. Qed.
Lemma sw_Bi p : pm_Bi (pm_swap p) = pm_Bs p. Proof. reflexivity. Qed.
Lemma sw_A5 p : pm_A5 (pm_swap p) = pm_A7 p. Proof. reflexivity. Qed.
Lemma sw_A7 p : pm_A7 (pm_swap p) = pm_A5 p. Proof. reflexivity. Qed.

Lemma sw_Cs p : pm_Cs (pm_swap p) = pm_Ci p.
Proof. unfold pm_Cs, pm_Ci. rewrite sw_k_p. reflexivity. Qed.
Lemma sw_Ci p : pm_Ci (pm_swap p) = pm_Cs p.
Proof. unfold pm_Cs, pm_Ci. rewrite sw_k_p. reflexivity. Qed.
Lemma sw_Ds p : pm_Ds (pm_swap p) = pm_Di p.
Proof. unfold pm_Ds, pm_Di. rewrite sw_k_p. reflexivity. Qed.
Lemma sw_Di p : pm_Di (pm_swap p) = pm_Ds p.
Proof. unfold pm_Ds, pm_Di. rewrite sw_k_p. reflexivity. Qed.
Lemma sw_mx p : pm_mx (pm_swap p) = pm_mx p.
Proof. unfold pm_mx. rewrite sw_k_p. reflexivity. Qed.
Lemma sw_my p : pm_my (pm_swap p) = pm_my p.
Proof. unfold pm_my. rewrite sw_k_p. reflexivity. Qed.
Lemma sw_m p : pm_m (pm_swap p) = pm_m p.
Proof. unfold pm_m. rewrite sw_k_p. reflexivity. Qed.
Lemma sw_n p : pm_n (pm_swap p) = pm_n p. Proof. reflexivity. Qed.

Lemma sw_dksi p : pm_dksi (pm_swap p) = pm_dksi p.
Proof. unfold pm_dksi. rewrite sw_k_s, sw_k_i. cbn [pm_swap p_k_eff]. ring. Qed.
Lemma sw_ee p : pm_ee (pm_swap p) = pm_ee p.
Proof. unfold pm_ee. rewrite sw_k_p, sw_dksi. reflexivity. Qed.
Lemma sw_ff p : pm_ff (pm_swap p) = pm_ff p.
Proof. unfold pm_ff. rewrite sw_k_p, sw_dksi. reflexivity. Qed.
Lemma sw_hh p : pm_hh (pm_swap p) = pm_hh p.
Proof.
  unfold pm_hh. rewrite sw_GAM4s, sw_GAM4i, sw_DEL4s, sw_DEL4i. f_equal; ring.
Qed.

(* ---- z-dependent coefficients *)
Lemma sw_CsDs p z : pm_CsDs (pm_swap p) z = pm_CiDi p z.
Proof. unfold pm_CsDs, pm_CiDi, pm_Ds_z, pm_Di_z. rewrite sw_Cs, sw_Ds. reflexivity. Qed.
Lemma sw_CiDi p z : pm_CiDi (pm_swap p) z = pm_CsDs p z.
Proof. unfold pm_CsDs, pm_CiDi, pm_Ds_z, pm_Di_z. rewrite sw_Ci, sw_Di. reflexivity. Qed.
Lemma sw_A1 p z : pm_A1 (pm_swap p) z = pm_A3 p z.
Proof. unfold pm_A1, pm_A3. rewrite sw_As, sw_CsDs. reflexivity. Qed.
Lemma sw_A3 p z : pm_A3 (pm_swap p) z = pm_A1 p z.
Proof. unfold pm_A1, pm_A3. rewrite sw_Ai, sw_CiDi. reflexivity. Qed.
Lemma sw_A2 p z : pm_A2 (pm_swap p) z = pm_A4 p z.
Proof. unfold pm_A2, pm_A4. rewrite sw_Bs, sw_CsDs. reflexivity. Qed.
Lemma sw_A4 p z : pm_A4 (pm_swap p) z = pm_A2 p z.
Proof. unfold pm_A2, pm_A4. rewrite sw_Bi, sw_CiDi. reflexivity. Qed.
Lemma sw_A6 p z : pm_A6 (pm_swap p) z = pm_A6 p z. Proof. reflexivity. Qed.
Lemma sw_mz p z : pm_mz (pm_swap p) z = pm_mz p z.
Proof. unfold pm_mz. rewrite sw_m. reflexivity. Qed.
Lemma sw_A8 p z : pm_A8 (pm_swap p) z = pm_A8 p z.
Proof. unfold pm_A8. rewrite sw_mx, sw_mz. reflexivity. Qed.
Lemma sw_A9 p z : pm_A9 (pm_swap p) z = pm_A9 p z.
Proof. unfold pm_A9. rewrite sw_my, sw_mz. reflexivity. Qed.
Lemma sw_A10 p z : pm_A10 (pm_swap p) z = pm_A10 p z.
Proof. unfold pm_A10. rewrite sw_hh, sw_ee, sw_ff. reflexivity. Qed.

(* ---- the generated numerator / denominator in terms of the generic algebra of C06_algebra.v (by conversion) *)
Lemma numerator_expo p z :
  pm_numerator p z = Cexp (pm_expo (pm_A1 p z) (pm_A2 p z) (pm_A3 p z) (pm_A4 p z) (pm_A5 p) (pm_A6 p z) (pm_A7 p)
                                     (pm_A8 p z) (pm_A9 p z) (pm_A10 p z)).
Proof. reflexivity. Qed.

Lemma denom1_det p z : pm_denom1 p z = pm_det (pm_A1 p z) (pm_A3 p z) (pm_A8 p z).
Proof. reflexivity. Qed.
Lemma denom2_det p z : pm_denom2 p z = pm_det (pm_A2 p z) (pm_A4 p z) (pm_A9 p z).
Proof. reflexivity. Qed.

Lemma sw_denom1 p z : pm_denom1 (pm_swap p) z = pm_denom1 p z.
Proof. rewrite !denom1_det, sw_A1, sw_A3, sw_A8. apply pm_det_sym. Qed.
Lemma sw_denom2 p z : pm_denom2 (pm_swap p) z = pm_denom2 p z.
Proof. rewrite !denom2_det, sw_A2, sw_A4, sw_A9. apply pm_det_sym. Qed.
Lemma sw_denominator p z : pm_denominator (pm_swap p) z = pm_denominator p z.
Proof. unfold pm_denominator. rewrite sw_denom1, sw_denom2. reflexivity. Qed.

(* definedness of the complex divisions of the exponent at (p, z): the four `inv`/`/` of the source *)
Definition pm_expo_defined (p : pm_params) (z : R) : Prop :=
  pm_A1 p z <> RtoC 0 /\ pm_A2 p z <> RtoC 0 /\ pm_A3 p z <> RtoC 0 /\ pm_A4 p z <> RtoC 0 /\
  pm_denom1 p z <> RtoC 0 /\ pm_denom2 p z <> RtoC 0.

Lemma sw_expo_defined p z : pm_expo_defined p z -> pm_expo_defined (pm_swap p) z.
Proof.
  unfold pm_expo_defined. rewrite sw_A1, sw_A2, sw_A3, sw_A4, sw_denom1, sw_denom2. tauto.
Qed.

Lemma sw_numerator p z : pm_expo_defined p z -> pm_numerator (pm_swap p) z = pm_numerator p z.
Proof.
  intros (H1 & H2 & H3 & H4 & Hd1 & Hd2). rewrite !numerator_expo.
  rewrite sw_A1, sw_A2, sw_A3, sw_A4, sw_A5, sw_A6, sw_A7, sw_A8, sw_A9, sw_A10.
  f_equal. apply pm_expo_exchange; auto.
Qed.

Lemma sw_pmzcoeff p z : pm_pmzcoeff (pm_swap p) z = pm_pmzcoeff p z. Proof. reflexivity. Qed.

(* C06 clause 1: integrand of the exchanged setup at (omega_i, omega_s) = integrand of the setup at (omega_s, omega_i) *)
Theorem integrand_exchange p z :
  pm_expo_defined p z -> pm_integrand (pm_swap p) z = pm_integrand p z.
Proof.
  intros Hd. unfold pm_integrand. rewrite sw_pmzcoeff, sw_numerator, sw_denominator by assumption. reflexivity.
Qed.

Lemma swap_involutive p : pm_swap (pm_swap p) = p.
Proof. destruct p; reflexivity. Qed.

(* ---- the role exchange itself: which old field of SPDC each field of with_swapped_signal_idler() is built from (translated from
   the struct literal in spdc_obj.rs), and the arms of PMType::inverse.  [pm_swap] (Model/PMParams.v) models exactly this
   permutation; if the source's permutation changes, this lemma — hence the property theorems' premise — no longer checks. *)
From Coq Require Import String List.
Import ListNotations.
Local Open Scope string_scope.

Lemma swap_field_source_pinned :
  swap_field_source =
  [("crystal_setup", "crystal_setup"); ("deff", "deff"); ("idler", "signal"); ("idler_waist_position", "signal_waist_position");
   ("pp", "pp"); ("pump", "pump"); ("pump_average_power", "pump_average_power"); ("pump_bandwidth", "pump_bandwidth");
   ("pump_spectrum_threshold", "pump_spectrum_threshold"); ("signal", "idler"); ("signal_waist_position", "idler_waist_position")].
Proof. reflexivity. Qed.

Lemma pm_type_inverse_pinned :
  pm_type_inverse_arms = [("Type2_e_eo", "Type2_e_oe"); ("Type2_e_oe", "Type2_e_eo"); ("_", "_")].
Proof. reflexivity. Qed.
