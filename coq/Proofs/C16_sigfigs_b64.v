(* C16: a binary64 (Flocq) statement for math::sigfigs(x, 4) = (x * 1e4).round() / 1e4.
   b64 = rounding to nearest-even in binary64 (FLT, emin = -1074, 53 bits).  f64::round is exact (its result is an integer).
     sigfigs_b64 x = b64 (round_half_away (b64 (x * 10^4)) / 10^4)
   Theorems:
     - EXACT TIES: if x * 10^4 is exactly k + 1/2 (|2k+1| < 2^53) the product is representable, so the code rounds it AWAY from
       zero exactly as the real-number specification round4 does: sigfigs_b64 x = b64 (round4 x);
     - AWAY FROM TIES: if x * 10^4 is farther than 2^-53 |x * 10^4| from every half-integer (and in the normal range), the
       binary64 product rounds to the same integer as the exact product: again sigfigs_b64 x = b64 (round4 x);
     - in both cases the result is the binary64 number nearest to the 4-decimal value round4 x.
   (Inside the 2^-53-relative band around a tie the two may differ by 1e-4; the checks skip such inputs.) *)
From Coq Require Import Reals ZArith Lra Lia.
From Flocq Require Import Core Relative.
From SpdVerif Require Import Base.Rx Spec.ConfigUnits Proofs.C16_round.
Local Open Scope R_scope.

Definition b64_exp := FLT_exp (-1074) 53.
Definition b64 (x : R) : R := round radix2 b64_exp ZnearestE x.

Definition sigfigs_b64 (x : R) : R := b64 (round_half_away (b64 (x * 10000)) / 10000).

Lemma rha_unique q (n : Z) : Rabs (q - IZR n) < / 2 -> round_half_away q = IZR n.
Proof.
  intros H. apply Rabs_def2 in H. destruct H as [H1 H2]. unfold round_half_away.
  destruct (Rle_dec 0 q).
  - apply Rfloor_unique. lra.
  - rewrite (Rfloor_unique (- q + / 2) (- n)%Z); rewrite ?opp_IZR; lra.
Qed.

(* a half-integer of moderate size is a binary64 number *)
Lemma half_integer_in_format (k : Z) : (Z.abs (2 * k + 1) < 2 ^ 53)%Z -> generic_format radix2 b64_exp (IZR k + / 2).
Proof.
  intros Hk. apply generic_format_FLT. exists (Float radix2 (2 * k + 1) (-1)).
  - unfold F2R. cbn [Fnum Fexp]. rewrite plus_IZR, mult_IZR. cbn [bpow]. unfold Z.pow_pos. cbn. lra.
  - cbn [Fnum]. exact Hk.
  - cbn [Fexp]. lia.
Qed.

Theorem sigfigs_b64_tie x (k : Z) :
  (Z.abs (2 * k + 1) < 2 ^ 53)%Z -> x * 10000 = IZR k + / 2 ->
  b64 (x * 10000) = x * 10000 /\ sigfigs_b64 x = b64 (round4 x).
Proof.
  intros Hk Hx.
  assert (Hb : b64 (x * 10000) = x * 10000).
  { rewrite Hx. apply round_generic; [apply valid_rnd_N | apply half_integer_in_format; exact Hk]. }
  split; [exact Hb |]. unfold sigfigs_b64, round4. rewrite Hb. reflexivity.
Qed.

(* relative error of the binary64 product in the normal range *)
Lemma b64_rel_error p : bpow radix2 (-1022) <= Rabs p -> Rabs (b64 p - p) <= / 2 * bpow radix2 (-52) * Rabs p.
Proof.
  intros Hp. unfold b64, b64_exp.
  apply (relative_error_N_FLT radix2 (-1074) 53 ltac:(lia) (fun z => negb (Z.even z)) p).
  replace (-1074 + 53 - 1)%Z with (-1022)%Z by lia. exact Hp.
Qed.

Theorem sigfigs_b64_away_from_ties x :
  let p := x * 10000 in
  bpow radix2 (-1022) <= Rabs p ->
  (forall z : Z, Rabs (p - (IZR z + / 2)) > / 2 * bpow radix2 (-52) * Rabs p) ->
  round_half_away (b64 p) = round_half_away p /\ sigfigs_b64 x = b64 (round4 x).
Proof.
  intros p Hn Hfar.
  set (d := / 2 * bpow radix2 (-52) * Rabs p) in *.
  pose proof (b64_rel_error p Hn) as He. fold d in He.
  destruct (round_half_away_is_int p) as [n Hnz].
  pose proof (round_half_away_err p) as Hr. rewrite Hnz in Hr.
  assert (Hd : 0 <= d). { unfold d. apply Rmult_le_pos; [| apply Rabs_pos]. apply Rmult_le_pos; [lra | apply bpow_ge_0]. }
  assert (Hclose : Rabs (p - IZR n) < / 2 - d).
  { apply Rabs_le_inv in Hr. destruct (Rle_dec (IZR n) p) as [Hge | Hlt].
    - specialize (Hfar n). rewrite Rabs_left1 in Hfar by lra. rewrite Rabs_pos_eq by lra. lra.
    - specialize (Hfar (n - 1)%Z). rewrite minus_IZR in Hfar. rewrite Rabs_pos_eq in Hfar by lra. rewrite Rabs_left1 by lra. lra. }
  assert (Hq : round_half_away (b64 p) = IZR n).
  { apply rha_unique. replace (b64 p - IZR n) with ((b64 p - p) + (p - IZR n)) by ring.
    eapply Rle_lt_trans; [apply Rabs_triang |]. lra. }
  split; [rewrite Hq, Hnz; reflexivity |].
  unfold sigfigs_b64, round4. fold p. rewrite Hq, Hnz. reflexivity.
Qed.
