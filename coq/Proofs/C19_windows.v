(* C19 — window formulas: evenness, centre value, range, Gaussian half maximum, scaling in the width parameter. *)
From Coq Require Import Reals Lra Lia List ZArith.
From Interval Require Import Tactic.
From SpdVerif Require Import Base.Rx Base.PolingBase Gen.Poling Model.Poling.
Local Open Scope R_scope.

Lemma half_lit : 0.5 = / 2.
Proof. lra. Qed.

(* ---- evenness: for every width parameter, FWHM and crystal length (no side condition is needed) ---- *)
Lemma window_even_any k a z L :
  integration_constant (window k a) (- z) L = integration_constant (window k a) z L.
Proof.
  destruct k; cbn [window integration_constant];
    unfold apod_Bartlett, apod_Blackman, apod_Connes, apod_Cosine, apod_Hamming, apod_Welch.
  - now rewrite Rabs_Ropp.
  - replace (PI * - z / a) with (- (PI * z / a)) by (unfold Rdiv; ring).
    replace (2 * PI * - z / a) with (- (2 * PI * z / a)) by (unfold Rdiv; ring).
    now rewrite !cos_neg.
  - unfold Rdiv; ring.
  - replace (0.5 * PI * - z / a) with (- (0.5 * PI * z / a)) by (unfold Rdiv; ring).
    now rewrite cos_neg.
  - replace (PI * - z / a) with (- (PI * z / a)) by (unfold Rdiv; ring).
    now rewrite cos_neg.
  - unfold Rdiv; ring.
Qed.

Lemma gaussian_even fwhm z L :
  integration_constant (ApGaussian fwhm) (- z) L = integration_constant (ApGaussian fwhm) z L.
Proof.
  cbn [integration_constant]. unfold apod_Gaussian. f_equal. unfold Rdiv. ring.
Qed.

Lemma even ap L z : unit_window ap L -> integration_constant ap (- z) L = integration_constant ap z L.
Proof.
  destruct ap; cbn [unit_window]; intros H; try contradiction.
  - reflexivity.
  - apply gaussian_even.
  - apply (window_even_any KBartlett).
  - apply (window_even_any KBlackman).
  - apply (window_even_any KConnes).
  - apply (window_even_any KCosine).
  - apply (window_even_any KHamming).
  - apply (window_even_any KWelch).
Qed.

(* ---- centre ---- *)
Lemma window_centre_any k a L : a <> 0 -> integration_constant (window k a) 0 L = 1.
Proof.
  intros Ha.
  destruct k; cbn [window integration_constant];
    unfold apod_Bartlett, apod_Blackman, apod_Connes, apod_Cosine, apod_Hamming, apod_Welch.
  - rewrite Rabs_R0. unfold Rdiv; ring.
  - replace (PI * 0 / a) with 0 by (unfold Rdiv; ring).
    replace (2 * PI * 0 / a) with 0 by (unfold Rdiv; ring).
    rewrite cos_0. lra.
  - unfold Rdiv; ring.
  - replace (0.5 * PI * 0 / a) with 0 by (unfold Rdiv; ring). apply cos_0.
  - replace (PI * 0 / a) with 0 by (unfold Rdiv; ring). rewrite cos_0. lra.
  - unfold Rdiv; ring.
Qed.

Lemma gaussian_centre fwhm L : 0 < fwhm -> 0 < L -> integration_constant (ApGaussian fwhm) 0 L = 1.
Proof.
  intros _ _. cbn [integration_constant]. unfold apod_Gaussian.
  replace (-0.5 * (0 / (2 * (fwhm / (2 * sqrt (2 * ln 2))) / L)) ^ 2) with 0 by (unfold Rdiv; ring).
  apply exp_0.
Qed.

Lemma centre ap L : unit_window ap L -> integration_constant ap 0 L = 1.
Proof.
  destruct ap; cbn [unit_window]; intros H; try contradiction.
  - reflexivity.
  - now apply gaussian_centre.
  - apply (window_centre_any KBartlett); lra.
  - apply (window_centre_any KBlackman); lra.
  - apply (window_centre_any KConnes); lra.
  - apply (window_centre_any KCosine); lra.
  - apply (window_centre_any KHamming); lra.
  - apply (window_centre_any KWelch); lra.
Qed.

(* ---- range for width parameter 1 ---- *)
Lemma cos_in c : -1 <= cos c <= 1.
Proof. apply COS_bound. Qed.

(* Blackman in c = cos (pi z): 0.16 (c + 1) (c + 2.125) *)
Lemma blackman_factored z L :
  integration_constant (ApBlackman 1) z L = 0.16 * (cos (PI * z) + 1) * (cos (PI * z) + 2.125).
Proof.
  cbn [integration_constant]. unfold apod_Blackman.
  replace (PI * z / 1) with (PI * z) by field.
  replace (2 * PI * z / 1) with (2 * (PI * z)) by field.
  rewrite cos_2a_cos. set (c := cos (PI * z)). lra.
Qed.

Lemma hamming_affine z L : integration_constant (ApHamming 1) z L = 0.54 + 0.46 * cos (PI * z).
Proof.
  cbn [integration_constant]. unfold apod_Hamming.
  replace (PI * z / 1) with (PI * z) by field. lra.
Qed.

Lemma window_range_unit k z L : -1 <= z <= 1 -> 0 <= integration_constant (window k 1) z L <= 1.
Proof.
  intros Hz.
  destruct k; cbn [window].
  - cbn [integration_constant]. unfold apod_Bartlett.
    unfold Rabs; destruct (Rcase_abs z); lra.
  - rewrite blackman_factored. pose proof (cos_in (PI * z)) as Hc. set (c := cos (PI * z)) in *. nra.
  - cbn [integration_constant]. unfold apod_Connes.
    replace (z / 1) with z by field.
    assert (Hw : 0 <= z ^ 2 <= 1) by nra. set (w := z ^ 2) in *. nra.
  - cbn [integration_constant]. unfold apod_Cosine.
    split; [|apply COS_bound].
    pose proof PI_RGT_0 as Hpi.
    apply cos_ge_0; replace (0.5 * PI * z / 1) with (0.5 * PI * z) by field; nra.
  - rewrite hamming_affine. pose proof (cos_in (PI * z)). lra.
  - cbn [integration_constant]. unfold apod_Welch.
    replace (z / 1) with z by field. nra.
Qed.

(* the bounds are attained / sharp: Hamming never goes below 0.08, the others reach 0 at the ends *)
Lemma hamming_floor z L : 0.08 <= integration_constant (ApHamming 1) z L.
Proof. rewrite hamming_affine. pose proof (cos_in (PI * z)). lra. Qed.

Lemma window_end_values L :
  integration_constant (ApBartlett 1) 1 L = 0 /\ integration_constant (ApBlackman 1) 1 L = 0 /\
  integration_constant (ApConnes 1) 1 L = 0 /\ integration_constant (ApCosine 1) 1 L = 0 /\
  integration_constant (ApHamming 1) 1 L = 0.08 /\ integration_constant (ApWelch 1) 1 L = 0.
Proof.
  repeat split.
  - cbn [integration_constant]. unfold apod_Bartlett. rewrite Rabs_R1. lra.
  - rewrite blackman_factored. rewrite Rmult_1_r, cos_PI. lra.
  - cbn [integration_constant]. unfold apod_Connes. lra.
  - cbn [integration_constant]. unfold apod_Cosine.
    replace (0.5 * PI * 1 / 1) with (PI / 2) by lra. apply cos_PI2.
  - rewrite hamming_affine. rewrite Rmult_1_r, cos_PI. lra.
  - cbn [integration_constant]. unfold apod_Welch. lra.
Qed.

Lemma gaussian_range fwhm z L : 0 < fwhm -> 0 < L -> 0 < integration_constant (ApGaussian fwhm) z L <= 1.
Proof.
  intros _ _. cbn [integration_constant]. unfold apod_Gaussian.
  split; [apply exp_pos|].
  set (q := z / (2 * (fwhm / (2 * sqrt (2 * ln 2))) / L)).
  assert (Hq : -0.5 * q ^ 2 <= 0) by (pose proof (pow2_ge_0 q); lra).
  destruct Hq as [Hq | Hq].
  - left. rewrite <- exp_0. now apply exp_increasing.
  - right. rewrite Hq. apply exp_0.
Qed.

Lemma range ap L z : unit_window ap L -> -1 <= z <= 1 -> 0 <= integration_constant ap z L <= 1.
Proof.
  destruct ap; cbn [unit_window]; intros H Hz; try contradiction.
  - cbn. unfold apod_Off. lra.
  - destruct H. pose proof (gaussian_range fwhm z L) as G. lra.
  - subst. apply (window_range_unit KBartlett); assumption.
  - subst. apply (window_range_unit KBlackman); assumption.
  - subst. apply (window_range_unit KConnes); assumption.
  - subst. apply (window_range_unit KCosine); assumption.
  - subst. apply (window_range_unit KHamming); assumption.
  - subst. apply (window_range_unit KWelch); assumption.
Qed.

(* ---- scaling: a window of width a at z is the unit window at z / a; hence the range also holds for every a >= 1 ---- *)
Lemma window_scale k a z L : 0 < a -> integration_constant (window k a) z L = integration_constant (window k 1) (z / a) L.
Proof.
  intros Ha.
  destruct k; cbn [window integration_constant];
    unfold apod_Bartlett, apod_Blackman, apod_Connes, apod_Cosine, apod_Hamming, apod_Welch.
  - assert (Hr : Rabs (z / a) = Rabs z / a).
    { unfold Rdiv. rewrite Rabs_mult, (Rabs_right (/ a)); [reflexivity|].
      left. apply Rlt_gt. now apply Rinv_0_lt_compat. }
    rewrite Hr. field. lra.
  - f_equal; [f_equal; f_equal; f_equal; field; lra | f_equal; f_equal; field; lra].
  - f_equal. f_equal. f_equal. field. lra.
  - f_equal. field. lra.
  - f_equal. f_equal. f_equal. f_equal. field. lra.
  - f_equal. f_equal. field. lra.
Qed.

Lemma window_range_wide k a z L : 1 <= a -> -1 <= z <= 1 -> 0 <= integration_constant (window k a) z L <= 1.
Proof.
  intros Ha Hz. rewrite window_scale by lra. apply window_range_unit.
  assert (H : 0 < / a) by (apply Rinv_0_lt_compat; lra).
  assert (H1 : / a <= 1) by (rewrite <- Rinv_1; apply Rinv_le_contravar; lra).
  unfold Rdiv. nra.
Qed.

(* ---- Gaussian: one half at +- FWHM/2 (physical position x = z L / 2, i.e. z = +- fwhm / L) ---- *)
Lemma ln2_pos : 0 < ln 2.
Proof. interval. Qed.

Lemma gaussian_half fwhm L : 0 < fwhm -> 0 < L ->
  integration_constant (ApGaussian fwhm) (fwhm / L) L = / 2 /\
  integration_constant (ApGaussian fwhm) (- (fwhm / L)) L = / 2.
Proof.
  intros Hf HL.
  assert (H : integration_constant (ApGaussian fwhm) (fwhm / L) L = / 2).
  { cbn [integration_constant]. unfold apod_Gaussian.
    pose proof ln2_pos as Hl.
    assert (Hs : 0 < sqrt (2 * ln 2)) by (apply sqrt_lt_R0; lra).
    replace (fwhm / L / (2 * (fwhm / (2 * sqrt (2 * ln 2))) / L)) with (sqrt (2 * ln 2)) by (field; lra).
    rewrite pow2_sqrt by lra.
    replace (-0.5 * (2 * ln 2)) with (- ln 2) by lra.
    rewrite exp_Ropp, exp_ln; lra. }
  split; [exact H|]. now rewrite gaussian_even.
Qed.

Lemma gaussian_half_in_range fwhm L : 0 < fwhm -> 0 < L -> fwhm <= L ->
  -1 <= fwhm / L <= 1 /\ integration_constant (ApGaussian fwhm) (fwhm / L) L = / 2 /\
  integration_constant (ApGaussian fwhm) (- (fwhm / L)) L = / 2.
Proof.
  intros Hf HL Hle. split; [|now apply gaussian_half].
  assert (Hi : 0 < / L) by now apply Rinv_0_lt_compat.
  split.
  - unfold Rdiv. assert (0 <= fwhm * / L) by (apply Rmult_le_pos; lra). lra.
  - apply Rmult_le_reg_r with L; [lra|]. unfold Rdiv. rewrite Rmult_assoc, Rinv_l; lra.
Qed.

(* definedness of the Gaussian arm: the divisor 2 sigma / L is not zero *)
Lemma gaussian_defined fwhm L : 0 < fwhm -> 0 < L -> 2 * (fwhm / (2 * sqrt (2 * ln 2))) / L <> 0 /\ 0 <= 2 * ln 2.
Proof.
  intros Hf HL. pose proof ln2_pos as Hl.
  assert (Hs : 0 < sqrt (2 * ln 2)) by (apply sqrt_lt_R0; lra).
  split; [|lra].
  apply Rgt_not_eq. apply Rlt_gt. unfold Rdiv.
  repeat apply Rmult_lt_0_compat; try lra; apply Rinv_0_lt_compat; lra.
Qed.

Lemma off_one z L : integration_constant ApOff z L = 1 /\ pp_integration_constant Off z L = 1.
Proof. split; reflexivity. Qed.
