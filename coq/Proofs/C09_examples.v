(* C09 — joint satisfiability of the hypotheses of the composition and twin theorems (non-vacuity witnesses). *)
From Coq Require Import Reals Lra Lia List Bool QArith Qreals ZArith.
From Coquelicot Require Import Coquelicot.
From Interval Require Import Tactic.
From SpdVerif Require Import Base.Rx Base.CxPM Model.PMParams Gen.PMIntegrand Proofs.C06_swap Proofs.C06_defined Proofs.C06_spectrum.
From SpdVerif Require Import Model.FinSum Model.Hom Model.Hom2 Model.C10_Pyth Proofs.FinSum_lemmas Proofs.FinSum_morph Proofs.Cx_lemmas
  Proofs.C09_range Proofs.C09_exec Proofs.C09_compose Proofs.C10_pyth.
Local Open Scope R_scope.

Definition ex_w0 : R := 1.215e15.
Definition ex_Q : (R -> C) -> R -> R -> C := fun _ _ _ => RtoC 1.
Definition ex_p : pm_params := pm_sym_example ex_w0 ex_w0.

Lemma ex_physical : forall ws wi, pm_physical (pm_sym_example ws wi).
Proof.
  intros. unfold pm_physical, pm_sym_example; cbn [p_wsx p_wsy p_wix p_wiy p_theta_s_e p_theta_i_e].
  rewrite cos_0. repeat split; lra.
Qed.

Lemma ex_norm_pos : 0 < pm_jsi_normalization ex_p.
Proof.
  unfold pm_jsi_normalization, pm_common_norm, ex_p, pm_sym_example, ex_w0, ucum_EPS_0.
  cbn [p_pp_on p_wpx p_wpy p_deff p_L p_omega_s p_omega_i p_n_s p_n_i p_power p_lambda_p p_bw p_theta_s_e p_theta_i_e p_wsx p_wsy p_wix p_wiy].
  destruct (bool_dec (if bool_dec true true then true else false) false) as [E|E].
  - exfalso. destruct (bool_dec true true); [discriminate|congruence].
  - interval.
Qed.

Lemma ex_valid : pm_invalid_frequencies ex_p = false.
Proof.
  unfold pm_invalid_frequencies, ex_p, pm_sym_example, ex_w0. cbn [p_omega_s p_omega_i p_omega_p0].
  replace (1.215e15 - 1.215e15) with 0 by lra. rewrite Rabs_R0.
  repeat match goal with
  | |- context [Rle_dec ?a ?b] => destruct (Rle_dec a b); [exfalso; lra|]
  | |- context [Rgt_dec ?a ?b] => destruct (Rgt_dec a b); [exfalso; lra|]
  end.
  cbn. reflexivity.
Qed.

Lemma ex_alpha : pm_pump_spectral_amplitude ex_p (p_omega_s ex_p + p_omega_i ex_p) = 1.
Proof.
  unfold pm_pump_spectral_amplitude, ex_p, pm_sym_example, ex_w0. cbn [p_omega_s p_omega_i p_omega_p0 p_lambda_p p_bw].
  replace (1.215e15 + 1.215e15 - 2.43e15) with 0 by lra.
  unfold Rdiv at 1 3. rewrite !Rmult_0_l, Ropp_0, Rmult_0_l. apply exp_0.
Qed.

Lemma ex_jsa_value : pm_jsa ex_Q ex_p = Cmult (RtoC (sqrt (pm_jsi_normalization ex_p / 1))) (RtoC (1 / 2)).
Proof.
  assert (Eraw : pm_jsa_raw ex_Q ex_p = RtoC (1 / 2)).
  { unfold pm_jsa_raw. rewrite ex_valid. destruct (bool_dec false true) as [E|_]; [discriminate|].
    rewrite ex_alpha. unfold ex_p at 1. cbn [pm_sym_example p_thr].
    destruct (Rlt_dec 1 0.01) as [E|_]; [exfalso; lra|].
    unfold pm_fiber_coupling, ex_Q. unfold Cmult, Cdiv, Cinv, RtoC. cbn [fst snd].
    apply injective_projections; unfold Cmult; cbn [fst snd]; lra. }
  unfold pm_jsa. rewrite Eraw. destruct (Ceq_dec (RtoC (1 / 2)) (RtoC 0)) as [E|_]; [|reflexivity].
  exfalso. injection E. lra.
Qed.

Lemma ex_grid_point : grid_ws ROps (sym_grid 1 ex_w0 ex_w0) 0 = ex_w0 /\ grid_wi ROps (sym_grid 1 ex_w0 ex_w0) 0 = ex_w0.
Proof. unfold grid_ws, grid_wi, axis_value, lerp, sym_grid. cbn. split; ring. Qed.

(* an exchange-symmetric setup, a quadrature, a grid: all hypotheses of C09_symmetric_setup_dip hold together *)
Theorem symmetric_dip_example :
  let g := sym_grid 1 ex_w0 ex_w0 in
  self_exchange pm_sym_example /\ physical_on pm_sym_example g /\
  jsi_norm ROps (grid_len g) (tabulate (jsa_of ex_Q pm_sym_example) g) <> 0.
Proof.
  cbv zeta. split; [exact pm_sym_example_self_exchange|]. split; [intros k _; apply ex_physical|].
  change (grid_len (sym_grid 1 ex_w0 ex_w0)) with 1%nat. rewrite jsi_norm_rsum. unfold rsum. cbn [gsum ROps o0 oadd].
  unfold tabulate. destruct ex_grid_point as [E1 E2]. rewrite E1, E2.
  unfold jsa_of. fold ex_p. rewrite ex_jsa_value.
  pose proof ex_norm_pos as HN. assert (Hs : 0 < sqrt (pm_jsi_normalization ex_p / 1)) by (apply sqrt_lt_R0; lra).
  unfold Cmult, RtoC, cnorm2. cbn [fst snd ROps oadd omul]. nra.
Qed.

(* a setup and its exchanged twin: the hypotheses of C09_setup_is_array_with_twin *)
Theorem twin_example :
  let S := fun _ _ : R => pm_example in let Ssw := fun _ _ : R => pm_swap pm_example in
  exchange_tie S Ssw /\ physical_on Ssw (sym_grid 2 1 2).
Proof.
  cbv zeta. split; [intros ws wi; reflexivity|]. intros k _. apply sw_physical. apply physical_example.
Qed.

(* the Pythagorean twin: the hypotheses of C09_pyth_twin *)
Theorem pyth_example :
  (1 < 2)%nat /\ (1 : R) <> 0 /\ jsi_norm ROps (2 * 2) (RC ((1, 0) :: (0, 1) :: (0, 0) :: (2, 0) :: nil)%Q) <> 0.
Proof.
  split; [lia|]. split; [lra|].
  rewrite <- jsi_norm_Q_correct.
  assert (E : Qeq (jsi_norm QOps (2 * 2) (arr (0, 0)%Q ((1, 0) :: (0, 1) :: (0, 0) :: (2, 0) :: nil)%Q)) 6) by (vm_compute; reflexivity).
  rewrite (Qeq_eqR _ _ E). unfold Q2R. cbn. lra.
Qed.
