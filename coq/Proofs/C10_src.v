(* C10 — the two-source function translated from src/spdc/hom.rs on this run (Gen/HomSrc.v) is the hand-written model:
   same grids, same index permutations, same products, same phases, same normalisation. *)
From Coq Require Import Reals Lra List.
From SpdVerif Require Import Model.FinSum Model.Hom Model.Hom2 Gen.HomSrc Proofs.FinSum_lemmas Proofs.C09_src.
Local Open Scope R_scope.

Lemma src_ts_terms_eq {T} (o : Ops T) cols (A : ts_arrays T) i1 i2 p1 p2 p3 :
  src_ts_terms o cols (first_s1_i1 A) (second_s2_i2 A) (first_s2_i1 A) (second_s1_i2 A) (first_s1_i2 A) (second_s2_i1 A)
               (first_i2_i1 A) (second_s2_s1 A) i1 i2 p1 p2 p3
  = (ts_term o (ts_a o A i1 i2) (ts_b_ss o cols A i1 i2) p1,
     ts_term o (ts_a o A i1 i2) (ts_b_ii o cols A i1 i2) p2,
     ts_term o (ts_a o A i1 i2) (ts_b_si o cols A i1 i2) p3).
Proof.
  unfold src_ts_terms, ts_b_ss, ts_b_ii, ts_b_si, ts_a, ts_term.
  destruct (get_2d_indices i1 cols), (get_2d_indices i2 cols). reflexivity.
Qed.

Lemma src_ts_phases_eq r1 r2 dt i1 i2 :
  src_ts_phases dt (grid_ws ROps r1 i1) (grid_wi ROps r1 i1) (grid_ws ROps r2 i2) (grid_wi ROps r2 i2)
  = (ts_phase_ss r1 r2 dt i1 i2, ts_phase_ii r1 r2 dt i1 i2, ts_phase_si r1 r2 dt i1 i2).
Proof.
  unfold src_ts_phases, ts_phase_ss, ts_phase_ii, ts_phase_si.
  f_equal; [f_equal|]; f_equal; field.
Qed.

Theorem src_ts_rates_eq n A r1 r2 dt :
  src_ts_rates n A r1 r2 dt
  = (ts_rate_ss ROps n A (ts_phase_ss r1 r2 dt), ts_rate_ii ROps n A (ts_phase_ii r1 r2 dt), ts_rate_si ROps n A (ts_phase_si r1 r2 dt)).
Proof.
  unfold src_ts_rates, ts_rate_ss, ts_rate_ii, ts_rate_si, ts_rate, src_ts_final. cbv zeta.
  rewrite !src_jsi_norm_eq. change (gsum ROps) with rsum.
  f_equal; [f_equal|]; f_equal; f_equal;
    apply rsum_ext; intros i1 _; apply rsum_ext; intros i2 _;
    rewrite src_ts_phases_eq, src_ts_terms_eq; reflexivity.
Qed.

Theorem src_ts_tabulate_eq J1 J2 ls1 li1 ls2 li2 n :
  src_ts_tabulate J1 J2 ls1 li1 ls2 li2 n = ts_tabulate J1 J2 ls1 li1 ls2 li2 n.
Proof. reflexivity. Qed.

Corollary src_setup_ts_rates_eq J1 J2 ls1 li1 ls2 li2 n dt :
  src_ts_rates n (src_ts_tabulate J1 J2 ls1 li1 ls2 li2 n) (axes_grid ls1 li1 n) (axes_grid ls2 li2 n) dt
  = setup_ts_rates J1 J2 ls1 li1 ls2 li2 n dt.
Proof. rewrite src_ts_rates_eq, src_ts_tabulate_eq. reflexivity. Qed.

(* ---- the setup-level wrappers (SPDC::hom_two_source_rate_series, hom_two_source_visibilities for spdc1 == spdc2) *)
Theorem src_setup_ts_rates_self_eq J ls li n dt : src_setup_ts_rates_self J ls li n dt = setup_ts_rates J J ls li ls li n dt.
Proof. apply src_setup_ts_rates_eq. Qed.

Theorem src_ts_time_delays_eq a b : src_ts_time_delays a b = ts_time_delays a b.
Proof. reflexivity. Qed.

Theorem src_ts_visibilities_eq same J1 J2 a b ls1 li1 ls2 li2 n :
  src_ts_visibilities same J1 J2 a b ls1 li1 ls2 li2 n = setup_ts_visibilities same J1 J2 a b ls1 li1 ls2 li2 n.
Proof.
  unfold src_ts_visibilities, setup_ts_visibilities. cbv zeta. rewrite !src_setup_ts_rates_eq, src_ts_time_delays_eq.
  destruct same; reflexivity.
Qed.

Theorem src_ts_visibilities_identical_eq J ls li n :
  src_ts_visibilities_identical J ls li n = setup_ts_visibilities_identical J ls li n.
Proof.
  unfold src_ts_visibilities_identical, setup_ts_visibilities_identical. rewrite src_ts_visibilities_eq.
  unfold setup_ts_visibilities. cbv zeta. cbn [fst snd].
  destruct (setup_ts_rates J J ls li ls li n 0) as [[ss ii] si]. reflexivity.
Qed.

Theorem src_ts_is_model n A r1 r2 dt J1 J2 ls1 li1 ls2 li2 :
  src_ts_rates n A r1 r2 dt
    = (ts_rate_ss ROps n A (ts_phase_ss r1 r2 dt), ts_rate_ii ROps n A (ts_phase_ii r1 r2 dt), ts_rate_si ROps n A (ts_phase_si r1 r2 dt)) /\
  src_ts_tabulate J1 J2 ls1 li1 ls2 li2 n = ts_tabulate J1 J2 ls1 li1 ls2 li2 n /\
  src_ts_rates n (src_ts_tabulate J1 J2 ls1 li1 ls2 li2 n) (axes_grid ls1 li1 n) (axes_grid ls2 li2 n) dt
    = setup_ts_rates J1 J2 ls1 li1 ls2 li2 n dt.
Proof. repeat split; [apply src_ts_rates_eq|apply src_setup_ts_rates_eq]. Qed.

Theorem src_ts_wrappers J ls li n dt :
  src_setup_ts_rates_self J ls li n dt = setup_ts_rates J J ls li ls li n dt /\
  src_ts_visibilities_identical J ls li n = setup_ts_visibilities_identical J ls li n.
Proof. split; [apply src_setup_ts_rates_self_eq|apply src_ts_visibilities_identical_eq]. Qed.

Theorem src_ts_free_function same J1 J2 a b ls1 li1 ls2 li2 n :
  src_ts_time_delays a b = ts_time_delays a b /\
  src_ts_visibilities same J1 J2 a b ls1 li1 ls2 li2 n = setup_ts_visibilities same J1 J2 a b ls1 li1 ls2 li2 n.
Proof. split; [apply src_ts_time_delays_eq|apply src_ts_visibilities_eq]. Qed.

(* hom_time_delay (the delay of hom_visibility) as translated: idler transit time - signal transit time + (idler waist position -
   signal waist position)/c; it is the signal-idler channel delay of the source against itself *)
Theorem src_hom_time_delay_eq a : src_hom_time_delay a = hom_time_delay a /\ hom_time_delay a = snd (ts_time_delays a a).
Proof. split; reflexivity. Qed.
