(* C10 — the executable rational twins (four-index sums at zero delay, purity in trace form) compute the real-valued
   definitions (Q2R homomorphism). *)
From Coq Require Import Reals Lra Lia QArith Qreals List.
From SpdVerif Require Import Model.FinSum Model.Hom Model.Hom2 Proofs.FinSum_lemmas Proofs.FinSum_morph Proofs.C09_exec.

Definition map_ts {A B} (phi : A -> B) (X : ts_arrays A) : ts_arrays B :=
  let cm := cmap phi in
  mkTs (fun k => cm (first_s1_i1 X k)) (fun k => cm (second_s2_i2 X k)) (fun k => cm (first_s2_i1 X k))
       (fun k => cm (second_s1_i2 X k)) (fun k => cm (first_s1_i2 X k)) (fun k => cm (second_s2_i1 X k))
       (fun k => cm (first_i2_i1 X k)) (fun k => cm (second_s2_s1 X k)).

Section Morph.
  Context {A B : Type} (phi : A -> B) (oa : Ops A) (ob : Ops B) (Hm : OpsMorph phi oa ob).
  Let cm := cmap phi.

  Lemma ts_a_morph X i j : cm (ts_a oa X i j) = ts_a ob (map_ts phi X) i j.
  Proof. unfold ts_a, cm. rewrite (cmul_morph phi oa ob Hm). reflexivity. Qed.

  Lemma ts_b_ss_morph n X i j : cm (ts_b_ss oa n X i j) = ts_b_ss ob n (map_ts phi X) i j.
  Proof.
    unfold ts_b_ss, cm. destruct (get_2d_indices i n), (get_2d_indices j n). rewrite (cmul_morph phi oa ob Hm). reflexivity.
  Qed.

  Lemma ts_b_ii_morph n X i j : cm (ts_b_ii oa n X i j) = ts_b_ii ob n (map_ts phi X) i j.
  Proof.
    unfold ts_b_ii, cm. destruct (get_2d_indices i n), (get_2d_indices j n). rewrite (cmul_morph phi oa ob Hm). reflexivity.
  Qed.

  Lemma ts_b_si_morph n X i j : cm (ts_b_si oa n X i j) = ts_b_si ob n (map_ts phi X) i j.
  Proof.
    unfold ts_b_si, cm. destruct (get_2d_indices i n), (get_2d_indices j n). rewrite (cmul_morph phi oa ob Hm). reflexivity.
  Qed.

  Lemma ts_term_morph a b p : phi (ts_term oa a b p) = ts_term ob (cm a) (cm b) (cm p).
  Proof.
    unfold ts_term, cm. rewrite (cnorm2_morph phi oa ob Hm), (csub_morph phi oa ob Hm), (cmul_morph phi oa ob Hm). reflexivity.
  Qed.

  Lemma ts_rate_morph n X (b : nat -> nat -> cx A) (b' : nat -> nat -> cx B) u :
    (forall i j, cm (b i j) = b' i j) ->
    ofour ob <> o0 ob ->
    omul ob (jsi_norm ob (n * n) (first_s1_i1 (map_ts phi X))) (jsi_norm ob (n * n) (second_s2_i2 (map_ts phi X))) <> o0 ob ->
    phi (ts_rate oa n X b u) = ts_rate ob n (map_ts phi X) b' (fun i j => cm (u i j)).
  Proof.
    intros Hb H4 HN. unfold ts_rate.
    assert (E1 : phi (jsi_norm oa (n * n) (first_s1_i1 X)) = jsi_norm ob (n * n) (first_s1_i1 (map_ts phi X)))
      by apply (jsi_norm_morph phi oa ob Hm).
    assert (E2 : phi (jsi_norm oa (n * n) (second_s2_i2 X)) = jsi_norm ob (n * n) (second_s2_i2 (map_ts phi X)))
      by apply (jsi_norm_morph phi oa ob Hm).
    rewrite (mdiv _ _ _ Hm) by (rewrite (mmul _ _ _ Hm), E1, E2; exact HN).
    rewrite (mdiv _ _ _ Hm) by (rewrite (ofour_morph phi oa ob Hm); exact H4).
    rewrite (mmul _ _ _ Hm), E1, E2, (ofour_morph phi oa ob Hm).
    f_equal. f_equal.
    rewrite (gsum_morph phi oa ob Hm). apply (gsum_ext_gen ob). intros i _.
    rewrite (gsum_morph phi oa ob Hm). apply (gsum_ext_gen ob). intros j _.
    rewrite ts_term_morph, ts_a_morph, Hb. reflexivity.
  Qed.

  Lemma gcsum_morph n f : cm (gcsum oa n f) = gcsum ob n (fun k => cm (f k)).
  Proof. unfold gcsum, cm, cmap. cbn [fst snd]. rewrite !(gsum_morph phi oa ob Hm). reflexivity. Qed.

  Let mapM (M : nat -> nat -> cx A) : nat -> nat -> cx B := fun s i => cm (M s i).

  Lemma gcsum_ext n (f g : nat -> cx B) : (forall k, (k < n)%nat -> f k = g k) -> gcsum ob n f = gcsum ob n g.
  Proof. intros H. unfold gcsum. f_equal; apply (gsum_ext_gen ob); intros k Hk; rewrite (H k Hk); reflexivity. Qed.

  Lemma FFh_morph n M s1 s2 : cm (FFh oa n M s1 s2) = FFh ob n (mapM M) s1 s2.
  Proof.
    unfold FFh. rewrite gcsum_morph. apply gcsum_ext. intros i _. unfold cm.
    rewrite (cmul_morph phi oa ob Hm), (cconj_morph phi oa ob Hm). reflexivity.
  Qed.

  Lemma FhF_morph n M i1 i2 : cm (FhF oa n M i1 i2) = FhF ob n (mapM M) i1 i2.
  Proof.
    unfold FhF. rewrite gcsum_morph. apply gcsum_ext. intros i _. unfold cm.
    rewrite (cmul_morph phi oa ob Hm), (cconj_morph phi oa ob Hm). reflexivity.
  Qed.

  Lemma re_tr_sq_morph n (X : nat -> nat -> cx A) (X' : nat -> nat -> cx B) :
    (forall j k, cm (X j k) = X' j k) -> phi (re_tr_sq oa n X) = re_tr_sq ob n X'.
  Proof.
    intros HX. unfold re_tr_sq. rewrite (gsum_morph phi oa ob Hm). apply (gsum_ext_gen ob). intros j _.
    rewrite (gsum_morph phi oa ob Hm). apply (gsum_ext_gen ob). intros k _.
    unfold cre. change (phi (fst (cmul oa (X j k) (X k j)))) with (fst (cmap phi (cmul oa (X j k) (X k j)))).
    rewrite (cmul_morph phi oa ob Hm). fold cm. rewrite !HX. reflexivity.
  Qed.

  Lemma frob2_morph n M : phi (frob2 oa n M) = frob2 ob n (mapM M).
  Proof.
    unfold frob2. rewrite (gsum_morph phi oa ob Hm). apply (gsum_ext_gen ob). intros i _.
    rewrite (gsum_morph phi oa ob Hm). apply (gsum_ext_gen ob). intros s _. apply (cnorm2_morph phi oa ob Hm).
  Qed.

  Lemma purity_s_morph n M :
    omul ob (frob2 ob n (mapM M)) (frob2 ob n (mapM M)) <> o0 ob -> phi (purity_s oa n M) = purity_s ob n (mapM M).
  Proof.
    intros H. unfold purity_s. rewrite (mdiv _ _ _ Hm) by (rewrite (mmul _ _ _ Hm), frob2_morph; exact H).
    rewrite (mmul _ _ _ Hm), frob2_morph, (re_tr_sq_morph n _ (FFh ob n (mapM M))) by (intros; apply FFh_morph). reflexivity.
  Qed.

  Lemma purity_i_morph n M :
    omul ob (frob2 ob n (mapM M)) (frob2 ob n (mapM M)) <> o0 ob -> phi (purity_i oa n M) = purity_i ob n (mapM M).
  Proof.
    intros H. unfold purity_i. rewrite (mdiv _ _ _ Hm) by (rewrite (mmul _ _ _ Hm), frob2_morph; exact H).
    rewrite (mmul _ _ _ Hm), frob2_morph, (re_tr_sq_morph n _ (FhF ob n (mapM M))) by (intros; apply FhF_morph). reflexivity.
  Qed.
End Morph.

Lemma ofour_R_neq : ofour ROps <> o0 ROps.
Proof. unfold ofour, otwo. cbn. lra. Qed.

Lemma cone_Q2R : cmap Q2R (cone QOps) = (1, 0)%R.
Proof. unfold cmap, cone. cbn [fst snd QOps o0 o1]. rewrite Q2R_0, Q2R_1. reflexivity. Qed.

(* the real arrays whose entries are the images of the rational ones *)
Definition ts_R (l : list (list (cx Q))) : ts_arrays R := map_ts Q2R (ts_of_lists l).

Theorem ts_rates_Q0_correct n l :
  (jsi_norm ROps (n * n) (first_s1_i1 (ts_R l)) * jsi_norm ROps (n * n) (second_s2_i2 (ts_R l)) <> 0)%R ->
  let '(ss, ii, si) := ts_rates_Q0 n l in
  Q2R ss = ts_rate_ss ROps n (ts_R l) (fun _ _ => (1, 0)%R) /\
  Q2R ii = ts_rate_ii ROps n (ts_R l) (fun _ _ => (1, 0)%R) /\
  Q2R si = ts_rate_si ROps n (ts_R l) (fun _ _ => (1, 0)%R).
Proof.
  intros HN. unfold ts_rates_Q0, ts_rate_ss, ts_rate_ii, ts_rate_si.
  repeat split.
  - rewrite (ts_rate_morph Q2R QOps ROps Q2R_morph n _ _ (ts_b_ss ROps n (ts_R l)) _
               (ts_b_ss_morph Q2R QOps ROps Q2R_morph n _) ofour_R_neq HN).
    rewrite cone_Q2R. reflexivity.
  - rewrite (ts_rate_morph Q2R QOps ROps Q2R_morph n _ _ (ts_b_ii ROps n (ts_R l)) _
               (ts_b_ii_morph Q2R QOps ROps Q2R_morph n _) ofour_R_neq HN).
    rewrite cone_Q2R. reflexivity.
  - rewrite (ts_rate_morph Q2R QOps ROps Q2R_morph n _ _ (ts_b_si ROps n (ts_R l)) _
               (ts_b_si_morph Q2R QOps ROps Q2R_morph n _) ofour_R_neq HN).
    rewrite cone_Q2R. reflexivity.
Qed.

Definition Fmat_R (n : nat) (F : list (cx Q)) : nat -> nat -> cx R := fun s i => cmap Q2R (Fmat n (arr (0, 0)%Q F) s i).

Theorem purity_Q_correct n F :
  (frob2 ROps n (Fmat_R n F) * frob2 ROps n (Fmat_R n F) <> 0)%R ->
  Q2R (purity_s_Q n F) = purity_s ROps n (Fmat_R n F) /\ Q2R (purity_i_Q n F) = purity_i ROps n (Fmat_R n F).
Proof.
  intros H. split.
  - apply (purity_s_morph Q2R QOps ROps Q2R_morph n _ H).
  - apply (purity_i_morph Q2R QOps ROps Q2R_morph n _ H).
Qed.
