(* C10 — the sharp upper bound for each two-source rate with arbitrary grids and unit-modulus phases:
   rate <= 1/4 (1 + sqrt(|b|^2 / (N1 N2)))^2   (Cauchy-Schwarz on the interference term). *)
From Coq Require Import Reals Lra Lia Arith Psatz.
From SpdVerif Require Import Model.FinSum Model.Hom Model.Hom2 Proofs.FinSum_lemmas Proofs.Cx_lemmas Proofs.C09_range
  Proofs.CMat Proofs.C10_sums Proofs.C10_svd Proofs.C10_expand.
Local Open Scope R_scope.

(* Cauchy-Schwarz for double sums, term-wise form *)
Lemma cs_general2 n m (t p q : nat -> nat -> R) :
  (forall i j, 0 <= p i j) -> (forall i j, 0 <= q i j) -> (forall i j, t i j * t i j <= p i j * q i j) ->
  rsum n (fun i => rsum m (t i)) * rsum n (fun i => rsum m (t i))
  <= rsum n (fun i => rsum m (p i)) * rsum n (fun i => rsum m (q i)).
Proof.
  intros Hp Hq Ht. apply cs_general; intros i _.
  - apply rsum_nonneg; intros; apply Hp.
  - apply rsum_nonneg; intros; apply Hq.
  - apply cs_general; intros; [apply Hp|apply Hq|apply Ht].
Qed.

Lemma cross_sq_le a b u : cnorm2 ROps u = 1 ->
  cre (a *c (b *c u)^*) * cre (a *c (b *c u)^*) <= cnorm2 ROps a * cnorm2 ROps b.
Proof.
  intros Hu. replace (cnorm2 ROps b) with (cnorm2 ROps (b *c u)) by (rewrite cnorm2_cmul, Hu; ring).
  generalize (b *c u). intros c. destruct a as [x y], c as [z w]. cx_unfold.
  assert (E : (x * x + y * y) * (z * z + w * w) - (x * z - y * - w) * (x * z - y * - w) = (x * w - y * z) * (x * w - y * z)) by ring.
  pose proof (Rle_0_sqr (x * w - y * z)) as H. unfold Rsqr in H. lra.
Qed.

Theorem ts_rate_sharp n A b u :
  unit_phases u ->
  0 < jsi_norm ROps (n * n) (first_s1_i1 A) -> 0 < jsi_norm ROps (n * n) (second_s2_i2 A) ->
  let N12 := jsi_norm ROps (n * n) (first_s1_i1 A) * jsi_norm ROps (n * n) (second_s2_i2 A) in
  ts_rate ROps n A b u <= (sqrt N12 + sqrt (b_norm n b)) * (sqrt N12 + sqrt (b_norm n b)) / (4 * N12).
Proof.
  intros Hu H1 H2 N12. rewrite ts_rate_unfold. fold N12.
  assert (HN : 0 < N12) by (apply Rmult_lt_0_compat; assumption).
  set (X := rsum (n * n) (fun i1 => rsum (n * n) (fun i2 => cre (ts_a ROps A i1 i2 *c (b i1 i2 *c u i1 i2)^*)))).
  assert (HB : 0 <= b_norm n b).
  { unfold b_norm. apply rsum_nonneg; intros. apply rsum_nonneg; intros. apply cnorm2_nonneg. }
  assert (Esum : ts_sum n A b u = N12 + b_norm n b - 2 * X).
  { unfold N12. rewrite <- a_norm. unfold ts_sum, b_norm, X.
    rewrite <- rsum_scal_l, <- rsum_add, <- rsum_sub. apply rsum_ext; intros i1 _.
    rewrite <- rsum_scal_l, <- rsum_add, <- rsum_sub. apply rsum_ext; intros i2 _.
    rewrite ts_term_expand, (Hu i1 i2). ring. }
  assert (HX : X * X <= N12 * b_norm n b).
  { unfold N12. rewrite <- a_norm. unfold X, b_norm.
    apply (cs_general2 (n * n) (n * n)); intros; try apply cnorm2_nonneg. apply cross_sq_le. apply Hu. }
  assert (Hs : - X <= sqrt N12 * sqrt (b_norm n b)).
  { rewrite <- sqrt_mult by lra. apply sq_le_le; [apply sqrt_pos|].
    rewrite sqrt_sqrt by (apply Rmult_le_pos; lra). lra. }
  assert (Hup : ts_sum n A b u <= (sqrt N12 + sqrt (b_norm n b)) * (sqrt N12 + sqrt (b_norm n b))).
  { rewrite Esum.
    replace ((sqrt N12 + sqrt (b_norm n b)) * (sqrt N12 + sqrt (b_norm n b)))
      with (sqrt N12 * sqrt N12 + sqrt (b_norm n b) * sqrt (b_norm n b) + 2 * (sqrt N12 * sqrt (b_norm n b))) by ring.
    rewrite !sqrt_sqrt by lra. lra. }
  apply Rmult_le_reg_r with (r := 4 * N12); [lra|].
  unfold Rdiv. rewrite (Rmult_assoc _ (/ (4 * N12)) (4 * N12)), Rinv_l by lra.
  replace (ts_sum n A b u * / 4 * / N12 * (4 * N12)) with (ts_sum n A b u) by (field; lra). lra.
Qed.

(* with the b-norms of the three channels *)
Corollary ts_rates_sharp n A u_ss u_ii u_si :
  unit_phases u_ss -> unit_phases u_ii -> unit_phases u_si ->
  0 < jsi_norm ROps (n * n) (first_s1_i1 A) -> 0 < jsi_norm ROps (n * n) (second_s2_i2 A) ->
  let N12 := jsi_norm ROps (n * n) (first_s1_i1 A) * jsi_norm ROps (n * n) (second_s2_i2 A) in
  let bound B := (sqrt N12 + sqrt B) * (sqrt N12 + sqrt B) / (4 * N12) in
  ts_rate_ss ROps n A u_ss <= bound (jsi_norm ROps (n * n) (first_s2_i1 A) * jsi_norm ROps (n * n) (second_s1_i2 A)) /\
  ts_rate_ii ROps n A u_ii <= bound (jsi_norm ROps (n * n) (first_s1_i2 A) * jsi_norm ROps (n * n) (second_s2_i1 A)) /\
  ts_rate_si ROps n A u_si <= bound (jsi_norm ROps (n * n) (first_i2_i1 A) * jsi_norm ROps (n * n) (second_s2_s1 A)).
Proof.
  intros U1 U2 U3 H1 H2 N12 bound. unfold bound, N12.
  rewrite <- b_norm_ss, <- b_norm_ii, <- b_norm_si.
  repeat split; apply ts_rate_sharp; assumption.
Qed.
