(* Complex numbers as pairs over ROps: ring identities, conjugation, squared modulus, polar form. *)
From Coq Require Import Reals Lra Lia Psatz.
From SpdVerif Require Import Model.FinSum.
Local Open Scope R_scope.

Ltac cx_unfold :=
  unfold cmul, cadd, csub, cconj, cnorm2, cre, cim, cone, cpolar in *;
  cbn [fst snd ROps o0 o1 oadd omul osub oopp odiv] in *.
Ltac cx_destruct := repeat match goal with a : cx R |- _ => destruct a end.
Ltac cx_ring := intros; cx_destruct; cx_unfold; try (apply injective_projections; cbn [fst snd]); ring.

Lemma cmul_comm (a b : cx R) : cmul ROps a b = cmul ROps b a.
Proof. cx_ring. Qed.

Lemma cmul_assoc (a b c : cx R) : cmul ROps (cmul ROps a b) c = cmul ROps a (cmul ROps b c).
Proof. cx_ring. Qed.

Lemma cconj_cmul (a b : cx R) : cconj ROps (cmul ROps a b) = cmul ROps (cconj ROps a) (cconj ROps b).
Proof. cx_ring. Qed.

Lemma cnorm2_cmul (a b : cx R) : cnorm2 ROps (cmul ROps a b) = cnorm2 ROps a * cnorm2 ROps b.
Proof. cx_ring. Qed.

Lemma cnorm2_cconj (a : cx R) : cnorm2 ROps (cconj ROps a) = cnorm2 ROps a.
Proof. cx_ring. Qed.

Lemma cnorm2_nonneg (a : cx R) : 0 <= cnorm2 ROps a.
Proof. destruct a; cx_unfold; nra. Qed.

Lemma cnorm2_polar r theta : cnorm2 ROps (cpolar r theta) = r * r.
Proof.
  cx_unfold. replace (r * cos theta * (r * cos theta) + r * sin theta * (r * sin theta))
    with (r * r * ((sin theta)² + (cos theta)²)) by (unfold Rsqr; ring).
  rewrite sin2_cos2. ring.
Qed.

Lemma cmul_polar r s a b : cmul ROps (cpolar r a) (cpolar s b) = cpolar (r * s) (a + b).
Proof. cx_unfold. rewrite cos_plus, sin_plus. apply injective_projections; cbn [fst snd]; ring. Qed.

Lemma cconj_polar r a : cconj ROps (cpolar r a) = cpolar r (- a).
Proof. cx_unfold. rewrite cos_neg, sin_neg. apply injective_projections; cbn [fst snd]; ring. Qed.

Lemma cpolar_0 : cpolar 1 0 = (1, 0).
Proof. unfold cpolar. rewrite cos_0, sin_0. apply injective_projections; cbn [fst snd]; ring. Qed.

Lemma cmul_conj_self (z : cx R) : cmul ROps (cconj ROps z) z = (cnorm2 ROps z, 0).
Proof. cx_ring. Qed.

Lemma cmul_one_r (z : cx R) : cmul ROps z (1, 0) = z.
Proof. cx_ring. Qed.

Lemma cre_real_polar x theta : cre (cmul ROps (x, 0) (cpolar 1 theta)) = x * cos theta.
Proof. cx_unfold. ring. Qed.

(* Re(conj f * h) as a real inner product, and its Cauchy-Schwarz bound *)
Lemma re_conj_mul (f h : cx R) : cre (cmul ROps (cconj ROps f) h) = fst f * fst h + snd f * snd h.
Proof. cx_ring. Qed.

Lemma re_conj_mul_sq_le (f h : cx R) :
  cre (cmul ROps (cconj ROps f) h) * cre (cmul ROps (cconj ROps f) h) <= cnorm2 ROps f * cnorm2 ROps h.
Proof.
  rewrite re_conj_mul. destruct f as [a b], h as [c d]. cx_unfold.
  cbn [fst snd].
  assert (E : (a * a + b * b) * (c * c + d * d) - (a * c + b * d) * (a * c + b * d) = (a * d - b * c) * (a * d - b * c)) by ring.
  pose proof (Rle_0_sqr (a * d - b * c)) as H. unfold Rsqr in H. lra.
Qed.
