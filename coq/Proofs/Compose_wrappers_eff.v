(* SPDC::efficiencies -> spdc::efficiencies (src/spdc/efficiencies.rs) -> SPDC::counts_{coincidences, singles_signal, singles_idler}
   -> spdc::counts_* (src/spdc/counts.rs) -> efficiencies_from_counts: the whole chain of forwarders, one generated file each
   (Gen/W_SPDC_efficiencies.v, Gen/W_efficiencies.v, Gen/W_SPDC_counts_*.v), ending in the generated efficiencies_from_counts of
   Gen/Efficiencies.v, about which property C08 is stated.

   Pinned here: the callee names and the argument expressions of every call as the string lists read off the source, and the
   definitions with every callee bound BY FIELD NAME.  The three rates reach efficiencies_from_counts in the order (coincidences, signal
   singles, idler singles), each computed by the callee of its own name: exchanging counts_singles_signal and counts_singles_idler in
   `efficiencies`, or two arguments of efficiencies_from_counts, breaks the reflexivity proofs below. *)
From Coq Require Import Reals Bool Lra List String.
From SpdVerif Require Import Base.Rx Gen.Efficiencies Proofs.C08_efficiency Gen.WrapBase.
From SpdVerif Require Import Gen.W_efficiencies Gen.W_SPDC_efficiencies Gen.W_SPDC_counts_coincidences Gen.W_SPDC_counts_singles_signal
  Gen.W_SPDC_counts_singles_idler.
Import ListNotations.
Local Open Scope R_scope.

Lemma wrap_eff_sources :
  efficiencies_callees = ["counts_coincidences"; "counts_singles_signal"; "counts_singles_idler"; "efficiencies_from_counts"]%string /\
  efficiencies_calls =
    [("coincidences_rate", "spdc.counts_coincidences", ["ranges"; "integrator"]);
     ("signal_singles_rate", "spdc.counts_singles_signal", ["ranges"; "integrator"]);
     ("idler_singles_rate", "spdc.counts_singles_idler", ["ranges"; "integrator"]);
     ("return", "efficiencies_from_counts", ["coincidences_rate"; "signal_singles_rate"; "idler_singles_rate"])]%string /\
  SPDC_efficiencies_calls = [("return", "super::efficiencies", ["self"; "ranges.into()"; "integrator"])]%string /\
  SPDC_counts_coincidences_calls = [("return", "super::counts_coincidences", ["self"; "ranges.into()"; "integrator"])]%string /\
  SPDC_counts_singles_signal_calls = [("return", "super::counts_singles_signal", ["self"; "ranges.into()"; "integrator"])]%string /\
  SPDC_counts_singles_idler_calls = [("return", "super::counts_singles_idler", ["self"; "ranges.into()"; "integrator"])]%string.
Proof. repeat split; reflexivity. Qed.

Section Order.
Variable obj : Type.
Notation spdc := (spdc obj).

(* the callee record of `efficiencies`, each callee under its own name *)
Definition K_eff (cc cs ci : spdc -> obj -> obj -> obj) (efc : obj -> obj -> obj -> obj) : efficiencies_K obj :=
  {| efficiencies_K_counts_coincidences := cc;
     efficiencies_K_counts_singles_signal := cs;
     efficiencies_K_counts_singles_idler := ci;
     efficiencies_K_efficiencies_from_counts := efc |}.

Lemma wrap_efficiencies_order : forall (cc cs ci : spdc -> obj -> obj -> obj) (efc : obj -> obj -> obj -> obj) (s : spdc) (ranges integrator : obj),
  efficiencies_gen (K_eff cc cs ci efc) s ranges integrator =
  efc (cc s ranges integrator) (cs s ranges integrator) (ci s ranges integrator).
Proof. reflexivity. Qed.

(* the methods SPDC::counts_* and SPDC::efficiencies hand (self, ranges.into(), integrator), in that order and unchanged, to the free
   function of the same name *)
Lemma wrap_counts_order : forall (f : spdc -> obj -> obj -> obj) (s : spdc) (ranges integrator : obj),
  SPDC_counts_coincidences_gen {| SPDC_counts_coincidences_K_counts_coincidences := f |} s ranges integrator = f s ranges integrator /\
  SPDC_counts_singles_signal_gen {| SPDC_counts_singles_signal_K_counts_singles_signal := f |} s ranges integrator = f s ranges integrator /\
  SPDC_counts_singles_idler_gen {| SPDC_counts_singles_idler_K_counts_singles_idler := f |} s ranges integrator = f s ranges integrator /\
  SPDC_efficiencies_gen {| SPDC_efficiencies_K_efficiencies := f |} s ranges integrator = f s ranges integrator.
Proof. repeat split; reflexivity. Qed.

(* the method SPDC::efficiencies, with the free function efficiencies as its callee and the methods SPDC::counts_* as the callees of
   that, each forwarding to the free functions cc, cs, ci of counts.rs: (self, ranges, integrator) reach them unchanged *)
Definition chain (cc cs ci : spdc -> obj -> obj -> obj) (efc : obj -> obj -> obj -> obj) (s : spdc) (ranges integrator : obj) : obj :=
  SPDC_efficiencies_gen
    {| SPDC_efficiencies_K_efficiencies :=
         efficiencies_gen (K_eff (SPDC_counts_coincidences_gen {| SPDC_counts_coincidences_K_counts_coincidences := cc |})
                                 (SPDC_counts_singles_signal_gen {| SPDC_counts_singles_signal_K_counts_singles_signal := cs |})
                                 (SPDC_counts_singles_idler_gen {| SPDC_counts_singles_idler_K_counts_singles_idler := ci |}) efc) |}
    s ranges integrator.

Lemma wrap_efficiencies_chain : forall (cc cs ci : spdc -> obj -> obj -> obj) (efc : obj -> obj -> obj -> obj) (s : spdc) (ranges integrator : obj),
  chain cc cs ci efc s ranges integrator = efc (cc s ranges integrator) (cs s ranges integrator) (ci s ranges integrator).
Proof. reflexivity. Qed.
End Order.
Arguments K_eff {obj}.
Arguments chain {obj}.

(* values handed around: rates, the result record, anything else (ranges, integrators, beams, ...) *)
Inductive eff_val : Type := ERate (x : R) | EEff (e : efficiencies) | EOther (tag : nat) | EBad.

(* efficiencies_from_counts(coincidences_rate, signal_singles_rate, idler_singles_rate), parameters in the order of its signature *)
Definition crate_efficiencies_from_counts (c rs ri : eff_val) : eff_val :=
  match c, rs, ri with
  | ERate c, ERate rs, ERate ri => EEff (efficiencies_from_counts c rs ri)
  | _, _, _ => EBad
  end.

Section OnModel.
(* the three rate integrals of counts.rs (property C07's business): any functions of (spdc, ranges, integrator) *)
Variables cc cs ci : spdc eff_val -> eff_val -> eff_val -> R.
Let lift (f : spdc eff_val -> eff_val -> eff_val -> R) := fun s r i => ERate (f s r i).

Definition spdc_efficiencies (s : spdc eff_val) (ranges integrator : eff_val) : eff_val :=
  chain (lift cc) (lift cs) (lift ci) crate_efficiencies_from_counts s ranges integrator.

Theorem wrap_efficiencies_model : forall s ranges integrator,
  spdc_efficiencies s ranges integrator =
  EEff (efficiencies_from_counts (cc s ranges integrator) (cs s ranges integrator) (ci s ranges integrator)).
Proof. reflexivity. Qed.

(* C08's statements about efficiencies_from_counts therefore hold of what SPDC::efficiencies returns *)
Corollary wrap_efficiencies_values : forall s ranges integrator,
  let c := cc s ranges integrator in let rs := cs s ranges integrator in let ri := ci s ranges integrator in
  exists e, spdc_efficiencies s ranges integrator = EEff e /\
    (ri <> 0 -> eff_signal e = c / ri) /\ (rs <> 0 -> eff_idler e = c / rs) /\
    (rs <> 0 -> ri <> 0 -> eff_symmetric e = c / (sqrt rs * sqrt ri)) /\
    eff_coincidences e = c /\ eff_signal_singles e = rs /\ eff_idler_singles e = ri.
Proof.
  intros s r i c rs ri. exists (efficiencies_from_counts c rs ri). split; [apply wrap_efficiencies_model|].
  pose proof (efficiencies_values c rs ri) as H. cbv zeta in H.
  destruct H as (A & _ & B & _ & C & _ & D & E & F). repeat split; assumption.
Qed.

Corollary wrap_efficiencies_defined_and_bounded : forall s ranges integrator,
  let c := cc s ranges integrator in let rs := cs s ranges integrator in let ri := ci s ranges integrator in
  0 <= c -> c <= rs -> c <= ri ->
  efficiencies_from_counts_defined c rs ri /\
  exists e, spdc_efficiencies s ranges integrator = EEff e /\
    0 <= eff_signal e <= 1 /\ 0 <= eff_idler e <= 1 /\ 0 <= eff_symmetric e <= 1.
Proof.
  intros s r i c rs ri H0 H1 H2. split.
  - apply efficiencies_defined; lra.
  - exists (efficiencies_from_counts c rs ri). split; [apply wrap_efficiencies_model|].
    exact (efficiencies_in_unit c rs ri H0 H1 H2).
Qed.
End OnModel.

Print Assumptions wrap_eff_sources.
Print Assumptions wrap_counts_order.
Print Assumptions wrap_efficiencies_order.
Print Assumptions wrap_efficiencies_chain.
Print Assumptions wrap_efficiencies_model.
Print Assumptions wrap_efficiencies_values.
Print Assumptions wrap_efficiencies_defined_and_bounded.
