(* C20: the sweep functions of SPDCIter and the accessors of JointSpectrum speak about the SAME quantities with the SAME
   reference: a raw sweep value is the unnormalised coincidence intensity of that setup at its own centre; a normalised sweep
   value of a setup whose optimum is the base's optimum is exactly the value JointSpectrum::jsi_normalized reports for that
   setup at its centre; the base's optimum itself sweeps to 1.  For all oracles. *)
From Coq Require Import Reals Lra List.
From Coquelicot Require Import Complex.
From SpdVerif Require Import Base.CfgNumOps Model.NumInst Spec.ConfigSpec Gen.ConfigSites Model.ConfigTypes Model.Config Model.NormSpectrum
  Proofs.C20_idempotent Proofs.C20_spectrum.
Import ListNotations.
Local Open Scope R_scope.

Section SweepSpectrum.
  Variable K : oracles R.
  Variable minpos : R.
  Variable op oi : bool.
  Variable jsa_raw : spdc R -> R -> R -> C.
  Variable singles_raw : spdc R -> R -> R -> R.
  Variable norm_jsi : spdc R -> R -> R -> R.
  Variable norm_singles : spdc R -> R -> R -> R.
  Variable freq : beam R -> R.

  Local Notation jsa_of := (jsa_of jsa_raw norm_jsi).
  Local Notation jsi_of := (jsi_of jsa_raw norm_jsi).
  Local Notation new := (joint_spectrum_new K minpos op oi jsa_raw singles_raw norm_jsi norm_singles freq).
  Local Notation center := (center freq).

  (* the two zero tests (|a|^2 == 0 in the sweep, a == 0 in the accessor) select the same value *)
  Lemma sweep_value_is_jsi_of s ws wi :
    (if Req_EM_T (Cmod (jsa_raw s ws wi) ^ 2) 0 then 0 else Cmod (jsa_raw s ws wi) ^ 2 * norm_jsi s ws wi) = jsi_of s ws wi.
  Proof.
    unfold NormSpectrum.jsi_of. cbv zeta.
    destruct (Ceq_dec (jsa_raw s ws wi) 0) as [H0 | H0]; destruct (Req_EM_T (Cmod (jsa_raw s ws wi) ^ 2) 0) as [Hz | Hz]; try reflexivity.
    - exfalso. apply Hz. rewrite H0, Cmod_0. ring.
    - rewrite Hz. ring.
    - ring.
  Qed.

  (* raw sweep values = unnormalised coincidence intensity of each setup at its own centre *)
  Theorem sweep_raw_is_jsi setups :
    jsi_values jsa_raw norm_jsi freq setups = map (fun s => jsi_of s (fst (center s)) (snd (center s))) setups.
  Proof.
    unfold jsi_values. apply map_ext. intros s. unfold NormSpectrum.center. cbn [fst snd]. apply sweep_value_is_jsi_of.
  Qed.

  (* the cached amplitude reference squared is the unnormalised intensity at the optimum's centre *)
  Lemma jsa_center_sq j s : new s = Ok j ->
    exists so nf, try_as_optimum R_ops K minpos op oi s = Ok (so, nf) /\ js_spdc j = s /\
      (0 <= norm_jsi so (fst (center so)) (snd (center so)) ->
       js_jsa_center j ^ 2 = jsi_of so (fst (center so)) (snd (center so))).
  Proof.
    intros Hn. destruct (new_ok K minpos op oi jsa_raw singles_raw norm_jsi norm_singles freq s j Hn) as (so & nf & Ho & Hs & Hc & _).
    exists so, nf. repeat split; auto. intros Hpos. rewrite Hc.
    rewrite <- (jsa_center_is jsa_raw norm_jsi). apply jsi_center_is. exact Hpos.
  Qed.

  (* SAME REFERENCE: a swept setup whose optimum is the base's optimum gets, from the sweep, exactly the value its own
     JointSpectrum reports at its centre *)
  Theorem sweep_is_spectrum base s opt nf nf' j :
    try_as_optimum R_ops K minpos op oi base = Ok (opt, nf) ->
    try_as_optimum R_ops K minpos op oi s = Ok (opt, nf') ->
    new s = Ok j ->
    0 <= norm_jsi opt (fst (center opt)) (snd (center opt)) ->
    jsi_values_normalized K minpos op oi jsa_raw norm_jsi freq base [s] =
    Ok [jsi_normalized jsa_raw norm_jsi j (fst (center s)) (snd (center s))].
  Proof.
    intros Hb Hs Hn Hpos.
    rewrite (sweep K minpos op oi jsa_raw norm_jsi freq base [s] opt nf Hb). rewrite sweep_raw_is_jsi. cbn [map].
    destruct (jsa_center_sq j s Hn) as (so & nf2 & Ho & Hj & Hc).
    rewrite Hs in Ho. inversion Ho. subst so nf2.
    unfold jsi_normalized, jsi. rewrite Hj, (Hc Hpos). reflexivity.
  Qed.

  (* the base's optimum sweeps to 1 (reference not 0) *)
  Theorem sweep_unit_at_optimum base opt nf :
    try_as_optimum R_ops K minpos op oi base = Ok (opt, nf) ->
    jsi_of opt (fst (center opt)) (snd (center opt)) <> 0 ->
    jsi_values_normalized K minpos op oi jsa_raw norm_jsi freq base [opt] = Ok [1].
  Proof.
    intros Hb Hne.
    rewrite (sweep K minpos op oi jsa_raw norm_jsi freq base [opt] opt nf Hb). rewrite sweep_raw_is_jsi. cbn [map].
    do 2 f_equal. field. exact Hne.
  Qed.

  (* sweeps are pointwise: the value of a setup does not depend on its neighbours or its position in the sweep *)
  Theorem sweep_pointwise base setups l :
    jsi_values_normalized K minpos op oi jsa_raw norm_jsi freq base setups = Ok l ->
    length l = length setups /\
    forall k s, nth_error setups k = Some s ->
      exists v, nth_error l k = Some v /\ jsi_values_normalized K minpos op oi jsa_raw norm_jsi freq base [s] = Ok [v].
  Proof.
    unfold jsi_values_normalized.
    destruct (try_as_optimum R_ops K minpos op oi base) as [[opt nf] | |]; try discriminate.
    unfold NormSpectrum.center. cbn [fst snd]. intros H. inversion H. clear H. split; [apply map_length |].
    intros k s Hk. eexists. split; [apply map_nth_error; exact Hk |]. reflexivity.
  Qed.
End SweepSpectrum.

(* FULL STRENGTH for the code as it is now: a sweep whose base is an OPTIMISED setup gives that setup the value 1 -- the sweep path's
   form of "an optimised setup has normalised coincidence intensity 1 at its centre" (idempotence makes the base its own reference) *)
Theorem sweep_unit_of_optimised_base K minpos jsa_raw norm_jsi freq s so nf :
  collinear_contract K -> try_as_optimum_now K minpos s = Ok (so, nf) ->
  jsi_of jsa_raw norm_jsi so (fst (center freq so)) (snd (center freq so)) <> 0 ->
  jsi_values_normalized K minpos optimum_idler_sees_old_poling optimum_waist_sees_old_idler jsa_raw norm_jsi freq so [so] = Ok [1].
Proof.
  intros HK Ho Hne.
  apply (sweep_unit_at_optimum K minpos optimum_idler_sees_old_poling optimum_waist_sees_old_idler jsa_raw norm_jsi freq so so nf); [| exact Hne].
  exact (optimum_idempotent_now K minpos s so nf HK Ho).
Qed.
