(* C12 — definitions used by the generated correspondence cases (coq/Cases/, never committed): the translated kernels are
   run over Q by vm_compute on the inputs the Rust harness used and compared with what the implementation returned. *)
From Coq Require Import QArith ZArith List Bool Qabs.
From SpdVerif Require Import Base.NumOps Gen.Integration Model.Quadrature.
Import ListNotations.

Definition qclose (tol x y : Q) : bool := Qle_bool (Qabs (x - y)) tol.
Definition vclose (tol : Q) (u v : Q * Q) : bool := qclose tol (fst u) (fst v) && qclose tol (snd u) (snd v).

Fixpoint rule_close (tx tw : Q) (r1 r2 : list (Q * Q)) : bool :=
  match r1, r2 with
  | nil, nil => true
  | p :: r1', q :: r2' => qclose tx (fst p) (fst q) && qclose tw (snd p) (snd q) && rule_close tx tw r1' r2'
  | _, _ => false
  end.

Fixpoint rule2_close (tx tw : Q) (r1 r2 : list ((Q * Q) * Q)) : bool :=
  match r1, r2 with
  | nil, nil => true
  | p :: r1', q :: r2' =>
      qclose tx (fst (fst p)) (fst (fst q)) && qclose tx (snd (fst p)) (snd (fst q)) && qclose tw (snd p) (snd q)
      && rule2_close tx tw r1' r2'
  | _, _ => false
  end.

(* complex product over Q *)
Definition qcmul (u v : Q * Q) : Q * Q :=
  (Qred (fst u * fst v - snd u * snd v), Qred (fst u * snd v + snd u * fst v)).

Definition poly (cs : list (Q * Q)) : Q -> Q * Q := cpeval Qops cs.
Definition sep (p q : list (Q * Q)) (x y : Q) : Q * Q := qcmul (poly p x) (poly q y).
(* sum_j x^j (sum_k c_jk y^k), Horner in x over the row polynomials evaluated at y *)
Definition poly2 (c : list (list (Q * Q))) (x y : Q) : Q * Q := cpeval Qops (map (fun row => poly row y) c) x.

(* insertion sort of a rule2 by (x, y), lexicographic — the harness sorts the extracted nodes the same way *)
Definition lt2 (p q : (Q * Q) * Q) : bool :=
  let '(x1, y1) := fst p in let '(x2, y2) := fst q in
  negb (Qle_bool x2 x1) || (Qeq_bool x1 x2 && negb (Qle_bool y2 y1)).
Fixpoint ins2 (p : (Q * Q) * Q) (l : list ((Q * Q) * Q)) :=
  match l with nil => [p] | q :: t => if lt2 p q then p :: l else q :: ins2 p t end.
Definition sort2 (l : list ((Q * Q) * Q)) := fold_right ins2 nil l.

Definition ones1 : Q -> nat := fun _ => 1%nat.
Definition ones2 : Q -> Q -> nat := fun _ _ => 1%nat.
