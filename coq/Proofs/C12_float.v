(* C12 — rounding analysis of the translated `simpson` (sequential branch) in the standard model of floating-point
   arithmetic (every operation correctly rounded with relative error <= u, no overflow/underflow), instantiated for binary64
   round-to-nearest through Flocq (FLX format, precision 53, u = 2^-53).
   With n = the normalised number of divisions, v_i the integrand values the code actually obtained at its (rounded) nodes and
   w_i the 1-4-2-...-4-1 weights, each component of the computed result satisfies
       | fl - (b - a)/(3 n) * sum_i w_i v_i |  <=  ((1+u)^(n+6) - 1) * |b - a|/(3 n) * sum_i w_i |v_i|,
   and (1+u)^k - 1 <= gamma_k = k u / (1 - k u).  (n+6: one product, at most n+1 additions, the final scaling, and the three
   roundings of (b-a), /n, /3.)  What is NOT covered: the displacement of the nodes a + i dx by rounding (it moves the
   arguments of the integrand), the rayon reduction order of the parallel branch (n >= 128), overflow and underflow. *)
From Coq Require Import Reals QArith ZArith List Bool Lra Lia.
From Coquelicot Require Import Coquelicot.
From Flocq Require Import Core Relative.
From Interval Require Import Tactic.
From SpdVerif Require Import Base.NumOps Gen.Integration Model.Quadrature Model.C12_FloatOps Proofs.C12_base Proofs.C12_simpson.
Import ListNotations.
Local Open Scope R_scope.

Section StdModel.
Variable rnd : R -> R.
Variable u : R.
Hypothesis Hu : 0 <= u.
Hypothesis Hrnd : std_model rnd u.

Definition G (k : nat) : R := (1 + u) ^ k - 1.

Lemma G_nonneg : forall k, 0 <= G k.
Proof. intros k. unfold G. assert (1 <= (1 + u) ^ k) by (apply pow_R1_Rle; lra). lra. Qed.

Lemma G_S : forall k, G (S k) = (G k + 1) * (1 + u) - 1.
Proof. intros k. unfold G. cbn [pow]. ring. Qed.

Lemma G_mono : forall j k, (j <= k)%nat -> G j <= G k.
Proof. intros j k H. unfold G. assert ((1 + u) ^ j <= (1 + u) ^ k) by (apply Rle_pow; [lra | exact H]). lra. Qed.

Lemma rnd_err : forall x, Rabs (rnd x - x) <= u * Rabs x.
Proof.
  intros x. destruct (Hrnd x) as [d [Hd ->]]. replace (x * (1 + d) - x) with (d * x) by ring.
  rewrite Rabs_mult. apply Rmult_le_compat_r; [apply Rabs_pos | exact Hd].
Qed.

(* one more rounding on top of a relative perturbation of size G j *)
Lemma pert_step : forall (x y : R) (B : R) (j : nat), Rabs (y - x) <= G j * B -> Rabs x <= B -> Rabs (rnd y - x) <= G (S j) * B.
Proof.
  intros x y B j Hy Hx. pose proof (rnd_err y) as Hr. pose proof (G_nonneg j) as Hg.
  assert (Habs : Rabs y <= (G j + 1) * B).
  { replace y with ((y - x) + x) by ring. eapply Rle_trans; [apply Rabs_triang|]. lra. }
  replace (rnd y - x) with ((rnd y - y) + (y - x)) by ring. eapply Rle_trans; [apply Rabs_triang|].
  rewrite G_S. assert (0 <= B) by (eapply Rle_trans; [apply Rabs_pos | exact Hx]).
  assert (u * Rabs y <= u * ((G j + 1) * B)) by (apply Rmult_le_compat_l; assumption). nra.
Qed.

(* recursive summation with a rounded addition at every step, as Iterator::sum does *)
Definition fl_sum (ts : list R) (acc : R) : R := fold_left (fun s t => rnd (s + t)) ts acc.

Lemma fl_sum_err : forall (ts : list R) (acc A B : R) (m : nat),
  Rabs (acc - A) <= G m * B -> Rabs A <= B ->
  Rabs (fl_sum ts acc - (A + rsum ts)) <= G (m + length ts) * (B + rsum (map Rabs ts)).
Proof.
  induction ts as [|t ts IH]; intros acc A B m Hacc HA.
  - cbn [fl_sum fold_left rsum map length]. rewrite Nat.add_0_r, !Rplus_0_r. exact Hacc.
  - cbn [fl_sum fold_left rsum map length]. fold (fl_sum ts (rnd (acc + t))).
    replace (A + (t + rsum ts)) with ((A + t) + rsum ts) by ring.
    replace (B + (Rabs t + rsum (map Rabs ts))) with ((B + Rabs t) + rsum (map Rabs ts)) by ring.
    replace (m + S (length ts))%nat with (S m + length ts)%nat by lia.
    apply IH.
    + apply pert_step.
      * replace (acc + t - (A + t)) with (acc - A) by ring. eapply Rle_trans; [exact Hacc|].
        apply Rmult_le_compat_l; [apply G_nonneg|]. pose proof (Rabs_pos t). lra.
      * eapply Rle_trans; [apply Rabs_triang|]. lra.
    + eapply Rle_trans; [apply Rabs_triang|]. lra.
Qed.

Lemma rsum_abs_nonneg : forall l, 0 <= rsum (map Rabs l).
Proof. induction l as [|x l IH]; cbn [map rsum]; [lra | pose proof (Rabs_pos x); lra]. Qed.

(* weighted terms: each product w * v is rounded once *)
Lemma weighted_sum_err : forall (wv : list (R * R)),
  Rabs (fl_sum (map (fun p => rnd (fst p * snd p)) wv) 0 - rsum (map (fun p => fst p * snd p) wv))
    <= G (length wv + 1) * rsum (map (fun p => Rabs (fst p * snd p)) wv).
Proof.
  intros wv. set (ts := map (fun p => rnd (fst p * snd p)) wv). set (ex := map (fun p => fst p * snd p) wv).
  set (A := rsum (map (fun p => Rabs (fst p * snd p)) wv)).
  assert (H1 : Rabs (rsum ts - rsum ex) <= u * A /\ rsum (map Rabs ts) <= (1 + u) * A).
  { unfold ts, ex, A. induction wv as [|p wv IH]; cbn [map rsum].
    - rewrite Rminus_0_r, Rabs_R0. split; lra.
    - destruct IH as [I1 I2]. pose proof (rnd_err (fst p * snd p)) as Hr. split.
      + replace (rnd (fst p * snd p) + rsum (map (fun p0 => rnd (fst p0 * snd p0)) wv) - (fst p * snd p + rsum (map (fun p0 => fst p0 * snd p0) wv)))
          with ((rnd (fst p * snd p) - fst p * snd p) + (rsum (map (fun p0 => rnd (fst p0 * snd p0)) wv) - rsum (map (fun p0 => fst p0 * snd p0) wv))) by ring.
        eapply Rle_trans; [apply Rabs_triang|]. lra.
      + assert (Rabs (rnd (fst p * snd p)) <= (1 + u) * Rabs (fst p * snd p)).
        { replace (rnd (fst p * snd p)) with ((rnd (fst p * snd p) - fst p * snd p) + fst p * snd p) by ring.
          eapply Rle_trans; [apply Rabs_triang|]. lra. }
        lra. }
  destruct H1 as [H1 H2].
  pose proof (fl_sum_err ts 0 0 0 0%nat) as HSum. cbn [Nat.add] in HSum. rewrite Rminus_0_r, Rabs_R0, !Rplus_0_l in HSum.
  specialize (HSum ltac:(unfold G; cbn [pow]; lra) ltac:(lra)).
  assert (HA : 0 <= A) by (unfold A; clear; induction wv as [|p wv IH]; cbn [map rsum]; [lra | pose proof (Rabs_pos (fst p * snd p)); lra]).
  assert (Hlen : length ts = length wv) by (unfold ts; apply map_length). rewrite Hlen in HSum.
  replace (fl_sum ts 0 - rsum ex) with ((fl_sum ts 0 - rsum ts) + (rsum ts - rsum ex)) by ring.
  eapply Rle_trans; [apply Rabs_triang|].
  pose proof (G_nonneg (length wv)) as Hg. replace (length wv + 1)%nat with (S (length wv)) by lia. rewrite G_S.
  assert (G (length wv) * rsum (map Rabs ts) <= G (length wv) * ((1 + u) * A)) by (apply Rmult_le_compat_l; assumption).
  nra.
Qed.

(* the final scaling: s_hat carries j roundings relative to s *)
Lemma scaled_err : forall (Sm Tm A s s_hat : R) (k j : nat),
  Rabs (Sm - Tm) <= G k * A -> Rabs Tm <= A -> Rabs (s_hat - s) <= G j * Rabs s ->
  Rabs (rnd (s_hat * Sm) - s * Tm) <= G (k + j + 1) * (Rabs s * A).
Proof.
  intros Sm Tm A s s_hat k j HS HT Hs.
  assert (HA : 0 <= A) by (eapply Rle_trans; [apply Rabs_pos | exact HT]).
  pose proof (G_nonneg k) as Hk. pose proof (G_nonneg j) as Hj. pose proof (Rabs_pos s) as Hs0.
  (* s_hat * Sm versus s * Tm : perturbation G (k + j) *)
  assert (H1 : Rabs (s_hat * Sm - s * Tm) <= G (k + j) * (Rabs s * A)).
  { replace (s_hat * Sm - s * Tm) with ((s_hat - s) * Sm + s * (Sm - Tm)) by ring.
    eapply Rle_trans; [apply Rabs_triang|]. rewrite !Rabs_mult.
    assert (HSa : Rabs Sm <= (G k + 1) * A).
    { replace Sm with ((Sm - Tm) + Tm) by ring. eapply Rle_trans; [apply Rabs_triang|]. lra. }
    assert (E : G (k + j) = (G k + 1) * (G j + 1) - 1) by (unfold G; rewrite pow_add; ring). rewrite E.
    assert (Rabs (s_hat - s) * Rabs Sm <= (G j * Rabs s) * ((G k + 1) * A)).
    { apply Rmult_le_compat; try apply Rabs_pos; assumption. }
    assert (Rabs s * Rabs (Sm - Tm) <= Rabs s * (G k * A)) by (apply Rmult_le_compat_l; assumption).
    nra. }
  replace (k + j + 1)%nat with (S (k + j)) by lia. apply pert_step; [exact H1|].
  rewrite Rabs_mult. apply Rmult_le_compat_l; assumption.
Qed.

(* ------------------------------------------------------------------ the translated simpson at [Fops rnd] *)
Definition dx_hat (a b : R) (n : Z) : R := rnd (rnd (b - a) / IZR n).
Definition node_hat (a b : R) (n : Z) (i : Z) : R := rnd (a + rnd (IZR i * dx_hat a b n)).

Lemma scale_hat_err : forall (a b : R) (n : Z), IZR n <> 0 ->
  Rabs (rnd (dx_hat a b n / 3) - (b - a) / (3 * IZR n)) <= G 3 * Rabs ((b - a) / (3 * IZR n)).
Proof.
  intros a b n Hn. unfold dx_hat.
  assert (H1 : Rabs (rnd (b - a) - (b - a)) <= G 1 * Rabs (b - a)).
  { eapply Rle_trans; [apply rnd_err|]. unfold G. cbn [pow]. right. ring. }
  assert (H2 : Rabs (rnd (rnd (b - a) / IZR n) - (b - a) / IZR n) <= G 2 * Rabs ((b - a) / IZR n)).
  { apply pert_step; [|lra].
    replace (rnd (b - a) / IZR n - (b - a) / IZR n) with ((rnd (b - a) - (b - a)) * / IZR n) by (field; exact Hn).
    unfold Rdiv. rewrite !Rabs_mult. rewrite <- Rmult_assoc. apply Rmult_le_compat_r; [apply Rabs_pos | exact H1]. }
  replace ((b - a) / (3 * IZR n)) with ((b - a) / IZR n / 3) by (field; exact Hn).
  apply pert_step; [|lra].
  set (X := rnd (rnd (b - a) / IZR n)) in *. set (Y := (b - a) / IZR n) in *.
  assert (E : X / 3 - Y / 3 = (X - Y) / 3) by field. rewrite E.
  assert (A1 : Rabs ((X - Y) / 3) = Rabs (X - Y) / 3) by (unfold Rdiv; rewrite Rabs_mult, (Rabs_right (/ 3)) by lra; reflexivity).
  assert (A2 : Rabs (Y / 3) = Rabs Y / 3) by (unfold Rdiv; rewrite Rabs_mult, (Rabs_right (/ 3)) by lra; reflexivity).
  rewrite A1, A2. pose proof (G_nonneg 2). lra.
Qed.

Section Component.
  (* a component of Complex<f64>: real or imaginary part *)
  Variable pr : C -> R.
  Hypothesis pr_add : forall p q : C, pr (vadd (Fops rnd) p q) = rnd (pr p + pr q).
  Hypothesis pr_scale : forall (c : R) (p : C), pr (vscale (Fops rnd) c p) = rnd (c * pr p).
  Hypothesis pr_zero : pr (vzero (Fops rnd)) = 0.

  Lemma pr_vsum : forall (l : list C) (acc : C), pr (fold_left (vadd (Fops rnd)) l acc) = fl_sum (map pr l) (pr acc).
  Proof.
    induction l as [|z l IH]; intros acc; cbn [fold_left map fl_sum]; [reflexivity|].
    rewrite IH, pr_add. reflexivity.
  Qed.

  Theorem simpson_float_component : forall (func : R -> C) (a b : R) divs, simpson_accepts divs = true ->
    let n := simpson_norm divs in
    let v := fun i => pr (func (node_hat a b n i)) in
    let idx := zrange_incl 0 n in
    Rabs (pr (simpson (Fops rnd) func a b divs) - (b - a) / (3 * IZR n) * rsum (map (fun i => wR i n * v i) idx))
      <= G (Z.to_nat n + 6) * (Rabs ((b - a) / (3 * IZR n)) * rsum (map (fun i => wR i n * Rabs (v i)) idx)).
  Proof.
    intros func a b divs Ha n v idx.
    assert (Hn2 : (2 <= n)%Z) by (apply simpson_accepts_norm; exact Ha).
    assert (Hn0 : IZR n <> 0) by (apply not_0_IZR; lia).
    unfold simpson. cbv zeta.
    subst v idx. unfold n in *. unfold simpson_norm, simpson_norm_divs in *. cbv zeta in *. clear n.
    match goal with H : (2 <= ?e)%Z |- _ => set (n := e) in * end. clearbody n.
    set (idx := zrange_incl 0 n).
    rewrite pr_scale. unfold vsum. rewrite pr_vsum, pr_zero. rewrite !map_map.
    cbn [sdiv ssub sadd smul s_of_Z Fops]. fold (dx_hat a b n).
    (* the summands: rnd (w_i * v_i) *)
    set (wv := map (fun i => (wR i n, pr (func (node_hat a b n i)))) idx).
    assert (E1 : map (fun x : Z => pr (vscale (Fops rnd) (get_simpson_weight (Fops rnd) x n) (func (rnd (a + rnd (IZR x * dx_hat a b n)))))) idx
                 = map (fun p => rnd (fst p * snd p)) wv).
    { unfold wv. rewrite map_map. apply map_ext. intros i. rewrite pr_scale. cbn [fst snd]. reflexivity. }
    rewrite E1.
    assert (E2 : rsum (map (fun i => wR i n * pr (func (node_hat a b n i))) idx) = rsum (map (fun p => fst p * snd p) wv)) by (unfold wv; rewrite map_map; reflexivity).
    assert (E3 : rsum (map (fun i => wR i n * Rabs (pr (func (node_hat a b n i)))) idx) = rsum (map (fun p => Rabs (fst p * snd p)) wv)).
    { unfold wv. rewrite map_map. apply rsum_ext. intros i _. cbn [fst snd]. rewrite Rabs_mult, (Rabs_right (wR i n)); [reflexivity|].
      apply Rle_ge, Rlt_le, wR_pos. }
    rewrite E2, E3.
    assert (Hlen : length wv = Z.to_nat (n + 1)) by (unfold wv, idx, zrange_incl; rewrite map_length, zseq_length; f_equal; lia).
    pose proof (weighted_sum_err wv) as W. rewrite Hlen in W.
    set (A := rsum (map (fun p => Rabs (fst p * snd p)) wv)) in *.
    set (T := rsum (map (fun p => fst p * snd p) wv)) in *.
    assert (HT : Rabs T <= A).
    { unfold T, A. apply (rsum_abs_le (fun p : R * R => fst p * snd p)). }
    pose proof (scaled_err _ T A ((b - a) / (3 * IZR n)) _ (Z.to_nat (n + 1) + 1) 3 W HT (scale_hat_err a b n Hn0)) as F.
    replace (Z.to_nat (n + 1) + 1 + 3 + 1)%nat with (Z.to_nat n + 6)%nat in F by lia.
    exact F.
  Qed.
End Component.

Theorem simpson_float : forall (func : R -> C) (a b : R) divs, simpson_accepts divs = true ->
  let n := simpson_norm divs in
  let idx := zrange_incl 0 n in
  let s := (b - a) / (3 * IZR n) in
  Rabs (fst (simpson (Fops rnd) func a b divs) - s * rsum (map (fun i => wR i n * fst (func (node_hat a b n i))) idx))
    <= G (Z.to_nat n + 6) * (Rabs s * rsum (map (fun i => wR i n * Rabs (fst (func (node_hat a b n i)))) idx)) /\
  Rabs (snd (simpson (Fops rnd) func a b divs) - s * rsum (map (fun i => wR i n * snd (func (node_hat a b n i))) idx))
    <= G (Z.to_nat n + 6) * (Rabs s * rsum (map (fun i => wR i n * Rabs (snd (func (node_hat a b n i)))) idx)).
Proof.
  intros func a b divs Ha n idx s. split.
  - exact (simpson_float_component fst (fun _ _ => eq_refl) (fun _ _ => eq_refl) eq_refl func a b divs Ha).
  - exact (simpson_float_component snd (fun _ _ => eq_refl) (fun _ _ => eq_refl) eq_refl func a b divs Ha).
Qed.

(* (1+u)^k - 1 <= gamma_k = k u / (1 - k u) *)
Lemma G_le_gamma : forall k : nat, INR k * u < 1 -> G k <= INR k * u / (1 - INR k * u).
Proof.
  induction k as [|k IH]; intros Hk.
  - unfold G. cbn. lra.
  - rewrite S_INR in *. assert (Hk' : INR k * u < 1) by (pose proof (pos_INR k); nra).
    specialize (IH Hk'). rewrite G_S. pose proof (pos_INR k) as Hp. pose proof (G_nonneg k) as Hg.
    apply (Rmult_le_reg_r (1 - (INR k + 1) * u)); [lra|].
    replace ((INR k + 1) * u / (1 - (INR k + 1) * u) * (1 - (INR k + 1) * u)) with ((INR k + 1) * u) by (field; lra).
    assert (I2 : G k * (1 - INR k * u) <= INR k * u).
    { apply (Rmult_le_compat_r (1 - INR k * u)) in IH; [|lra].
      replace (INR k * u / (1 - INR k * u) * (1 - INR k * u)) with (INR k * u) in IH by (field; lra). exact IH. }
    nra.
Qed.

End StdModel.

(* ------------------------------------------------------------------ binary64, round to nearest even (Flocq) *)
Definition rnd64 (x : R) : R := round radix2 (FLX_exp 53) ZnearestE x.
Definition u64 : R := / 2 * bpow radix2 (- 53 + 1).

Lemma u64_value : u64 = / 9007199254740992.      (* 2^-53 *)
Proof. unfold u64. cbn [bpow Z.add Z.opp Z.pos_sub Z.succ_double Z.pred_double Pos.pred_double Z.pow_pos Pos.iter Z.mul Pos.mul radix_val radix2]. simpl. lra. Qed.

Lemma rnd64_model : std_model rnd64 u64.
Proof.
  intros x. destruct (relative_error_N_FLX_ex radix2 53 ltac:(reflexivity) (fun z => negb (Z.even z)) x) as [e [He Hr]].
  exists e. split; [exact He | exact Hr].
Qed.

Lemma u64_nonneg : 0 <= u64.
Proof. rewrite u64_value. lra. Qed.

(* the translated simpson evaluated in binary64 (no overflow/underflow), both components *)
Theorem simpson_binary64 : forall (func : R -> C) (a b : R) divs, simpson_accepts divs = true ->
  let n := simpson_norm divs in
  let idx := zrange_incl 0 n in
  let s := (b - a) / (3 * IZR n) in
  let x := node_hat rnd64 a b n in
  Rabs (fst (simpson (Fops rnd64) func a b divs) - s * rsum (map (fun i => wR i n * fst (func (x i))) idx))
    <= G u64 (Z.to_nat n + 6) * (Rabs s * rsum (map (fun i => wR i n * Rabs (fst (func (x i)))) idx)) /\
  Rabs (snd (simpson (Fops rnd64) func a b divs) - s * rsum (map (fun i => wR i n * snd (func (x i))) idx))
    <= G u64 (Z.to_nat n + 6) * (Rabs s * rsum (map (fun i => wR i n * Rabs (snd (func (x i)))) idx)).
Proof. exact (simpson_float rnd64 u64 u64_nonneg rnd64_model). Qed.

(* explicit constants: gamma form, and the sequential branch (fewer than 128 divisions) *)
Theorem G64_gamma : forall k : nat, INR k * u64 < 1 -> G u64 k <= INR k * u64 / (1 - INR k * u64).
Proof. exact (G_le_gamma u64 u64_nonneg). Qed.

Theorem G64_sequential : forall n : Z, (n < 128)%Z -> G u64 (Z.to_nat n + 6) <= 1.5e-14.
Proof.
  intros n Hn. eapply Rle_trans; [apply (G_mono u64 u64_nonneg _ 133%nat); lia|].
  unfold G. rewrite u64_value. interval with (i_prec 120).
Qed.
