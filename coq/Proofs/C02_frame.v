(* C02 — the crystal-frame rotation: Rz(phi) Ry(theta), pump direction, norm preservation, linearity. *)
From Coq Require Import Reals Lra Psatz.
From SpdVerif Require Import Model.Optics Model.Fresnel.
Local Open Scope R_scope.

Lemma sc2 x : sin x * sin x + cos x * cos x = 1.
Proof. pose proof (sin2_cos2 x) as H. unfold Rsqr in H. exact H. Qed.

(* elementary rotations *)
Definition rot_x (r : R) (v : vec) : vec := (vx v, cos r * vy v - sin r * vz v, sin r * vy v + cos r * vz v).
Definition rot_y (p : R) (v : vec) : vec := (cos p * vx v + sin p * vz v, vy v, - sin p * vx v + cos p * vz v).
Definition rot_z (y : R) (v : vec) : vec := (cos y * vx v - sin y * vy v, sin y * vx v + cos y * vy v, vz v).

Lemma rot_euler_decomp r p y v : rot_euler r p y v = rot_z y (rot_y p (rot_x r v)).
Proof.
  destruct v as [[a b] c]. unfold rot_euler, rot_z, rot_y, rot_x, vx, vy, vz; cbn [fst snd].
  f_equal; [f_equal |]; ring.
Qed.

Lemma rot_x_norm r v : vnorm2 (rot_x r v) = vnorm2 v.
Proof.
  destruct v as [[a b] c]. unfold vnorm2, vdot, rot_x, vx, vy, vz; cbn [fst snd].
  replace (a * a + (cos r * b - sin r * c) * (cos r * b - sin r * c) + (sin r * b + cos r * c) * (sin r * b + cos r * c))
    with (a * a + (sin r * sin r + cos r * cos r) * (b * b + c * c)) by ring.
  rewrite sc2. ring.
Qed.

Lemma rot_y_norm p v : vnorm2 (rot_y p v) = vnorm2 v.
Proof.
  destruct v as [[a b] c]. unfold vnorm2, vdot, rot_y, vx, vy, vz; cbn [fst snd].
  replace ((cos p * a + sin p * c) * (cos p * a + sin p * c) + b * b + (- sin p * a + cos p * c) * (- sin p * a + cos p * c))
    with (b * b + (sin p * sin p + cos p * cos p) * (a * a + c * c)) by ring.
  rewrite sc2. ring.
Qed.

Lemma rot_z_norm y v : vnorm2 (rot_z y v) = vnorm2 v.
Proof.
  destruct v as [[a b] c]. unfold vnorm2, vdot, rot_z, vx, vy, vz; cbn [fst snd].
  replace ((cos y * a - sin y * b) * (cos y * a - sin y * b) + (sin y * a + cos y * b) * (sin y * a + cos y * b) + c * c)
    with (c * c + (sin y * sin y + cos y * cos y) * (a * a + b * b)) by ring.
  rewrite sc2. ring.
Qed.

(* a rotation maps unit vectors to unit vectors: this is why |s| = 1 may be used after to_crystal_frame *)
Theorem rot_euler_norm r p y v : vnorm2 (rot_euler r p y v) = vnorm2 v.
Proof. rewrite rot_euler_decomp, rot_z_norm, rot_y_norm, rot_x_norm. reflexivity. Qed.

Theorem crystal_frame_unit theta phi d : unit_vec d -> unit_vec (crystal_frame theta phi d).
Proof. unfold unit_vec, crystal_frame. rewrite rot_euler_norm. trivial. Qed.

Lemma unit_vec_components v : unit_vec v -> vx v * vx v + vy v * vy v + vz v * vz v = 1.
Proof. unfold unit_vec, vnorm2, vdot. trivial. Qed.

(* a pump along lab z has crystal-frame polar angles exactly (theta, phi) *)
Theorem crystal_frame_pump theta phi : crystal_frame theta phi (0, 0, 1) = polar_dir phi theta.
Proof.
  unfold crystal_frame, rot_euler, polar_dir, vx, vy, vz; cbn [fst snd]. rewrite sin_0, cos_0.
  f_equal; [f_equal |]; ring.
Qed.

Theorem polar_dir_unit phi theta : unit_vec (polar_dir phi theta).
Proof.
  unfold unit_vec, vnorm2, vdot, polar_dir, vx, vy, vz; cbn [fst snd].
  replace (sin theta * cos phi * (sin theta * cos phi) + sin theta * sin phi * (sin theta * sin phi) + cos theta * cos theta)
    with (sin theta * sin theta * (sin phi * sin phi + cos phi * cos phi) + cos theta * cos theta) by ring.
  rewrite sc2, Rmult_1_r. apply sc2.
Qed.

(* reversal of the lab direction reverses the crystal-frame direction *)
Theorem crystal_frame_neg theta phi d : crystal_frame theta phi (vneg d) = vneg (crystal_frame theta phi d).
Proof.
  destruct d as [[a b] c]. unfold crystal_frame, rot_euler, vneg, vx, vy, vz; cbn [fst snd].
  f_equal; [f_equal |]; ring.
Qed.

(* z component in the crystal frame does not depend on the crystal's phi (used for uniaxial media) *)
Lemma crystal_frame_z theta phi d : vz (crystal_frame theta phi d) = - sin theta * vx d + cos theta * vz d.
Proof.
  destruct d as [[a b] c]. unfold crystal_frame, rot_euler, vx, vy, vz; cbn [fst snd]. rewrite sin_0, cos_0. ring.
Qed.
