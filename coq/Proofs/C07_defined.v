(* C07 clause 4 (partial): for a physical setup and positive refractive indices every division / sqrt / ln performed by
   the generated normalisation and envelope code is defined (the generated `_defined` predicates hold) and the
   normalisations are strictly positive; hence jsi >= 0, singles >= 0.
   Missing for the full clause: (a) that in-window wavelengths give positive indices is C01/C02's theorem about
   `index_along`, here the hypothesis [indices_pos]; (b) finiteness of the fibre-coupling integrals themselves
   (complex denominators of the integrand never vanish) is validated by the harness, not proved. *)
From Coq Require Import Reals Bool Lra List.
From SpdVerif Require Import Base.Rx Model.SpectrumSetup Gen.Spectrum Proofs.C07_envelope.
Local Open Scope R_scope.

Definition physical (s : setup) : Prop :=
  0 < omega_p s /\ 0 < fwhm s < 2 * lambda_p s /\ 0 < len s /\ 0 < power s /\ deff s <> 0 /\
  0 < wpx s /\ 0 < wpy s /\ 0 < wsx s /\ 0 < wsy s /\ 0 < wix s /\ 0 < wiy s /\
  - (PI / 2) < theta_s_e s < PI / 2 /\ - (PI / 2) < theta_i_e s < PI / 2.

Definition indices_pos (s : setup) (ws wi : R) : Prop := 0 < n_s s ws /\ 0 < n_i s wi.

Ltac pos :=
  repeat match goal with
  | |- 0 < _ => assumption
  | |- 0 < _ * _ => apply Rmult_lt_0_compat
  | |- 0 < _ / _ => apply Rdiv_lt_0_compat
  | |- 0 < _ ^ _ => apply pow_lt
  | |- 0 < sqrt _ => apply sqrt_lt_R0
  | |- 0 < PI => exact PI_RGT_0
  end; try lra.

Lemma width_defined s : physical s ->
  fwhm_to_spectral_width_defined (lambda_p s) (fwhm s) /\ 0 < spectral_width s /\ frequency_to_vacuum_wavelength_defined (omega_p s).
Proof.
  intros (Hw & Hf & _). pose proof (lambda_p_pos s Hw) as Hl. pose proof sqrt_2ln2_pos as Hq. pose proof ln2_pos.
  repeat split.
  - unfold vacuum_wavelength_to_frequency_defined. lra.
  - unfold vacuum_wavelength_to_frequency_defined. lra.
  - lra.
  - lra.
  - rewrite spectral_width_eq. apply Rdiv_lt_0_compat; [|assumption]. apply fwhm_span_pos; assumption.
  - unfold frequency_to_vacuum_wavelength_defined. lra.
Qed.

Lemma envelope_defined w s : physical s -> pump_spectral_amplitude_defined w s.
Proof.
  intros H. destruct (width_defined s H) as (H1 & H2 & H3). unfold pump_spectral_amplitude_defined.
  fold (lambda_p s). fold (spectral_width s). split; [exact H3|split; [exact H1|lra]].
Qed.

Lemma common_norm_pos ws wi s :
  physical s -> 0 < ws -> 0 < wi -> indices_pos s ws wi ->
  common_norm_defined ws wi s /\ 0 < common_norm ws wi s.
Proof.
  intros H Hws Hwi [Hns Hni]. destruct (width_defined s H) as (H1 & H2 & H3).
  destruct H as (Hw & Hf & HL & HP & Hd & Hpx & Hpy & _).
  pose proof PI_RGT_0 as Hpi.
  assert (Hnn : 0 < n_s s ws * n_i s wi * (n_s s ws * n_i s wi)) by pos.
  assert (HK : 0 < 4 * PI ^ 5 * sqrt (2 * PI) * 299792458 * 299792458 * 299792458 * (8.854187817e-12 * 1e-3 / 1)) by pos.
  split.
  - unfold common_norm_defined. fold (lambda_p s). fold (spectral_width s).
    split; [intros _; lra|]. split; [exact H3|]. split; [exact H1|]. split; [lra|]. split; [lra|]. split; lra.
  - unfold common_norm. fold (lambda_p s). fold (spectral_width s).
    assert (Hpp : 0 < (1 * (if bool_dec (pp_off s) true then 1 else 2 / PI)) ^ 2).
    { destruct (bool_dec (pp_off s) true); pos. }
    assert (Hdl : 0 < deff s * len s * (deff s * len s)).
    { replace (deff s * len s * (deff s * len s)) with (Rsqr (deff s * len s)) by (unfold Rsqr; ring).
      apply Rlt_0_sqr. apply Rmult_integral_contrapositive_currified; lra. }
    pos.
Qed.

Lemma sec_pos t : - (PI / 2) < t < PI / 2 -> cos (t / 1) <> 0 /\ 0 < 1 / cos (t / 1).
Proof.
  intros [H1 H2]. replace (t / 1) with t by field.
  assert (0 < cos t) by (apply cos_gt_0; lra). split; [lra|]. apply Rdiv_lt_0_compat; lra.
Qed.

Lemma normalization_defined_pos ws wi s :
  physical s -> 0 < ws -> 0 < wi -> indices_pos s ws wi ->
  jsi_normalization_defined ws wi s /\ 0 < jsi_normalization ws wi s /\
  jsi_singles_normalization_defined ws wi s /\ 0 < jsi_singles_normalization ws wi s.
Proof.
  intros H Hws Hwi Hn. destruct (common_norm_pos ws wi s H Hws Hwi Hn) as [Hd Hp].
  destruct H as (_ & _ & _ & _ & _ & _ & _ & Hsx & Hsy & Hix & Hiy & Hts & Hti).
  destruct (sec_pos _ Hts) as [Hs1 Hs2]. destruct (sec_pos _ Hti) as [Hi1 Hi2].
  unfold jsi_normalization_defined, jsi_singles_normalization_defined, jsi_normalization, jsi_singles_normalization.
  split; [split; [exact Hi1|split; [exact Hs1|exact Hd]]|]. split; [pos|]. split; [split; [exact Hs1|exact Hd]|pos].
Qed.

(* the spectra are defined on physical setups and non-negative when the singles integral is *)
Lemma spectrum_defined ws wi s :
  physical s -> (invalid_frequencies ws wi s = false -> indices_pos s ws wi) ->
  spectrum_jsa_defined ws wi s /\ spectrum_jsi_defined ws wi s /\ spectrum_jsi_singles_defined ws wi s.
Proof.
  intros H Hn.
  assert (Hraw : jsa_raw_defined ws wi s /\ jsi_singles_raw_defined ws wi s).
  { unfold jsa_raw_defined, jsi_singles_raw_defined, invalid_frequencies_defined.
    split; (split; [exact I|intros _; apply envelope_defined; assumption]). }
  destruct Hraw as [Hr1 Hr2].
  assert (Hpos : invalid_frequencies ws wi s = false -> 0 < ws /\ 0 < wi).
  { unfold invalid_frequencies. rewrite !orb_false_iff. intros ((((A & B) & _) & _) & _).
    destruct (Rle_dec ws 0); [discriminate A|]. destruct (Rle_dec wi 0); [discriminate B|]. lra. }
  assert (Hz : invalid_frequencies ws wi s = true -> jsa_raw ws wi s = (0, 0) /\ jsi_singles_raw ws wi s = 0).
  { intros E. unfold jsa_raw, jsi_singles_raw. rewrite E.
    destruct (bool_dec true true) as [_|F]; [split; reflexivity|exfalso; apply F; reflexivity]. }
  destruct (invalid_frequencies ws wi s) eqn:Ei.
  - destruct (Hz eq_refl) as [Z1 Z2].
    unfold spectrum_jsa_defined, spectrum_jsi_defined, spectrum_jsi_singles_defined. rewrite Z1, Z2. cbn [fst snd].
    destruct (Req_EM_T 0 0) as [_|N]; [|exfalso; apply N; reflexivity]. cbn [andb].
    split; [split; [exact Hr1|split; intros F; discriminate F]|].
    split; [split; [exact Hr1|intros F; discriminate F]|split; [exact Hr2|intros F; discriminate F]].
  - destruct (Hpos eq_refl) as [P1 P2].
    destruct (normalization_defined_pos ws wi s H P1 P2 (Hn eq_refl)) as (D1 & Q1 & D2 & Q2).
    unfold spectrum_jsa_defined, spectrum_jsi_defined, spectrum_jsi_singles_defined.
    split; [split; [exact Hr1|split; intros _; [exact D1|unfold Rdiv; lra]]|].
    split; [split; [exact Hr1|intros _; exact D1]|split; [exact Hr2|intros _; exact D2]].
Qed.

Lemma spectrum_nonneg ws wi s :
  physical s -> (invalid_frequencies ws wi s = false -> indices_pos s ws wi) -> 0 <= pm_singles s ws wi ->
  0 <= spectrum_jsi ws wi s /\ 0 <= spectrum_jsi_singles ws wi s.
Proof.
  intros H Hn Hs.
  assert (Hpos : invalid_frequencies ws wi s = false -> 0 < ws /\ 0 < wi).
  { unfold invalid_frequencies. rewrite !orb_false_iff. intros ((((A & B) & _) & _) & _).
    destruct (Rle_dec ws 0); [discriminate A|]. destruct (Rle_dec wi 0); [discriminate B|]. lra. }
  unfold spectrum_jsi, spectrum_jsi_singles, jsa_raw, jsi_singles_raw.
  destruct (invalid_frequencies ws wi s) eqn:Ei.
  - destruct (bool_dec true true) as [_|F]; [|exfalso; apply F; reflexivity]. cbn [fst snd].
    destruct (Req_EM_T 0 0) as [_|N]; [|exfalso; apply N; reflexivity]. cbn [andb].
    destruct (bool_dec true true) as [_|F]; [|exfalso; apply F; reflexivity]. lra.
  - destruct (Hpos eq_refl) as [P1 P2].
    destruct (normalization_defined_pos ws wi s H P1 P2 (Hn eq_refl)) as (D1 & Q1 & D2 & Q2).
    destruct (bool_dec false true) as [F|_]; [discriminate F|]. cbn [fst snd].
    split.
    + destruct (bool_dec _ true); [lra|].
      apply Rmult_le_pos; [unfold Rdiv; lra|].
      match goal with |- 0 <= ?a * ?a + ?b * ?b => pose proof (Rle_0_sqr a); pose proof (Rle_0_sqr b); unfold Rsqr in *; lra end.
    + destruct (Req_EM_T _ 0); [lra|].
      apply Rmult_le_pos; [unfold Rdiv; lra|].
      destruct (Rlt_dec _ (threshold s)); [lra|].
      apply Rmult_le_pos; [apply pow2_ge_0|unfold Rdiv; lra].
Qed.
