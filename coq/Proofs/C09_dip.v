(* C09 — separable amplitude profile times the linear phase exp(i t0 (wi - ws)/2) on a square symmetric grid:
   the rate is a function of tau - t0 only (discrete statement, exact) and vanishes at tau = +t0. *)
From Coq Require Import Reals Lra Lia Arith Psatz.
From SpdVerif Require Import Model.FinSum Model.Hom Proofs.FinSum_lemmas Proofs.Cx_lemmas Proofs.C09_range.
Local Open Scope R_scope.

Lemma lt_sq_decomp n k : (k < n * n)%nat -> exists r c, (r < n)%nat /\ (c < n)%nat /\ k = (r * n + c)%nat.
Proof.
  intros Hk. assert (Hn : (n <> 0)%nat) by (intros ->; lia).
  exists (k / n)%nat, (k mod n)%nat. repeat split.
  - apply Nat.div_lt_upper_bound; lia.
  - apply Nat.mod_upper_bound; assumption.
  - rewrite (Nat.div_mod k n Hn) at 1. lia.
Qed.

Lemma hom_term_factor (z z' pa pb pc : cx R) :
  z' = z ->
  hom_term ROps (cmul ROps z pa) (cmul ROps z' pb) pc
  = cre (cmul ROps (cnorm2 ROps z, 0) (cmul ROps (cmul ROps (cconj ROps pa) pb) pc)).
Proof. intros ->. unfold hom_term. cx_destruct. cx_unfold. ring. Qed.

Section Dip.
  Variables (n : nat) (g : grid R) (a : nat -> cx R) (t0 : R).
  Hypothesis Hg : square_sym n g.

  Let Hc : g_cols g = n := proj1 Hg.
  Let Hr : g_rows g = n := proj1 (proj2 Hg).

  Lemma grid_len_sq : grid_len g = (n * n)%nat.
  Proof. unfold grid_len. rewrite Hc, Hr. reflexivity. Qed.

  (* the grid point of the transposed index has exchanged coordinates *)
  Lemma grid_ws_rc r c : (c < n)%nat -> grid_ws ROps g (r * n + c) = axis_value ROps (g_x0 g) (g_x1 g) n c.
  Proof. intros H. unfold grid_ws. rewrite Hc, idx_2d by assumption. reflexivity. Qed.

  Lemma grid_wi_rc r c : (c < n)%nat -> grid_wi ROps g (r * n + c) = axis_value ROps (g_x0 g) (g_x1 g) n r.
  Proof.
    intros H. unfold grid_wi. pose proof Hg as (_ & _ & Hy0 & Hy1). rewrite Hc, Hr, Hy0, Hy1, idx_2d by assumption. reflexivity.
  Qed.

  Lemma grid_swap_rc r c : (r < n)%nat -> (c < n)%nat ->
    grid_ws ROps g (tr_idx n (r * n + c)) = grid_wi ROps g (r * n + c) /\
    grid_wi ROps g (tr_idx n (r * n + c)) = grid_ws ROps g (r * n + c).
  Proof.
    intros Hrn Hcn. rewrite tr_idx_rc by assumption.
    rewrite (grid_ws_rc c r Hrn), (grid_wi_rc c r Hrn), (grid_ws_rc r c Hcn), (grid_wi_rc r c Hcn). split; reflexivity.
  Qed.

  Lemma grid_swap k : (k < n * n)%nat ->
    grid_ws ROps g (tr_idx n k) = grid_wi ROps g k /\ grid_wi ROps g (tr_idx n k) = grid_ws ROps g k.
  Proof. intros Hk. destruct (lt_sq_decomp n k Hk) as (r & c & Hrn & Hcn & ->). apply grid_swap_rc; assumption. Qed.

  Let f := separable_phase g a t0.
  Variable gs : nat -> cx R.
  Hypothesis Hgs : forall k, (k < n * n)%nat -> gs k = transpose_arr n f k.

  Let amp2 (k : nat) : R :=
    cnorm2 ROps (a (fst (get_2d_indices k (g_cols g)))) * cnorm2 ROps (a (snd (get_2d_indices k (g_cols g)))).

  Lemma dip_term k tau : (k < n * n)%nat ->
    hom_term ROps (f k) (gs k) (hom_phase g tau k)
    = amp2 k * cos ((grid_wi ROps g k - grid_ws ROps g k) * (tau - t0)).
  Proof.
    intros Hk. rewrite (Hgs k Hk), transpose_arr_idx. unfold f, separable_phase, hom_phase.
    destruct (grid_swap k Hk) as [E1 E2]. rewrite E1, E2.
    destruct (lt_sq_decomp n k Hk) as (r & c & Hrn & Hcn & ->).
    rewrite tr_idx_rc by assumption. rewrite Hc, !idx_2d by assumption. cbn [fst snd].
    rewrite hom_term_factor by apply cmul_comm.
    rewrite cconj_polar, !cmul_polar. replace (1 * 1 * 1) with 1 by ring.
    rewrite cre_real_polar, cnorm2_cmul.
    unfold amp2. rewrite Hc, idx_2d by assumption. cbn [fst snd].
    f_equal. f_equal. field.
  Qed.

  Lemma dip_norm : jsi_norm ROps (n * n) f = rsum n (fun s => cnorm2 ROps (a s)) * rsum n (fun s => cnorm2 ROps (a s)).
  Proof.
    rewrite jsi_norm_rsum, rsum_flat, rsum_mul. apply rsum_ext; intros r Hrn. apply rsum_ext; intros c Hcn.
    unfold f, separable_phase. rewrite Hc, idx_2d by assumption. cbn [fst snd].
    rewrite !cnorm2_cmul, cnorm2_polar. ring.
  Qed.

  Theorem hom_rate_dip tau : hom_rate g f gs tau None = dip_rate g a (tau - t0).
  Proof.
    unfold hom_rate, dip_rate. rewrite hom_rate_gen_R, grid_len_sq, dip_norm, Hc.
    f_equal. f_equal. f_equal. rewrite hom_sum_rsum. apply rsum_ext; intros k Hk.
    rewrite (dip_term k tau Hk). unfold amp2. rewrite Hc. reflexivity.
  Qed.

  Theorem hom_rate_dip_zero : rsum n (fun s => cnorm2 ROps (a s)) <> 0 -> hom_rate g f gs t0 None = 0.
  Proof.
    intros Hn. rewrite hom_rate_dip. unfold dip_rate. rewrite grid_len_sq, Hc.
    replace (rsum (n * n) _) with (rsum n (fun s => cnorm2 ROps (a s)) * rsum n (fun s => cnorm2 ROps (a s))).
    - field. assumption.
    - rewrite rsum_flat, rsum_mul. apply rsum_ext; intros r Hrn. apply rsum_ext; intros c Hcn.
      rewrite idx_2d by assumption. cbn [fst snd]. replace (t0 - t0) with 0 by ring.
      rewrite Rmult_0_r, cos_0. ring.
  Qed.
End Dip.

(* two such spectra with different t0: equal rates at equal tau - t0 *)
Corollary hom_rate_dip_shift n g a t0 t0' gs gs' tau tau' :
  square_sym n g ->
  (forall k, (k < n * n)%nat -> gs k = transpose_arr n (separable_phase g a t0) k) ->
  (forall k, (k < n * n)%nat -> gs' k = transpose_arr n (separable_phase g a t0') k) ->
  tau - t0 = tau' - t0' ->
  hom_rate g (separable_phase g a t0) gs tau None = hom_rate g (separable_phase g a t0') gs' tau' None.
Proof.
  intros Hg H1 H2 E. rewrite (hom_rate_dip n g a t0 Hg gs H1), (hom_rate_dip n g a t0' Hg gs' H2), E. reflexivity.
Qed.

Theorem hom_rate_dip_both n g a t0 gs :
  square_sym n g -> (forall k, (k < n * n)%nat -> gs k = transpose_arr n (separable_phase g a t0) k) ->
  rsum n (fun s => cnorm2 ROps (a s)) <> 0 ->
  jsi_norm ROps (n * n) (separable_phase g a t0) <> 0 /\
  (forall tau, hom_rate g (separable_phase g a t0) gs tau None = dip_rate g a (tau - t0)) /\
  hom_rate g (separable_phase g a t0) gs t0 None = 0.
Proof.
  intros Hg Hgs Hn. split; [|split; [apply (hom_rate_dip n g a t0 Hg gs Hgs)|apply (hom_rate_dip_zero n g a t0 Hg gs Hgs Hn)]].
  rewrite (dip_norm n g a t0 Hg). apply Rmult_integral_contrapositive_currified; exact Hn.
Qed.
