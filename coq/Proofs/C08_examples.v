(* Non-vacuity witnesses for the hypotheses of the C08 theorems. *)
From Coq Require Import Reals Bool Lra List.
From SpdVerif Require Import Base.Rx Model.SpectrumSetup Gen.Spectrum Gen.Efficiencies Model.Spectrum Proofs.C07_envelope Proofs.C07_support Proofs.C07_defined Proofs.C07_examples Proofs.C08_efficiency.
Import ListNotations.
Local Open Scope R_scope.

Lemma example_rates : 0 <= 3 /\ 3 <= 4 /\ 3 <= 5 /\ eff_signal (efficiencies_from_counts 3 4 5) = 3 / 5.
Proof.
  repeat split; try lra. destruct (efficiencies_values 3 4 5) as (S1 & _). apply S1. lra.
Qed.

Lemma example_zero_rates : eff_symmetric (efficiencies_from_counts 0 0 0) = 0 /\ eff_signal (efficiencies_from_counts 1 2 0) = 0.
Proof.
  split.
  - destruct (efficiencies_values 0 0 0) as (_ & _ & _ & _ & _ & Y0 & _). apply Y0. left; reflexivity.
  - destruct (efficiencies_values 1 2 0) as (_ & S0 & _). apply S0. reflexivity.
Qed.

(* a one-point grid ON the support of example_setup (pm = 1, pm_singles = 1, 100 um idler mode): the coincidence
   intensity is Wi^2 = 1e-8 times the singles intensity there *)
Lemma example_point :
  let s := example_setup in
  0 <= spectrum_jsi 1.2e15 1.2e15 s /\ spectrum_jsi 1.2e15 1.2e15 s <= spectrum_jsi_singles 1.2e15 1.2e15 s.
Proof.
  cbn zeta. pose proof example_on_support as Hon. destruct example_physical as [Hph Hidx].
  assert (Hi : invalid_frequencies 1.2e15 1.2e15 example_setup = false).
  { apply not_true_iff_false. rewrite invalid_frequencies_iff. intros H; apply Hon; left; exact H. }
  assert (Ht : threshold example_setup <= pump_spectral_amplitude (1.2e15 + 1.2e15) example_setup).
  { apply Rnot_lt_le. intros H; apply Hon; right; exact H. }
  destruct (jsa_raw_product _ _ _ Hi Ht) as [Hraw Hsraw].
  destruct (normalization_defined_pos 1.2e15 1.2e15 example_setup Hph) as (_ & Hn & _ & Hns); try lra; try exact Hidx.
  set (a := pump_spectral_amplitude (1.2e15 + 1.2e15) example_setup) in *.
  assert (Ha : 0 < a) by (unfold a, pump_spectral_amplitude; apply exp_pos).
  unfold spectrum_jsi, spectrum_jsi_singles. rewrite Hraw, Hsraw. cbn [fst snd].
  change (pm_re example_setup 1.2e15 1.2e15) with 1. change (pm_im example_setup 1.2e15 1.2e15) with 0.
  change (pm_singles example_setup 1.2e15 1.2e15) with 1.
  destruct (Req_EM_T (a * 1) 0) as [E|_]; [lra|]. cbn [andb].
  destruct (bool_dec false true) as [F|_]; [discriminate F|].
  destruct (Req_EM_T (a ^ 2 * 1) 0) as [E|_]; [assert (0 < a ^ 2) by (apply pow_lt; assumption); lra|].
  assert (Hrel : jsi_normalization 1.2e15 1.2e15 example_setup = 1e-8 * jsi_singles_normalization 1.2e15 1.2e15 example_setup).
  { unfold jsi_normalization, jsi_singles_normalization, example_setup.
    cbn [theta_s_e theta_i_e wsx wsy wix wiy]. replace (0 / 1) with 0 by field. rewrite cos_0. field. }
  rewrite Hrel. set (m := jsi_singles_normalization _ _ _) in *.
  assert (0 < a ^ 2) by (apply pow_lt; assumption).
  replace (1e-8 * m / 1 * (a * 1 * (a * 1) + a * 0 * (a * 0))) with (1e-8 * (m * a ^ 2)) by field.
  replace (m / 1 * (a ^ 2 * 1)) with (m * a ^ 2) by field.
  assert (0 < m * a ^ 2) by (apply Rmult_lt_0_compat; assumption). lra.
Qed.

Lemma example_pointwise : exists corr pts dw2 s sw, 0 <= corr /\ 0 <= dw2 /\ pts <> nil /\
  (forall p, In p pts ->
     0 <= spectrum_jsi (fst p) (snd p) s /\
     spectrum_jsi (fst p) (snd p) s <= spectrum_jsi_singles (fst p) (snd p) s /\
     spectrum_jsi (fst p) (snd p) s <= spectrum_jsi_singles (snd p) (fst p) sw).
Proof.
  exists 1, [(1.2e15, 1.2e15)], 1, example_setup, example_setup.
  split; [lra|]. split; [lra|]. split; [discriminate|].
  intros q Hq; destruct Hq as [<-|[]]; cbn [fst snd]; destruct example_point; repeat split; assumption.
Qed.
