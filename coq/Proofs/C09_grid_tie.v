(* C09 / C10 — the grid and index model of Model/FinSum.v + Model/Hom.v is the one generated from src/utils.rs (Gen/Grid.v):
   get_2d_indices, get_1d_index and Steps2D::value (with math::lerp) coincide with the translated definitions at T = R. *)
From Coq Require Import Reals Arith.
From SpdVerif Require Import Base.GridOps Gen.Grid Model.FinSum Model.Hom.
Local Open Scope R_scope.

Lemma onat_R n : onat ROps n = INR n.
Proof. induction n as [|n IH]; [reflexivity|]. cbn [onat]. rewrite IH, S_INR. reflexivity. Qed.

Theorem get_2d_indices_generated index cols : FinSum.get_2d_indices index cols = Grid.get_2d_indices index cols.
Proof. reflexivity. Qed.

Theorem get_1d_index_generated col row cols : FinSum.get_1d_index col row cols = Grid.get_1d_index col row cols.
Proof. reflexivity. Qed.

Theorem grid_point_generated (g : grid R) (k : nat) :
  (grid_ws ROps g k, grid_wi ROps g k) = Grid.steps2d_value Rops (g_x0 g) (g_x1 g) (g_cols g) (g_y0 g) (g_y1 g) (g_rows g) k.
Proof.
  unfold grid_ws, grid_wi, axis_value, lerp, Grid.steps2d_value, FinSum.get_2d_indices.
  cbn [fst snd ROps Rops o0 o1 oadd omul osub odiv o_add o_sub o_mul o_div o_nat o_z].
  rewrite !onat_R. destruct (Nat.ltb 1 (g_cols g)), (Nat.ltb 1 (g_rows g)); reflexivity.
Qed.

Theorem grid_len_generated (g : grid R) : grid_len g = Grid.steps2d_len (g_cols g) (g_rows g).
Proof. reflexivity. Qed.
