(* Tactics and lemmas for the generated correspondence cases of Gen/PMSimple.v (coq/Cases/PMS, never committed): the generated
   definitions are evaluated by interval arithmetic on the harness's inputs and compared with what the code returned. *)
From Coq Require Import Reals ZArith Lra Lia.
From Interval Require Import Tactic.
From SpdVerif Require Import Base.Rx Base.Vec3 Gen.PMSimple Proofs.Compose_pmsimple.
Local Open Scope R_scope.

(* the step count from an enclosure of 25 sqrt(L / 2.5 mm) between two consecutive integers (crystals up to 62.5 mm) *)
Lemma steps_value_small : forall L s, 0 < L -> L <= 62.5e-3 -> (0 <= s)%Z ->
  IZR s <= 25 * sqrt (L / 2.5e-3) < IZR s + 1 ->
  integration_steps_best_guess_gen L = Z.max (s + s mod 2 - 2) 4.
Proof.
  intros L s H0 H1 Hs [Ha Hb]. unfold integration_steps_best_guess_gen.
  destruct (steps_slices_small L H0 H1) as [_ E]. cbv zeta in E. rewrite E.
  assert (F : f64_as_usize (25 * sqrt (L / 2.5e-3)) = s).
  { unfold f64_as_usize, Int_part. rewrite <- (tech_up (25 * sqrt (L / 2.5e-3)) (s + 1)).
    - lia.
    - rewrite plus_IZR. lra.
    - rewrite plus_IZR. lra. }
  rewrite F. reflexivity.
Qed.

Ltac pms_ne_contra :=
  match goal with
  | E : ?a = ?b |- _ => exfalso; first [ assert (a < b) by interval; lra | assert (a > b) by interval; lra ]
  | E : ?a <> ?b |- _ => exfalso; apply E; lra
  end.

Ltac pms_case :=
  unfold phasematch_sinc_gen, phasematch_gaussian_gen, sinc_gen, gaussian_pm_gen, tan_gen, csc_gen, cot_gen;
  cbv beta iota delta [vx vy vz fst snd];
  repeat match goal with
         | |- context [Req_EM_T ?a ?b] => destruct (Req_EM_T a b)
         end;
  first [ interval with (i_prec 90) | pms_ne_contra ].

(* goal: integration_steps_best_guess_gen L = n, with the integer s = floor(25 sqrt(L / 2.5 mm)) supplied by the driver *)
Ltac pms_steps s :=
  rewrite (steps_value_small _ s); [vm_compute; reflexivity | lra | lra | lia | split; interval with (i_prec 90)].
