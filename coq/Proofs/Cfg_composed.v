(* Composition theorems: the contracts that the C16/C17/C20 theorems ASSUME of the oracle record are PROVED for the instance built
   from the generated / proved models of C03 (optimum idler) and C04 (auto poling period, auto crystal angle, Nelder-Mead). *)
From Coq Require Import Reals Lra List Bool ZArith QArith.
From SpdVerif Require Import Base.Rx Base.Vec3 Base.CfgNumOps Model.NumInst Spec.ConfigSpec Gen.ConfigTables Gen.ConfigSites Spec.ConfigUnits
  Model.ConfigTypes Model.Config Model.Cfg_Composed
  Proofs.C16_round Proofs.C16_roundtrip Proofs.C17_rules Proofs.C17_finite Proofs.C17_entry Proofs.C17_current Proofs.C20_idempotent.
From SpdVerif Require Proofs.C03_idler Proofs.C04_poling Proofs.C04_nm.
Import ListNotations.
Local Open Scope R_scope.

(* multiplying both wavelengths by the nm unit factor preserves their order: a law of R, no longer a hypothesis *)
Lemma scale_order_R : scale_order R_ops.
Proof.
  intros a b. cbn [nleb nmul R_ops]. rewrite u_nano_R. pose proof nano_pos as Hn.
  destruct (Rle_dec (a * nano) (b * nano)), (Rle_dec a b); try reflexivity; exfalso; nra.
Qed.

Lemma nsig_R x : normalize_angle_signed R_ops x =
  if Rlt_dec PI (rem_euclid x (2 * PI)) then rem_euclid x (2 * PI) - 2 * PI else rem_euclid x (2 * PI).
Proof.
  unfold normalize_angle_signed. rewrite ntwo_pi_R.
  change (nrem_euclid R_ops x (2 * PI)) with (rem_euclid x (2 * PI)). cbn [nltb nsub npi R_ops].
  destruct (Rlt_dec PI (rem_euclid x (2 * PI))); reflexivity.
Qed.

Section Composed.
  Variable index_of : crystal_setup R -> R -> vec -> GI.polarization -> R.
  Variable snell_inv : beam R -> R -> crystal_setup R -> option R.
  Variable sd_theta sd_period : @NM.ecost R -> @NM.ecost R -> bool.
  Local Notation KM := (oracles_of_model index_of snell_inv sd_theta sd_period).

  (* over the reals the two simplex searches and the external angle are total; only the Snell inverse remains *)
  Lemma searches_total_composed : (forall b e cs, snell_inv b e cs <> None) -> searches_total KM.
  Proof. intros H. repeat split; intros; cbn; try discriminate. apply H. Qed.

  Lemma geometry_defined_composed : geometry_defined KM.
  Proof. split; intros; cbn; discriminate. Qed.

  (* C17: never panics -- NO oracle hypothesis left except totality of the Snell inverse (C13) *)
  Theorem no_panic_composed U minpos c :
    (forall b e cs, snell_inv b e cs <> None) -> is_panic (try_as_spdc_now R_ops U KM minpos c) = false.
  Proof. intros H. apply now_no_panic; [exact scale_order_R | apply searches_total_composed; exact H]. Qed.

  Theorem ok_finite_or_err_composed U minpos c :
    (forall b e cs, snell_inv b e cs <> None) ->
    (forall signal, signal_step R_ops KM c = Ok signal ->
       dkz_c index_of signal (cfg_pump R_ops c) (cfg_cs0 R_ops c) MI.PPOff <> 0) ->
    (exists s, try_as_spdc_now R_ops U KM minpos c = Ok (s, [])) \/ (exists e, try_as_spdc_now R_ops U KM minpos c = Err e).
  Proof.
    intros H Hz. apply now_ok_finite_or_err; [exact scale_order_R | apply searches_total_composed; exact H | apply geometry_defined_composed |].
    intros signal Hs. specialize (Hz signal Hs). cbn [o_dkz0 oracles_of_model neqb R_ops]. rewrite n0_R.
    destruct (Req_EM_T _ 0); [contradiction | reflexivity].
  Qed.

  (* C20: the collinear contracts hold for the composed instance (external angle asin(n sin 0) = 0; emission angle of a collinear
     signal: val = ns sin(theta_s) / sqrt(arg) = 0 whatever the poling) *)
  Lemma collinear_sin b : collinear b -> sin (b_theta b) = 0.
  Proof. intros [-> | ->]; [apply sin_0 | apply sin_PI]. Qed.

  Theorem collinear_contract_composed : collinear_contract KM.
  Proof.
    split.
    - intros b cs th Hc. cbn [o_snell_ext oracles_of_model]. rewrite (collinear_sin b Hc), !Rmult_0_r. reflexivity.
    - intros b p cs pp1 pp2 Hc. cbn [o_idler_theta oracles_of_model]. f_equal. f_equal.
      unfold MI.opt_val. rewrite !C03_idler.idler_val_eq.
      assert (Hs : sin (MI.b_theta (ib b)) = 0).
      { unfold ib, MI.beam_new. cbn [MI.b_theta]. destruct Hc as [Hc | Hc]; rewrite Hc.
        - unfold GI.beam_new_theta. replace (0 / 1) with 0 by field.
          rewrite (rem_euclid_id 0 (2 * PI)) by (pose proof PI_RGT_0; lra).
          destruct (Rgt_dec 0 PI); [pose proof PI_RGT_0; lra |]. rewrite Rmult_1_r. apply sin_0.
        - unfold GI.beam_new_theta. replace (PI / 1) with PI by field.
          rewrite (rem_euclid_id PI (2 * PI)) by (pose proof PI_RGT_0; lra).
          destruct (Rgt_dec PI PI); [lra |]. rewrite Rmult_1_r. apply sin_PI. }
      rewrite Hs. unfold Rdiv. rewrite !Rmult_0_r, !Rmult_0_l. reflexivity.
  Qed.

  (* C20: optimising is idempotent for the composed instance -- no oracle hypothesis at all *)
  Theorem idempotent_composed minpos s s' nf :
    try_as_optimum_now KM minpos s = Ok (s', nf) -> try_as_optimum_now KM minpos s' = Ok (s', nf).
  Proof. apply optimum_idempotent_now. apply collinear_contract_composed. Qed.

  (* ---- the auto poling period of the composed instance IS C04's optimum_poling_period *)
  Theorem period_composed s p cs :
    signal_le_pump R_ops s p = false ->
    match MA.optimum_poling_period (dkz_c index_of s p cs) MA.real_ops sd_period (cs_length cs) with
    | MA.AutoInfinite => optimum_poling_period R_ops KM GA.opp_min_period s p cs = Ok (inr tt)
    | MA.AutoErr => optimum_poling_period R_ops KM GA.opp_min_period s p cs = Err EImpossiblePeriod
    | MA.AutoOk v => optimum_poling_period R_ops KM GA.opp_min_period s p cs = Ok (inl v)
    end.
  Proof.
    intros Hle. unfold optimum_poling_period, MA.optimum_poling_period. rewrite Hle.
    cbn [o_dkz0 o_nm_period oracles_of_model neqb nltb R_ops]. rewrite n0_R.
    unfold GA.opp_perfect, MA.z0.
    destruct (Req_EM_T (dkz_c index_of s p cs MI.PPOff) 0) as [Hz | Hz]; [reflexivity |].
    unfold GA.opp_reject, GA.opp_max_period.
    set (per := MA.nm_period (dkz_c index_of s p cs) MA.real_ops sd_period (cs_length cs)).
    replace (cs_length cs / 1) with (cs_length cs) by field.
    destruct (Rlt_dec (cs_length cs) per), (Rlt_dec per GA.opp_min_period); cbn [orb]; try reflexivity.
    destruct (bool_dec false true); [discriminate |].
    f_equal. f_equal. unfold GA.opp_value, GI.sign_mul, GI.sign_from, sign_mul, sign_of. cbn [nltb nneg R_ops]. rewrite n0_R.
    destruct (Rlt_dec (dkz_c index_of s p cs MI.PPOff) 0); ring.
  Qed.

  (* ... so an accepted automatic period obeys C04's sign-and-bound rule *)
  Theorem auto_period_sign_and_bound s p cs v :
    signal_le_pump R_ops s p = false ->
    optimum_poling_period R_ops KM GA.opp_min_period s p cs = Ok (inl v) ->
    0 < Rabs v <= cs_length cs /\
    (0 < dkz_c index_of s p cs MI.PPOff -> 0 < v) /\ (dkz_c index_of s p cs MI.PPOff < 0 -> v < 0).
  Proof.
    intros Hle H. pose proof (period_composed s p cs Hle) as Hc.
    destruct (MA.optimum_poling_period (dkz_c index_of s p cs) MA.real_ops sd_period (cs_length cs)) as [| w |] eqn:Ho;
      rewrite Hc in H; try discriminate.
    inversion H. subst w.
    destruct (C04_poling.sign_and_bound _ _ _ _ _ Ho) as (_ & _ & _ & Hb & Hp & Hn & _).
    repeat split; try apply Hb; assumption.
  Qed.

  (* ---- the auto crystal angle of the composed instance IS C04's optimum_theta, hence in [0, pi/2] *)
  Theorem theta_composed cs s p th :
    optimum_theta R_ops KM cs s p = Ok th ->
    exists e, o_snell_ext KM s cs = Some e /\
      th = MA.optimum_theta (theta_cost_c index_of snell_inv (erase_theta R_ops cs) e s p) MA.real_ops sd_theta /\
      0 <= th <= PI / 2.
  Proof.
    unfold optimum_theta. cbn [o_snell_ext o_nm_theta oracles_of_model].
    destruct (signal_le_pump R_ops s p); [discriminate |]. intros H. inversion H.
    eexists. split; [reflexivity |]. split; [reflexivity |]. apply C04_poling.theta_range.
  Qed.

  (* compute_sign of the composed instance is the sign of C03/C04's unpoled mismatch *)
  Theorem sign_composed s p cs sg :
    compute_sign R_ops KM s p cs = Ok sg -> sg = (if Rlt_dec (dkz_c index_of s p cs MI.PPOff) 0 then Neg else Pos).
  Proof.
    unfold compute_sign, sign_of. destruct (signal_le_pump R_ops s p); [discriminate |].
    cbn [o_dkz0 oracles_of_model nltb R_ops]. rewrite n0_R. intros H. inversion H.
    destruct (Rlt_dec (dkz_c index_of s p cs MI.PPOff) 0); reflexivity.
  Qed.

  (* ---- the optimum idler of the composed instance IS C03's optimum_idler (Model/Idler.v over Gen/Idler.v) *)
  Definition beam_wf (b : beam R) : Prop := 0 <= b_phi b < 2 * PI /\ - PI < b_theta b <= PI /\ 0 < b_wavelength b.

  Theorem idler_composed s p cs pp :
    beam_wf s -> 0 < b_wavelength p ->
    match MI.optimum_idler (index_of cs) (ipm (cs_pm cs)) (cs_counter cs) (ib s) (ipump p) (ipp pp) with
    | None => b_wavelength s <= b_wavelength p /\ idler_optimum R_ops KM s p cs pp = Err ESignalLePump
    | Some i => b_wavelength p < b_wavelength s /\ exists b, idler_optimum R_ops KM s p cs pp = Ok (b, []) /\ ib b = i
    end.
  Proof.
    intros (Hphi & Hth & Hls) Hlp.
    assert (Els : MI.b_lambda (ib s) = b_wavelength s) by (apply C03_idler.sig_lambda; exact Hls).
    assert (Elp : MI.b_lambda (ipump p) = b_wavelength p) by (apply C03_idler.pump_lambda; exact Hlp).
    unfold MI.optimum_idler, idler_optimum, signal_le_pump. rewrite Els, Elp. unfold GI.idler_error_cond. cbn [nleb R_ops].
    destruct (Rle_dec (b_wavelength s) (b_wavelength p)) as [Hle | Hnle]; [split; [exact Hle | reflexivity] |].
    split; [lra |]. cbn [o_idler_theta oracles_of_model]. eexists. split; [reflexivity |].
    unfold ib at 1. unfold beam_new. cbn [b_pol b_phi b_theta b_wavelength b_waist].
    set (th := GI.idler_theta _ _ _).
    unfold MI.beam_new. unfold GI.beam_new_direction.
    assert (Hp1 : forall x, GI.beam_new_phi x = rem_euclid x (2 * PI)).
    { intros x. unfold GI.beam_new_phi. replace (x / 1) with x by field. ring. }
    assert (Hn : forall x, normalize_angle R_ops x = rem_euclid x (2 * PI)).
    { intros x. unfold normalize_angle. rewrite ntwo_pi_R. reflexivity. }
    assert (Hidem : forall x, rem_euclid (rem_euclid x (2 * PI)) (2 * PI) = rem_euclid x (2 * PI)).
    { intros x. apply rem_euclid_id. apply rem_euclid_range. pose proof PI_RGT_0. lra. }
    assert (Hphi_eq : GI.beam_new_phi (normalize_angle R_ops (nadd R_ops (b_phi s) (npi R_ops))) =
                      GI.beam_new_phi (GI.idler_phi (MI.b_phi (MI.beam_new (ipol (b_pol s)) (b_phi s) (b_theta s) (b_wavelength s) (b_waist s, b_waist s))))).
    { cbn [MI.b_phi MI.beam_new nadd npi R_ops]. rewrite !Hp1, Hn, Hidem. unfold GI.idler_phi.
      rewrite ?(rem_euclid_id (b_phi s)) by exact Hphi.
      replace ((b_phi s + PI * 1) / 1) with (b_phi s + PI) by field. rewrite Rmult_1_r, Hidem. reflexivity. }
    assert (Ht1 : forall x, GI.beam_new_theta x = normalize_angle_signed R_ops x).
    { intros x. rewrite nsig_R. unfold GI.beam_new_theta. replace (x / 1) with x by field.
      destruct (Rgt_dec (rem_euclid x (2 * PI)) PI), (Rlt_dec PI (rem_euclid x (2 * PI))); try lra; ring. }
    assert (Hsig_idem : forall x, normalize_angle_signed R_ops (normalize_angle_signed R_ops x) = normalize_angle_signed R_ops x).
    { intros x. rewrite (nsig_R (normalize_angle_signed R_ops x)), nsig_R.
      pose proof PI_RGT_0 as Hpi. pose proof (rem_euclid_range x (2 * PI) ltac:(lra)) as Hr.
      destruct (Rlt_dec PI (rem_euclid x (2 * PI))) as [Hgt | Hngt].
      - rewrite (rem_euclid_shift (rem_euclid x (2 * PI) - 2 * PI) (2 * PI)) by lra.
        replace (rem_euclid x (2 * PI) - 2 * PI + 2 * PI) with (rem_euclid x (2 * PI)) by ring.
        destruct (Rlt_dec PI (rem_euclid x (2 * PI))); [reflexivity | contradiction].
      - rewrite Hidem. destruct (Rlt_dec PI (rem_euclid x (2 * PI))); [contradiction | reflexivity]. }
    assert (Hth_eq : GI.beam_new_theta (normalize_angle_signed R_ops th) = GI.beam_new_theta th).
    { rewrite !Ht1. apply Hsig_idem. }
    assert (Hpol : ipol (idler_polarization (cs_pm cs)) = GI.idler_polarization (ipm (cs_pm cs))) by (destruct (cs_pm cs); reflexivity).
    assert (Hw : nmul R_ops (b_wavelength s) (b_wavelength p) = b_wavelength s * b_wavelength p) by reflexivity.
    unfold idler_wavelength, GI.idler_wavelength. cbn [ndiv nmul nsub R_ops].
    change (MI.b_phi (ib s)) with (MI.b_phi (MI.beam_new (ipol (b_pol s)) (b_phi s) (b_theta s) (b_wavelength s) (b_waist s, b_waist s))).
    rewrite Hphi_eq, Hth_eq, Hpol. reflexivity.
  Qed.

  Lemma period_composed_ok s p cs v :
    optimum_poling_period R_ops KM GA.opp_min_period s p cs = Ok (inl v) ->
    MA.optimum_poling_period (dkz_c index_of s p cs) MA.real_ops sd_period (cs_length cs) = MA.AutoOk v.
  Proof.
    intros H. destruct (signal_le_pump R_ops s p) eqn:Hle.
    - unfold optimum_poling_period in H. rewrite Hle in H. discriminate.
    - pose proof (period_composed s p cs Hle) as Hc.
      destruct (MA.optimum_poling_period (dkz_c index_of s p cs) MA.real_ops sd_period (cs_length cs)); rewrite Hc in H; try discriminate.
      inversion H. reflexivity.
  Qed.

  (* C16: each "auto" field of a converted configuration IS the value C03 / C04's models compute on the setup built so far *)
  Theorem auto_is_explicit_composed U rj c s nf :
    try_as_spdc_steps R_ops U KM GA.opp_min_period rj c = Ok (s, nf) ->
    (cc_theta_deg (c_crystal c) = Auto ->
       exists e, o_snell_ext KM (s_signal s) (cfg_cs0 R_ops c) = Some e /\
         cs_theta (s_crystal s) =
           MA.optimum_theta (theta_cost_c index_of snell_inv (erase_theta R_ops (cfg_cs0 R_ops c)) e (s_signal s) (s_pump s)) MA.real_ops sd_theta /\
         0 <= cs_theta (s_crystal s) <= PI / 2) /\
    (forall a, c_pp c = PCConfig Auto a -> ~ In NFPeriodInfinite nf ->
       exists v, MA.optimum_poling_period (dkz_c index_of (s_signal s) (s_pump s) (cfg_cs0 R_ops c)) MA.real_ops sd_period
                   (cs_length (cfg_cs0 R_ops c)) = MA.AutoOk v /\
                 s_pp s = poling_new R_ops v (apod_of_cfg R_ops a) /\ 0 < Rabs v <= cs_length (cfg_cs0 R_ops c)) /\
    (c_idler c = Auto -> beam_wf (s_signal s) -> 0 < b_wavelength (s_pump s) ->
       exists i, MI.optimum_idler (index_of (s_crystal s)) (ipm (cs_pm (s_crystal s))) (cs_counter (s_crystal s))
                   (ib (s_signal s)) (ipump (s_pump s)) (ipp (s_pp s)) = Some i /\ ib (s_idler s) = i).
  Proof.
    intros H. destruct (auto_is_explicit R R_ops U KM GA.opp_min_period rj c s nf H) as (Ht & _ & Hp & _ & Hi & _).
    repeat split.
    - intros Ha. destruct (Ht Ha) as [Hth _]. destruct (theta_composed _ _ _ _ Hth) as (e & He & Heq & Hr).
      exists e. repeat split; assumption || apply Hr.
    - intros a Ha Hnf. destruct (Hp a Ha) as [(per & Hper & Hpp) | (_ & Hin)]; [| contradiction].
      exists per. pose proof (period_composed_ok _ _ _ _ Hper) as Ho. split; [exact Ho |]. split; [exact Hpp |].
      destruct (C04_poling.sign_and_bound _ _ _ _ _ Ho) as (_ & _ & _ & Hb & _). exact Hb.
    - intros Ha Hwf Hlp. destruct (Hi Ha) as (nfi & Hio).
      pose proof (idler_composed (s_signal s) (s_pump s) (s_crystal s) (s_pp s) Hwf Hlp) as Hc.
      destruct (MI.optimum_idler (index_of (s_crystal s)) (ipm (cs_pm (s_crystal s))) (cs_counter (s_crystal s))
                  (ib (s_signal s)) (ipump (s_pump s)) (ipp (s_pp s))) as [i0 |].
      + destruct Hc as (_ & b & Hb & Hib). rewrite Hb in Hio. inversion Hio. subst. exists (ib (s_idler s)). split; reflexivity.
      + destruct Hc as (_ & Hc). rewrite Hc in Hio. discriminate.
  Qed.
End Composed.

(* non-vacuity of the remaining hypothesis *)
Lemma snell_total_example : exists si : beam R -> R -> crystal_setup R -> option R, forall b e cs, si b e cs <> None.
Proof. exists (fun _ e _ => Some e). intros; discriminate. Qed.
