(* Composition theorems: the contracts that the C16/C17/C20 theorems ASSUME of the oracle record are PROVED for the instance built
   from the generated / proved models of C03 (optimum idler) and C04 (auto poling period, auto crystal angle, Nelder-Mead). *)
From Coq Require Import Reals Lra List Bool ZArith QArith FunctionalExtensionality.
From SpdVerif Require Import Base.Rx Base.Vec3 Base.CfgNumOps Model.NumInst Spec.ConfigSpec Gen.ConfigTables Gen.ConfigSites Spec.ConfigUnits
  Model.ConfigTypes Model.Config Model.Cfg_Composed
  Proofs.C16_round Proofs.C16_roundtrip Proofs.C17_rules Proofs.C17_finite Proofs.C17_entry Proofs.C20_idempotent Proofs.Cfg_flags_tac.
From SpdVerif Require Proofs.C03_idler Proofs.C04_poling Proofs.C04_nm.
Import ListNotations.
Local Open Scope R_scope.

(* multiplying both wavelengths by the nm unit factor preserves their order: a law of R, no longer a hypothesis *)
Lemma scale_order_R : scale_order R_ops.
Proof.
  intros a b. cbn [nleb nmul R_ops]. rewrite u_nano_R. pose proof nano_pos as Hn.
  destruct (Rle_dec (a * nano) (b * nano)), (Rle_dec a b); try reflexivity; exfalso; nra.
Qed.

Lemma nsig_R x : normalize_angle_signed R_ops x =
  if Rlt_dec PI (rem_euclid x (2 * PI)) then rem_euclid x (2 * PI) - 2 * PI else rem_euclid x (2 * PI).
Proof.
  unfold normalize_angle_signed. rewrite ntwo_pi_R.
  change (nrem_euclid R_ops x (2 * PI)) with (rem_euclid x (2 * PI)). cbn [nltb nsub npi R_ops].
  destruct (Rlt_dec PI (rem_euclid x (2 * PI))); reflexivity.
Qed.

Section Composed.
  Variable index_of : crystal_setup R -> R -> vec -> GI.polarization -> R.
  Variable snell_inv : beam R -> R -> crystal_setup R -> option R.
  Variable sd_theta sd_period : @NM.ecost R -> @NM.ecost R -> bool.
  Local Notation KM := (oracles_of_model index_of snell_inv sd_theta sd_period).

  (* ---- definedness, PER INPUT.  Over the reals every operation is total, but the implementation's are not: asin beyond
     [-1, 1], sqrt of a negative number, 0/0.  The composed oracles carry the guards (Model/Cfg_Composed.v); the theorems below
     carry, as named hypotheses about the configuration at hand, what the "nothing non-finite" clause needs, and -- only for a
     code WITHOUT the repairs of F7b / F7h (flags false) -- what "never panics" needs. *)
  (* the signal is not beyond total internal reflection in the crystal at its placeholder angle *)
  Definition no_total_internal_reflection (c : spdc_cfg R) : Prop :=
    forall signal, signal_step R_ops KM c = Ok signal -> is_auto (cc_theta_deg (c_crystal c)) = true -> c_pp c = PCOff ->
      snell_ext_defined index_of signal (cfg_cs0 R_ops c) = true.
  (* every candidate crystal angle has a defined cost (Snell inverse answers, unpoled idler defined) *)
  Definition angle_costs_defined (c : spdc_cfg R) : Prop :=
    forall signal, signal_step R_ops KM c = Ok signal -> is_auto (cc_theta_deg (c_crystal c)) = true -> c_pp c = PCOff ->
      forall x, theta_cost_defined index_of snell_inv (erase_theta R_ops (cfg_cs0 R_ops c))
                  (asin (snell_arg index_of signal (cfg_cs0 R_ops c))) signal (cfg_pump R_ops c) x = true.
  (* the unpoled mismatch the period search starts from is defined, and so is the cost of every candidate period *)
  Definition period_costs_defined (c : spdc_cfg R) : Prop :=
    forall signal a, signal_step R_ops KM c = Ok signal -> c_pp c = PCConfig Auto a ->
      idler_defined index_of signal (cfg_pump R_ops c) (cfg_cs0 R_ops c) MI.PPOff = true /\
      forall x, period_cost_defined index_of signal (cfg_pump R_ops c) (cfg_cs0 R_ops c) x = true.

  Lemma forallb_all {A} (f : A -> bool) l : (forall x, f x = true) -> forallb f l = true.
  Proof. intros H. apply forallb_forall. intros x _. apply H. Qed.

  (* with every candidate defined, the guarded searches ARE C04's *)
  Lemma theta_g_eq cs0 e s p : (forall x, theta_cost_defined index_of snell_inv cs0 e s p x = true) ->
    optimum_theta_g index_of snell_inv sd_theta cs0 e s p = MA.optimum_theta (theta_cost_c index_of snell_inv cs0 e s p) MA.real_ops sd_theta.
  Proof.
    intros H.
    assert (E : th_cost_g index_of snell_inv cs0 e s p = MA.th_cost (theta_cost_c index_of snell_inv cs0 e s p)).
    { apply functional_extensionality. intros x. unfold th_cost_g. rewrite H. reflexivity. }
    unfold optimum_theta_g, MA.optimum_theta. rewrite E. reflexivity.
  Qed.
  Lemma period_g_eq s p cs : (forall x, period_cost_defined index_of s p cs x = true) ->
    nm_period_g index_of sd_period s p cs = MA.nm_period (dkz_c index_of s p cs) MA.real_ops sd_period (cs_length cs).
  Proof.
    intros H.
    assert (E : pol_cost_g index_of s p cs = MA.pol_cost (dkz_c index_of s p cs) (cs_length cs)).
    { apply functional_extensionality. intros x. unfold pol_cost_g. rewrite H. reflexivity. }
    unfold nm_period_g, MA.nm_period. rewrite E. reflexivity.
  Qed.

  Lemma nm_theta_some cs0 e s p : (forall x, theta_cost_defined index_of snell_inv cs0 e s p x = true) ->
    o_nm_theta KM cs0 e s p = Some (MA.optimum_theta (theta_cost_c index_of snell_inv cs0 e s p) MA.real_ops sd_theta).
  Proof.
    intros H. cbn [o_nm_theta oracles_of_model]. destruct GA.nm_nan_cost_is_infinite.
    - rewrite (theta_g_eq _ _ _ _ H). reflexivity.
    - unfold theta_search_defined. rewrite (forallb_all _ _ H). reflexivity.
  Qed.
  Lemma nm_period_some s p cs : idler_defined index_of s p cs MI.PPOff = true ->
    (forall x, period_cost_defined index_of s p cs x = true) ->
    o_nm_period KM s p cs = Some (MA.nm_period (dkz_c index_of s p cs) MA.real_ops sd_period (cs_length cs)).
  Proof.
    intros Hi H. cbn [o_nm_period oracles_of_model]. destruct GA.nm_nan_cost_is_infinite.
    - rewrite Hi, (period_g_eq _ _ _ H). reflexivity.
    - unfold period_search_defined. rewrite Hi, (forallb_all _ _ H). reflexivity.
  Qed.

  (* what "never panics" needs of a code WITHOUT the repairs; every clause is void once the solver cannot fail *)
  Lemma searches_defined_composed c :
    (searches_cannot_fail = false -> forall b e cs, snell_inv b e cs <> None) ->
    (cfg_checks_total_reflection = false -> searches_cannot_fail = false -> no_total_internal_reflection c) ->
    (searches_cannot_fail = false -> angle_costs_defined c) ->
    (searches_cannot_fail = false -> period_costs_defined c) ->
    searches_defined_at R_ops KM c.
  Proof.
    intros H Htir Hang Hper. split; [exact H |]. intros signal Hs. split.
    - intros Hau Hoff. split.
      + intros Hf Hn. cbn [o_snell_ext oracles_of_model]. rewrite (Htir Hf Hn signal Hs Hau Hoff). discriminate.
      + intros Hn e He. revert He. cbn [o_snell_ext oracles_of_model].
        destruct (snell_ext_defined index_of signal (cfg_cs0 R_ops c)); [| discriminate]. intros He. inversion He. subst e.
        rewrite (nm_theta_some _ _ _ _ (Hang Hn signal Hs Hau Hoff)). discriminate.
    - intros a Ha Hn. destruct (Hper Hn signal a Hs Ha) as [Hi Hx]. rewrite (nm_period_some _ _ _ Hi Hx). discriminate.
  Qed.

  (* C17: never panics.  [rj]: the zero-period flag (any value); the entry validates the wavelengths *)
  Theorem no_panic_composed U minpos rj c :
    (searches_cannot_fail = false -> forall b e cs, snell_inv b e cs <> None) ->
    (cfg_checks_total_reflection = false -> searches_cannot_fail = false -> no_total_internal_reflection c) ->
    (searches_cannot_fail = false -> angle_costs_defined c) ->
    (searches_cannot_fail = false -> period_costs_defined c) ->
    is_panic (try_as_spdc R_ops U KM minpos rj true c) = false.
  Proof.
    intros H Htir Hang Hper. apply validated_no_panic_at; [exact scale_order_R | apply searches_defined_composed; assumption].
  Qed.

  (* a signal beyond total internal reflection with an automatic crystal angle: the error the property asks for once the code
     checks; the panic of finding F7b on a code with neither repair (concrete witness in Findings/C17_F7b_composed.v) *)
  Lemma tir_steps c signal rj minpos U :
    cfg_le R_ops c = false -> signal_step R_ops KM c = Ok signal ->
    is_auto (cc_theta_deg (c_crystal c)) = true -> c_pp c = PCOff ->
    snell_ext_defined index_of signal (cfg_cs0 R_ops c) = false ->
    try_as_spdc R_ops U KM minpos rj true c =
      if cfg_checks_total_reflection then Err ETotalReflection
      else bind (bind (optimum_theta R_ops KM (cfg_cs0 R_ops c) signal (cfg_pump R_ops c))
                      (fun th => Ok (set_crystal_theta (cfg_cs0 R_ops c) th)))
             (fun cs => bind (idler_step R_ops KM c signal cs PolOff)
                (fun idn => Ok (finish_spdc R_ops U KM c signal PolOff [] cs (fst idn) (snd idn)))).
  Proof.
    intros Hle Hs Hau Hoff Hd. unfold try_as_spdc. rewrite Hle. cbn [andb]. unfold try_as_spdc_steps.
    fold (signal_step R_ops KM c). rewrite Hs. cbn [bind]. unfold poling_step, poling_of_cfg. rewrite Hoff. cbn [bind fst snd].
    unfold theta_step. rewrite Hau. cbn [is_pol_off]. unfold ext_defined. cbn [o_snell_ext oracles_of_model]. rewrite Hd.
    cbn [negb]. rewrite andb_true_r. destruct cfg_checks_total_reflection; reflexivity.
  Qed.

  Theorem tir_is_error_composed U minpos rj c signal :
    cfg_checks_total_reflection = true ->
    cfg_le R_ops c = false -> signal_step R_ops KM c = Ok signal ->
    is_auto (cc_theta_deg (c_crystal c)) = true -> c_pp c = PCOff ->
    snell_ext_defined index_of signal (cfg_cs0 R_ops c) = false ->
    try_as_spdc R_ops U KM minpos rj true c = Err ETotalReflection.
  Proof. intros Hf Hle Hs Hau Hoff Hd. rewrite (tir_steps c signal rj minpos U Hle Hs Hau Hoff Hd), Hf. reflexivity. Qed.

  Theorem tir_panics_composed U minpos rj c signal :
    cfg_checks_total_reflection = false -> searches_cannot_fail = false ->
    cfg_le R_ops c = false -> signal_step R_ops KM c = Ok signal ->
    is_auto (cc_theta_deg (c_crystal c)) = true -> c_pp c = PCOff ->
    snell_ext_defined index_of signal (cfg_cs0 R_ops c) = false ->
    try_as_spdc R_ops U KM minpos rj true c = Panic SiteNelderMeadUnwrap.
  Proof.
    intros Hf Hn Hle Hs Hau Hoff Hd. rewrite (tir_steps c signal rj minpos U Hle Hs Hau Hoff Hd), Hf.
    unfold optimum_theta. cbn [o_snell_ext oracles_of_model]. rewrite Hd, Hn. reflexivity.
  Qed.

  (* ---- "nothing non-finite": the index along z is never 0 (a property of the index function; true of every physical crystal),
     the emission angle of THIS configuration's optimum idler is defined, the searches' candidates have defined costs *)
  Definition idler_defined_at (minpos : R) (rj : bool) (c : spdc_cfg R) : Prop :=
    forall signal pp nfp cs, signal_step R_ops KM c = Ok signal ->
      poling_step R_ops KM minpos rj c signal = Ok (pp, nfp) -> theta_step R_ops KM c signal pp = Ok cs ->
      idler_defined index_of signal (cfg_pump R_ops c) cs (ipp pp) = true.

  Lemma geometry_defined_composed minpos rj c :
    (forall cs l pol, index_of cs l ez pol <> 0) -> idler_defined_at minpos rj c ->
    geometry_defined_at R_ops KM minpos rj c.
  Proof.
    intros Hn Hi. split.
    - intros cs l p. cbn [o_waist_pos oracles_of_model]. unfold waist_defined.
      destruct (Req_EM_T (index_of cs l ez (ipol p)) 0) as [E | _]; [exfalso; exact (Hn _ _ _ E) | discriminate].
    - intros signal pp nfp cs Hs Hp Ht. cbn [o_idler_theta oracles_of_model]. rewrite (Hi signal pp nfp cs Hs Hp Ht). discriminate.
  Qed.

  Lemma search_results_defined_composed c :
    (forall b e cs, snell_inv b e cs <> None) ->
    (cfg_checks_total_reflection = false -> no_total_internal_reflection c) ->
    angle_costs_defined c -> period_costs_defined c ->
    search_results_defined_at R_ops KM c.
  Proof.
    intros H Htir Hang Hper. split; [exact H |]. intros signal Hs. repeat split.
    - intros Hau Hoff e He. revert He. cbn [o_snell_ext oracles_of_model].
      destruct (snell_ext_defined index_of signal (cfg_cs0 R_ops c)); [| discriminate]. intros He. inversion He. subst e.
      rewrite (nm_theta_some _ _ _ _ (Hang signal Hs Hau Hoff)). discriminate.
    - intros Hf Hau Hoff. cbn [o_snell_ext oracles_of_model]. rewrite (Htir Hf signal Hs Hau Hoff). discriminate.
    - intros a Ha _. destruct (Hper signal a Hs Ha) as [Hi Hx]. rewrite (nm_period_some _ _ _ Hi Hx). discriminate.
  Qed.

  Theorem ok_finite_or_err_composed U minpos rj c :
    (forall b e cs, snell_inv b e cs <> None) ->
    (cfg_checks_total_reflection = false -> no_total_internal_reflection c) ->
    angle_costs_defined c -> period_costs_defined c ->
    (forall cs l pol, index_of cs l ez pol <> 0) -> idler_defined_at minpos rj c ->
    (forall signal, signal_step R_ops KM c = Ok signal ->
       dkz_c index_of signal (cfg_pump R_ops c) (cfg_cs0 R_ops c) MI.PPOff <> 0) ->
    (exists s, try_as_spdc R_ops U KM minpos rj true c = Ok (s, [])) \/ (exists e, try_as_spdc R_ops U KM minpos rj true c = Err e).
  Proof.
    intros H Htir Hang Hper Hn Hi Hz.
    apply validated_ok_finite_or_err_at; [exact scale_order_R | apply search_results_defined_composed; assumption
                                         | apply geometry_defined_composed; assumption |].
    intros signal Hs. specialize (Hz signal Hs). cbn [o_dkz0 oracles_of_model neqb R_ops]. rewrite n0_R.
    destruct (Req_EM_T _ 0); [contradiction | reflexivity].
  Qed.

  (* C20: the contract of optimising THIS setup holds for the composed instance (external angle of a collinear signal:
     n sin 0 = 0 is inside [-1, 1] and asin 0 does not depend on the crystal angle; emission angle of a collinear signal:
     val = ns sin(theta_s) / sqrt(arg) = 0 whatever the poling) provided the idler's angle is DEFINED (arg > 0) under the poling
     before and after the optimisation *)
  Lemma collinear_sin b : collinear b -> sin (b_theta b) = 0.
  Proof. intros [-> | ->]; [apply sin_0 | apply sin_PI]. Qed.

  Definition idler_defined_before_and_after (minpos : R) (s : spdc R) : Prop :=
    forall cs pp nfp, opt_crystal_poling R_ops KM minpos s (opt_signal R_ops s) = Ok (cs, pp, nfp) ->
      idler_defined index_of (opt_signal R_ops s) (s_pump s) cs (ipp pp) = true /\
      idler_defined index_of (opt_signal R_ops s) (s_pump s) cs (ipp (s_pp s)) = true.

  Lemma in_unit_0 : in_unit 0 = true.
  Proof. unfold in_unit, Rleb. destruct (Rle_dec (-1) 0), (Rle_dec 0 1); try reflexivity; exfalso; lra. Qed.

  Lemma ib_sin_collinear b : collinear b -> sin (MI.b_theta (ib b)) = 0.
  Proof.
    intros Hc. unfold ib, MI.beam_new. cbn [MI.b_theta]. destruct Hc as [Hc | Hc]; rewrite Hc.
    - unfold GI.beam_new_theta. replace (0 / 1) with 0 by field.
      rewrite (rem_euclid_id 0 (2 * PI)) by (pose proof PI_RGT_0; lra).
      destruct (Rgt_dec 0 PI); [pose proof PI_RGT_0; lra |]. rewrite Rmult_1_r. apply sin_0.
    - unfold GI.beam_new_theta. replace (PI / 1) with PI by field.
      rewrite (rem_euclid_id PI (2 * PI)) by (pose proof PI_RGT_0; lra).
      destruct (Rgt_dec PI PI); [lra |]. rewrite Rmult_1_r. apply sin_PI.
  Qed.

  Theorem optimum_contract_composed minpos s : idler_defined_before_and_after minpos s -> optimum_contract_at KM minpos s.
  Proof.
    intros Hdef. pose proof (opt_signal_collinear s) as Hc. split.
    - intros th. cbn [o_snell_ext oracles_of_model]. unfold snell_ext_defined, snell_arg.
      rewrite (collinear_sin _ Hc), !Rmult_0_r. reflexivity.
    - intros cs pp nfp Hcp. destruct (Hdef cs pp nfp Hcp) as [D1 D2]. cbn [o_idler_theta oracles_of_model]. rewrite D1, D2.
      f_equal. f_equal. unfold MI.opt_val. rewrite !C03_idler.idler_val_eq.
      rewrite (ib_sin_collinear _ Hc). unfold Rdiv. rewrite !Rmult_0_r, !Rmult_0_l. reflexivity.
  Qed.

  (* C20: optimising is idempotent for the composed instance *)
  Theorem idempotent_composed minpos s s' nf :
    idler_defined_before_and_after minpos s ->
    try_as_optimum_now KM minpos s = Ok (s', nf) -> try_as_optimum_now KM minpos s' = Ok (s', nf).
  Proof. intros Hdef. apply optimum_idempotent_now_at. apply optimum_contract_composed. exact Hdef. Qed.

  (* ---- the auto poling period of the composed instance IS C04's optimum_poling_period (every candidate defined) *)
  Theorem period_composed s p cs :
    signal_le_pump R_ops s p = false ->
    idler_defined index_of s p cs MI.PPOff = true -> (forall x, period_cost_defined index_of s p cs x = true) ->
    match MA.optimum_poling_period (dkz_c index_of s p cs) MA.real_ops sd_period (cs_length cs) with
    | MA.AutoInfinite => optimum_poling_period R_ops KM GA.opp_min_period s p cs = Ok (inr tt)
    | MA.AutoErr => optimum_poling_period R_ops KM GA.opp_min_period s p cs = Err EImpossiblePeriod
    | MA.AutoOk v => optimum_poling_period R_ops KM GA.opp_min_period s p cs = Ok (inl v)
    end.
  Proof.
    intros Hle Hi Hdef. unfold optimum_poling_period, MA.optimum_poling_period. rewrite Hle, (nm_period_some _ _ _ Hi Hdef).
    cbn [o_dkz0 oracles_of_model neqb nltb R_ops]. rewrite n0_R.
    unfold GA.opp_perfect, MA.z0.
    destruct (Req_EM_T (dkz_c index_of s p cs MI.PPOff) 0) as [Hz | Hz]; [reflexivity |].
    set (per := MA.nm_period (dkz_c index_of s p cs) MA.real_ops sd_period (cs_length cs)).
    (* the generated acceptance test through its specification (C04_poling.reject_iff), whatever its syntactic form *)
    rewrite C04_poling.max_period_eq.
    pose proof (C04_poling.reject_iff GA.opp_min_period (cs_length cs) per) as Hrej.
    destruct (GA.opp_reject GA.opp_min_period (cs_length cs) per) eqn:Er.
    { destruct (proj1 Hrej eq_refl) as [Hgt | Hlt].
      - destruct (Rlt_dec (cs_length cs) per); [reflexivity | contradiction].
      - destruct (Rlt_dec (cs_length cs) per); [reflexivity |]. destruct (Rlt_dec per GA.opp_min_period); [reflexivity | contradiction]. }
    assert (Hn : ~ (cs_length cs < per \/ per < GA.opp_min_period)) by (intros Hc; apply Hrej in Hc; discriminate Hc).
    destruct (Rlt_dec (cs_length cs) per); [exfalso; apply Hn; left; assumption |].
    destruct (Rlt_dec per GA.opp_min_period); [exfalso; apply Hn; right; assumption |]. cbn [orb].
    f_equal. f_equal. unfold GA.opp_value, GI.sign_mul, GI.sign_from, sign_mul, sign_of. cbn [nltb nneg R_ops]. rewrite n0_R.
    destruct (Rlt_dec (dkz_c index_of s p cs MI.PPOff) 0); ring.
  Qed.

  Lemma period_composed_ok s p cs v :
    idler_defined index_of s p cs MI.PPOff = true -> (forall x, period_cost_defined index_of s p cs x = true) ->
    optimum_poling_period R_ops KM GA.opp_min_period s p cs = Ok (inl v) ->
    MA.optimum_poling_period (dkz_c index_of s p cs) MA.real_ops sd_period (cs_length cs) = MA.AutoOk v.
  Proof.
    intros Hi Hdef H. destruct (signal_le_pump R_ops s p) eqn:Hle.
    - unfold optimum_poling_period in H. rewrite Hle in H. discriminate.
    - pose proof (period_composed s p cs Hle Hi Hdef) as Hc.
      destruct (MA.optimum_poling_period (dkz_c index_of s p cs) MA.real_ops sd_period (cs_length cs)); rewrite Hc in H; try discriminate.
      inversion H. reflexivity.
  Qed.

  (* ... so an accepted automatic period obeys C04's sign-and-bound rule *)
  Theorem auto_period_sign_and_bound s p cs v :
    idler_defined index_of s p cs MI.PPOff = true -> (forall x, period_cost_defined index_of s p cs x = true) ->
    optimum_poling_period R_ops KM GA.opp_min_period s p cs = Ok (inl v) ->
    0 < Rabs v <= cs_length cs /\
    (0 < dkz_c index_of s p cs MI.PPOff -> 0 < v) /\ (dkz_c index_of s p cs MI.PPOff < 0 -> v < 0).
  Proof.
    intros Hi Hdef H. pose proof (period_composed_ok s p cs v Hi Hdef H) as Ho.
    destruct (C04_poling.sign_and_bound _ _ _ _ _ Ho) as (_ & _ & _ & Hb & Hp & Hn & _).
    repeat split; try apply Hb; assumption.
  Qed.

  (* ---- the auto crystal angle of the composed instance IS C04's optimum_theta (every candidate defined), hence in [0, pi/2] *)
  Theorem theta_composed cs s p th e :
    o_snell_ext KM s cs = Some e ->
    (forall x, theta_cost_defined index_of snell_inv (erase_theta R_ops cs) e s p x = true) ->
    optimum_theta R_ops KM cs s p = Ok th ->
    th = MA.optimum_theta (theta_cost_c index_of snell_inv (erase_theta R_ops cs) e s p) MA.real_ops sd_theta /\
    0 <= th <= PI / 2.
  Proof.
    intros He Hdef. unfold optimum_theta. rewrite He, (nm_theta_some _ _ _ _ Hdef).
    destruct (signal_le_pump R_ops s p); [discriminate |]. intros H. inversion H.
    split; [reflexivity |]. apply C04_poling.theta_range.
  Qed.

  (* compute_sign of the composed instance is the sign of C03/C04's unpoled mismatch *)
  Theorem sign_composed s p cs sg :
    compute_sign R_ops KM s p cs = Ok sg -> sg = (if Rlt_dec (dkz_c index_of s p cs MI.PPOff) 0 then Neg else Pos).
  Proof.
    unfold compute_sign, sign_of. destruct (signal_le_pump R_ops s p); [discriminate |].
    cbn [o_dkz0 oracles_of_model nltb R_ops]. rewrite n0_R. intros H. inversion H.
    destruct (Rlt_dec (dkz_c index_of s p cs MI.PPOff) 0); reflexivity.
  Qed.

  (* ---- the optimum idler of the composed instance IS C03's optimum_idler (Model/Idler.v over Gen/Idler.v) *)
  Definition beam_wf (b : beam R) : Prop := 0 <= b_phi b < 2 * PI /\ - PI < b_theta b <= PI /\ 0 < b_wavelength b.

  Theorem idler_composed s p cs pp :
    beam_wf s -> 0 < b_wavelength p -> idler_defined index_of s p cs (ipp pp) = true ->
    match MI.optimum_idler (index_of cs) (ipm (cs_pm cs)) (cs_counter cs) (ib s) (ipump p) (ipp pp) with
    | None => b_wavelength s <= b_wavelength p /\ idler_optimum R_ops KM s p cs pp = Err ESignalLePump
    | Some i => b_wavelength p < b_wavelength s /\ exists b, idler_optimum R_ops KM s p cs pp = Ok (b, []) /\ ib b = i
    end.
  Proof.
    intros (Hphi & Hth & Hls) Hlp Hdef.
    assert (Els : MI.b_lambda (ib s) = b_wavelength s) by (apply C03_idler.sig_lambda; exact Hls).
    assert (Elp : MI.b_lambda (ipump p) = b_wavelength p) by (apply C03_idler.pump_lambda; exact Hlp).
    unfold MI.optimum_idler, idler_optimum, signal_le_pump. rewrite Els, Elp. unfold GI.idler_error_cond. cbn [nleb R_ops].
    destruct (Rle_dec (b_wavelength s) (b_wavelength p)) as [Hle | Hnle]; [split; [exact Hle | reflexivity] |].
    split; [lra |]. cbn [o_idler_theta oracles_of_model]. rewrite Hdef. eexists. split; [reflexivity |].
    unfold ib at 1. unfold beam_new. cbn [b_pol b_phi b_theta b_wavelength b_waist].
    set (th := GI.idler_theta _ _ _).
    unfold MI.beam_new. unfold GI.beam_new_direction.
    assert (Hp1 : forall x, GI.beam_new_phi x = rem_euclid x (2 * PI)).
    { intros x. unfold GI.beam_new_phi. replace (x / 1) with x by field. ring. }
    assert (Hn : forall x, normalize_angle R_ops x = rem_euclid x (2 * PI)).
    { intros x. unfold normalize_angle. rewrite ntwo_pi_R. reflexivity. }
    assert (Hidem : forall x, rem_euclid (rem_euclid x (2 * PI)) (2 * PI) = rem_euclid x (2 * PI)).
    { intros x. apply rem_euclid_id. apply rem_euclid_range. pose proof PI_RGT_0. lra. }
    assert (Hphi_eq : GI.beam_new_phi (normalize_angle R_ops (nadd R_ops (b_phi s) (npi R_ops))) =
                      GI.beam_new_phi (GI.idler_phi (MI.b_phi (MI.beam_new (ipol (b_pol s)) (b_phi s) (b_theta s) (b_wavelength s) (b_waist s, b_waist s))))).
    { cbn [MI.b_phi MI.beam_new nadd npi R_ops]. rewrite !Hp1, Hn, Hidem. unfold GI.idler_phi.
      rewrite ?(rem_euclid_id (b_phi s)) by exact Hphi.
      replace ((b_phi s + PI * 1) / 1) with (b_phi s + PI) by field. rewrite Rmult_1_r, Hidem. reflexivity. }
    assert (Ht1 : forall x, GI.beam_new_theta x = normalize_angle_signed R_ops x).
    { intros x. rewrite nsig_R. unfold GI.beam_new_theta. replace (x / 1) with x by field.
      destruct (Rgt_dec (rem_euclid x (2 * PI)) PI), (Rlt_dec PI (rem_euclid x (2 * PI))); try lra; ring. }
    assert (Hsig_idem : forall x, normalize_angle_signed R_ops (normalize_angle_signed R_ops x) = normalize_angle_signed R_ops x).
    { intros x. rewrite (nsig_R (normalize_angle_signed R_ops x)), nsig_R.
      pose proof PI_RGT_0 as Hpi. pose proof (rem_euclid_range x (2 * PI) ltac:(lra)) as Hr.
      destruct (Rlt_dec PI (rem_euclid x (2 * PI))) as [Hgt | Hngt].
      - rewrite (rem_euclid_shift (rem_euclid x (2 * PI) - 2 * PI) (2 * PI)) by lra.
        replace (rem_euclid x (2 * PI) - 2 * PI + 2 * PI) with (rem_euclid x (2 * PI)) by ring.
        destruct (Rlt_dec PI (rem_euclid x (2 * PI))); [reflexivity | contradiction].
      - rewrite Hidem. destruct (Rlt_dec PI (rem_euclid x (2 * PI))); [contradiction | reflexivity]. }
    assert (Hth_eq : GI.beam_new_theta (normalize_angle_signed R_ops th) = GI.beam_new_theta th).
    { rewrite !Ht1. apply Hsig_idem. }
    assert (Hpol : ipol (idler_polarization (cs_pm cs)) = GI.idler_polarization (ipm (cs_pm cs))) by (destruct (cs_pm cs); reflexivity).
    assert (Hw : nmul R_ops (b_wavelength s) (b_wavelength p) = b_wavelength s * b_wavelength p) by reflexivity.
    unfold idler_wavelength, GI.idler_wavelength. cbn [ndiv nmul nsub R_ops].
    change (MI.b_phi (ib s)) with (MI.b_phi (MI.beam_new (ipol (b_pol s)) (b_phi s) (b_theta s) (b_wavelength s) (b_waist s, b_waist s))).
    rewrite Hphi_eq, Hth_eq, Hpol. reflexivity.
  Qed.

  (* C16: each "auto" field of a converted configuration IS the value C03 / C04's models compute on the setup built so far, where
     the candidates of the searches have defined costs (with the NaN-safe solver an undefined candidate costs +infinity and the
     result is the guarded search's, not C04's) *)
  Theorem auto_is_explicit_composed U rj c s nf :
    try_as_spdc_steps R_ops U KM GA.opp_min_period rj c = Ok (s, nf) ->
    (cc_theta_deg (c_crystal c) = Auto -> forall e, o_snell_ext KM (s_signal s) (cfg_cs0 R_ops c) = Some e ->
       (forall x, theta_cost_defined index_of snell_inv (erase_theta R_ops (cfg_cs0 R_ops c)) e (s_signal s) (s_pump s) x = true) ->
         cs_theta (s_crystal s) =
           MA.optimum_theta (theta_cost_c index_of snell_inv (erase_theta R_ops (cfg_cs0 R_ops c)) e (s_signal s) (s_pump s)) MA.real_ops sd_theta /\
         0 <= cs_theta (s_crystal s) <= PI / 2) /\
    (forall a, c_pp c = PCConfig Auto a -> ~ In NFPeriodInfinite nf ->
       idler_defined index_of (s_signal s) (s_pump s) (cfg_cs0 R_ops c) MI.PPOff = true ->
       (forall x, period_cost_defined index_of (s_signal s) (s_pump s) (cfg_cs0 R_ops c) x = true) ->
       exists v, MA.optimum_poling_period (dkz_c index_of (s_signal s) (s_pump s) (cfg_cs0 R_ops c)) MA.real_ops sd_period
                   (cs_length (cfg_cs0 R_ops c)) = MA.AutoOk v /\
                 s_pp s = poling_new R_ops v (apod_of_cfg R_ops a) /\ 0 < Rabs v <= cs_length (cfg_cs0 R_ops c)) /\
    (c_idler c = Auto -> beam_wf (s_signal s) -> 0 < b_wavelength (s_pump s) ->
       idler_defined index_of (s_signal s) (s_pump s) (s_crystal s) (ipp (s_pp s)) = true ->
       exists i, MI.optimum_idler (index_of (s_crystal s)) (ipm (cs_pm (s_crystal s))) (cs_counter (s_crystal s))
                   (ib (s_signal s)) (ipump (s_pump s)) (ipp (s_pp s)) = Some i /\ ib (s_idler s) = i).
  Proof.
    intros H. destruct (auto_is_explicit R R_ops U KM GA.opp_min_period rj c s nf H) as (Ht & _ & Hp & _ & Hi & _).
    repeat split.
    - destruct (Ht H0) as [Hth _]. apply (theta_composed _ _ _ _ _ H1 H2 Hth).
    - destruct (Ht H0) as [Hth _]. apply (theta_composed _ _ _ _ _ H1 H2 Hth).
    - destruct (Ht H0) as [Hth _]. apply (theta_composed _ _ _ _ _ H1 H2 Hth).
    - intros a Ha Hnf Hid Hdef. destruct (Hp a Ha) as [(per & Hper & Hpp) | (_ & Hin)]; [| contradiction].
      exists per. pose proof (period_composed_ok _ _ _ _ Hid Hdef Hper) as Ho. split; [exact Ho |]. split; [exact Hpp |].
      destruct (C04_poling.sign_and_bound _ _ _ _ _ Ho) as (_ & _ & _ & Hb & _). exact Hb.
    - intros Ha Hwf Hlp Hdef. destruct (Hi Ha) as (nfi & Hio).
      pose proof (idler_composed (s_signal s) (s_pump s) (s_crystal s) (s_pp s) Hwf Hlp Hdef) as Hc.
      destruct (MI.optimum_idler (index_of (s_crystal s)) (ipm (cs_pm (s_crystal s))) (cs_counter (s_crystal s))
                  (ib (s_signal s)) (ipump (s_pump s)) (ipp (s_pp s))) as [i0 |].
      + destruct Hc as (_ & b & Hb & Hib). rewrite Hb in Hio. inversion Hio. subst. exists (ib (s_idler s)). split; reflexivity.
      + destruct Hc as (_ & Hc). rewrite Hc in Hio. discriminate.
  Qed.
  (* C16: for a COLLINEAR finished signal the automatic crystal angle IS the explicit optimum call on the finished setup *)
  Theorem auto_theta_final_composed U minpos rj c s nf :
    try_as_spdc_steps R_ops U KM minpos rj c = Ok (s, nf) -> cc_theta_deg (c_crystal c) = Auto -> collinear (s_signal s) ->
    optimum_theta R_ops KM (s_crystal s) (s_signal s) (s_pump s) = Ok (cs_theta (s_crystal s)).
  Proof.
    intros H Ha Hc. apply (auto_theta_is_final_optimum R R_ops U KM minpos rj c s nf H Ha).
    intros th. cbn [o_snell_ext oracles_of_model]. unfold snell_ext_defined, snell_arg.
    rewrite (collinear_sin _ Hc), !Rmult_0_r. reflexivity.
  Qed.
End Composed.

(* non-vacuity of the remaining hypothesis *)
Lemma snell_total_example : exists si : beam R -> R -> crystal_setup R -> option R, forall b e cs, si b e cs <> None.
Proof. exists (fun _ e _ => Some e). intros; discriminate. Qed.
