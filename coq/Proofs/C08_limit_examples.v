(* Non-vacuity witness for the hypotheses of the limit theorems on the generated integrands (the C08_limit theorems): a collinear setup
   with round beams, no apodization, and the effective poling wavenumber chosen so that ff = L Δk_z / 2 = 0 exactly. *)
From Coq Require Import Reals Lra.
From SpdVerif Require Import Base.Rx Base.CxPM Model.PMParams Gen.PMIntegrand Gen.PMSingles Proofs.C05_closure.
Local Open Scope R_scope.

Definition pe := pm_example_collinear.
Definition limit_example : pm_params := {|
  p_L := p_L pe; p_phi_s := p_phi_s pe; p_phi_i := p_phi_i pe;
  p_theta_s := 0; p_theta_i := 0; p_theta_s_e := 0; p_theta_i_e := 0;
  p_wsx := 0.002; p_wsy := 0.002; p_wix := 0.003; p_wiy := 0.003; p_wpx := 0.0025; p_wpy := 0.0025;
  p_z0s := p_z0s pe; p_z0i := p_z0i pe; p_dirz_s := 1; p_dirz_i := 1;
  p_omega_s := 1.2e15; p_omega_i := 1.23e15; p_n_p := 1.78; p_n_s := 1.74; p_n_i := 1.81;
  p_rho := 0.003;
  p_k_eff := 1.78 * (1.2e15 + 1.23e15) / 299792458 - 1 * (1.74 * 1.2e15 / 299792458) - 1 * (1.81 * 1.23e15 / 299792458);
  p_apod := fun z => 1;
  p_pp_on := true; p_lambda_p := p_lambda_p pe; p_omega_p0 := p_omega_p0 pe; p_bw := p_bw pe;
  p_power := p_power pe; p_deff := p_deff pe; p_thr := p_thr pe;
  p_lambda_s := p_lambda_s pe; p_lambda_i := p_lambda_i pe; p_omega_s0 := p_omega_s0 pe; p_omega_i0 := p_omega_i0 pe;
  p_n_s0 := p_n_s0 pe; p_n_i0 := p_n_i0 pe; p_n_p0 := p_n_p0 pe; p_ng_s := p_ng_s pe; p_ng_i := p_ng_i pe; p_ng_p := p_ng_p pe
|}.

Lemma signum_one : signum 1 = 1.
Proof. unfold signum. destruct (Rle_dec 0 1); [reflexivity|lra]. Qed.

Lemma limit_example_ok :
  pm_collinear limit_example /\
  p_wpx limit_example = 0.0025 /\ p_wpy limit_example = 0.0025 /\ p_wsx limit_example = 0.002 /\ p_wsy limit_example = 0.002 /\
  p_wix limit_example = 0.003 /\ p_wiy limit_example = 0.003 /\
  (forall z, p_apod limit_example z = 1) /\ pm_ff limit_example = 0 /\ pms_k_p limit_example <> 0 /\ pms_k_s limit_example <> 0.
Proof.
  split; [repeat split; reflexivity|]. do 6 (split; [reflexivity|]).
  split; [intros; reflexivity|]. split; [|split].
  - unfold pm_ff, pm_dksi, pm_k_p, pm_k_s, pm_k_i, pm_omega_p, pm_sign_ks, pm_sign_ki, limit_example.
    cbn [p_L p_n_p p_n_s p_n_i p_omega_s p_omega_i p_dirz_s p_dirz_i p_k_eff]. rewrite signum_one. field.
  - unfold pms_k_p, pms_omega_p, limit_example. cbn [p_n_p p_omega_s p_omega_i]. apply Rgt_not_eq. apply Rdiv_lt_0_compat; lra.
  - unfold pms_k_s, pms_sign_ks, limit_example. cbn [p_n_s p_omega_s p_dirz_s]. rewrite signum_one. apply Rgt_not_eq.
    apply Rmult_lt_0_compat; [lra|]. apply Rdiv_lt_0_compat; lra.
Qed.
